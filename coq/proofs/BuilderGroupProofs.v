(** Proofs about the situation-builder model, continued: the memberships and roles that
    [add_group_entity] records are the declared ones, and the persons left out get a group of
    their own (document level, for documents without axes). *)
From Coq Require Import ZArith QArith List Bool String Lia Permutation.
From Verif Require Import Base Cal Tables Period Builder BuilderSpec BuilderProofs.
Import ListNotations.
Open Scope Z_scope.
Open Scope res_scope.

Lemma NoDup_app_disjoint {A} (l1 l2 : list A) :
  NoDup l1 -> NoDup l2 -> (forall p, In p l1 -> In p l2 -> False) -> NoDup (l1 ++ l2).
Proof.
  induction l1 as [|a l1 IH]; intros N1 N2 D; cbn [app]; [assumption|].
  inversion N1; subst. constructor.
  - intros I. apply in_app_or in I. destruct I as [I|I]; [contradiction|].
    eapply D; [left; reflexivity|eassumption].
  - apply IH; [assumption|assumption|]. intros p I1 I2. eapply D; [right; eassumption|eassumption].
Qed.

(** * Allocation of one role list *)

Lemma allocate_list_facts pids l : forall todo todo',
  allocate_list pids todo l = Ok todo' ->
  l = map JStr (person_ids_of l) /\
  NoDup (person_ids_of l) /\
  (forall p, In p (person_ids_of l) -> In p pids /\ In p todo /\ ~ In p todo') /\
  (forall p, In p todo' <-> In p todo /\ ~ In p (person_ids_of l)).
Proof.
  induction l as [|j l IH]; intros todo todo'; cbn [allocate_list].
  - intros H; inversion H; subst. cbn. repeat split; try constructor; try tauto; intros p [].
  - destruct j; try discriminate.
    destruct (negb (mem_str s pids)) eqn:M1; [discriminate|].
    destruct (negb (mem_str s todo)) eqn:M2; [discriminate|].
    apply negb_false_iff, mem_str_In in M1. apply negb_false_iff, mem_str_In in M2.
    intros H. apply IH in H. destruct H as (E & ND & F1 & F2).
    cbn [person_ids_of flat_map app map]. fold (person_ids_of l).
    assert (forall p, In p (filter (fun q => negb (String.eqb q s)) todo) <-> In p todo /\ p <> s) as Fl.
    { intros p. rewrite filter_In. split; intros [A B]; split; auto.
      - intros ->. rewrite String.eqb_refl in B. discriminate.
      - apply negb_true_iff. destruct (String.eqb p s) eqn:Q; [|reflexivity].
        apply String.eqb_eq in Q. contradiction. }
    split; [f_equal; assumption|]. split.
    + constructor; [|assumption]. intros I. apply F1 in I. destruct I as (_ & I & _).
      apply Fl in I. destruct I as [_ I]. apply I. reflexivity.
    + split.
      * intros p [<-|I].
        -- split; [assumption|]. split; [assumption|]. intros I. apply F2 in I.
           destruct I as [I _]. apply Fl in I. destruct I as [_ I]. apply I. reflexivity.
        -- apply F1 in I. destruct I as (A & B & C). apply Fl in B. tauto.
      * intros p. rewrite F2, Fl. cbn [In]. split.
        -- intros [[A B] C]. split; [assumption|]. intros [D|D]; [congruence|contradiction].
        -- intros [A B]. split; [split; [assumption|]|]; intros D; apply B; [left; congruence|right; assumption].
Qed.

(** * One group: all its role lists *)

(* the persons that the role lists [rj] allocate *)
Definition allocated_by (rj : list (role * json)) : list string :=
  flat_map (fun rjl => match snd rjl with JArr l => person_ids_of l | _ => [] end) rj.

Lemma allocate_roles_facts pids rj : forall todo todo',
  allocate_roles pids todo rj = Ok todo' ->
  (forall r j, In (r, j) rj -> exists l, j = JArr l) /\
  NoDup (allocated_by rj) /\
  (forall p, In p (allocated_by rj) -> In p pids /\ In p todo /\ ~ In p todo') /\
  (forall p, In p todo' <-> In p todo /\ ~ In p (allocated_by rj)).
Proof.
  induction rj as [|[r j] rj IH]; intros todo todo'; cbn [allocate_roles].
  - intros H; inversion H; subst. cbn. repeat split; try constructor; try tauto; intros ? ? [].
  - destruct j; try discriminate. intros H. apply bind_ok in H. destruct H as (t1 & H1 & H2).
    apply allocate_list_facts in H1. destruct H1 as (E & ND1 & F1 & G1).
    apply IH in H2. destruct H2 as (A & ND2 & F2 & G2).
    unfold allocated_by. cbn [flat_map snd]. fold (allocated_by rj).
    split; [|split; [|split]].
    + intros r0 j0 [Q|I]; [inversion Q; subst; eauto|eapply A; eassumption].
    + apply NoDup_app_disjoint.
      * assumption.
      * assumption.
      * intros p I1 I2. apply F2 in I2. destruct I2 as (_ & I2 & _). apply G1 in I2. tauto.
    + intros p I. apply in_app_or in I. destruct I as [I|I].
      * destruct (F1 p I) as (X & Y & Z). split; [assumption|]. split; [assumption|].
        intros W. apply G2 in W. destruct W as [W _]. contradiction.
      * destruct (F2 p I) as (X & Y & Z). split; [assumption|]. split; [|assumption].
        apply G1 in Y. tauto.
    + intros p. rewrite G2, G1, in_app_iff. tauto.
Qed.

Definition lens_ok (pids : list string) (mr : list Z * list string) : Prop :=
  List.length (fst mr) = List.length pids /\ List.length (snd mr) = List.length pids.

Definition entry (mr : list Z * list string) (k : nat) : option Z * option string :=
  (nth_error (fst mr) k, nth_error (snd mr) k).

Lemma in_allocated_by rj r l p :
  In (r, JArr l) rj -> In p (person_ids_of l) -> In p (allocated_by rj).
Proof.
  intros I P. unfold allocated_by. apply in_flat_map. exists (r, JArr l). split; assumption.
Qed.

Lemma assign_roles_spec pids gi rj : forall mr mr' todo todo',
  allocate_roles pids todo rj = Ok todo' ->
  assign_roles pids gi rj mr = Ok mr' ->
  lens_ok pids mr ->
  lens_ok pids mr' /\
  (forall r l j pid k, In (r, JArr l) rj -> nth_error (person_ids_of l) j = Some pid ->
     index_of pid pids = Some k -> entry mr' k = (Some gi, Some (role_at r j))) /\
  (forall k, (forall pid, In pid (allocated_by rj) -> index_of pid pids <> Some k) ->
     entry mr' k = entry mr k).
Proof.
  induction rj as [|[r0 j0] rj IH]; intros mr mr' todo todo' HA HS L.
  - cbn in HS. inversion HS; subst. split; [assumption|]. split; [intros ? ? ? ? ? []|reflexivity].
  - pose proof (allocate_roles_facts _ _ _ _ HA) as (Harr & ND & F & G).
    cbn [allocate_roles] in HA. destruct j0; try discriminate.
    apply bind_ok in HA. destruct HA as (t1 & HA1 & HA2).
    pose proof (allocate_list_facts _ _ _ _ HA1) as (E1 & ND1 & F1 & G1).
    cbn [assign_roles] in HS.
    set (mr1 := assign_members pids r0 gi 0 (person_ids_of l) mr) in *.
    assert (assign_roles pids gi rj mr1 = Ok mr') as HS'.
    { destruct (r_max r0); [destruct (z <? _); [discriminate|]|]; exact HS. }
    clear HS. destruct L as [L1 L2].
    pose proof (assign_members_spec pids r0 gi (person_ids_of l) 0 mr ND1 L1 L2) as M.
    cbv zeta in M. fold mr1 in M. destruct M as (M1 & M2 & M3 & M4).
    destruct (IH mr1 mr' t1 todo' HA2 HS' (conj M1 M2)) as (I1 & I3 & I4).
    unfold allocated_by in ND. cbn [flat_map snd] in ND. fold (allocated_by rj) in ND.
    split; [assumption|]. split.
    + intros r l0 j pid k [Q|I] Hn Hk.
      * inversion Q; subst r0 l0. rewrite I4.
        -- unfold entry. destruct (M3 j pid k Hn Hk) as [A B]. rewrite A, B. reflexivity.
        -- intros q Iq Eq. assert (q = pid) by (eapply index_of_inj; eassumption). subst q.
           apply nth_error_In in Hn. clear -ND Hn Iq.
           induction (person_ids_of l) as [|a l1 IHl]; [destruct Hn|].
           cbn [app] in ND. inversion ND; subst. destruct Hn as [->|Hn].
           ++ apply H1. apply in_or_app. right. assumption.
           ++ apply IHl; assumption.
      * eapply I3; eassumption.
    + intros k Fr. rewrite I4.
      * unfold entry. destruct (M4 k) as [A B].
        { intros pid Ip. apply Fr. unfold allocated_by. cbn [flat_map snd]. apply in_or_app. left. assumption. }
        rewrite A, B. reflexivity.
      * intros pid Ip. apply Fr. unfold allocated_by. cbn [flat_map snd]. apply in_or_app. right. assumption.
Qed.

Lemma roles_json_member e fields r todo todo' pids :
  allocate_roles pids todo (roles_json e fields) = Ok todo' ->
  In r (e_roles e) ->
  exists l, In (r, JArr l) (roles_json e fields) /\ role_members r fields = person_ids_of l.
Proof.
  intros HA Hr. pose proof (allocate_roles_facts _ _ _ _ HA) as (Harr & _).
  assert (In (r, transform_to_strict_syntax
                  (match aget (role_name r) fields with Some j => j | None => JArr [] end))
             (roles_json e fields)) as I.
  { unfold roles_json. apply in_map_iff. exists r. split; [reflexivity|assumption]. }
  destruct (Harr _ _ I) as (l & El). exists l. rewrite El in I. split; [assumption|].
  unfold role_members. rewrite El. reflexivity.
Qed.

Lemma allocated_by_declared e fields p :
  In p (allocated_by (roles_json e fields)) ->
  exists r j, In r (e_roles e) /\ nth_error (role_members r fields) j = Some p.
Proof.
  unfold allocated_by. intros I. apply in_flat_map in I. destruct I as ([r j] & I & P).
  unfold roles_json in I. apply in_map_iff in I. destruct I as (r' & E & Ir). inversion E; subst r' j.
  cbn [snd] in P. exists r.
  assert (In p (role_members r fields)) as Q.
  { unfold role_members. destruct (transform_to_strict_syntax _); try destruct P. assumption. }
  apply In_nth_error in Q. destruct Q as (j & Q). exists j. split; assumption.
Qed.

(** * All the groups of one kind *)

Lemma add_group_instances_spec x s e pids eids l : forall st todo mr st' todo' mr',
  add_group_instances x s e pids eids l st todo mr = Ok (st', todo', mr') ->
  lens_ok pids mr ->
  lens_ok pids mr' /\
  (* declared members *)
  (forall gid fields r j pid k gi,
     In (gid, JObj fields) l -> In r (e_roles e) -> nth_error (role_members r fields) j = Some pid ->
     index_of pid pids = Some k -> index_of gid eids = Some gi ->
     entry mr' k = (Some (Z.of_nat gi), Some (role_at r j)) /\ ~ In pid todo' /\ In pid todo) /\
  (* what is left to allocate *)
  (forall p, In p todo' -> In p todo) /\
  (forall p, In p todo -> ~ In p todo' ->
     exists gid fields r j, In (gid, JObj fields) l /\ In r (e_roles e)
                            /\ nth_error (role_members r fields) j = Some p) /\
  (* the others are not touched *)
  (forall pid k, index_of pid pids = Some k -> (~ In pid todo \/ In pid todo') ->
     entry mr' k = entry mr k).
Proof.
  induction l as [|[gid0 j0] l IH]; intros st todo mr st' todo' mr' H L.
  - cbn in H. inversion H; subst. split; [assumption|].
    split; [intros ? ? ? ? ? ? ? []|]. split; [auto|]. split; [intros p A B; contradiction|reflexivity].
  - cbn [add_group_instances] in H. destruct j0; try discriminate.
    apply bind_ok in H. destruct H as (todo1 & HA & H).
    destruct (index_of gid0 eids) as [gi0|] eqn:Eg; [|discriminate].
    apply bind_ok in H. destruct H as (mr1 & HS & H).
    apply bind_ok in H. destruct H as (st1 & _ & H).
    pose proof (allocate_roles_facts _ _ _ _ HA) as (Harr & ND & F & G).
    destruct (assign_roles_spec _ _ _ _ _ _ _ HA HS L) as (L' & S3 & S4).
    destruct (IH _ _ _ _ _ _ H L') as (I1 & I2 & I3 & I5 & I4).
    split; [assumption|]. split; [|split; [|split]].
    + intros gid fields r j pid k gi [Q|I] Hr Hn Hk Hg.
      * inversion Q; subst gid0 l0. rewrite Hg in Eg. inversion Eg; subst gi0.
        destruct (roles_json_member _ _ _ _ _ _ HA Hr) as (l1 & Il1 & El1).
        rewrite El1 in Hn.
        assert (In pid (allocated_by (roles_json e fields))) as Ial.
        { eapply in_allocated_by; [eassumption|]. eapply nth_error_In; eassumption. }
        destruct (F _ Ial) as (_ & Itodo & Intodo1).
        rewrite (I4 pid k Hk); [|left; assumption].
        split; [eapply S3; eassumption|]. split; [|assumption].
        intros W. apply Intodo1. apply I3. assumption.
      * destruct (I2 gid fields r j pid k gi I Hr Hn Hk Hg) as (A & B & C).
        split; [assumption|]. split; [assumption|]. apply G in C. tauto.
    + intros p W. apply I3 in W. apply G in W. tauto.
    + intros p A B.
      destruct (in_dec string_dec p todo1) as [T|T].
      * destruct (I5 p T B) as (gid & fields & r & j & X & Y & Z).
        exists gid, fields, r, j. split; [right; assumption|]. split; assumption.
      * assert (In p (allocated_by (roles_json e l0))) as Ial.
        { destruct (in_dec string_dec p (allocated_by (roles_json e l0))) as [Y|N]; [assumption|].
          exfalso. apply T. apply G. split; assumption. }
        destruct (allocated_by_declared _ _ _ Ial) as (r & j & X & Y).
        exists gid0, l0, r, j. split; [left; reflexivity|]. split; assumption.
    + intros pid k Hk Hc.
      assert (~ In pid (allocated_by (roles_json e l0))) as Nal.
      { intros Ial. destruct (F _ Ial) as (_ & A & B). destruct Hc as [Hc|Hc]; [contradiction|].
        apply B. apply I3. assumption. }
      rewrite (I4 pid k Hk).
      * apply S4. intros q Iq Eq. assert (q = pid) by (eapply index_of_inj; eassumption).
        subst. contradiction.
      * destruct Hc as [Hc|Hc]; [left|right; assumption]. intros W. apply Hc. apply G in W. tauto.
Qed.

Lemma allocate_list_nodup pids l : forall todo todo',
  allocate_list pids todo l = Ok todo' -> NoDup todo -> NoDup todo'.
Proof.
  induction l as [|j l IH]; intros todo todo'; cbn [allocate_list].
  - intros H; inversion H; subst; auto.
  - destruct j; try discriminate.
    destruct (negb (mem_str s pids)); [discriminate|].
    destruct (negb (mem_str s todo)); [discriminate|].
    intros H N. eapply IH; [eassumption|]. apply NoDup_filter. assumption.
Qed.

Lemma allocate_roles_nodup pids rj : forall todo todo',
  allocate_roles pids todo rj = Ok todo' -> NoDup todo -> NoDup todo'.
Proof.
  induction rj as [|[r j] rj IH]; intros todo todo'; cbn [allocate_roles].
  - intros H; inversion H; subst; auto.
  - destruct j; try discriminate. intros H N. apply bind_ok in H. destruct H as (t1 & H1 & H2).
    eapply IH; [eassumption|]. eapply allocate_list_nodup; eassumption.
Qed.

Lemma add_group_instances_nodup x s e pids eids l : forall st todo mr st' todo' mr',
  add_group_instances x s e pids eids l st todo mr = Ok (st', todo', mr') ->
  NoDup todo -> NoDup todo'.
Proof.
  induction l as [|[gid0 j0] l IH]; intros st todo mr st' todo' mr' H N.
  - cbn in H. inversion H; subst. assumption.
  - cbn [add_group_instances] in H. destruct j0; try discriminate.
    apply bind_ok in H. destruct H as (todo1 & HA & H).
    destruct (index_of gid0 eids); [|discriminate].
    apply bind_ok in H. destruct H as (mr1 & HS & H).
    apply bind_ok in H. destruct H as (st1 & _ & H).
    eapply IH; [eassumption|]. eapply allocate_roles_nodup; eassumption.
Qed.

Lemma index_of_some l p : In p l -> exists k, index_of p l = Some k.
Proof.
  induction l as [|a l IH]; intros I; [destruct I|]. cbn [index_of].
  destruct (String.eqb a p) eqn:Q; [eauto|].
  destruct I as [->|I]; [rewrite String.eqb_refl in Q; discriminate|].
  destruct (IH I) as (k & ->). eauto.
Qed.

(** * One group kind: what [add_group_entity] records *)

Definition declared_in (e : entity) (instances : list (string * json)) (pid : string) : Prop :=
  exists gid fields r j, In (gid, JObj fields) instances /\ In r (e_roles e)
                         /\ nth_error (role_members r fields) j = Some pid.

Lemma add_group_entity_spec x s st pids e instances st' :
  NoDup pids -> (forall l, Permutation (set_order x l) l) ->
  add_group_entity x s st pids e (JObj instances) = Ok st' ->
  exists own members roles,
    aget (e_plural e) (b_ids st') = Some (map fst instances ++ own) /\
    aget (e_plural e) (b_members st') = Some members /\
    aget (e_plural e) (b_roles st') = Some roles /\
    List.length members = List.length pids /\ List.length roles = List.length pids /\
    NoDup own /\
    (forall pid, In pid own <-> In pid pids /\ ~ declared_in e instances pid) /\
    (forall gid fields r j pid k gi,
       In (gid, JObj fields) instances -> In r (e_roles e) ->
       nth_error (role_members r fields) j = Some pid ->
       index_of pid pids = Some k -> index_of gid (map fst instances) = Some gi ->
       nth_error members k = Some (Z.of_nat gi) /\ nth_error roles k = Some (role_at r j)) /\
    (forall j pid k, nth_error own j = Some pid -> index_of pid pids = Some k ->
       nth_error members k = Some (Z.of_nat (List.length instances + j))
       /\ nth_error roles k = Some (first_role e)).
Proof.
  intros NDp Perm H. unfold add_group_entity in H.
  apply bind_ok in H. destruct H as ([[st1 todo] mr] & H1 & H2).
  assert (lens_ok pids (repeat 0 (List.length pids), repeat EmptyString (List.length pids))) as L0.
  { split; cbn [fst snd]; apply repeat_length. }
  destruct (add_group_instances_spec _ _ _ _ _ _ _ _ _ _ _ _ H1 L0) as (L & D & Sub & Alloc & Fr).
  pose proof (add_group_instances_nodup _ _ _ _ _ _ _ _ _ _ _ _ H1 NDp) as NDt.
  pose proof (add_group_instances_ids _ _ _ _ _ _ _ _ _ _ _ _ H1) as [Hi _].
  cbn [set_ids b_ids] in Hi.
  assert (forall pid, In pid todo <-> In pid pids /\ ~ declared_in e instances pid) as Todo.
  { intros pid. split.
    - intros I. split; [apply Sub; assumption|].
      intros (gid & fields & r & j & A & B & C).
      destruct (index_of_some pids pid) as (k & Hk).
      { apply Sub; assumption. }
      assert (exists gi, index_of gid (map fst instances) = Some gi) as (gi & Hg).
      { apply index_of_some. apply in_map_iff. exists (gid, JObj fields). split; [reflexivity|assumption]. }
      destruct (D gid fields r j pid k gi A B C Hk Hg) as (_ & N & _). contradiction.
    - intros [I N]. destruct (in_dec string_dec pid todo) as [Y|Y]; [assumption|].
      exfalso. apply N. destruct (Alloc pid I Y) as (gid & fields & r & j & A & B & C).
      exists gid, fields, r, j. auto. }
  destruct todo as [|t0 todo].
  - inversion H2; subst st'. exists [], (fst mr), (snd mr).
    cbn [set_roles set_members b_ids b_members b_roles]. rewrite Hi, !aget_aset_same, app_nil_r.
    destruct L as [L1 L2].
    split; [reflexivity|]. split; [reflexivity|]. split; [reflexivity|].
    split; [assumption|]. split; [assumption|]. split; [constructor|].
    split; [exact Todo|]. split.
    + intros gid fields r j pid k gi A B C Hk Hg.
      destruct (D gid fields r j pid k gi A B C Hk Hg) as (E & _). unfold entry in E.
      inversion E. split; reflexivity.
    + intros [|j] pid k Hn; discriminate.
  - set (todo' := t0 :: todo) in *. set (own := set_order x todo') in *.
    assert (NoDup own) as NDo by (eapply Permutation_NoDup; [symmetry; apply Perm|assumption]).
    assert (forall p, In p own <-> In p todo') as Io.
    { intros p. split; intros I; [eapply Permutation_in; [apply Perm|assumption]
                                 |eapply Permutation_in; [symmetry; apply Perm|assumption]]. }
    destruct L as [L1 L2].
    pose proof (allocate_own_spec pids (first_role e) own (List.length (map fst instances)) mr
                  NDo L1 L2) as O.
    cbv zeta in O. destruct O as (O1 & O2 & O3 & O4).
    inversion H2; subst st'.
    exists own, (fst (allocate_own pids (List.length (map fst instances)) (first_role e) own mr)),
           (snd (allocate_own pids (List.length (map fst instances)) (first_role e) own mr)).
    cbn [set_roles set_members set_buffer set_ids b_ids b_members b_roles].
    rewrite !aget_aset_same.
    split; [reflexivity|]. split; [reflexivity|]. split; [reflexivity|].
    split; [assumption|]. split; [assumption|]. split; [assumption|].
    split; [intros pid; rewrite Io; apply Todo|]. split.
    + intros gid fields r j pid k gi A B C Hk Hg.
      destruct (D gid fields r j pid k gi A B C Hk Hg) as (E & N & _).
      destruct (O4 k) as [X Y].
      { intros q Iq Eq. assert (q = pid) by (eapply index_of_inj; eassumption). subst q.
        apply N. apply Io. assumption. }
      rewrite X, Y. unfold entry in E. inversion E. split; reflexivity.
    + intros j pid k Hn Hk. rewrite <- (map_length fst instances). eapply O3; eassumption.
Qed.

(** * Frames: what the other steps leave alone *)

Definition frame (st st' : bstate) : Prop :=
  b_ids st' = b_ids st /\ b_members st' = b_members st /\ b_roles st' = b_roles st /\
  b_ax_ids st' = b_ax_ids st /\ b_ax_members st' = b_ax_members st /\ b_ax_roles st' = b_ax_roles st.

Lemma frame_refl st : frame st st.
Proof. repeat split. Qed.

Lemma frame_trans a b c : frame a b -> frame b c -> frame a c.
Proof. unfold frame. intuition congruence. Qed.

Lemma add_variable_value_frame x st e v idx t value st' :
  add_variable_value x st e v idx t value = Ok st' -> frame st st'.
Proof.
  unfold add_variable_value.
  destruct value; try (intros H0; inversion H0; subst; apply frame_refl);
    intros H0; apply bind_ok in H0; destruct H0 as (p & _ & H0);
    cbv zeta in H0; destruct (check_set_value x v _) as [c|k]; try (destruct k; discriminate);
    destruct (Nat.ltb idx _); try discriminate; inversion H0; subst; repeat split.
Qed.

Lemma add_dated_frame x e v idx l : forall st st',
  add_dated x st e v idx l = Ok st' -> frame st st'.
Proof.
  induction l as [|[t value] l IH]; intros st st'; cbn [add_dated].
  - intros H; inversion H; subst. apply frame_refl.
  - destruct (parse_key (tok x t)); [|discriminate]. intros H. apply bind_ok in H.
    destruct H as (st1 & H1 & H2). eapply frame_trans; [eapply add_variable_value_frame; eassumption|].
    eapply IH; eassumption.
Qed.

Lemma init_variable_values_frame x s e id fields : forall st st',
  init_variable_values x s st e fields id = Ok st' -> frame st st'.
Proof.
  induction fields as [|[vn vals] fields IH]; intros st st'; cbn [init_variable_values].
  - intros H; inversion H; subst. apply frame_refl.
  - destruct (find_var vn (s_vars s)); [|discriminate].
    destruct (negb _); [discriminate|]. destruct (index_of id _); [|discriminate].
    destruct vals; try discriminate. intros H. apply bind_ok in H.
    destruct H as (st1 & H1 & H2). eapply frame_trans; [eapply add_dated_frame; eassumption|].
    eapply IH; eassumption.
Qed.

Lemma add_person_instances_frame x s l : forall st st',
  add_person_instances x s st l = Ok st' -> frame st st'.
Proof.
  induction l as [|[pid j] l IH]; intros st st'; cbn [add_person_instances].
  - intros H; inversion H; subst. apply frame_refl.
  - destruct j; try discriminate. intros H. apply bind_ok in H.
    destruct H as (st1 & H1 & H2).
    eapply frame_trans; [eapply init_variable_values_frame; eassumption|]. eapply IH; eassumption.
Qed.

Lemma add_group_instances_frame x s e pids eids l : forall st todo mr st' todo' mr',
  add_group_instances x s e pids eids l st todo mr = Ok (st', todo', mr') -> frame st st'.
Proof.
  induction l as [|[gid j] l IH]; intros st todo mr st' todo' mr'; cbn [add_group_instances].
  - intros H; inversion H; subst. apply frame_refl.
  - destruct j; try discriminate. intros H. apply bind_ok in H. destruct H as (t1 & _ & H).
    destruct (index_of gid eids); [|discriminate].
    apply bind_ok in H. destruct H as (m1 & _ & H).
    apply bind_ok in H. destruct H as (st1 & H1 & H2).
    eapply frame_trans; [eapply init_variable_values_frame; eassumption|]. eapply IH; eassumption.
Qed.

(* a group kind only writes under its own plural *)
Definition frame_but (q : string) (st st' : bstate) : Prop :=
  (forall k, k <> q -> aget k (b_ids st') = aget k (b_ids st)
                       /\ aget k (b_members st') = aget k (b_members st)
                       /\ aget k (b_roles st') = aget k (b_roles st)) /\
  b_ax_ids st' = b_ax_ids st /\ b_ax_members st' = b_ax_members st /\ b_ax_roles st' = b_ax_roles st.

Lemma add_group_entity_frame x s st pids e j st' :
  add_group_entity x s st pids e j = Ok st' -> frame_but (e_plural e) st st'.
Proof.
  unfold add_group_entity. destruct j; try discriminate. intros H.
  apply bind_ok in H. destruct H as ([[st1 todo] mr] & H1 & H2).
  apply add_group_instances_frame in H1. destruct H1 as (F1 & F2 & F3 & F4 & F5 & F6).
  cbn [set_ids b_ids b_members b_roles b_ax_ids b_ax_members b_ax_roles] in *.
  destruct todo; inversion H2; subst st'; unfold frame_but;
    cbn [set_roles set_members set_buffer set_ids b_ids b_members b_roles b_ax_ids b_ax_members b_ax_roles];
    (split; [intros k N; rewrite ?F1, ?F2, ?F3; rewrite ?aget_aset_other by assumption; repeat split; reflexivity
            |repeat split; assumption]).
Qed.

Lemma add_default_group_entity_frame st pids e :
  frame_but (e_plural e) st (add_default_group_entity st pids e).
Proof.
  unfold add_default_group_entity, frame_but.
  cbn [set_roles set_members set_ids b_ids b_members b_roles b_ax_ids b_ax_members b_ax_roles].
  split; [|repeat split]. intros k N. rewrite !aget_aset_other by assumption. repeat split.
Qed.

Lemma add_groups_at x s pids params gs e instances : forall st st',
  NoDup (map e_plural gs) -> In e gs ->
  aget (e_plural e) params = Some (JObj instances) ->
  add_groups x s st pids params false gs = Ok st' ->
  exists sta stb,
    add_group_entity x s sta pids e (JObj instances) = Ok stb /\
    aget (e_plural e) (b_ids st') = aget (e_plural e) (b_ids stb) /\
    aget (e_plural e) (b_members st') = aget (e_plural e) (b_members stb) /\
    aget (e_plural e) (b_roles st') = aget (e_plural e) (b_roles stb).
Proof.
  induction gs as [|g gs IH]; intros st st' ND I Hp H; [destruct I|].
  cbn [map] in ND. inversion ND as [|? ? Nin ND']; subst.
  cbn [add_groups] in H. apply bind_ok in H. destruct H as (st1 & H1 & H2).
  assert (forall gs' sta stb, ~ In (e_plural e) (map e_plural gs') ->
            add_groups x s sta pids params false gs' = Ok stb ->
            aget (e_plural e) (b_ids stb) = aget (e_plural e) (b_ids sta) /\
            aget (e_plural e) (b_members stb) = aget (e_plural e) (b_members sta) /\
            aget (e_plural e) (b_roles stb) = aget (e_plural e) (b_roles sta)) as Later.
  { clear. induction gs' as [|g' gs' IHg]; intros sta stb N H; cbn [add_groups] in H.
    - inversion H; subst. repeat split.
    - apply bind_ok in H. destruct H as (st1 & H1 & H2).
      assert (e_plural e <> e_plural g') as Ne by (intros E; apply N; left; symmetry; assumption).
      apply IHg in H2; [|intros I; apply N; right; assumption].
      assert (frame_but (e_plural g') sta st1) as F.
      { destruct (aget (e_plural g') params) as [j|].
        - destruct j; try (eapply add_group_entity_frame; eassumption);
            inversion H1; subst; apply add_default_group_entity_frame.
        - inversion H1; subst; apply add_default_group_entity_frame. }
      destruct F as (F & _). destruct (F _ Ne) as (A & B & C).
      destruct H2 as (A' & B' & C'). repeat split; congruence. }
  destruct I as [->|I].
  - rewrite Hp in H1. exists st, st1. split; [assumption|]. apply Later in H2; [|assumption]. tauto.
  - eapply IH; eassumption.
Qed.

Lemma add_groups_ax x s pids params ax gs : forall st st',
  add_groups x s st pids params ax gs = Ok st' ->
  b_ax_ids st' = b_ax_ids st /\ b_ax_members st' = b_ax_members st /\ b_ax_roles st' = b_ax_roles st.
Proof.
  induction gs as [|g gs IH]; intros st st' H; cbn [add_groups] in H.
  - inversion H; subst. repeat split.
  - apply bind_ok in H. destruct H as (st1 & H1 & H2). apply IH in H2.
    assert (frame_but (e_plural g) st st1) as F.
    { destruct (aget (e_plural g) params) as [j|].
      - destruct j; try (eapply add_group_entity_frame; eassumption);
          destruct ax; try discriminate; inversion H1; subst; apply add_default_group_entity_frame.
      - destruct ax; try discriminate; inversion H1; subst; apply add_default_group_entity_frame. }
    destruct F as (_ & A & B & C). destruct H2 as (A' & B' & C'). repeat split; congruence.
Qed.

Lemma mapM_In {A B} (f : A -> res B) l : forall ys a,
  mapM f l = Ok ys -> In a l -> exists y, f a = Ok y /\ In y ys.
Proof.
  induction l as [|a0 l IH]; intros ys a H I; [destruct I|]. cbn [mapM] in H.
  destruct (f a0) as [y0|] eqn:E; [|discriminate].
  destruct (mapM f l) as [ys0|] eqn:E'; [|discriminate]. inversion H; subst.
  destruct I as [->|I].
  - exists y0. split; [assumption|left; reflexivity].
  - destruct (IH ys0 a eq_refl I) as (y & Hy & Iy). exists y. split; [assumption|right; assumption].
Qed.

(** For every document without axes that builds, and every group kind with declared
    instances: one group per declared id in declaration order, then one per person left out;
    every declared member is recorded with its group and its (sub-)role; every person left
    out is alone in a new group, with the first role. *)
Theorem build_groups_spec x s doc sim persons e instances :
  NoDup (plurals s) ->
  (forall l, Permutation (set_order x l) l) ->
  aget "axes"%string doc = None ->
  aget (e_plural (s_person s)) (aremove "axes" doc) = Some (JObj persons) ->
  NoDup (map fst persons) ->
  In e (s_groups s) ->
  aget (e_plural e) (aremove "axes" doc) = Some (JObj instances) ->
  build_from_entities x s doc = Ok sim ->
  exists pop own,
    In pop sim /\ p_entity pop = e_key e /\
    p_ids pop = map fst instances ++ own /\
    NoDup own /\
    (forall pid, In pid own <-> In pid (map fst persons) /\ ~ declared_in e instances pid) /\
    List.length (p_members pop) = List.length persons /\
    List.length (p_mroles pop) = List.length persons /\
    (forall gid fields r j pid k gi,
       In (gid, JObj fields) instances -> In r (e_roles e) ->
       nth_error (role_members r fields) j = Some pid ->
       index_of pid (map fst persons) = Some k -> index_of gid (map fst instances) = Some gi ->
       nth_error (p_members pop) k = Some (Z.of_nat gi)
       /\ nth_error (p_mroles pop) k = Some (role_at r j)) /\
    (forall j pid k, nth_error own j = Some pid -> index_of pid (map fst persons) = Some k ->
       nth_error (p_members pop) k = Some (Z.of_nat (List.length instances + j))
       /\ nth_error (p_mroles pop) k = Some (first_role e)
       /\ nth_error (p_ids pop) (List.length instances + j) = Some pid).
Proof.
  intros NDpl Perm Hax Hp NDp Ie Hinst H.
  unfold build_from_entities in H. rewrite Hp, Hax in H.
  destruct (existsb _ (aremove "axes" doc)); [discriminate|].
  destruct persons as [|i0 rest] eqn:Ep; [discriminate|]. rewrite <- Ep in *.
  apply bind_ok in H. destruct H as (st1 & H1 & H).
  apply bind_ok in H. destruct H as (st2 & H2 & H).
  cbn [bind] in H.
  pose proof (add_person_entity_ids _ _ _ _ H1) as Ids1. rewrite Ids1 in H2.
  unfold add_person_entity in H1. apply add_person_instances_frame in H1.
  destruct H1 as (_ & _ & _ & X1 & X2 & X3).
  cbn [set_ids b_empty b_ax_ids b_ax_members b_ax_roles] in X1, X2, X3.
  destruct (add_groups_ax _ _ _ _ _ _ _ _ H2) as (Y1 & Y2 & Y3).
  assert (NoDup (map e_plural (s_groups s))) as NDg.
  { unfold plurals, entities in NDpl. cbn [map] in NDpl. inversion NDpl; assumption. }
  destruct (add_groups_at _ _ _ _ _ _ _ _ _ NDg Ie Hinst H2) as (sta & stb & HE & A1 & A2 & A3).
  destruct (add_group_entity_spec _ _ _ _ _ _ _ NDp Perm HE)
    as (own & members & roles & B1 & B2 & B3 & L1 & L2 & NDo & Own & Decl & OwnM).
  assert (In e (entities s)) as Ie' by (right; assumption).
  destruct (mapM_In _ _ _ _ H Ie') as (pop & F & Ipop).
  unfold finalize_population in F. apply bind_ok in F. destruct F as (hs & _ & F).
  inversion F; subst pop. clear F.
  eexists. exists own. split; [eassumption|]. cbn [p_entity p_ids p_members p_mroles].
  unfold get_ids, ids_of, get_memberships, get_roles.
  rewrite Y1, Y2, Y3, X1, X2, X3. cbn [aget]. rewrite A1, A2, A3, B1, B2, B3.
  rewrite map_length in L1, L2.
  split; [reflexivity|]. split; [reflexivity|]. split; [assumption|]. split; [assumption|].
  split; [assumption|]. split; [assumption|]. split; [assumption|].
  intros j pid k Hn Hk. destruct (OwnM j pid k Hn Hk) as [P Q].
  split; [assumption|]. split; [assumption|].
  rewrite nth_error_app2 by (rewrite map_length; lia).
  rewrite map_length. replace (List.length instances + j - List.length instances)%nat with j by lia.
  assumption.
Qed.

(** * Document level: the first refused group *)

Lemma add_group_instances_app x s e pids eids l1 : forall l2 st todo mr,
  add_group_instances x s e pids eids (l1 ++ l2) st todo mr
  = bind (add_group_instances x s e pids eids l1 st todo mr)
         (fun r => let '(st', todo', mr') := r in add_group_instances x s e pids eids l2 st' todo' mr').
Proof.
  induction l1 as [|[gid j] l1 IH]; intros l2 st todo mr; cbn [app add_group_instances]; [reflexivity|].
  destruct j; try reflexivity.
  destruct (allocate_roles pids todo (roles_json e l)); cbn [bind]; [|reflexivity].
  destruct (index_of gid eids); [|reflexivity].
  destruct (assign_roles pids (Z.of_nat n) (roles_json e l) mr); cbn [bind]; [|reflexivity].
  destruct (init_variable_values x s st e (without_roles e l) gid); cbn [bind]; [apply IH|reflexivity].
Qed.

Lemma add_groups_app x s pids params ax g1 : forall g2 st,
  add_groups x s st pids params ax (g1 ++ g2)
  = bind (add_groups x s st pids params ax g1) (fun st' => add_groups x s st' pids params ax g2).
Proof.
  induction g1 as [|e g1 IH]; intros g2 st; cbn [app add_groups]; [reflexivity|].
  destruct (match aget (e_plural e) params with
            | Some JNull | None => if ax then Err ESituation else Ok (add_default_group_entity st pids e)
            | Some j => add_group_entity x s st pids e j end); cbn [bind]; [apply IH|reflexivity].
Qed.

(** the first group whose role lists hold an unknown person, a person already allocated, or too
    many holders of a role makes the build fail with the situation error: the persons, the
    group kinds [gpre] read before and the groups [ipre] of this kind read before were accepted *)
Theorem group_declaration_rejected x s doc i persons st1 gpre e gpost instances ipre gid fields ipost
    sta stb todo mr :
  existsb (fun kv : string * json => negb (mem_str (fst kv) (plurals s))) (aremove "axes" doc) = false ->
  aget (e_plural (s_person s)) (aremove "axes" doc) = Some (JObj (i :: persons)) ->
  add_person_entity x s b_empty (i :: persons) = Ok st1 ->
  s_groups s = gpre ++ e :: gpost ->
  add_groups x s st1 (get_ids st1 (e_plural (s_person s))) (aremove "axes" doc)
    (match aget "axes"%string doc with Some JNull | None => false | Some _ => true end) gpre = Ok sta ->
  aget (e_plural e) (aremove "axes" doc) = Some (JObj instances) ->
  instances = ipre ++ (gid, JObj fields) :: ipost ->
  add_group_instances x s e (get_ids st1 (e_plural (s_person s))) (map fst instances) ipre
    (set_ids sta (e_plural e) (map fst instances)) (get_ids st1 (e_plural (s_person s)))
    (repeat 0 (List.length (get_ids st1 (e_plural (s_person s)))),
     repeat EmptyString (List.length (get_ids st1 (e_plural (s_person s))))) = Ok (stb, todo, mr) ->
  (allocate_roles (get_ids st1 (e_plural (s_person s))) todo (roles_json e fields) = Err ESituation
   \/ (exists todo', allocate_roles (get_ids st1 (e_plural (s_person s))) todo (roles_json e fields) = Ok todo'
       /\ forall gi, assign_roles (get_ids st1 (e_plural (s_person s))) gi (roles_json e fields) mr
                     = Err ESituation)) ->
  build_from_entities x s doc = Err ESituation.
Proof.
  intros Hent Hp H1 Hgs Hpre Hinst Ei Hipre Hbad. unfold build_from_entities.
  rewrite Hent, Hp, H1. cbn [bind]. rewrite Hgs.
  assert (forall b0 b1 : bool,
            match match aget "axes"%string doc with Some JNull | None => None | Some j => Some j end with
            | Some _ => true | None => false end
            = match aget "axes"%string doc with Some JNull | None => false | Some _ => true end) as Eax.
  { intros _ _. destruct (aget "axes"%string doc) as [j|]; [destruct j|]; reflexivity. }
  rewrite (Eax true true), add_groups_app, Hpre. cbn [bind add_groups]. rewrite Hinst.
  assert (add_group_entity x s sta (get_ids st1 (e_plural (s_person s))) e (JObj instances)
          = Err ESituation) as ->; [|reflexivity].
  unfold add_group_entity. rewrite Ei at 2. rewrite add_group_instances_app, Hipre. cbn [bind].
  rewrite group_instance_rejected; [reflexivity|assumption|].
  rewrite Ei, map_app. apply in_or_app. right. left. reflexivity.
Qed.
