(** The core of C11: LOCALITY.  When a population [p] is embedded in a population [pM]
    (persons placed at [fp], groups at [fg], memberships and roles preserved, and no other
    person of [pM] belongs to a group of the image), every group operation, every
    expression and every variable of every rule system evaluated on [pM] and read at the
    image gives what it gives on [p] alone.  Merging two situations and permuting one
    situation are both instances (proofs/MergeProofs.v). *)
From Coq Require Import ZArith List Bool Arith Lia Sorting.Permutation.
From Verif Require Import Base Cal Tables Period Np NpProofs Group GroupSpec GroupProofs Param Engine.
From Verif Require Import Merge MergeLists.
Import ListNotations.
Open Scope nat_scope.

Record Emb (p pM : gpop) (fp fg : list nat) : Prop := mk_Emb {
  e_ent : g_entity pM = g_entity p;
  e_wf : wf_pop p;
  e_wfM : wf_pop pM;
  e_lp : length fp = npersons p;
  e_lg : length fg = g_count p;
  e_rp : Forall (fun j => j < npersons pM) fp;
  e_rg : Forall (fun h => h < g_count pM) fg;
  e_ndp : NoDup fp;
  e_ndg : NoDup fg;
  e_grp : forall i, i < npersons p -> group_of pM (nth i fp 0) = nth (group_of p i) fg 0;
  e_role : forall i, i < npersons p -> role_of pM (nth i fp 0) = role_of p i;
  e_closed : forall j g, j < npersons pM -> g < g_count p -> group_of pM j = nth g fg 0 -> In j fp
}.

(** * More list lemmas *)

Lemma nth_gather {A} (d : A) f a i :
  Forall (fun j => j < length a) f -> i < length f -> nth i (gather f a) d = nth (nth i f 0) a d.
Proof.
  intros Hf Hi. rewrite (gather_nth d) by exact Hf.
  rewrite (nth_indep _ d (nth 0 a d)) by (rewrite map_length; lia).
  apply (map_nth (fun j => nth j a d) f 0).
Qed.

Lemma gather_map {A B} (h : A -> B) f a : gather f (map h a) = map h (gather f a).
Proof.
  unfold gather. induction f as [|j f IH]; [reflexivity|]. cbn [flat_map].
  rewrite map_app, <- IH, nth_error_map. destruct (nth_error a j); reflexivity.
Qed.

Lemma nth_error_zip2 h a b j :
  nth_error (zip2 h a b) j =
  match nth_error a j, nth_error b j with Some x, Some y => Some (h x y) | _, _ => None end.
Proof.
  revert b j. induction a as [|x a IH]; intros b j.
  - cbn [zip2]. destruct j; reflexivity.
  - destruct b as [|y b]; cbn [zip2].
    + destruct j as [|j]; cbn; [reflexivity|]. destruct (nth_error a j); destruct j; reflexivity.
    + destruct j as [|j]; [reflexivity|]. cbn [nth_error]. apply IH.
Qed.

Lemma nth_error_zip3 h a b c j :
  nth_error (zip3 h a b c) j =
  match nth_error a j, nth_error b j, nth_error c j with
  | Some x, Some y, Some z => Some (h x y z) | _, _, _ => None end.
Proof.
  revert b c j. induction a as [|x a IH]; intros b c j.
  - cbn [zip3]. destruct j; reflexivity.
  - destruct b as [|y b]; [|destruct c as [|z c]]; cbn [zip3].
    + destruct j as [|j]; cbn; [reflexivity|]. destruct (nth_error a j); destruct j; reflexivity.
    + destruct j as [|j]; cbn; [reflexivity|].
      destruct (nth_error a j); [|reflexivity]. destruct (nth_error b j); destruct j; reflexivity.
    + destruct j as [|j]; [reflexivity|]. cbn [nth_error]. apply IH.
Qed.

Lemma nth_error_same_length {A B} (a : list A) (b : list B) j :
  length a = length b -> (nth_error a j = None <-> nth_error b j = None).
Proof. intros H. rewrite !nth_error_None, H. reflexivity. Qed.

Lemma gather_zip2 h f a b : length a = length b ->
  gather f (zip2 h a b) = zip2 h (gather f a) (gather f b).
Proof.
  intros Hl. unfold gather. induction f as [|j f IH]; [reflexivity|]. cbn [flat_map].
  rewrite IH, nth_error_zip2. pose proof (nth_error_same_length a b j Hl) as Hn.
  destruct (nth_error a j) as [x|], (nth_error b j) as [y|]; cbn [app]; try reflexivity.
  - destruct Hn as [_ Hn]. discriminate (Hn eq_refl).
  - destruct Hn as [Hn _]. discriminate (Hn eq_refl).
Qed.

Lemma gather_zip3 h f a b c : length a = length b -> length a = length c ->
  gather f (zip3 h a b c) = zip3 h (gather f a) (gather f b) (gather f c).
Proof.
  intros Hb Hc. unfold gather. induction f as [|j f IH]; [reflexivity|]. cbn [flat_map].
  rewrite IH, nth_error_zip3.
  pose proof (nth_error_same_length a b j Hb) as Hn1.
  pose proof (nth_error_same_length a c j Hc) as Hn2.
  destruct (nth_error a j) as [x|], (nth_error b j) as [y|], (nth_error c j) as [z|];
    cbn [app]; try reflexivity;
    try (destruct Hn1 as [Hn1 Hn1']; (discriminate (Hn1 eq_refl) || discriminate (Hn1' eq_refl)));
    try (destruct Hn2 as [Hn2 Hn2']; (discriminate (Hn2 eq_refl) || discriminate (Hn2' eq_refl))).
Qed.

Lemma zip2_length h a b : length (zip2 h a b) = Nat.min (length a) (length b).
Proof.
  revert b. induction a as [|x a IH]; intros b; [reflexivity|].
  destruct b as [|y b]; [reflexivity|]. cbn [zip2 length]. rewrite IH. reflexivity.
Qed.

Lemma zip3_length h a b c :
  length (zip3 h a b c) = Nat.min (length a) (Nat.min (length b) (length c)).
Proof.
  revert b c. induction a as [|x a IH]; intros b c; [reflexivity|].
  destruct b as [|y b]; [reflexivity|]. destruct c as [|z c]; [reflexivity|].
  cbn [zip3 length]. rewrite IH. reflexivity.
Qed.

Lemma zip2_nil_r h a : zip2 h a [] = [].
Proof. destruct a; reflexivity. Qed.
Lemma zip3_nil_2 h a c : zip3 h a [] c = [].
Proof. destruct a; reflexivity. Qed.
Lemma zip3_nil_3 h a b : zip3 h a b [] = [].
Proof. destruct a; [reflexivity|]. destruct b; reflexivity. Qed.

Lemma map_const_repeat {A B} (z : B) (l : list A) : map (fun _ => z) l = repeat z (length l).
Proof. induction l; cbn; congruence. Qed.

Lemma zsum_perm l l' : Permutation l l' -> zsum l = zsum l'.
Proof.
  induction 1 as [|x l l' _ IH|x y l|l l' l'' _ IH1 _ IH2]; cbn [zsum fold_right] in *;
    unfold zsum in *; cbn [fold_right]; try lia.
Qed.

Lemma forallb_perm {A} (h : A -> bool) l l' : Permutation l l' -> forallb h l = forallb h l'.
Proof.
  induction 1 as [|x l l' _ IH|x y l|l l' l'' _ IH1 _ IH2]; cbn [forallb]; try congruence.
  destruct (h x), (h y); reflexivity.
Qed.

Lemma forallb_map_comp {A B} (h : B -> bool) (k : A -> B) l :
  forallb h (map k l) = forallb (fun x => h (k x)) l.
Proof. induction l as [|a l IH]; [reflexivity|]. cbn [map forallb]. now rewrite IH. Qed.

Lemma forallb_ext_In {A} (h k : A -> bool) l :
  (forall x, In x l -> h x = k x) -> forallb h l = forallb k l.
Proof.
  induction l as [|a l IH]; intros H; [reflexivity|]. cbn [forallb].
  rewrite (H a (or_introl eq_refl)), IH; [reflexivity|]. intros x Hx. apply H. now right.
Qed.

Lemma NoDup_map_nth (f l : list nat) :
  NoDup f -> NoDup l -> Forall (fun i => i < length f) l -> NoDup (map (fun i => nth i f 0) l).
Proof.
  intros Hf Hl. induction Hl as [|a l Ha Hl IH]; intros HF; [constructor|].
  inversion HF as [|? ? Hlt HF']; subst. cbn [map]. constructor; [|apply IH, HF'].
  intros Hin. apply in_map_iff in Hin as [x [Hx Hxl]].
  rewrite Forall_forall in HF'. pose proof (HF' x Hxl) as Hxlt.
  apply (proj1 (NoDup_nth f 0) Hf) in Hx; [|assumption|assumption]. subst x. contradiction.
Qed.

(** * Group operations are local *)

Section Local.
  Variables p pM : gpop.
  Variables fp fg : list nat.
  Hypothesis E : Emb p pM fp fg.
  Hypothesis Hpos : 0 < npersons p.

  Lemma fp_nth_lt i : i < npersons p -> nth i fp 0 < npersons pM.
  Proof.
    intros Hi. pose proof (e_rp _ _ _ _ E) as H. rewrite Forall_forall in H.
    apply H, nth_In. rewrite (e_lp _ _ _ _ E). exact Hi.
  Qed.

  Lemma fg_nth_lt g : g < g_count p -> nth g fg 0 < g_count pM.
  Proof.
    intros Hg. pose proof (e_rg _ _ _ _ E) as H. rewrite Forall_forall in H.
    apply H, nth_In. rewrite (e_lg _ _ _ _ E). exact Hg.
  Qed.

  Lemma posM : 0 < npersons pM.
  Proof. pose proof (fp_nth_lt 0 Hpos). lia. Qed.

  Lemma gpos : 0 < g_count p.
  Proof. pose proof (wf_group_lt p 0 (e_wf _ _ _ _ E) Hpos). lia. Qed.

  Lemma gposM : 0 < g_count pM.
  Proof. pose proof (fg_nth_lt 0 gpos). lia. Qed.

  Lemma in_role_emb role i : i < npersons p -> in_role pM role (nth i fp 0) = in_role p role i.
  Proof.
    intros Hi. unfold in_role. destruct role as [r|]; [|reflexivity].
    now rewrite (e_ent _ _ _ _ E), (e_role _ _ _ _ E) by exact Hi.
  Qed.

  (** The members of the image of group g are the images of the members of g. *)
  Lemma mwr_perm role g : g < g_count p ->
    Permutation (members_with_role pM role (nth g fg 0))
                (map (fun i => nth i fp 0) (members_with_role p role g)).
  Proof.
    intros Hg. apply NoDup_Permutation.
    - apply NoDup_filter, members_NoDup.
    - apply NoDup_map_nth; [exact (e_ndp _ _ _ _ E)|apply NoDup_filter, members_NoDup|].
      apply Forall_forall. intros i Hi. apply mwr_lt in Hi. now rewrite (e_lp _ _ _ _ E).
    - intros j. unfold members_with_role. rewrite filter_In, in_members, in_map_iff. split.
      + intros [[Hj Hgj] Hr].
        pose proof (e_closed _ _ _ _ E j g Hj Hg Hgj) as Hin.
        destruct (In_nth _ _ 0 Hin) as [i [Hi Hij]]. rewrite (e_lp _ _ _ _ E) in Hi.
        exists i. split; [exact Hij|]. rewrite filter_In, in_members.
        assert (Hgi : group_of p i = g).
        { pose proof (e_grp _ _ _ _ E i Hi) as Hgr. rewrite Hij, Hgj in Hgr.
          apply (proj1 (NoDup_nth fg 0) (e_ndg _ _ _ _ E)) in Hgr; [now symmetry| |];
            rewrite (e_lg _ _ _ _ E); [exact Hg|apply wf_group_lt; [exact (e_wf _ _ _ _ E)|exact Hi]]. }
        repeat split; [exact Hi|exact Hgi|]. rewrite <- (in_role_emb role i Hi), Hij. exact Hr.
      + intros [i [Hij Hi]]. rewrite filter_In, in_members in Hi. destruct Hi as [[Hi Hgi] Hr].
        subst j. repeat split.
        * now apply fp_nth_lt.
        * rewrite (e_grp _ _ _ _ E i Hi), Hgi. reflexivity.
        * now rewrite (in_role_emb role i Hi).
  Qed.

  (** A group-level result given group by group, read at the image. *)
  Lemma group_map_emb {B} (F G : nat -> B) :
    (forall g, g < g_count p -> F (nth g fg 0) = G g) ->
    gather fg (map F (seq 0 (g_count pM))) = map G (seq 0 (g_count p)).
  Proof.
    intros H. destruct (g_count p) as [|c'] eqn:Ec.
    - pose proof (e_lg _ _ _ _ E) as Hl. rewrite Ec in Hl. destruct fg; [reflexivity|discriminate].
    - rewrite <- Ec in *. rewrite (gather_nth (F 0)).
      2:{ rewrite map_length, seq_length. exact (e_rg _ _ _ _ E). }
      pose proof (as_map fg 0) as Efg. rewrite (e_lg _ _ _ _ E) in Efg. rewrite Efg at 1.
      rewrite map_map. apply map_ext_in. intros g Hg. apply in_seq in Hg.
      rewrite nth_map_seq by (apply fg_nth_lt; lia). apply H. lia.
  Qed.

  (** A person-level array of [pM] read at the image. *)
  Lemma nth_image (xM : list Z) i : length xM = npersons pM -> i < npersons p ->
    nth i (gather fp xM) 0%Z = nth (nth i fp 0) xM 0%Z.
  Proof.
    intros Hl Hi. apply nth_gather; [rewrite Hl; exact (e_rp _ _ _ _ E)|].
    now rewrite (e_lp _ _ _ _ E).
  Qed.

  Lemma gather_fp_length (xM : list Z) : length xM = npersons pM -> length (gather fp xM) = npersons p.
  Proof.
    intros Hl. rewrite gather_length by (rewrite Hl; exact (e_rp _ _ _ _ E)). exact (e_lp _ _ _ _ E).
  Qed.

  Lemma gather_fg_length (yM : list Z) : length yM = g_count pM -> length (gather fg yM) = g_count p.
  Proof.
    intros Hl. rewrite gather_length by (rewrite Hl; exact (e_rg _ _ _ _ E)). exact (e_lg _ _ _ _ E).
  Qed.

  Lemma members_values (xM : list Z) role g : length xM = npersons pM -> g < g_count p ->
    Permutation (map (fun j => nth j xM 0%Z) (members_with_role pM role (nth g fg 0)))
                (map (fun i => nth i (gather fp xM) 0%Z) (members_with_role p role g)).
  Proof.
    intros Hl Hg. rewrite (Permutation_map _ (mwr_perm role g Hg)), map_map.
    erewrite map_ext_in; [reflexivity|]. intros i Hi. apply mwr_lt in Hi. cbv beta.
    symmetry. now apply nth_image.
  Qed.

  Lemma sum_local xM role : length xM = npersons pM ->
    exists sM, sum pM xM role = Ok sM /\ length sM = g_count pM
               /\ sum p (gather fp xM) role = Ok (gather fg sM).
  Proof.
    intros Hl. rewrite (sum_ok pM xM role (e_wfM _ _ _ _ E) Hl).
    rewrite (sum_ok p (gather fp xM) role (e_wf _ _ _ _ E) (gather_fp_length xM Hl)).
    eexists. split; [reflexivity|]. split; [now rewrite map_length, seq_length|]. f_equal.
    symmetry. apply group_map_emb. intros g Hg. apply zsum_perm, members_values; assumption.
  Qed.

  Lemma all_local xM role : length xM = npersons pM ->
    exists sM, all pM xM role = Ok sM /\ length sM = g_count pM
               /\ all p (gather fp xM) role = Ok (gather fg sM).
  Proof.
    intros Hl. unfold all.
    rewrite (all_ok _ pM xM role (e_wfM _ _ _ _ E) (ordered_members_map_sorting pM) Hl posM).
    rewrite (all_ok _ p (gather fp xM) role (e_wf _ _ _ _ E) (ordered_members_map_sorting p)
               (gather_fp_length xM Hl) Hpos).
    eexists. split; [reflexivity|]. split; [now rewrite map_length, seq_length|]. f_equal.
    symmetry. apply group_map_emb. intros g Hg.
    rewrite (forallb_perm _ _ _ (mwr_perm role g Hg)).
    rewrite forallb_map_comp. apply forallb_ext_In. intros i Hi. apply mwr_lt in Hi.
    now rewrite nth_image.
  Qed.

  Lemma nb_local role :
    exists sM, nb_persons pM role = Ok sM /\ length sM = g_count pM
               /\ nb_persons p role = Ok (gather fg sM).
  Proof.
    rewrite (nb_persons_ok pM role (e_wfM _ _ _ _ E)), (nb_persons_ok p role (e_wf _ _ _ _ E)).
    eexists. split; [reflexivity|]. split; [now rewrite map_length, seq_length|]. f_equal.
    symmetry. apply group_map_emb. intros g Hg.
    now rewrite (Permutation_length (mwr_perm role g Hg)), map_length.
  Qed.

  Lemma project_local yM role : length yM = g_count pM ->
    exists xM, project pM yM role = Ok xM /\ length xM = npersons pM
               /\ project p (gather fg yM) role = Ok (gather fp xM).
  Proof.
    intros Hl. rewrite (project_ok pM yM role (e_wfM _ _ _ _ E) Hl).
    rewrite (project_ok p (gather fg yM) role (e_wf _ _ _ _ E) (gather_fg_length yM Hl)).
    eexists. split; [reflexivity|]. split; [now rewrite map_length, seq_length|]. f_equal.
    rewrite (gather_nth 0%Z fp) by (rewrite map_length, seq_length; exact (e_rp _ _ _ _ E)).
    pose proof (as_map fp 0) as Efp. rewrite (e_lp _ _ _ _ E) in Efp. rewrite Efp at 1.
    rewrite map_map. apply map_ext_in. intros i Hi. apply in_seq in Hi.
    assert (Hi' : i < npersons p) by lia.
    rewrite nth_map_seq by (now apply fp_nth_lt).
    rewrite (in_role_emb role i Hi'), (e_grp _ _ _ _ E i Hi').
    destruct (in_role p role i); [|reflexivity].
    rewrite nth_gather; [reflexivity|rewrite Hl; exact (e_rg _ _ _ _ E)|].
    rewrite (e_lg _ _ _ _ E). apply wf_group_lt; [exact (e_wf _ _ _ _ E)|exact Hi'].
  Qed.

  Lemma image_members_length r g : g < g_count p ->
    length (members_with_role pM (Some r) (nth g fg 0)) = length (members_with_role p (Some r) g).
  Proof. intros Hg. now rewrite (Permutation_length (mwr_perm (Some r) g Hg)), map_length. Qed.

  (** value_from_person(array, role) for a unique role *)
  Lemma vfp_local xM r :
    role_max (g_entity p) r = Some 1 -> role_unique_in p r -> role_unique_in pM r ->
    length xM = npersons pM ->
    exists sM, value_from_person pM xM r 0%Z = Ok sM /\ length sM = g_count pM
               /\ value_from_person p (gather fp xM) r 0%Z = Ok (gather fg sM).
  Proof.
    intros Hmax U UM Hl. unfold value_from_person.
    rewrite (value_from_person_ok _ pM xM r 0%Z (e_wfM _ _ _ _ E) (ordered_members_map_sorting pM) Hl);
      [|rewrite (e_ent _ _ _ _ E); exact Hmax|exact UM].
    rewrite (value_from_person_ok _ p (gather fp xM) r 0%Z (e_wf _ _ _ _ E) (ordered_members_map_sorting p)
               (gather_fp_length xM Hl) Hmax U).
    eexists. split; [reflexivity|]. split; [now rewrite map_length, seq_length|]. f_equal.
    symmetry. apply group_map_emb. intros g Hg.
    pose proof (mwr_perm (Some r) g Hg) as P. pose proof (U g Hg) as Ug.
    destruct (members_with_role p (Some r) g) as [|i [|i' l]] eqn:Em.
    - cbn [map] in P. apply Permutation_sym, Permutation_nil in P. rewrite P. reflexivity.
    - cbn [map] in P. apply Permutation_sym, Permutation_length_1_inv in P. rewrite P.
      symmetry. apply nth_image; [exact Hl|]. apply (mwr_lt p (Some r) g). rewrite Em. now left.
    - cbn [length] in Ug. lia.
  Qed.

  Lemma vfp_not_unique (xM x : list Z) r : role_max (g_entity p) r <> Some 1 ->
    value_from_person pM xM r 0%Z = Err EOther /\ value_from_person p x r 0%Z = Err EOther.
  Proof.
    intros H. unfold value_from_person, value_from_person_with. rewrite (e_ent _ _ _ _ E).
    destruct (role_max (g_entity p) r) as [[|[|n]]|]; try (split; reflexivity). now contradiction H.
  Qed.

  Lemma vfp_nil r : exists e,
    value_from_person pM ([] : list Z) r 0%Z = Err e /\ value_from_person p ([] : list Z) r 0%Z = Err e.
  Proof.
    unfold value_from_person, value_from_person_with, check_size. rewrite (e_ent _ _ _ _ E). cbn [length].
    pose proof posM. destruct (npersons pM) eqn:E1; [lia|]. destruct (npersons p) eqn:E2; [lia|].
    destruct (role_max (g_entity p) r) as [[|[|k]]|]; eexists; split; reflexivity.
  Qed.

  (** An array of the wrong size is refused in both populations. *)
  Lemma sum_nil role : sum pM [] role = Err EValue /\ sum p [] role = Err EValue.
  Proof.
    unfold sum, check_size. cbn [length].
    pose proof posM. destruct (npersons pM) eqn:E1; [lia|]. destruct (npersons p) eqn:E2; [lia|].
    split; reflexivity.
  Qed.

  Lemma all_nil role : all pM [] role = Err EValue /\ all p [] role = Err EValue.
  Proof.
    unfold all, all_with, reduce_with, check_size. cbn [map length].
    pose proof posM. destruct (npersons pM) eqn:E1; [lia|]. destruct (npersons p) eqn:E2; [lia|].
    split; reflexivity.
  Qed.

  Lemma project_nil role : project pM [] role = Err EValue /\ project p [] role = Err EValue.
  Proof.
    unfold project, check_size. cbn [length].
    pose proof gposM. pose proof gpos.
    destruct (g_count pM) eqn:E1; [lia|]. destruct (g_count p) eqn:E2; [lia|].
    split; reflexivity.
  Qed.
End Local.
