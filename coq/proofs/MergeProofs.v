(** C11, last step: the merged population of model/Merge.v embeds each situation, the
    permuted population embeds the original one (instances of [MergeEmb.Emb]); hence
    [merge_independence] and [permutation_equivariance] for the meaning [sem], and for the
    machine [calc] through EngineProofs.calculate_refines_meaning. *)
From Coq Require Import ZArith List Bool Arith Lia.
From Verif Require Import Base Cal Tables Period Np NpProofs Group GroupSpec GroupProofs Param Engine.
From Verif Require Import EngineProofs Merge MergeLists MergeEmb MergeEval.
Import ListNotations.
Open Scope nat_scope.

Lemma nth_map_lt {A B} (h : A -> B) l i d d' : i < length l -> nth i (map h l) d = h (nth i l d').
Proof.
  intros Hi. rewrite (nth_indep _ d (h d')) by (now rewrite map_length). apply map_nth.
Qed.

(** * A permuted population embeds the original one *)

Section Place.
  Variable p : gpop.
  Variables fp fg : list nat.
  Hypothesis W : wf_pop p.
  Hypothesis Hp : is_perm_b fp (npersons p) = true.
  Hypothesis Hg : is_perm_b fg (g_count p) = true.

  Lemma place_pop_npersons : npersons (place_pop fp fg p) = npersons p.
  Proof.
    unfold npersons at 1. cbn [place_pop g_ids]. apply place_length; [exact Hp|].
    now rewrite map_length.
  Qed.

  Lemma place_pop_group j : j < npersons p ->
    group_of (place_pop fp fg p) j = nth (group_of p (nth j (inverse fp) 0)) fg 0.
  Proof.
    intros Hj. unfold group_of at 1. cbn [place_pop g_ids].
    rewrite (nth_place_inv 0 fp (npersons p)); [|exact Hp|now rewrite map_length|exact Hj].
    unfold group_of. apply (nth_map_lt (fun g => nth g fg 0)). apply (inverse_spec fp _ Hp j Hj).
  Qed.

  Lemma emb_place : Emb p (place_pop fp fg p) fp fg.
  Proof.
    destruct (is_perm_spec _ _ Hp) as [Hlp [Hndp Hinp]].
    destruct (is_perm_spec _ _ Hg) as [Hlg [Hndg Hing]].
    destruct W as [Wids Wroles].
    constructor; try assumption; try reflexivity.
    - split.
      + apply Forall_forall. intros x Hx.
        destruct (In_nth _ _ 0 Hx) as [j [Hj Ex]].
        fold (npersons (place_pop fp fg p)) in Hj. rewrite place_pop_npersons in Hj.
        fold (group_of (place_pop fp fg p) j) in Ex. rewrite place_pop_group in Ex by exact Hj.
        subst x. cbn [place_pop g_count]. apply perm_nth_lt; [exact Hg|].
        apply wf_group_lt; [exact W|]. apply (inverse_spec fp _ Hp j Hj).
      + cbn [place_pop g_roles g_ids].
        rewrite (place_length fp (npersons p)); [|exact Hp|exact Wroles].
        rewrite (place_length fp (npersons p)); [reflexivity|exact Hp|now rewrite map_length].
    - rewrite place_pop_npersons. apply perm_Forall_lt, Hp.
    - cbn [place_pop g_count]. apply perm_Forall_lt, Hg.
    - intros i Hi. unfold group_of at 1. cbn [place_pop g_ids].
      rewrite (nth_place 0 fp (npersons p)); [|exact Hp|now rewrite map_length|exact Hi].
      unfold group_of. now apply (nth_map_lt (fun g => nth g fg 0)).
    - intros i Hi. unfold role_of at 1. cbn [place_pop g_roles].
      apply (nth_place 0 fp (npersons p)); [exact Hp|exact Wroles|exact Hi].
    - intros j g Hj _ _. rewrite place_pop_npersons in Hj. now apply Hinp.
  Qed.
End Place.

(** * The concatenation of two populations embeds each of them *)

Section Concat.
  Variables p1 p2 : gpop.
  Hypothesis W1 : wf_pop p1.
  Hypothesis W2 : wf_pop p2.
  Hypothesis Hent : g_entity p2 = g_entity p1.

  Lemma concat_npersons : npersons (concat_pop p1 p2) = npersons p1 + npersons p2.
  Proof. unfold npersons. cbn [concat_pop g_ids]. now rewrite app_length, map_length. Qed.

  Lemma concat_wf : wf_pop (concat_pop p1 p2).
  Proof.
    destruct W1 as [A1 B1], W2 as [A2 B2]. split; cbn [concat_pop g_ids g_roles g_count].
    - apply Forall_app. split.
      + eapply Forall_impl; [|exact A1]. cbv beta. intros; lia.
      + apply Forall_map. eapply Forall_impl; [|exact A2]. cbv beta. intros; lia.
    - rewrite !app_length, map_length. lia.
  Qed.

  Lemma concat_group_l i : i < npersons p1 -> group_of (concat_pop p1 p2) i = group_of p1 i.
  Proof. intros Hi. unfold group_of. cbn [concat_pop g_ids]. now apply app_nth1. Qed.

  Lemma concat_group_r i : i < npersons p2 ->
    group_of (concat_pop p1 p2) (npersons p1 + i) = g_count p1 + group_of p2 i.
  Proof.
    intros Hi. unfold group_of, npersons. cbn [concat_pop g_ids]. rewrite app_nth2_plus.
    now apply (nth_map_lt (fun g => g_count p1 + g)).
  Qed.

  Lemma emb_concat_l : Emb p1 (concat_pop p1 p2) (seq 0 (npersons p1)) (seq 0 (g_count p1)).
  Proof.
    constructor; try assumption; try reflexivity; try apply seq_length; try apply seq_NoDup.
    - apply concat_wf.
    - rewrite concat_npersons. apply Forall_forall. intros j Hj. apply in_seq in Hj. lia.
    - cbn [concat_pop g_count]. apply Forall_forall. intros j Hj. apply in_seq in Hj. lia.
    - intros i Hi. rewrite !seq_nth; [|apply wf_group_lt; assumption|exact Hi].
      cbn [Nat.add]. now apply concat_group_l.
    - intros i Hi. rewrite seq_nth by exact Hi. cbn [Nat.add]. unfold role_of.
      cbn [concat_pop g_roles]. apply app_nth1. destruct W1 as [_ ->]. exact Hi.
    - intros j g Hj Hg Hgr. rewrite seq_nth in Hgr by exact Hg. cbn [Nat.add] in Hgr.
      apply in_seq. rewrite concat_npersons in Hj.
      destruct (Nat.lt_ge_cases j (npersons p1)) as [Hlt|Hge]; [lia|]. exfalso.
      replace j with (npersons p1 + (j - npersons p1)) in Hgr by lia.
      rewrite concat_group_r in Hgr by lia. lia.
  Qed.

  Lemma emb_concat_r :
    Emb p2 (concat_pop p1 p2) (seq (npersons p1) (npersons p2)) (seq (g_count p1) (g_count p2)).
  Proof.
    constructor; try assumption; try apply seq_length; try apply seq_NoDup.
    - cbn [concat_pop g_entity]. now symmetry.
    - apply concat_wf.
    - rewrite concat_npersons. apply Forall_forall. intros j Hj. apply in_seq in Hj. lia.
    - cbn [concat_pop g_count]. apply Forall_forall. intros j Hj. apply in_seq in Hj. lia.
    - intros i Hi. rewrite !seq_nth; [|apply wf_group_lt; assumption|exact Hi].
      now apply concat_group_r.
    - intros i Hi. rewrite seq_nth by exact Hi. unfold role_of.
      cbn [concat_pop g_roles]. unfold npersons. destruct W1 as [_ <-]. apply app_nth2_plus.
    - intros j g Hj Hg Hgr. rewrite seq_nth in Hgr by exact Hg.
      apply in_seq. rewrite concat_npersons in Hj.
      destruct (Nat.lt_ge_cases j (npersons p1)) as [Hlt|Hge]; [|lia]. exfalso.
      rewrite concat_group_l in Hgr by exact Hlt.
      pose proof (wf_group_lt p1 j W1 Hlt). lia.
  Qed.
End Concat.

(** * Embeddings compose *)

Lemma Emb_trans pA pB pC f g f' g' :
  Emb pA pB f g -> Emb pB pC f' g' ->
  Emb pA pC (map (fun i => nth i f' 0) f) (map (fun h => nth h g' 0) g).
Proof.
  intros E1 E2.
  assert (Hf : forall i, i < npersons pA -> nth i f 0 < npersons pB).
  { intros i Hi. pose proof (e_rp _ _ _ _ E1) as H. rewrite Forall_forall in H.
    apply H, nth_In. now rewrite (e_lp _ _ _ _ E1). }
  assert (Hg : forall h, h < g_count pA -> nth h g 0 < g_count pB).
  { intros h Hh. pose proof (e_rg _ _ _ _ E1) as H. rewrite Forall_forall in H.
    apply H, nth_In. now rewrite (e_lg _ _ _ _ E1). }
  assert (Hf' : forall i, i < npersons pB -> nth i f' 0 < npersons pC).
  { intros i Hi. pose proof (e_rp _ _ _ _ E2) as H. rewrite Forall_forall in H.
    apply H, nth_In. now rewrite (e_lp _ _ _ _ E2). }
  assert (Hg' : forall h, h < g_count pB -> nth h g' 0 < g_count pC).
  { intros h Hh. pose proof (e_rg _ _ _ _ E2) as H. rewrite Forall_forall in H.
    apply H, nth_In. now rewrite (e_lg _ _ _ _ E2). }
  constructor.
  - now rewrite (e_ent _ _ _ _ E2), (e_ent _ _ _ _ E1).
  - exact (e_wf _ _ _ _ E1).
  - exact (e_wfM _ _ _ _ E2).
  - rewrite map_length. exact (e_lp _ _ _ _ E1).
  - rewrite map_length. exact (e_lg _ _ _ _ E1).
  - apply Forall_forall. intros x Hx. apply in_map_iff in Hx as [i [<- Hi]].
    apply Hf'. pose proof (e_rp _ _ _ _ E1) as H. rewrite Forall_forall in H. now apply H.
  - apply Forall_forall. intros x Hx. apply in_map_iff in Hx as [i [<- Hi]].
    apply Hg'. pose proof (e_rg _ _ _ _ E1) as H. rewrite Forall_forall in H. now apply H.
  - apply NoDup_map_nth; [exact (e_ndp _ _ _ _ E2)|exact (e_ndp _ _ _ _ E1)|].
    rewrite (e_lp _ _ _ _ E2). exact (e_rp _ _ _ _ E1).
  - apply NoDup_map_nth; [exact (e_ndg _ _ _ _ E2)|exact (e_ndg _ _ _ _ E1)|].
    rewrite (e_lg _ _ _ _ E2). exact (e_rg _ _ _ _ E1).
  - intros i Hi.
    rewrite (nth_map_lt _ f i 0 0) by (now rewrite (e_lp _ _ _ _ E1)).
    rewrite (e_grp _ _ _ _ E2) by (now apply Hf). rewrite (e_grp _ _ _ _ E1) by exact Hi.
    symmetry. apply (nth_map_lt (fun h => nth h g' 0)). rewrite (e_lg _ _ _ _ E1).
    apply wf_group_lt; [exact (e_wf _ _ _ _ E1)|exact Hi].
  - intros i Hi.
    rewrite (nth_map_lt _ f i 0 0) by (now rewrite (e_lp _ _ _ _ E1)).
    rewrite (e_role _ _ _ _ E2) by (now apply Hf). now apply (e_role _ _ _ _ E1).
  - intros j h Hj Hh Hgr.
    rewrite (nth_map_lt _ g h 0 0) in Hgr by (now rewrite (e_lg _ _ _ _ E1)).
    pose proof (e_closed _ _ _ _ E2 j (nth h g 0) Hj (Hg h Hh) Hgr) as Hin.
    destruct (In_nth _ _ 0 Hin) as [i' [Hi' Ej]]. rewrite (e_lp _ _ _ _ E2) in Hi'.
    apply in_map_iff. exists i'. split; [exact Ej|].
    apply (e_closed _ _ _ _ E1 i' h Hi' Hh).
    rewrite <- Ej, (e_grp _ _ _ _ E2 i' Hi') in Hgr.
    apply (proj1 (NoDup_nth g' 0) (e_ndg _ _ _ _ E2)) in Hgr; [exact Hgr| |];
      rewrite (e_lg _ _ _ _ E2); [|now apply Hg].
    apply wf_group_lt; [exact (e_wf _ _ _ _ E2)|exact Hi'].
Qed.

(** * The merged population embeds both situations *)

Section Merged.
  Variables p1 p2 : gpop.
  Variables f1 f2 g1 g2 : list nat.
  Hypothesis W1 : wf_pop p1.
  Hypothesis W2 : wf_pop p2.
  Hypothesis Hent : g_entity p2 = g_entity p1.
  Hypothesis Hf : interleaving f1 f2 (npersons p1) (npersons p2) = true.
  Hypothesis Hg : interleaving g1 g2 (g_count p1) (g_count p2) = true.

  Lemma merged_perm_p : is_perm_b (f1 ++ f2) (npersons (concat_pop p1 p2)) = true.
  Proof. rewrite concat_npersons. apply (interleaving_spec _ _ _ _ Hf). Qed.

  Lemma merged_perm_g : is_perm_b (g1 ++ g2) (g_count (concat_pop p1 p2)) = true.
  Proof. cbn [concat_pop g_count]. apply (interleaving_spec _ _ _ _ Hg). Qed.

  Lemma emb_merged_1 : Emb p1 (merge_pop f1 f2 g1 g2 p1 p2) f1 g1.
  Proof.
    destruct (interleaving_spec _ _ _ _ Hf) as [L1 [L2 _]].
    destruct (interleaving_spec _ _ _ _ Hg) as [M1 [M2 _]].
    pose proof (Emb_trans _ _ _ _ _ _ _ (emb_concat_l p1 p2 W1 W2)
                  (emb_place _ _ _ (concat_wf p1 p2 W1 W2) merged_perm_p merged_perm_g)) as H.
    rewrite <- L1, <- M1, !app_half_l in H. exact H.
  Qed.

  Lemma emb_merged_2 : Emb p2 (merge_pop f1 f2 g1 g2 p1 p2) f2 g2.
  Proof.
    destruct (interleaving_spec _ _ _ _ Hf) as [L1 [L2 _]].
    destruct (interleaving_spec _ _ _ _ Hg) as [M1 [M2 _]].
    pose proof (Emb_trans _ _ _ _ _ _ _ (emb_concat_r p1 p2 W1 W2 Hent)
                  (emb_place _ _ _ (concat_wf p1 p2 W1 W2) merged_perm_p merged_perm_g)) as H.
    rewrite <- L1, <- M1, <- L2, <- M2, !app_half_r in H. exact H.
  Qed.
End Merged.

(** * Unique roles stay unique *)

Lemma unique_at_image p pM fp fg : Emb p pM fp fg -> roles_unique p ->
  forall r, role_max (g_entity pM) r = Some 1 ->
  forall h, In h fg -> length (members_with_role pM (Some r) h) <= 1.
Proof.
  intros E U r Hr h Hh. destruct (In_nth _ _ 0 Hh) as [g [Hg <-]].
  rewrite (e_lg _ _ _ _ E) in Hg. rewrite (image_members_length _ _ _ _ E r g Hg).
  rewrite (e_ent _ _ _ _ E) in Hr. exact (U r Hr g Hg).
Qed.

Lemma roles_unique_permuted p fp fg : wf_pop p ->
  is_perm_b fp (npersons p) = true -> is_perm_b fg (g_count p) = true ->
  roles_unique p -> roles_unique (place_pop fp fg p).
Proof.
  intros W Hp Hg U r Hr h Hh.
  apply (unique_at_image _ _ _ _ (emb_place p fp fg W Hp Hg) U r Hr).
  apply (is_perm_spec _ _ Hg). exact Hh.
Qed.

Lemma roles_unique_merged p1 p2 f1 f2 g1 g2 : wf_pop p1 -> wf_pop p2 ->
  g_entity p2 = g_entity p1 ->
  interleaving f1 f2 (npersons p1) (npersons p2) = true ->
  interleaving g1 g2 (g_count p1) (g_count p2) = true ->
  roles_unique p1 -> roles_unique p2 -> roles_unique (merge_pop f1 f2 g1 g2 p1 p2).
Proof.
  intros W1 W2 He Hf Hg U1 U2 r Hr h Hh.
  destruct (interleaving_spec _ _ _ _ Hg) as [_ [_ P]].
  assert (Hin : In h (g1 ++ g2)) by (apply (is_perm_spec _ _ P); exact Hh).
  apply in_app_or in Hin as [Hin|Hin].
  - exact (unique_at_image _ _ _ _ (emb_merged_1 p1 p2 f1 f2 g1 g2 W1 W2 Hf Hg) U1 r Hr h Hin).
  - exact (unique_at_image _ _ _ _ (emb_merged_2 p1 p2 f1 f2 g1 g2 W1 W2 He Hf Hg) U2 r Hr h Hin).
Qed.

(** * Inputs *)

Lemma lookup_map_vals (h : key -> val -> val) k (l : inputs) :
  lookup k (map (fun kv => (fst kv, h (fst kv) (snd kv))) l) = option_map (h k) (lookup k l).
Proof.
  unfold lookup. induction l as [|[k' a] l IH]; [reflexivity|]. cbn [map find fst snd].
  destruct (key_eqb k k') eqn:Ek.
  - apply key_eqb_iff in Ek. subst k'. reflexivity.
  - exact IH.
Qed.

Lemma lookup_concat k (inp1 inp2 : inputs) : map fst inp1 = map fst inp2 ->
  lookup k (concat_inputs inp1 inp2) =
  match lookup k inp1, lookup k inp2 with
  | Some a1, Some a2 => Some (a1 ++ a2)
  | _, _ => None
  end
  /\ (lookup k inp1 = None <-> lookup k inp2 = None).
Proof.
  unfold lookup, concat_inputs. revert inp2.
  induction inp1 as [|[k1 a1] l1 IH]; intros [|[k2 a2] l2] Hk; try discriminate.
  - cbn. split; [reflexivity|tauto].
  - cbn [map fst] in Hk. inversion Hk as [[Hk12 Hrest]]. subst k2.
    cbn [combine map find fst snd]. destruct (key_eqb k k1).
    + cbn [option_map snd]. split; [reflexivity|]. split; discriminate.
    + apply IH, Hrest.
Qed.

Lemma gather_place_sub {A} (d : A) f n (b : list A) idx : is_perm_b f n = true -> length b = n ->
  Forall (fun i => i < n) idx ->
  gather (map (fun i => nth i f 0) idx) (place f b) = gather idx b.
Proof.
  intros H Hb Hidx.
  rewrite (gather_nth d).
  2:{ rewrite (place_length f n) by assumption. apply Forall_forall. intros x Hx.
      apply in_map_iff in Hx as [i [<- Hi]]. rewrite Forall_forall in Hidx.
      apply perm_nth_lt; [exact H|now apply Hidx]. }
  rewrite (gather_nth d) by (now rewrite Hb). rewrite map_map. apply map_ext_in.
  intros i Hi. rewrite Forall_forall in Hidx. apply (nth_place d f n); [assumption|assumption|].
  now apply Hidx.
Qed.

Lemma gather_seq_app_l {A} (a1 a2 : list A) : gather (seq 0 (length a1)) (a1 ++ a2) = a1.
Proof.
  destruct a1 as [|d a1'] eqn:Ea; [reflexivity|]. rewrite <- Ea. clear Ea a1'.
  rewrite (gather_nth d).
  - apply (map_seq_eq _ _ a1 d eq_refl). intros i Hi. now apply app_nth1.
  - apply Forall_forall. intros j Hj. apply in_seq in Hj. rewrite app_length. lia.
Qed.

Lemma gather_seq_app_r {A} (a2 a1 : list A) :
  gather (seq (length a1) (length a2)) (a1 ++ a2) = a2.
Proof.
  revert a1. induction a2 as [|x a2 IH]; intros a1; [reflexivity|].
  cbn [length seq]. unfold gather in *. cbn [flat_map].
  rewrite nth_error_app2, Nat.sub_diag by lia. cbn [nth_error app]. f_equal.
  specialize (IH (a1 ++ [x])). rewrite app_length, Nat.add_1_r, <- app_assoc in IH. exact IH.
Qed.

Section InputsMerged.
  Variable sy : sys.
  Variables pp1 pp2 : popu.
  Variables f1 f2 g1 g2 : list nat.
  Variables inp1 inp2 : inputs.
  Hypothesis W1 : wf_pop (grp pp1).
  Hypothesis W2 : wf_pop (grp pp2).
  Hypothesis Hf : interleaving f1 f2 (npersons (grp pp1)) (npersons (grp pp2)) = true.
  Hypothesis Hg : interleaving g1 g2 (g_count (grp pp1)) (g_count (grp pp2)) = true.
  Hypothesis I1 : inputs_wf sy pp1 inp1.
  Hypothesis I2 : inputs_wf sy pp2 inp2.
  Hypothesis Hk : map fst inp1 = map fst inp2.

  Let ppM := merge f1 f2 g1 g2 pp1 pp2.
  Let inpM := merge_inputs sy f1 f2 g1 g2 inp1 inp2.

  Lemma merged_count c : count_of ppM c = count_of pp1 c + count_of pp2 c.
  Proof.
    destruct c; cbn [count_of ppM merge grp]; [|reflexivity].
    unfold merge_pop. rewrite place_pop_npersons; [apply concat_npersons|now apply merged_perm_p].
  Qed.

  Lemma merged_lookup v x q : nth_error (vars sy) v = Some x ->
    match lookup (v, q) inp1, lookup (v, q) inp2 with
    | Some a1, Some a2 =>
        exists aM, lookup (v, q) inpM = Some aM /\ length aM = count_of ppM (v_ent x)
                   /\ gather (pick (v_ent x) f1 g1) aM = a1 /\ gather (pick (v_ent x) f2 g2) aM = a2
    | None, None => lookup (v, q) inpM = None
    | _, _ => False
    end.
  Proof.
    intros Hv. unfold inpM, merge_inputs, permute_inputs.
    rewrite (lookup_map_vals (fun k a => place (pick (ent_of sy (fst k)) (f1 ++ f2) (g1 ++ g2)) a)).
    destruct (lookup_concat (v, q) inp1 inp2 Hk) as [-> Hnone].
    destruct (lookup (v, q) inp1) as [a1|] eqn:E1, (lookup (v, q) inp2) as [a2|] eqn:E2;
      try reflexivity.
    2:{ destruct Hnone as [_ Hn]. discriminate (Hn eq_refl). }
    2:{ destruct Hnone as [Hn _]. discriminate (Hn eq_refl). }
    cbn [option_map fst]. unfold ent_of. rewrite Hv.
    pose proof (I1 v x q a1 Hv E1) as L1. pose proof (I2 v x q a2 Hv E2) as L2.
    set (c := v_ent x) in *.
    assert (Hperm : is_perm_b (pick c (f1 ++ f2) (g1 ++ g2)) (count_of pp1 c + count_of pp2 c) = true).
    { destruct c; cbn [pick count_of]; [apply (interleaving_spec _ _ _ _ Hf)|apply (interleaving_spec _ _ _ _ Hg)]. }
    assert (Hlen : length (pick c f1 g1) = count_of pp1 c /\ length (pick c f2 g2) = count_of pp2 c).
    { destruct c; cbn [pick count_of];
        [destruct (interleaving_spec _ _ _ _ Hf) as [? [? _]]|destruct (interleaving_spec _ _ _ _ Hg) as [? [? _]]];
        split; assumption. }
    destruct Hlen as [Hl1 Hl2].
    assert (Happ : pick c (f1 ++ f2) (g1 ++ g2) = pick c f1 g1 ++ pick c f2 g2) by (destruct c; reflexivity).
    rewrite Happ in *. set (h1 := pick c f1 g1) in *. set (h2 := pick c f2 g2) in *.
    assert (Hab : length (a1 ++ a2) = count_of pp1 c + count_of pp2 c) by (rewrite app_length; lia).
    eexists. split; [reflexivity|]. split; [|split].
    - rewrite merged_count. apply (place_length _ _ _ Hperm Hab).
    - rewrite <- (app_half_l h1 h2) at 1.
      rewrite (gather_place_sub 0%Z _ _ _ _ Hperm Hab).
      + rewrite Hl1, <- L1. apply gather_seq_app_l.
      + apply Forall_forall. intros i Hi. apply in_seq in Hi. lia.
    - rewrite <- (app_half_r h1 h2) at 1.
      rewrite (gather_place_sub 0%Z _ _ _ _ Hperm Hab).
      + rewrite Hl1, Hl2, <- L1, <- L2. apply gather_seq_app_r.
      + apply Forall_forall. intros i Hi. apply in_seq in Hi. lia.
  Qed.

  Lemma inputs_rel_merged_1 : inputs_rel ppM f1 g1 sy inpM inp1.
  Proof.
    intros v x q Hv. pose proof (merged_lookup v x q Hv) as H.
    destruct (lookup (v, q) inp1) as [a1|], (lookup (v, q) inp2) as [a2|]; try contradiction.
    - destruct H as [aM [-> [Hl [H1 _]]]]. left. split; [exact Hl|]. now symmetry.
    - now rewrite H.
  Qed.

  Lemma inputs_rel_merged_2 : inputs_rel ppM f2 g2 sy inpM inp2.
  Proof.
    intros v x q Hv. pose proof (merged_lookup v x q Hv) as H.
    destruct (lookup (v, q) inp1) as [a1|], (lookup (v, q) inp2) as [a2|]; try contradiction.
    - destruct H as [aM [-> [Hl [_ H2]]]]. left. split; [exact Hl|]. now symmetry.
    - now rewrite H.
  Qed.
End InputsMerged.

Section InputsPermuted.
  Variable sy : sys.
  Variable pp : popu.
  Variables sp sg : list nat.
  Variable inp : inputs.
  Hypothesis W : wf_pop (grp pp).
  Hypothesis Hp : is_perm_b sp (npersons (grp pp)) = true.
  Hypothesis Hg : is_perm_b sg (g_count (grp pp)) = true.
  Hypothesis I : inputs_wf sy pp inp.

  Lemma permuted_count c : count_of (permute sp sg pp) c = count_of pp c.
  Proof.
    destruct c; cbn [count_of permute grp]; [|reflexivity]. now apply place_pop_npersons.
  Qed.

  Lemma perm_pick c : is_perm_b (pick c sp sg) (count_of pp c) = true.
  Proof. destruct c; assumption. Qed.

  Lemma inputs_rel_permuted :
    inputs_rel (permute sp sg pp) sp sg sy (permute_inputs sy sp sg inp) inp.
  Proof.
    intros v x q Hv. unfold permute_inputs.
    rewrite (lookup_map_vals (fun k a => place (pick (ent_of sy (fst k)) sp sg) a)).
    destruct (lookup (v, q) inp) as [a|] eqn:Ea; cbn [option_map]; [|exact Logic.I].
    cbn [fst]. unfold ent_of. rewrite Hv. pose proof (I v x q a Hv Ea) as L.
    left. unfold fsel. split.
    - rewrite permuted_count. apply (place_length _ _ _ (perm_pick _) L).
    - symmetry. apply (gather_place _ _ _ (perm_pick _) L).
  Qed.
End InputsPermuted.

(** * The two theorems *)

Theorem merge_independence_lemma : forall sy pp1 pp2 inp1 inp2 f1 f2 g1 g2,
  kinded sy = true ->
  wf_pop (grp pp1) -> wf_pop (grp pp2) -> g_entity (grp pp2) = g_entity (grp pp1) ->
  roles_unique (grp pp1) -> roles_unique (grp pp2) ->
  interleaving f1 f2 (npersons (grp pp1)) (npersons (grp pp2)) = true ->
  interleaving g1 g2 (g_count (grp pp1)) (g_count (grp pp2)) = true ->
  inputs_wf sy pp1 inp1 -> inputs_wf sy pp2 inp2 -> map fst inp1 = map fst inp2 ->
  forall v p,
    (0 < npersons (grp pp1) ->
     rmap (restrict (pick (ent_of sy v) f1 g1))
          (sem sy (merge f1 f2 g1 g2 pp1 pp2) (merge_inputs sy f1 f2 g1 g2 inp1 inp2) v p)
     = sem sy pp1 inp1 v p)
    /\
    (0 < npersons (grp pp2) ->
     rmap (restrict (pick (ent_of sy v) f2 g2))
          (sem sy (merge f1 f2 g1 g2 pp1 pp2) (merge_inputs sy f1 f2 g1 g2 inp1 inp2) v p)
     = sem sy pp2 inp2 v p).
Proof.
  intros sy pp1 pp2 inp1 inp2 f1 f2 g1 g2 K W1 W2 He U1 U2 Hf Hg I1 I2 Hk v p.
  assert (UM : roles_unique (grp (merge f1 f2 g1 g2 pp1 pp2)))
    by (cbn [merge grp]; now apply roles_unique_merged).
  split; intros Hpos.
  - apply (sem_emb pp1 (merge f1 f2 g1 g2 pp1 pp2) f1 g1); [|exact Hpos|exact U1|exact UM|exact K|].
    + cbn [merge grp]. now apply emb_merged_1.
    + now apply inputs_rel_merged_1.
  - apply (sem_emb pp2 (merge f1 f2 g1 g2 pp1 pp2) f2 g2); [|exact Hpos|exact U2|exact UM|exact K|].
    + cbn [merge grp]. now apply emb_merged_2.
    + now apply inputs_rel_merged_2.
Qed.

Theorem permutation_equivariance_lemma : forall sy pp inp sp sg,
  kinded sy = true -> wf_pop (grp pp) -> 0 < npersons (grp pp) -> roles_unique (grp pp) ->
  is_perm_b sp (npersons (grp pp)) = true -> is_perm_b sg (g_count (grp pp)) = true ->
  inputs_wf sy pp inp ->
  forall v p,
    sem sy (permute sp sg pp) (permute_inputs sy sp sg inp) v p
    = rmap (place (pick (ent_of sy v) sp sg)) (sem sy pp inp v p).
Proof.
  intros sy pp inp sp sg K W Hpos U Hp Hg I v p.
  assert (E : Emb (grp pp) (grp (permute sp sg pp)) sp sg) by (cbn [permute grp]; now apply emb_place).
  assert (UP : roles_unique (grp (permute sp sg pp)))
    by (cbn [permute grp]; now apply roles_unique_permuted).
  pose proof (sem_rel pp (permute sp sg pp) sp sg E Hpos U UP sy _ _ K
                (inputs_rel_permuted sy pp sp sg inp Hp Hg I) v p) as H.
  destruct (sem sy (permute sp sg pp) (permute_inputs sy sp sg inp) v p) as [aM|eM],
           (sem sy pp inp v p) as [a|e]; cbn [Rr rmap] in *; try contradiction.
  - f_equal. destruct H as [[Hl ->]|[-> ->]].
    + symmetry. unfold fsel. rewrite permuted_count in Hl by assumption.
      apply (place_gather _ _ _ (perm_pick pp sp sg Hp Hg _) Hl).
    + unfold place. now rewrite gather_nil.
  - now subst.
Qed.

(** * The machine: calculate on the merged / permuted simulation *)

Theorem merge_independence_calc_lemma : forall sy pp1 pp2 inp1 inp2 f1 f2 g1 g2,
  ranked sy = true -> 1 <= max_loops sy -> kinded sy = true ->
  wf_pop (grp pp1) -> wf_pop (grp pp2) -> g_entity (grp pp2) = g_entity (grp pp1) ->
  roles_unique (grp pp1) -> roles_unique (grp pp2) ->
  interleaving f1 f2 (npersons (grp pp1)) (npersons (grp pp2)) = true ->
  interleaving g1 g2 (g_count (grp pp1)) (g_count (grp pp2)) = true ->
  inputs_wf sy pp1 inp1 -> inputs_wf sy pp2 inp2 -> map fst inp1 = map fst inp2 ->
  0 < npersons (grp pp1) -> 0 < npersons (grp pp2) ->
  let ppM := merge f1 f2 g1 g2 pp1 pp2 in
  let inpM := merge_inputs sy f1 f2 g1 g2 inp1 inp2 in
  forall sM s1 s2 v p, Top sy ppM inpM sM -> Top sy pp1 inp1 s1 -> Top sy pp2 inp2 s2 ->
    rmap (restrict (pick (ent_of sy v) f1 g1)) (snd (calc (enough_fuel sy) sy ppM sM v p))
    = snd (calc (enough_fuel sy) sy pp1 s1 v p)
    /\
    rmap (restrict (pick (ent_of sy v) f2 g2)) (snd (calc (enough_fuel sy) sy ppM sM v p))
    = snd (calc (enough_fuel sy) sy pp2 s2 v p).
Proof.
  intros sy pp1 pp2 inp1 inp2 f1 f2 g1 g2 R L K W1 W2 He U1 U2 Hf Hg I1 I2 Hk P1 P2 ppM inpM sM s1 s2 v p TM T1 T2.
  rewrite (proj1 (calculate_refines_meaning sy ppM inpM R L sM v p TM)).
  rewrite (proj1 (calculate_refines_meaning sy pp1 inp1 R L s1 v p T1)).
  rewrite (proj1 (calculate_refines_meaning sy pp2 inp2 R L s2 v p T2)).
  destruct (merge_independence_lemma sy pp1 pp2 inp1 inp2 f1 f2 g1 g2 K W1 W2 He U1 U2 Hf Hg I1 I2 Hk v p) as [A B].
  split; [now apply A|now apply B].
Qed.

Theorem permutation_equivariance_calc_lemma : forall sy pp inp sp sg,
  ranked sy = true -> 1 <= max_loops sy -> kinded sy = true ->
  wf_pop (grp pp) -> 0 < npersons (grp pp) -> roles_unique (grp pp) ->
  is_perm_b sp (npersons (grp pp)) = true -> is_perm_b sg (g_count (grp pp)) = true ->
  inputs_wf sy pp inp ->
  forall sP s v p, Top sy (permute sp sg pp) (permute_inputs sy sp sg inp) sP -> Top sy pp inp s ->
    snd (calc (enough_fuel sy) sy (permute sp sg pp) sP v p)
    = rmap (place (pick (ent_of sy v) sp sg)) (snd (calc (enough_fuel sy) sy pp s v p)).
Proof.
  intros sy pp inp sp sg R L K W Hpos U Hp Hg I sP s v p TP T.
  rewrite (proj1 (calculate_refines_meaning sy _ _ R L sP v p TP)).
  rewrite (proj1 (calculate_refines_meaning sy pp inp R L s v p T)).
  now apply permutation_equivariance_lemma.
Qed.

(** * The vocabulary means what it says *)

Lemma restrict_merge_arr_lemma : forall (f1 f2 : list nat) (a1 a2 : list Z),
  interleaving f1 f2 (length a1) (length a2) = true ->
  restrict f1 (merge_arr f1 f2 a1 a2) = a1 /\ restrict f2 (merge_arr f1 f2 a1 a2) = a2.
Proof.
  intros f1 f2 a1 a2 H. destruct (interleaving_spec _ _ _ _ H) as [L1 [L2 P]].
  assert (Hab : length (a1 ++ a2) = length a1 + length a2) by apply app_length.
  unfold restrict, merge_arr. split.
  - rewrite <- (app_half_l f1 f2) at 1.
    rewrite (gather_place_sub 0%Z _ _ _ _ P Hab).
    + rewrite L1. apply gather_seq_app_l.
    + apply Forall_forall. intros i Hi. apply in_seq in Hi. lia.
  - rewrite <- (app_half_r f1 f2) at 1.
    rewrite (gather_place_sub 0%Z _ _ _ _ P Hab).
    + rewrite L1, L2. apply gather_seq_app_r.
    + apply Forall_forall. intros i Hi. apply in_seq in Hi. lia.
Qed.

Lemma place_restrict_lemma : forall (f : list nat) (a : list Z),
  is_perm_b f (length a) = true -> place f (restrict f a) = a /\ restrict f (place f a) = a.
Proof.
  intros f a H. split; [apply (place_gather f _ a H eq_refl)|apply (gather_place f _ a H eq_refl)].
Qed.

(** The merged population: person i of situation k is the person [nth i f_k 0], member of
    the group [nth (its group) g_k 0] with the same role; nobody else. *)
Lemma merge_pop_spec_lemma : forall p1 p2 f1 f2 g1 g2,
  wf_pop p1 -> wf_pop p2 ->
  interleaving f1 f2 (npersons p1) (npersons p2) = true ->
  interleaving g1 g2 (g_count p1) (g_count p2) = true ->
  let pM := merge_pop f1 f2 g1 g2 p1 p2 in
  wf_pop pM /\ npersons pM = npersons p1 + npersons p2 /\ g_count pM = g_count p1 + g_count p2
  /\ (forall i, i < npersons p1 ->
        group_of pM (nth i f1 0) = nth (group_of p1 i) g1 0 /\ role_of pM (nth i f1 0) = role_of p1 i)
  /\ (forall i, i < npersons p2 ->
        group_of pM (nth i f2 0) = nth (group_of p2 i) g2 0 /\ role_of pM (nth i f2 0) = role_of p2 i).
Proof.
  intros p1 p2 f1 f2 g1 g2 W1 W2 Hf Hg pM.
  pose proof (emb_merged_1 p1 p2 f1 f2 g1 g2 W1 W2 Hf Hg) as E1.
  assert (E2 : forall i, i < npersons p2 ->
     group_of pM (nth i f2 0) = nth (group_of p2 i) g2 0 /\ role_of pM (nth i f2 0) = role_of p2 i).
  { (* the second embedding without the hypothesis on entities: only memberships are needed *)
    destruct (interleaving_spec _ _ _ _ Hf) as [L1 [L2 _]].
    destruct (interleaving_spec _ _ _ _ Hg) as [M1 [M2 _]].
    pose proof (emb_place _ _ _ (concat_wf p1 p2 W1 W2)
                  (merged_perm_p p1 p2 f1 f2 Hf) (merged_perm_g p1 p2 g1 g2 Hg)) as EP.
    intros i Hi. unfold pM, merge_pop.
    assert (Hn : npersons p1 + i < npersons (concat_pop p1 p2)) by (rewrite concat_npersons; lia).
    pose proof (e_grp _ _ _ _ EP _ Hn) as G. pose proof (e_role _ _ _ _ EP _ Hn) as R.
    rewrite <- L1 in G at 1. rewrite <- L1 in R at 1. rewrite app_nth2_plus in G, R.
    rewrite concat_group_r in G by assumption.
    rewrite <- M1, app_nth2_plus in G. split; [exact G|].
    rewrite R. unfold role_of, npersons. cbn [concat_pop g_roles].
    destruct W1 as [_ <-]. apply app_nth2_plus. }
  repeat split.
  - apply (e_wfM _ _ _ _ E1).
  - apply (e_wfM _ _ _ _ E1).
  - unfold pM, merge_pop. rewrite place_pop_npersons; [apply concat_npersons|now apply merged_perm_p].
  - now apply (e_grp _ _ _ _ E1).
  - now apply (e_role _ _ _ _ E1).
  - now apply E2.
  - now apply E2.
Qed.

(** The order-preserving interleaving described by a list of booleans is an interleaving. *)
Lemma placement_of_bools_spec il : forall pos,
  let '(f1, f2) := placement_of_bools il pos in
  length f1 + length f2 = length il
  /\ forall j, In j (f1 ++ f2) <-> pos <= j < pos + length il.
Proof.
  induction il as [|b il IH]; intros pos; cbn [placement_of_bools].
  - split; [reflexivity|]. intros j. cbn. intuition lia.
  - specialize (IH (S pos)). destruct (placement_of_bools il (S pos)) as [f1 f2].
    destruct IH as [Hl Hin]. destruct b; cbn [length]; (split; [lia|]); intros j.
    + rewrite in_app_iff. cbn [In]. specialize (Hin j). rewrite in_app_iff in Hin. split.
      * intros [H|[H|H]]; [|lia|];
          (assert (S pos <= j < S pos + length il) by (apply Hin; tauto); lia).
      * intros H. destruct (Nat.eq_dec j pos) as [->|Hne]; [tauto|].
        assert (In j f1 \/ In j f2) by (apply Hin; lia). tauto.
    + cbn [app In]. specialize (Hin j). split.
      * intros [H|H]; [lia|]. assert (S pos <= j < S pos + length il) by (apply Hin; tauto). lia.
      * intros H. destruct (Nat.eq_dec j pos) as [->|Hne]; [tauto|].
        right. apply Hin. lia.
Qed.

Lemma bools_interleaving_lemma : forall il,
  let '(f1, f2) := placement_of_bools il 0 in
  interleaving f1 f2 (length f1) (length f2) = true.
Proof.
  intros il. pose proof (placement_of_bools_spec il 0) as H.
  destruct (placement_of_bools il 0) as [f1 f2]. destruct H as [Hl Hin].
  unfold interleaving, is_perm_b. rewrite Nat.eqb_refl, app_length, Nat.eqb_refl. cbn [andb].
  apply forallb_forall. intros i Hi. apply in_seq in Hi. apply existsb_exists. exists i.
  split; [|apply Nat.eqb_refl]. apply Hin. lia.
Qed.
