(** Population.get_rank: the ranks of the members of a group that satisfy the condition
    are a permutation of 0..k-1 consistent with the criterion, for every pair of sorting
    permutations numpy.argsort may return. *)
From Coq Require Import String ZArith List Bool Arith Lia Sorting.Permutation Sorting.Sorted.
From Verif Require Import Base Np Group GroupSpec NpProofs GroupProofs.
Import ListNotations.
Open Scope nat_scope.

(** ** generic list lemmas *)

Lemma mapM_ok {A B} (f : A -> res B) (h : A -> B) l :
  (forall x, In x l -> f x = Ok (h x)) -> mapM f l = Ok (map h l).
Proof.
  induction l as [|a l IH]; intros H; [reflexivity|]. cbn.
  rewrite (H a) by now left. rewrite IH; [reflexivity|]. intros; apply H; now right.
Qed.

Lemma combine_map2 {A B} (a : nat -> A) (b : nat -> B) L :
  combine (map a L) (map b L) = map (fun i => (a i, b i)) L.
Proof. induction L; cbn; congruence. Qed.

Lemma nth_error_map_seq {A} (f : nat -> A) n k : k < n -> nth_error (map f (seq 0 n)) k = Some (f k).
Proof.
  intros H. apply map_nth_error. rewrite (nth_error_nth' _ 0) by (now rewrite seq_length).
  now rewrite seq_nth.
Qed.

Lemma sorted_le_nodup_lt l : StronglySorted le l -> NoDup l -> StronglySorted lt l.
Proof.
  induction 1 as [|a l Hs IH Hf]; intros ND; constructor; inversion ND as [|? ? Hn ND']; subst.
  - now apply IH.
  - rewrite Forall_forall in *. intros b Hb. specialize (Hf b Hb).
    assert (a <> b) by (intros ->; contradiction). lia.
Qed.

Lemma sorted_perm_seq l n : Permutation l (seq 0 n) -> StronglySorted le l -> l = seq 0 n.
Proof.
  intros P S. apply sorted_lt_ext.
  - apply sorted_le_nodup_lt; [exact S|].
    eapply Permutation_NoDup; [apply Permutation_sym, P|apply seq_NoDup].
  - apply StronglySorted_lt_seq.
  - intros x; split; apply Permutation_in; [exact P|apply Permutation_sym, P].
Qed.

Lemma StronglySorted_nth {A} (R : A -> A -> Prop) l d :
  StronglySorted R l -> forall a b, a < b -> b < length l -> R (nth a l d) (nth b l d).
Proof.
  induction 1 as [|x l Hs IH Hf]; intros a b Hab Hb; cbn in Hb; [lia|].
  destruct b as [|b]; [lia|]. destruct a as [|a]; cbn [nth].
  - rewrite Forall_forall in Hf. apply Hf, nth_In. lia.
  - apply IH; lia.
Qed.

Lemma sorted_split {A} (R : A -> A -> Prop) (f : A -> bool) l :
  StronglySorted R l -> (forall a b, R a b -> f b = true -> f a = true) ->
  l = filter f l ++ filter (fun x => negb (f x)) l.
Proof.
  intros S Hdown. induction S as [|x l Hs IH Hf]; [reflexivity|]. cbn [filter].
  destruct (f x) eqn:E; cbn [negb app]; [now rewrite <- IH|].
  assert (N : filter f l = []).
  { rewrite Forall_forall in Hf. clear IH.
    induction l as [|y l IHl]; [reflexivity|]. cbn.
    destruct (f y) eqn:Ey.
    - rewrite (Hdown x y) in E; [discriminate|apply Hf; now left|exact Ey].
    - apply IHl; [now inversion Hs|]. intros; apply Hf; now right. }
  rewrite N in *. cbn [app] in *. now rewrite <- IH.
Qed.

Lemma NoDup_map_inj_in {A B} (f : A -> B) l :
  NoDup l -> (forall x y, In x l -> In y l -> f x = f y -> x = y) -> NoDup (map f l).
Proof.
  induction 1 as [|a l Hn ND IH]; intros Inj; cbn; constructor.
  - intros H. apply in_map_iff in H as (y & E & Hy).
    apply Hn. rewrite <- (Inj y a); auto; [now right|now left].
  - apply IH. intros x y Hx Hy. apply Inj; now right.
Qed.

Lemma Permutation_filter {A} (f : A -> bool) l l' :
  Permutation l l' -> Permutation (filter f l) (filter f l').
Proof.
  induction 1; cbn; try reflexivity.
  - destruct (f x); [now constructor|assumption].
  - destruct (f x), (f y); try reflexivity. apply perm_swap.
  - etransitivity; eassumption.
Qed.

Lemma perm_map_nth {A} (sigma : list A) d tau :
  Permutation tau (seq 0 (length sigma)) -> Permutation (map (fun a => nth a sigma d) tau) sigma.
Proof.
  intros P. etransitivity; [apply Permutation_map, P|]. rewrite <- as_map. reflexivity.
Qed.

Lemma filter_none {A} (f : A -> bool) l : (forall x, In x l -> f x = false) -> filter f l = [].
Proof.
  induction l as [|a l IH]; intros H; [reflexivity|]. cbn. rewrite (H a) by now left.
  apply IH. intros; apply H; now right.
Qed.

Lemma filter_nth_error_gen (c : nat -> bool) (l : list nat) s :
  length (filter (fun a => match nth_error l (a - s) with Some i => c i | None => false end)
                 (seq s (length l))) = length (filter c l).
Proof.
  revert s; induction l as [|x l IH]; intros s; [reflexivity|].
  cbn [length seq filter]. rewrite Nat.sub_diag. cbn [nth_error].
  rewrite (filter_ext_in _ (fun a => match nth_error l (a - S s) with Some i => c i | None => false end)).
  - destruct (c x); cbn [length]; now rewrite IH.
  - intros a Ha. apply in_seq in Ha. replace (a - s) with (S (a - S s)) by lia. reflexivity.
Qed.

Lemma filter_nth_error_count (c : nat -> bool) (l : list nat) B :
  length l <= B ->
  length (filter (fun a => match nth_error l a with Some i => c i | None => false end) (seq 0 B))
  = length (filter c l).
Proof.
  intros H. replace B with (length l + (B - length l)) by lia.
  rewrite seq_app, filter_app, app_length. cbn [plus].
  rewrite <- (filter_nth_error_gen c l 0).
  rewrite (filter_ext _ (fun a => match nth_error l (a - 0) with Some i => c i | None => false end))
    by (intros a; now rewrite Nat.sub_0_r).
  rewrite (filter_none _ (seq (length l) (B - length l))); [cbn; lia|].
  intros a Ha. apply in_seq in Ha.
  destruct (nth_error l a) eqn:N; [|reflexivity].
  assert (a < length l) by (apply nth_error_Some; congruence). lia.
Qed.

(** ** what get_rank computes *)

Section Rank.
  Variable sort1 : list ext -> list nat.
  Variable sort2 : list nat -> list nat.
  Hypothesis S1 : forall row, sorting_perm_ext row (sort1 row).
  Hypothesis S2 : forall l, sorting_perm_nat l (sort2 l).
  Variable p : gpop.
  Variable mm : list nat.
  Variable crit : list Z.
  Variable cond : list bool.
  Hypothesis W : wf_pop p.
  Hypothesis MM : sorting_perm_nat (g_ids p) mm.
  Hypothesis Hc : length crit = npersons p.
  Hypothesis Hd : length cond = npersons p.
  Hypothesis Hn : 0 < npersons p.

  Definition rk_B := S (list_max (map (earlier_in_group p) (seq 0 (npersons p)))).
  Definition rk_cnd (i : nat) : bool := nth i cond false.
  Definition rk_fc (i : nat) : ext := if rk_cnd i then Fin (nth i crit 0%Z) else PInf.
  Definition rk_V (k g : nat) : ext :=
    match nth_error (members p g) k with Some i => rk_fc i | None => PInf end.
  Definition rk_row (g : nat) : list ext := map (fun k => rk_V k g) (seq 0 rk_B).
  Definition rk_sigma (g : nat) : list nat := sort1 (rk_row g).
  Definition rk_tau (g : nat) : list nat := sort2 (rk_sigma g).
  Definition rk_rank (i : nat) : nat := nth (earlier_in_group p i) (rk_tau (group_of p i)) 0.

  Lemma rk_row_length g : length (rk_row g) = rk_B.
  Proof. unfold rk_row. now rewrite map_length, seq_length. Qed.

  Lemma rk_sigma_perm g : Permutation (rk_sigma g) (seq 0 rk_B).
  Proof. unfold rk_sigma. destruct (S1 (rk_row g)) as [P _]. now rewrite rk_row_length in P. Qed.

  Lemma rk_sigma_length g : length (rk_sigma g) = rk_B.
  Proof. rewrite (Permutation_length (rk_sigma_perm g)). apply seq_length. Qed.

  Lemma rk_tau_perm g : Permutation (rk_tau g) (seq 0 rk_B).
  Proof. unfold rk_tau. destruct (S2 (rk_sigma g)) as [P _]. now rewrite rk_sigma_length in P. Qed.

  Lemma rk_tau_length g : length (rk_tau g) = rk_B.
  Proof. rewrite (Permutation_length (rk_tau_perm g)). apply seq_length. Qed.

  Lemma rk_pos_lt i : i < npersons p -> earlier_in_group p i < rk_B.
  Proof.
    intros Hi. unfold rk_B. apply Nat.lt_succ_r, list_max_ge, in_map, in_seq. lia.
  Qed.

  Lemma get_rank_compute :
    get_rank_with sort1 sort2 mm p crit cond =
    Ok (map (fun i => if rk_cnd i then Z.of_nat (rk_rank i) else (-1)%Z) (seq 0 (npersons p))).
  Proof.
    unfold get_rank_with. rewrite (members_position_ok p Hn). cbn [bind].
    assert (HB : max_plus_one (map (earlier_in_group p) (seq 0 (npersons p))) = Ok rk_B).
    { unfold max_plus_one, rk_B. destruct (npersons p) as [|n]; [lia|]. reflexivity. }
    rewrite HB. cbn [bind]. rewrite Hd, Hc, Nat.eqb_refl. cbn [bind].
    assert (FC : where_ cond (map Fin crit) (full (npersons p) PInf) = map rk_fc (seq 0 (npersons p))).
    { transitivity (where_ (map rk_cnd (seq 0 (npersons p)))
                           (map (fun i => Fin (nth i crit 0%Z)) (seq 0 (npersons p)))
                           (map (fun _ => PInf) (seq 0 (npersons p)))).
      - f_equal.
        + apply arr_map, Hd.
        + rewrite <- (map_map (fun i => nth i crit 0%Z) Fin). f_equal. apply arr_map, Hc.
        + apply full_as_map, seq_length.
      - apply where_map. }
    rewrite FC.
    rewrite (mapM_ok _ (fun k => map (rk_V k) (seq 0 (g_count p)))).
    2:{ intros k _. rewrite value_nth_person_ok; try assumption; [|now rewrite map_length, seq_length].
        f_equal. apply map_ext. intros g. unfold rk_V.
        destruct (nth_error (members p g) k) as [i|] eqn:N; [|reflexivity].
        apply nth_error_In, in_members in N as [Hi _]. now rewrite nth_map_seq. }
    cbn [bind].
    assert (MAT : transpose (g_count p) (map (fun k => map (rk_V k) (seq 0 (g_count p))) (seq 0 rk_B)) PInf
                  = map rk_row (seq 0 (g_count p))).
    { unfold transpose. apply map_ext_in. intros g Hg. apply in_seq in Hg.
      rewrite map_map. unfold rk_row. apply map_ext. intros k. now rewrite nth_map_seq by lia. }
    rewrite MAT, map_map.
    rewrite (ids_map p), combine_map2.
    rewrite (mapM_ok _ (fun gk => nth (snd gk) (rk_tau (fst gk)) 0)).
    2:{ intros gk Hgk. apply in_map_iff in Hgk as (i & <- & Hi). apply in_seq in Hi. cbn [fst snd].
        rewrite nth_error_map_seq by (apply wf_group_lt; [exact W|lia]).
        fold (rk_sigma (group_of p i)). fold (rk_tau (group_of p i)).
        rewrite (nth_error_nth' _ 0); [reflexivity|].
        rewrite rk_tau_length. apply rk_pos_lt. lia. }
    cbn [bind]. f_equal. rewrite !map_map. cbn [fst snd].
    transitivity (where_ (map rk_cnd (seq 0 (npersons p)))
                         (map (fun i => Z.of_nat (rk_rank i)) (seq 0 (npersons p)))
                         (map (fun _ => (-1)%Z) (seq 0 (npersons p)))).
    - f_equal; [apply arr_map, Hd|apply full_as_map, seq_length].
    - apply where_map.
  Qed.

  (** *** the ranks inside one group *)

  Definition rk_M (g : nat) : list nat := filter rk_cnd (members p g).
  Definition rk_fin (g a : nat) : bool :=
    match nth a (rk_row g) PInf with PInf => false | _ => true end.

  Lemma rk_row_nth g a : a < rk_B -> nth a (rk_row g) PInf = rk_V a g.
  Proof. intros H. unfold rk_row. now rewrite nth_map_seq. Qed.

  Lemma rk_sigma_tau g a : a < rk_B -> nth (nth a (rk_tau g) 0) (rk_sigma g) 0 = a.
  Proof.
    intros Ha.
    assert (E : map (fun b => nth b (rk_sigma g) 0) (rk_tau g) = seq 0 rk_B).
    { apply sorted_perm_seq.
      - etransitivity; [|apply rk_sigma_perm]. apply perm_map_nth.
        rewrite rk_sigma_length. apply rk_tau_perm.
      - apply StronglySorted_map. unfold rk_tau. apply (S2 (rk_sigma g)). }
    assert (N : nth a (map (fun b => nth b (rk_sigma g) 0) (rk_tau g)) 0 = a)
      by (rewrite E; now apply seq_nth).
    pose proof (map_nth (fun b => nth b (rk_sigma g) 0) (rk_tau g) 0 a) as N2. cbv beta in N2.
    rewrite <- N2. etransitivity; [|exact N].
    apply nth_indep. now rewrite map_length, rk_tau_length.
  Qed.

  Lemma rk_tau_lt g a : a < rk_B -> nth a (rk_tau g) 0 < rk_B.
  Proof.
    intros Ha. assert (In (nth a (rk_tau g) 0) (rk_tau g)) by (apply nth_In; now rewrite rk_tau_length).
    apply (Permutation_in _ (rk_tau_perm g)) in H. apply in_seq in H. lia.
  Qed.

  Lemma rk_sigma_split g :
    rk_sigma g = filter (rk_fin g) (rk_sigma g) ++ filter (fun a => negb (rk_fin g a)) (rk_sigma g).
  Proof.
    apply sorted_split with (R := fun a b => ext_le (nth a (rk_row g) PInf) (nth b (rk_row g) PInf)).
    - unfold rk_sigma. apply (S1 (rk_row g)).
    - intros a b. unfold rk_fin, ext_le.
      destruct (nth a (rk_row g) PInf), (nth b (rk_row g) PInf); cbn; congruence.
  Qed.

  Lemma rk_fin_count g : length (filter (rk_fin g) (rk_sigma g)) = length (rk_M g).
  Proof.
    rewrite (Permutation_length (Permutation_filter _ _ _ (rk_sigma_perm g))).
    unfold rk_M. rewrite <- (filter_nth_error_count rk_cnd (members p g) rk_B)
      by apply members_size_le_maxpos.
    f_equal. apply filter_ext_in. intros a Ha. apply in_seq in Ha.
    unfold rk_fin. rewrite rk_row_nth by lia. unfold rk_V.
    destruct (nth_error (members p g) a) as [i|]; [|reflexivity].
    unfold rk_fc. now destruct (rk_cnd i).
  Qed.

  Lemma rk_M_in g i : In i (rk_M g) <-> i < npersons p /\ group_of p i = g /\ rk_cnd i = true.
  Proof. unfold rk_M. rewrite filter_In, in_members. tauto. Qed.

  Lemma rk_row_pos i :
    i < npersons p -> rk_cnd i = true ->
    nth (earlier_in_group p i) (rk_row (group_of p i)) PInf = Fin (nth i crit 0%Z).
  Proof.
    intros Hi Ci. rewrite rk_row_nth by now apply rk_pos_lt.
    unfold rk_V. rewrite nth_pos_members by exact Hi. unfold rk_fc. now rewrite Ci.
  Qed.

  Lemma rk_rank_lt g i : In i (rk_M g) -> rk_rank i < length (rk_M g).
  Proof.
    intros Hi. apply rk_M_in in Hi as (Hi & Hg & Ci). subst g.
    assert (Ha : earlier_in_group p i < rk_B) by now apply rk_pos_lt.
    pose proof (rk_sigma_tau (group_of p i) _ Ha) as ST. pose proof (rk_tau_lt (group_of p i) _ Ha) as TL.
    fold (rk_rank i) in ST, TL. remember (group_of p i) as g eqn:Eg.
    destruct (Nat.lt_ge_cases (rk_rank i) (length (rk_M g))) as [L|L]; [exact L|exfalso].
    pose proof (rk_sigma_split g) as SP. pose proof (rk_fin_count g) as FCn.
    pose proof (rk_sigma_length g) as SL.
    assert (E : nth (rk_rank i) (rk_sigma g) 0 =
                nth (rk_rank i - length (filter (rk_fin g) (rk_sigma g)))
                    (filter (fun a => negb (rk_fin g a)) (rk_sigma g)) 0).
    { rewrite SP at 1. apply app_nth2. lia. }
    assert (LL : length (rk_sigma g) = length (filter (rk_fin g) (rk_sigma g)) +
                 length (filter (fun a => negb (rk_fin g a)) (rk_sigma g)))
      by (rewrite SP at 1; apply app_length).
    assert (IN : In (nth (rk_rank i) (rk_sigma g) 0) (filter (fun a => negb (rk_fin g a)) (rk_sigma g))).
    { rewrite E. apply nth_In. lia. }
    rewrite ST in IN. apply filter_In in IN as [_ IN].
    unfold rk_fin in IN. subst g. rewrite rk_row_pos in IN by assumption. discriminate.
  Qed.

  Lemma rk_rank_inj g i j : In i (rk_M g) -> In j (rk_M g) -> rk_rank i = rk_rank j -> i = j.
  Proof.
    intros Hi Hj E. apply rk_M_in in Hi as (Hi & Hg & _). apply rk_M_in in Hj as (Hj & Hg' & _).
    pose proof (rk_sigma_tau (group_of p i) _ (rk_pos_lt i Hi)) as Si.
    pose proof (rk_sigma_tau (group_of p j) _ (rk_pos_lt j Hj)) as Sj.
    fold (rk_rank i) in Si. fold (rk_rank j) in Sj.
    rewrite Hg in Si. rewrite Hg' in Sj. rewrite E in Si.
    pose proof (nth_pos_members p i Hi) as Pi. pose proof (nth_pos_members p j Hj) as Pj.
    rewrite Hg in Pi. rewrite Hg' in Pj. congruence.
  Qed.

  Lemma rk_rank_order g i j :
    In i (rk_M g) -> In j (rk_M g) -> (nth i crit 0 < nth j crit 0)%Z -> rk_rank i < rk_rank j.
  Proof.
    intros Hi Hj Lt.
    destruct (Nat.lt_ge_cases (rk_rank i) (rk_rank j)) as [L|L]; [exact L|exfalso].
    assert (rk_rank i <> rk_rank j).
    { intros E. apply (rk_rank_inj g i j Hi Hj) in E. subst j. lia. }
    pose proof (rk_rank_lt g i Hi) as Li.
    apply rk_M_in in Hi as (Hi & Hg & Ci). apply rk_M_in in Hj as (Hj & Hg' & Cj).
    pose proof (rk_sigma_tau (group_of p i) _ (rk_pos_lt i Hi)) as Si.
    pose proof (rk_sigma_tau (group_of p j) _ (rk_pos_lt j Hj)) as Sj.
    fold (rk_rank i) in Si. fold (rk_rank j) in Sj.
    pose proof (rk_tau_lt (group_of p i) _ (rk_pos_lt i Hi)) as Ti. fold (rk_rank i) in Ti.
    pose proof (rk_row_pos i Hi Ci) as Ri. pose proof (rk_row_pos j Hj Cj) as Rj.
    rewrite Hg in *. rewrite Hg' in *.
    assert (SS : StronglySorted (fun a b => ext_le (nth a (rk_row g) PInf) (nth b (rk_row g) PInf))
                                (rk_sigma g)) by (unfold rk_sigma; apply (S1 (rk_row g))).
    pose proof (StronglySorted_nth _ _ 0 SS (rk_rank j) (rk_rank i)) as O.
    rewrite Si, Sj, Ri, Rj, rk_sigma_length in O.
    assert (O' : ext_le (Fin (nth j crit 0%Z)) (Fin (nth i crit 0%Z))) by (apply O; lia).
    unfold ext_le in O'. cbn in O'. apply Z.leb_le in O'. lia.
  Qed.

  Lemma rk_perm g : Permutation (map rk_rank (rk_M g)) (seq 0 (length (rk_M g))).
  Proof.
    apply NoDup_Permutation_bis.
    - apply NoDup_map_inj_in.
      + unfold rk_M. apply NoDup_filter, members_NoDup.
      + intros x y. apply rk_rank_inj.
    - now rewrite map_length, seq_length.
    - intros r Hr. apply in_map_iff in Hr as (i & <- & Hi). apply in_seq.
      pose proof (rk_rank_lt g i Hi). lia.
  Qed.

  Theorem get_rank_ok :
    exists rk,
      get_rank_with sort1 sort2 mm p crit cond = Ok rk /\
      length rk = npersons p /\
      (forall i, i < npersons p -> nth i cond false = false -> nth i rk 0%Z = (-1)%Z) /\
      forall g, g < g_count p ->
        let M := filter (fun i => nth i cond false) (members p g) in
        Permutation (map (fun i => nth i rk 0%Z) M) (map Z.of_nat (seq 0 (length M))) /\
        forall i j, In i M -> In j M -> (nth i crit 0 < nth j crit 0)%Z ->
                    (nth i rk 0 < nth j rk 0)%Z.
  Proof.
    eexists. split; [apply get_rank_compute|].
    split; [now rewrite map_length, seq_length|]. split.
    - intros i Hi Ci. rewrite nth_map_seq by exact Hi. unfold rk_cnd. now rewrite Ci.
    - intros g Hg M. fold rk_cnd in M. fold (rk_M g) in M.
      assert (NTH : forall i, In i M ->
                nth i (map (fun i => if rk_cnd i then Z.of_nat (rk_rank i) else (-1)%Z)
                           (seq 0 (npersons p))) 0%Z = Z.of_nat (rk_rank i)).
      { intros i Hi. apply rk_M_in in Hi as (Hi & _ & Ci). rewrite nth_map_seq by exact Hi.
        now rewrite Ci. }
      split.
      + rewrite (map_ext_in _ (fun i => Z.of_nat (rk_rank i)) M NTH).
        rewrite <- (map_map rk_rank Z.of_nat). apply Permutation_map, rk_perm.
      + intros i j Hi Hj Lt. rewrite (NTH i Hi), (NTH j Hj).
        pose proof (rk_rank_order g i j Hi Hj Lt). lia.
  Qed.
End Rank.

Lemma executed_instances_ok p :
  sorting_perm_nat (g_ids p) (ordered_members_map p) /\
  (forall row, sorting_perm_ext row (argsort_ext row)) /\
  (forall l, sorting_perm_nat l (argsort_nat l)) /\
  all p = all_with (ordered_members_map p) p /\
  max p = max_with (ordered_members_map p) p /\
  min p = min_with (ordered_members_map p) p /\
  (forall A, @value_nth_person A p = value_nth_person_with (ordered_members_map p) p) /\
  value_from_first_person p = value_from_first_person_with (ordered_members_map p) p /\
  (forall A, @value_from_person A p = value_from_person_with (ordered_members_map p) p) /\
  get_rank p = get_rank_with argsort_ext argsort_nat (ordered_members_map p) p.
Proof.
  split; [apply ordered_members_map_sorting|].
  split; [apply argsort_ext_sorting|]. split; [apply argsort_nat_sorting|].
  repeat split.
Qed.
