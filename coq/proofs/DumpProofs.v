(** Proofs about coq/model/Dump.v (C19). *)
From Coq Require Import ZArith List Bool String Arith Ascii Lia.
From Verif Require Import Base Cal Tables Period Np Group Param Engine EngineProofs Dump Corr_C19.
Import ListNotations.
Local Notation length := List.length.

(** * Text *)

Lemma string_length_app (a b : string) :
  String.length (a ++ b) = String.length a + String.length b.
Proof. induction a as [|c a IH]; cbn; [reflexivity|now rewrite IH]. Qed.

Lemma strip_suffix_app suf : forall pre, strip_suffix suf (pre ++ suf)%string = Some pre.
Proof.
  induction pre as [|c pre IH].
  - cbn [append]. destruct suf; cbn [strip_suffix]; now rewrite String.eqb_refl.
  - cbn [append strip_suffix].
    destruct (String.eqb_spec (String c (pre ++ suf)) suf) as [E|_].
    + apply (f_equal String.length) in E. cbn [String.length] in E.
      rewrite string_length_app in E. lia.
    + now rewrite IH.
Qed.

Lemma strip_npy_npy s : strip_npy (npy s) = Some s.
Proof. apply strip_suffix_app. Qed.

Section RoundTrip.
  Variable show : period -> string.
  Variable parse : string -> res period.
  Variable storable : period -> Prop.
  Hypothesis round_trip : forall p, storable p -> parse (show p) = Ok p.

  Lemma show_injective p q : storable p -> storable q -> show p = show q -> p = q.
  Proof.
    intros Hp Hq E. apply round_trip in Hp, Hq. rewrite E in Hp. congruence.
  Qed.

  Lemma file_name_injective p q :
    storable p -> storable q -> file_name show p = file_name show q -> p = q.
  Proof.
    intros Hp Hq E. apply (f_equal strip_npy) in E. unfold file_name in E.
    rewrite !strip_npy_npy in E. inversion E. now apply show_injective.
  Qed.
End RoundTrip.

(** * The concrete encoding used by the correspondence round-trips for every period *)

Lemma dec_enc_pos p : forall r, dec_pos (enc_pos p ++ r)%string = Some (p, r).
Proof.
  induction p as [q IH|q IH|]; intro r; cbn [enc_pos append dec_pos].
  - cbn. now rewrite IH.
  - cbn. now rewrite IH.
  - reflexivity.
Qed.

Lemma dec_enc_z z r : dec_z (enc_z z ++ r)%string = Some (z, r).
Proof.
  destruct z as [|p|p]; cbn [enc_z append dec_z]; cbn; [reflexivity| |]; now rewrite dec_enc_pos.
Qed.

Lemma dec_enc_unit u r : dec_unit (enc_unit u ++ r)%string = Some (u, r).
Proof. destruct u; reflexivity. Qed.

Lemma append_nil_r (s : string) : (s ++ "")%string = s.
Proof. induction s as [|c s IH]; cbn; [reflexivity|now rewrite IH]. Qed.

Lemma enc_roundtrip p : parse_enc (show_enc p) = Ok p.
Proof.
  destruct p as [[u [[y m] d]] n]. unfold parse_enc, show_enc.
  rewrite dec_enc_unit, !dec_enc_z.
  rewrite <- (append_nil_r (enc_z n)), dec_enc_z. reflexivity.
Qed.

(** * Generic loop lemma *)

Lemma foldM_spec {X S : Type} (f : X -> S -> res S) (I : S -> Prop) (R : S -> S -> Prop)
      (Q : X -> S -> Prop) (G : X -> Prop) :
  (forall s, R s s) -> (forall a b c, R a b -> R b c -> R a c) ->
  (forall x s s', Q x s -> R s s' -> Q x s') ->
  (forall x s, G x -> I s -> exists s', f x s = Ok s' /\ I s' /\ R s s' /\ Q x s') ->
  forall l s, (forall x, In x l -> G x) -> I s ->
  exists s', foldM f l s = Ok s' /\ I s' /\ R s s' /\ forall x, In x l -> Q x s'.
Proof.
  intros Rrefl Rtrans Qstable Hstep. induction l as [|x l IH]; intros s HG HI.
  - exists s. cbn. repeat split; auto. intros x [].
  - destruct (Hstep x s (HG x (or_introl eq_refl)) HI) as [s1 [E1 [I1 [R1 Q1]]]].
    destruct (IH s1 (fun y Hy => HG y (or_intror Hy)) I1) as [s2 [E2 [I2 [R2 Q2]]]].
    exists s2. cbn [foldM]. rewrite E1. repeat split; eauto.
    intros y [<-|Hy]; eauto.
Qed.

(** * Files *)

Lemma ent_eqb_iff a b : ent_eqb a b = true <-> a = b.
Proof. destruct a, b; cbn; split; intro H; try reflexivity; discriminate. Qed.

Lemma path_eqb_iff a b : path_eqb a b = true <-> a = b.
Proof.
  destruct a, b; cbn; try (split; intro H; try reflexivity; discriminate).
  - rewrite ent_eqb_iff. split; [intros ->; reflexivity|]. intro H; now inversion H.
  - rewrite andb_true_iff, Nat.eqb_eq, String.eqb_eq.
    split; [intros [-> ->]; reflexivity|]. intro H; inversion H; auto.
Qed.

Lemma path_eqb_refl p : path_eqb p p = true.
Proof. now apply path_eqb_iff. Qed.

Lemma fs_read_write q p c f :
  fs_read q (fs_write p c f) = if path_eqb q p then Some c else fs_read q f.
Proof.
  unfold fs_read, fs_write. cbn [find fst].
  destruct (path_eqb q p) eqn:E; cbn [option_map snd]; auto.
  rewrite find_filter; auto.
  intros [p2 c2] H. cbn [fst] in *. apply path_eqb_iff in H. subst p2.
  destruct (path_eqb p q) eqn:E2; auto. apply path_eqb_iff in E2. subst p.
  rewrite path_eqb_refl in E. discriminate.
Qed.

Lemma fs_read_in q c f : fs_read q f = Some c -> In (q, c) f.
Proof.
  unfold fs_read. destruct (find _ f) as [[p c']|] eqn:E; cbn; [|discriminate].
  intro H. inversion H. subst c'. apply find_some in E as [Hin Heq].
  cbn [fst] in Heq. apply path_eqb_iff in Heq. now subst p.
Qed.

Lemma in_fs_write x p c f : In x (fs_write p c f) -> x = (p, c) \/ In x f.
Proof.
  unfold fs_write. intros [<-|H]; [now left|]. right. now apply filter_In in H as [H _].
Qed.

Definition writes (E : list (path * content)) (f0 : fs) : fs :=
  fold_left (fun f e => fs_write (fst e) (snd e) f) E f0.

Lemma writes_read : forall E,
  (forall e1 e2, In e1 E -> In e2 E -> fst e1 = fst e2 -> snd e1 = snd e2) ->
  forall e, In e E -> fs_read (fst e) (writes E []) = Some (snd e).
Proof.
  induction E as [|e0 E IH] using rev_ind; intros Hc e He; [destruct He|].
  unfold writes. rewrite fold_left_app. cbn [fold_left]. rewrite fs_read_write.
  destruct (path_eqb (fst e) (fst e0)) eqn:Eq.
  - apply path_eqb_iff in Eq. f_equal. symmetry. apply Hc; auto.
    apply in_or_app. right. now left.
  - apply in_app_or in He as [He|[<-|[]]].
    + apply IH; auto. intros e1 e2 H1 H2. apply Hc; apply in_or_app; now left.
    + rewrite path_eqb_refl in Eq. discriminate.
Qed.

Lemma writes_in : forall E x, In x (writes E []) -> In x E.
Proof.
  induction E as [|e0 E IH] using rev_ind; intros x Hx; [exact Hx|].
  unfold writes in Hx. rewrite fold_left_app in Hx. cbn [fold_left] in Hx.
  apply in_fs_write in Hx as [->|Hx]; apply in_or_app.
  - right. left. now destruct e0.
  - left. now apply IH.
Qed.

Lemma listdir_var_in v f name :
  In name (listdir_var v f) <-> exists c, In (PVar v name, c) f.
Proof.
  induction f as [|[p c] f IH]; cbn [listdir_var].
  - split; [intros []|intros [c []]].
  - destruct p as [e| | | |w nm];
      try (rewrite IH; split; intros [c' H]; exists c'; [now right|destruct H as [H|H]; [discriminate|exact H]]).
    destruct (Nat.eqb_spec w v) as [->|Hne].
    + cbn [In]. rewrite IH. split.
      * intros [<-|[c' H]]; [exists c; now left|exists c'; now right].
      * intros [c' [H|H]]; [left; now inversion H|right; now exists c'].
    + rewrite IH. split; intros [c' H]; exists c'; [now right|].
      destruct H as [H|H]; [inversion H; congruence|exact H].
Qed.

Lemma listdir_top_in f v :
  In v (listdir_top f) <-> exists name c, In (PVar v name, c) f.
Proof.
  induction f as [|[p c] f IH]; cbn [listdir_top].
  - split; [intros []|intros [n [c []]]].
  - destruct p as [e| | | |w nm];
      try (rewrite IH; split; intros [n [c' H]]; exists n, c';
           [now right|destruct H as [H|H]; [discriminate|exact H]]).
    cbn [In]. rewrite filter_In, IH. split.
    + intros [<-|[[n [c' H]] _]]; [exists nm, c; now left|exists n, c'; now right].
    + intros [n [c' [H|H]]]; [left; now inversion H|].
      destruct (Nat.eqb_spec v w) as [->|Hne]; [now left|right].
      split; [now exists n, c'|reflexivity].
Qed.

Lemma files_get_set q p name d :
  files_get q (files_set p name d) = if period_eqb q p then Some name else files_get q d.
Proof.
  unfold files_get, files_set. cbn [find fst].
  destruct (period_eqb q p) eqn:E; cbn [option_map snd]; auto.
  rewrite find_filter; auto.
  intros [p2 n2] H. cbn [fst] in *. apply period_eqb_iff in H. subst p2.
  destruct (period_eqb p q) eqn:E2; auto. apply period_eqb_iff in E2. subst p.
  assert (period_eqb q q = true) by now apply period_eqb_iff. congruence.
Qed.

Lemma files_get_in p name d : files_get p d = Some name -> In (p, name) d.
Proof.
  unfold files_get. destruct (find _ d) as [[q n]|] eqn:E; cbn; [|discriminate].
  intro H. inversion H. subst n. apply find_some in E as [Hin Heq].
  cbn [fst] in Heq. apply period_eqb_iff in Heq. now subst q.
Qed.

Lemma in_files_get p name d : In (p, name) d -> exists n', files_get p d = Some n'.
Proof.
  intro H. unfold files_get.
  destruct (find (fun e => period_eqb p (fst e)) d) as [[q n]|] eqn:E; [now exists n|].
  exfalso. apply (find_none _ _ E) in H. cbn [fst] in H.
  assert (period_eqb p p = true) by now apply period_eqb_iff. congruence.
Qed.

Lemma in_files_set e p name d : In e (files_set p name d) -> e = (p, name) \/ In e d.
Proof.
  unfold files_set. intros [<-|H]; [now left|]. right. now apply filter_In in H as [H _].
Qed.

Lemma lookup_in k a c : lookup k c = Some a -> In k (map fst c).
Proof.
  unfold lookup. destruct (find _ c) as [[k' a']|] eqn:E; cbn; [|discriminate].
  intros _. apply find_some in E as [Hin Heq]. cbn [fst] in Heq. apply key_eqb_iff in Heq. subst k'.
  apply in_map_iff. now exists (k, a').
Qed.

Lemma in_lookup k c : In k (map fst c) -> exists a, lookup k c = Some a.
Proof.
  intro H. apply in_map_iff in H as [[k' a'] [<- Hin]]. unfold lookup. cbn [fst].
  destruct (find (fun kv => key_eqb k' (fst kv)) c) as [[k2 a2]|] eqn:E; [now exists a2|].
  exfalso. apply (find_none _ _ E) in Hin. cbn [fst] in Hin. rewrite key_eqb_refl in Hin. discriminate.
Qed.

(** * Roles *)

Lemma find_unique {A} (g : A -> string) (l : list A) (r : A) :
  NoDup (map g l) -> In r l -> find (fun f => String.eqb (g f) (g r)) l = Some r.
Proof.
  induction l as [|x l IH]; intros Hnd Hin; [destruct Hin|].
  cbn [map] in Hnd. inversion Hnd as [|? ? Hnotin Hnd']. subst. cbn [find].
  destruct (String.eqb_spec (g x) (g r)) as [E|Hne].
  - destruct Hin as [->|Hin]; [reflexivity|]. exfalso. apply Hnotin. rewrite E. now apply in_map.
  - destruct Hin as [->|Hin]; [congruence|]. now apply IH.
Qed.

Lemma find_self (l : list nat) r : In r l -> find (Nat.eqb r) l = Some r.
Proof.
  induction l as [|x l IH]; intros Hin; [destruct Hin|]. cbn [find].
  destruct (Nat.eqb_spec r x) as [->|Hne]; [reflexivity|].
  destruct Hin as [->|Hin]; [congruence|auto].
Qed.

Lemma decode_encode e r :
  NoDup (map (role_key e) (flattened_roles e)) -> In r (flattened_roles e) ->
  decode_role e (encode_role e r) = r.
Proof.
  intros Hnd Hin. unfold encode_role. rewrite (find_self _ _ Hin).
  unfold decode_role. now rewrite (find_unique (role_key e) _ r Hnd Hin).
Qed.

(** * restore (dump s) = s *)

Section Identity.
  Variable show : period -> string.
  Variable parse : string -> res period.
  Variable storable : period -> Prop.
  Hypothesis round_trip : forall p, storable p -> parse (show p) = Ok p.
  Variable sy : sys.
  Variable og : option gentity.

  (** What the holders of a simulation hold between two top-level requests: arrays of
      declared, not neutralised variables, one element per member of the variable's
      entity, under the period the in-memory store keeps them (the eternity period for an
      eternal variable, otherwise one period of the definition unit), and that period is
      storable. *)
  Definition key_ok (u : simu) (k : key) (a : val) : Prop :=
    exists x, nth_error (vars sy) (fst k) = Some x
      /\ v_neutral x = false
      /\ (if is_eternal x then snd k = eternity_period
          else p_unit (snd k) = v_unit x /\ (p_size (snd k) <= 1)%Z)
      /\ length a = count_in u (v_ent x)
      /\ storable (snd k).

  Definition group_ok (e : gentity) (u : simu) : Prop :=
    u_gcount u = length (u_gids u)
    /\ flattened_roles e <> []
    /\ NoDup (map (role_key e) (flattened_roles e))
    /\ (forall r, In r (u_roles u) -> In r (flattened_roles e))
    /\ (exists pos, positions u = Ok pos).

  Definition dumpable (u : simu) : Prop :=
    (forall k a, lookup k (cache (u_st u)) = Some a -> key_ok u k a)
    /\ u_pcount u = length (u_pids u)
    /\ match og with Some e => group_ok e u | None => u_gcount u = 0 end.

  Definition same_structure (u u' : simu) : Prop :=
    u_pcount u' = u_pcount u /\ u_pids u' = u_pids u /\
    match og with
    | Some _ => u_gcount u' = u_gcount u /\ u_gids u' = u_gids u /\ u_members u' = u_members u
                /\ u_roles u' = u_roles u /\ positions u' = positions u
    | None => True
    end.

  Lemma same_structure_pop u u' : same_structure u u' -> pop_of og u' = pop_of og u.
  Proof.
    unfold same_structure, pop_of. intros [H1 [H2 H3]]. destruct og as [e|].
    - destruct H3 as [H3 [H4 [H5 [H6 H7]]]]. now rewrite H3, H5, H6.
    - now rewrite H1.
  Qed.

  Variable u : simu.
  Hypothesis Hkeys : forall k a, lookup k (cache (u_st u)) = Some a -> key_ok u k a.

  Let C := cache (u_st u).
  Let pp := pop_of og u.

  Definition path_of (k : key) : path := PVar (fst k) (file_name show (snd k)).
  Definition entry_of (k : key) : path * content :=
    (path_of k, CArr (match lookup k C with Some a => a | None => [] end)).

  Lemma dump_key_ok f k a : lookup k C = Some a ->
    dump_key show sy pp (u_st u) f k = fs_write (path_of k) (CArr a) f.
  Proof.
    intro Hl. destruct (Hkeys k a Hl) as [x [Ex [Hn [Hp [_ _]]]]].
    unfold dump_key. rewrite Ex. unfold get_array. rewrite Hn.
    assert (Hnorm : norm x (snd k) = snd k).
    { unfold norm. unfold is_eternal in Hp. destruct (unit_eqb (v_unit x) Eternity); auto. }
    rewrite Hnorm. replace (fst k, snd k) with k by now destruct k.
    fold C. rewrite Hl. unfold disk_put, path_of.
    destruct (is_eternal x); [now rewrite Hp|reflexivity].
  Qed.

  Lemma dump_holders_writes : dump_holders show sy pp (u_st u) = writes (map entry_of (map fst C)) [].
  Proof.
    unfold dump_holders, writes. fold C.
    assert (H : forall keys f, (forall k, In k keys -> In k (map fst C)) ->
              fold_left (dump_key show sy pp (u_st u)) keys f
              = fold_left (fun f e => fs_write (fst e) (snd e) f) (map entry_of keys) f).
    { induction keys as [|k keys IH]; intros f Hin; [reflexivity|]. cbn [fold_left map].
      destruct (in_lookup k C (Hin k (or_introl eq_refl))) as [a Ha].
      rewrite (dump_key_ok f k a Ha).
      assert (Ee : entry_of k = (path_of k, CArr a)) by (unfold entry_of; now rewrite Ha).
      rewrite Ee. cbn [fst snd].
      apply IH. intros k' Hk'. apply Hin. now right. }
    apply H. auto.
  Qed.

  Lemma path_of_injective k k' a a' :
    lookup k C = Some a -> lookup k' C = Some a' -> path_of k = path_of k' -> k = k'.
  Proof.
    intros H H' E. destruct (Hkeys k a H) as [_ [_ [_ [_ [_ Hs]]]]].
    destruct (Hkeys k' a' H') as [_ [_ [_ [_ [_ Hs']]]]].
    unfold path_of in E. inversion E as [[Ev En]].
    apply (file_name_injective show parse storable round_trip) in En; auto.
    destruct k, k'; cbn [fst snd] in *. congruence.
  Qed.

  (** What the variable part [H] of the dump holds. *)
  Let H := dump_holders show sy pp (u_st u).

  Lemma holders_read k a : lookup k C = Some a -> fs_read (path_of k) H = Some (CArr a).
  Proof.
    intro Hl. unfold H. rewrite dump_holders_writes.
    assert (Hin : In (entry_of k) (map entry_of (map fst C))).
    { apply in_map. eapply lookup_in; eauto. }
    assert (Ee : entry_of k = (path_of k, CArr a)) by (unfold entry_of; now rewrite Hl).
    rewrite Ee in Hin.
    apply (writes_read (map entry_of (map fst C))) with (e := (path_of k, CArr a)); [|exact Hin].
    intros e1 e2 H1 H2 E. apply in_map_iff in H1 as [k1 [<- K1]], H2 as [k2 [<- K2]].
    destruct (in_lookup _ _ K1) as [a1 A1], (in_lookup _ _ K2) as [a2 A2].
    unfold entry_of in *. cbn [fst snd] in *.
    assert (k1 = k2) by (eapply path_of_injective; eauto). now subst k2.
  Qed.

  Lemma holders_in q c : In (q, c) H ->
    exists k a, lookup k C = Some a /\ q = path_of k /\ c = CArr a.
  Proof.
    unfold H. rewrite dump_holders_writes. intro Hin. apply writes_in in Hin.
    apply in_map_iff in Hin as [k [E K]]. destruct (in_lookup _ _ K) as [a A].
    exists k, a. unfold entry_of in E. rewrite A in E. inversion E. auto.
  Qed.

  (** The restore of the variable directories, for any file system [f] that agrees with [H]
      on the variable paths. *)
  Variable f : fs.
  Hypothesis f_read : forall v name, fs_read (PVar v name) f = fs_read (PVar v name) H.
  Hypothesis f_var : forall v, listdir_var v f = listdir_var v H.
  Hypothesis f_top : listdir_top f = listdir_top H.
  Variable pcount gcount : nat.
  Hypothesis Hpc : pcount = u_pcount u.
  Hypothesis Hgc : gcount = u_gcount u.

  Definition Sound (s : st) : Prop :=
    (forall k a, lookup k (cache s) = Some a -> lookup k C = Some a) /\ stack s = [] /\ invalid s = [].
  Definition Grows (s s' : st) : Prop :=
    forall k a, lookup k (cache s) = Some a -> lookup k (cache s') = Some a.

  Lemma name_in_dir v name : In name (listdir_var v f) ->
    exists p a, name = file_name show p /\ lookup (v, p) C = Some a.
  Proof.
    rewrite f_var, listdir_var_in. intros [c Hin].
    destruct (holders_in _ _ Hin) as [k [a [Hl [Hq _]]]].
    unfold path_of in Hq. inversion Hq. subst. exists (snd k), a. split; auto.
    all: now destruct k.
  Qed.

  Lemma key_in_dir v p a : lookup (v, p) C = Some a ->
    In (file_name show p) (listdir_var v f) /\ In v (listdir_top f).
  Proof.
    intro Hl. pose proof (fs_read_in _ _ _ (holders_read _ _ Hl)) as Hin.
    unfold path_of in Hin. cbn [fst snd] in Hin. split.
    - rewrite f_var, listdir_var_in. eauto.
    - rewrite f_top, listdir_top_in. eauto.
  Qed.

  Section OneVariable.
    Variable v : nat.

    Definition good (d : files) : Prop :=
      forall p name, In (p, name) d ->
        name = file_name show p /\ exists a, lookup (v, p) C = Some a.

    Lemma disk_restore_spec : forall names d0,
      (forall name, In name names -> exists p a, name = file_name show p /\ lookup (v, p) C = Some a) ->
      good d0 ->
      exists d, disk_restore parse names d0 = Ok d /\ good d
        /\ (forall p, files_get p d0 = Some (file_name show p) -> files_get p d = Some (file_name show p))
        /\ (forall p a, lookup (v, p) C = Some a -> In (file_name show p) names ->
                        files_get p d = Some (file_name show p)).
    Proof.
      induction names as [|name names IH]; intros d0 Hn Hg.
      - exists d0. split; [reflexivity|]. split; [exact Hg|]. split; [auto|]. intros q b _ [].
      - destruct (Hn name (or_introl eq_refl)) as [p [a [-> Hl]]].
        destruct (Hkeys _ _ Hl) as [_ [_ [_ [_ [_ Hs]]]]]. cbn [snd] in Hs.
        cbn [disk_restore]. unfold file_name at 1. rewrite strip_npy_npy, (round_trip p Hs).
        fold (file_name show p).
        destruct (IH (files_set p (file_name show p) d0)) as [d [E [G [P1 P2]]]].
        + intros n Hin. apply Hn. now right.
        + intros q n Hin. apply in_files_set in Hin as [Hin|Hin]; [|now apply Hg].
          inversion Hin. subst. split; eauto.
        + exists d. split; [exact E|]. split; [exact G|]. split.
          * intros q Hq. apply P1. rewrite files_get_set.
            destruct (period_eqb q p) eqn:Eq; auto. apply period_eqb_iff in Eq. now subst q.
          * intros q b Hb [Hin|Hin]; [|eapply P2; eauto].
            assert (q = p).
            { destruct (Hkeys _ _ Hb) as [_ [_ [_ [_ [_ Hsq]]]]]. cbn [snd] in Hsq.
              symmetry in Hin. eapply file_name_injective; eauto. }
            subst q. apply P1. rewrite files_get_set.
            assert (Hpp : period_eqb p p = true) by now apply period_eqb_iff. now rewrite Hpp.
    Qed.

    Variable x : var.
    Hypothesis Ex : nth_error (vars sy) v = Some x.
    Let count := match v_ent x with EPerson => pcount | EGroup => gcount end.

    Lemma restore_period_step d e s : good d -> In e d -> Sound s ->
      exists s', restore_period x v count f d e s = Ok s' /\ Sound s' /\ Grows s s'
                 /\ exists a, lookup (v, fst e) C = Some a /\ lookup (v, fst e) (cache s') = Some a.
    Proof.
      intros Hg Hin [S1 [S2 S3]]. destruct e as [p name]. cbn [fst].
      destruct (Hg p name Hin) as [-> [a Hl]].
      destruct (Hkeys _ _ Hl) as [x' [Ex' [Hneu [Hp [Hlen Hs]]]]]. cbn [fst snd] in *.
      rewrite Ex in Ex'. inversion Ex'. subst x'. clear Ex'.
      unfold restore_period. cbn [fst].
      assert (Hsel : (if is_eternal x then eternity_period else p) = p).
      { destruct (is_eternal x); auto. }
      rewrite Hsel.
      destruct (in_files_get _ _ _ Hin) as [n' Hn'].
      pose proof (files_get_in _ _ _ Hn') as Hin'. destruct (Hg _ _ Hin') as [-> _].
      rewrite Hn', f_read.
      pose proof (holders_read _ _ Hl) as Hr. unfold path_of in Hr. cbn [fst snd] in Hr. rewrite Hr.
      unfold holder_set.
      assert (Hcount : length a = count).
      { rewrite Hlen. unfold count, count_in. destruct (v_ent x); congruence. }
      rewrite Hcount, Nat.eqb_refl. cbn [negb].
      assert (Hchk : negb (is_eternal x) && (negb (unit_eqb (v_unit x) (p_unit p)) || (1 <? p_size p)%Z) = false).
      { destruct (is_eternal x); [reflexivity|]. destruct Hp as [Hu Hz]. cbn [negb andb].
        rewrite Hu. assert (Huu : unit_eqb (v_unit x) (v_unit x) = true) by now apply unit_eqb_iff.
        rewrite Huu. cbn [negb orb]. apply Z.ltb_ge. exact Hz. }
      rewrite Hchk.
      assert (Hnorm : norm x p = p).
      { unfold norm. unfold is_eternal in Hp. destruct (unit_eqb (v_unit x) Eternity); auto. }
      rewrite Hnorm.
      exists (put (v, p) a s). split; [reflexivity|]. split; [|split].
      - split; [|now cbn]. intros k b. rewrite lookup_put.
        destruct (key_eqb k (v, p)) eqn:Ek; [|apply S1].
        apply key_eqb_iff in Ek. subst k. intro Hb. inversion Hb. now subst b.
      - intros k b Hb. rewrite lookup_put.
        destruct (key_eqb k (v, p)) eqn:Ek; [|exact Hb].
        apply key_eqb_iff in Ek. subst k. apply S1 in Hb. congruence.
      - exists a. split; [exact Hl|]. rewrite lookup_put. now rewrite key_eqb_refl.
    Qed.
  End OneVariable.

  Lemma Grows_refl s : Grows s s.
  Proof. intros k a Hk. exact Hk. Qed.
  Lemma Grows_trans a b c : Grows a b -> Grows b c -> Grows a c.
  Proof. intros H1 H2 k x Hk. auto. Qed.

  Lemma restore_holder_step v s : In v (listdir_top f) -> Sound s ->
    exists s', restore_holder parse sy pcount gcount f v s = Ok s' /\ Sound s' /\ Grows s s'
               /\ forall p a, lookup (v, p) C = Some a -> lookup (v, p) (cache s') = Some a.
  Proof.
    intros Hv HS.
    assert (Hx : exists x, nth_error (vars sy) v = Some x).
    { rewrite f_top in Hv. apply listdir_top_in in Hv as [name [c Hin]].
      destruct (holders_in _ _ Hin) as [k [a [Hl [Hq _]]]]. inversion Hq. subst.
      destruct (Hkeys _ _ Hl) as [x [Ex _]]. eauto. }
    destruct Hx as [x Ex]. unfold restore_holder. rewrite Ex.
    destruct (disk_restore_spec v (listdir_var v f) []) as [d [Ed [Gd [_ Pd]]]].
    - intros name Hn. now apply name_in_dir.
    - intros p name [].
    - rewrite Ed.
      set (cnt := match v_ent x with EPerson => pcount | EGroup => gcount end).
      assert (Hstable : forall (e : period * string) s1 s2,
                (exists a, lookup (v, fst e) C = Some a /\ lookup (v, fst e) (cache s1) = Some a) ->
                Grows s1 s2 ->
                exists a, lookup (v, fst e) C = Some a /\ lookup (v, fst e) (cache s2) = Some a).
      { intros e s1 s2 [a [A1 A2]] Hg. exists a. split; auto. }
      assert (Hstep : forall e s1, In e d -> Sound s1 ->
                exists s2, restore_period x v cnt f d e s1 = Ok s2 /\ Sound s2 /\ Grows s1 s2 /\
                  exists a, lookup (v, fst e) C = Some a /\ lookup (v, fst e) (cache s2) = Some a).
      { intros e s1 He Hs1. now apply restore_period_step. }
      destruct (foldM_spec (restore_period x v cnt f d) Sound Grows _ (fun e => In e d)
                  Grows_refl Grows_trans Hstable Hstep d s (fun e He => He) HS)
        as [s' [E' [S' [G' Q']]]].
      exists s'. split; [exact E'|]. split; [exact S'|]. split; [exact G'|].
      intros p a Hl. destruct (key_in_dir v p a Hl) as [Hname _].
      pose proof (Pd p a Hl Hname) as Hget. apply files_get_in in Hget.
      destruct (Q' _ Hget) as [a' [A1 A2]]. cbn [fst] in *. congruence.
  Qed.

  Lemma restore_vars_spec :
    exists s', foldM (restore_holder parse sy pcount gcount f) (listdir_top f) (init []) = Ok s'
      /\ (forall k, lookup k (cache s') = lookup k C) /\ stack s' = [] /\ invalid s' = [].
  Proof.
    assert (Hstable : forall v s1 s2,
              (forall p a, lookup (v, p) C = Some a -> lookup (v, p) (cache s1) = Some a) ->
              Grows s1 s2 ->
              forall p a, lookup (v, p) C = Some a -> lookup (v, p) (cache s2) = Some a).
    { intros v s1 s2 Hq Hg p a Hl. auto. }
    assert (Hstep : forall v s, In v (listdir_top f) -> Sound s ->
              exists s', restore_holder parse sy pcount gcount f v s = Ok s' /\ Sound s' /\ Grows s s'
                /\ forall p a, lookup (v, p) C = Some a -> lookup (v, p) (cache s') = Some a).
    { intros v s Hv Hs. now apply restore_holder_step. }
    assert (HS0 : Sound (init [])).
    { split; [|split; reflexivity]. intros k a Hk. discriminate. }
    destruct (foldM_spec (restore_holder parse sy pcount gcount f) Sound Grows _
                (fun v => In v (listdir_top f)) Grows_refl Grows_trans Hstable Hstep
                (listdir_top f) (init []) (fun v Hv => Hv) HS0)
      as [s' [E' [[S1 [S2 S3]] [_ Q']]]].
    exists s'. split; [exact E'|]. split; [|split; assumption]. intro k.
    destruct (lookup k C) as [a|] eqn:Hl.
    - destruct k as [v p]. destruct (key_in_dir v p a Hl) as [_ Hv]. eapply Q'; eauto.
    - destruct (lookup k (cache s')) as [a|] eqn:Hl'; auto. apply S1 in Hl'. congruence.
  Qed.
End Identity.

(** Entity files do not interfere with the variable directories. *)
Definition entity_path (e : path * content) : Prop :=
  match fst e with PVar _ _ => False | _ => True end.

Lemma prefix_agrees (P H : fs) : Forall entity_path P ->
  (forall v name, fs_read (PVar v name) (P ++ H) = fs_read (PVar v name) H)
  /\ (forall v, listdir_var v (P ++ H) = listdir_var v H)
  /\ listdir_top (P ++ H) = listdir_top H.
Proof.
  induction 1 as [|[p c] P Hp _ [IH1 [IH2 IH3]]]; [auto|].
  unfold entity_path in Hp. cbn [fst] in Hp.
  destruct p; try contradiction; (split; [|split]); intros; cbn [app listdir_var listdir_top]; auto;
    unfold fs_read in *; cbn [find fst path_eqb]; apply IH1.
Qed.

Theorem restore_dump_identity_proof :
  forall (show : period -> string) (parse : string -> res period) (storable : period -> Prop),
  (forall p, storable p -> parse (show p) = Ok p) ->
  forall sy og u, dumpable storable sy og u ->
  exists f u', dump_simulation show sy og u [] = Ok f
    /\ restore_simulation parse sy og f = Ok u'
    /\ (forall k, lookup k (cache (u_st u')) = lookup k (cache (u_st u)))
    /\ stack (u_st u') = [] /\ invalid (u_st u') = []
    /\ same_structure og u u'
    /\ pop_of og u' = pop_of og u.
Proof.
  intros show parse storable RT sy og u [Hkeys [Hpc Hg]].
  set (H := dump_holders show sy (pop_of og u) (u_st u)).
  destruct og as [e|].
  - destruct Hg as [Hgc [Hfl [Hnd [Hroles [pos Hpos]]]]].
    set (P := [ (PIds EPerson, CNat (u_pids u)); (PIds EGroup, CNat (u_gids u)); (PPosition, CNat pos);
                (PEntityId, CNat (u_members u));
                (PRole, CStr (map (encode_role e) (u_roles u))) ]).
    assert (HP : Forall entity_path P) by (repeat constructor).
    destruct (prefix_agrees P H HP) as [A1 [A2 A3]].
    destruct (restore_vars_spec show parse storable RT sy (Some e) u Hkeys (P ++ H) A1 A2 A3
                (length (u_pids u)) (length (u_gids u)) (eq_sym Hpc) (eq_sym Hgc))
      as [s' [E' [L' [S' I']]]].
    assert (Hdec : map (decode_role e) (map (encode_role e) (u_roles u)) = u_roles u).
    { rewrite map_map. rewrite <- (map_id (u_roles u)) at 2. apply map_ext_in.
      intros r Hr. apply decode_encode; auto. }
    exists (P ++ H). eexists. split; [|split].
    + unfold dump_simulation, dump_group. rewrite Hpos.
      destruct (flattened_roles e) eqn:Efl; [contradiction|]. reflexivity.
    + unfold restore_simulation, restore_group.
      destruct (flattened_roles e) eqn:Efl; [contradiction|].
      unfold read_nats, fs_read, P. cbn [app find fst snd path_eqb ent_eqb option_map].
      unfold restore_persons, read_nats, fs_read. cbn [app find fst snd path_eqb ent_eqb option_map].
      cbn [u_pcount u_gcount u_st empty_simu].
      unfold P in E'. cbn [app] in E'. rewrite E'. reflexivity.
    + cbn [with_st u_st u_pcount u_pids u_gcount u_gids u_members u_roles u_pos].
      split; [exact L'|]. split; [exact S'|]. split; [exact I'|].
      assert (SS : same_structure (Some e) u
                (with_st {| u_pcount := length (u_pids u); u_pids := u_pids u;
                            u_gcount := length (u_gids u); u_gids := u_gids u;
                            u_members := u_members u;
                            u_roles := map (decode_role e) (map (encode_role e) (u_roles u));
                            u_pos := Some pos; u_st := init [] |} s')).
      { unfold same_structure, with_st, positions. cbn [u_pcount u_pids u_gcount u_gids u_members u_roles u_pos].
        repeat split; auto. all: fold (positions u); now rewrite Hpos. }
      split; [exact SS|]. now apply same_structure_pop.
  - set (P := [ (PIds EPerson, CNat (u_pids u)) ]).
    assert (HP : Forall entity_path P) by (repeat constructor).
    destruct (prefix_agrees P H HP) as [A1 [A2 A3]].
    destruct (restore_vars_spec show parse storable RT sy None u Hkeys (P ++ H) A1 A2 A3
                (length (u_pids u)) 0 (eq_sym Hpc) (eq_sym Hg))
      as [s' [E' [L' [S' I']]]].
    exists (P ++ H). eexists. split; [|split].
    + reflexivity.
    + unfold restore_simulation, restore_persons, read_nats, fs_read, P.
      cbn [app find fst snd path_eqb ent_eqb option_map].
      cbn [u_pcount u_gcount u_st empty_simu].
      unfold P in E'. cbn [app] in E'. rewrite E'. reflexivity.
    + cbn [with_st u_st].
      split; [exact L'|]. split; [exact S'|]. split; [exact I'|].
      assert (SS : same_structure None u
                (with_st {| u_pcount := length (u_pids u); u_pids := u_pids u;
                            u_gcount := 0; u_gids := []; u_members := []; u_roles := [];
                            u_pos := None; u_st := init [] |} s')).
      { unfold same_structure, with_st. cbn [u_pcount u_pids]. auto. }
      split; [exact SS|]. now apply same_structure_pop.
Qed.

(** * Calculations only look at the cache as a finite map *)

(** Two machine states that hold the same arrays (same lookup for every key), the same
    evaluation stack and the same invalidated entries. *)
Definition same_state (s s' : st) : Prop :=
  (forall k, lookup k (cache s) = lookup k (cache s')) /\ stack s = stack s' /\ invalid s = invalid s'.

Lemma same_state_refl s : same_state s s.
Proof. repeat split. Qed.

(** Generic evaluator, two related state types *)
Section Rel2.
  Variable sy : sys.
  Variable pp : popu.
  Context {S1 S2 : Type}.
  Variable rec1 : S1 -> nat -> period -> S1 * res val.
  Variable rec2 : S2 -> nat -> period -> S2 * res val.
  Variable Rel : S1 -> S2 -> Prop.
  Hypothesis Hrec : forall s s' w q, Rel s s' ->
    Rel (fst (rec1 s w q)) (fst (rec2 s' w q)) /\ snd (rec1 s w q) = snd (rec2 s' w q).

  Lemma sum_calc_rel : forall subs w acc s s', Rel s s' ->
    Rel (fst (sum_calc rec1 s w subs acc)) (fst (sum_calc rec2 s' w subs acc)) /\
    snd (sum_calc rec1 s w subs acc) = snd (sum_calc rec2 s' w subs acc).
  Proof.
    induction subs as [|q r IH]; intros w acc s s' Hs; cbn; [auto|].
    destruct (Hrec s s' w q Hs) as [HP Hr].
    destruct (rec1 s w q) as [s1 r1]; destruct (rec2 s' w q) as [s1' r1']; cbn [fst snd] in *. subst r1'.
    destruct r1 as [a|e]; cbn [fst snd]; auto.
  Qed.

  Lemma calc_add_rel : forall w x q s s', Rel s s' ->
    Rel (fst (calc_add rec1 s w x q)) (fst (calc_add rec2 s' w x q)) /\
    snd (calc_add rec1 s w x q) = snd (calc_add rec2 s' w x q).
  Proof.
    intros w x q s s' Hs. unfold calc_add.
    destruct (_ <? _)%Z; cbn [fst snd]; auto.
    destruct (unit_eqb _ _); cbn [fst snd]; auto.
    destruct (negb _); cbn [fst snd]; auto.
    destruct (subperiods _ _); cbn [fst snd]; auto.
    now apply sum_calc_rel.
  Qed.

  Lemma calc_divide_rel : forall w x q s s', Rel s s' ->
    Rel (fst (calc_divide rec1 s w x q)) (fst (calc_divide rec2 s' w x q)) /\
    snd (calc_divide rec1 s w x q) = snd (calc_divide rec2 s' w x q).
  Proof.
    intros w x q s s' Hs. unfold calc_divide.
    destruct (_ || _); cbn [fst snd]; auto.
    destruct (negb (dated_unit (v_unit x))); cbn [fst snd]; auto.
    destruct (_ || _); cbn [fst snd]; auto.
    destruct (divide_period _ _) as [cp|]; cbn [fst snd]; auto.
    destruct (divide_denominator _ _); cbn [fst snd]; auto.
    destruct (Hrec s s' w cp Hs) as [HP Hr].
    destruct (rec1 s w cp) as [s1 r1]; destruct (rec2 s' w cp) as [s1' r1']; cbn [fst snd] in *. subst r1'.
    destruct r1; cbn [fst snd]; auto.
  Qed.

  Lemma call_rel : forall c w q o s s', Rel s s' ->
    Rel (fst (call rec1 sy c s w q o)) (fst (call rec2 sy c s' w q o)) /\
    snd (call rec1 sy c s w q o) = snd (call rec2 sy c s' w q o).
  Proof.
    intros c w q o s s' Hs. unfold call.
    destruct (nth_error (vars sy) w) as [x|] eqn:Ex; cbn [fst snd]; auto.
    destruct (negb _); cbn [fst snd]; auto.
    destruct o; cbn [fst snd]; auto.
    - now apply calc_add_rel.
    - destruct (calc_divide_rel w x q s s' Hs) as [HP Hr].
      destruct (calc_divide rec1 s w x q) as [s1 r1]; destruct (calc_divide rec2 s' w x q) as [s1' r1'].
      cbn [fst snd] in *. subst r1'. destruct r1 as [[a d]|]; cbn [fst snd]; auto.
  Qed.

  Lemma eval_rel : forall e c s s' p, Rel s s' ->
    Rel (fst (eval rec1 sy pp c s p e)) (fst (eval rec2 sy pp c s' p e)) /\
    snd (eval rec1 sy pp c s p e) = snd (eval rec2 sy pp c s' p e).
  Proof.
    induction e as [z|w pt o|op a IHa b IHb|a IHa|cn IHc a IHa b IHb|k|g role a IHa|role|role a IHa|f|k];
      intros c s s' p Hs; cbn [eval] in *; auto.
    - destruct (apply_ptrans pt p); cbn [fst snd]; auto. now apply call_rel.
    - destruct (IHa c s s' p Hs) as [HP1 Hr1].
      destruct (eval rec1 sy pp c s p a) as [s1 r1]; destruct (eval rec2 sy pp c s' p a) as [s1' r1'].
      cbn [fst snd] in *. subst r1'. destruct r1 as [x|]; cbn [fst snd]; auto.
      destruct (IHb c s1 s1' p HP1) as [HP2 Hr2].
      destruct (eval rec1 sy pp c s1 p b) as [s2 r2]; destruct (eval rec2 sy pp c s1' p b) as [s2' r2'].
      cbn [fst snd] in *. subst r2'. destruct r2; cbn [fst snd]; auto.
    - destruct (IHa c s s' p Hs) as [HP1 Hr1].
      destruct (eval rec1 sy pp c s p a) as [s1 r1]; destruct (eval rec2 sy pp c s' p a) as [s1' r1'].
      cbn [fst snd] in *. subst r1'. auto.
    - destruct (IHc c s s' p Hs) as [HP1 Hr1].
      destruct (eval rec1 sy pp c s p cn) as [s1 r1]; destruct (eval rec2 sy pp c s' p cn) as [s1' r1'].
      cbn [fst snd] in *. subst r1'. destruct r1 as [x|]; cbn [fst snd]; auto.
      destruct (IHa c s1 s1' p HP1) as [HP2 Hr2].
      destruct (eval rec1 sy pp c s1 p a) as [s2 r2]; destruct (eval rec2 sy pp c s1' p a) as [s2' r2'].
      cbn [fst snd] in *. subst r2'. destruct r2 as [y|]; cbn [fst snd]; auto.
      destruct (IHb c s2 s2' p HP2) as [HP3 Hr3].
      destruct (eval rec1 sy pp c s2 p b) as [s3 r3]; destruct (eval rec2 sy pp c s2' p b) as [s3' r3'].
      cbn [fst snd] in *. subst r3'. destruct r3; cbn [fst snd]; auto.
    - destruct (nth_error (params sy) k); cbn [fst snd]; auto. destruct (get_at _ _); cbn [fst snd]; auto.
    - destruct (IHa EPerson s s' p Hs) as [HP1 Hr1].
      destruct (eval rec1 sy pp EPerson s p a) as [s1 r1];
        destruct (eval rec2 sy pp EPerson s' p a) as [s1' r1'].
      cbn [fst snd] in *. subst r1'. auto.
    - destruct (IHa EGroup s s' p Hs) as [HP1 Hr1].
      destruct (eval rec1 sy pp EGroup s p a) as [s1 r1];
        destruct (eval rec2 sy pp EGroup s' p a) as [s1' r1'].
      cbn [fst snd] in *. subst r1'. auto.
    - destruct (existsb _ _); cbn [fst snd]; auto.
  Qed.
End Rel2.

Lemma lookup_filter_key (g : key -> bool) c k :
  lookup k (filter (fun kv => g (fst kv)) c) = if g k then lookup k c else None.
Proof.
  unfold lookup. induction c as [|[k' a] c IH]; cbn [filter find fst].
  - now destruct (g k).
  - destruct (g k') eqn:Eg; cbn [find fst].
    + destruct (key_eqb k k') eqn:Ek.
      * apply key_eqb_iff in Ek. subst k'. now rewrite Eg.
      * exact IH.
    + destruct (key_eqb k k') eqn:Ek; [|exact IH].
      apply key_eqb_iff in Ek. subst k'. rewrite Eg in *. exact IH.
Qed.

Lemma delete_one_same sy k0 c c' :
  (forall k, lookup k c = lookup k c') ->
  forall k, lookup k (delete_one sy k0 c) = lookup k (delete_one sy k0 c').
Proof.
  intros Hc k. unfold delete_one. destruct (nth_error (vars sy) (fst k0)) as [x|]; [|apply Hc].
  rewrite !(lookup_filter_key
              (fun k1 => negb (Nat.eqb (fst k1) (fst k0) && contains (norm x (snd k0)) (snd k1)))).
  now rewrite Hc.
Qed.

Lemma fold_delete_same sy : forall l c c', (forall k, lookup k c = lookup k c') ->
  forall k, lookup k (fold_left (fun c k => delete_one sy k c) l c)
            = lookup k (fold_left (fun c k => delete_one sy k c) l c').
Proof.
  induction l as [|k0 l IH]; intros c c' Hc; [exact Hc|].
  cbn [fold_left]. apply IH. now apply delete_one_same.
Qed.

Lemma purge_same sy s s' : same_state s s' -> same_state (purge sy s) (purge sy s').
Proof.
  intros [Hc [Hs Hi]]. unfold purge. rewrite <- Hs, <- Hi.
  destruct (stack s) eqn:Est.
  - split; [|split; reflexivity]. cbn [cache]. now apply fold_delete_same.
  - split; [exact Hc|]. split; [congruence|exact Hi].
Qed.

Lemma put_same k a s s' : same_state s s' -> same_state (put k a s) (put k a s').
Proof.
  intros [Hc [Hs Hi]]. split; [|split; cbn; auto]. intro k'. rewrite !lookup_put. now rewrite Hc.
Qed.

Lemma put_in_cache_same x v p a s s' :
  same_state s s' -> same_state (put_in_cache x v p a s) (put_in_cache x v p a s').
Proof. intro H. unfold put_in_cache. destruct (v_nostore x); auto. now apply put_same. Qed.

Lemma add_invalid_same ks s s' : same_state s s' -> same_state (add_invalid ks s) (add_invalid ks s').
Proof. intros [Hc [Hs Hi]]. repeat split; cbn; auto. now rewrite Hi. Qed.

Lemma push_same k s s' : same_state s s' -> same_state (push k s) (push k s').
Proof. intros [Hc [Hs Hi]]. repeat split; cbn; auto. now rewrite Hs. Qed.

Lemma pop_same s s' : same_state s s' -> same_state (pop s) (pop s').
Proof. intros [Hc [Hs Hi]]. repeat split; cbn; auto. now rewrite Hs. Qed.

Lemma get_array_same pp x s s' v p : same_state s s' -> get_array pp x s v p = get_array pp x s' v p.
Proof. intros [Hc _]. unfold get_array. destruct (v_neutral x); auto. Qed.

Lemma calc_body_same sy pp (rec1 rec2 : st -> nat -> period -> st * res val) :
  (forall s s' w q, same_state s s' ->
     same_state (fst (rec1 s w q)) (fst (rec2 s' w q)) /\ snd (rec1 s w q) = snd (rec2 s' w q)) ->
  forall s s' v p, same_state s s' ->
    same_state (fst (calc_body rec1 sy pp s v p)) (fst (calc_body rec2 sy pp s' v p))
    /\ snd (calc_body rec1 sy pp s v p) = snd (calc_body rec2 sy pp s' v p).
Proof.
  intros Hrec s s' v p Hs. unfold calc_body.
  destruct (nth_error (vars sy) v) as [x|]; cbn [fst snd]; auto.
  destruct (check_consistency x p) as [[]|]; cbn [fst snd]; auto.
  rewrite (get_array_same pp x s s' v p Hs).
  pose proof Hs as [Hc [Hst Hi]].
  destruct (get_array pp x s' v p) as [a|]; cbn [fst snd].
  - split; auto. rewrite Hi, Hst. destruct (existsb _ _); auto. now apply add_invalid_same.
  - rewrite Hst. destruct (existsb (period_eqb p) _); cbn [fst snd]; auto.
    destruct (Nat.leb _ _); cbn [fst snd].
    + split; auto. now apply add_invalid_same.
    + destruct (formula_at x p) as [[e|]|]; cbn [fst snd]; auto.
      * destruct (eval_rel sy pp rec1 rec2 same_state Hrec e (v_ent x) s s' p Hs) as [H1 H2].
        destruct (eval rec1 sy pp (v_ent x) s p e) as [s1 r1];
          destruct (eval rec2 sy pp (v_ent x) s' p e) as [s1' r1'].
        cbn [fst snd] in *. subst r1'. destruct r1; cbn [fst snd]; auto.
        split; auto. now apply put_in_cache_same.
      * split; auto. now apply put_in_cache_same.
Qed.

Lemma calc_same sy pp : forall fuel s s' v p, same_state s s' ->
  same_state (fst (calc fuel sy pp s v p)) (fst (calc fuel sy pp s' v p))
  /\ snd (calc fuel sy pp s v p) = snd (calc fuel sy pp s' v p).
Proof.
  induction fuel as [|f IH]; intros s s' v p Hs; cbn [calc]; [auto|].
  destruct (calc_body_same sy pp (calc f sy pp) (calc f sy pp) IH
              (push (v, p) s) (push (v, p) s') v p (push_same _ _ _ Hs)) as [H1 H2].
  destruct (calc_body (calc f sy pp) sy pp (push (v, p) s) v p) as [s1 r1];
    destruct (calc_body (calc f sy pp) sy pp (push (v, p) s') v p) as [s1' r1'].
  cbn [fst snd] in *. split; auto. apply purge_same. now apply pop_same.
Qed.

Lemma step_same sy pp fuel s s' r : same_state s s' ->
  same_state (fst (step fuel sy pp s r)) (fst (step fuel sy pp s' r))
  /\ snd (step fuel sy pp s r) = snd (step fuel sy pp s' r).
Proof.
  intro Hs. destruct r as [v p|v p|v p|v p a|v p|v p|k on]; cbn [step].
  - destruct (calc_same sy pp fuel s s' v p Hs) as [H1 H2].
    destruct (calc fuel sy pp s v p) as [s1 r1]; destruct (calc fuel sy pp s' v p) as [s1' r1'].
    cbn [fst snd] in *. now subst.
  - destruct (nth_error (vars sy) v) as [x|]; cbn [fst snd]; auto.
    destruct (calc_add_rel (calc fuel sy pp) (calc fuel sy pp) same_state (calc_same sy pp fuel) v x p s s' Hs)
      as [H1 H2].
    destruct (calc_add (calc fuel sy pp) s v x p) as [s1 r1];
      destruct (calc_add (calc fuel sy pp) s' v x p) as [s1' r1'].
    cbn [fst snd] in *. now subst.
  - destruct (nth_error (vars sy) v) as [x|]; cbn [fst snd]; auto.
    destruct (calc_divide_rel (calc fuel sy pp) (calc fuel sy pp) same_state (calc_same sy pp fuel) v x p s s' Hs)
      as [H1 H2].
    destruct (calc_divide (calc fuel sy pp) s v x p) as [s1 r1];
      destruct (calc_divide (calc fuel sy pp) s' v x p) as [s1' r1'].
    cbn [fst snd] in *. now subst.
  - unfold set_input. destruct (nth_error (vars sy) v) as [x|]; cbn [fst snd]; auto.
    repeat (match goal with |- context [if ?b then _ else _] => destruct b; cbn [fst snd]; auto end).
    split; auto. now apply put_same.
  - destruct (nth_error (vars sy) v) as [x|]; cbn [fst snd]; auto. split; auto.
    destruct Hs as [Hc [Hst Hi]]. unfold delete_arrays. destruct p as [q|].
    + split; [|split; cbn; auto]. cbn [cache]. now apply delete_one_same.
    + split; [|split; cbn; auto]. cbn [cache]. intro k.
      rewrite !(lookup_filter_key (fun k1 => negb (Nat.eqb (fst k1) v))). now rewrite Hc.
  - destruct (nth_error (vars sy) v) as [x|]; cbn [fst snd]; auto. split; auto.
    now rewrite (get_array_same pp x s s' v p Hs).
  - auto.
Qed.

Lemma run_same pp fuel : forall rs sy s s', same_state s s' ->
  same_state (fst (Engine.run fuel sy pp s rs)) (fst (Engine.run fuel sy pp s' rs))
  /\ snd (Engine.run fuel sy pp s rs) = snd (Engine.run fuel sy pp s' rs).
Proof.
  induction rs as [|r rs IH]; intros sy s s' Hs; cbn [Engine.run]; [auto|].
  destruct (step_same sy pp fuel s s' r Hs) as [H1 H2].
  destruct (step fuel sy pp s r) as [s1 a1]; destruct (step fuel sy pp s' r) as [s1' a1'].
  cbn [fst snd] in *. subst a1'.
  destruct (IH (sys_after sy r) s1 s1' H1) as [H3 H4].
  destruct (Engine.run fuel (sys_after sy r) pp s1 rs) as [s2 l2];
    destruct (Engine.run fuel (sys_after sy r) pp s1' rs) as [s2' l2'].
  cbn [fst snd] in *. now subst.
Qed.

(** * The decidable form of the hypotheses *)

Lemma nodup_strings_sound l : nodup_strings l = true -> NoDup l.
Proof.
  induction l as [|x l IH]; cbn [nodup_strings]; intro H; [constructor|].
  apply andb_true_iff in H as [H1 H2]. constructor; [|auto].
  intro Hin. apply negb_true_iff in H1.
  assert (existsb (String.eqb x) l = true); [|congruence].
  apply existsb_exists. exists x. split; [exact Hin|apply String.eqb_refl].
Qed.

Lemma lookup_in_pair k a c : lookup k c = Some a -> In (k, a) c.
Proof.
  unfold lookup. destruct (find _ c) as [[k' a']|] eqn:E; cbn; [|discriminate].
  intro H. inversion H. subst a'. apply find_some in E as [Hin Heq]. cbn [fst] in Heq.
  apply key_eqb_iff in Heq. now subst k'.
Qed.

Lemma dumpable_b_sound sy og u :
  dumpable_b sy og u = true -> dumpable (fun _ => True) sy og u.
Proof.
  unfold dumpable_b. rewrite !andb_true_iff. intros [[Hk Hp] Hg]. split; [|split].
  - intros k a Hl. apply lookup_in_pair in Hl. rewrite forallb_forall in Hk.
    specialize (Hk _ Hl). cbn [fst snd] in Hk. unfold key_ok_b in Hk.
    destruct (nth_error (vars sy) (fst k)) as [x|] eqn:Ex; [|discriminate].
    rewrite !andb_true_iff in Hk. destruct Hk as [[Hn Hs] Hlen].
    exists x. split; [exact Ex|]. split; [now apply negb_true_iff in Hn|].
    split; [|split; [now apply Nat.eqb_eq in Hlen|exact I]].
    destruct (is_eternal x).
    + now apply period_eqb_iff in Hs.
    + apply andb_true_iff in Hs as [Hu Hz]. apply unit_eqb_iff in Hu. apply Z.leb_le in Hz. auto.
  - now apply Nat.eqb_eq in Hp.
  - destruct og as [e|]; [|now apply Nat.eqb_eq in Hg].
    unfold group_ok_b in Hg. rewrite !andb_true_iff in Hg.
    destruct Hg as [[[[H1 H2] H3] H4] H5]. split; [now apply Nat.eqb_eq in H1|].
    split; [intro E; rewrite E in H2; discriminate|].
    split; [now apply nodup_strings_sound|]. split.
    + intros r Hr. rewrite forallb_forall in H4. specialize (H4 r Hr).
      apply existsb_exists in H4 as [r' [Hin Heq]]. apply Nat.eqb_eq in Heq. now subst r'.
    + destruct (positions u) as [pos|]; [eauto|discriminate].
Qed.

(** * Ranked systems: the restored simulation answers with the meaning *)

Lemma Top_same sy pp inp s s' : Top sy pp inp s -> same_state s s' -> Top sy pp inp s'.
Proof.
  intros [[I1 [I2 I3]] Hst] [Hc [Hs Hi]]. split; [|congruence]. split; [|split; [|congruence]].
  - intros v x q a Ex Hn Hl. rewrite <- Hc in Hl. eapply I1; eauto.
  - intros k a Hk. rewrite <- Hc. auto.
Qed.

Theorem restored_answers_meaning : forall sy pp inp, ranked sy = true -> 1 <= max_loops sy ->
  forall s s', Top sy pp inp s -> same_state s s' ->
  forall rs, forallb is_calc_request rs = true ->
  snd (Engine.run (enough_fuel sy) sy pp s' rs) = map (sem_answer sy pp inp) rs
  /\ snd (Engine.run (enough_fuel sy) sy pp s' rs) = snd (Engine.run (enough_fuel sy) sy pp s rs).
Proof.
  intros sy pp inp Hr Hl s s' HT Hs rs Hrs.
  pose proof (Top_same _ _ _ _ _ HT Hs) as HT'.
  destruct (run_refines_meaning sy pp inp Hr Hl rs s Hrs HT) as [E1 _].
  destruct (run_refines_meaning sy pp inp Hr Hl rs s' Hrs HT') as [E2 _].
  split; congruence.
Qed.

(** * Dump, restore, then any requests *)

Theorem dump_restore_run_proof :
  forall (show : period -> string) (parse : string -> res period) (storable : period -> Prop),
  (forall p, storable p -> parse (show p) = Ok p) ->
  forall sy og u, dumpable storable sy og u -> stack (u_st u) = [] -> invalid (u_st u) = [] ->
  exists f u', dump_simulation show sy og u [] = Ok f
    /\ restore_simulation parse sy og f = Ok u'
    /\ forall fuel rs,
         snd (Engine.run fuel sy (pop_of og u') (u_st u') rs)
         = snd (Engine.run fuel sy (pop_of og u) (u_st u) rs).
Proof.
  intros show parse storable RT sy og u Hd Hst Hinv.
  destruct (restore_dump_identity_proof show parse storable RT sy og u Hd)
    as [f [u' [E1 [E2 [L [S' [I' [_ Hp]]]]]]]].
  exists f, u'. split; [exact E1|]. split; [exact E2|]. intros fuel rs. rewrite Hp.
  apply run_same. split; [exact L|]. split; congruence.
Qed.

(** * Before the fix: the number of groups was max(members_entity_id) + 1 *)

Lemma group_count_before_fix_refuted :
  exists (gids members : list nat), length gids <> group_count_before_fix members
                       /\ Forall (fun m => m < length gids) members.
Proof. exists [7; 8; 9], [0; 1; 0]. split; [cbn; lia|repeat constructor]. Qed.

(** * The instance that the correspondence runs *)

Theorem restore_dump_identity_corr : forall sy og u, dumpable_b sy og u = true ->
  exists f u', dump_simulation show_enc sy og u [] = Ok f
    /\ restore_simulation parse_enc sy og f = Ok u'
    /\ (forall k, lookup k (cache (u_st u')) = lookup k (cache (u_st u)))
    /\ stack (u_st u') = [] /\ invalid (u_st u') = []
    /\ same_structure og u u'
    /\ pop_of og u' = pop_of og u.
Proof.
  intros sy og u Hb.
  exact (restore_dump_identity_proof show_enc parse_enc (fun _ => True) (fun p _ => enc_roundtrip p)
           sy og u (dumpable_b_sound sy og u Hb)).
Qed.
