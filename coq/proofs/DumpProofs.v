(** Proofs about coq/model/Dump.v (C19). *)
From Coq Require Import ZArith List Bool String Arith Ascii Lia.
From Verif Require Import Base Cal Tables Period Np Group Param Engine EngineProofs Dump Corr_C19.
Import ListNotations.
Local Notation length := List.length.

(** * Text *)

Lemma string_length_app (a b : string) :
  String.length (a ++ b) = String.length a + String.length b.
Proof. induction a as [|c a IH]; cbn; [reflexivity|now rewrite IH]. Qed.

Lemma strip_suffix_app suf : forall pre, strip_suffix suf (pre ++ suf)%string = Some pre.
Proof.
  induction pre as [|c pre IH].
  - cbn [append]. destruct suf; cbn [strip_suffix]; now rewrite String.eqb_refl.
  - cbn [append strip_suffix].
    destruct (String.eqb_spec (String c (pre ++ suf)) suf) as [E|_].
    + apply (f_equal String.length) in E. cbn [String.length] in E.
      rewrite string_length_app in E. lia.
    + now rewrite IH.
Qed.

Lemma strip_npy_npy s : strip_npy (npy s) = Some s.
Proof. apply strip_suffix_app. Qed.

Section RoundTrip.
  Variable show : period -> string.
  Variable parse : string -> res period.
  Variable storable : period -> Prop.
  Hypothesis round_trip : forall p, storable p -> parse (show p) = Ok p.

  Lemma show_injective p q : storable p -> storable q -> show p = show q -> p = q.
  Proof.
    intros Hp Hq E. apply round_trip in Hp, Hq. rewrite E in Hp. congruence.
  Qed.

  Lemma file_name_injective p q :
    storable p -> storable q -> file_name show p = file_name show q -> p = q.
  Proof.
    intros Hp Hq E. apply (f_equal strip_npy) in E. unfold file_name in E.
    rewrite !strip_npy_npy in E. inversion E. now apply show_injective.
  Qed.
End RoundTrip.
