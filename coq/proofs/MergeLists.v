(** List lemmas for C11: gather / index_of / inverse / place (model/Merge.v) and valid
    placements ([Np.is_perm_b]). *)
From Coq Require Import ZArith List Bool Arith Lia.
From Verif Require Import Base Np NpProofs Merge.
Import ListNotations.
Open Scope nat_scope.

Lemma map_seq_eq {A} (h : nat -> A) n (a : list A) d :
  length a = n -> (forall i, i < n -> h i = nth i a d) -> map h (seq 0 n) = a.
Proof.
  intros Hl H. symmetry. apply (map_seq_ext_nth a h d n Hl). intros k Hk. symmetry. now apply H.
Qed.

(** * gather *)

Lemma gather_nth {A} (d : A) f a :
  Forall (fun j => j < length a) f -> gather f a = map (fun j => nth j a d) f.
Proof.
  unfold gather. induction f as [|j f IH]; intros H; [reflexivity|].
  inversion H as [|? ? Hj Hf]; subst. cbn [flat_map map].
  rewrite (nth_error_nth' a d Hj). cbn [app]. f_equal. apply IH, Hf.
Qed.

Lemma gather_nil {A} f : @gather A f [] = [].
Proof.
  unfold gather. induction f as [|j f IH]; [reflexivity|]. cbn [flat_map]. rewrite IH.
  destruct j; reflexivity.
Qed.

Lemma gather_length {A} f (a : list A) :
  Forall (fun j => j < length a) f -> length (gather f a) = length f.
Proof.
  intros H. destruct a as [|d a].
  - destruct f as [|j f]; [reflexivity|]. inversion H; subst. cbn in *. lia.
  - rewrite (gather_nth d) by exact H. apply map_length.
Qed.

(** * valid placements *)

Lemma is_perm_spec f n : is_perm_b f n = true ->
  length f = n /\ NoDup f /\ forall j, In j f <-> j < n.
Proof.
  unfold is_perm_b. intros H. apply andb_prop in H as [Hl Hall].
  apply Nat.eqb_eq in Hl. rewrite forallb_forall in Hall.
  assert (Hincl : incl (seq 0 n) f).
  { intros j Hj. specialize (Hall j Hj). apply existsb_exists in Hall as [x [Hx E]].
    apply Nat.eqb_eq in E. now subst. }
  assert (Hnd : NoDup f).
  { apply (NoDup_incl_NoDup (seq_NoDup n 0)); [rewrite seq_length; lia | exact Hincl]. }
  split; [exact Hl|]. split; [exact Hnd|].
  intros j. split.
  - intros Hj. assert (Hs : In j (seq 0 n)).
    { refine (NoDup_length_incl (l := seq 0 n) (l' := f) (seq_NoDup n 0) _ Hincl j Hj). rewrite seq_length; lia. }
    apply in_seq in Hs. lia.
  - intros Hj. apply Hincl, in_seq. lia.
Qed.

Lemma perm_Forall_lt f n : is_perm_b f n = true -> Forall (fun j => j < n) f.
Proof. intros H. apply Forall_forall. intros j Hj. now apply (is_perm_spec f n H). Qed.

Lemma perm_nth_lt f n i : is_perm_b f n = true -> i < n -> nth i f 0 < n.
Proof.
  intros H Hi. destruct (is_perm_spec f n H) as [Hl [_ Hin]]. apply Hin, nth_In. lia.
Qed.

(** * index_of, inverse *)

Lemma index_of_Some j f i : index_of j f = Some i -> nth_error f i = Some j.
Proof.
  revert i. induction f as [|h t IH]; intros i H; [discriminate|].
  cbn [index_of] in H. destruct (Nat.eqb h j) eqn:E.
  - inversion H; subst. apply Nat.eqb_eq in E. subst. reflexivity.
  - destruct (index_of j t) as [k|]; [|discriminate]. inversion H; subst. cbn. apply IH. reflexivity.
Qed.

Lemma index_of_None j f : index_of j f = None -> ~ In j f.
Proof.
  induction f as [|h t IH]; intros H; [intros []|].
  cbn [index_of] in H. destruct (Nat.eqb h j) eqn:E; [discriminate|].
  destruct (index_of j t); [discriminate|]. apply Nat.eqb_neq in E.
  intros [Hh|Ht]; [contradiction|]. now apply IH.
Qed.

Lemma index_of_nth f : NoDup f -> forall i, i < length f -> index_of (nth i f 0) f = Some i.
Proof.
  induction 1 as [|h t Hn Hnd IH]; intros i Hi; [cbn in Hi; lia|].
  destruct i as [|i]; cbn [nth index_of].
  - now rewrite Nat.eqb_refl.
  - cbn [length] in Hi. destruct (Nat.eqb h (nth i t 0)) eqn:E.
    + apply Nat.eqb_eq in E. exfalso. apply Hn. rewrite E. apply nth_In. lia.
    + rewrite IH by lia. reflexivity.
Qed.

Lemma inverse_length f : length (inverse f) = length f.
Proof. unfold inverse. now rewrite map_length, seq_length. Qed.

Lemma nth_inverse f n : is_perm_b f n = true ->
  forall i, i < n -> nth (nth i f 0) (inverse f) 0 = i.
Proof.
  intros H i Hi. destruct (is_perm_spec f n H) as [Hl [Hnd Hin]].
  pose proof (perm_nth_lt f n i H Hi) as Hlt.
  unfold inverse. rewrite Hl, nth_map_seq by assumption.
  rewrite index_of_nth by (assumption || lia). reflexivity.
Qed.

Lemma inverse_spec f n : is_perm_b f n = true ->
  forall j, j < n -> nth j (inverse f) 0 < n /\ nth (nth j (inverse f) 0) f 0 = j.
Proof.
  intros H j Hj. destruct (is_perm_spec f n H) as [Hl [Hnd Hin]].
  unfold inverse. rewrite Hl, nth_map_seq by assumption.
  destruct (index_of j f) as [i|] eqn:E.
  - apply index_of_Some in E. split.
    + rewrite <- Hl. apply nth_error_Some. congruence.
    + now apply nth_error_nth.
  - exfalso. apply index_of_None in E. apply E, Hin, Hj.
Qed.

Lemma inverse_Forall_lt f n : is_perm_b f n = true -> Forall (fun i => i < n) (inverse f).
Proof.
  intros H. destruct (is_perm_spec f n H) as [Hl _]. apply Forall_forall. intros x Hx.
  destruct (In_nth _ _ 0 Hx) as [j [Hj E]]. rewrite inverse_length, Hl in Hj.
  rewrite <- E. apply (inverse_spec f n H j Hj).
Qed.

(** * place *)

Lemma place_map {A} (d : A) f n a : is_perm_b f n = true -> length a = n ->
  place f a = map (fun j => nth (nth j (inverse f) 0) a d) (seq 0 n).
Proof.
  intros H Ha. destruct (is_perm_spec f n H) as [Hl _]. unfold place.
  rewrite (gather_nth d) by (rewrite Ha; apply inverse_Forall_lt, H).
  pose proof (as_map (inverse f) 0) as E. rewrite inverse_length, Hl in E.
  rewrite E at 1. rewrite map_map. reflexivity.
Qed.

Lemma place_length {A} f n (a : list A) : is_perm_b f n = true -> length a = n ->
  length (place f a) = n.
Proof.
  intros H Ha. destruct a as [|d a].
  - cbn in Ha. subst n. destruct (is_perm_spec f 0 H) as [Hl _].
    destruct f; [reflexivity|discriminate].
  - rewrite (place_map d f n) by assumption. now rewrite map_length, seq_length.
Qed.

Lemma nth_place {A} (d : A) f n a i : is_perm_b f n = true -> length a = n -> i < n ->
  nth (nth i f 0) (place f a) d = nth i a d.
Proof.
  intros H Ha Hi. rewrite (place_map d f n) by assumption.
  rewrite nth_map_seq by (apply perm_nth_lt; assumption).
  rewrite (nth_inverse f n H i Hi). reflexivity.
Qed.

Lemma nth_place_inv {A} (d : A) f n a j : is_perm_b f n = true -> length a = n -> j < n ->
  nth j (place f a) d = nth (nth j (inverse f) 0) a d.
Proof.
  intros H Ha Hj. rewrite (place_map d f n) by assumption. now rewrite nth_map_seq.
Qed.

Lemma gather_place {A} f n (a : list A) : is_perm_b f n = true -> length a = n ->
  gather f (place f a) = a.
Proof.
  intros H Ha. destruct a as [|d a'] eqn:Ea.
  - cbn in Ha. subst n. destruct (is_perm_spec f 0 H) as [Hl _].
    destruct f; [reflexivity|discriminate].
  - rewrite <- Ea in *. clear Ea a'.
    destruct (is_perm_spec f n H) as [Hl _].
    rewrite (gather_nth d) by (rewrite (place_length f n) by assumption; apply perm_Forall_lt, H).
    pose proof (as_map f 0) as E. rewrite Hl in E. rewrite E at 1. rewrite map_map.
    apply (map_seq_eq _ n a d Ha). intros i Hi.
    apply (nth_place d f n); assumption.
Qed.

Lemma place_gather {A} f n (a : list A) : is_perm_b f n = true -> length a = n ->
  place f (gather f a) = a.
Proof.
  intros H Ha. destruct a as [|d a'] eqn:Ea.
  - rewrite gather_nil. unfold place. apply gather_nil.
  - rewrite <- Ea in *. clear Ea a'.
    destruct (is_perm_spec f n H) as [Hl _].
    assert (Hf : Forall (fun j => j < length a) f) by (rewrite Ha; apply perm_Forall_lt, H).
    assert (Hg : length (gather f a) = n) by (rewrite gather_length by exact Hf; exact Hl).
    rewrite (place_map d f n) by assumption.
    apply (map_seq_eq _ n a d Ha). intros j Hj.
    destruct (inverse_spec f n H j) as [Hlt Hinv]; [lia|].
    rewrite (gather_nth d) by exact Hf.
    rewrite (nth_indep _ d (nth 0 a d)) by (rewrite map_length; lia).
    rewrite (map_nth (fun j => nth j a d) f 0). rewrite Hinv. reflexivity.
Qed.

(** * the two halves of an interleaving *)

Lemma interleaving_spec f1 f2 n1 n2 : interleaving f1 f2 n1 n2 = true ->
  length f1 = n1 /\ length f2 = n2 /\ is_perm_b (f1 ++ f2) (n1 + n2) = true.
Proof.
  unfold interleaving. intros H. apply andb_prop in H as [H1 H2]. apply Nat.eqb_eq in H1.
  destruct (is_perm_spec _ _ H2) as [Hl _]. rewrite app_length in Hl.
  repeat split; [exact H1|lia|exact H2].
Qed.

Lemma app_half_l (f1 f2 : list nat) :
  map (fun i => nth i (f1 ++ f2) 0) (seq 0 (length f1)) = f1.
Proof.
  apply (map_seq_eq _ _ f1 0 eq_refl). intros i Hi. now apply app_nth1.
Qed.

Lemma app_half_r (f1 f2 : list nat) :
  map (fun i => nth i (f1 ++ f2) 0) (seq (length f1) (length f2)) = f2.
Proof.
  assert (E2 : map (fun i => nth (length f1 + i) (f1 ++ f2) 0) (seq 0 (length f2)) = f2).
  { apply (map_seq_eq _ _ f2 0 eq_refl). intros i _. apply app_nth2_plus. }
  etransitivity; [|exact E2]. clear E2.
  generalize (length f2) as n. generalize (length f1) as k. intros k n.
  assert (G : forall s, map (fun i => nth i (f1 ++ f2) 0) (seq (k + s) n)
                       = map (fun i => nth (k + i) (f1 ++ f2) 0) (seq s n)).
  { induction n as [|n IH]; intros s; [reflexivity|]. cbn [seq map]. f_equal.
    rewrite <- Nat.add_succ_r. apply IH. }
  specialize (G 0). now rewrite Nat.add_0_r in G.
Qed.
