(** C02, sentence 2: generic lemmas about the expression evaluator [eval] of Engine.v.

    - Section Pres: one instance, one invariant (what the nested calculations preserve,
      the evaluation of an expression preserves).
    - Section Sim2: two instances over two state types related by [R], in "Ok-only"
      form: when the left run returns [Ok a] and ends in a [good] state, the right run
      returns [Ok a] too and the final states are related.  [good] may only be lost
      along a run, never regained ([Hmono]); nothing is claimed when the left run fails
      or ends in a state that is not [good]. *)
From Coq Require Import ZArith List Bool Arith Lia.
From Verif Require Import Base Cal Tables Period Np Group Param Engine.
Import ListNotations.
Open Scope nat_scope.

Section Pres.
  Context {S : Type}.
  Variable sy : sys.
  Variable pp : popu.
  Variable rec : S -> nat -> period -> S * res val.
  Variable P : S -> Prop.
  Hypothesis Hrec : forall s w q, P s -> P (fst (rec s w q)).

  Lemma sum_calc_pres : forall subs w acc s, P s -> P (fst (sum_calc rec s w subs acc)).
  Proof.
    induction subs as [|q r IH]; intros w acc s HP; cbn; [auto|].
    pose proof (Hrec s w q HP) as H1.
    destruct (rec s w q) as [s1 r1]; cbn [fst] in *.
    destruct r1 as [a|e]; cbn [fst]; auto.
  Qed.

  Lemma calc_add_pres : forall w x q s, P s -> P (fst (calc_add rec s w x q)).
  Proof.
    intros w x q s HP. unfold calc_add.
    destruct (_ <? _)%Z; cbn [fst]; auto.
    destruct (unit_eqb _ _); cbn [fst]; auto.
    destruct (negb _); cbn [fst]; auto.
    destruct (subperiods _ _); cbn [fst]; auto.
    now apply sum_calc_pres.
  Qed.

  Lemma calc_divide_pres : forall w x q s, P s -> P (fst (calc_divide rec s w x q)).
  Proof.
    intros w x q s HP. unfold calc_divide.
    destruct (_ || _); cbn [fst]; auto.
    destruct (negb (dated_unit (v_unit x))); cbn [fst]; auto.
    destruct (_ || _); cbn [fst]; auto.
    destruct (divide_period _ _) as [cp|]; cbn [fst]; auto.
    destruct (divide_denominator _ _); cbn [fst]; auto.
    pose proof (Hrec s w cp HP) as H1.
    destruct (rec s w cp) as [s1 r1]; cbn [fst] in *.
    destruct r1; cbn [fst]; auto.
  Qed.

  Lemma call_pres : forall c w q o s, P s -> P (fst (call rec sy c s w q o)).
  Proof.
    intros c w q o s HP. unfold call.
    destruct (nth_error (vars sy) w) as [x|]; cbn [fst]; auto.
    destruct (negb _); cbn [fst]; auto.
    destruct o; cbn [fst]; auto.
    - now apply calc_add_pres.
    - pose proof (calc_divide_pres w x q s HP) as H1.
      destruct (calc_divide rec s w x q) as [s1 r1]; cbn [fst] in *.
      destruct r1 as [[a d]|]; cbn [fst]; auto.
  Qed.

  Lemma eval_pres : forall e c p s, P s -> P (fst (eval rec sy pp c s p e)).
  Proof.
    induction e as [z|w pt o|op a IHa b IHb|a IHa|cn IHc a IHa b IHb|k|g role a IHa|role|role a IHa|f|k];
      intros c p s HP; cbn [eval]; auto.
    - destruct (apply_ptrans pt p); cbn [fst]; auto. now apply call_pres.
    - pose proof (IHa c p s HP) as H1.
      destruct (eval rec sy pp c s p a) as [s1 r1]; cbn [fst] in *.
      destruct r1 as [x|]; cbn [fst]; auto.
      pose proof (IHb c p s1 H1) as H2.
      destruct (eval rec sy pp c s1 p b) as [s2 r2]; cbn [fst] in *.
      destruct r2; cbn [fst]; auto.
    - pose proof (IHa c p s HP) as H1.
      destruct (eval rec sy pp c s p a) as [s1 r1]; cbn [fst] in *. auto.
    - pose proof (IHc c p s HP) as H1.
      destruct (eval rec sy pp c s p cn) as [s1 r1]; cbn [fst] in *.
      destruct r1 as [x|]; cbn [fst]; auto.
      pose proof (IHa c p s1 H1) as H2.
      destruct (eval rec sy pp c s1 p a) as [s2 r2]; cbn [fst] in *.
      destruct r2 as [y|]; cbn [fst]; auto.
      pose proof (IHb c p s2 H2) as H3.
      destruct (eval rec sy pp c s2 p b) as [s3 r3]; cbn [fst] in *.
      destruct r3; cbn [fst]; auto.
    - destruct (nth_error (params sy) k); cbn [fst]; auto. destruct (get_at _ _); cbn [fst]; auto.
    - pose proof (IHa EPerson p s HP) as H1.
      destruct (eval rec sy pp EPerson s p a) as [s1 r1]; cbn [fst] in *. auto.
    - pose proof (IHa EGroup p s HP) as H1.
      destruct (eval rec sy pp EGroup s p a) as [s1 r1]; cbn [fst] in *. auto.
    - destruct (existsb _ _); cbn [fst]; auto.
  Qed.
End Pres.

Lemma rmap_ok {A B} (f : A -> B) (r : res A) b : rmap f r = Ok b -> exists a, r = Ok a /\ b = f a.
Proof. destruct r as [a|e]; cbn; intro H; [|discriminate]. inversion H. eauto. Qed.

Lemma bind_ok {A B} (r : res A) (f : A -> res B) b : bind r f = Ok b -> exists a, r = Ok a /\ f a = Ok b.
Proof. destruct r as [a|e]; cbn; intro H; [|discriminate]. eauto. Qed.

Section Sim2.
  Context {S1 S2 : Type}.
  Variable sy : sys.
  Variable pp : popu.
  Variable recl : S1 -> nat -> period -> S1 * res val.
  Variable recr : S2 -> nat -> period -> S2 * res val.
  Variable R : S1 -> S2 -> Prop.
  Variable PL : S1 -> Prop.
  Variable good : S1 -> Prop.
  Hypothesis HPL : forall s w q, PL s -> PL (fst (recl s w q)).
  Hypothesis Hmono : forall s w q, PL s -> good (fst (recl s w q)) -> good s.
  Hypothesis HRPL : forall s t, R s t -> PL s.
  Hypothesis Hrec : forall s t w q s' a, R s t -> recl s w q = (s', Ok a) -> good s' ->
    exists t', recr t w q = (t', Ok a) /\ R s' t'.

  Let Q (s0 s : S1) : Prop := PL s /\ (good s -> good s0).

  Lemma Q_rec s0 : forall s w q, Q s0 s -> Q s0 (fst (recl s w q)).
  Proof. intros s w q [H1 H2]. split; [now apply HPL|]. intro H. apply H2. eapply Hmono; eauto. Qed.

  Lemma Q_refl s : PL s -> Q s s.
  Proof. intro H. split; auto. Qed.

  Lemma sum_calc_mono subs w acc s : PL s ->
    PL (fst (sum_calc recl s w subs acc)) /\ (good (fst (sum_calc recl s w subs acc)) -> good s).
  Proof. intro H. exact (sum_calc_pres recl (Q s) (Q_rec s) subs w acc s (Q_refl s H)). Qed.

  Lemma eval_mono e c p s : PL s ->
    PL (fst (eval recl sy pp c s p e)) /\ (good (fst (eval recl sy pp c s p e)) -> good s).
  Proof. intro H. exact (eval_pres sy pp recl (Q s) (Q_rec s) e c p s (Q_refl s H)). Qed.

  Lemma sum_calc_sim2 : forall subs w acc s t s' a, R s t ->
    sum_calc recl s w subs acc = (s', Ok a) -> good s' ->
    exists t', sum_calc recr t w subs acc = (t', Ok a) /\ R s' t'.
  Proof.
    induction subs as [|q r IH]; intros w acc s t s' a HR H Hg; cbn [sum_calc] in *.
    - inversion H; subst. eauto.
    - destruct (recl s w q) as [s1 r1] eqn:E1.
      destruct r1 as [a1|e]; [|discriminate].
      assert (HP1 : PL s1).
      { pose proof (HPL s w q (HRPL s t HR)) as X. now rewrite E1 in X. }
      assert (Hg1 : good s1).
      { destruct (sum_calc_mono r w (Some match acc with Some b => zip2 Z.add b a1 | None => a1 end) s1 HP1)
          as [_ X]. apply X. now rewrite H. }
      destruct (Hrec s t w q s1 a1 HR E1 Hg1) as (t1 & E2 & HR1). rewrite E2.
      eapply IH; eauto.
  Qed.

  Lemma calc_add_sim2 : forall w x q s t s' a, R s t ->
    calc_add recl s w x q = (s', Ok a) -> good s' ->
    exists t', calc_add recr t w x q = (t', Ok a) /\ R s' t'.
  Proof.
    intros w x q s t s' a HR H Hg. unfold calc_add in *.
    destruct (_ <? _)%Z; [discriminate|].
    destruct (unit_eqb _ _); [discriminate|].
    destruct (negb _); [discriminate|].
    destruct (subperiods _ _); [|discriminate].
    eapply sum_calc_sim2; eauto.
  Qed.

  Lemma calc_divide_sim2 : forall w x q s t s' a, R s t ->
    calc_divide recl s w x q = (s', Ok a) -> good s' ->
    exists t', calc_divide recr t w x q = (t', Ok a) /\ R s' t'.
  Proof.
    intros w x q s t s' a HR H Hg. unfold calc_divide in *.
    destruct (_ || _); [discriminate|].
    destruct (negb (dated_unit (v_unit x))); [discriminate|].
    destruct (_ || _); [discriminate|].
    destruct (divide_period _ _) as [cp|]; [|discriminate].
    destruct (divide_denominator _ _) as [dn|]; [|discriminate].
    destruct (recl s w cp) as [s1 r1] eqn:E1.
    destruct r1 as [a1|]; [|discriminate]. inversion H; subst s' a.
    destruct (Hrec s t w cp s1 a1 HR E1 Hg) as (t1 & E2 & HR1). rewrite E2. eauto.
  Qed.

  Lemma call_sim2 : forall c w q o s t s' a, R s t ->
    call recl sy c s w q o = (s', Ok a) -> good s' ->
    exists t', call recr sy c t w q o = (t', Ok a) /\ R s' t'.
  Proof.
    intros c w q o s t s' a HR H Hg. unfold call in *.
    destruct (nth_error (vars sy) w) as [x|]; [|discriminate].
    destruct (negb _); [discriminate|].
    destruct o; try discriminate.
    - eapply Hrec; eauto.
    - eapply calc_add_sim2; eauto.
    - destruct (calc_divide recl s w x q) as [s1 r1] eqn:E1.
      destruct r1 as [[a1 d]|]; [|discriminate]. inversion H; subst s' a.
      destruct (calc_divide_sim2 w x q s t s1 (a1, d) HR E1 Hg) as (t1 & E2 & HR1).
      rewrite E2. eauto.
  Qed.

  Lemma eval_sim2 : forall e c p s t s' a, R s t ->
    eval recl sy pp c s p e = (s', Ok a) -> good s' ->
    exists t', eval recr sy pp c t p e = (t', Ok a) /\ R s' t'.
  Proof.
    induction e as [z|w pt o|op a IHa b IHb|a IHa|cn IHc a IHa b IHb|k|g role a IHa|role|role a IHa|f|k];
      intros c p s t s' r HR H Hg; cbn [eval] in *.
    - inversion H; subst. eauto.
    - destruct (apply_ptrans pt p); [|discriminate]. eapply call_sim2; eauto.
    - destruct (eval recl sy pp c s p a) as [s1 r1] eqn:E1.
      destruct r1 as [x|]; [|discriminate].
      destruct (eval recl sy pp c s1 p b) as [s2 r2] eqn:E2.
      destruct r2 as [y|]; [|discriminate]. inversion H; subst s' r.
      assert (HP1 : PL s1).
      { pose proof (proj1 (eval_mono a c p s (HRPL s t HR))) as X. now rewrite E1 in X. }
      assert (Hg1 : good s1).
      { apply (proj2 (eval_mono b c p s1 HP1)). now rewrite E2. }
      destruct (IHa c p s t s1 x HR E1 Hg1) as (t1 & F1 & HR1). rewrite F1.
      destruct (IHb c p s1 t1 s2 y HR1 E2 Hg) as (t2 & F2 & HR2). rewrite F2. eauto.
    - destruct (eval recl sy pp c s p a) as [s1 r1] eqn:E1.
      inversion H; subst s'. destruct (rmap_ok _ _ _ H2) as (x & -> & ->).
      destruct (IHa c p s t s1 x HR E1 Hg) as (t1 & F1 & HR1). rewrite F1. eauto.
    - destruct (eval recl sy pp c s p cn) as [s1 r1] eqn:E1.
      destruct r1 as [x|]; [|discriminate].
      destruct (eval recl sy pp c s1 p a) as [s2 r2] eqn:E2.
      destruct r2 as [y|]; [|discriminate].
      destruct (eval recl sy pp c s2 p b) as [s3 r3] eqn:E3.
      destruct r3 as [z|]; [|discriminate]. inversion H; subst s' r.
      assert (HP1 : PL s1).
      { pose proof (proj1 (eval_mono cn c p s (HRPL s t HR))) as X. now rewrite E1 in X. }
      assert (HP2 : PL s2).
      { pose proof (proj1 (eval_mono a c p s1 HP1)) as X. now rewrite E2 in X. }
      assert (Hg2 : good s2).
      { apply (proj2 (eval_mono b c p s2 HP2)). now rewrite E3. }
      assert (Hg1 : good s1).
      { apply (proj2 (eval_mono a c p s1 HP1)). now rewrite E2. }
      destruct (IHc c p s t s1 x HR E1 Hg1) as (t1 & F1 & HR1). rewrite F1.
      destruct (IHa c p s1 t1 s2 y HR1 E2 Hg2) as (t2 & F2 & HR2). rewrite F2.
      destruct (IHb c p s2 t2 s3 z HR2 E3 Hg) as (t3 & F3 & HR3). rewrite F3. eauto.
    - destruct (nth_error (params sy) k); [|discriminate].
      destruct (get_at _ _); [|discriminate]. inversion H; subst. eauto.
    - destruct (eval recl sy pp EPerson s p a) as [s1 r1] eqn:E1.
      inversion H; subst s'. destruct (bind_ok _ _ _ H2) as (x & -> & Hx).
      destruct (IHa EPerson p s t s1 x HR E1 Hg) as (t1 & F1 & HR1). rewrite F1.
      cbn [bind]. rewrite Hx. eauto.
    - inversion H; subst. eauto.
    - destruct (eval recl sy pp EGroup s p a) as [s1 r1] eqn:E1.
      inversion H; subst s'. destruct (bind_ok _ _ _ H2) as (x & -> & Hx).
      destruct (IHa EGroup p s t s1 x HR E1 Hg) as (t1 & F1 & HR1). rewrite F1.
      cbn [bind]. rewrite Hx. eauto.
    - inversion H; subst. eauto.
    - destruct (existsb _ _); [discriminate|]. inversion H; subst. eauto.
  Qed.
End Sim2.
