(** C02, sentence 2: a syntactic check [sys_okb B sy] that implies [sys_good sy B]
    (EngineC02Closure.v).  Accepted fragment:
    - no eternal variable;
    - period transformations PSame, PThisYear, PFirstMonth, PFirstDay, PFirstWeekday,
      PLastMonth, PLastYear, PN2, PFixed q with [gpb B q], POffset k in the formula's own
      unit with k >= -24 (month), k >= -2 (year), k >= 0 (day, weekday, week);
    - options: plain for every dependency; ADD and DIVIDE when the dependency's unit is
      year, month, day or weekday.
    Not covered: PFirstWeek, negative day/week offsets, ADD / DIVIDE of week variables (the
    ISO week of a date may start in the previous year; they need a finer year budget). *)
From Coq Require Import ZArith List Bool Arith Lia ZifyBool.
From Verif Require Import Base Cal Tables Period PeriodSpec CalProofs PeriodProofs PeriodMoreProofs
  Np Group Param Engine EngineProofs EngineC02Gen EngineC02SpiralProofs EngineC02Justify
  EngineC02Ordinary EngineC02Closure.
Import ListNotations.
Ltac Zify.zify_post_hook ::= Z.to_euclidean_division_equations.
Local Open Scope Z_scope.

Lemma gpb_intro n u y m d sz : u <> Eternity -> valid (y, m, d) -> n < y ->
  (u = Month \/ u = Year -> d <= 28) -> gpb n (u, (y, m, d), sz) = true.
Proof.
  intros Hu Hv Hy Hd. unfold gpb, year_of; unfold p_unit, p_start; cbn [fst snd].
  assert (E1 : unit_eqb u Eternity = false) by (destruct u; auto; congruence).
  assert (E2 : (n <? y) = true) by (apply Z.ltb_lt; lia).
  unfold valid in Hv. rewrite E1, Hv, E2. cbn [negb andb].
  destruct u; auto; apply Z.leb_le; auto.
Qed.

Lemma gpb_elim n u y m d sz : gpb n (u, (y, m, d), sz) = true ->
  u <> Eternity /\ valid (y, m, d) /\ n < y /\ (u = Month \/ u = Year -> d <= 28).
Proof.
  unfold gpb, year_of; unfold p_unit, p_start; cbn [fst snd]. intro H.
  apply andb_true_iff in H as [H H4]. apply andb_true_iff in H as [H H3].
  apply andb_true_iff in H as [H1 H2]. apply Z.ltb_lt in H3.
  repeat split; auto.
  - intro; subst u; discriminate.
  - intros [->| ->]; now apply Z.leb_le.
Qed.

Lemma valid_day1 y m : 1 <= y -> 1 <= m <= 12 -> valid (y, m, 1).
Proof. intros Hy Hm. apply valid_iff. pose proof (dim'_pos (leap y) m). lia. Qed.

Lemma year_mono y1 m1 d1 y2 m2 d2 : valid (y1, m1, d1) -> valid (y2, m2, d2) ->
  ord (y1, m1, d1) <= ord (y2, m2, d2) -> y1 <= y2.
Proof.
  intros V1 V2 H. apply (ord_le_iff _ _ V1 V2) in H. unfold date_leb in H. lia.
Qed.

(** * Transformations that stay in the same year *)

Lemma gpb_this_year n q cp : gpb n q = true -> this_year q = Ok cp -> gpb n cp = true.
Proof.
  destruct q as [[u [[y m] d]] sz]. rewrite this_year_spec. intros H E. inversion E; subst cp.
  apply gpb_elim in H as (Hu & Hv & Hy & Hd). apply valid_iff in Hv.
  apply gpb_intro; [discriminate|apply valid_day1; lia|lia|intros; lia].
Qed.

Lemma gpb_first_month n q cp : gpb n q = true -> first_month q = Ok cp -> gpb n cp = true.
Proof.
  destruct q as [[u [[y m] d]] sz]. rewrite first_month_spec. intros H E. inversion E; subst cp.
  apply gpb_elim in H as (Hu & Hv & Hy & Hd). apply valid_iff in Hv.
  apply gpb_intro; [discriminate|apply valid_day1; lia|lia|intros; lia].
Qed.

Lemma gpb_first_day n q cp : gpb n q = true -> first_day q = Ok cp -> gpb n cp = true.
Proof.
  destruct q as [[u [[y m] d]] sz]. rewrite first_day_spec. intros H E. inversion E; subst cp.
  apply gpb_elim in H as (Hu & Hv & Hy & Hd).
  apply gpb_intro; [discriminate|exact Hv|lia|intros [X|X]; discriminate].
Qed.

Lemma gpb_first_weekday n q cp : gpb n q = true -> first_weekday q = Ok cp -> gpb n cp = true.
Proof.
  destruct q as [[u [[y m] d]] sz]. rewrite first_weekday_spec. intros H E. inversion E; subst cp.
  apply gpb_elim in H as (Hu & Hv & Hy & Hd).
  apply gpb_intro; [discriminate|exact Hv|lia|intros [X|X]; discriminate].
Qed.

(** * Period transformations *)

Definition pt_okb (B : Z) (u : unit_t) (pt : ptrans) : bool :=
  match pt with
  | PSame | PThisYear | PFirstMonth | PFirstDay | PFirstWeekday | PLastMonth | PLastYear | PN2 => true
  | PFixed q => gpb B q
  | POffset k =>
      match u with
      | Month => -24 <=? k
      | Year => -2 <=? k
      | Day | Weekday | Week => 0 <=? k
      | Eternity => false
      end
  | _ => false
  end.

Lemma gpb_add_days n u y m d sz k : (u = Day \/ u = Weekday \/ u = Week) -> 0 <= k ->
  gpb n (u, (y, m, d), sz) = true -> gpb n (u, add_days (y, m, d) k, sz) = true.
Proof.
  intros Hu Hk H. apply gpb_elim in H as (Hne & Hv & Hy & Hd).
  pose proof (ord_pos _ Hv) as Hp.
  destruct (add_days_ord (y, m, d) k Hv ltac:(lia)) as [V E].
  destruct (add_days (y, m, d) k) as [[y' m'] d'].
  pose proof (year_mono y m d y' m' d' Hv V ltac:(lia)).
  apply gpb_intro; [exact Hne|exact V|lia|]. intros [->| ->]; destruct Hu as [X|[X|X]]; discriminate.
Qed.

Lemma gpb_add_months n n' u y m d sz k : (u = Month \/ u = Year) -> -24 <= k -> n' + 2 <= n ->
  0 <= n' -> gpb n (u, (y, m, d), sz) = true -> gpb n' (u, add_months (y, m, d) k, sz) = true.
Proof.
  intros Hu Hk Hn Hn' H. apply gpb_elim in H as (Hne & Hv & Hy & Hd).
  specialize (Hd Hu). pose proof Hv as Hv'. apply valid_iff in Hv'.
  rewrite add_months_small by lia.
  apply gpb_intro; [exact Hne| |lia|intros; lia].
  apply valid_iff.
  pose proof (dim'_pos (leap ((y * 12 + (m - 1) + k) / 12)) ((y * 12 + (m - 1) + k) mod 12 + 1)). lia.
Qed.

Lemma pt_ok_sound B u pt n p q : pt_okb B u pt = true -> 0 <= n <= B ->
  gpb (n + 2) p = true -> p_unit p = u -> apply_ptrans pt p = Ok q -> gpb n q = true.
Proof.
  intros Hok Hn Hp Hu Hq.
  assert (Hp0 : gpb n p = true) by (eapply gpb_mono; [|exact Hp]; lia).
  destruct pt; cbn [pt_okb apply_ptrans] in *; try discriminate.
  - inversion Hq; subst; auto.
  - eapply gpb_this_year; eauto.
  - eapply gpb_first_month; eauto.
  - eapply gpb_first_day; eauto.
  - eapply gpb_first_weekday; eauto.
  - destruct p as [[u' [[y m] d]] sz]. apply gpb_elim in Hp as (Hne & Hv & Hy & Hd).
    apply valid_iff in Hv. rewrite last_month_spec in Hq by lia. inversion Hq; subst q.
    destruct (m =? 1) eqn:E; apply gpb_intro; try discriminate; try (apply valid_day1; lia);
      try lia; intros; lia.
  - destruct p as [[u' [[y m] d]] sz]. apply gpb_elim in Hp as (Hne & Hv & Hy & Hd).
    apply valid_iff in Hv. rewrite last_year_spec in Hq. inversion Hq; subst q.
    apply gpb_intro; [discriminate|apply valid_day1; lia|lia|intros; lia].
  - destruct p as [[u' [[y m] d]] sz]. apply gpb_elim in Hp as (Hne & Hv & Hy & Hd).
    apply valid_iff in Hv. rewrite n_2_spec in Hq. inversion Hq; subst q.
    apply gpb_intro; [discriminate|apply valid_day1; lia|lia|intros; lia].
  - (* POffset *)
    destruct p as [[u' [[y m] d]] sz]. unfold p_unit in Hu; cbn [fst snd] in Hu. subst u'.
    unfold offset, instant_offset in Hq.
    assert (Hinj : forall a b : period, Ok a = Ok b -> a = b) by (intros a b X; congruence).
    destruct u; try discriminate; cbn [bind] in Hq; apply Hinj in Hq; subst q; apply Z.leb_le in Hok.
    all: try (apply gpb_add_days; [auto|lia|exact Hp0]).
    all: try (eapply gpb_add_months; [auto| | | |exact Hp]; lia).
    all: unfold add_years; eapply gpb_add_months; [auto| | | |exact Hp]; lia.
  - inversion Hq; subst q. eapply gpb_mono; [|exact Hok]. lia.
Qed.

(** * ADD and DIVIDE *)

Definition opt_okb (du : unit_t) (o : opt) : bool :=
  match o with
  | OAdd | ODivide => match du with Year | Month | Day | Weekday => true | _ => false end
  | _ => true
  end.

Lemma divide_ok n x q cp : opt_okb (v_unit x) ODivide = true -> gpb n q = true ->
  divide_period x q = Ok cp -> gpb n cp = true.
Proof.
  unfold divide_period, opt_okb. intros Hu Hq H.
  destruct (v_unit x); try discriminate.
  - eapply gpb_first_weekday; eauto.
  - eapply gpb_first_day; eauto.
  - eapply gpb_first_month; eauto.
  - eapply gpb_this_year; eauto.
Qed.

Lemma months_forward n u k y m sz i : (u = Month \/ u = Year) -> 0 <= k -> 0 <= i ->
  1 <= y -> 1 <= m <= 12 -> n < y -> gpb n (u, add_months (y, m, 1) (k * i), sz) = true.
Proof.
  intros Hu Hk Hi Hy Hm Hn. rewrite add_months_small by lia.
  apply gpb_intro; [destruct Hu; subst; discriminate| |nia|intros; lia].
  apply valid_iff.
  pose proof (dim'_pos (leap ((y * 12 + (m - 1) + k * i) / 12)) ((y * 12 + (m - 1) + k * i) mod 12 + 1)).
  nia.
Qed.

Lemma add_ok n du q subs : opt_okb du OAdd = true -> gpb n q = true ->
  subperiods q du = Ok subs -> Forall (fun s => gpb n s = true) subs.
Proof.
  unfold opt_okb. intros Hu Hq H.
  destruct q as [[u [[y m] d]] sz]. pose proof Hq as Hq'.
  apply gpb_elim in Hq' as (Hne & Hv & Hy & Hd). pose proof Hv as Hv'. apply valid_iff in Hv'.
  unfold subperiods in H. destruct (_ <? _); [discriminate|].
  destruct du; try discriminate.
  - (* Weekday *)
    rewrite first_weekday_spec in H. cbn [bind] in H.
    destruct (size_in_weekdays _) as [cnt|]; [|discriminate]. cbn [bind] in H.
    rewrite gen_days_ok in H by auto. inversion H; subst subs.
    apply Forall_forall. intros s Hs. apply in_map_iff in Hs as (i & <- & Hi). apply zrange_in in Hi.
    unfold mk_days. apply gpb_add_days; [auto|lia|].
    apply gpb_intro; auto; [discriminate|intros [X|X]; discriminate].
  - (* Day *)
    rewrite first_day_spec in H. cbn [bind] in H.
    destruct (size_in_days _) as [cnt|]; [|discriminate]. cbn [bind] in H.
    rewrite gen_days_ok in H by auto. inversion H; subst subs.
    apply Forall_forall. intros s Hs. apply in_map_iff in Hs as (i & <- & Hi). apply zrange_in in Hi.
    unfold mk_days. apply gpb_add_days; [auto|lia|].
    apply gpb_intro; auto; [discriminate|intros [X|X]; discriminate].
  - (* Month *)
    rewrite first_month_spec in H. cbn [bind] in H.
    destruct (size_in_months _) as [cnt|]; [|discriminate]. cbn [bind] in H.
    rewrite gen_months_ok in H. inversion H; subst subs.
    apply Forall_forall. intros s Hs. apply in_map_iff in Hs as (i & <- & Hi). apply zrange_in in Hi.
    unfold mk_months. apply months_forward; auto; lia.
  - (* Year *)
    rewrite this_year_spec in H. cbn [bind] in H.
    rewrite gen_years_ok in H. inversion H; subst subs.
    apply Forall_forall. intros s Hs. apply in_map_iff in Hs as (i & <- & Hi). apply zrange_in in Hi.
    unfold mk_months. apply months_forward; auto; lia.
Qed.

(** * The check *)

Definition dep_okb (B : Z) (sy : sys) (u : unit_t) (w : nat) (pt : ptrans) (o : opt) : bool :=
  pt_okb B u pt &&
  match nth_error (vars sy) w with Some x => opt_okb (v_unit x) o | None => true end.

Fixpoint expr_okb (B : Z) (sy : sys) (u : unit_t) (e : expr) : bool :=
  match e with
  | EDep w pt o => dep_okb B sy u w pt o
  | EBin _ a b => expr_okb B sy u a && expr_okb B sy u b
  | ENot a => expr_okb B sy u a
  | EWhere c a b => expr_okb B sy u c && expr_okb B sy u a && expr_okb B sy u b
  | EAgg _ _ a => expr_okb B sy u a
  | EProject _ a => expr_okb B sy u a
  | _ => true
  end.

Definition sys_okb (B : Z) (sy : sys) : bool :=
  forallb (fun x => negb (unit_eqb (v_unit x) Eternity)
                    && forallb (fun de => expr_okb B sy (v_unit x) (snd de)) (v_formulas x)) (vars sy).

Lemma expr_ok_sound B sy n p : 0 <= n <= B -> gpb (n + 2) p = true -> forall e,
  expr_okb B sy (p_unit p) e = true -> expr_good sy (fun q => gpb n q = true) p e.
Proof.
  intros Hn Hp.
  induction e as [z|w pt o|op a IHa b IHb|a IHa|cn IHc a IHa b IHb|k|g role a IHa|role|role a IHa|f|k];
    intro H; cbn [expr_okb expr_good] in *; auto.
  - unfold dep_okb in H. apply andb_true_iff in H as [H1 H2].
    intros q x Hq Ex. rewrite Ex in H2.
    pose proof (pt_ok_sound B (p_unit p) pt n p q H1 Hn Hp eq_refl Hq) as Hg.
    destruct o; auto.
    + intros subs Hs. eapply add_ok; eauto.
    + intros cp Hc. eapply divide_ok; eauto.
  - apply andb_true_iff in H as [H1 H2]. auto.
  - apply andb_true_iff in H as [H H3]. apply andb_true_iff in H as [H1 H2]. auto.
Qed.

Theorem sys_okb_sound B sy : sys_okb B sy = true -> sys_good sy B.
Proof.
  intro H. unfold sys_okb in H. rewrite forallb_forall in H. split.
  - unfold no_eternal. apply forallb_forall. intros x Hx. specialize (H x Hx).
    now apply andb_true_iff in H as [H _].
  - intros v x d e n p Hn Ex Hin Hp Hu Hs.
    specialize (H x (nth_error_In _ _ Ex)). apply andb_true_iff in H as [_ H].
    rewrite forallb_forall in H. specialize (H (d, e) Hin). cbn [snd] in H.
    apply (expr_ok_sound B); auto. now rewrite Hu.
Qed.

Theorem retained_justified_syntactic : forall sy pp f s0 v p,
  sys_okb (2 * Z.of_nat f) sy = true ->
  stack s0 = [] -> invalid s0 = [] -> ordinary_keys sy s0 = true ->
  gpb (2 * Z.of_nat f + 2) p = true ->
  let s1 := fst (calc (S f) sy pp s0 v p) in
  forall k a, lookup k (cache s1) = Some a -> lookup k (cache s0) <> Some a ->
  exists W : list (key * val),
    (forall k' a', lookup k' W = Some a' -> k' <> k /\ lookup k' (cache s1) = Some a') /\
    snd (calc (S f) sy pp {| cache := W; stack := []; invalid := [] |} (fst k) (snd k)) = Ok a.
Proof.
  intros sy pp f s0 v p H. exact (retained_justified_closed sy pp f s0 v p (sys_okb_sound _ _ H)).
Qed.
