(** The regenerated routing of an input (coq/gen/GuardsInput.v) is the one of the set-input
    model coq/model/SetInput.v: case analysis over units, flags and the size test. *)
From Coq Require Import ZArith QArith List Bool Lia.
From Verif Require Import Base Cal Tables Period SetInput GuardsTypes GuardsInput GuardsInputSem.
Import ListNotations.
Open Scope Z_scope.

Ltac input_size_cases :=
  rewrite ?Z.gtb_ltb, ?Z.geb_leb;
  repeat match goal with
         | |- context [Z.eqb ?a ?b] => destruct (Z.eqb_spec a b)
         | |- context [Z.ltb ?a ?b] => destruct (Z.ltb_spec a b)
         | |- context [Z.leb ?a ?b] => destruct (Z.leb_spec a b)
         end;
  cbn; try reflexivity; try lia.

Lemma gen_holder_eternal_is_model : forall v, gen_holder_eternal (v_def v) = eternal v.
Proof. intros v. unfold eternal. destruct (v_def v); reflexivity. Qed.

Lemma gen_to_array_rejects_bool : forall len count,
  gen_to_array_rejects len count = negb (len =? count).
Proof. intros. unfold gen_to_array_rejects. destruct (len =? count); reflexivity. Qed.

Lemma gen_holder_set_guard_table : forall du ru size,
  gen_holder_set_guard (gen_holder_eternal du) false du ru size
  = if unit_eqb du Eternity then SGOk
    else if negb (unit_eqb du ru) || (1 <? size) then SGMismatch else SGOk.
Proof. intros du ru size. unfold gen_holder_set_guard. destruct du, ru; cbn; input_size_cases. Qed.

Lemma gen_holder_set_guard_no_period : forall du ru size,
  gen_holder_set_guard (gen_holder_eternal du) true du ru size
  = if unit_eqb du Eternity then SGOk else SGValueError.
Proof. intros du ru size. destruct du; reflexivity. Qed.

Lemma set_is_source : forall v n h p a, _set v n h p a = src_set v n h p a.
Proof.
  intros v n h p a. unfold _set, src_set, to_array, eternal.
  rewrite gen_to_array_rejects_bool, gen_holder_set_guard_table.
  destruct (Z.of_nat (length a) =? n); [|reflexivity]. cbn [negb bind].
  destruct (unit_eqb (v_def v) Eternity); [reflexivity|].
  destruct (negb (unit_eqb (v_def v) (p_unit p)) || (1 <? p_size p)); reflexivity.
Qed.

Lemma gen_holder_set_input_table : forall ru et neutral rule,
  gen_holder_set_input ru et neutral rule
  = if unit_eqb ru Eternity && negb et then SOMismatch
    else if neutral then SOIgnored else if rule then SORule else SOSet.
Proof. intros ru [] [] []; destruct ru; reflexivity. Qed.

Lemma holder_set_input_is_source : forall v n h P a,
  holder_set_input v n h P a = src_holder_set_input v n h P a.
Proof.
  intros v n h P a. unfold holder_set_input, src_holder_set_input, has_rule.
  rewrite gen_holder_set_input_table, gen_holder_eternal_is_model.
  destruct (unit_eqb (p_unit P) Eternity && negb (eternal v)); [reflexivity|].
  destruct (v_rule v); reflexivity.
Qed.

Lemma gen_sim_set_input_ignored_bool : forall a b, gen_sim_set_input_ignored a b = a && b.
Proof. intros [] []; reflexivity. Qed.

Lemma sim_set_input_is_source : forall v n h P a, unit_eqb (p_unit P) Eternity = false ->
  sim_set_input v n h P a = src_sim_set_input v n h P a.
Proof.
  intros v n h P a HP. unfold sim_set_input, src_sim_set_input.
  rewrite gen_sim_set_input_ignored_bool.
  destruct (v_end v) as [e|]; [|reflexivity]. rewrite HP. cbn [andb].
  destruct (date_ltb e (p_start P)); reflexivity.
Qed.
