(** C18 - a failed calculation leaves the simulation consistent and reusable.

    Part 1 (every rule system, spiralling ones included): the evaluation stack after a
    request is the stack before it, and a request made on an empty stack leaves nothing
    marked invalid - whatever the answer (value or error).
    Part 2 (ranked systems): a calculation only adds cache entries; a calculation that
    fails adds no entry for its own variable nor for any variable ranked above it (the
    frames that are on the stack when the error is raised); every entry is a meaning.
    Part 3: answers do not depend on failed requests; once a raise switch is turned off the
    same requests return the meaning in the system without the switch. *)
From Coq Require Import ZArith List Bool Arith Lia.
From Verif Require Import Base Cal Tables Period Np Group Param Engine EngineProofs.
Import ListNotations.
Open Scope nat_scope.

(** * Part 1: what the generic evaluator preserves *)

Section Pres.
  Context {S : Type}.
  Variable rec : S -> nat -> period -> S * res val.
  Variable sy : sys.
  Variable pp : popu.
  Variable P : S -> Prop.
  Hypothesis Hrec : forall s w q, P s -> P (fst (rec s w q)).

  Lemma sum_calc_pres : forall subs w acc s, P s -> P (fst (sum_calc rec s w subs acc)).
  Proof.
    induction subs as [|q r IH]; intros w acc s Hs; cbn; auto.
    pose proof (Hrec s w q Hs) as H1. destruct (rec s w q) as [s1 r1]. cbn [fst] in H1.
    destruct r1; cbn [fst]; auto.
  Qed.

  Lemma calc_add_pres : forall w x q s, P s -> P (fst (calc_add rec s w x q)).
  Proof.
    intros w x q s Hs. unfold calc_add.
    destruct (_ <? _)%Z; cbn [fst]; auto.
    destruct (unit_eqb _ _); cbn [fst]; auto.
    destruct (negb _); cbn [fst]; auto.
    destruct (subperiods _ _); cbn [fst]; auto.
    now apply sum_calc_pres.
  Qed.

  Lemma calc_divide_pres : forall w x q s, P s -> P (fst (calc_divide rec s w x q)).
  Proof.
    intros w x q s Hs. unfold calc_divide.
    destruct (_ || _); cbn [fst]; auto.
    destruct (negb (dated_unit (v_unit x))); cbn [fst]; auto.
    destruct (_ || _); cbn [fst]; auto.
    destruct (divide_period _ _) as [cp|]; cbn [fst]; auto.
    destruct (divide_denominator _ _); cbn [fst]; auto.
    pose proof (Hrec s w cp Hs) as H1. destruct (rec s w cp) as [s1 r1]. cbn [fst] in H1.
    destruct r1; cbn [fst]; auto.
  Qed.

  Lemma call_pres : forall c w q o s, P s -> P (fst (call rec sy c s w q o)).
  Proof.
    intros c w q o s Hs. unfold call.
    destruct (nth_error (vars sy) w) as [x|]; cbn [fst]; auto.
    destruct (negb _); cbn [fst]; auto.
    destruct o; cbn [fst]; auto.
    - now apply calc_add_pres.
    - pose proof (calc_divide_pres w x q s Hs) as H1.
      destruct (calc_divide rec s w x q) as [s1 r1]. cbn [fst] in H1.
      destruct r1 as [[a d]|]; cbn [fst]; auto.
  Qed.

  Lemma eval_pres : forall e c s p, P s -> P (fst (eval rec sy pp c s p e)).
  Proof.
    induction e as [z|w pt o|op a IHa b IHb|a IHa|cn IHc a IHa b IHb|k|g role a IHa|role|role a IHa|f|k];
      intros c s p Hs; cbn [eval]; auto.
    - destruct (apply_ptrans pt p); cbn [fst]; auto. now apply call_pres.
    - pose proof (IHa c s p Hs) as H1. destruct (eval rec sy pp c s p a) as [s1 r1]. cbn [fst] in H1.
      destruct r1; cbn [fst]; auto.
      pose proof (IHb c s1 p H1) as H2. destruct (eval rec sy pp c s1 p b) as [s2 r2]. cbn [fst] in H2.
      destruct r2; cbn [fst]; auto.
    - pose proof (IHa c s p Hs) as H1. destruct (eval rec sy pp c s p a) as [s1 r1]. auto.
    - pose proof (IHc c s p Hs) as H1. destruct (eval rec sy pp c s p cn) as [s1 r1]. cbn [fst] in H1.
      destruct r1; cbn [fst]; auto.
      pose proof (IHa c s1 p H1) as H2. destruct (eval rec sy pp c s1 p a) as [s2 r2]. cbn [fst] in H2.
      destruct r2; cbn [fst]; auto.
      pose proof (IHb c s2 p H2) as H3. destruct (eval rec sy pp c s2 p b) as [s3 r3]. cbn [fst] in H3.
      destruct r3; cbn [fst]; auto.
    - destruct (nth_error (params sy) k); cbn [fst]; auto. destruct (get_at _ _); cbn [fst]; auto.
    - pose proof (IHa EPerson s p Hs) as H1. destruct (eval rec sy pp EPerson s p a) as [s1 r1]. auto.
    - pose proof (IHa EGroup s p Hs) as H1. destruct (eval rec sy pp EGroup s p a) as [s1 r1]. auto.
    - destruct (existsb _ _); cbn [fst]; auto.
  Qed.
End Pres.

(** * The stack is restored by every request, in every rule system *)

Lemma purge_stack sy s : stack (purge sy s) = stack s.
Proof. unfold purge. destruct (stack s) eqn:E; cbn [stack]; auto. Qed.

Lemma put_in_cache_stack x v p a s : stack (put_in_cache x v p a s) = stack s.
Proof. unfold put_in_cache. destruct (v_nostore x); reflexivity. Qed.

Lemma calc_body_stack rec sy pp s0 v p :
  (forall s w q, stack (fst (rec s w q)) = stack s) ->
  stack (fst (calc_body rec sy pp s0 v p)) = stack s0.
Proof.
  intro Hrec. unfold calc_body.
  destruct (nth_error (vars sy) v) as [x|]; cbn [fst]; auto.
  destruct (check_consistency x p); cbn [fst]; auto.
  destruct (get_array pp x s0 v p).
  { cbn [fst]. destruct (existsb _ _); reflexivity. }
  destruct (existsb _ _); cbn [fst]; auto.
  destruct (Nat.leb _ _); cbn [fst]; auto.
  destruct (formula_at x p) as [[e|]|]; cbn [fst]; auto.
  - assert (H : stack (fst (eval rec sy pp (v_ent x) s0 p e)) = stack s0).
    { apply (eval_pres rec sy pp (fun s' => stack s' = stack s0)); auto.
      intros s w q Hs. now rewrite Hrec. }
    destruct (eval rec sy pp (v_ent x) s0 p e) as [s1 r]. cbn [fst] in *.
    destruct r; cbn [fst]; auto. now rewrite put_in_cache_stack.
  - now rewrite put_in_cache_stack.
Qed.

(** (E2) after every [calculate], successful or not, the stack equals the stack before *)
Theorem calc_stack : forall fuel sy pp s v p, stack (fst (calc fuel sy pp s v p)) = stack s.
Proof.
  induction fuel as [|f IH]; intros sy pp s v p; cbn [calc]; auto.
  pose proof (calc_body_stack (calc f sy pp) sy pp (push (v, p) s) v p (fun s' w q => IH sy pp s' w q)) as H.
  destruct (calc_body (calc f sy pp) sy pp (push (v, p) s) v p) as [s1 r]. cbn [fst] in *.
  rewrite purge_stack. unfold pop; cbn [stack]. rewrite H. reflexivity.
Qed.

(** ... and a request made from the top level leaves nothing marked invalid: the purge
    runs in the "finally", whatever the answer *)
Theorem calc_top_purged : forall fuel sy pp s v p, stack s = [] -> invalid s = [] ->
  invalid (fst (calc fuel sy pp s v p)) = [].
Proof.
  intros [|f] sy pp s v p Hs Hi; cbn [calc]; auto.
  pose proof (calc_body_stack (calc f sy pp) sy pp (push (v, p) s) v p
                (fun s' w q => calc_stack f sy pp s' w q)) as H.
  destruct (calc_body (calc f sy pp) sy pp (push (v, p) s) v p) as [s1 r]. cbn [fst] in *.
  unfold purge. assert (E : stack (pop s1) = []) by (unfold pop; cbn [stack]; rewrite H; exact Hs).
  rewrite E. reflexivity.
Qed.

Definition quiet (s : st) : Prop := stack s = [] /\ invalid s = [].

Lemma calc_quiet fuel sy pp s v p : quiet s -> quiet (fst (calc fuel sy pp s v p)).
Proof. intros [H1 H2]. split; [now rewrite calc_stack|now apply calc_top_purged]. Qed.

Theorem step_quiet : forall fuel sy pp s r, quiet s -> quiet (fst (step fuel sy pp s r)).
Proof.
  intros fuel sy pp s r Hq. destruct r as [v p|v p|v p|v p a|v p|v p|k on]; cbn [step].
  - pose proof (calc_quiet fuel sy pp s v p Hq) as H. destruct (calc fuel sy pp s v p). exact H.
  - destruct (nth_error (vars sy) v) as [x|]; [|exact Hq].
    pose proof (calc_add_pres (calc fuel sy pp) quiet (fun s' w q => calc_quiet fuel sy pp s' w q) v x p s Hq) as H.
    destruct (calc_add (calc fuel sy pp) s v x p). exact H.
  - destruct (nth_error (vars sy) v) as [x|]; [|exact Hq].
    pose proof (calc_divide_pres (calc fuel sy pp) quiet (fun s' w q => calc_quiet fuel sy pp s' w q) v x p s Hq) as H.
    destruct (calc_divide (calc fuel sy pp) s v x p). exact H.
  - unfold set_input. destruct (nth_error (vars sy) v) as [x|]; [|exact Hq].
    repeat match goal with |- context [if ?c then _ else _] => destruct c end; exact Hq.
  - destruct (nth_error (vars sy) v); [|exact Hq]. destruct p; exact Hq.
  - destruct (nth_error (vars sy) v); exact Hq.
  - exact Hq.
Qed.

Theorem run_quiet : forall rs fuel sy pp s, quiet s -> quiet (fst (run fuel sy pp s rs)).
Proof.
  induction rs as [|r rs IH]; intros fuel sy pp s Hq; cbn [run]; auto.
  pose proof (step_quiet fuel sy pp s r Hq) as H1. destruct (step fuel sy pp s r) as [s1 a]. cbn [fst] in H1.
  pose proof (IH fuel (sys_after sy r) pp s1 H1) as H2.
  destruct (run fuel (sys_after sy r) pp s1 rs) as [s2 l]. exact H2.
Qed.

(** * Part 2: ranked systems - the cache only grows, and a failed frame stores nothing *)

(** every entry of [s] is still there, with the same content, in [s'] *)
Definition grows (s s' : st) : Prop :=
  forall k a, lookup k (cache s) = Some a -> lookup k (cache s') = Some a.

(** no entry of a variable of number [>= n] was added, removed or changed *)
Definition same_from (n : nat) (s s' : st) : Prop :=
  forall k, n <= fst k -> lookup k (cache s') = lookup k (cache s).

Lemma grows_refl s : grows s s.
Proof. intros k a H. exact H. Qed.

Lemma grows_trans s1 s2 s3 : grows s1 s2 -> grows s2 s3 -> grows s1 s3.
Proof. intros H1 H2 k a H. auto. Qed.

Lemma same_from_refl n s : same_from n s s.
Proof. intros k H. reflexivity. Qed.

Lemma same_from_trans n s1 s2 s3 : same_from n s1 s2 -> same_from n s2 s3 -> same_from n s1 s3.
Proof. intros H1 H2 k H. rewrite H2, H1; auto. Qed.

Lemma same_from_le n m s s' : n <= m -> same_from n s s' -> same_from m s s'.
Proof. intros Hnm H k Hk. apply H. lia. Qed.

Lemma grows_cache s s' t t' : cache t = cache s -> cache t' = cache s' -> grows s s' -> grows t t'.
Proof. intros E1 E2 H k a. rewrite E1, E2. apply H. Qed.

Lemma same_from_cache n s s' t t' :
  cache t = cache s -> cache t' = cache s' -> same_from n s s' -> same_from n t t'.
Proof. intros E1 E2 H k Hk. rewrite E1, E2. now apply H. Qed.

(** storing at a key that had no entry *)
Lemma grows_put_in_cache x v p a s0 s1 :
  lookup (v, norm x p) (cache s0) = None -> grows s0 s1 -> grows s0 (put_in_cache x v p a s1).
Proof.
  intros Hnone Hg k b Hk. unfold put_in_cache. destruct (v_nostore x); [now apply Hg|].
  rewrite lookup_put. destruct (key_eqb k (v, norm x p)) eqn:E; [|now apply Hg].
  apply key_eqb_iff in E. subst k. congruence.
Qed.

Lemma same_from_put_in_cache x v p a s0 s1 :
  same_from v s0 s1 -> same_from (S v) s0 (put_in_cache x v p a s1).
Proof.
  intros Hs k Hk. unfold put_in_cache. destruct (v_nostore x); [apply Hs; lia|].
  rewrite lookup_put. destruct (key_eqb k (v, norm x p)) eqn:E; [|apply Hs; lia].
  apply key_eqb_iff in E. subst k. cbn [fst] in Hk. lia.
Qed.

Section Frame.
  Variable sy : sys.
  Variable pp : popu.
  Variable inp : inputs.
  Hypothesis Hranked : ranked sy = true.
  Hypothesis Hloops : 1 <= max_loops sy.

  Local Notation Inv := (Inv sy pp inp).

  (** One calculation, at any depth of the evaluation: with [s' ] the state after
      [calculate v p] from [s],
      - every entry of [s] is in [s'] unchanged;
      - entries of variables ranked above [v] (the frames below on the stack) are untouched;
      - if the answer is an error, no entry of [v] itself was added either. *)
  Theorem calc_frame : forall v fuel p s,
    v < fuel -> Inv s -> above v (stack s) ->
    grows s (fst (calc fuel sy pp s v p))
    /\ same_from (S v) s (fst (calc fuel sy pp s v p))
    /\ (forall e, snd (calc fuel sy pp s v p) = Err e -> same_from v s (fst (calc fuel sy pp s v p))).
  Proof.
    induction v as [v IH] using lt_wf_ind. intros fuel p s Hf HI Hab.
    destruct fuel as [|f]; [lia|]. cbn [calc].
    set (s0 := push (v, p) s).
    assert (HI0 : Inv s0) by exact HI.
    assert (Hst0 : stack s0 = (v, p) :: stack s) by reflexivity.
    assert (Hbody : grows s0 (fst (calc_body (calc f sy pp) sy pp s0 v p))
                    /\ same_from (S v) s0 (fst (calc_body (calc f sy pp) sy pp s0 v p))
                    /\ (forall e, snd (calc_body (calc f sy pp) sy pp s0 v p) = Err e ->
                          same_from v s0 (fst (calc_body (calc f sy pp) sy pp s0 v p)))
                    /\ invalid (fst (calc_body (calc f sy pp) sy pp s0 v p)) = []).
    { destruct HI0 as (I1 & I2 & I3).
      assert (Hg0 : grows s0 s0) by apply grows_refl.
      assert (Hs0 : forall n, same_from n s0 s0) by (intro; apply same_from_refl).
      unfold calc_body.
      destruct (nth_error (vars sy) v) as [x|] eqn:Ex; [|cbn [fst snd]; repeat split; auto].
      destruct (check_consistency x p) as [u|e] eqn:Ec; [|cbn [fst snd]; repeat split; auto].
      unfold get_array. destruct (v_neutral x) eqn:En.
      { rewrite I3. cbn [existsb fst snd]. repeat split; auto. }
      destruct (lookup (v, norm x p) (cache s0)) as [a|] eqn:El.
      { rewrite I3. cbn [existsb fst snd]. repeat split; auto. }
      rewrite Hst0. cbn [tl]. rewrite (prev_nil sy Hloops v (stack s) Hab). cbn [existsb length].
      destruct (Nat.leb_spec (max_loops sy) 0) as [Hl|_]; [lia|].
      destruct (formula_at x p) as [[e|]|er] eqn:Ef; [| |cbn [fst snd]; repeat split; auto].
      - pose (P := fun s' : st => (Inv s' /\ stack s' = (v, p) :: stack s)
                                  /\ grows s0 s' /\ same_from v s0 s').
        assert (Hrec : forall s' w q, w < v -> P s' ->
                  P (fst (calc f sy pp s' w q)) /\
                  snd (calc f sy pp s' w q) = snd (den v sy pp inp tt w q)).
        { intros s' w q Hw [[HIs Hss] [Hg Hsf]].
          assert (Habw : above w (stack s')).
          { rewrite Hss. intros k [<-|Hk]; cbn [fst]; [lia|]. specialize (Hab k Hk). lia. }
          destruct (calc_refines sy pp inp Hranked Hloops w f q s' ltac:(lia) HIs Habw) as (R1 & R2 & R3).
          destruct (IH w Hw f q s' ltac:(lia) HIs Habw) as (F1 & F2 & _).
          split; [split; [split; [exact R2|congruence]|split]|].
          - eapply grows_trans; eauto.
          - eapply same_from_trans; eauto. eapply same_from_le; [|exact F2]. lia.
          - rewrite R1. unfold D. apply den_fuel; auto; lia. }
        assert (Hd : deps_ok (length (vars sy)) v e = true).
        { eapply formula_at_deps; eauto. now apply ranked_nth. }
        assert (HP0 : P s0).
        { split; [split; [repeat split; auto|exact Hst0]|split; [apply grows_refl|apply same_from_refl]]. }
        destruct (eval_sim sy pp (den v sy pp inp) (calc f sy pp) P v Hrec e (v_ent x) s0 p Hd HP0)
          as [[[HI1 Hs1] [Hg1 Hsf1]] _].
        destruct (eval (calc f sy pp) sy pp (v_ent x) s0 p e) as [s1 r1]. cbn [fst snd] in *.
        assert (Hinv1 : invalid s1 = []) by (destruct HI1 as (_ & _ & ?); auto).
        destruct r1 as [a|er]; cbn [fst snd].
        + repeat split.
          * now apply grows_put_in_cache.
          * now apply same_from_put_in_cache.
          * intros e0 H0. discriminate.
          * unfold put_in_cache. destruct (v_nostore x); auto.
        + repeat split; auto. eapply same_from_le; [|exact Hsf1]. lia.
      - cbn [fst snd]. repeat split.
        + apply grows_put_in_cache; auto using grows_refl.
        + apply same_from_put_in_cache. apply same_from_refl.
        + intros e0 H0. discriminate.
        + unfold put_in_cache. destruct (v_nostore x); auto. }
    destruct Hbody as (B1 & B2 & B3 & B4).
    destruct (calc_body (calc f sy pp) sy pp s0 v p) as [s1 r]. cbn [fst snd] in *.
    assert (Hpop : invalid (pop s1) = []) by exact B4.
    destruct (purge_clean sy (pop s1) Hpop) as (C1 & _ & _).
    assert (E0 : cache s = cache s0) by reflexivity.
    assert (E1 : cache (purge sy (pop s1)) = cache s1) by (rewrite C1; reflexivity).
    repeat split.
    - eapply grows_cache; eauto.
    - eapply same_from_cache; eauto.
    - intros e He. eapply same_from_cache; eauto.
  Qed.
End Frame.

(** * Top-level requests on ranked systems *)

Section TopFrame.
  Variable sy : sys.
  Variable pp : popu.
  Variable inp : inputs.
  Hypothesis Hranked : ranked sy = true.
  Hypothesis Hloops : 1 <= max_loops sy.

  Local Notation Top := (Top sy pp inp).
  Local Notation F := (enough_fuel sy).

  Lemma calc_unknown s v p : nth_error (vars sy) v = None -> invalid s = [] ->
    cache (fst (calc F sy pp s v p)) = cache s /\ snd (calc F sy pp s v p) = Err ENotFound.
  Proof.
    intros Hn Hi. unfold enough_fuel. cbn [calc]. unfold calc_body. rewrite Hn. cbn [fst snd].
    assert (Hpop : invalid (pop (push (v, p) s)) = []) by exact Hi.
    destruct (purge_clean sy (pop (push (v, p) s)) Hpop) as (C1 & _ & _).
    split; [rewrite C1; reflexivity|reflexivity].
  Qed.

  (** A top-level [calculate] request, whatever its answer: the state afterwards is again a
      state between two requests whose cache holds the inputs and otherwise only meanings,
      and nothing that was in the cache has been lost or changed. *)
  Theorem calc_top_grows : forall s v p, Top s ->
    Top (fst (calc F sy pp s v p)) /\ grows s (fst (calc F sy pp s v p)).
  Proof.
    intros s v p HT.
    destruct (calculate_refines_meaning sy pp inp Hranked Hloops s v p HT) as [_ HT'].
    split; [exact HT'|].
    destruct HT as [HI Hs].
    destruct (Nat.lt_ge_cases v (length (vars sy))) as [Hv|Hv].
    - assert (Hab : above v (stack s)) by (rewrite Hs; intros k []).
      exact (proj1 (calc_frame sy pp inp Hranked Hloops v F p s (enough_fuel_gt sy Hloops v Hv) HI Hab)).
    - apply nth_error_None in Hv.
      destruct (calc_unknown s v p Hv) as [C _]; [destruct HI as (_ & _ & ?); auto|].
      intros k a Hk. now rewrite C.
  Qed.

  (** ... and when the answer is an error, no entry was recorded for the requested variable
      (nor for any variable ranked above it). *)
  Theorem calc_top_failed : forall s v p e, Top s ->
    snd (calc F sy pp s v p) = Err e -> same_from v s (fst (calc F sy pp s v p)).
  Proof.
    intros s v p e [HI Hs] He.
    destruct (Nat.lt_ge_cases v (length (vars sy))) as [Hv|Hv].
    - assert (Hab : above v (stack s)) by (rewrite Hs; intros k []).
      destruct (calc_frame sy pp inp Hranked Hloops v F p s (enough_fuel_gt sy Hloops v Hv) HI Hab) as (_ & _ & H3).
      eauto.
    - apply nth_error_None in Hv.
      destruct (calc_unknown s v p Hv) as [C _]; [destruct HI as (_ & _ & ?); auto|].
      intros k Hk. now rewrite C.
  Qed.

  Definition TopG (s0 s : st) : Prop := Top s /\ grows s0 s.

  Lemma calc_topG s0 : forall s w q, w < length (vars sy) -> TopG s0 s ->
    TopG s0 (fst (calc F sy pp s w q))
    /\ snd (calc F sy pp s w q) = snd (sem_rec sy pp inp tt w q).
  Proof.
    intros s w q Hw [HT Hg].
    destruct (calc_top sy pp inp Hranked Hloops s w q Hw HT) as [H1 H2].
    destruct (calc_top_grows s w q HT) as [_ H3].
    split; [split; [exact H1|eapply grows_trans; eauto]|exact H2].
  Qed.

  (** calculate, calculate_add, calculate_divide: failed or not, [Top] is kept and the cache only grows *)
  Theorem step_top_grows : forall s r, is_calc_request r = true -> Top s ->
    Top (fst (step F sy pp s r)) /\ grows s (fst (step F sy pp s r)).
  Proof.
    intros s r Hr HT. destruct r as [v p|v p|v p|v p a|v p|v p|k on]; try discriminate; cbn [step].
    - pose proof (calc_top_grows s v p HT) as H. destruct (calc F sy pp s v p). exact H.
    - destruct (nth_error (vars sy) v) as [x|] eqn:Ex; [|split; [exact HT|apply grows_refl]].
      assert (Hv : v < length (vars sy)) by (apply nth_error_Some; congruence).
      destruct (calc_add_sim (sem_rec sy pp inp) (calc F sy pp) (TopG s) (length (vars sy))
                  (calc_topG s) v x p s Hv (conj HT (grows_refl s))) as [H1 _].
      destruct (calc_add (calc F sy pp) s v x p) as [s1 a]. exact H1.
    - destruct (nth_error (vars sy) v) as [x|] eqn:Ex; [|split; [exact HT|apply grows_refl]].
      assert (Hv : v < length (vars sy)) by (apply nth_error_Some; congruence).
      destruct (calc_divide_sim (sem_rec sy pp inp) (calc F sy pp) (TopG s) (length (vars sy))
                  (calc_topG s) v x p s Hv (conj HT (grows_refl s))) as [H1 _].
      destruct (calc_divide (calc F sy pp) s v x p) as [s1 a]. exact H1.
  Qed.

  (** * Later requests do not see the failed one *)

  Lemma forallb_app_calc rs1 rs2 :
    forallb is_calc_request (rs1 ++ rs2) = true ->
    forallb is_calc_request rs1 = true /\ forallb is_calc_request rs2 = true.
  Proof. rewrite forallb_app. apply andb_true_iff. Qed.

  (** In any sequence of calculation requests, removing one request (one that failed, for
      instance) leaves every other answer as it was: each answer is the meaning of its own
      request on the inputs. *)
  Theorem removed_request_unseen : forall rs1 r rs2 s,
    forallb is_calc_request (rs1 ++ r :: rs2) = true -> Top s ->
    snd (run F sy pp s (rs1 ++ r :: rs2))
      = map (sem_answer sy pp inp) rs1 ++ sem_answer sy pp inp r :: map (sem_answer sy pp inp) rs2
    /\ snd (run F sy pp s (rs1 ++ rs2))
      = map (sem_answer sy pp inp) rs1 ++ map (sem_answer sy pp inp) rs2.
  Proof.
    intros rs1 r rs2 s Hrs HT.
    assert (Hrs' : forallb is_calc_request (rs1 ++ rs2) = true).
    { apply forallb_app_calc in Hrs as [H1 H2]. cbn [forallb] in H2. apply andb_true_iff in H2 as [_ H2].
      rewrite forallb_app, H1, H2. reflexivity. }
    destruct (run_refines_meaning sy pp inp Hranked Hloops _ s Hrs HT) as [H1 _].
    destruct (run_refines_meaning sy pp inp Hranked Hloops _ s Hrs' HT) as [H2 _].
    rewrite H1, H2, !map_app. cbn [map]. auto.
  Qed.

  (** The same fact seen from the state: a request [r], failed or not, leaves a state from
      which every later sequence of requests gets the answers it gets from the state before. *)
  Theorem failed_request_transparent : forall s r rs,
    is_calc_request r = true -> forallb is_calc_request rs = true -> Top s ->
    snd (run F sy pp (fst (step F sy pp s r)) rs) = snd (run F sy pp s rs)
    /\ snd (run F sy pp s rs) = map (sem_answer sy pp inp) rs.
  Proof.
    intros s r rs Hr Hrs HT.
    destruct (step_refines_meaning sy pp inp Hranked Hloops s r Hr HT) as [_ HT1].
    destruct (run_refines_meaning sy pp inp Hranked Hloops rs s Hrs HT) as [H1 _].
    destruct (run_refines_meaning sy pp inp Hranked Hloops rs _ Hrs HT1) as [H2 _].
    split; congruence.
  Qed.
End TopFrame.

(** * Part 3: removing the cause *)

(** A successful evaluation stays successful, with the same value, when the dependencies
    it reads stay successful with the same values and no further raise switch is on. *)
Section Transfer.
  Variable sy1 sy2 : sys.
  Variable pp : popu.
  Variable rec1 rec2 : unit -> nat -> period -> unit * res val.
  Hypothesis Hvars : vars sy2 = vars sy1.
  Hypothesis Hparams : params sy2 = params sy1.
  Hypothesis Hsw : forall k, existsb (Nat.eqb k) (switches sy2) = true ->
                             existsb (Nat.eqb k) (switches sy1) = true.
  Hypothesis Hrec : forall w q a, snd (rec1 tt w q) = Ok a -> snd (rec2 tt w q) = Ok a.

  Lemma sum_calc_ok : forall subs w acc a,
    snd (sum_calc rec1 tt w subs acc) = Ok a -> snd (sum_calc rec2 tt w subs acc) = Ok a.
  Proof.
    induction subs as [|q r IH]; intros w acc a H; cbn [sum_calc] in *; auto.
    destruct (rec1 tt w q) as [[] r1] eqn:E1. destruct r1 as [b|]; [|discriminate].
    pose proof (Hrec w q b) as H1. rewrite E1 in H1. specialize (H1 eq_refl).
    destruct (rec2 tt w q) as [[] r2]. cbn [snd] in H1. subst r2. now apply IH.
  Qed.

  Lemma calc_add_ok : forall w x q a,
    snd (calc_add rec1 tt w x q) = Ok a -> snd (calc_add rec2 tt w x q) = Ok a.
  Proof.
    intros w x q a. unfold calc_add.
    destruct (_ <? _)%Z; [discriminate|].
    destruct (unit_eqb _ _); [discriminate|].
    destruct (negb _); [discriminate|].
    destruct (subperiods _ _); [|discriminate].
    apply sum_calc_ok.
  Qed.

  Lemma calc_divide_ok : forall w x q ad,
    snd (calc_divide rec1 tt w x q) = Ok ad -> snd (calc_divide rec2 tt w x q) = Ok ad.
  Proof.
    intros w x q ad. unfold calc_divide.
    destruct (_ || _); [discriminate|].
    destruct (negb (dated_unit (v_unit x))); [discriminate|].
    destruct (_ || _); [discriminate|].
    destruct (divide_period _ _) as [cp|]; [|discriminate].
    destruct (divide_denominator _ _); [|discriminate].
    destruct (rec1 tt w cp) as [[] r1] eqn:E1. destruct r1 as [b|]; [|discriminate].
    pose proof (Hrec w cp b) as H1. rewrite E1 in H1. specialize (H1 eq_refl).
    destruct (rec2 tt w cp) as [[] r2]. cbn [snd] in H1. subst r2. auto.
  Qed.

  Lemma call_ok : forall c w q o a,
    snd (call rec1 sy1 c tt w q o) = Ok a -> snd (call rec2 sy2 c tt w q o) = Ok a.
  Proof.
    intros c w q o a. unfold call. rewrite Hvars.
    destruct (nth_error (vars sy1) w) as [x|]; [|discriminate].
    destruct (negb _); [discriminate|].
    destruct o; try discriminate.
    - apply Hrec.
    - apply calc_add_ok.
    - destruct (calc_divide rec1 tt w x q) as [[] r1] eqn:E1. destruct r1 as [[b d]|]; [|discriminate].
      pose proof (calc_divide_ok w x q (b, d)) as H1. rewrite E1 in H1. specialize (H1 eq_refl).
      destruct (calc_divide rec2 tt w x q) as [[] r2]. cbn [snd] in H1. subst r2. auto.
  Qed.

  Lemma eval_ok : forall e c p a,
    snd (eval rec1 sy1 pp c tt p e) = Ok a -> snd (eval rec2 sy2 pp c tt p e) = Ok a.
  Proof.
    induction e as [z|w pt o|op a IHa b IHb|a IHa|cn IHc a IHa b IHb|k|g role a IHa|role|role a IHa|f|k];
      intros c p res H; cbn [eval] in *; auto.
    - destruct (apply_ptrans pt p); [|discriminate]. now apply call_ok.
    - destruct (eval rec1 sy1 pp c tt p a) as [[] r1] eqn:E1. destruct r1 as [x|]; [|discriminate].
      pose proof (IHa c p x) as H1. rewrite E1 in H1. specialize (H1 eq_refl).
      destruct (eval rec2 sy2 pp c tt p a) as [[] r1']. cbn [snd] in H1. subst r1'.
      destruct (eval rec1 sy1 pp c tt p b) as [[] r2] eqn:E2. destruct r2 as [y|]; [|discriminate].
      pose proof (IHb c p y) as H2. rewrite E2 in H2. specialize (H2 eq_refl).
      destruct (eval rec2 sy2 pp c tt p b) as [[] r2']. cbn [snd] in H2. subst r2'. exact H.
    - destruct (eval rec1 sy1 pp c tt p a) as [[] r1] eqn:E1. destruct r1 as [x|]; [|discriminate].
      pose proof (IHa c p x) as H1. rewrite E1 in H1. specialize (H1 eq_refl).
      destruct (eval rec2 sy2 pp c tt p a) as [[] r1']. cbn [snd] in H1. subst r1'. exact H.
    - destruct (eval rec1 sy1 pp c tt p cn) as [[] r1] eqn:E1. destruct r1 as [x|]; [|discriminate].
      pose proof (IHc c p x) as H1. rewrite E1 in H1. specialize (H1 eq_refl).
      destruct (eval rec2 sy2 pp c tt p cn) as [[] r1']. cbn [snd] in H1. subst r1'.
      destruct (eval rec1 sy1 pp c tt p a) as [[] r2] eqn:E2. destruct r2 as [y|]; [|discriminate].
      pose proof (IHa c p y) as H2. rewrite E2 in H2. specialize (H2 eq_refl).
      destruct (eval rec2 sy2 pp c tt p a) as [[] r2']. cbn [snd] in H2. subst r2'.
      destruct (eval rec1 sy1 pp c tt p b) as [[] r3] eqn:E3. destruct r3 as [z|]; [|discriminate].
      pose proof (IHb c p z) as H3. rewrite E3 in H3. specialize (H3 eq_refl).
      destruct (eval rec2 sy2 pp c tt p b) as [[] r3']. cbn [snd] in H3. subst r3'. exact H.
    - rewrite Hparams. exact H.
    - destruct (eval rec1 sy1 pp EPerson tt p a) as [[] r1] eqn:E1. destruct r1 as [x|]; [|discriminate].
      pose proof (IHa EPerson p x) as H1. rewrite E1 in H1. specialize (H1 eq_refl).
      destruct (eval rec2 sy2 pp EPerson tt p a) as [[] r1']. cbn [snd] in H1. subst r1'. exact H.
    - destruct (eval rec1 sy1 pp EGroup tt p a) as [[] r1] eqn:E1. destruct r1 as [x|]; [|discriminate].
      pose proof (IHa EGroup p x) as H1. rewrite E1 in H1. specialize (H1 eq_refl).
      destruct (eval rec2 sy2 pp EGroup tt p a) as [[] r1']. cbn [snd] in H1. subst r1'. exact H.
    - destruct (existsb (Nat.eqb k) (switches sy1)) eqn:E1; [discriminate|].
      destruct (existsb (Nat.eqb k) (switches sy2)) eqn:E2; [|exact H].
      apply Hsw in E2. congruence.
  Qed.
End Transfer.

(** The meaning of a rule system: what succeeds with some raise switches on succeeds, with
    the same value, with fewer switches on. *)
Lemma den_fewer_switches : forall sy1 sy2 pp inp,
  vars sy2 = vars sy1 -> params sy2 = params sy1 ->
  (forall k, existsb (Nat.eqb k) (switches sy2) = true -> existsb (Nat.eqb k) (switches sy1) = true) ->
  forall fuel v p a, snd (den fuel sy1 pp inp tt v p) = Ok a -> snd (den fuel sy2 pp inp tt v p) = Ok a.
Proof.
  intros sy1 sy2 pp inp Hv Hp Hsw. induction fuel as [|f IH]; intros v p a H; cbn [den] in *; [discriminate|].
  rewrite Hv. destruct (nth_error (vars sy1) v) as [x|]; [|discriminate].
  destruct (check_consistency x p); [|discriminate].
  destruct (v_neutral x); auto.
  destruct (lookup _ inp); auto.
  destruct (formula_at x p) as [[e|]|]; auto.
  rewrite let_pair_snd in *.
  destruct (snd (eval (den f sy1 pp inp) sy1 pp (v_ent x) tt p e)) as [b|] eqn:E1; [|discriminate].
  rewrite (eval_ok sy1 sy2 pp (den f sy1 pp inp) (den f sy2 pp inp) Hv Hp Hsw IH e (v_ent x) p b E1).
  exact H.
Qed.

Lemma switch_off_fewer sy k : forall j,
  existsb (Nat.eqb j) (switches (set_switch sy k false)) = true -> existsb (Nat.eqb j) (switches sy) = true.
Proof.
  intros j H. cbn [set_switch switches] in H. apply existsb_exists in H as (i & Hi & Hji).
  apply filter_In in Hi as [Hi _]. apply existsb_exists. eauto.
Qed.

(** Switching a raise off under a live cache is sound: every cached value was computed
    without meeting a raise, so it is also the meaning in the system without the switch. *)
Theorem Top_switch_off : forall sy pp inp k s, Top sy pp inp s -> Top (set_switch sy k false) pp inp s.
Proof.
  intros sy pp inp k s [(I1 & I2 & I3) Hs]. split; [|exact Hs]. repeat split; auto.
  intros v x q a Ex Hn Hl p Hq Hc.
  change (vars (set_switch sy k false)) with (vars sy) in Ex.
  specialize (I1 v x q a Ex Hn Hl p Hq Hc). unfold D in *.
  apply (den_fewer_switches sy (set_switch sy k false) pp inp eq_refl eq_refl (switch_off_fewer sy k)).
  exact I1.
Qed.

Lemma run_app_calc : forall rs1 fuel sy pp s rest, forallb is_calc_request rs1 = true ->
  run fuel sy pp s (rs1 ++ rest) =
  (fst (run fuel sy pp (fst (run fuel sy pp s rs1)) rest),
   snd (run fuel sy pp s rs1) ++ snd (run fuel sy pp (fst (run fuel sy pp s rs1)) rest)).
Proof.
  induction rs1 as [|r rs IH]; intros fuel sy pp s rest H; cbn [app run fst snd].
  - now destruct (run fuel sy pp s rest).
  - cbn [forallb] in H. apply andb_true_iff in H as [Hr Hrs].
    assert (Hsys : sys_after sy r = sy) by (destruct r; try discriminate; reflexivity).
    rewrite Hsys. destruct (step fuel sy pp s r) as [s1 a].
    rewrite (IH fuel sy pp s1 rest Hrs).
    destruct (run fuel sy pp s1 rs) as [s2 l]. cbn [fst snd].
    destruct (run fuel sy pp s2 rest) as [s3 l']. reflexivity.
Qed.

(** Requests, some of which may fail because switch [k] is on; the switch is turned off;
    the requests made afterwards (the failed ones again, for instance) return their
    meaning in the rule system in which [k] is off. *)
Theorem switch_off_then_meaning : forall sy pp inp, ranked sy = true -> 1 <= max_loops sy ->
  forall k rs1 rs2 s,
  forallb is_calc_request rs1 = true -> forallb is_calc_request rs2 = true -> Top sy pp inp s ->
  snd (run (enough_fuel sy) sy pp s (rs1 ++ RSwitch k false :: rs2))
    = map (sem_answer sy pp inp) rs1 ++ ANone :: map (sem_answer (set_switch sy k false) pp inp) rs2
  /\ Top (set_switch sy k false) pp inp (fst (run (enough_fuel sy) sy pp s (rs1 ++ RSwitch k false :: rs2))).
Proof.
  intros sy pp inp Hr Hl k rs1 rs2 s H1 H2 HT.
  rewrite (run_app_calc rs1 _ sy pp s _ H1). cbn [fst snd].
  destruct (run_refines_meaning sy pp inp Hr Hl rs1 s H1 HT) as [A1 T1].
  rewrite A1. cbn [run step sys_after].
  set (s1 := fst (run (enough_fuel sy) sy pp s rs1)) in *.
  set (sy' := set_switch sy k false).
  assert (T1' : Top sy' pp inp s1) by now apply Top_switch_off.
  assert (Hr' : ranked sy' = true) by exact Hr.
  assert (Hl' : 1 <= max_loops sy') by exact Hl.
  destruct (run_refines_meaning sy' pp inp Hr' Hl' rs2 s1 H2 T1') as [A2 T2].
  change (enough_fuel sy) with (enough_fuel sy').
  destruct (run (enough_fuel sy') sy' pp s1 rs2) as [s2 l2]. cbn [fst snd] in *.
  split; [now rewrite A2|exact T2].
Qed.

(** * Removing the cause by giving the failing node as an input *)

(** one unfolding of the meaning, relating two (fuel, system, inputs) triples *)
Lemma den_step_ok : forall sy1 sy2 pp inp1 inp2 f1 f2,
  vars sy2 = vars sy1 -> params sy2 = params sy1 ->
  (forall k, existsb (Nat.eqb k) (switches sy2) = true -> existsb (Nat.eqb k) (switches sy1) = true) ->
  (forall w q a, snd (den f1 sy1 pp inp1 tt w q) = Ok a -> snd (den f2 sy2 pp inp2 tt w q) = Ok a) ->
  forall v p a,
  (forall x, nth_error (vars sy1) v = Some x -> lookup (v, norm x p) inp2 = lookup (v, norm x p) inp1) ->
  snd (den (S f1) sy1 pp inp1 tt v p) = Ok a -> snd (den (S f2) sy2 pp inp2 tt v p) = Ok a.
Proof.
  intros sy1 sy2 pp inp1 inp2 f1 f2 Hv Hp Hsw IH v p a Hin H. cbn [den] in *.
  rewrite Hv. destruct (nth_error (vars sy1) v) as [x|]; [|discriminate].
  destruct (check_consistency x p); [|discriminate].
  destruct (v_neutral x); auto.
  rewrite (Hin x eq_refl).
  destruct (lookup _ inp1); auto.
  destruct (formula_at x p) as [[e|]|]; auto.
  rewrite let_pair_snd in *.
  destruct (snd (eval (den f1 sy1 pp inp1) sy1 pp (v_ent x) tt p e)) as [b|] eqn:E1; [|discriminate].
  rewrite (eval_ok sy1 sy2 pp (den f1 sy1 pp inp1) (den f2 sy2 pp inp2) Hv Hp Hsw IH e (v_ent x) p b E1).
  exact H.
Qed.

(** a value obtained with some fuel is obtained with more fuel *)
Lemma den_more_fuel : forall sy pp inp f v p a,
  snd (den f sy pp inp tt v p) = Ok a -> forall n, snd (den (n + f) sy pp inp tt v p) = Ok a.
Proof.
  intros sy pp inp.
  assert (Hone : forall f v p a, snd (den f sy pp inp tt v p) = Ok a -> snd (den (S f) sy pp inp tt v p) = Ok a).
  { induction f as [|f IH]; intros v p a H; [discriminate|].
    apply (den_step_ok sy sy pp inp inp f (S f) eq_refl eq_refl (fun k H => H) IH v p a); auto. }
  intros f v p a H n. induction n as [|n IHn]; [exact H|]. cbn [Nat.add]. now apply Hone.
Qed.

Section GiveInput.
  Variable sy : sys.
  Variable pp : popu.
  Variable inp : inputs.
  Hypothesis Hranked : ranked sy = true.
  Hypothesis Hloops : 1 <= max_loops sy.

  Variable v : nat.
  Variable x : var.
  Variable p : period.
  Variable a : val.
  Hypothesis Ex : nth_error (vars sy) v = Some x.
  Hypothesis Hn : v_neutral x = false.
  Variable e : err.
  Hypothesis Hfail : sem sy pp inp v p = Err e.      (* the failing node *)

  Definition inp' : inputs := ((v, norm x p), a) :: inp.

  Lemma failing_not_eternal : unit_eqb (v_unit x) Eternity = false.
  Proof.
    destruct (unit_eqb (v_unit x) Eternity) eqn:Eu; auto. exfalso.
    rewrite (sem_D sy pp inp Hranked Hloops), (D_unfold sy pp inp v p x Ex) in Hfail.
    unfold check_consistency in Hfail. rewrite Eu, Hn in Hfail.
    rewrite (eternal_no_formula sy Hranked v x p Ex Eu) in Hfail.
    destruct (lookup _ inp); discriminate.
  Qed.

  Lemma norm_id q : norm x q = q.
  Proof. unfold norm. now rewrite failing_not_eternal. Qed.

  (** the failing node has no value at any fuel *)
  Lemma failing_never_ok : forall f b, snd (den f sy pp inp tt v p) <> Ok b.
  Proof.
    intros f b H.
    assert (Hv : v < length (vars sy)) by (apply nth_error_Some; congruence).
    pose proof (den_more_fuel sy pp inp f v p b H (S (length (vars sy)))) as H1.
    rewrite (den_fuel sy pp inp Hranked Hloops v _ (S (length (vars sy))) p) in H1; [|lia|lia].
    unfold sem, sem_rec in Hfail. congruence.
  Qed.

  Lemma lookup_inp'_other k : key_eqb k (v, norm x p) = false -> lookup k inp' = lookup k inp.
  Proof. intro H. unfold inp', lookup. cbn [find fst]. now rewrite H. Qed.

  Lemma lookup_inp'_same : lookup (v, norm x p) inp' = Some a.
  Proof. unfold inp', lookup. cbn [find fst]. now rewrite key_eqb_refl. Qed.

  (** whatever had a value without the input has the same value with it: nothing that
      succeeded can have read the failing node *)
  Lemma den_input_transfer : forall f w q b,
    snd (den f sy pp inp tt w q) = Ok b -> snd (den f sy pp inp' tt w q) = Ok b.
  Proof.
    induction f as [|f IH]; intros w q b H; [discriminate|].
    destruct (nth_error (vars sy) w) as [xw|] eqn:Ew.
    2:{ cbn [den] in H. rewrite Ew in H. discriminate. }
    destruct (key_eqb (w, norm xw q) (v, norm x p)) eqn:Ek.
    - exfalso. apply key_eqb_iff in Ek. inversion Ek as [[E1 E2]]. subst w.
      rewrite Ex in Ew. inversion Ew; subst xw. rewrite !norm_id in E2. subst q.
      exact (failing_never_ok (S f) b H).
    - apply (den_step_ok sy sy pp inp inp' f f eq_refl eq_refl (fun k H => H) IH w q b); auto.
      intros x0 E0. rewrite Ew in E0. inversion E0; subst x0. now apply lookup_inp'_other.
  Qed.

  (** set_input on the failing node, from a state between two requests: the state is again
      such a state, now for the inputs extended with the given array *)
  Theorem Top_give_input : forall s, Top sy pp inp s -> Top sy pp inp' (put (v, norm x p) a s).
  Proof.
    intros s [(I1 & I2 & I3) Hs]. split; [|exact Hs]. repeat split; [| |exact I3].
    - intros w xw q b Ew Hnw Hl p' Hq Hc. rewrite lookup_put in Hl.
      destruct (key_eqb (w, q) (v, norm x p)) eqn:Ek.
      + apply key_eqb_iff in Ek. inversion Ek as [[E1 E2]]. subst w.
        rewrite Ex in Ew. inversion Ew; subst xw. inversion Hl; subst b.
        rewrite (D_unfold sy pp inp' v p' x Ex), Hc, Hn, Hq, E2, lookup_inp'_same. reflexivity.
      + specialize (I1 w xw q b Ew Hnw Hl p' Hq Hc). unfold D in *. now apply den_input_transfer.
    - intros k b Hk. rewrite lookup_put.
      destruct (key_eqb k (v, norm x p)) eqn:Ek.
      + apply key_eqb_iff in Ek. subst k. rewrite lookup_inp'_same in Hk. exact Hk.
      + rewrite (lookup_inp'_other k Ek) in Hk. now apply I2.
  Qed.
End GiveInput.

(** A request fails at node (v, p); [set_input] gives that node a value and is accepted;
    every later request returns its meaning on the inputs extended with that value. *)
Theorem input_given_then_meaning : forall sy pp inp, ranked sy = true -> 1 <= max_loops sy ->
  forall v x p a e s rs,
  nth_error (vars sy) v = Some x -> v_neutral x = false ->
  sem sy pp inp v p = Err e ->
  Top sy pp inp s ->
  set_input sy pp s v p a = (put (v, norm x p) (cast x a) s, ANone) ->
  forallb is_calc_request rs = true ->
  snd (run (enough_fuel sy) sy pp s (RSetInput v p a :: rs))
    = ANone :: map (sem_answer sy pp (inp' inp v x p (cast x a))) rs
  /\ Top sy pp (inp' inp v x p (cast x a)) (fst (run (enough_fuel sy) sy pp s (RSetInput v p a :: rs))).
Proof.
  intros sy pp inp Hr Hl v x p a e s rs Ex Hn Hfail HT Hset Hrs.
  cbn [run step sys_after]. rewrite Hset.
  pose proof (Top_give_input sy pp inp Hr Hl v x p (cast x a) Ex Hn e Hfail s HT) as HT'.
  destruct (run_refines_meaning sy pp _ Hr Hl rs _ Hrs HT') as [A T].
  destruct (run (enough_fuel sy) sy pp (put (v, norm x p) (cast x a) s) rs) as [s2 l]. cbn [fst snd] in *.
  split; [now rewrite A|exact T].
Qed.

(** * The statement of failure atomicity in one piece *)

Theorem failure_atomic_top : forall sy pp inp, ranked sy = true -> 1 <= max_loops sy ->
  forall s v p e, Top sy pp inp s ->
  snd (calc (enough_fuel sy) sy pp s v p) = Err e ->
  let s' := fst (calc (enough_fuel sy) sy pp s v p) in
  stack s' = [] /\ invalid s' = []
  /\ Top sy pp inp s'
  /\ (forall k a, lookup k (cache s) = Some a -> lookup k (cache s') = Some a)
  /\ (forall k, v <= fst k -> lookup k (cache s') = lookup k (cache s)).
Proof.
  intros sy pp inp Hr Hl s v p e HT He s'.
  destruct (calc_top_grows sy pp inp Hr Hl s v p HT) as [HT' Hg].
  pose proof (calc_top_failed sy pp inp Hr Hl s v p e HT He) as Hf.
  destruct HT' as [(J1 & J2 & J3) Hs'] eqn:E. clear E.
  repeat split; auto.
Qed.

(** * Where [Top] states come from *)

(** Any state between two requests is a [Top] state when its own cache is read as the
    inputs: in particular the state reached by any sequence of set_input requests on a new
    simulation (what every correspondence case starts with). *)
Theorem quiet_state_is_top : forall sy pp s, stack s = [] -> invalid s = [] -> Top sy pp (cache s) s.
Proof.
  intros sy pp s Hs Hi. split; [|exact Hs]. repeat split; auto.
  intros v x q a Ex Hn Hl p Hq Hc.
  rewrite (D_unfold sy pp (cache s) v p x Ex), Hc, Hn, Hq, Hl. reflexivity.
Qed.
