(** Proofs about coq/model/Api.v (C20). *)
From Coq Require Import ZArith QArith Qabs List Bool String Lia.
From Verif Require Import Base Cal Period PeriodStr Param Engine Api.
Import ListNotations.
Open Scope string_scope.

Section Server.
  Context {St : Type}.
  Variable var_info : string -> option (jtype * string).
  Variable ids_of : string -> option (list string).
  Variable is_role : string -> string -> bool.
  Variable period_ok : string -> bool.
  Variable build : doc -> res St.
  Variable ecalc : St -> string -> string -> St * res (list raw).
  Variable plurals : list string.
  Variable canon : string -> string.

  Local Notation handle := (handle var_info ids_of is_role period_ok build ecalc plurals canon).
  Local Notation serve := (serve var_info ids_of is_role period_ok build ecalc plurals canon).

  (** Each request of a sequence served by one application instance is answered as if
      it were alone. *)
  Lemma serve_independent : forall before r after,
    nth_error (serve (before ++ r :: after)) (List.length before) = Some (handle r)
    /\ serve [r] = [handle r].
  Proof.
    intros before r after. split; [|reflexivity].
    unfold Api.serve. rewrite map_app. cbn [map].
    rewrite nth_error_app2; rewrite map_length; [|apply Nat.le_refl].
    rewrite Nat.sub_diag. reflexivity.
  Qed.
End Server.
