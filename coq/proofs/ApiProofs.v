(** Proofs about coq/model/Api.v (C20). *)
From Coq Require Import ZArith QArith Qabs List Bool String Lia Arith.
From Verif Require Import Base Cal Period PeriodStr Param ParamProofs Engine EngineProofs Api ApiSpec.
Import ListNotations.
Open Scope string_scope.
Local Notation length := List.length.

(** * Paths and documents *)

Lemma path_eqb_eq : forall a b, path_eqb a b = true <-> a = b.
Proof.
  intros [[[a1 a2] a3] a4] [[[b1 b2] b3] b4]. cbn [path_eqb].
  rewrite !andb_true_iff, !String.eqb_eq. split.
  - intros [[[-> ->] ->] ->]. reflexivity.
  - intros H. inversion H. auto.
Qed.

Lemma path_eqb_refl : forall a, path_eqb a a = true.
Proof. intros a. now apply path_eqb_eq. Qed.

Lemma dlookup_some : forall p d l, dlookup p d = Some l -> In (p, l) d.
Proof.
  intros p d l. unfold dlookup. destruct (find _ d) as [[q l']|] eqn:F; [|discriminate].
  cbn. intros [= ->]. apply find_some in F as [Hin He]. cbn in He.
  apply path_eqb_eq in He. subst q. exact Hin.
Qed.

Lemma dlookup_none : forall p d, dlookup p d = None -> ~ In p (map fst d).
Proof.
  intros p d. unfold dlookup. destruct (find _ d) as [e|] eqn:F; [discriminate|].
  intros _ Hin. apply in_map_iff in Hin as [e [<- He]].
  apply (find_none _ _ F) in He. rewrite path_eqb_refl in He. discriminate.
Qed.

Lemma dlookup_in : forall p d, In p (map fst d) -> exists l, dlookup p d = Some l.
Proof.
  intros p d Hin. destruct (dlookup p d) as [l|] eqn:E; [eauto|].
  exfalso. eapply dlookup_none; eauto.
Qed.

Lemma dmem_in : forall p d, In p (map fst d) -> dmem p d = true.
Proof.
  intros p d Hin. unfold dmem. apply existsb_exists.
  apply in_map_iff in Hin as [e [<- He]]. exists e. split; [exact He|apply path_eqb_refl].
Qed.

Lemma nodup_fst_inj : forall (d : doc) e e', NoDup (map fst d) -> In e d -> In e' d -> fst e = fst e' -> e = e'.
Proof.
  induction d as [|a d IH]; intros e e' Hnd He He' Hf; [contradiction|].
  cbn in Hnd. inversion Hnd as [|x l Hnot Hnd']; subst.
  destruct He as [->|He], He' as [->|He']; auto.
  - exfalso. apply Hnot. rewrite Hf. now apply in_map.
  - exfalso. apply Hnot. rewrite <- Hf. now apply in_map.
Qed.

Lemma Forall2_map_self : forall {A B} (R : A -> B -> Prop) (f : A -> B) l,
  (forall a, In a l -> R a (f a)) -> Forall2 R l (map f l).
Proof.
  induction l as [|a l IH]; intros H; cbn; constructor.
  - apply H. now left.
  - apply IH. intros b Hb. apply H. now right.
Qed.

(** * The handler over a table *)

Section Table.
  Variable var_info : string -> option (jtype * string).
  Variable ids_of : string -> option (list string).
  Variable is_role : string -> string -> bool.
  Variable period_ok : string -> bool.
  Variable value_of : string -> string -> res (list raw).

  Local Notation fills := (fills var_info ids_of value_of).

  Local Notation slot := (slot_leaf var_info ids_of (table_calc value_of)).
  Local Notation comp := (compute var_info ids_of (table_calc value_of)).

  Lemma slot_table : forall pa l, snd (slot tt pa) = Ok l -> fills pa l.
  Proof.
    intros [[[pl id] v] pk] l. unfold slot_leaf, table_calc, ApiSpec.fills.
    destruct (var_info v) as [[ty vpl]|]; [|discriminate]. cbn.
    destruct (value_of v pk) as [arr|]; [|discriminate].
    destruct (ids_of pl) as [ids|]; [|discriminate].
    destruct (index_of id ids) as [i|] eqn:I; [|discriminate].
    destruct (nth_error arr i) as [x|] eqn:N; [|discriminate].
    cbn. intros [= <-]. exists ty, vpl, arr, ids, i, x. repeat split; auto.
  Qed.

  Lemma compute_table : forall ps r, snd (comp tt ps) = Ok r ->
    map fst r = ps /\ Forall (fun e => fills (fst e) (snd e)) r.
  Proof.
    induction ps as [|pa ps IH]; intros r; cbn [compute].
    - intros [= <-]. split; constructor.
    - destruct (slot tt pa) as [s1 x] eqn:E1. destruct x as [l|e]; [|discriminate].
      destruct s1. destruct (comp tt ps) as [s2 y] eqn:E2. destruct y as [r'|e]; [|discriminate].
      cbn. intros [= <-]. destruct (IH r' eq_refl) as [I1 I2]. split.
      + cbn. now rewrite I1.
      + constructor; [|exact I2]. cbn. apply slot_table. now rewrite E1.
  Qed.

  Lemma null_paths_in : forall d p, In p (null_paths d) <-> exists e, In e d /\ fst e = p /\ snd e = Null.
  Proof.
    intros d p. unfold null_paths. rewrite in_map_iff. split.
    - intros [e [<- He]]. apply filter_In in He as [He Hn]. exists e. repeat split; auto.
      destruct (snd e); try discriminate. reflexivity.
    - intros [e [He [<- Hn]]]. exists e. split; [reflexivity|]. apply filter_In. split; [exact He|].
      now rewrite Hn.
  Qed.

  Lemma merge_within : forall d r, (forall p, In p (map fst r) -> In p (map fst d)) ->
    merge d r = map (fun e => match dlookup (fst e) r with Some l => (fst e, l) | None => e end) d.
  Proof.
    intros d r H. unfold merge.
    assert (F : filter (fun x => negb (dmem (fst x) d)) r = []).
    { clear - H. induction r as [|a r IH]; [reflexivity|]. cbn.
      rewrite dmem_in; [|apply H; now left]. cbn. apply IH. intros p Hp. apply H. now right. }
    rewrite F. apply app_nil_r.
  Qed.

  (** ** calculate_fills_exactly *)
  Theorem calculate_fills : forall d out, NoDup (map fst d) ->
    api_calculate var_info ids_of is_role period_ok table_build (table_calc value_of) d = Done out ->
    Forall2 (fun e o => fst o = fst e
                        /\ (snd e <> Null -> snd o = snd e)
                        /\ (snd e = Null -> fills (fst e) (snd o))) d out.
  Proof.
    intros d out Hnd. unfold api_calculate, table_build.
    destruct (check_doc _ _ _ _ d); [|discriminate].
    destruct (snd (comp tt (null_paths d))) as [r|e] eqn:C; [|destruct e; discriminate].
    intros [= <-]. destruct (compute_table _ _ C) as [R1 R2].
    rewrite merge_within.
    2:{ intros p Hp. rewrite R1 in Hp. apply null_paths_in in Hp as [e [He [<- _]]]. now apply in_map. }
    apply Forall2_map_self. intros e He.
    destruct (dlookup (fst e) r) as [l|] eqn:L.
    - apply dlookup_some in L. cbn [fst snd]. split; [reflexivity|].
      assert (Hn : snd e = Null).
      { assert (Hp : In (fst e) (null_paths d)) by (rewrite <- R1; apply (in_map fst) in L; exact L).
        apply null_paths_in in Hp as [e' [He' [Hf Hs]]].
        rewrite (nodup_fst_inj d e e' Hnd He He' (eq_sym Hf)). exact Hs. }
      split; [intros Hx; contradiction|]. intros _.
      rewrite Forall_forall in R2. exact (R2 _ L).
    - split; [reflexivity|]. split; [reflexivity|]. intros Hn. exfalso.
      apply dlookup_none in L. apply L. rewrite R1. apply null_paths_in. exists e. auto.
  Qed.
End Table.

(** * A stateful engine that answers like a table *)

Section Simulation.
  Context {St : Type}.
  Variable var_info : string -> option (jtype * string).
  Variable ids_of : string -> option (list string).
  Variable is_role : string -> string -> bool.
  Variable period_ok : string -> bool.
  Variable build : doc -> res St.
  Variable ecalc : St -> string -> string -> St * res (list raw).
  Variable plurals : list string.
  Variable canon : string -> string.
  Variable value_of : string -> string -> res (list raw).
  Variable Inv : St -> Prop.
  Hypothesis ecalc_sound : forall s v pk, Inv s ->
    Inv (fst (ecalc s v pk)) /\ snd (ecalc s v pk) = value_of v pk.

  Lemma slot_sim : forall s pa, Inv s ->
    Inv (fst (slot_leaf var_info ids_of ecalc s pa))
    /\ snd (slot_leaf var_info ids_of ecalc s pa) = snd (slot_leaf var_info ids_of (table_calc value_of) tt pa).
  Proof.
    intros s [[[pl id] v] pk] HI. unfold slot_leaf, table_calc.
    destruct (var_info v) as [[ty vpl]|]; [|split; [exact HI|reflexivity]].
    destruct (ecalc_sound s v pk HI) as [H1 H2]. destruct (ecalc s v pk) as [s1 r]. cbn in H1, H2. subst r.
    destruct (value_of v pk) as [arr|e]; [|split; [exact H1|reflexivity]].
    destruct (ids_of pl) as [ids|]; [|split; [exact H1|reflexivity]].
    destruct (index_of id ids) as [i|]; [|split; [exact H1|reflexivity]].
    destruct (nth_error arr i); split; try exact H1; reflexivity.
  Qed.

  Lemma compute_sim : forall ps s, Inv s ->
    Inv (fst (compute var_info ids_of ecalc s ps))
    /\ snd (compute var_info ids_of ecalc s ps) = snd (compute var_info ids_of (table_calc value_of) tt ps).
  Proof.
    induction ps as [|pa ps IH]; intros s HI; cbn [compute]; [split; [exact HI|reflexivity]|].
    destruct (slot_sim s pa HI) as [H1 H2].
    destruct (slot_leaf var_info ids_of ecalc s pa) as [s1 x].
    destruct (slot_leaf var_info ids_of (table_calc value_of) tt pa) as [u y]. cbn in H1, H2. subst y.
    destruct x as [l|e]; [|split; [exact H1|reflexivity]]. destruct u.
    destruct (IH s1 H1) as [J1 J2].
    destruct (compute var_info ids_of ecalc s1 ps) as [s2 z].
    destruct (compute var_info ids_of (table_calc value_of) tt ps) as [u w]. cbn in J1, J2. subst w.
    split; [exact J1|reflexivity].
  Qed.

  Lemma trace_values_sim : forall ps s, Inv s ->
    Inv (fst (trace_values var_info ecalc canon s ps))
    /\ snd (trace_values var_info ecalc canon s ps)
       = snd (trace_values var_info (table_calc value_of) canon tt ps).
  Proof.
    induction ps as [|[[[pl id] v] pk] ps IH]; intros s HI; cbn [trace_values]; [split; [exact HI|reflexivity]|].
    destruct (var_info v) as [[ty vpl]|]; [|split; [exact HI|reflexivity]].
    unfold table_calc at 1.
    destruct (ecalc_sound s v pk HI) as [H1 H2]. destruct (ecalc s v pk) as [s1 r]. cbn in H1, H2. subst r.
    destruct (value_of v pk) as [arr|e]; [|split; [exact H1|reflexivity]].
    destruct (IH s1 H1) as [J1 J2].
    destruct (trace_values var_info ecalc canon s1 ps) as [s2 z].
    destruct (trace_values var_info (table_calc value_of) canon tt ps) as [u w]. cbn in J1, J2. subst w.
    split; [exact J1|reflexivity].
  Qed.

  (** A request served on a new simulation whose calculations all return the table's
      values is answered as by the table. *)
  Lemma api_calculate_sim : forall d s0, build d = Ok s0 -> Inv s0 ->
    api_calculate var_info ids_of is_role period_ok build ecalc d
    = api_calculate var_info ids_of is_role period_ok table_build (table_calc value_of) d.
  Proof.
    intros d s0 Hb HI. unfold api_calculate, table_build. rewrite Hb.
    destruct (check_doc _ _ _ _ d); [|reflexivity].
    now rewrite (proj2 (compute_sim (null_paths d) s0 HI)).
  Qed.

  Lemma api_trace_sim : forall d s0, build d = Ok s0 -> Inv s0 ->
    api_trace var_info ids_of is_role period_ok build ecalc plurals canon d
    = api_trace var_info ids_of is_role period_ok table_build (table_calc value_of) plurals canon d.
  Proof.
    intros d s0 Hb HI. unfold api_trace, table_build. rewrite Hb.
    destruct (check_doc _ _ _ _ d); [|reflexivity].
    now rewrite (proj2 (trace_values_sim (null_paths d) s0 HI)).
  Qed.
End Simulation.

(** * /trace agrees with /calculate *)

Section Trace.
  Variable var_info : string -> option (jtype * string).
  Variable ids_of : string -> option (list string).
  Variable is_role : string -> string -> bool.
  Variable period_ok : string -> bool.
  Variable value_of : string -> string -> res (list raw).
  Variable plurals : list string.
  Variable canon : string -> string.

  Lemma trace_values_table : forall ps t,
    snd (trace_values var_info (table_calc value_of) canon tt ps) = Ok t ->
    Forall2 (fun pa kv => let '(_, _, v, pk) := pa in
               exists ty vpl arr, var_info v = Some (ty, vpl) /\ value_of v pk = Ok arr
                                  /\ kv = (trace_key v (canon pk), map (serialize ty) arr)) ps t.
  Proof.
    induction ps as [|[[[pl id] v] pk] ps IH]; intros t; cbn [trace_values].
    - intros [= <-]. constructor.
    - destruct (var_info v) as [[ty vpl]|] eqn:V; [|discriminate]. unfold table_calc at 1.
      destruct (value_of v pk) as [arr|] eqn:A; [|discriminate].
      destruct (trace_values var_info (table_calc value_of) canon tt ps) as [u y]. destruct y as [t'|]; [|discriminate].
      cbn. intros [= <-]. constructor; [|apply IH; reflexivity].
      exists ty, vpl, arr. auto.
  Qed.

  Lemma serialize_render : forall ty x, (forall e s, x <> RF e s) -> serialize ty x = render ty x.
  Proof.
    intros ty x H. destruct ty, x; try reflexivity. exfalso. now apply (H exact shortest).
  Qed.

  (** For every requested slot, the value the trace reports for that calculation holds, at
      the position of the instance, the same engine element that /calculate renders into the
      slot (the two JSON values are identical unless the element is a float32 whose shortest
      text differs from its value: [serialize_render]). *)
  Theorem trace_agrees : forall d out t, NoDup (map fst d) ->
    api_calculate var_info ids_of is_role period_ok table_build (table_calc value_of) d = Done out ->
    api_trace var_info ids_of is_role period_ok table_build (table_calc value_of) plurals canon d = Done t ->
    requested t = map (fun pa => let '(_, _, v, pk) := pa in trace_key v pk) (null_paths d)
    /\ described t = map (fun pl => (pl, match ids_of pl with Some ids => ids | None => [] end)) plurals
    /\ Forall2 (fun pa kv => let '(pl, id, v, pk) := pa in
                  fst kv = trace_key v (canon pk)
                  /\ exists ids i ty vpl x, ids_of pl = Some ids /\ index_of id ids = Some i
                                     /\ var_info v = Some (ty, vpl)
                                     /\ In (pa, render ty x) out /\ nth_error (snd kv) i = Some (serialize ty x))
               (null_paths d) (traced t).
  Proof.
    intros d out t Hnd Hc Ht.
    pose proof (calculate_fills var_info ids_of is_role period_ok value_of d out Hnd Hc) as HF.
    unfold api_trace, table_build in Ht.
    destruct (check_doc _ _ _ _ d); [|discriminate].
    destruct (snd (trace_values var_info (table_calc value_of) canon tt (null_paths d))) as [tv|e] eqn:T;
      [|destruct e; discriminate].
    injection Ht as <-. cbn [requested described traced]. split; [reflexivity|]. split; [reflexivity|].
    apply trace_values_table in T.
    assert (Hslots : forall pa, In pa (null_paths d) -> exists l, In (pa, l) out /\ fills var_info ids_of value_of pa l).
    { intros pa Hpa. apply null_paths_in in Hpa as [e [He [Hf Hn]]].
      clear - HF He Hf Hn. induction HF as [|e0 o0 d' out' H0 HF IH]; [contradiction|].
      destruct He as [->|He].
      - destruct H0 as (F1 & _ & F3). exists (snd o0). split.
        + left. rewrite <- Hf, <- F1. now destruct o0.
        + rewrite <- Hf. now apply F3.
      - destruct (IH He) as [l [I1 I2]]. exists l. split; [now right|exact I2]. }
    revert Hslots T. generalize (null_paths d). intros ps0 Hs T. revert Hs.
    induction T as [|pa kv ps tv H0 T IH]; intros Hs; constructor.
    - destruct pa as [[[pl id] v] pk]. destruct H0 as (ty & vpl & arr & V & A & ->). cbn [fst snd].
      split; [reflexivity|].
      destruct (Hs (pl, id, v, pk) (or_introl eq_refl)) as [l [I1 I2]].
      destruct I2 as (ty' & vpl' & arr' & ids & i & x & V' & A' & Hi & Hx & Hn & ->).
      rewrite V in V'. injection V' as <- <-. rewrite A in A'. injection A' as <-.
      exists ids, i, ty, vpl, x. repeat split; auto. now apply map_nth_error.
    - apply IH. intros pa' Hp. apply Hs. now right.
  Qed.
End Trace.

(** * The machine of Engine.v behind the handlers *)

Section EngBridge.
  Variable sy : sys.
  Variable pp : popu.
  Variable names pids gids : list string.
  Hypothesis Hranked : ranked sy = true.
  Hypothesis Hloops : (1 <= max_loops sy)%nat.

  Lemma eng_calc_sound : forall inp s v pk, Top sy pp inp s ->
    Top sy pp inp (fst (eng_calc sy pp names s v pk))
    /\ snd (eng_calc sy pp names s v pk) = eng_value_of sy pp names inp v pk.
  Proof.
    intros inp s v pk HT. unfold eng_calc, eng_value_of.
    destruct (eng_var sy names v) as [[i x]|]; [|split; [exact HT|reflexivity]].
    destruct (parse_period pk) as [p|e]; [|split; [exact HT|reflexivity]].
    destruct (calculate_refines_meaning sy pp inp Hranked Hloops s i p HT) as [H1 H2].
    destruct (calc (enough_fuel sy) sy pp s i p) as [s1 r]. cbn in H1, H2. subst r.
    split; [exact H2|reflexivity].
  Qed.

  Lemma set_input_clean : forall s v p a, stack s = [] -> invalid s = [] ->
    stack (fst (set_input sy pp s v p a)) = [] /\ invalid (fst (set_input sy pp s v p a)) = [].
  Proof.
    intros s v p a Hs Hi. unfold set_input.
    destruct (nth_error (vars sy) v) as [x|]; [|auto].
    repeat match goal with |- context [if ?c then _ else _] => destruct c end; cbn; auto.
  Qed.

  Lemma apply_inputs_clean : forall rs s s',
    Forall (fun r => exists v p a, r = RSetInput v p a) rs ->
    stack s = [] -> invalid s = [] -> apply_inputs sy pp s rs = Ok s' ->
    stack s' = [] /\ invalid s' = [].
  Proof.
    induction rs as [|r rs IH]; intros s s' HF Hs Hi; cbn [apply_inputs].
    - intros [= <-]. auto.
    - inversion HF as [|r0 l (v & p & a & ->) HF']; subst. cbn [step].
      destruct (set_input_clean s v p a Hs Hi) as [C1 C2].
      destruct (set_input sy pp s v p a) as [s1 ans]. cbn in C1, C2.
      destruct ans; try discriminate; eauto.
  Qed.

  Lemma input_requests_sets : forall d,
    Forall (fun r => exists v p a, r = RSetInput v p a) (input_requests sy names pids gids d).
  Proof.
    intros d. unfold input_requests. apply Forall_forall. intros r Hr.
    apply in_flat_map in Hr as [[[pl v] p] [_ Hr]].
    destruct (eng_var sy names v) as [[i x]|]; [|contradiction].
    destruct (eng_ids_of pids gids pl); [|contradiction].
    destruct Hr as [<-|[]]. eauto.
  Qed.

  Lemma eng_build_top : forall d s0, eng_build sy pp names pids gids d = Ok s0 ->
    s0 = init (cache s0) /\ Top sy pp (cache s0) s0.
  Proof.
    intros d s0 Hb. unfold eng_build in Hb.
    destruct (apply_inputs_clean _ (init []) s0 (input_requests_sets d) eq_refl eq_refl Hb) as [C1 C2].
    assert (E : s0 = init (cache s0)) by (destruct s0; cbn in *; subst; reflexivity).
    split; [exact E|]. rewrite E at 2. apply Top_init.
  Qed.

  (** On a ranked rule system the handler running on the machine (one simulation, cache
      shared by the slots of the request) answers as the table of meanings does. *)
  Theorem api_calculate_eng_table : forall d s0, eng_build sy pp names pids gids d = Ok s0 ->
    api_calculate_eng sy pp names pids gids d
    = api_calculate (eng_var_info sy names) (eng_ids_of pids gids) eng_is_role eng_period_ok
                    table_build (table_calc (eng_value_of sy pp names (cache s0))) d.
  Proof.
    intros d s0 Hb. unfold api_calculate_eng.
    apply (api_calculate_sim _ _ _ _ _ _ _ (Top sy pp (cache s0))) with (s0 := s0).
    - intros s v pk. apply eng_calc_sound.
    - exact Hb.
    - apply (eng_build_top d s0 Hb).
  Qed.

  Theorem api_trace_eng_table : forall d s0, eng_build sy pp names pids gids d = Ok s0 ->
    api_trace_eng sy pp names pids gids d
    = api_trace (eng_var_info sy names) (eng_ids_of pids gids) eng_is_role eng_period_ok
                table_build (table_calc (eng_value_of sy pp names (cache s0))) [persons_pl; groups_pl] eng_canon d.
  Proof.
    intros d s0 Hb. unfold api_trace_eng.
    apply (api_trace_sim _ _ _ _ _ _ _ _ _ (Top sy pp (cache s0))) with (s0 := s0).
    - intros s v pk. apply eng_calc_sound.
    - exact Hb.
    - apply (eng_build_top d s0 Hb).
  Qed.

  Lemma machine_as_meaning : forall d s0, eng_build sy pp names pids gids d = Ok s0 ->
    api_calculate_eng sy pp names pids gids d
    = api_calculate (eng_var_info sy names) (eng_ids_of pids gids) eng_is_role eng_period_ok
                    table_build (table_calc (eng_value_of sy pp names (cache s0))) d
    /\ api_trace_eng sy pp names pids gids d
       = api_trace (eng_var_info sy names) (eng_ids_of pids gids) eng_is_role eng_period_ok
                   table_build (table_calc (eng_value_of sy pp names (cache s0)))
                   [persons_pl; groups_pl] eng_canon d.
  Proof. intros d s0 Hb. split; [now apply api_calculate_eng_table|now apply api_trace_eng_table]. Qed.

  Lemma api_calculate_eng_done : forall d out, api_calculate_eng sy pp names pids gids d = Done out ->
    exists s0, eng_build sy pp names pids gids d = Ok s0.
  Proof.
    intros d out. unfold api_calculate_eng, api_calculate.
    destruct (check_doc _ _ _ _ d); [|discriminate].
    destruct (eng_build sy pp names pids gids d) as [s0|e]; [eauto|destruct e; discriminate].
  Qed.

  (** calculate_fills_exactly for the engine: the slots hold the MEANING of the rule system *)
  Theorem calculate_eng_fills : forall d out, NoDup (map fst d) ->
    api_calculate_eng sy pp names pids gids d = Done out ->
    exists inp, eng_build sy pp names pids gids d = Ok (init inp) /\
      Forall2 (fun e o => fst o = fst e
                          /\ (snd e <> Null -> snd o = snd e)
                          /\ (snd e = Null ->
                              fills (eng_var_info sy names) (eng_ids_of pids gids)
                                    (eng_value_of sy pp names inp) (fst e) (snd o))) d out.
  Proof.
    intros d out Hnd Hc. destruct (api_calculate_eng_done d out Hc) as [s0 Hb].
    exists (cache s0). split.
    - rewrite Hb. f_equal. apply (eng_build_top d s0 Hb).
    - rewrite (api_calculate_eng_table d s0 Hb) in Hc.
      exact (calculate_fills _ _ _ _ _ d out Hnd Hc).
  Qed.
End EngBridge.

(** * One application instance, many requests *)

Section Server.
  Context {St : Type}.
  Variable var_info : string -> option (jtype * string).
  Variable ids_of : string -> option (list string).
  Variable is_role : string -> string -> bool.
  Variable period_ok : string -> bool.
  Variable build : doc -> res St.
  Variable ecalc : St -> string -> string -> St * res (list raw).
  Variable plurals : list string.
  Variable canon : string -> string.

  Local Notation handle := (handle var_info ids_of is_role period_ok build ecalc plurals canon).
  Local Notation serve := (serve var_info ids_of is_role period_ok build ecalc plurals canon).

  (** Each request of a sequence served by one application instance is answered as if
      it were alone. *)
  Lemma serve_independent : forall before r after,
    nth_error (serve (before ++ r :: after)) (List.length before) = Some (handle r)
    /\ serve [r] = [handle r].
  Proof.
    intros before r after. split; [|reflexivity].
    unfold Api.serve. rewrite map_app. cbn [map].
    rewrite nth_error_app2; rewrite map_length; [|apply Nat.le_refl].
    rewrite Nat.sub_diag. reflexivity.
  Qed.
End Server.



(** * YAML verdicts *)

Lemma all_some_iff : forall {A B} (f : A -> option B) l l',
  all_some (map f l) = Some l' <-> Forall2 (fun x y => f x = Some y) l l'.
Proof.
  intros A B f. induction l as [|a l IH]; intros l'; cbn.
  - split; [intros [= <-]; constructor|intros H; inversion H; reflexivity].
  - destruct (f a) as [b|] eqn:Fa.
    + destruct (all_some (map f l)) as [t|] eqn:E.
      * split.
        -- intros [= <-]. constructor; [exact Fa|]. now apply IH.
        -- intros H. inversion H as [|? y ? l2 H1 H2]; subst. rewrite Fa in H1. injection H1 as <-.
           apply IH in H2. injection H2 as <-. reflexivity.
      * split; [discriminate|]. intros H. inversion H as [|? y ? l2 H1 H2]; subst.
        apply IH in H2. discriminate.
    + split; [discriminate|]. intros H. inversion H as [|? y ? l2 H1 H2]; subst. rewrite Fa in H1. discriminate.
Qed.

Lemma Forall2_fun : forall {A B} (f : A -> option B) l l1 l2,
  Forall2 (fun x y => f x = Some y) l l1 -> Forall2 (fun x y => f x = Some y) l l2 -> l1 = l2.
Proof.
  intros A B f l l1 l2 H1 H2. apply all_some_iff in H1. apply all_some_iff in H2. congruence.
Qed.

Lemma near_iff : forall am rm v t,
  near am rm (v, t) = true <->
  (forall a, am = Some a -> (Qabs (t - v) <= a)%Q) /\ (forall r, rm = Some r -> (Qabs (t - v) <= Qabs (r * t))%Q).
Proof.
  intros am rm v t. unfold near. rewrite andb_true_iff. split.
  - intros [H1 H2]. split.
    + intros a ->. now apply Qle_bool_iff.
    + intros r ->. now apply Qle_bool_iff.
  - intros [H1 H2]. split.
    + destruct am as [a|]; [|reflexivity]. apply Qle_bool_iff. now apply H1.
    + destruct rm as [r|]; [|reflexivity]. apply Qle_bool_iff. now apply H2.
Qed.

Lemma closeb_iff : forall am rm p, closeb am rm p = true <-> close am rm p.
Proof.
  intros am rm [[v|a|] [t|b|]]; cbn [closeb close]; try (split; [discriminate|contradiction]).
  - apply near_iff.
  - apply String.eqb_eq.
Qed.

Lemma date_margin_iff : forall ty am,
  date_margin_ok ty am = true <-> (ty = JDate -> forall a, am = Some a -> (0 <= a)%Q).
Proof.
  intros ty am. unfold date_margin_ok. destruct ty; try (split; [intros _ H; discriminate|reflexivity]).
  destruct am as [a|].
  - rewrite Qle_bool_iff. split; [intros H _ a' [= <-]; exact H|intros H; now apply H].
  - split; [intros _ _ a H; discriminate|reflexivity].
Qed.

Lemma assert_near_iff : forall ty value target am rm,
  assert_near ty value target am rm = Ok true <->
  exists vs ts pairs,
    Forall2 (fun r c => raw_cmp ty r = Some c) value vs
    /\ Forall2 (fun l c => leaf_cmp ty l = Some c) target ts
    /\ bcast vs ts = Ok pairs
    /\ Forall (close (effective_abs am rm) rm) pairs
    /\ (ty = JDate -> forall a, effective_abs am rm = Some a -> (0 <= a)%Q).
Proof.
  intros ty value target am rm. unfold assert_near. split.
  - destruct (all_some (map (raw_cmp ty) value)) as [vs|] eqn:V; [|discriminate].
    destruct (all_some (map (leaf_cmp ty) target)) as [ts|] eqn:T; [|discriminate].
    destruct (bcast vs ts) as [pairs|] eqn:B; [|discriminate].
    intros [= H]. apply andb_true_iff in H as [H1 H2].
    exists vs, ts, pairs. split; [|split; [|split; [exact B|split]]].
    + now apply all_some_iff.
    + now apply all_some_iff.
    + apply Forall_forall. intros p Hp. apply closeb_iff. rewrite forallb_forall in H1. now apply H1.
    + now apply date_margin_iff.
  - intros (vs & ts & pairs & V & T & B & C & D).
    apply all_some_iff in V. apply all_some_iff in T. rewrite V, T, B. f_equal.
    apply andb_true_iff. split.
    + apply forallb_forall. intros p Hp. apply closeb_iff. rewrite Forall_forall in C. now apply C.
    + now apply date_margin_iff.
Qed.

Lemma all_pass_iff : forall {A} (f : A -> res bool) l,
  all_pass f l = Ok true <-> Forall (fun a => f a = Ok true) l.
Proof.
  intros A f. induction l as [|a l IH]; cbn [all_pass].
  - split; [constructor|reflexivity].
  - split.
    + intros H. destruct (f a) as [[|]|e] eqn:Fa; try discriminate. constructor; [exact Fa|now apply IH].
    + intros H. inversion H as [|? ? H1 H2]; subst. rewrite H1. now apply IH.
Qed.

(** induction on [ytree] through the lists of its mappings *)
Lemma ytree_ind' : forall P : ytree -> Prop,
  (forall l, P (YL l)) -> (forall ls, P (YS ls)) ->
  (forall kv, Forall (fun e => P (snd e)) kv -> P (YD kv)) -> forall x, P x.
Proof.
  intros P H1 H2 H3. fix IH 1. intros [l|ls|kv]; [apply H1|apply H2|].
  apply H3. induction kv as [|[k x] kv IHkv]; constructor; [apply IH|exact IHkv].
Qed.

Section YamlProofs.
  Variable var_type : string -> option jtype.
  Variable is_singular : string -> bool.
  Variable ids_of : string -> option (list string).
  Variable value_of : string -> string -> res (list raw).
  Variable tst : ytest.

  Local Notation holds := (holds var_type value_of tst).
  Local Notation check_target := (check_target var_type value_of tst).
  Local Notation check_variable := (check_variable var_type value_of tst).

  Lemma check_target_iff : forall name target period idx,
    check_target name target period idx = Ok true <-> holds (mk_exp name period idx target).
  Proof.
    intros name target period idx. unfold Api.check_target, ApiSpec.holds. cbn [x_var x_period x_idx x_target]. split.
    - destruct (var_type name) as [ty|] eqn:E1; [|discriminate].
      destruct period as [pk|]; [|discriminate].
      destruct (value_of name pk) as [arr|] eqn:E3; [|discriminate].
      destruct (margin_for (t_abs tst) name) as [am|] eqn:E4; [|discriminate].
      destruct (margin_for (t_rel tst) name) as [rm|] eqn:E5; [|discriminate].
      intros H. apply assert_near_iff in H as (vs & ts & pairs & V & T & B & C & D).
      exists ty, pk, arr, am, rm, vs, ts, pairs.
      do 5 (split; [first [reflexivity|assumption]|]). split; [exact V|]. split; [exact T|]. split; [exact B|]. split; [exact C|exact D].
    - intros (ty & pk & arr & am & rm & vs & ts & pairs & E1 & E2 & E3 & E4 & E5 & V & T & B & C & D).
      rewrite E1, E2, E3, E4, E5. apply assert_near_iff. exists vs, ts, pairs. auto.
  Qed.

  Lemma check_variable_iff : forall x name period idx,
    check_variable name x period idx = Ok true <-> Forall holds (tree_expectations name x period idx).
  Proof.
    induction x as [l|ls|kv IH] using ytree_ind'; intros name period idx.
    - cbn [Api.check_variable tree_expectations]. rewrite check_target_iff. split.
      + intros H. constructor; [exact H|constructor].
      + intros H. now inversion H.
    - cbn [Api.check_variable tree_expectations]. rewrite check_target_iff. split.
      + intros H. constructor; [exact H|constructor].
      + intros H. now inversion H.
    - cbn [Api.check_variable tree_expectations].
      induction kv as [|[pk x'] kv IHkv].
      + split; [constructor|reflexivity].
      + inversion IH as [|? ? I1 I2]; subst. cbn [snd] in I1. specialize (IHkv I2).
        rewrite Forall_app. rewrite <- IHkv, <- (I1 name (Some pk) idx). clear.
        destruct (check_variable name x' (Some pk) idx) as [[|]|e].
        * tauto.
        * split; [discriminate|intros [H _]; discriminate].
        * split; [discriminate|intros [H _]; discriminate].
  Qed.

  Lemma Forall_flat_map' : forall {A B} (P : B -> Prop) (f : A -> list B) l,
    Forall P (flat_map f l) <-> Forall (fun a => Forall P (f a)) l.
  Proof.
    intros A B P f. induction l as [|a l IH]; cbn.
    - split; constructor.
    - rewrite Forall_app, IH. split.
      + intros [H1 H2]. now constructor.
      + intros H. inversion H; subst. auto.
  Qed.

  Lemma all_pass_collect : forall {A} (g : A -> res bool) (f : A -> res (list expectation)) l,
    (forall a, In a l -> (g a = Ok true <-> exists x, f a = Ok x /\ Forall holds x)) ->
    (all_pass g l = Ok true <-> exists xs, collect f l = Ok xs /\ Forall holds xs).
  Proof.
    intros A g f. induction l as [|a l IH]; intros H; cbn [all_pass collect].
    - split; [intros _; exists []; split; [reflexivity|constructor]|reflexivity].
    - assert (Ha := H a (or_introl eq_refl)).
      assert (IH' := IH (fun b Hb => H b (or_intror Hb))). clear IH H. split.
      + intros E. destruct (g a) as [[|]|e] eqn:Ga; try discriminate.
        destruct (proj1 Ha eq_refl) as [x [Fx Hx]]. destruct (proj1 IH' E) as [xs [Fxs Hxs]].
        rewrite Fx, Fxs. exists (x ++ xs)%list. split; [reflexivity|]. apply Forall_app. auto.
      + intros [xs [E Hxs]]. destruct (f a) as [x|] eqn:Fa; [|discriminate].
        destruct (collect f l) as [y|] eqn:Fl; [|discriminate]. injection E as <-.
        apply Forall_app in Hxs as [H1 H2].
        rewrite (proj2 Ha (ex_intro _ x (conj eq_refl H1))). apply IH'. eauto.
  Qed.

  Lemma Forall_ext_iff : forall {A} (P Q : A -> Prop) l,
    (forall a, P a <-> Q a) -> (Forall P l <-> Forall Q l).
  Proof.
    intros A P Q l H. rewrite !Forall_forall. split; intros H0 a Ha; apply H; auto.
  Qed.

  Lemma check_variables_iff : forall kv idx,
    check_variables var_type value_of tst kv idx = Ok true
    <-> Forall holds (variables_expectations tst kv idx).
  Proof.
    intros kv idx. unfold check_variables, variables_expectations.
    rewrite all_pass_iff, Forall_flat_map'. apply Forall_ext_iff. intros e. apply check_variable_iff.
  Qed.

  Lemma check_instance_iff : forall ids e,
    check_instance var_type value_of tst ids e = Ok true
    <-> exists x, instance_expectations tst ids e = Ok x /\ Forall holds x.
  Proof.
    intros ids [id x]. unfold check_instance, instance_expectations. cbn [fst snd].
    destruct x as [l|ls|kv].
    - split; [discriminate|intros [x [H _]]; discriminate].
    - split; [discriminate|intros [x [H _]]; discriminate].
    - destruct kv as [|ve kv].
      + cbn. split; [intros _; exists []; split; [reflexivity|constructor]|reflexivity].
      + destruct (index_of id ids) as [i|].
        * fold (check_variables var_type value_of tst (ve :: kv) (Some i)). rewrite check_variables_iff.
          split; [intros H; eauto|intros [x [[= <-] H]]; exact H].
        * cbn. split; [discriminate|intros [x [H _]]; discriminate].
  Qed.

  Lemma check_key_iff : forall e,
    check_key var_type is_singular ids_of value_of tst e = Ok true
    <-> exists x, key_expectations var_type is_singular ids_of tst e = Ok x /\ Forall holds x.
  Proof.
    intros [k x]. unfold check_key, key_expectations.
    destruct (var_type k) as [ty|].
    - rewrite check_variable_iff. split; [intros H; eauto|intros [y [[= <-] H]]; exact H].
    - destruct (is_singular k).
      + destruct x as [l|ls|kv]; try (split; [discriminate|intros [y [H _]]; discriminate]).
        rewrite check_variables_iff. split; [intros H; eauto|intros [y [[= <-] H]]; exact H].
      + destruct (ids_of k) as [ids|]; [|split; [discriminate|intros [y [H _]]; discriminate]].
        destruct x as [l|ls|insts]; try (split; [discriminate|intros [y [H _]]; discriminate]).
        apply all_pass_collect. intros a _. apply check_instance_iff.
  Qed.

  (** ** verdict_iff_within_margin *)
  Theorem verdict_iff : 
    yaml_verdict var_type is_singular ids_of value_of tst = true
    <-> exists xs, expectations var_type is_singular ids_of tst = Ok xs /\ Forall holds xs.
  Proof.
    unfold yaml_verdict, expectations.
    assert (H : check_output var_type is_singular ids_of value_of tst = Ok true
                <-> exists xs, collect (key_expectations var_type is_singular ids_of tst) (t_output tst) = Ok xs
                               /\ Forall holds xs).
    { apply all_pass_collect. intros a _. apply check_key_iff. }
    rewrite <- H. destruct (check_output var_type is_singular ids_of value_of tst) as [[|]|e];
      split; try reflexivity; discriminate.
  Qed.
End YamlProofs.

Open Scope nat_scope.


(** * The three layouts *)

Lemma bcast_same_length : forall {A B} (a : list A) (b : list B),
  length a = length b -> bcast a b = Ok (zip_eq a b).
Proof. intros A B a b H. unfold bcast. now rewrite H, Nat.eqb_refl. Qed.

Lemma Forall2_length' : forall {A B} (R : A -> B -> Prop) l l', Forall2 R l l' -> length l = length l'.
Proof. intros A B R l l' H. induction H; cbn; congruence. Qed.

Section Cells.
  Variable ty : jtype.
  Variable am rm : option Q.

  (** one engine value and one expected value are comparable and close *)
  Definition cell_ok (a : raw) (l : leaf) : Prop :=
    exists cv ct, raw_cmp ty a = Some cv /\ leaf_cmp ty l = Some ct /\ close am rm (cv, ct).

  Lemma whole_iff : forall arr ls, length arr = length ls ->
    ((exists vs ts pairs, Forall2 (fun r c => raw_cmp ty r = Some c) arr vs
                          /\ Forall2 (fun l c => leaf_cmp ty l = Some c) ls ts
                          /\ bcast vs ts = Ok pairs /\ Forall (close am rm) pairs)
     <-> Forall2 cell_ok arr ls).
  Proof.
    intros arr ls Hlen. split.
    - intros (vs & ts & pairs & V & T & B & C).
      assert (L : length vs = length ts).
      { rewrite <- (Forall2_length' _ _ _ V), <- (Forall2_length' _ _ _ T). exact Hlen. }
      rewrite (bcast_same_length vs ts L) in B. injection B as <-.
      clear L. revert ls ts T C Hlen. induction V as [|a cv arr vs Ha V IH]; intros ls ts T C Hlen.
      + destruct ls; [constructor|discriminate].
      + inversion T as [|l ct ls' ts' Hl T']; subst; [discriminate|]. cbn in C, Hlen.
        inversion C as [|? ? C1 C2]; subst. constructor; [exists cv, ct; auto|].
        apply (IH ls' ts'); auto.
    - intros H. clear Hlen. induction H as [|a l arr ls (cv & ct & Ha & Hl & Hc) H IH].
      + exists [], [], []. repeat split; constructor.
      + destruct IH as (vs & ts & pairs & V & T & B & C).
        assert (L : length vs = length ts).
        { rewrite <- (Forall2_length' _ _ _ V), <- (Forall2_length' _ _ _ T). exact (Forall2_length' _ _ _ H). }
        rewrite (bcast_same_length vs ts L) in B. injection B as <-.
        exists (cv :: vs), (ct :: ts), ((cv, ct) :: zip_eq vs ts). split; [now constructor|]. split; [now constructor|].
        split; [|now constructor]. rewrite bcast_same_length; [reflexivity|cbn; now rewrite L].
  Qed.

  Lemma one_iff : forall a l,
    ((exists vs ts pairs, Forall2 (fun r c => raw_cmp ty r = Some c) [a] vs
                          /\ Forall2 (fun l c => leaf_cmp ty l = Some c) [l] ts
                          /\ bcast vs ts = Ok pairs /\ Forall (close am rm) pairs)
     <-> cell_ok a l).
  Proof.
    intros a l. rewrite (whole_iff [a] [l] eq_refl). split.
    - intros H. now inversion H.
    - intros H. constructor; [exact H|constructor].
  Qed.
End Cells.

Lemma select_nth : forall {A} (d : A) i (arr : list A), i < length arr ->
  firstn 1 (skipn i arr) = [nth i arr d].
Proof.
  intros A d. induction i as [|i IH]; intros [|a arr] H; cbn in *; try lia.
  - reflexivity.
  - apply IH. lia.
Qed.

Lemma Forall2_nth_iff : forall {A B} (R : A -> B -> Prop) (da : A) (db : B) l l',
  length l = length l' ->
  (Forall2 R l l' <-> forall i, i < length l -> R (nth i l da) (nth i l' db)).
Proof.
  intros A B R da db. induction l as [|a l IH]; intros [|b l'] H; cbn in H; try discriminate.
  - split; [intros _ i Hi; cbn in Hi; lia|constructor].
  - injection H as H. split.
    + intros F i Hi. inversion F; subst. destruct i as [|i]; cbn; [assumption|].
      apply (proj1 (IH l' H)); [assumption|cbn in Hi; lia].
    + intros F. constructor.
      * apply (F 0). cbn. lia.
      * apply (IH l' H). intros i Hi. apply (F (S i)). cbn. lia.
Qed.

Lemma index_of_nth : forall ids i id, NoDup ids -> nth_error ids i = Some id -> index_of id ids = Some i.
Proof.
  induction ids as [|x ids IH]; intros i id Hnd Hn; [destruct i; discriminate|].
  inversion Hnd as [|? ? Hx Hnd']; subst. destruct i as [|i]; cbn in Hn.
  - injection Hn as ->. cbn. now rewrite String.eqb_refl.
  - cbn. destruct (String.eqb id x) eqn:E.
    + apply String.eqb_eq in E. subst x. exfalso. apply Hx. eapply nth_error_In; eauto.
    + now rewrite (IH i id Hnd' Hn).
Qed.

Lemma combine_seq_nth : forall {A} (l : list A) k x j,
  In (x, j) (combine l (seq k (length l))) -> k <= j /\ nth_error l (j - k) = Some x.
Proof.
  intros A. induction l as [|a l IH]; intros k x j H; cbn in H; [contradiction|].
  destruct H as [[= <- <-]|H].
  - split; [lia|]. now rewrite Nat.sub_diag.
  - destruct (IH (S k) x j H) as [H1 H2]. split; [lia|].
    replace (j - k) with (S (j - S k)) by lia. exact H2.
Qed.

Lemma collect_all_ok : forall {A B} (f : A -> res (list B)) (g : A -> list B) l,
  (forall a, In a l -> f a = Ok (g a)) -> collect f l = Ok (flat_map g l).
Proof.
  intros A B f g. induction l as [|a l IH]; intros H; cbn; [reflexivity|].
  rewrite (H a (or_introl eq_refl)), IH; [reflexivity|]. intros b Hb. apply H. now right.
Qed.

Lemma collect_map : forall {A B C} (f : B -> res (list C)) (h : A -> B) l,
  collect f (map h l) = collect (fun a => f (h a)) l.
Proof.
  intros A B C f h. induction l as [|a l IH]; cbn; [reflexivity|]. now rewrite IH.
Qed.

Section Layouts.
  Variable var_type : string -> option jtype.
  Variable is_singular : string -> bool.
  Variable ids_of : string -> option (list string).
  Variable value_of : string -> string -> res (list raw).
  Variable period : option string.
  Variable abs_m rel_m : margin.
  Variable key plural : string.
  Variable ids : list string.
  Variable cells : list cell.

  Definition test_with (o : list (string * ytree)) : ytest := mk_ytest period o abs_m rel_m.

  Hypothesis Hvars : Forall (fun c : cell => exists ty, var_type (fst (fst c)) = Some ty) cells.
  Hypothesis Hkey : var_type key = None /\ is_singular key = true.
  Hypothesis Hplural : var_type plural = None /\ is_singular plural = false /\ ids_of plural = Some ids.
  Hypothesis Hnodup : NoDup ids.
  Hypothesis Hnonempty : ids <> [].
  Hypothesis Hlen : Forall (fun c : cell => length (snd c) = length ids) cells.
  Hypothesis Harr : forall c arr, In c cells -> value_of (fst (fst c)) (snd (fst c)) = Ok arr -> length arr = length ids.

  Definition whole (c : cell) : expectation := let '(v, pk, ls) := c in mk_exp v (Some pk) None ls.
  Definition inst (i : nat) (c : cell) : expectation :=
    let '(v, pk, ls) := c in mk_exp v (Some pk) (Some i) [nth i ls Null].

  Lemma tree_whole : forall v pk ls p0,
    tree_expectations v (YD [(pk, YS ls)]) p0 None = [mk_exp v (Some pk) None ls].
  Proof. reflexivity. Qed.

  Lemma variables_whole : forall tst cs,
    variables_expectations tst (by_variable cs) None = map whole cs.
  Proof.
    intros tst. induction cs as [|[[v pk] ls] cs IH]; [reflexivity|].
    unfold variables_expectations in *. cbn [by_variable map flat_map fst snd]. rewrite tree_whole.
    cbn [app whole]. f_equal. exact IH.
  Qed.

  Lemma collect_by_variable : forall tst cs,
    Forall (fun c : cell => exists ty, var_type (fst (fst c)) = Some ty) cs ->
    collect (key_expectations var_type is_singular ids_of tst) (by_variable cs) = Ok (map whole cs).
  Proof.
    intros tst. induction cs as [|[[v pk] ls] cs IH]; intros Hv; [reflexivity|].
    inversion Hv as [|? ? [ty Hty] Hv']; subst. cbn [fst] in Hty.
    cbn [by_variable map collect key_expectations]. rewrite Hty, tree_whole.
    fold (by_variable cs). rewrite (IH Hv'). reflexivity.
  Qed.

  Lemma exp_by_variable :
    expectations var_type is_singular ids_of (test_with (by_variable cells)) = Ok (map whole cells).
  Proof. unfold expectations. cbn [t_output test_with]. now apply collect_by_variable. Qed.

  Lemma exp_by_entity :
    expectations var_type is_singular ids_of (test_with (by_entity key cells)) = Ok (map whole cells).
  Proof.
    unfold expectations. cbn [t_output test_with by_entity collect key_expectations].
    destruct Hkey as [K1 K2]. rewrite K1, K2, variables_whole. now rewrite app_nil_r.
  Qed.

  Lemma variables_inst : forall tst i cs,
    variables_expectations tst
      (map (fun c : cell => let '(v, pk, ls) := c in (v, YD [(pk, YL (nth i ls Null))])) cs) (Some i)
    = map (inst i) cs.
  Proof.
    intros tst i. induction cs as [|[[v pk] ls] cs IH]; [reflexivity|].
    unfold variables_expectations in *. cbn [map flat_map fst snd tree_expectations app inst]. f_equal. exact IH.
  Qed.

  Lemma instance_exp : forall tst id i, nth_error ids i = Some id ->
    instance_expectations tst ids (id, instance_tree i cells) = Ok (map (inst i) cells).
  Proof.
    intros tst id i Hn. unfold instance_expectations, instance_tree. cbn [fst snd].
    destruct cells as [|c cs] eqn:E; [reflexivity|]. rewrite <- E.
    rewrite (index_of_nth ids i id Hnodup Hn), variables_inst.
    rewrite E. cbn [map]. reflexivity.
  Qed.

  Lemma exp_by_instance :
    expectations var_type is_singular ids_of (test_with (by_instance plural ids cells))
    = Ok (flat_map (fun i => map (inst i) cells) (seq 0 (length ids))).
  Proof.
    unfold expectations. cbn [t_output test_with by_instance collect key_expectations].
    destruct Hplural as (P1 & P2 & P3). rewrite P1, P2, P3, collect_map.
    rewrite (collect_all_ok _ (fun ii : string * nat => map (inst (snd ii)) cells)).
    - rewrite app_nil_r. f_equal.
      clear. generalize 0 as k. induction ids as [|x l IH]; intros k; [reflexivity|].
      cbn. f_equal. apply IH.
    - intros [id i] Hin.
      apply combine_seq_nth in Hin as [_ Hn]. rewrite Nat.sub_0_r in Hn. cbn [fst snd].
      now apply instance_exp.
  Qed.

  Local Notation holdsT := (holds var_type value_of (test_with [])).

  Lemma ids_positive : 0 < length ids.
  Proof. destruct ids; [contradiction|cbn; lia]. Qed.

  Lemma holds_cell : forall c, In c cells ->
    (holdsT (whole c) <-> forall i, i < length ids -> holdsT (inst i c)).
  Proof.
    intros [[v pk] ls] Hc.
    assert (Hls : length ls = length ids) by (rewrite Forall_forall in Hlen; exact (Hlen _ Hc)).
    assert (Ha : forall arr, value_of v pk = Ok arr -> length arr = length ids) by (intros arr; exact (Harr _ arr Hc)).
    unfold holds, whole, inst. cbn [x_var x_period x_idx x_target t_abs t_rel test_with select]. split.
    - intros (ty & pk' & arr & am & rm & vs & ts & pairs & E1 & E2 & E3 & E4 & E5 & V & T & B & C & D) i Hi.
      injection E2 as <-. pose proof (Ha arr E3) as La.
      assert (W : Forall2 (cell_ok ty (effective_abs am rm) rm) arr ls).
      { apply whole_iff; [congruence|]. exists vs, ts, pairs. auto. }
      assert (Lal : length arr = length ls) by congruence.
      pose proof (proj1 (Forall2_nth_iff _ (RZ 0) Null arr ls Lal) W) as W'.
      assert (O := W' i ltac:(lia)). apply one_iff in O as (vs' & ts' & pairs' & V' & T' & B' & C').
      exists ty, pk, arr, am, rm, vs', ts', pairs'.
      do 5 (split; [first [reflexivity|assumption]|]).
      rewrite (select_nth (RZ 0) i arr ltac:(lia)). auto.
    - intros H.
      destruct (H 0 ids_positive) as (ty & pk' & arr & am & rm & _ & _ & _ & E1 & E2 & E3 & E4 & E5 & _ & _ & _ & _ & D).
      injection E2 as <-. pose proof (Ha arr E3) as La.
      assert (W : Forall2 (cell_ok ty (effective_abs am rm) rm) arr ls).
      { assert (Lal : length arr = length ls) by congruence.
        apply (proj2 (Forall2_nth_iff _ (RZ 0) Null arr ls Lal)). intros i Hi.
        destruct (H i ltac:(lia)) as (ty' & pk' & arr' & am' & rm' & vs & ts & pairs & F1 & F2 & F3 & F4 & F5 & V & T & B & C & _).
        injection F2 as <-. rewrite E1 in F1. injection F1 as <-. rewrite E3 in F3. injection F3 as <-.
        rewrite E4 in F4. injection F4 as <-. rewrite E5 in F5. injection F5 as <-.
        rewrite (select_nth (RZ 0) i arr ltac:(lia)) in V.
        apply one_iff. exists vs, ts, pairs. auto. }
      apply whole_iff in W as (vs & ts & pairs & V & T & B & C); [|congruence].
      exists ty, pk, arr, am, rm, vs, ts, pairs.
      do 5 (split; [first [reflexivity|assumption]|]). auto.
  Qed.

  Lemma holds_layouts :
    Forall holdsT (map whole cells)
    <-> Forall holdsT (flat_map (fun i => map (inst i) cells) (seq 0 (length ids))).
  Proof.
    rewrite Forall_flat_map', !Forall_forall. split.
    - intros H i Hi. apply in_seq in Hi. apply Forall_forall. intros x Hx.
      apply in_map_iff in Hx as [c [<- Hc]]. apply (proj1 (holds_cell c Hc)); [|lia].
      apply H. now apply in_map.
    - intros H x Hx. apply in_map_iff in Hx as [c [<- Hc]]. apply (proj2 (holds_cell c Hc)).
      intros i Hi. assert (Hs : In i (seq 0 (length ids))) by (apply in_seq; lia).
      specialize (H i Hs). rewrite Forall_forall in H. apply H. now apply in_map.
  Qed.

  Lemma verdict_of : forall o xs,
    expectations var_type is_singular ids_of (test_with o) = Ok xs ->
    (yaml_verdict var_type is_singular ids_of value_of (test_with o) = true <-> Forall holdsT xs).
  Proof.
    intros o xs E. rewrite verdict_iff, E. split.
    - intros [ys [[= <-] H]]. exact H.
    - intros H. exists xs. split; [reflexivity|exact H].
  Qed.

  (** ** layouts_equivalent *)
  Theorem layouts_equiv :
    yaml_verdict var_type is_singular ids_of value_of (test_with (by_entity key cells))
    = yaml_verdict var_type is_singular ids_of value_of (test_with (by_variable cells))
    /\ yaml_verdict var_type is_singular ids_of value_of (test_with (by_instance plural ids cells))
       = yaml_verdict var_type is_singular ids_of value_of (test_with (by_variable cells)).
  Proof.
    split; apply Bool.eq_iff_eq_true.
    - rewrite (verdict_of _ _ exp_by_entity), (verdict_of _ _ exp_by_variable). reflexivity.
    - rewrite (verdict_of _ _ exp_by_instance), (verdict_of _ _ exp_by_variable). symmetry. apply holds_layouts.
  Qed.
End Layouts.

(** * Listing of a leaf parameter *)

Lemma parameter_listing : forall (h : hist Z), decreasing h ->
  api_parameter_values h = map (fun kv => (iso_date (of_ord (fst kv)), snd kv)) h
  /\ forall (d k : Z) (v : option Z), In (k, v) h -> (k <= d)%Z ->
       (forall k' v', In (k', v') h -> (k' <= d)%Z -> (k' <= k)%Z) -> get_at h d = v.
Proof.
  intros h Hdec. split; [reflexivity|]. intros d k v. now apply get_at_latest_any.
Qed.
