(** Proofs about the heap model of clone (model/Heap.v): frame and locality of every
    operation under the invariant "the cells reachable from different simulations are
    disjoint", preservation of the invariant by the copying clone, and the resulting
    non-interference of interleaved runs; witnesses against the sharing clones. *)
From Coq Require Import ZArith List Bool Arith Lia String.
From Verif Require Import Base Cal Tables Period Np Group Param Engine Heap.
Import ListNotations.
Open Scope nat_scope.
Local Notation length := List.length.

(** * Lists *)

Lemma set_nth_length {A} (l : list A) n x : length (set_nth l n x) = length l.
Proof. revert n; induction l as [|h t IH]; intros [|n]; simpl; auto. Qed.

Lemma nth_set_nth_eq {A} (l : list A) n x d : n < length l -> nth n (set_nth l n x) d = x.
Proof.
  revert n; induction l as [|h t IH]; intros [|n] H; simpl in *; try lia; auto.
  apply IH; lia.
Qed.

Lemma nth_set_nth_neq {A} (l : list A) n m x d : n <> m -> nth m (set_nth l n x) d = nth m l d.
Proof.
  revert n m; induction l as [|h t IH]; intros [|n] [|m] H; simpl; auto; try congruence.
Qed.

Lemma nth_error_set_nth_eq {A} (l : list A) n x : n < length l -> nth_error (set_nth l n x) n = Some x.
Proof.
  revert n; induction l as [|h t IH]; intros [|n] H; simpl in *; try lia; auto.
  apply IH; lia.
Qed.

Lemma nth_error_set_nth_neq {A} (l : list A) n m x : n <> m -> nth_error (set_nth l n x) m = nth_error l m.
Proof.
  revert n m; induction l as [|h t IH]; intros [|n] [|m] H; simpl; auto; try congruence.
Qed.

Lemma flat_map_ext_in {A B} (f g : A -> list B) l :
  (forall a, In a l -> f a = g a) -> flat_map f l = flat_map g l.
Proof.
  induction l as [|h t IH]; intros H; simpl; auto.
  rewrite (H h) by (left; reflexivity). f_equal. apply IH. intros; apply H; right; assumption.
Qed.

Lemma NoDup_app_inv {A} (l1 l2 : list A) :
  NoDup (l1 ++ l2) -> NoDup l1 /\ NoDup l2 /\ (forall x, In x l1 -> ~ In x l2).
Proof.
  induction l1 as [|h t IH]; simpl; intros H.
  - repeat split; auto. constructor.
  - inversion H as [|? ? Hn Hd]; subst. destruct (IH Hd) as (H1 & H2 & H3).
    repeat split; auto.
    + constructor; auto. intro Hin; apply Hn; apply in_or_app; left; assumption.
    + intros x [->|Hx]; [intro Hin; apply Hn; apply in_or_app; right; assumption | apply H3; assumption].
Qed.

Lemma NoDup_app_intro {A} (l1 l2 : list A) :
  NoDup l1 -> NoDup l2 -> (forall x, In x l1 -> ~ In x l2) -> NoDup (l1 ++ l2).
Proof.
  induction l1 as [|h t IH]; simpl; intros H1 H2 H3; auto.
  inversion H1; subst. constructor.
  - intro Hin. apply in_app_or in Hin. destruct Hin as [Hin|Hin]; [contradiction|].
    exact (H3 h (or_introl eq_refl) Hin).
  - apply IH; auto.
Qed.

Lemma NoDup_set_nth_fresh (l : list nat) i n :
  NoDup l -> (forall x, In x l -> x < n) -> NoDup (set_nth l i n).
Proof.
  revert i; induction l as [|h t IH]; intros i Hd Hlt; simpl; [destruct i; constructor|].
  inversion Hd; subst. destruct i as [|i].
  - constructor; auto. intro Hin. specialize (Hlt n (or_intror Hin)). lia.
  - constructor.
    + intro Hin.
      assert (Hc : forall j, In h (set_nth t j n) -> In h t \/ h = n).
      { clear -t. induction t as [|a t IH]; intros [|j] Hj; simpl in *; auto.
        - destruct Hj as [->|Hj]; auto.
        - destruct Hj as [->|Hj]; auto. destruct (IH _ Hj); auto. }
      destruct (Hc _ Hin) as [Hc1|Hc1]; [contradiction|].
      specialize (Hlt h (or_introl eq_refl)). lia.
    + apply IH; auto. intros; apply Hlt; right; assumption.
Qed.

Lemma in_set_nth {A} (l : list A) i x y : In y (set_nth l i x) -> In y l \/ y = x.
Proof.
  revert i; induction l as [|a t IH]; intros [|i] H; simpl in *; auto.
  - destruct H as [->|H]; auto.
  - destruct H as [->|H]; auto. destruct (IH _ H); auto.
Qed.

Lemma map_set_nth {A B} (f : A -> B) l i x : map f (set_nth l i x) = set_nth (map f l) i (f x).
Proof. revert i; induction l as [|a t IH]; intros [|i]; simpl; auto. f_equal; apply IH. Qed.

Lemma flat_map_set_nth_same {A B} (f : A -> list B) l i x y :
  nth_error l i = Some y -> f x = f y -> flat_map f (set_nth l i x) = flat_map f l.
Proof.
  revert i; induction l as [|a t IH]; intros [|i] H E; simpl in *; try discriminate.
  - inversion H; subst. rewrite E. reflexivity.
  - f_equal. apply IH; assumption.
Qed.

Lemma nth_error_lt {A} (l : list A) i x : nth_error l i = Some x -> i < length l.
Proof. intro H. apply nth_error_Some. congruence. Qed.

(** * The invariant: cells reachable from different simulations are disjoint *)

Definition all_locs (w : world) : list loc := flat_map s_tab (sims w).
Definition all_invs (w : world) : list loc := map s_inv (sims w).

Record wf (w : world) : Prop := mk_wf {
  wf_nodup : NoDup (all_locs w);
  wf_range : forall l, In l (all_locs w) -> l < length (stores w);
  wf_inv_nodup : NoDup (all_invs w);
  wf_inv_range : forall l, In l (all_invs w) -> l < length (invs w)
}.

Lemma in_all_locs w i sm l : nth_error (sims w) i = Some sm -> In l (s_tab sm) -> In l (all_locs w).
Proof.
  intros H Hl. unfold all_locs. apply in_flat_map. exists sm. split; auto. eapply nth_error_In; eauto.
Qed.

Lemma in_all_invs w i sm : nth_error (sims w) i = Some sm -> In (s_inv sm) (all_invs w).
Proof. intros H. unfold all_invs. apply in_map. eapply nth_error_In; eauto. Qed.

Lemma nth_error_two {A} (l : list A) i j a b :
  i < j -> nth_error l i = Some a -> nth_error l j = Some b ->
  exists l1 l2 l3, l = l1 ++ a :: l2 ++ b :: l3.
Proof.
  intros Hij Ha Hb.
  destruct (nth_error_split l i Ha) as (l1 & r & -> & Hlen).
  rewrite nth_error_app2 in Hb by lia.
  replace (j - length l1) with (S (j - length l1 - 1)) in Hb by lia. simpl in Hb.
  destruct (nth_error_split r _ Hb) as (l2 & l3 & -> & _).
  exists l1, l2, l3. reflexivity.
Qed.

Lemma tabs_disjoint w i j a b l :
  NoDup (all_locs w) -> i <> j -> nth_error (sims w) i = Some a -> nth_error (sims w) j = Some b ->
  In l (s_tab a) -> ~ In l (s_tab b).
Proof.
  unfold all_locs. intros Hd Hij Ha Hb Hla Hlb.
  assert (Hgen : forall i j a b, i < j -> nth_error (sims w) i = Some a -> nth_error (sims w) j = Some b ->
                 In l (s_tab a) -> In l (s_tab b) -> False).
  { clear - Hd. intros i j a b Hij Ha Hb Hla Hlb.
    destruct (nth_error_two _ _ _ _ _ Hij Ha Hb) as (l1 & l2 & l3 & E).
    rewrite E in Hd. rewrite flat_map_app in Hd. apply NoDup_app_inv in Hd. destruct Hd as (_ & Hd & _).
    simpl in Hd. apply NoDup_app_inv in Hd. destruct Hd as (_ & _ & Hd).
    apply (Hd l Hla). rewrite flat_map_app. apply in_or_app. right. simpl. apply in_or_app. left. assumption. }
  destruct (Nat.lt_total i j) as [H|[H|H]]; [eapply Hgen; eauto| contradiction | eapply (Hgen j i); eauto].
Qed.

Lemma tab_nodup w i a : NoDup (all_locs w) -> nth_error (sims w) i = Some a -> NoDup (s_tab a).
Proof.
  unfold all_locs. intros Hd Ha. destruct (nth_error_split _ _ Ha) as (l1 & l2 & E & _).
  rewrite E in Hd. rewrite flat_map_app in Hd. apply NoDup_app_inv in Hd. destruct Hd as (_ & Hd & _).
  simpl in Hd. apply NoDup_app_inv in Hd. tauto.
Qed.

Lemma invs_distinct w i j a b :
  NoDup (all_invs w) -> i <> j -> nth_error (sims w) i = Some a -> nth_error (sims w) j = Some b ->
  s_inv a <> s_inv b.
Proof.
  unfold all_invs. intros Hd Hij Ha Hb E.
  apply (map_nth_error s_inv) in Ha. apply (map_nth_error s_inv) in Hb. rewrite E in Ha.
  apply Hij. eapply (proj1 (NoDup_nth_error _) Hd); [apply nth_error_Some; congruence | congruence].
Qed.

(** * write_tab *)

Lemma write_tab_length v tab c h : length (write_tab v tab c h) = length h.
Proof.
  revert v h; induction tab as [|l r IH]; intros v h; simpl; auto. rewrite IH. apply set_nth_length.
Qed.

Lemma write_tab_other v tab c h l : ~ In l tab -> nth l (write_tab v tab c h) [] = nth l h [].
Proof.
  revert v h; induction tab as [|a r IH]; intros v h Hn; simpl; auto.
  rewrite IH by (intro; apply Hn; right; assumption).
  apply nth_set_nth_neq. intro; apply Hn; left; assumption.
Qed.

Lemma write_tab_read v tab c h :
  NoDup tab -> (forall l, In l tab -> l < length h) ->
  flat_map (fun l => nth l (write_tab v tab c h) []) tab
  = flat_map (fun k => entries_of k c) (seq v (length tab)).
Proof.
  revert v h; induction tab as [|a r IH]; intros v h Hd Hr; simpl; auto.
  inversion Hd; subst. f_equal.
  - rewrite write_tab_other by assumption. apply nth_set_nth_eq. apply Hr; left; reflexivity.
  - apply IH; auto. intros l Hl. rewrite set_nth_length. apply Hr; right; assumption.
Qed.

(** * Requests: what the operated simulation sees, what the others see *)

Section StepOn.
  Variable sy : sys.
  Variable w : world.
  Hypothesis Hwf : wf w.
  Variables (i : nat) (sm : simu) (r : request).
  Hypothesis Hi : nth_error (sims w) i = Some sm.

  Lemma step_on_local :
    view (fst (step_on sy w i r)) i = Some (fst (solo_step sy (view_of w sm) (LReq r)))
    /\ snd (step_on sy w i r) = snd (solo_step sy (view_of w sm) (LReq r)).
  Proof.
    destruct Hwf as [Hd Hr Hid Hir].
    unfold step_on, solo_step. rewrite Hi. cbn [view_of lv_pop lv_st lv_nv lv_trace].
    destruct (step (enough_fuel sy) sy (s_pop sm) (sim_state w sm) r) as [s1 a] eqn:Es.
    assert (Hcache : forall h' iv' sm', s_tab sm' = s_tab sm ->
              sim_cache {| stores := write_tab 0 (s_tab sm) (cache s1) (stores w); invs := iv'; sims := h' |} sm'
              = regroup (length (s_tab sm)) (cache s1)).
    { intros h' iv' sm' Et. unfold sim_cache. cbn [stores]. rewrite Et. unfold regroup.
      apply write_tab_read; [eapply tab_nodup; eauto|]. intros l Hl. apply Hr. eapply in_all_locs; eauto. }
    assert (Hil : s_inv sm < length (invs w)) by (apply Hir; eapply in_all_invs; eauto).
    destruct (marks_at_first_purge sy (s_pop sm) (sim_state w sm) r) as [m|]; cbn [fst snd]; split; try reflexivity.
    - unfold view. cbn [sims]. rewrite nth_error_set_nth_eq by (eapply nth_error_lt; eauto).
      cbn [option_map]. f_equal. unfold view_of. cbn [s_tab s_trace s_pop]. f_equal.
      unfold sim_state. f_equal.
      + apply Hcache. reflexivity.
      + unfold sim_invalid. cbn [s_inv invs]. rewrite app_nth2; rewrite set_nth_length; [|lia].
        rewrite Nat.sub_diag. reflexivity.
    - unfold view. cbn [sims]. rewrite Hi. cbn [option_map]. f_equal. unfold view_of. f_equal.
      unfold sim_state. f_equal.
      + apply Hcache. reflexivity.
      + unfold sim_invalid. cbn [invs]. apply nth_set_nth_eq. assumption.
  Qed.

  Lemma step_on_frame : forall j sj, j <> i -> nth_error (sims w) j = Some sj ->
    view (fst (step_on sy w i r)) j = Some (view_of w sj).
  Proof.
    intros j sj Hji Hj. destruct Hwf as [Hd Hr Hid Hir].
    unfold step_on. rewrite Hi.
    destruct (step (enough_fuel sy) sy (s_pop sm) (sim_state w sm) r) as [s1 a] eqn:Es.
    assert (Hcache : forall h' iv',
              sim_cache {| stores := write_tab 0 (s_tab sm) (cache s1) (stores w); invs := iv'; sims := h' |} sj
              = sim_cache w sj).
    { intros h' iv'. unfold sim_cache. cbn [stores]. apply flat_map_ext_in. intros l Hl.
      apply write_tab_other. intro Hin. eapply (tabs_disjoint w j i sj sm l); eauto. }
    assert (Hne : s_inv sm <> s_inv sj) by (eapply (invs_distinct w i j); eauto).
    assert (Hjl : s_inv sj < length (invs w)) by (apply Hir; eapply in_all_invs; eauto).
    destruct (marks_at_first_purge sy (s_pop sm) (sim_state w sm) r) as [m|]; cbn [fst].
    - unfold view. cbn [sims]. rewrite nth_error_set_nth_neq by congruence. rewrite Hj.
      cbn [option_map]. f_equal. unfold view_of. f_equal. unfold sim_state. f_equal.
      + apply Hcache.
      + unfold sim_invalid. cbn [invs]. rewrite app_nth1 by (rewrite set_nth_length; assumption).
        apply nth_set_nth_neq. assumption.
    - unfold view. cbn [sims]. rewrite Hj. cbn [option_map]. f_equal. unfold view_of. f_equal.
      unfold sim_state. f_equal.
      + apply Hcache.
      + unfold sim_invalid. cbn [invs]. apply nth_set_nth_neq. assumption.
  Qed.

  Lemma step_on_wf : wf (fst (step_on sy w i r)).
  Proof.
    destruct Hwf as [Hd Hr Hid Hir]. unfold step_on. rewrite Hi.
    destruct (step (enough_fuel sy) sy (s_pop sm) (sim_state w sm) r) as [s1 a] eqn:Es.
    destruct (marks_at_first_purge sy (s_pop sm) (sim_state w sm) r) as [m|]; cbn [fst].
    - assert (El : all_locs {| stores := write_tab 0 (s_tab sm) (cache s1) (stores w);
                               invs := set_nth (invs w) (s_inv sm) m ++ [invalid s1];
                               sims := set_nth (sims w) i {| s_tab := s_tab sm; s_inv := length (invs w);
                                                             s_trace := s_trace sm; s_pop := s_pop sm |} |}
                   = all_locs w).
      { unfold all_locs. cbn [sims]. eapply flat_map_set_nth_same; eauto. }
      constructor.
      + rewrite El. assumption.
      + rewrite El. cbn [stores]. rewrite write_tab_length. assumption.
      + unfold all_invs. cbn [sims]. rewrite map_set_nth. cbn [s_inv].
        apply NoDup_set_nth_fresh; assumption.
      + unfold all_invs. cbn [sims invs]. rewrite map_set_nth. cbn [s_inv]. intros l Hl.
        rewrite app_length, set_nth_length. cbn [length]. apply in_set_nth in Hl.
        destruct Hl as [Hl| ->]; [specialize (Hir l Hl)|]; lia.
    - constructor; unfold all_locs, all_invs in *; cbn [sims stores invs].
      + assumption.
      + rewrite write_tab_length. assumption.
      + assumption.
      + rewrite set_nth_length. assumption.
  Qed.
End StepOn.

(** * Trace toggles *)

Lemma set_trace_local w i sm b : nth_error (sims w) i = Some sm ->
  view (set_trace w i b) i = Some (fst (solo_step (mk_sys [] [] [] 0) (view_of w sm) (LTrace b))).
Proof.
  intros Hi. unfold set_trace, view. rewrite Hi. cbn [sims].
  rewrite nth_error_set_nth_eq by (eapply nth_error_lt; eauto). reflexivity.
Qed.

Lemma set_trace_frame w i b j : j <> i -> view (set_trace w i b) j = view w j.
Proof.
  intros Hji. unfold set_trace, view. destruct (nth_error (sims w) i) as [sm|] eqn:Hi; auto.
  cbn [sims]. rewrite nth_error_set_nth_neq by congruence. reflexivity.
Qed.

Lemma set_trace_wf w i b : wf w -> wf (set_trace w i b).
Proof.
  intros [Hd Hr Hid Hir]. unfold set_trace. destruct (nth_error (sims w) i) as [sm|] eqn:Hi; [|constructor; assumption].
  assert (El : forall iv st, all_locs {| stores := st; invs := iv;
                 sims := set_nth (sims w) i {| s_tab := s_tab sm; s_inv := s_inv sm; s_trace := b; s_pop := s_pop sm |} |}
               = all_locs w).
  { intros. unfold all_locs. cbn [sims]. eapply flat_map_set_nth_same; eauto. }
  assert (Ei : forall iv st, all_invs {| stores := st; invs := iv;
                 sims := set_nth (sims w) i {| s_tab := s_tab sm; s_inv := s_inv sm; s_trace := b; s_pop := s_pop sm |} |}
               = all_invs w).
  { intros. unfold all_invs. cbn [sims]. rewrite map_set_nth. cbn [s_inv].
    clear - Hi. revert i Hi. induction (sims w) as [|a t IH]; intros [|i] Hi; simpl in *; try discriminate; auto.
    - inversion Hi; subst; reflexivity.
    - f_equal. apply IH. assumption. }
  constructor; rewrite ?El, ?Ei; assumption.
Qed.

(** * clone *)

Lemma clone_tab_spec pol : forall tab v h, (forall l, In l tab -> l < length h) ->
  let '(h', t') := clone_tab pol v tab h in
  length h <= length h'
  /\ (forall l, l < length h -> nth l h' [] = nth l h [])
  /\ length t' = length tab
  /\ flat_map (fun l => nth l h' []) t' = flat_map (fun l => nth l h []) tab
  /\ (forall l, In l t' -> l < length h').
Proof.
  induction tab as [|a r IH]; intros v h Hr; simpl.
  - repeat split; auto; try (intros ? []).
  - destruct (pol v).
    + specialize (IH (S v) (h ++ [nth a h []])).
      destruct (clone_tab pol (S v) r (h ++ [nth a h []])) as [h' t'].
      destruct IH as (H1 & H2 & H3 & H4 & H5).
      { intros l Hl. rewrite app_length. simpl. specialize (Hr l (or_intror Hl)). lia. }
      rewrite app_length in *. simpl in *.
      assert (Hold : forall l, l < length h -> nth l h' [] = nth l h []).
      { intros l Hl. rewrite H2 by lia. apply app_nth1. assumption. }
      repeat split; try lia; auto.
      * f_equal.
        -- rewrite H2 by lia. rewrite app_nth2 by lia. rewrite Nat.sub_diag. reflexivity.
        -- rewrite H4. apply flat_map_ext_in. intros l Hl. apply app_nth1. apply Hr; right; assumption.
      * intros l [<-|Hl]; [lia | apply H5; assumption].
    + specialize (IH (S v) h).
      destruct (clone_tab pol (S v) r h) as [h' t'].
      destruct IH as (H1 & H2 & H3 & H4 & H5).
      { intros l Hl. apply Hr; right; assumption. }
      simpl. repeat split; auto.
      * f_equal; auto. apply H2. apply Hr; left; reflexivity.
      * intros l [<-|Hl]; [specialize (Hr a (or_introl eq_refl)); lia | apply H5; assumption].
Qed.

Lemma clone_tab_copy : forall tab v h, (forall l, In l tab -> l < length h) ->
  clone_tab (fun _ => ACopy) v tab h
  = (h ++ map (fun l => nth l h []) tab, seq (length h) (length tab)).
Proof.
  induction tab as [|a r IH]; intros v h Hr; simpl.
  - rewrite app_nil_r. reflexivity.
  - rewrite IH.
    + rewrite app_length. simpl. rewrite Nat.add_1_r. rewrite <- app_assoc. simpl. f_equal. f_equal. f_equal.
      apply map_ext_in. intros l Hl. apply app_nth1. apply Hr; right; assumption.
    + intros l Hl. rewrite app_length. simpl. specialize (Hr l (or_intror Hl)). lia.
Qed.

(** for EVERY allocation policy: right after clone the new simulation shows exactly what
    the cloned one shows (apart from the requested trace flag), and every simulation that
    existed before shows what it showed *)
Lemma clone_views pol w i sm tr : wf w -> nth_error (sims w) i = Some sm ->
  view (clone pol w i tr) (length (sims w)) = Some (retraced (view_of w sm) tr)
  /\ (forall j sj, nth_error (sims w) j = Some sj -> view (clone pol w i tr) j = Some (view_of w sj))
  /\ length (sims (clone pol w i tr)) = S (length (sims w)).
Proof.
  intros [Hd Hr Hid Hir] Hi. unfold clone. rewrite Hi.
  pose proof (clone_tab_spec (pol_store pol) (s_tab sm) 0 (stores w)) as Hs.
  destruct (clone_tab (pol_store pol) 0 (s_tab sm) (stores w)) as [h tab].
  destruct Hs as (H1 & H2 & H3 & H4 & H5); [intros l Hl; apply Hr; eapply in_all_locs; eauto|].
  assert (Hil : s_inv sm < length (invs w)) by (apply Hir; eapply in_all_invs; eauto).
  set (ivil := match pol_inv pol with
               | AShare => (invs w, s_inv sm)
               | ACopy => (invs w ++ [sim_invalid w sm], length (invs w))
               end).
  assert (Hiv : nth (snd ivil) (fst ivil) [] = sim_invalid w sm
                /\ forall l, l < length (invs w) -> nth l (fst ivil) [] = nth l (invs w) []).
  { unfold ivil. destruct (pol_inv pol); cbn [fst snd].
    - split; [rewrite app_nth2, Nat.sub_diag by lia; reflexivity | intros; apply app_nth1; assumption].
    - split; reflexivity. }
  destruct ivil as [iv il]. cbn [fst snd] in Hiv. destruct Hiv as [Hiv1 Hiv2].
  split; [|split].
  - unfold view. cbn [sims]. rewrite nth_error_app2, Nat.sub_diag by lia. cbn [nth_error option_map].
    f_equal. unfold view_of, retraced. cbn [s_tab s_trace s_pop lv_st lv_nv lv_trace lv_pop]. f_equal; auto.
    unfold sim_state. f_equal.
    + unfold sim_cache. cbn [stores s_tab]. assumption.
    + unfold sim_invalid at 1. cbn [invs s_inv]. assumption.
  - intros j sj Hj. unfold view. cbn [sims].
    rewrite nth_error_app1 by (eapply nth_error_lt; eauto). rewrite Hj. cbn [option_map].
    f_equal. unfold view_of. f_equal. unfold sim_state. f_equal.
    + unfold sim_cache. cbn [stores]. apply flat_map_ext_in. intros l Hl. apply H2. apply Hr.
      eapply in_all_locs; eauto.
    + unfold sim_invalid. cbn [invs]. apply Hiv2. apply Hir. eapply in_all_invs; eauto.
  - cbn [sims]. rewrite app_length. simpl. lia.
Qed.

Lemma clone_isolated_wf w i tr : wf w -> wf (clone pol_isolated w i tr).
Proof.
  intros Hwf. pose proof Hwf as [Hd Hr Hid Hir]. unfold clone.
  destruct (nth_error (sims w) i) as [sm|] eqn:Hi; [|assumption].
  cbn [pol_isolated pol_store pol_inv].
  rewrite clone_tab_copy by (intros l Hl; apply Hr; eapply in_all_locs; eauto).
  constructor; unfold all_locs, all_invs; cbn [sims stores invs]; rewrite ?flat_map_app, ?map_app; simpl;
    rewrite ?app_nil_r.
  - apply NoDup_app_intro; [assumption | apply seq_NoDup |].
    intros x Hx Hs. apply in_seq in Hs. specialize (Hr x Hx). lia.
  - intros l Hl. rewrite app_length, map_length. apply in_app_or in Hl. destruct Hl as [Hl|Hl].
    + specialize (Hr l Hl). lia.
    + apply in_seq in Hl. lia.
  - apply NoDup_app_intro; [assumption | repeat constructor; intros [] |].
    intros x Hx [<-|[]]. specialize (Hir _ Hx). lia.
  - intros l Hl. rewrite app_length. simpl. apply in_app_or in Hl. destruct Hl as [Hl|[<-|[]]].
    + specialize (Hir l Hl). lia.
    + lia.
Qed.

Lemma winit_wf nv pp tr : wf (winit nv pp tr).
Proof.
  constructor; unfold all_locs, all_invs, winit; cbn [sims stores invs flat_map map s_tab s_inv].
  - rewrite app_nil_r. apply seq_NoDup.
  - intros l Hl. rewrite app_nil_r in Hl. apply in_seq in Hl. rewrite repeat_length. lia.
  - repeat constructor. intros [].
  - intros l [<-|[]]. simpl. lia.
Qed.

(** * Interleaved runs under the copying clone *)

Lemma wstep_isolated_wf sy w o : wf w -> wf (fst (wstep pol_isolated sy w o)).
Proof.
  intros Hwf. destruct o as [i r|i tr|i b]; cbn [wstep fst].
  - destruct (nth_error (sims w) i) as [sm|] eqn:Hi.
    + eapply step_on_wf; eauto.
    + unfold step_on. rewrite Hi. assumption.
  - apply clone_isolated_wf; assumption.
  - apply set_trace_wf; assumption.
Qed.

(** one step of the world, seen from simulation [i] *)
Lemma wstep_view pol sy w o i x : wf w -> view w i = Some x ->
  match own_op i o with
  | Some l => view (fst (wstep pol sy w o)) i = Some (fst (solo_step sy x l))
              /\ snd (wstep pol sy w o) = snd (solo_step sy x l)
  | None => view (fst (wstep pol sy w o)) i = Some x
  end.
Proof.
  intros Hwf Hv. unfold view in Hv. destruct (nth_error (sims w) i) as [sm|] eqn:Hi; [|discriminate].
  cbn [option_map] in Hv. inversion Hv; subst x; clear Hv.
  destruct o as [j r|j tr|j b]; cbn [own_op wstep].
  - destruct (Nat.eqb_spec j i) as [->|Hji].
    + apply step_on_local; assumption.
    + destruct (nth_error (sims w) j) as [sj|] eqn:Hj.
      * eapply step_on_frame; eauto.
      * unfold step_on. rewrite Hj. cbn [fst]. unfold view. rewrite Hi. reflexivity.
  - cbn [fst]. destruct (nth_error (sims w) j) as [sj|] eqn:Hj.
    + destruct (clone_views pol w j sj tr Hwf Hj) as (_ & H & _). apply H. assumption.
    + unfold clone. rewrite Hj. unfold view. rewrite Hi. reflexivity.
  - destruct (Nat.eqb_spec j i) as [->|Hji]; cbn [fst snd].
    + split; [|reflexivity]. rewrite (set_trace_local w i sm b Hi). reflexivity.
    + rewrite set_trace_frame by congruence. unfold view. rewrite Hi. reflexivity.
Qed.

Theorem wrun_isolated sy : forall os w i x, wf w -> view w i = Some x ->
  view (fst (wrun pol_isolated sy w os)) i = Some (fst (solo_run sy x (own_ops i os)))
  /\ own_answers i os (snd (wrun pol_isolated sy w os)) = snd (solo_run sy x (own_ops i os)).
Proof.
  induction os as [|o rest IH]; intros w i x Hwf Hv; cbn [wrun own_ops solo_run own_answers fst snd].
  - split; [assumption|reflexivity].
  - pose proof (wstep_view pol_isolated sy w o i x Hwf Hv) as Hstep.
    pose proof (wstep_isolated_wf sy w o Hwf) as Hwf1.
    destruct (wstep pol_isolated sy w o) as [w1 a] eqn:Ew. cbn [fst snd] in *.
    destruct (own_op i o) as [l|] eqn:Eo.
    + destruct Hstep as [Hv1 Ha]. specialize (IH w1 i _ Hwf1 Hv1).
      destruct (wrun pol_isolated sy w1 rest) as [w2 la]. cbn [own_answers fst snd] in *. rewrite ?Eo.
      cbn [solo_run]. destruct (solo_step sy x l) as [x1 a1]. cbn [fst snd] in *.
      destruct (solo_run sy x1 (own_ops i rest)) as [x2 l2]. cbn [fst snd] in *.
      destruct IH as [IH1 IH2]. split; [assumption|]. subst a. f_equal. assumption.
    + specialize (IH w1 i x Hwf1 Hstep).
      destruct (wrun pol_isolated sy w1 rest) as [w2 la]. cbn [own_answers fst snd] in *. rewrite ?Eo.
      assumption.
Qed.

Lemma own_ops_keeps i os : own_ops i (filter (keeps i) os) = own_ops i os.
Proof.
  induction os as [|o rest IH]; simpl; auto.
  destruct o as [j r|j tr|j b]; simpl; auto; destruct (Nat.eqb j i) eqn:E; simpl; rewrite ?E, ?IH; auto.
Qed.

(** a world reachable from a freshly built simulation by any operations satisfies the invariant *)
Lemma reachable_wf sy nv pp tr os : wf (fst (wrun pol_isolated sy (winit nv pp tr) os)).
Proof.
  assert (H : forall os w, wf w -> wf (fst (wrun pol_isolated sy w os))).
  { clear. induction os as [|o rest IH]; intros w Hwf; cbn [wrun]; [assumption|].
    pose proof (wstep_isolated_wf sy w o Hwf) as H1.
    destruct (wstep pol_isolated sy w o) as [w1 a]. specialize (IH w1 H1).
    destruct (wrun pol_isolated sy w1 rest) as [w2 l]. assumption. }
  apply H. apply winit_wf.
Qed.

(** * The property, for an arbitrary allocation policy *)

(** After [w := clone w0 i], for every interleaved sequence [os] of operations (requests on
    any simulation, trace toggles, further clones) and for both sides - the cloned
    simulation [i] and the new one - the state shown by that side at the end, and every
    answer it was given, are those of the side operated alone, a function of what it
    showed right after the clone and of its own operations only. *)
Definition clone_isolated_for (pol : policy) : Prop :=
  forall sy w0 i tr, wf w0 -> i < length (sims w0) ->
  let w := clone pol w0 i tr in
  forall side, side = i \/ side = length (sims w0) ->
  exists x, view w side = Some x /\
    forall os,
      view (fst (wrun pol sy w os)) side = Some (fst (solo_run sy x (own_ops side os)))
      /\ own_answers side os (snd (wrun pol sy w os)) = snd (solo_run sy x (own_ops side os)).

Theorem clone_isolated_holds : clone_isolated_for pol_isolated.
Proof.
  intros sy w0 i tr Hwf Hi w side Hside.
  destruct (nth_error (sims w0) i) as [sm|] eqn:Hsm; [|apply nth_error_None in Hsm; lia].
  destruct (clone_views pol_isolated w0 i sm tr Hwf Hsm) as (Hnew & Hold & _).
  assert (Hwfw : wf w) by (apply clone_isolated_wf; assumption).
  destruct Hside as [->| ->].
  - exists (view_of w0 sm). split; [apply Hold; assumption|].
    intros os. apply wrun_isolated; [assumption | apply Hold; assumption].
  - exists (retraced (view_of w0 sm) tr). split; [assumption|].
    intros os. apply wrun_isolated; assumption.
Qed.

(** * Witnesses against the sharing clones *)

Definition wit_pop : popu :=
  {| grp := {| Group.g_entity := {| Group.e_key := "household"%string; Group.e_roles := []; Group.e_containing := [] |};
               Group.g_count := 1; Group.g_ids := [0; 0]; Group.g_roles := [0; 0] |} |}.
Definition m18 (m : Z) : period := (Month, (2018, m, 1)%Z, 1%Z).

(** one monthly input variable; the clone sets an input; the original is asked for it *)
Definition wit_sys_input : sys :=
  {| vars := [ mk_var EPerson TInt Month None [] 0%Z false false ]; params := []; switches := []; max_loops := 1 |}.
Definition wit_ops_input : list op := [ OpOn 1 (RSetInput 0 (m18 2) [7; 8]%Z); OpOn 0 (RGet 0 (m18 2)) ].

(** v0 = v0@last_month + 1: the original's calculation marks entries; the set of marks is
    the clone's too, and the clone's next calculation purges its own input with them *)
Definition wit_sys_spiral : sys :=
  {| vars := [ mk_var EPerson TInt Month None [((1, 1, 1)%Z, EBin BAdd (EDep 0 PLastMonth OPlain) (EConst 1))] 0%Z false false ];
     params := []; switches := []; max_loops := 1 |}.
Definition wit_ops_spiral : list op :=
  [ OpOn 0 (RCalc 0 (m18 3)); OpOn 1 (RSetInput 0 (m18 2) [50; 60]%Z); OpOn 1 (RCalc 0 (m18 3));
    OpOn 1 (RGet 0 (m18 2)) ].

Lemma refute (pol : policy) sy os side (Hside : side = 0 \/ side = 1) :
  (forall x, view (clone pol (winit 1 wit_pop false) 0 false) side = Some x ->
     own_answers side os (snd (wrun pol sy (clone pol (winit 1 wit_pop false) 0 false) os))
     <> snd (solo_run sy x (own_ops side os))) ->
  ~ clone_isolated_for pol.
Proof.
  intros Hne H.
  specialize (H sy (winit 1 wit_pop false) 0 false (winit_wf _ _ _) (Nat.lt_0_1) side Hside).
  destruct H as (x & Hx & H). destruct (H os) as [_ Ha]. exact (Hne x Hx Ha).
Qed.

(** before any repair: the original reads the input that was given to the clone *)
Theorem clone_shared_interferes : ~ clone_isolated_for pol_shared.
Proof.
  apply (refute pol_shared wit_sys_input wit_ops_input 0 (or_introl eq_refl)).
  intros x Hx. vm_compute in Hx. inversion Hx; subst x. vm_compute. discriminate.
Qed.

(** in-memory stores copied, on-disk stores shared: same witness with the variable on disk *)
Theorem clone_disk_shared_interferes : ~ clone_isolated_for (pol_memory_only [true]).
Proof.
  apply (refute (pol_memory_only [true]) wit_sys_input wit_ops_input 0 (or_introl eq_refl)).
  intros x Hx. vm_compute in Hx. inversion Hx; subst x. vm_compute. discriminate.
Qed.

(** all value stores copied, invalidated_caches shared: the clone loses its own input *)
Theorem clone_invalid_shared_interferes : ~ clone_isolated_for (pol_memory_only [false]).
Proof.
  apply (refute (pol_memory_only [false]) wit_sys_spiral wit_ops_spiral 1 (or_intror eq_refl)).
  intros x Hx. vm_compute in Hx. inversion Hx; subst x. vm_compute. discriminate.
Qed.

(** * The same statements over the worlds that can actually arise: anything reachable from
    a freshly built simulation by any sequence of operations (no invariant in sight) *)

Definition isolated_after_clone (pol : policy) : Prop :=
  forall sy nv pp tr0 pre i tr,
  let w0 := fst (wrun pol sy (winit nv pp tr0) pre) in
  i < length (sims w0) ->
  let w := clone pol w0 i tr in
  forall side, side = i \/ side = length (sims w0) ->
  exists x, view w side = Some x /\
    forall os,
      view (fst (wrun pol sy w os)) side = Some (fst (solo_run sy x (own_ops side os)))
      /\ own_answers side os (snd (wrun pol sy w os)) = snd (solo_run sy x (own_ops side os)).

Lemma isolated_after_clone_holds : isolated_after_clone pol_isolated.
Proof.
  intros sy nv pp tr0 pre i tr w0 Hi w side Hside.
  exact (clone_isolated_holds sy w0 i tr (reachable_wf sy nv pp tr0 pre) Hi side Hside).
Qed.

(** in the words of the property: what a side shows after the interleaved run is what it
    shows after the run from which every operation of the other parties was removed *)
Lemma isolated_vs_own_run : forall sy nv pp tr0 pre i tr,
  let w0 := fst (wrun pol_isolated sy (winit nv pp tr0) pre) in
  i < length (sims w0) ->
  let w := clone pol_isolated w0 i tr in
  forall side, side = i \/ side = length (sims w0) ->
  forall os,
    view (fst (wrun pol_isolated sy w os)) side = view (fst (wrun pol_isolated sy w (filter (keeps side) os))) side
    /\ own_answers side os (snd (wrun pol_isolated sy w os))
       = own_answers side (filter (keeps side) os) (snd (wrun pol_isolated sy w (filter (keeps side) os))).
Proof.
  intros sy nv pp tr0 pre i tr w0 Hi w side Hside os.
  destruct (isolated_after_clone_holds sy nv pp tr0 pre i tr Hi side Hside) as (x & _ & H).
  destruct (H os) as [H1 H2]. destruct (H (filter (keeps side) os)) as [H3 H4].
  rewrite own_ops_keeps in H3, H4. fold w0 w in H1, H2, H3, H4. split; congruence.
Qed.

(** every simulation of a reachable world, not only the two sides of the latest clone *)
Lemma isolated_any_simulation : forall sy nv pp tr0 pre i x os,
  let w := fst (wrun pol_isolated sy (winit nv pp tr0) pre) in
  view w i = Some x ->
  view (fst (wrun pol_isolated sy w os)) i = Some (fst (solo_run sy x (own_ops i os)))
  /\ own_answers i os (snd (wrun pol_isolated sy w os)) = snd (solo_run sy x (own_ops i os)).
Proof.
  intros sy nv pp tr0 pre i x os w Hv. apply wrun_isolated; [apply reachable_wf | assumption].
Qed.

Lemma clone_equal_reachable : forall pol sy nv pp tr0 pre i tr x,
  let w0 := fst (wrun pol_isolated sy (winit nv pp tr0) pre) in
  view w0 i = Some x ->
  let w := clone pol w0 i tr in
  length (sims w) = S (length (sims w0))
  /\ view w (length (sims w0)) = Some (retraced x tr)
  /\ forall j, j < length (sims w0) -> view w j = view w0 j.
Proof.
  intros pol sy nv pp tr0 pre i tr x w0 Hv w.
  unfold view in Hv. destruct (nth_error (sims w0) i) as [sm|] eqn:Hi; [|discriminate].
  cbn [option_map] in Hv. inversion Hv; subst x; clear Hv.
  destruct (clone_views pol w0 i sm tr (reachable_wf sy nv pp tr0 pre) Hi) as (H1 & H2 & H3).
  split; [assumption|]. split; [assumption|].
  intros j Hj. destruct (nth_error (sims w0) j) as [sj|] eqn:Ej; [|apply nth_error_None in Ej; lia].
  subst w. rewrite (H2 j sj Ej). unfold view. rewrite Ej. reflexivity.
Qed.

(** the cells of the clone are the clone's own: no other simulation reaches them *)
Lemma clone_owns_its_cells : forall sy nv pp tr0 pre i tr,
  let w0 := fst (wrun pol_isolated sy (winit nv pp tr0) pre) in
  let w := clone pol_isolated w0 i tr in
  forall c sc j sj, c <> j -> nth_error (sims w) c = Some sc -> nth_error (sims w) j = Some sj ->
  NoDup (s_tab sc) /\ (forall l, In l (s_tab sc) -> ~ In l (s_tab sj)) /\ s_inv sc <> s_inv sj.
Proof.
  intros sy nv pp tr0 pre i tr w0 w c sc j sj Hcj Hc Hj.
  assert (Hwf : wf w) by (apply clone_isolated_wf; apply reachable_wf).
  destruct Hwf as [Hd Hr Hid Hir]. split; [|split].
  - eapply tab_nodup; eauto.
  - intros l Hl. eapply tabs_disjoint; eauto.
  - eapply invs_distinct; eauto.
Qed.

Lemma refute_reachable (pol : policy) sy os side (Hside : side = 0 \/ side = 1) :
  (forall x, view (clone pol (winit 1 wit_pop false) 0 false) side = Some x ->
     own_answers side os (snd (wrun pol sy (clone pol (winit 1 wit_pop false) 0 false) os))
     <> snd (solo_run sy x (own_ops side os))) ->
  ~ isolated_after_clone pol.
Proof.
  intros Hne H.
  specialize (H sy 1 wit_pop false [] 0 false (Nat.lt_0_1) side Hside).
  destruct H as (x & Hx & H). destruct (H os) as [_ Ha]. exact (Hne x Hx Ha).
Qed.

Theorem shared_clone_refuted : ~ isolated_after_clone pol_shared.
Proof.
  apply (refute_reachable pol_shared wit_sys_input wit_ops_input 0 (or_introl eq_refl)).
  intros x Hx. vm_compute in Hx. inversion Hx; subst x. vm_compute. discriminate.
Qed.

Theorem disk_shared_clone_refuted : ~ isolated_after_clone (pol_memory_only [true]).
Proof.
  apply (refute_reachable (pol_memory_only [true]) wit_sys_input wit_ops_input 0 (or_introl eq_refl)).
  intros x Hx. vm_compute in Hx. inversion Hx; subst x. vm_compute. discriminate.
Qed.

Theorem invalid_shared_clone_refuted : ~ isolated_after_clone (pol_memory_only [false]).
Proof.
  apply (refute_reachable (pol_memory_only [false]) wit_sys_spiral wit_ops_spiral 1 (or_intror eq_refl)).
  intros x Hx. vm_compute in Hx. inversion Hx; subst x. vm_compute. discriminate.
Qed.
