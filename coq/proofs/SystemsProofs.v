(** Proofs about derived tax-benefit systems (model/Systems.v). *)
From Coq Require Import ZArith List Bool Arith Lia.
From Verif Require Import Base Obs Cal Tables Period Np Group Param Engine EngineProofs ParamProofs Systems.
Import ListNotations.
Open Scope nat_scope.
Local Notation length := List.length.

(** * The base system is rendered as itself *)

Lemma has_wrapped_fresh (l : list (date * expr)) :
  has_wrapped (map (fun de => (fst de, snd de, false)) l) = false.
Proof. unfold has_wrapped. induction l as [|[d e] l IH]; cbn; auto. Qed.

Lemma plain_fresh (l : list (date * expr)) :
  plain (map (fun de => (fst de, snd de, false)) l) = l.
Proof. unfold plain. induction l as [|[d e] l IH]; cbn; [reflexivity|now rewrite IH]. Qed.

Lemma to_var_of_var y0 ny v x : to_var y0 ny v (of_var x) = x.
Proof.
  destruct x. unfold to_var, of_var, rendered; cbn.
  rewrite has_wrapped_fresh, andb_false_r, plain_fresh. reflexivity.
Qed.

Lemma to_vars_of_vars y0 ny l : forall v, to_vars y0 ny v (map of_var l) = l.
Proof. induction l as [|x l IH]; intro v; cbn; [reflexivity|]. now rewrite to_var_of_var, IH. Qed.

Lemma to_sys_of_sys y0 ny sy : to_sys y0 ny (of_sys sy) = sy.
Proof. destruct sy. unfold to_sys, of_sys; cbn. now rewrite to_vars_of_vars. Qed.
