(** Proofs about derived tax-benefit systems (model/Systems.v). *)
From Coq Require Import ZArith List Bool Arith Lia.
From Verif Require Import Base Obs Cal Tables Period Np Group Param Engine EngineProofs ParamProofs Systems.
Import ListNotations.
Open Scope nat_scope.
Local Notation length := List.length.

(** * The base system is rendered as itself *)

Lemma has_wrapped_fresh (l : list (date * expr)) :
  has_wrapped (map (fun de => (fst de, snd de, false)) l) = false.
Proof. unfold has_wrapped. induction l as [|[d e] l IH]; cbn; auto. Qed.

Lemma plain_fresh (l : list (date * expr)) :
  plain (map (fun de => (fst de, snd de, false)) l) = l.
Proof. unfold plain. induction l as [|[d e] l IH]; cbn; [reflexivity|now rewrite IH]. Qed.

Lemma to_var_of_var y0 ny v x : to_var y0 ny v (of_var x) = x.
Proof.
  destruct x. unfold to_var, of_var, rendered; cbn.
  rewrite has_wrapped_fresh, andb_false_r, plain_fresh. reflexivity.
Qed.

Lemma to_vars_of_vars y0 ny l : forall v, to_vars y0 ny v (map of_var l) = l.
Proof. induction l as [|x l IH]; intro v; cbn; [reflexivity|]. now rewrite to_var_of_var, IH. Qed.

Lemma to_sys_of_sys y0 ny sy : to_sys y0 ny (of_sys sy) = sy.
Proof. destruct sy. unfold to_sys, of_sys; cbn. now rewrite to_vars_of_vars. Qed.

(** * Lists *)

Lemma nth_error_set_nth_neq {A} (a : A) : forall l j i, i <> j -> nth_error (set_nth j a l) i = nth_error l i.
Proof.
  induction l as [|x l IH]; intros j i H; [destruct j; reflexivity|].
  destruct j as [|j], i as [|i]; cbn; try reflexivity; try congruence. apply IH. congruence.
Qed.

Lemma nth_error_set_nth_eq {A} (a : A) : forall l j, j < length l -> nth_error (set_nth j a l) j = Some a.
Proof.
  induction l as [|x l IH]; intros j H; cbn in H; [lia|].
  destruct j as [|j]; cbn; [reflexivity|]. apply IH. lia.
Qed.

Lemma length_set_nth {A} (a : A) : forall l j, length (set_nth j a l) = length l.
Proof. induction l as [|x l IH]; intros [|j]; cbn; auto. Qed.

Lemma nth_error_lt {A} (l : list A) i x : nth_error l i = Some x -> i < length l.
Proof. intro H. apply nth_error_Some. congruence. Qed.

(** * Frame: a derivation never touches another system *)

(** every entity object of system number i is bound to system number i *)
Definition entities_bound (w : world) : Prop :=
  forall i e id, nth_error (w_entries w) i = Some e -> In id (e_ents e) -> nth_error (w_heap w) id = Some i.

Lemma initial_bound s : entities_bound (initial s).
Proof.
  intros i e id Hi Hin. destruct i as [|i]; cbn in Hi; [|destruct i; discriminate].
  inversion Hi; subst e. cbn in Hin. destruct Hin as [<-|[<-|[]]]; reflexivity.
Qed.

(** what a modification of system j does to the world *)
Definition only_entry_changed (w w' : world) (j : nat) : Prop :=
  w_heap w' = w_heap w
  /\ length (w_entries w') = length (w_entries w)
  /\ (forall i, i <> j -> nth_error (w_entries w') i = nth_error (w_entries w) i)
  /\ (forall e', nth_error (w_entries w') j = Some e' ->
        exists e, nth_error (w_entries w) j = Some e /\ e_ents e' = e_ents e /\ e_base e' = e_base e).

Lemma only_entry_changed_refl w j : only_entry_changed w w j.
Proof. repeat split; auto. intros e' H. exists e'. auto. Qed.

Lemma only_entry_changed_trans w1 w2 w3 j :
  only_entry_changed w1 w2 j -> only_entry_changed w2 w3 j -> only_entry_changed w1 w3 j.
Proof.
  intros (A1 & A2 & A3 & A4) (B1 & B2 & B3 & B4). repeat split; try congruence.
  - intros i Hi. rewrite B3, A3; auto.
  - intros e3 H3. destruct (B4 e3 H3) as (e2 & H2 & E1 & E2).
    destruct (A4 e2 H2) as (e1 & H1 & F1 & F2). exists e1. repeat split; congruence.
Qed.

Lemma set_entry_changed w j e s :
  nth_error (w_entries w) j = Some e ->
  only_entry_changed w {| w_entries := set_nth j (with_sys e s) (w_entries w); w_heap := w_heap w |} j.
Proof.
  intro He. repeat split; cbn [w_entries w_heap].
  - apply length_set_nth.
  - intros i Hi. now apply nth_error_set_nth_neq.
  - intros e' H. rewrite nth_error_set_nth_eq in H by (eapply nth_error_lt; eauto).
    inversion H; subst e'. exists e. auto.
Qed.

Lemma apply_mod_frame w j m w' : apply_mod w j m = Ok w' -> only_entry_changed w w' j.
Proof.
  unfold apply_mod. destruct (nth_error (w_entries w) j) as [e|] eqn:He; [|discriminate].
  assert (G : forall s, only_entry_changed w
              {| w_entries := set_nth j (with_sys e s) (w_entries w); w_heap := w_heap w |} j)
    by (intro s; now apply set_entry_changed).
  destruct m; try (destruct (apply_var_mod (e_sys e) _); [|discriminate]; intro H; inversion H; subst; apply G).
  destruct (e_base e) as [b|]; [|discriminate].
  destruct (nth_error (w_entries w) b); [|discriminate].
  destruct (apply_param_updates _ _); [|discriminate]. intro H; inversion H; subst. apply G.
Qed.

Lemma apply_mods_frame ms : forall w j w', apply_mods w j ms = Ok w' -> only_entry_changed w w' j.
Proof.
  induction ms as [|m ms IH]; intros w j w' H; cbn in H.
  - inversion H; subst. apply only_entry_changed_refl.
  - destruct (apply_mod w j m) as [w1|] eqn:E; [|discriminate].
    eapply only_entry_changed_trans; [eapply apply_mod_frame; eauto|eauto].
Qed.

Lemma only_entry_changed_bound w w' j :
  only_entry_changed w w' j -> entities_bound w -> entities_bound w'.
Proof.
  intros (A1 & A2 & A3 & A4) Hb i e id Hi Hin. rewrite A1.
  destruct (Nat.eq_dec i j) as [->|Hne].
  - destruct (A4 e Hi) as (e0 & H0 & E1 & E2). rewrite E1 in Hin. eapply Hb; eauto.
  - rewrite A3 in Hi by exact Hne. eapply Hb; eauto.
Qed.

(** appending a system with freshly allocated entities *)
Lemma alloc_bound w e0 :
  entities_bound w ->
  entities_bound {| w_entries := w_entries w ++ [ {| e_sys := e_sys e0; e_base := e_base e0;
                                                    e_ents := seq (length (w_heap w)) nb_entities |} ];
                    w_heap := w_heap w ++ repeat (length (w_entries w)) nb_entities |}.
Proof.
  intros Hb i e id Hi Hin. cbn [w_entries w_heap] in *.
  destruct (Nat.lt_ge_cases i (length (w_entries w))) as [Hlt|Hge].
  - rewrite nth_error_app1 in Hi by exact Hlt.
    pose proof (Hb i e id Hi Hin) as H. rewrite nth_error_app1; [exact H|]. eapply nth_error_lt; eauto.
  - rewrite nth_error_app2 in Hi by exact Hge.
    destruct (i - length (w_entries w)) as [|k] eqn:Ek; cbn in Hi; [|destruct k; discriminate].
    inversion Hi; subst e. cbn [e_ents] in Hin. assert (i = length (w_entries w)) by lia. subst i.
    assert (Hid : length (w_heap w) <= id < length (w_heap w) + nb_entities).
    { unfold nb_entities in *. cbn in Hin. destruct Hin as [<-|[<-|[]]]; lia. }
    rewrite nth_error_app2 by lia.
    unfold nb_entities in *. cbn [repeat].
    destruct (id - length (w_heap w)) as [|[|k]] eqn:Ed; cbn; try reflexivity. lia.
Qed.

Lemma apply_dop_frame w o w' i e :
  apply_dop false w o = Ok w' -> entities_bound w -> target_of o <> Some i ->
  nth_error (w_entries w) i = Some e ->
  entities_bound w' /\ nth_error (w_entries w') i = Some e.
Proof.
  intros H Hb Ht Hi. destruct o as [i0|i0 ms|j m]; cbn [apply_dop] in H.
  - destruct (nth_error (w_entries w) i0) as [e0|]; [|discriminate].
    unfold alloc_entities in H. inversion H; subst w'; clear H. split.
    + apply (alloc_bound w {| e_sys := e_sys e0; e_base := e_base e0; e_ents := [] |} Hb).
    + cbn [w_entries]. rewrite nth_error_app1; [exact Hi|]. eapply nth_error_lt; eauto.
  - destruct (nth_error (w_entries w) i0) as [e0|]; [|discriminate].
    unfold alloc_entities in H.
    apply apply_mods_frame in H. pose proof H as (A1 & A2 & A3 & A4). split.
    + eapply only_entry_changed_bound; [exact H|].
      apply (alloc_bound w {| e_sys := e_sys e0; e_base := Some i0; e_ents := [] |} Hb).
    + rewrite A3; cbn [w_entries].
      * rewrite nth_error_app1; [exact Hi|]. eapply nth_error_lt; eauto.
      * apply nth_error_lt in Hi. lia.
  - apply apply_mod_frame in H. pose proof H as (A1 & A2 & A3 & A4). split.
    + eapply only_entry_changed_bound; eauto.
    + rewrite A3; [exact Hi|]. intro; subst. apply Ht. reflexivity.
Qed.

(** the observations of a system depend on its own entry only *)
Lemma resolve_bound w i e k id :
  entities_bound w -> nth_error (w_entries w) i = Some e -> nth_error (e_ents e) k = Some id ->
  resolve w i k = Some i.
Proof.
  intros Hb Hi Hk. unfold resolve. rewrite Hi, Hk. eapply Hb; eauto. eapply nth_error_In; eauto.
Qed.

Definition look_entry (e : entry) (nnames : nat) (ds : list Z) : obs :=
  OL [ look_table (e_sys e) nnames;
       OL (map (fun k => match nth_error (e_ents e) k with
                         | Some _ => look_table (e_sys e) nnames
                         | None => ONone
                         end) (seq 0 nb_entities));
       look_params (e_sys e) ds ].

Lemma look_bound w i e nnames ds :
  entities_bound w -> nth_error (w_entries w) i = Some e -> look w i nnames ds = look_entry e nnames ds.
Proof.
  intros Hb Hi. unfold look, sys_at, look_entry. rewrite Hi. cbn [option_map].
  f_equal. f_equal. f_equal. f_equal. apply map_ext. intro k. unfold sys_via_entity.
  destruct (nth_error (e_ents e) k) as [id|] eqn:Hk.
  - rewrite (resolve_bound w i e k id Hb Hi Hk). unfold sys_at. rewrite Hi. reflexivity.
  - unfold resolve. rewrite Hi, Hk. reflexivity.
Qed.

Theorem derivation_frame_lemma : forall os w i e,
  entities_bound w -> nth_error (w_entries w) i = Some e ->
  (forall o, In o os -> target_of o <> Some i) ->
  let w' := run_dops false w os in
  nth_error (w_entries w') i = Some e
  /\ entities_bound w'
  /\ (forall k id, nth_error (e_ents e) k = Some id -> resolve w' i k = Some i)
  /\ (forall nnames ds, look w' i nnames ds = look w i nnames ds)
  /\ (forall y0 ny pp s rs, eval_on y0 ny w' i pp s rs = eval_on y0 ny w i pp s rs)
  /\ (forall y0 ny pp inputs rs, eval_fresh y0 ny w' i pp inputs rs = eval_fresh y0 ny w i pp inputs rs)
  /\ (forall y0 ny pp inp v p, sem_in y0 ny w' i pp inp v p = sem_in y0 ny w i pp inp v p).
Proof.
  intros os w i e Hb Hi Ht.
  assert (G : nth_error (w_entries (run_dops false w os)) i = Some e /\ entities_bound (run_dops false w os)).
  { revert w Hb Hi. unfold run_dops. induction os as [|o os IH]; intros w Hb Hi; cbn [fold_left]; [auto|].
    assert (Hstep : entities_bound (do_dop false w o) /\ nth_error (w_entries (do_dop false w o)) i = Some e).
    { unfold do_dop. destruct (apply_dop false w o) as [w1|] eqn:E; [|auto].
      eapply apply_dop_frame; eauto. apply Ht. now left. }
    destruct Hstep as [Hb1 Hi1]. apply IH; auto. intros o' Ho'. apply Ht. now right. }
  destruct G as [Hi' Hb']. cbv zeta.
  repeat split; auto.
  - intros k id Hk. eapply resolve_bound; eauto.
  - intros. rewrite (look_bound _ i e _ _ Hb' Hi'), (look_bound _ i e _ _ Hb Hi). reflexivity.
  - intros. unfold eval_on, sys_at. now rewrite Hi', Hi.
  - intros. unfold eval_fresh, eval_on, sys_at. now rewrite Hi', Hi.
  - intros. unfold sem_in, sys_at. now rewrite Hi', Hi.
Qed.

(** * What each modification does to the system it is applied to *)

Lemma store_var_spec s name x s' :
  store_var s name x = Ok s' -> name < length (s_vars s) ->
  nth_error (s_vars s') name = Some x
  /\ (forall u, u <> name -> nth_error (s_vars s') u = nth_error (s_vars s) u)
  /\ length (s_vars s') = length (s_vars s)
  /\ s_params s' = s_params s /\ s_switches s' = s_switches s /\ s_loops s' = s_loops s.
Proof.
  unfold store_var. intros H Hlt. apply Nat.ltb_lt in Hlt. rewrite Hlt in H. inversion H; subst s'.
  apply Nat.ltb_lt in Hlt. cbn. repeat split; auto.
  - now apply nth_error_set_nth_eq.
  - intros u Hu. now apply nth_error_set_nth_neq.
  - apply length_set_nth.
Qed.

Definition decl {A} (o : option A) (inherited : A) : A := match o with Some a => a | None => inherited end.

(** Variable.__init__ with a baseline variable: attributes the class does not define are the
    baseline's; the formulas are the baseline's dated before the first new one, then the new. *)
Lemma instantiate_update x d x' :
  instantiate (Some x) d = Ok x' ->
  sv_ent x' = decl (d_ent d) (sv_ent x)
  /\ sv_type x' = decl (d_type d) (sv_type x)
  /\ sv_unit x' = decl (d_unit d) (sv_unit x)
  /\ sv_default x' = decl (d_default d) (sv_default x)
  /\ sv_end x' = match d_end d with Some e => Some e | None => sv_end x end
  /\ sv_neutral x' = false
  /\ sv_formulas x' = inherited (sv_formulas x) (d_formulas d) ++ fresh_formulas (d_formulas d).
Proof.
  unfold instantiate, or_else, decl. cbn [option_map].
  destruct (d_type d), (d_ent d), (d_unit d);
    match goal with |- context [if ?c then _ else _] => destruct c end;
    intro H; inversion H; subst x'; cbn; destruct (d_end d), (d_default d); repeat split; reflexivity.
Qed.

Lemma inherited_in b new f :
  In f (inherited b new) <->
  In f b /\ match new with [] => True | (d0, _) :: _ => date_ltb (f_start f) d0 = true end.
Proof.
  unfold inherited. destruct new as [|[d0 e0] r]; [tauto|]. rewrite filter_In. tauto.
Qed.

Lemma fresh_in new f : In f (fresh_formulas new) <-> f_wrapped f = false /\ In (f_start f, f_body f) new.
Proof.
  unfold fresh_formulas. rewrite in_map_iff. split.
  - intros ([s e] & <- & Hin). cbn. auto.
  - intros [Hw Hin]. exists (f_start f, f_body f). split; auto.
    destruct f as [[s e] w]. cbn in *. now subst w.
Qed.

Theorem update_inherits_lemma : forall s v d s' x,
  nth_error (s_vars s) v = Some x -> apply_var_mod s (UpdateVar v d) = Ok s' ->
  exists x', nth_error (s_vars s') v = Some x'
  /\ (forall u, u <> v -> nth_error (s_vars s') u = nth_error (s_vars s) u)
  /\ s_params s' = s_params s
  (* attributes the class does not define are kept *)
  /\ sv_ent x' = decl (d_ent d) (sv_ent x) /\ sv_type x' = decl (d_type d) (sv_type x)
  /\ sv_unit x' = decl (d_unit d) (sv_unit x) /\ sv_default x' = decl (d_default d) (sv_default x)
  /\ sv_end x' = match d_end d with Some e => Some e | None => sv_end x end
  /\ sv_neutral x' = false
  (* the formulas: exactly the earlier-dated old ones and the new ones *)
  /\ (forall f, In f (sv_formulas x') <->
        (In f (sv_formulas x)
         /\ match d_formulas d with [] => True | (d0, _) :: _ => date_ltb (f_start f) d0 = true end)
        \/ (f_wrapped f = false /\ In (f_start f, f_body f) (d_formulas d))).
Proof.
  intros s v d s' x Hx H. cbn [apply_var_mod] in H. rewrite Hx in H.
  destruct (instantiate (Some x) d) as [x'|] eqn:Ei; [|discriminate].
  destruct (store_var_spec s v x' s' H (nth_error_lt _ _ _ Hx)) as (S1 & S2 & S3 & S4 & _).
  destruct (instantiate_update x d x' Ei) as (A1 & A2 & A3 & A4 & A5 & A6 & A7).
  exists x'. repeat split; auto.
  - rewrite A7. intro Hin. apply in_app_or in Hin as [Hin|Hin].
    + left. now apply inherited_in.
    + right. now apply fresh_in.
  - rewrite A7. intros [Hin|Hin]; apply in_or_app.
    + left. now apply inherited_in.
    + right. now apply fresh_in.
Qed.

(** * Rendering of the variable table *)

Lemma nth_error_to_vars y0 ny : forall l k v,
  nth_error (to_vars y0 ny k l) v = option_map (to_var y0 ny (k + v)) (nth_error l v).
Proof.
  induction l as [|x l IH]; intros k v; [destruct v; reflexivity|].
  destruct v as [|v]; cbn [to_vars nth_error option_map].
  - now rewrite Nat.add_0_r.
  - rewrite IH. now replace (S k + v) with (k + S v) by lia.
Qed.

Lemma nth_error_to_sys y0 ny s v :
  nth_error (vars (to_sys y0 ny s)) v = option_map (to_var y0 ny v) (nth_error (s_vars s) v).
Proof. unfold to_sys; cbn [vars]. now rewrite nth_error_to_vars. Qed.

Lemma length_to_vars y0 ny : forall l k, length (to_vars y0 ny k l) = length l.
Proof. induction l as [|x l IH]; intro k; cbn; auto. Qed.

(** * Neutralised variables *)

Theorem neutralised_spec_lemma : forall y0 ny s v x s',
  nth_error (s_vars s) v = Some x -> apply_var_mod s (Neutralize v) = Ok s' ->
  let sy' := to_sys y0 ny s' in
  exists x', nth_error (vars sy') v = Some x'
  /\ v_default x' = sv_default x /\ v_unit x' = sv_unit x /\ v_ent x' = sv_ent x /\ v_neutral x' = true
  /\ (forall u, u <> v -> nth_error (s_vars s') u = nth_error (s_vars s) u)
  /\ s_params s' = s_params s
  (* the meaning is the default, whatever the inputs *)
  /\ (forall pp inp p, sem sy' pp inp v p =
        match check_consistency x' p with Err e => Err e | Ok _ => Ok (default_array pp x') end)
  (* so is the answer of the machine, in any state *)
  /\ (forall pp st fuel p, snd (calc (S fuel) sy' pp st v p) =
        match check_consistency x' p with Err e => Err e | Ok _ => Ok (default_array pp x') end)
  (* and setting an input changes nothing *)
  /\ (forall pp st p a, fst (set_input sy' pp st v p a) = st).
Proof.
  intros y0 ny s v x s' Hx H sy'. cbn [apply_var_mod] in H. rewrite Hx in H.
  destruct (store_var_spec s v _ s' H (nth_error_lt _ _ _ Hx)) as (S1 & S2 & S3 & S4 & _).
  assert (Hn : nth_error (vars sy') v = Some (to_var y0 ny v (neutralized x))).
  { unfold sy'. now rewrite nth_error_to_sys, S1. }
  exists (to_var y0 ny v (neutralized x)). repeat split; auto.
  - intros pp inp p. unfold sem, sem_rec. cbn [den]. rewrite Hn.
    destruct (check_consistency _ p); reflexivity.
  - intros pp st fuel p. cbn [calc]. unfold calc_body. rewrite Hn.
    destruct (check_consistency _ p); [|reflexivity].
    unfold get_array. cbn [to_var v_neutral neutralized sv_neutral]. reflexivity.
  - intros pp st p a. unfold set_input. rewrite Hn.
    cbn [to_var v_neutral neutralized sv_neutral v_end v_unit].
    repeat match goal with |- context [if ?c then _ else _] => destruct c; try reflexivity end.
Qed.

(** * Modified parameters *)

Definition updates_of (k : nat) (ups : list (nat * upd Z)) : list (upd Z) :=
  map snd (filter (fun ku => Nat.eqb (fst ku) k) ups).

Lemma apply_param_updates_spec : forall ups ps ps',
  apply_param_updates ps ups = Ok ps' ->
  length ps' = length ps
  /\ forall k h, nth_error ps k = Some h ->
       exists h', nth_error ps' k = Some h'
                  /\ forall d, get_at h' d = fold_left override (updates_of k ups) (get_at h) d.
Proof.
  induction ups as [|[k0 u] ups IH]; intros ps ps' H; cbn [apply_param_updates] in H.
  - inversion H; subst. split; auto. intros k h Hk. exists h. auto.
  - unfold apply_param_update in H. cbn [fst snd] in H.
    destruct (nth_error ps k0) as [h0|] eqn:E0; [|discriminate].
    destruct (IH _ _ H) as [L1 L2]. rewrite length_set_nth in L1. split; auto.
    intros k h Hk. unfold updates_of. cbn [filter fst].
    destruct (Nat.eqb_spec k0 k) as [->|Hne].
    + rewrite Hk in E0. inversion E0; subst h0.
      destruct (L2 k (apply_update h u)) as (h' & Hh' & Hg).
      { apply nth_error_set_nth_eq. eapply nth_error_lt; eauto. }
      exists h'. split; auto. intro d. rewrite Hg. cbn [map snd fold_left].
      apply fold_override_ext. intro d'. destruct u as [[s e] v]. unfold override, apply_update.
      apply update_range_spec.
    + destruct (L2 k h) as (h' & Hh' & Hg).
      { rewrite nth_error_set_nth_neq by congruence. exact Hk. }
      exists h'. auto.
Qed.

(** Reform.modify_parameters: the derived system reads, at every date, the BASELINE's value
    overridden by the declared updates in turn (each one on its span start..stop, open when
    no stop is given); the baseline is not changed (derivation_frame). *)
Theorem modified_parameters_lemma : forall w j ups w' e b eb,
  apply_mod w j (ModifyParams ups) = Ok w' ->
  nth_error (w_entries w) j = Some e -> e_base e = Some b -> nth_error (w_entries w) b = Some eb ->
  exists e', nth_error (w_entries w') j = Some e'
  /\ s_vars (e_sys e') = s_vars (e_sys e)
  /\ forall k h, nth_error (s_params (e_sys eb)) k = Some h ->
       exists h', nth_error (s_params (e_sys e')) k = Some h'
                  /\ forall d, get_at h' d = fold_left override (updates_of k ups) (get_at h) d.
Proof.
  intros w j ups w' e b eb H He Hb Heb. unfold apply_mod in H. rewrite He, Hb, Heb in H.
  destruct (apply_param_updates (s_params (e_sys eb)) ups) as [ps|] eqn:E; [|discriminate].
  inversion H; subst w'; clear H. cbn [w_entries].
  exists (with_sys e (with_params (e_sys e) ps)). split; [|split; [reflexivity|]].
  - apply nth_error_set_nth_eq. eapply nth_error_lt; eauto.
  - cbn. apply (apply_param_updates_spec ups _ _ E).
Qed.

(** the same updates made in place on the tree a copy owns *)
Theorem edited_parameters_lemma : forall s ups s',
  apply_var_mod s (EditParams ups) = Ok s' ->
  s_vars s' = s_vars s
  /\ forall k h, nth_error (s_params s) k = Some h ->
       exists h', nth_error (s_params s') k = Some h'
                  /\ forall d, get_at h' d = fold_left override (updates_of k ups) (get_at h) d.
Proof.
  intros s ups s' H. cbn [apply_var_mod] in H.
  destruct (apply_param_updates (s_params s) ups) as [ps|] eqn:E; [|discriminate].
  inversion H; subst s'. split; [reflexivity|]. cbn. apply (apply_param_updates_spec ups _ _ E).
Qed.

(** * Annualised variables *)

Open Scope Z_scope.

Lemma latest_formula_app : forall l1 l2 d acc,
  latest_formula (l1 ++ l2) d acc = latest_formula l2 d (latest_formula l1 d acc).
Proof.
  induction l1 as [|[s e] l1 IH]; intros l2 d acc; cbn [app latest_formula]; [reflexivity|].
  destruct (date_leb s d); apply IH.
Qed.

Lemma latest_formula_later : forall l d acc,
  (forall s e, In (s, e) l -> date_leb s d = false) -> latest_formula l d acc = acc.
Proof.
  induction l as [|[s e] l IH]; intros d acc H; cbn [latest_formula]; [reflexivity|].
  rewrite (H s e (or_introl eq_refl)). apply IH. intros s' e' Hin. apply (H s' e'). now right.
Qed.

(** a list produced piecewise from an increasing sequence of indices: the piece of index [t]
    decides, when all later pieces are dated after [d] *)
Lemma latest_formula_flat_map (g : nat -> list (date * expr)) d r : forall n a t acc,
  (a <= t < a + n)%nat ->
  (forall j s e, (t < j)%nat -> In (s, e) (g j) -> date_leb s d = false) ->
  (forall acc', latest_formula (g t) d acc' = Some r) ->
  latest_formula (flat_map g (seq a n)) d acc = Some r.
Proof.
  induction n as [|n IH]; intros a t acc Ht Hlater Hdec; [lia|].
  cbn [seq flat_map]. rewrite latest_formula_app.
  destruct (Nat.eq_dec a t) as [->|Hne].
  - rewrite Hdec. apply latest_formula_later. intros s e Hin.
    apply in_flat_map in Hin as (j & Hj & Hin). apply in_seq in Hj. apply (Hlater j s e); [lia|exact Hin].
  - apply IH with (t := t); auto. lia.
Qed.

Lemma date_leb_refl d : date_leb d d = true.
Proof.
  destruct d as [[y m] dd]. unfold date_leb. rewrite !Z.eqb_refl, Z.leb_refl. cbn.
  now rewrite !orb_true_r.
Qed.

Lemma date_leb_later_month y m' m : m < m' -> date_leb (y, m', 1) (y, m, 1) = false.
Proof.
  intro H. unfold date_leb. rewrite Z.ltb_irrefl, Z.eqb_refl. cbn.
  destruct (Z.ltb_spec m' m); [lia|]. destruct (Z.eqb_spec m' m); [lia|]. reflexivity.
Qed.

Lemma date_leb_later_year y' y m' m : y < y' -> date_leb (y', m', 1) (y, m, 1) = false.
Proof.
  intro H. unfold date_leb. destruct (Z.ltb_spec y' y); [lia|]. destruct (Z.eqb_spec y' y); [lia|]. reflexivity.
Qed.

Lemma month_entry_dates v fs y m s e : In (s, e) (month_entry v fs y m) -> s = (y, m, 1).
Proof.
  unfold month_entry. destruct (pick fs (y, m, 1) None) as [[e0 w]|]; [|intros []].
  intros [H|[]]. now inversion H.
Qed.

Lemma months_seq : months = map Z.of_nat (seq 1 12).
Proof. reflexivity. Qed.

Lemma flat_map_map {A B C} (f : B -> list C) (g : A -> B) l :
  flat_map f (map g l) = flat_map (fun x => f (g x)) l.
Proof. induction l as [|x l IH]; cbn; [reflexivity|now rewrite IH]. Qed.

Lemma year_entries_dates v fs y s e :
  In (s, e) (year_entries v fs y) -> exists m, s = (y, m, 1).
Proof.
  unfold year_entries. intro H. apply in_flat_map in H as (m & _ & H).
  exists m. eapply month_entry_dates; eauto.
Qed.

(** what the rendered list selects for a month of the window *)
Lemma latest_formula_unroll y0 ny v fs k m e w acc :
  (k < ny)%nat -> 1 <= m <= 12 ->
  pick fs (y0 + Z.of_nat k, m, 1) None = Some (e, w) ->
  latest_formula (unroll y0 ny v fs) (y0 + Z.of_nat k, m, 1) acc
  = Some (if w && negb (m =? 1) then self_january v (y0 + Z.of_nat k) else e).
Proof.
  intros Hk Hm Hp. set (y := y0 + Z.of_nat k) in *. unfold unroll.
  apply latest_formula_flat_map with (t := k); [lia| |].
  - intros j s e' Hj Hin. apply year_entries_dates in Hin as [m' ->].
    apply date_leb_later_year. lia.
  - intro acc'. unfold year_entries. rewrite months_seq, flat_map_map.
    apply latest_formula_flat_map with (t := Z.to_nat m); [lia| |].
    + intros j s e' Hj Hin. apply month_entry_dates in Hin. subst s.
      apply date_leb_later_month. lia.
    + intro acc''. rewrite Z2Nat.id by lia. unfold month_entry. fold y. rewrite Hp.
      cbn [latest_formula]. now rewrite date_leb_refl.
Qed.

Lemma pick_wrapped : forall fs d acc,
  pick (map (fun f => (f_start f, f_body f, true)) fs) d (option_map (fun ew => (fst ew, true)) acc)
  = option_map (fun ew => (fst ew, true)) (pick fs d acc).
Proof.
  induction fs as [|f fs IH]; intros d acc; cbn [map pick]; [reflexivity|].
  unfold f_start at 1, f_body at 1, f_wrapped at 1. cbn [fst snd].
  destruct (date_leb (f_start f) d); [|apply IH].
  exact (IH d (Some (f_body f, f_wrapped f))).
Qed.

Lemma has_wrapped_annualized fs d e w :
  pick fs d None = Some (e, w) -> has_wrapped (map (fun f => (f_start f, f_body f, true)) fs) = true.
Proof. destruct fs as [|f fs]; [discriminate|]. reflexivity. Qed.

Lemma validb_first y m : 1 <= y -> 1 <= m <= 12 -> validb (y, m, 1) = true.
Proof.
  intros Hy Hm. unfold validb.
  assert (Hd : 1 <= dim y m).
  { unfold dim. repeat match goal with |- context [if ?c then _ else _] => destruct c end; lia. }
  repeat (apply andb_true_intro; split); apply Z.leb_le; lia.
Qed.

(** the formula selected for a month of the window in an annualised month variable *)
Lemma formula_at_annualized y0 ny v x k m e w :
  sv_unit x = Month -> 1 <= y0 -> (k < ny)%nat -> 1 <= m <= 12 ->
  pick (sv_formulas x) (y0 + Z.of_nat k, m, 1) None = Some (e, w) ->
  match sv_end x with Some en => date_ltb en (y0 + Z.of_nat k, m, 1) = false | None => True end ->
  formula_at (to_var y0 ny v (annualized x)) (month_of (y0 + Z.of_nat k) m)
  = Ok (Some (if negb (m =? 1) then self_january v (y0 + Z.of_nat k) else e)).
Proof.
  intros Hu Hy0 Hk Hm Hp Hend. set (y := y0 + Z.of_nat k) in *.
  assert (Hp' : pick (sv_formulas (annualized x)) (y, m, 1) None = Some (e, true)).
  { cbn [annualized sv_formulas]. change (@None (expr * bool)) with (option_map (fun ew : expr * bool => (fst ew, true)) None).
    rewrite pick_wrapped, Hp. reflexivity. }
  assert (Hl : forall acc, latest_formula (v_formulas (to_var y0 ny v (annualized x))) (y, m, 1) acc
               = Some (if negb (m =? 1) then self_january v y else e)).
  { intro acc. cbn [to_var v_formulas]. unfold rendered. cbn [annualized sv_unit sv_formulas].
    rewrite Hu, (has_wrapped_annualized _ _ _ _ Hp). cbn [unit_eqb andb].
    cbn [annualized sv_formulas] in Hp'.
    unfold y. rewrite (latest_formula_unroll y0 ny v _ k m e true acc Hk Hm Hp'). reflexivity. }
  unfold formula_at. unfold month_of, p_start. cbn [fst snd].
  destruct (v_formulas (to_var y0 ny v (annualized x))) as [|f0 r] eqn:Ef.
  { specialize (Hl None). cbn in Hl. discriminate. }
  rewrite validb_first by (unfold y; lia). cbn [negb].
  cbn [to_var v_end annualized sv_end].
  destruct (sv_end x) as [en|]; [rewrite Hend|]; now rewrite Hl.
Qed.

(** Every month of a year of the window yields the January value: for any fuel, the meaning of
    the annualised variable at month m >= 2 is the meaning at January of that year (cast to the
    variable's type, which changes nothing for a value of that type). *)
Theorem annualised_months_lemma : forall y0 ny s v x s' k m e w,
  nth_error (s_vars s) v = Some x -> apply_var_mod s (Annualize v) = Ok s' ->
  sv_unit x = Month -> 1 <= y0 -> (k < ny)%nat -> 2 <= m <= 12 ->
  pick (sv_formulas x) (y0 + Z.of_nat k, m, 1) None = Some (e, w) ->             (* a formula in force *)
  match sv_end x with Some en => date_ltb en (y0 + Z.of_nat k, m, 1) = false | None => True end ->
  forall pp inp fuel,
  lookup (v, month_of (y0 + Z.of_nat k) m) inp = None ->                          (* no input for that month *)
  let sy' := to_sys y0 ny s' in
  meaning (S fuel) sy' pp inp v (month_of (y0 + Z.of_nat k) m)
  = rmap (cast (to_var y0 ny v (annualized x))) (meaning fuel sy' pp inp v (jan (y0 + Z.of_nat k))).
Proof.
  intros y0 ny s v x s' k m e w Hx H Hu Hy0 Hk Hm Hp Hend pp inp fuel Hin sy'.
  cbn [apply_var_mod] in H. rewrite Hx in H.
  destruct (store_var_spec s v _ s' H (nth_error_lt _ _ _ Hx)) as (S1 & _).
  set (x' := to_var y0 ny v (annualized x)).
  assert (Hn : nth_error (vars sy') v = Some x') by (unfold sy'; now rewrite nth_error_to_sys, S1).
  set (y := y0 + Z.of_nat k) in *.
  unfold meaning at 1. cbn [den]. rewrite Hn.
  assert (Hc : check_consistency x' (month_of y m) = Ok tt).
  { unfold check_consistency, x'. cbn [to_var v_unit annualized sv_unit]. rewrite Hu. reflexivity. }
  rewrite Hc.
  assert (Hneu : v_neutral x' = false) by reflexivity. rewrite Hneu.
  assert (Hnorm : norm x' (month_of y m) = month_of y m).
  { unfold norm, x'. cbn [to_var v_unit annualized sv_unit]. now rewrite Hu. }
  rewrite Hnorm, Hin.
  unfold x' at 1. unfold y. rewrite (formula_at_annualized y0 ny v x k m e w Hu Hy0 Hk ltac:(lia) Hp Hend).
  destruct (Z.eqb_spec m 1) as [?|_]; [lia|]. cbn [negb].
  unfold self_january. cbn [eval apply_ptrans]. unfold call. rewrite Hn.
  assert (He : ent_eqb (v_ent x') (v_ent x') = true) by (destruct (v_ent x'); reflexivity).
  rewrite He. cbn [negb].
  fold y. unfold meaning.
  destruct (den fuel sy' pp inp tt v (jan y)) as [[] r]. reflexivity.
Qed.

Close Scope Z_scope.

(** * Two systems that agree on the variables below a rank *)

Section Ext2.
  Variables sy1 sy2 : sys.
  Variable pp : popu.
  Variables rec1 rec2 : unit -> nat -> period -> unit * res val.
  Variable n : nat.
  Hypothesis Hparams : params sy1 = params sy2.
  Hypothesis Hsw : switches sy1 = switches sy2.
  Hypothesis Hlen : length (vars sy1) = length (vars sy2).
  Hypothesis Hvars : forall w, w < n -> nth_error (vars sy1) w = nth_error (vars sy2) w.
  Hypothesis Hrec : forall w q, w < n -> snd (rec1 tt w q) = snd (rec2 tt w q).

  Let Hrec' : forall (s : unit) w q, w < n -> True -> True /\ snd (rec1 s w q) = snd (rec2 tt w q).
  Proof. intros [] w q Hw _. split; auto. Qed.

  Lemma call_ext2 c w q o : (w < n \/ length (vars sy1) <= w) ->
    snd (call rec1 sy1 c tt w q o) = snd (call rec2 sy2 c tt w q o).
  Proof.
    intro Hw. unfold call.
    destruct Hw as [Hw|Hw].
    2:{ assert (H1 : nth_error (vars sy1) w = None) by now apply nth_error_None.
        assert (H2 : nth_error (vars sy2) w = None) by (apply nth_error_None; lia).
        now rewrite H1, H2. }
    rewrite <- (Hvars w Hw). destruct (nth_error (vars sy1) w) as [x|]; [|reflexivity].
    destruct (negb _); [reflexivity|].
    destruct o; cbn [fst snd]; auto.
    - exact (proj2 (calc_add_sim rec2 rec1 (fun _ => True) n Hrec' w x q tt Hw I)).
    - pose proof (proj2 (calc_divide_sim rec2 rec1 (fun _ => True) n Hrec' w x q tt Hw I)) as Hd.
      destruct (calc_divide rec1 tt w x q) as [[] r1]; destruct (calc_divide rec2 tt w x q) as [[] r2].
      cbn [snd] in *. subst r2. destruct r1 as [[a d]|]; reflexivity.
  Qed.

  Lemma eval_ext2 : forall e c p, deps_ok (length (vars sy1)) n e = true ->
    snd (eval rec1 sy1 pp c tt p e) = snd (eval rec2 sy2 pp c tt p e).
  Proof.
    induction e as [z|w pt o|op a IHa b IHb|a IHa|cn IHc a IHa b IHb|k|g role a IHa|role|role a IHa|f|k];
      intros c p Hd; cbn [eval deps_ok] in *; auto.
    - destruct (apply_ptrans pt p); [|reflexivity]. apply call_ext2.
      apply orb_true_iff in Hd as [Hd|Hd]; [left; now apply Nat.ltb_lt|right; now apply Nat.leb_le].
    - apply andb_true_iff in Hd as [Ha Hb]. specialize (IHa c p Ha). specialize (IHb c p Hb).
      destruct (eval rec1 sy1 pp c tt p a) as [[] r1]; destruct (eval rec2 sy2 pp c tt p a) as [[] r1'].
      cbn [snd] in IHa. subst r1'. destruct r1 as [x|]; [|reflexivity].
      destruct (eval rec1 sy1 pp c tt p b) as [[] r2]; destruct (eval rec2 sy2 pp c tt p b) as [[] r2'].
      cbn [snd] in IHb. subst r2'. destruct r2; reflexivity.
    - specialize (IHa c p Hd).
      destruct (eval rec1 sy1 pp c tt p a) as [[] r1]; destruct (eval rec2 sy2 pp c tt p a) as [[] r1'].
      cbn [snd] in *. now subst r1'.
    - apply andb_true_iff in Hd as [Hd Hb]. apply andb_true_iff in Hd as [Hc Ha].
      specialize (IHc c p Hc). specialize (IHa c p Ha). specialize (IHb c p Hb).
      destruct (eval rec1 sy1 pp c tt p cn) as [[] r1]; destruct (eval rec2 sy2 pp c tt p cn) as [[] r1'].
      cbn [snd] in IHc. subst r1'. destruct r1 as [x|]; [|reflexivity].
      destruct (eval rec1 sy1 pp c tt p a) as [[] r2]; destruct (eval rec2 sy2 pp c tt p a) as [[] r2'].
      cbn [snd] in IHa. subst r2'. destruct r2 as [y|]; [|reflexivity].
      destruct (eval rec1 sy1 pp c tt p b) as [[] r3]; destruct (eval rec2 sy2 pp c tt p b) as [[] r3'].
      cbn [snd] in IHb. subst r3'. destruct r3; reflexivity.
    - rewrite <- Hparams. destruct (nth_error (params sy1) k); [|reflexivity].
      destruct (get_at _ _); reflexivity.
    - specialize (IHa EPerson p Hd).
      destruct (eval rec1 sy1 pp EPerson tt p a) as [[] r1]; destruct (eval rec2 sy2 pp EPerson tt p a) as [[] r1'].
      cbn [snd] in *. now subst r1'.
    - specialize (IHa EGroup p Hd).
      destruct (eval rec1 sy1 pp EGroup tt p a) as [[] r1]; destruct (eval rec2 sy2 pp EGroup tt p a) as [[] r1'].
      cbn [snd] in *. now subst r1'.
    - rewrite <- Hsw. destruct (existsb _ _); reflexivity.
  Qed.
End Ext2.

(** below the rank of the changed variable the two systems mean the same *)
Lemma den_below_changed sy1 sy2 pp inp v :
  ranked sy1 = true ->
  params sy1 = params sy2 -> switches sy1 = switches sy2 -> length (vars sy1) = length (vars sy2) ->
  (forall w, w < v -> nth_error (vars sy1) w = nth_error (vars sy2) w) ->
  forall w f1 f2 q, w < v -> w < f1 -> w < f2 ->
  snd (den f1 sy1 pp inp tt w q) = snd (den f2 sy2 pp inp tt w q).
Proof.
  intros Hr Hp Hs Hl Hv. induction w as [w IH] using lt_wf_ind. intros f1 f2 q Hw H1 H2.
  destruct f1 as [|f1]; [lia|]. destruct f2 as [|f2]; [lia|]. cbn [den].
  rewrite <- (Hv w Hw). destruct (nth_error (vars sy1) w) as [x|] eqn:Ex; [|reflexivity].
  destruct (check_consistency x q); [|reflexivity].
  destruct (v_neutral x); [reflexivity|].
  destruct (lookup _ inp); [reflexivity|].
  destruct (formula_at x q) as [[e|]|] eqn:Ef; try reflexivity.
  rewrite !let_pair_snd. f_equal.
  apply eval_ext2 with (n := w); auto.
  - intros w' Hw'. apply Hv. lia.
  - intros w' q' Hw'. apply IH; lia.
  - eapply formula_at_deps; eauto. now apply ranked_nth.
Qed.

Lemma latest_plain_pick : forall fs d acc,
  latest_formula (plain fs) d (option_map fst acc) = option_map fst (pick fs d acc).
Proof.
  unfold plain. induction fs as [|[[s e] w] fs IH]; intros d acc; cbn [map latest_formula pick]; [reflexivity|].
  unfold f_start, f_body, f_wrapped. cbn [fst snd].
  destruct (date_leb s d); [exact (IH d (Some (e, w)))|apply IH].
Qed.

Lemma date_leb_trans a b c : date_leb a b = true -> date_leb b c = true -> date_leb a c = true.
Proof.
  destruct a as [[y1 m1] d1], b as [[y2 m2] d2], c as [[y3 m3] d3]. unfold date_leb.
  rewrite !orb_true_iff, !andb_true_iff, !orb_true_iff, !andb_true_iff, !Z.ltb_lt, !Z.eqb_eq, !Z.leb_le. lia.
Qed.

Lemma pick_later : forall fs d d' acc, date_leb d d' = true ->
  pick fs d acc <> None -> pick fs d' acc <> None.
Proof.
  induction fs as [|f fs IH]; intros d d' acc Hdd H; cbn [pick] in *; [exact H|].
  destruct (date_leb (f_start f) d) eqn:E.
  - rewrite (date_leb_trans _ _ _ E Hdd). eapply IH; eauto.
  - destruct (date_leb (f_start f) d'); [|eapply IH; eauto].
    assert (G : forall fs d acc, acc <> None -> pick fs d acc <> None).
    { clear. induction fs as [|f fs IH]; intros d acc Ha; cbn [pick]; [exact Ha|].
      destruct (date_leb _ _); apply IH; [discriminate|exact Ha]. }
    apply G. discriminate.
Qed.

Open Scope Z_scope.

(** In January the annualised variable runs the formula of the variable it was made from:
    when that system is ranked, the January meaning is the original one. *)
Lemma annualised_january_lemma : forall y0 ny s v x s' k e w pp inp fuel,
  nth_error (s_vars s) v = Some x -> apply_var_mod s (Annualize v) = Ok s' ->
  ranked (to_sys y0 ny s) = true ->
  sv_unit x = Month -> has_wrapped (sv_formulas x) = false -> sv_neutral x = false ->
  1 <= y0 -> (k < ny)%nat ->
  pick (sv_formulas x) (y0 + Z.of_nat k, 1, 1) None = Some (e, w) ->
  match sv_end x with Some en => date_ltb en (y0 + Z.of_nat k, 1, 1) = false | None => True end ->
  (v < fuel)%nat ->
  meaning fuel (to_sys y0 ny s') pp inp v (jan (y0 + Z.of_nat k))
  = meaning fuel (to_sys y0 ny s) pp inp v (jan (y0 + Z.of_nat k)).
Proof.
  intros y0 ny s v x s' k e w pp inp fuel Hx H Hr Hu Hw Hneu Hy0 Hk Hp Hend Hf.
  pose proof H as H0. cbn [apply_var_mod] in H0. rewrite Hx in H0.
  destruct (store_var_spec s v _ s' H0 (nth_error_lt _ _ _ Hx)) as (S1 & S2 & S3 & S4 & S5 & S6).
  set (sy := to_sys y0 ny s) in *. set (sy' := to_sys y0 ny s').
  set (x1 := to_var y0 ny v x). set (x' := to_var y0 ny v (annualized x)).
  set (y := y0 + Z.of_nat k) in *.
  assert (Hn1 : nth_error (vars sy) v = Some x1) by (unfold sy; now rewrite nth_error_to_sys, Hx).
  assert (Hn' : nth_error (vars sy') v = Some x') by (unfold sy'; now rewrite nth_error_to_sys, S1).
  destruct fuel as [|f]; [lia|]. unfold meaning. cbn [den]. rewrite Hn1, Hn'.
  assert (Hc1 : check_consistency x1 (jan y) = Ok tt)
    by (unfold check_consistency, x1; cbn [to_var v_unit]; rewrite Hu; reflexivity).
  assert (Hc' : check_consistency x' (jan y) = Ok tt)
    by (unfold check_consistency, x'; cbn [to_var v_unit annualized sv_unit]; rewrite Hu; reflexivity).
  rewrite Hc1, Hc'.
  assert (Hv1 : v_neutral x1 = false) by exact Hneu.
  assert (Hv' : v_neutral x' = false) by reflexivity.
  rewrite Hv1, Hv'.
  assert (Hno : norm x' (jan y) = norm x1 (jan y)).
  { unfold norm, x', x1. cbn [to_var v_unit annualized sv_unit]. reflexivity. }
  rewrite Hno. destruct (lookup (v, norm x1 (jan y)) inp); [reflexivity|].
  (* the formulas selected *)
  assert (Hf' : formula_at x' (jan y) = Ok (Some e)).
  { unfold x', y. change (jan (y0 + Z.of_nat k)) with (month_of (y0 + Z.of_nat k) 1).
    rewrite (formula_at_annualized y0 ny v x k 1 e w Hu Hy0 Hk ltac:(lia) Hp Hend). reflexivity. }
  assert (Hf1 : formula_at x1 (jan y) = Ok (Some e)).
  { assert (Hl : latest_formula (v_formulas x1) (y, 1, 1) None = Some e).
    { unfold x1. cbn [to_var v_formulas]. unfold rendered. rewrite Hw, andb_false_r.
      change (@None expr) with (option_map (@fst expr bool) None). rewrite latest_plain_pick, Hp. reflexivity. }
    unfold formula_at. unfold jan, p_start. cbn [fst snd].
    destruct (v_formulas x1) as [|f0 r] eqn:Ef; [cbn in Hl; discriminate|].
    rewrite validb_first by (unfold y; lia). cbn [negb].
    unfold x1. cbn [to_var v_end]. destruct (sv_end x) as [en|]; [rewrite Hend|]; now rewrite Hl. }
  rewrite Hf', Hf1. rewrite !let_pair_snd.
  assert (Hcast : cast x' = cast x1) by reflexivity. rewrite Hcast. f_equal.
  assert (Hent : v_ent x' = v_ent x1) by reflexivity. rewrite Hent.
  assert (E1 : params sy = params sy') by (unfold sy, sy', to_sys; cbn [params]; congruence).
  assert (E2 : switches sy = switches sy') by (unfold sy, sy', to_sys; cbn [switches]; congruence).
  assert (E3 : length (vars sy) = length (vars sy'))
    by (unfold sy, sy', to_sys; cbn [vars]; rewrite !length_to_vars; congruence).
  assert (E4 : forall u, (u < v)%nat -> nth_error (vars sy) u = nth_error (vars sy') u).
  { intros u Hu'. unfold sy, sy'. rewrite !nth_error_to_sys, S2; [reflexivity|lia]. }
  symmetry. apply eval_ext2 with (n := v); auto.
  - intros u q Hu'. apply den_below_changed with (v := v); auto; lia.
  - eapply formula_at_deps; [|exact Hf1]. now apply ranked_nth.
Qed.

(** C14's clause: in a system derived by annualising month variable v of a ranked system,
    every month of a year of the window means what January of that year means in the
    ORIGINAL system. *)
Theorem annualised_spec_lemma : forall y0 ny s v x s' k m e w pp inp,
  nth_error (s_vars s) v = Some x -> apply_var_mod s (Annualize v) = Ok s' ->
  ranked (to_sys y0 ny s) = true -> (1 <= s_loops s)%nat ->
  sv_unit x = Month -> has_wrapped (sv_formulas x) = false -> sv_neutral x = false ->
  1 <= y0 -> (k < ny)%nat -> 2 <= m <= 12 ->
  pick (sv_formulas x) (y0 + Z.of_nat k, 1, 1) None = Some (e, w) ->             (* a formula in force in January *)
  match sv_end x with Some en => date_ltb en (y0 + Z.of_nat k, m, 1) = false | None => True end ->
  lookup (v, month_of (y0 + Z.of_nat k) m) inp = None ->                          (* no input for that month *)
  sem (to_sys y0 ny s') pp inp v (month_of (y0 + Z.of_nat k) m)
  = rmap (cast (to_var y0 ny v x)) (sem (to_sys y0 ny s) pp inp v (jan (y0 + Z.of_nat k))).
Proof.
  intros y0 ny s v x s' k m e w pp inp Hx H Hr Hl Hu Hw Hneu Hy0 Hk Hm Hp Hend Hin.
  set (y := y0 + Z.of_nat k) in *.
  assert (Hjm : date_leb (y, 1, 1) (y, m, 1) = true).
  { unfold date_leb. rewrite Z.eqb_refl. destruct (Z.ltb_spec 1 m); [|lia]. cbn. now rewrite orb_true_r. }
  (* a formula in force in January is in force in month m *)
  destruct (pick (sv_formulas x) (y, m, 1) None) as [[em wm]|] eqn:Epm.
  2:{ exfalso. apply (pick_later (sv_formulas x) (y, 1, 1) (y, m, 1) None Hjm); [rewrite Hp; discriminate|exact Epm]. }
  (* not ended in month m, hence not ended in January *)
  assert (Hend1 : match sv_end x with Some en => date_ltb en (y, 1, 1) = false | None => True end).
  { destruct (sv_end x) as [en|]; [|exact I].
    destruct (date_ltb en (y, 1, 1)) eqn:E; [|reflexivity]. exfalso.
    unfold date_ltb in *. apply andb_true_iff in E as [E1 E2].
    rewrite (date_leb_trans _ _ _ E1 Hjm) in Hend. cbn [andb] in Hend.
    apply negb_false_iff in Hend. apply date_eqb_iff in Hend. subst en.
    assert (date_leb (y, m, 1) (y, 1, 1) = false) by (apply date_leb_later_month; lia). congruence. }
  pose proof H as H0. cbn [apply_var_mod] in H0. rewrite Hx in H0.
  destruct (store_var_spec s v _ s' H0 (nth_error_lt _ _ _ Hx)) as (S1 & S2 & S3 & S4 & S5 & S6).
  assert (Hlen : length (vars (to_sys y0 ny s')) = length (vars (to_sys y0 ny s))).
  { unfold to_sys. cbn [vars]. rewrite !length_to_vars. exact S3. }
  assert (Hv : (v < length (vars (to_sys y0 ny s)))%nat).
  { unfold to_sys. cbn [vars]. rewrite length_to_vars. eapply nth_error_lt; eauto. }
  unfold sem at 1, sem_rec. rewrite Hlen.
  change (snd (den (S (length (vars (to_sys y0 ny s)))) (to_sys y0 ny s') pp inp tt v (month_of y m)))
    with (meaning (S (length (vars (to_sys y0 ny s)))) (to_sys y0 ny s') pp inp v (month_of y m)).
  unfold y. rewrite (annualised_months_lemma y0 ny s v x s' k m em wm Hx H Hu Hy0 Hk Hm Epm Hend pp inp _ Hin).
  rewrite (annualised_january_lemma y0 ny s v x s' k e w pp inp _ Hx H Hr Hu Hw Hneu Hy0 Hk Hp Hend1 Hv).
  assert (Hcast : cast (to_var y0 ny v (annualized x)) = cast (to_var y0 ny v x)) by reflexivity.
  rewrite Hcast. f_equal.
  unfold meaning, sem, sem_rec. apply den_fuel; auto.
Qed.

(** * The machine on an annualised variable whose January value is already known *)

Lemma calc_cached : forall fuel sy pp s v p x a,
  nth_error (vars sy) v = Some x -> check_consistency x p = Ok tt -> v_neutral x = false ->
  lookup (v, norm x p) (cache s) = Some a -> invalid s = [] ->
  calc (S fuel) sy pp s v p = (purge sy (pop (push (v, p) s)), Ok a).
Proof.
  intros fuel sy pp s v p x a Hn Hc Hneu Hl Hi. cbn [calc]. unfold calc_body. rewrite Hn, Hc.
  unfold get_array. rewrite Hneu. cbn [push cache invalid]. rewrite Hl, Hi. reflexivity.
Qed.

Theorem annualised_machine_lemma : forall y0 ny s v x s' k m e w pp st fuel a,
  nth_error (s_vars s) v = Some x -> apply_var_mod s (Annualize v) = Ok s' ->
  sv_unit x = Month -> 1 <= y0 -> (k < ny)%nat -> 2 <= m <= 12 ->
  pick (sv_formulas x) (y0 + Z.of_nat k, m, 1) None = Some (e, w) ->
  match sv_end x with Some en => date_ltb en (y0 + Z.of_nat k, m, 1) = false | None => True end ->
  (1 <= s_loops s)%nat ->
  stack st = [] -> invalid st = [] ->                                  (* between two requests *)
  lookup (v, jan (y0 + Z.of_nat k)) (cache st) = Some a ->            (* January is known *)
  lookup (v, month_of (y0 + Z.of_nat k) m) (cache st) = None ->       (* the month is not *)
  snd (calc (S (S fuel)) (to_sys y0 ny s') pp st v (month_of (y0 + Z.of_nat k) m))
  = Ok (cast (to_var y0 ny v (annualized x)) a).
Proof.
  intros y0 ny s v x s' k m e w pp st fuel a Hx H Hu Hy0 Hk Hm Hp Hend Hloops Hst Hinv Hjan Hmon.
  cbn [apply_var_mod] in H. rewrite Hx in H.
  destruct (store_var_spec s v _ s' H (nth_error_lt _ _ _ Hx)) as (S1 & S2 & S3 & S4 & S5 & S6).
  set (sy' := to_sys y0 ny s'). set (x' := to_var y0 ny v (annualized x)).
  set (y := y0 + Z.of_nat k) in *.
  assert (Hn : nth_error (vars sy') v = Some x') by (unfold sy'; now rewrite nth_error_to_sys, S1).
  assert (Hc : forall mm, check_consistency x' (month_of y mm) = Ok tt).
  { intro mm. unfold check_consistency, x'. cbn [to_var v_unit annualized sv_unit]. rewrite Hu. reflexivity. }
  assert (Hnorm : forall mm, norm x' (month_of y mm) = month_of y mm).
  { intro mm. unfold norm, x'. cbn [to_var v_unit annualized sv_unit]. now rewrite Hu. }
  assert (Hneu : v_neutral x' = false) by reflexivity.
  assert (HL : max_loops sy' = s_loops s) by (unfold sy', to_sys; cbn [max_loops]; exact S6).
  remember (S fuel) as f1 eqn:Ef1. cbn [calc]. unfold calc_body at 1. rewrite Hn, Hc.
  unfold get_array at 1. rewrite Hneu, Hnorm. cbn [push cache stack tl]. rewrite Hmon, Hst.
  cbn [prev_periods filter map existsb length]. rewrite HL.
  destruct (Nat.leb_spec (s_loops s) 0) as [?|_]; [lia|].
  unfold x' at 1, y at 1. rewrite (formula_at_annualized y0 ny v x k m e w Hu Hy0 Hk ltac:(lia) Hp Hend).
  destruct (Z.eqb_spec m 1) as [?|_]; [lia|]. cbn [negb].
  unfold self_january. cbn [eval apply_ptrans]. unfold call. rewrite Hn.
  assert (He : ent_eqb (v_ent x') (v_ent x') = true) by (destruct (v_ent x'); reflexivity).
  rewrite He. cbn [negb]. fold y.
  change (jan y) with (month_of y 1). subst f1.
  rewrite (calc_cached fuel sy' pp _ v (month_of y 1) x' a Hn (Hc 1) Hneu).
  - reflexivity.
  - rewrite Hnorm. cbn [push cache]. exact Hjan.
  - cbn [push invalid]. exact Hinv.
Qed.

(** * Before the repair of F14: clone() re-bound the shared entity objects to the copy *)

Definition refuted_sys : ssys :=
  of_sys {| vars := [ mk_var EPerson TInt Month None [((1, 1, 1), EConst 17)] 11 false false ];
            params := []; switches := []; max_loops := 1 |}.
Definition refuted_ops : list dop := [DClone 0; DMod 1 (Neutralize 0)].

Lemma clone_shares_refuted_lemma :
  let w := initial refuted_sys in
  (forall o, In o refuted_ops -> target_of o <> Some 0%nat)
  /\ look (run_dops true w refuted_ops) 0 1 [] <> look w 0 1 []
  /\ resolve (run_dops true w refuted_ops) 0 0 = Some 1%nat
  /\ look (run_dops false w refuted_ops) 0 1 [] = look w 0 1 [].
Proof.
  cbv zeta. split; [|split; [|split]].
  - intros o [<-|[<-|[]]]; discriminate.
  - vm_compute. discriminate.
  - vm_compute. reflexivity.
  - vm_compute. reflexivity.
Qed.

(** * The rest of a derived system is the original *)

Lemma store_var_rest s name x s' :
  store_var s name x = Ok s' ->
  (forall u, u <> name -> nth_error (s_vars s') u = nth_error (s_vars s) u)
  /\ s_params s' = s_params s.
Proof.
  unfold store_var. destruct (Nat.ltb_spec name (length (s_vars s))) as [Hlt|Hge].
  - intro H. inversion H; subst s'. cbn. split; auto. intros u Hu. now apply nth_error_set_nth_neq.
  - destruct (Nat.eqb_spec name (length (s_vars s))) as [->|_]; [|discriminate].
    intro H. inversion H; subst s'. cbn. split; auto. intros u Hu.
    destruct (Nat.lt_ge_cases u (length (s_vars s))) as [Hu1|Hu1].
    + now rewrite nth_error_app1.
    + assert (nth_error (s_vars s) u = None) by now apply nth_error_None.
      assert (nth_error (s_vars s ++ [x]) u = None) by (apply nth_error_None; rewrite app_length; cbn; lia).
      congruence.
Qed.

Definition mod_name (m : vmod) : option nat :=
  match m with
  | AddVar v _ | UpdateVar v _ | ReplaceVar v _ | Neutralize v | Annualize v => Some v
  | ModifyParams _ | EditParams _ => None
  end.

(** a modification of variable v leaves every other variable and the parameters as they
    were; a parameter edit leaves the variables as they were *)
Theorem var_mod_rest_lemma : forall s m s', apply_var_mod s m = Ok s' ->
  match mod_name m with
  | Some v => (forall u, u <> v -> nth_error (s_vars s') u = nth_error (s_vars s) u) /\ s_params s' = s_params s
  | None => s_vars s' = s_vars s
  end.
Proof.
  intros s m s' H. destruct m as [v d|v d|v d|v|v|ups|ups]; cbn [apply_var_mod mod_name] in *.
  - destruct (nth_error (s_vars s) v); [discriminate|].
    destruct (instantiate None d); [|discriminate]. eapply store_var_rest; eauto.
  - destruct (instantiate _ d); [|discriminate]. eapply store_var_rest; eauto.
  - destruct (instantiate None d); [|discriminate]. eapply store_var_rest; eauto.
  - destruct (nth_error (s_vars s) v); [|discriminate]. eapply store_var_rest; eauto.
  - destruct (nth_error (s_vars s) v); [|discriminate]. eapply store_var_rest; eauto.
  - discriminate.
  - destruct (apply_param_updates _ _); [|discriminate]. inversion H; subst. reflexivity.
Qed.

(** a copy starts as the system it was copied from, with entities of its own *)
Theorem clone_copies_lemma : forall w i e w',
  nth_error (w_entries w) i = Some e -> apply_dop false w (DClone i) = Ok w' ->
  exists e', nth_error (w_entries w') (length (w_entries w)) = Some e'
  /\ e_sys e' = e_sys e /\ e_base e' = e_base e
  /\ (forall id, In id (e_ents e') -> ~ In id (e_ents e) \/ (length (w_heap w) <= id)%nat)
  /\ (forall id, In id (e_ents e') -> nth_error (w_heap w') id = Some (length (w_entries w))).
Proof.
  intros w i e w' Hi H. cbn [apply_dop] in H. rewrite Hi in H. unfold alloc_entities in H.
  inversion H; subst w'; clear H. cbn [w_entries w_heap].
  eexists. split; [rewrite nth_error_app2, Nat.sub_diag by lia; reflexivity|].
  cbn [e_sys e_base e_ents]. repeat split; auto.
  - intros id Hin. right. cbn in Hin. destruct Hin as [<-|[<-|[]]]; lia.
  - intros id Hin.
    assert (Hid : (length (w_heap w) <= id < length (w_heap w) + 2)%nat)
      by (cbn in Hin; destruct Hin as [<-|[<-|[]]]; lia).
    rewrite nth_error_app2 by lia.
    unfold nb_entities in *. destruct (id - length (w_heap w))%nat as [|[|n]] eqn:E; cbn; try reflexivity. lia.
Qed.

(** * F20 made exact: the machine on an annualised variable, January unknown / known *)

Close Scope Z_scope.

Section AnnualMachine.
  Variables (y0 : Z) (ny : nat) (s : ssys) (v : nat) (x : svar) (s' : ssys) (k : nat).
  Hypothesis Hx : nth_error (s_vars s) v = Some x.
  Hypothesis Hann : apply_var_mod s (Annualize v) = Ok s'.
  Hypothesis Hu : sv_unit x = Month.
  Hypothesis Hy0 : (1 <= y0)%Z.
  Hypothesis Hk : k < ny.

  Let y : Z := (y0 + Z.of_nat k)%Z.
  Let sy' : sys := to_sys y0 ny s'.
  Let x' : var := to_var y0 ny v (annualized x).

  Definition in_force (m : Z) : Prop :=
    (exists e w, pick (sv_formulas x) (y, m, 1%Z) None = Some (e, w))
    /\ match sv_end x with Some en => date_ltb en (y, m, 1%Z) = false | None => True end.

  Lemma am_nth : nth_error (vars sy') v = Some x'.
  Proof.
    pose proof Hann as H. cbn [apply_var_mod] in H. rewrite Hx in H.
    destruct (store_var_spec s v _ s' H (nth_error_lt _ _ _ Hx)) as (S1 & _).
    unfold sy'. now rewrite nth_error_to_sys, S1.
  Qed.

  Lemma am_loops : max_loops sy' = s_loops s.
  Proof.
    pose proof Hann as H. cbn [apply_var_mod] in H. rewrite Hx in H.
    destruct (store_var_spec s v _ s' H (nth_error_lt _ _ _ Hx)) as (_ & _ & _ & _ & _ & S6). exact S6.
  Qed.

  Lemma am_check m : check_consistency x' (month_of y m) = Ok tt.
  Proof. unfold check_consistency, x'. cbn [to_var v_unit annualized sv_unit]. rewrite Hu. reflexivity. Qed.

  Lemma am_norm m : norm x' (month_of y m) = month_of y m.
  Proof. unfold norm, x'. cbn [to_var v_unit annualized sv_unit]. now rewrite Hu. Qed.

  Lemma am_formula m : (2 <= m <= 12)%Z -> in_force m ->
    formula_at x' (month_of y m) = Ok (Some (self_january v y)).
  Proof.
    intros Hm [(e & w & Hp) Hend]. unfold x', y.
    rewrite (formula_at_annualized y0 ny v x k m e w Hu Hy0 Hk ltac:(lia) Hp Hend).
    destruct (Z.eqb_spec m 1) as [?|_]; [lia|]. reflexivity.
  Qed.

  Lemma am_ent : ent_eqb (v_ent x') (v_ent x') = true.
  Proof. destruct (v_ent x'); reflexivity. Qed.

  (** whatever max_loops is: the month asks for January and casts the answer; the January
      request runs with the month's frame on the stack *)
  Lemma am_delegates m pp c fuel : (2 <= m <= 12)%Z -> in_force m -> 1 <= s_loops s ->
    lookup (v, month_of y m) c = None ->
    let st := {| cache := c; stack := []; invalid := [] |} in
    snd (calc (S (S fuel)) sy' pp st v (month_of y m))
    = rmap (cast x') (snd (calc (S fuel) sy' pp (push (v, month_of y m) st) v (jan y))).
  Proof.
    intros Hm Hf Hl Hmon st. remember (S fuel) as f1 eqn:Ef1. cbn [calc]. unfold calc_body at 1.
    rewrite am_nth, am_check. unfold get_array at 1.
    assert (Hneu : v_neutral x' = false) by reflexivity. rewrite Hneu, am_norm.
    cbn [st push cache stack tl]. rewrite Hmon.
    cbn [prev_periods filter map existsb length]. rewrite am_loops.
    destruct (Nat.leb_spec (s_loops s) 0) as [?|_]; [lia|].
    rewrite (am_formula m Hm Hf). unfold self_january. cbn [eval apply_ptrans]. unfold call.
    rewrite am_nth, am_ent. cbn [negb].
    fold st. change {| cache := c; stack := [(v, month_of y m)]; invalid := [] |} with (push (v, month_of y m) st).
    destruct (calc f1 sy' pp (push (v, month_of y m) st) v (jan y)) as [s1 [a|e]]; reflexivity.
  Qed.

  Lemma jan_not_month m : (2 <= m <= 12)%Z -> period_eqb (jan y) (month_of y m) = false.
  Proof.
    intro Hm. destruct (period_eqb (jan y) (month_of y m)) eqn:E; [|reflexivity].
    apply period_eqb_iff in E. unfold jan, month_of in E. inversion E. lia.
  Qed.

  (** F20: max_loops = 1, neither January nor the month known.  The request for January made by
      the annualised formula is the second frame of the variable: the spiral test answers the
      default and marks both frames; the month's value (the default, cast) is stored and
      removed again by the purge that ends the request. *)
  Lemma am_f20 m pp c fuel : (2 <= m <= 12)%Z -> in_force m -> s_loops s = 1 ->
    lookup (v, month_of y m) c = None -> lookup (v, jan y) c = None ->
    let st := {| cache := c; stack := []; invalid := [] |} in
    let d := cast x' (default_array pp x') in
    calc (S (S fuel)) sy' pp st v (month_of y m)
    = ({| cache := delete_one sy' (v, month_of y m)
                     (delete_one sy' (v, jan y) (cache (put_in_cache x' v (month_of y m) d st)));
          stack := []; invalid := [] |}, Ok d).
  Proof.
    intros Hm Hf Hl Hmon Hjan st d. remember (S fuel) as f1 eqn:Ef1. cbn [calc]. unfold calc_body at 1.
    rewrite am_nth, am_check. unfold get_array at 1.
    assert (Hneu : v_neutral x' = false) by reflexivity. rewrite Hneu, am_norm.
    cbn [st push cache stack tl]. rewrite Hmon.
    cbn [prev_periods filter map existsb length]. rewrite am_loops, Hl. cbn [Nat.leb].
    rewrite (am_formula m Hm Hf). unfold self_january. cbn [eval apply_ptrans]. unfold call.
    rewrite am_nth, am_ent. cbn [negb]. subst f1.
    (* the January frame *)
    cbn [calc]. unfold calc_body at 1. rewrite am_nth.
    change (jan y) with (month_of y 1). rewrite am_check. unfold get_array at 1. rewrite Hneu, am_norm.
    cbn [st push cache stack tl]. change (month_of y 1) with (jan y). rewrite Hjan.
    unfold prev_periods. cbn [filter fst]. rewrite Nat.eqb_refl. cbn [map snd existsb length].
    rewrite (jan_not_month m Hm). cbn [orb]. rewrite am_loops, Hl. cbn [Nat.leb].
    cbn [spiral_marks fst]. rewrite !Nat.eqb_refl. cbn [Nat.ltb Nat.leb].
    unfold add_invalid, pop, purge. cbn [stack tl cache invalid app].
    unfold put_in_cache. fold x'. destruct (v_nostore x'); cbn [put stack tl cache invalid fold_left]; reflexivity.
  Qed.

  Lemma lookup_filter_none (g : key * val -> bool) kk : forall c,
    (forall kv, key_eqb kk (fst kv) = true -> g kv = false) -> lookup kk (filter g c) = None.
  Proof.
    intros c H. unfold lookup. induction c as [|kv c IH]; cbn [filter find option_map]; [reflexivity|].
    destruct (g kv) eqn:Eg; [|exact IH]. cbn [find].
    destruct (key_eqb kk (fst kv)) eqn:Ek; [|exact IH]. rewrite (H kv Ek) in Eg. discriminate.
  Qed.

  Lemma contains_refl p : contains p p = true.
  Proof. unfold contains. now rewrite !date_leb_refl. Qed.

  (** ... so nothing is stored for the month, and nothing for January either *)
  Lemma am_f20_nothing_stored m pp c fuel : (2 <= m <= 12)%Z -> in_force m -> s_loops s = 1 ->
    lookup (v, month_of y m) c = None -> lookup (v, jan y) c = None ->
    let st1 := fst (calc (S (S fuel)) sy' pp {| cache := c; stack := []; invalid := [] |} v (month_of y m)) in
    lookup (v, month_of y m) (cache st1) = None /\ lookup (v, jan y) (cache st1) = None
    /\ stack st1 = [] /\ invalid st1 = [].
  Proof.
    intros Hm Hf Hl Hmon Hjan. rewrite (am_f20 m pp c fuel Hm Hf Hl Hmon Hjan). cbn [fst cache stack invalid].
    assert (Hdel : forall kk c0 p, kk = (v, month_of y p) -> lookup kk (delete_one sy' (v, month_of y p) c0) = None).
    { intros kk c0 p ->. unfold delete_one. cbn [fst snd]. rewrite am_nth, am_norm.
      apply lookup_filter_none. intros [[w q] b] Hkv. apply key_eqb_iff in Hkv. cbn [fst snd] in *.
      inversion Hkv; subst w q.
      now rewrite Nat.eqb_refl, contains_refl. }
    split; [now apply Hdel|split; [|split; reflexivity]].
    - unfold delete_one at 1. cbn [fst snd]. rewrite am_nth, am_norm.
      unfold lookup. rewrite find_filter.
      + apply (Hdel (v, jan y) _ 1%Z). reflexivity.
      + intros [[w q] b] Hkv. apply key_eqb_iff in Hkv. cbn [fst snd] in *. inversion Hkv; subst w q.
        rewrite Nat.eqb_refl.
        cbn [andb]. destruct (contains (month_of y m) (jan y)) eqn:Ec; [|reflexivity]. exfalso.
        unfold contains, month_of, jan, p_start in Ec. cbn [fst snd] in Ec. apply andb_true_iff in Ec as [Ec _].
        rewrite date_leb_later_month in Ec by lia. discriminate.
  Qed.

  (** January known: the month answers the January value and keeps January known *)
  Definition january_known (a : val) (c : list (key * val)) : Prop :=
    lookup (v, jan y) c = Some a
    /\ forall m, (2 <= m <= 12)%Z -> lookup (v, month_of y m) c = None \/ lookup (v, month_of y m) c = Some (cast x' a).

  Lemma key_month_neq m1 m2 : m1 <> m2 -> key_eqb (v, month_of y m1) (v, month_of y m2) = false.
  Proof.
    intro H. destruct (key_eqb (v, month_of y m1) (v, month_of y m2)) eqn:E; [|reflexivity].
    apply key_eqb_iff in E. unfold month_of in E. inversion E. congruence.
  Qed.

  Lemma am_step m pp c fuel a : (1 <= m <= 12)%Z -> (forall m', (2 <= m' <= 12)%Z -> in_force m') -> 1 <= s_loops s ->
    january_known a c ->
    let r := calc (S (S fuel)) sy' pp {| cache := c; stack := []; invalid := [] |} v (month_of y m) in
    snd r = Ok (if (m =? 1)%Z then a else cast x' a)
    /\ stack (fst r) = [] /\ invalid (fst r) = [] /\ january_known a (cache (fst r)).
  Proof.
    intros Hm Hf Hl [Hjan Hmon]. cbv zeta.
    set (st := {| cache := c; stack := []; invalid := [] |}).
    assert (Hneu : v_neutral x' = false) by reflexivity.
    assert (Hhit : forall b, lookup (v, month_of y m) c = Some b ->
              calc (S (S fuel)) sy' pp st v (month_of y m) = (st, Ok b)).
    { intros b Hb. rewrite (calc_cached (S fuel) sy' pp st v (month_of y m) x' b am_nth (am_check m) Hneu);
        [reflexivity|now rewrite am_norm|reflexivity]. }
    destruct (Z.eqb_spec m 1) as [->|Hm1].
    - change (month_of y 1) with (jan y) in *. rewrite (Hhit a Hjan). cbn [fst snd]. repeat split; auto.
    - destruct (Hmon m ltac:(lia)) as [Hnone|Hsome].
      2:{ rewrite (Hhit _ Hsome). cbn [fst snd]. repeat split; auto. }
      (* the month is computed from the cached January *)
      assert (Hcalc : calc (S (S fuel)) sy' pp st v (month_of y m)
                = ({| cache := cache (put_in_cache x' v (month_of y m) (cast x' a) st); stack := []; invalid := [] |},
                   Ok (cast x' a))).
      { remember (S fuel) as f1 eqn:Ef1. cbn [calc]. unfold calc_body at 1.
        rewrite am_nth, am_check. unfold get_array at 1. rewrite Hneu, am_norm.
        cbn [st push cache stack tl]. rewrite Hnone.
        cbn [prev_periods filter map existsb length]. rewrite am_loops.
        destruct (Nat.leb_spec (s_loops s) 0) as [?|_]; [lia|].
        rewrite (am_formula m ltac:(lia) (Hf m ltac:(lia))). unfold self_january. cbn [eval apply_ptrans]. unfold call.
        rewrite am_nth, am_ent. cbn [negb]. subst f1. change (jan y) with (month_of y 1).
        rewrite (calc_cached fuel sy' pp _ v (month_of y 1) x' a am_nth (am_check 1) Hneu);
          [|rewrite am_norm; exact Hjan|reflexivity].
        unfold pop, purge, put_in_cache. cbn [push stack tl cache invalid]. fold x'.
        destruct (v_nostore x'); cbn [put stack tl cache invalid fold_left]; reflexivity. }
      rewrite Hcalc. cbn [fst snd cache stack invalid]. repeat split; auto.
      + unfold put_in_cache. destruct (v_nostore x'); [exact Hjan|].
        rewrite am_norm, lookup_put. change (jan y) with (month_of y 1). rewrite key_month_neq by lia. exact Hjan.
      + intros m' Hm'. unfold put_in_cache. destruct (v_nostore x'); [now apply Hmon|].
        rewrite am_norm, lookup_put. destruct (Z.eq_dec m' m) as [->|Hne].
        * rewrite key_eqb_refl. now right.
        * rewrite key_month_neq by exact Hne. now apply Hmon.
  Qed.

  (** any sequence of requests for months of the year, January included, in any order *)
  Lemma am_sequence pp fuel a : (forall m', (2 <= m' <= 12)%Z -> in_force m') -> 1 <= s_loops s ->
    forall ms c, Forall (fun m => (1 <= m <= 12)%Z) ms -> january_known a c ->
    snd (run (S (S fuel)) sy' pp {| cache := c; stack := []; invalid := [] |} (map (fun m => RCalc v (month_of y m)) ms))
    = map (fun m => AVal (if (m =? 1)%Z then a else cast x' a)) ms.
  Proof.
    intros Hf Hl. induction ms as [|m ms IH]; intros c Hms HJ; cbn [map run]; [reflexivity|].
    inversion Hms as [|? ? Hm Hms']; subst.
    destruct (am_step m pp c fuel a Hm Hf Hl HJ) as (R1 & R2 & R3 & R4).
    cbn [step]. destruct (calc (S (S fuel)) sy' pp {| cache := c; stack := []; invalid := [] |} v (month_of y m)) as [s1 r].
    cbn [fst snd] in *. subst r. cbn [sys_after].
    destruct s1 as [c1 stk1 inv1]. cbn [stack invalid cache] in *. subst stk1 inv1.
    specialize (IH c1 Hms' R4).
    destruct (run (S (S fuel)) sy' pp {| cache := c1; stack := []; invalid := [] |} (map (fun m0 => RCalc v (month_of y m0)) ms)) as [s2 l].
    cbn [snd] in *. now rewrite IH.
  Qed.
End AnnualMachine.

Lemma cast_not_bool x a : v_type x <> TBool -> cast x a = a.
Proof. unfold cast. destruct (v_type x); congruence. Qed.

(** F20, summary: the answer is the default; nothing is stored *)
Theorem am_f20_summary : forall y0 ny s v x s' k m pp c fuel,
  nth_error (s_vars s) v = Some x -> apply_var_mod s (Annualize v) = Ok s' -> sv_unit x = Month ->
  (1 <= y0)%Z -> k < ny -> (2 <= m <= 12)%Z -> in_force y0 x k m -> s_loops s = 1 ->
  lookup (v, month_of (y0 + Z.of_nat k) m) c = None -> lookup (v, jan (y0 + Z.of_nat k)) c = None ->
  let x' := to_var y0 ny v (annualized x) in
  let r := calc (S (S fuel)) (to_sys y0 ny s') pp {| cache := c; stack := []; invalid := [] |} v
             (month_of (y0 + Z.of_nat k) m) in
  snd r = Ok (cast x' (default_array pp x'))
  /\ (sv_type x <> TBool -> snd r = Ok (repeat (sv_default x) (count_of pp (sv_ent x))))
  /\ lookup (v, month_of (y0 + Z.of_nat k) m) (cache (fst r)) = None
  /\ lookup (v, jan (y0 + Z.of_nat k)) (cache (fst r)) = None
  /\ stack (fst r) = [] /\ invalid (fst r) = [].
Proof.
  intros y0 ny s v x s' k m pp c fuel Hx Hann Hu Hy0 Hk Hm Hf Hl Hmon Hjan x' r.
  pose proof (am_f20 y0 ny s v x s' k Hx Hann Hu Hy0 Hk m pp c fuel Hm Hf Hl Hmon Hjan) as E.
  pose proof (am_f20_nothing_stored y0 ny s v x s' k Hx Hann Hu Hy0 Hk m pp c fuel Hm Hf Hl Hmon Hjan) as N.
  cbv zeta in E, N. fold x' in E. unfold r. split; [now rewrite E|split; [|exact N]].
  intro Ht. rewrite E. cbn [snd]. rewrite cast_not_bool by exact Ht. reflexivity.
Qed.
