(** The decision structures regenerated from /repo (coq/gen/Guards.v) are the hand-written
    ones of coq/model/Engine.v.  Everything is a case analysis over the six units (the unit
    weights and unit lists compute: they are the regenerated coq/gen/Tables.v) and over the
    integer comparisons on the period size. *)
From Coq Require Import ZArith List Bool Lia.
From Verif Require Import Base Cal Tables Period Engine GuardsTypes Guards GuardsSem.
Import ListNotations.
Open Scope Z_scope.

(** decide every integer test that is left after the units have been computed away *)
Ltac size_cases :=
  rewrite ?Z.gtb_ltb, ?Z.geb_leb;
  repeat match goal with
         | |- context [Z.eqb ?a ?b] => destruct (Z.eqb_spec a b)
         | |- context [Z.ltb ?a ?b] => destruct (Z.ltb_spec a b)
         | |- context [Z.leb ?a ?b] => destruct (Z.leb_spec a b)
         end;
  cbn; try reflexivity; try lia.

(** ** Simulation._check_period_consistency *)

Lemma gen_check_consistency_bool : forall du ru size,
  gen_check_consistency du ru size
  = if unit_eqb du Eternity then false
    else if negb (unit_eqb du ru) then true
    else negb (size =? 1).
Proof.
  intros du ru size. unfold gen_check_consistency.
  destruct du, ru; cbn; size_cases.
Qed.

Lemma check_consistency_is_source : forall x p,
  check_consistency x p = src_check_consistency x p.
Proof.
  intros x p. unfold check_consistency, src_check_consistency.
  rewrite gen_check_consistency_bool.
  destruct (unit_eqb (v_unit x) Eternity); [reflexivity|].
  destruct (negb (unit_eqb (v_unit x) (p_unit p))); [reflexivity|].
  destruct (negb (p_size p =? 1)); reflexivity.
Qed.

Lemma gen_check_consistency_raises : forall x p,
  gen_check_consistency (v_unit x) (p_unit p) (p_size p) = true <-> check_consistency x p = Err EValue.
Proof.
  intros x p. rewrite check_consistency_is_source. unfold src_check_consistency.
  destruct (gen_check_consistency _ _ _); split; intro H; try reflexivity; discriminate H.
Qed.

Lemma gen_check_consistency_accepts : forall x p,
  gen_check_consistency (v_unit x) (p_unit p) (p_size p) = false <-> check_consistency x p = Ok tt.
Proof.
  intros x p. rewrite check_consistency_is_source. unfold src_check_consistency.
  destruct (gen_check_consistency _ _ _); split; intro H; try reflexivity; discriminate H.
Qed.

(** ** Simulation.calculate_add *)

Lemma gen_add_guard_bool : forall du ru,
  gen_add_guard du ru
  = (unit_weight ru <? unit_weight du) || unit_eqb ru Eternity || negb (dated_unit du).
Proof. intros du ru. destruct du, ru; vm_compute; reflexivity. Qed.

Lemma calc_add_is_source : forall (S : Type) (rec : S -> nat -> period -> S * res val) s v x q,
  calc_add rec s v x q = src_calc_add rec s v x q.
Proof.
  intros S rec s v x q. unfold calc_add, src_calc_add. rewrite gen_add_guard_bool.
  destruct (unit_weight (p_unit q) <? unit_weight (v_unit x)); [reflexivity|].
  destruct (unit_eqb (p_unit q) Eternity); [reflexivity|].
  destruct (negb (dated_unit (v_unit x))); reflexivity.
Qed.

(** ** Simulation.calculate_divide *)

Lemma gen_divide_guard_bool : forall du ru size,
  gen_divide_guard du ru size
  = ((unit_weight du <? unit_weight ru) || (1 <? size))
    || negb (dated_unit du)
    || (negb (dated_unit ru) || negb (size =? 1)).
Proof.
  intros du ru size. unfold gen_divide_guard, dated_unit, in_units.
  destruct du, ru; cbn; size_cases.
Qed.

Lemma gen_divide_period_choice_is_model : forall x q,
  apply_named (gen_divide_period_choice (v_unit x)) q = divide_period x q.
Proof. intros x q. unfold divide_period. destruct (v_unit x); reflexivity. Qed.

Lemma gen_divide_denominator_choice_is_model : forall q cp,
  apply_size (gen_divide_denominator_choice (p_unit q)) cp = divide_denominator q cp.
Proof. intros q cp. unfold divide_denominator. destruct (p_unit q); reflexivity. Qed.

Lemma calc_divide_is_source : forall (S : Type) (rec : S -> nat -> period -> S * res val) s v x q,
  calc_divide rec s v x q = src_calc_divide rec s v x q.
Proof.
  intros S rec s v x q. unfold calc_divide, src_calc_divide.
  rewrite gen_divide_guard_bool, gen_divide_period_choice_is_model.
  destruct ((unit_weight (v_unit x) <? unit_weight (p_unit q)) || (1 <? p_size q)); [reflexivity|].
  destruct (negb (dated_unit (v_unit x))); [reflexivity|].
  destruct (negb (dated_unit (p_unit q)) || negb (p_size q =? 1)); [reflexivity|].
  cbn [orb].
  destruct (divide_period x q) as [cp|e]; [|reflexivity].
  rewrite gen_divide_denominator_choice_is_model. reflexivity.
Qed.

(** ** CorePopulation.__call__ *)

Lemma gen_option_dispatch_table : forall o,
  gen_option_dispatch (opt_has_add o) (opt_has_divide o) (opt_is_sequence o)
  = match o with
    | OPlain => DPlain | OAdd => DAdd | ODivide => DDivide
    | OBoth => DIncompatible | OUnknown => DInvalid
    end.
Proof. intros []; reflexivity. Qed.

Lemma call_is_source : forall (S : Type) (rec : S -> nat -> period -> S * res val) sy c s v q o,
  call rec sy c s v q o = src_call rec sy c s v q o.
Proof.
  intros S rec sy c s v q o. unfold call, src_call. rewrite gen_option_dispatch_table.
  destruct (nth_error (vars sy) v) as [x|]; [|reflexivity].
  destruct (negb (ent_eqb (v_ent x) c)); [reflexivity|].
  destruct o; reflexivity.
Qed.

(** a sequence of options is never run as a plain request, None always is *)
Lemma gen_option_dispatch_plain_iff : forall a d sq,
  gen_option_dispatch a d sq = DPlain <-> sq = false.
Proof. intros [] [] []; vm_compute; split; intro H; try reflexivity; discriminate H. Qed.
