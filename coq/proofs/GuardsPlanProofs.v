(** The plans regenerated from /repo (coq/gen/GuardsPlan.v) are the reference plans of
    coq/model/EnginePlan.v: closed terms, by computation. *)
From Coq Require Import List.
From Verif Require Import GuardsTypes GuardsPlan EnginePlan.
Import ListNotations.

Lemma gen_calculate_plan_is_model : gen_calculate_plan = calculate_plan.
Proof. reflexivity. Qed.
Lemma gen__calculate_plan_is_model : gen__calculate_plan = _calculate_plan.
Proof. reflexivity. Qed.
Lemma gen_check_for_cycle_plan_is_model : gen_check_for_cycle_plan = check_for_cycle_plan.
Proof. reflexivity. Qed.
Lemma gen_purge_plan_is_model : gen_purge_plan = purge_plan.
Proof. reflexivity. Qed.
