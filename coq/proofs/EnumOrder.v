(** The order on strings that [String.ltb] decides (lexicographic on the character
    codes, which is how numpy compares str_ values): it is a strict total order. *)
From Coq Require Import String Ascii NArith List Bool Lia.
Import ListNotations.

Lemma ascii_compare_refl a : Ascii.compare a a = Eq.
Proof. unfold Ascii.compare. apply N.compare_refl. Qed.

Lemma ascii_compare_lt_trans a b c :
  Ascii.compare a b = Lt -> Ascii.compare b c = Lt -> Ascii.compare a c = Lt.
Proof.
  unfold Ascii.compare. rewrite !N.compare_lt_iff. lia.
Qed.

Lemma ascii_compare_gt_lt a b : Ascii.compare a b = Gt -> Ascii.compare b a = Lt.
Proof. rewrite (Ascii.compare_antisym b a). intros ->. reflexivity. Qed.

Lemma compare_refl s : String.compare s s = Eq.
Proof.
  induction s as [|a s IH]; cbn [String.compare]; [reflexivity|].
  rewrite ascii_compare_refl. exact IH.
Qed.

Lemma compare_lt_trans a : forall b c,
  String.compare a b = Lt -> String.compare b c = Lt -> String.compare a c = Lt.
Proof.
  induction a as [|x a IH]; intros [|y b] [|z c]; cbn [String.compare]; try congruence.
  destruct (Ascii.compare x y) eqn:Hxy; try discriminate;
  destruct (Ascii.compare y z) eqn:Hyz; try discriminate; intros H1 H2.
  - apply Ascii.compare_eq_iff in Hxy, Hyz. subst. rewrite ascii_compare_refl. eauto.
  - apply Ascii.compare_eq_iff in Hxy. subst. rewrite Hyz. reflexivity.
  - apply Ascii.compare_eq_iff in Hyz. subst. rewrite Hxy. reflexivity.
  - rewrite (ascii_compare_lt_trans _ _ _ Hxy Hyz). reflexivity.
Qed.

Lemma compare_gt_lt a b : String.compare a b = Gt -> String.compare b a = Lt.
Proof. rewrite (String.compare_antisym b a). intros ->. reflexivity. Qed.

Lemma compare_lt_gt a b : String.compare a b = Lt -> String.compare b a = Gt.
Proof. rewrite (String.compare_antisym b a). intros ->. reflexivity. Qed.

(** [String.ltb a b = true] is "a < b"; [String.ltb b a = false] is "a <= b". *)

Lemma ltb_irrefl s : String.ltb s s = false.
Proof. unfold String.ltb. rewrite compare_refl. reflexivity. Qed.

Lemma ltb_lt a b : String.ltb a b = true <-> String.compare a b = Lt.
Proof. unfold String.ltb. destruct (String.compare a b); split; congruence. Qed.

Lemma ltb_ge a b : String.ltb a b = false <-> (a = b \/ String.compare b a = Lt).
Proof.
  unfold String.ltb. destruct (String.compare a b) eqn:H; split; try congruence; intros.
  - left. apply String.compare_eq_iff. exact H.
  - destruct H0 as [->|H0]; [rewrite compare_refl in H; discriminate|].
    apply compare_lt_gt in H. congruence.
  - right. apply compare_gt_lt. exact H.
Qed.

Lemma ltb_asym a b : String.ltb a b = true -> String.ltb b a = false.
Proof.
  rewrite ltb_lt, ltb_ge. auto.
Qed.

Lemma ltb_trans a b c : String.ltb a b = true -> String.ltb b c = true -> String.ltb a c = true.
Proof. rewrite !ltb_lt. apply compare_lt_trans. Qed.

(** a <= b -> b < c -> a < c *)
Lemma le_lt_trans a b c : String.ltb b a = false -> String.ltb b c = true -> String.ltb a c = true.
Proof.
  rewrite ltb_ge, !ltb_lt. intros [->|H] H'; [exact H'|]. eapply compare_lt_trans; eauto.
Qed.

(** a < b -> b <= c -> a < c *)
Lemma lt_le_trans a b c : String.ltb a b = true -> String.ltb c b = false -> String.ltb a c = true.
Proof.
  rewrite ltb_ge, !ltb_lt. intros H [->|H']; [exact H|]. eapply compare_lt_trans; eauto.
Qed.

(** a <= b -> b <= c -> a <= c *)
Lemma le_trans a b c : String.ltb b a = false -> String.ltb c b = false -> String.ltb c a = false.
Proof.
  intros H1 H2. destruct (String.ltb c a) eqn:H; [|reflexivity].
  (* c < a <= b, so c < b: contradicts b <= c *)
  assert (String.ltb c b = true) by (eapply lt_le_trans; eauto).
  congruence.
Qed.

(** a <= b -> b <= a -> a = b *)
Lemma le_antisym a b : String.ltb b a = false -> String.ltb a b = false -> a = b.
Proof.
  intros H1 H2. apply ltb_ge in H1, H2.
  destruct H1 as [H1|H1]; [auto|]. destruct H2 as [H2|H2]; [auto|].
  pose proof (compare_lt_trans _ _ _ H1 H2) as H. rewrite compare_refl in H. discriminate.
Qed.

(** totality: a < b, a = b or b < a *)
Lemma ltb_total a b : String.ltb a b = true \/ a = b \/ String.ltb b a = true.
Proof.
  destruct (String.ltb a b) eqn:H; [auto|]. apply ltb_ge in H. rewrite ltb_lt. tauto.
Qed.
