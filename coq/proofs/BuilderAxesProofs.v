(** Proofs about the situation-builder model, continued: a document with axes builds the
    concatenation of [cell_count] copies of the simulation built from the same document with
    the axes put aside (entities at document level; values of the variables that no axis names). *)
From Coq Require Import ZArith QArith List Bool String Lia Permutation.
From Verif Require Import Base Cal Tables Period Builder BuilderSpec BuilderProofs BuilderGroupProofs
  BuilderValueProofs BuilderRejectProofs BuilderOwnProofs BuilderErrorProofs.
Import ListNotations.
Open Scope Z_scope.
Open Scope res_scope.

(** * With axes every group kind is declared: the flag changes nothing *)

Lemma add_groups_flag x s pids params gs : forall st st',
  add_groups x s st pids params true gs = Ok st' -> add_groups x s st pids params false gs = Ok st'.
Proof.
  induction gs as [|g gs IH]; intros st st' H; cbn [add_groups] in *; [assumption|].
  apply bind_ok in H. destruct H as (st1 & H1 & H2).
  destruct (aget (e_plural g) params) as [j|]; [destruct j|]; try discriminate;
    rewrite H1; cbn [bind]; apply IH; assumption.
Qed.

Lemma aget_aremove_same {A} a (l : list (string * A)) : aget a (aremove a l) = None.
Proof.
  induction l as [|[k v] l IH]; cbn [aremove aget]; [reflexivity|].
  destruct (String.eqb k a) eqn:E; [assumption|]. cbn [aget]. rewrite E. assumption.
Qed.

Lemma aremove_idem {A} a (l : list (string * A)) : aremove a (aremove a l) = aremove a l.
Proof.
  induction l as [|[k v] l IH]; cbn [aremove]; [reflexivity|].
  destruct (String.eqb k a) eqn:E; [assumption|]. cbn [aremove]. rewrite E, IH. reflexivity.
Qed.

(** * The entities after [expand_entities] *)

Lemma aset_keys_nodup {A} k (v : A) l : NoDup (map fst l) -> NoDup (map fst (aset k v l)).
Proof.
  induction l as [|[k' w] l IH]; cbn [aset map fst]; intros N.
  - constructor; [intros []|constructor].
  - inversion N; subst. destruct (String.eqb k' k) eqn:E; cbn [map fst].
    + constructor; assumption.
    + constructor; [|apply IH; assumption]. intros I.
      assert (forall q, In q (map fst (aset k v l)) -> q = k \/ In q (map fst l)) as Sub.
      { clear. induction l as [|[k0 w0] l IHl]; cbn [aset map fst In]; intros q.
        - intros [E|[]]; left; congruence.
        - destruct (String.eqb k0 k); cbn [map fst In]; intros [E|I]; auto.
          apply IHl in I. tauto. }
      apply Sub in I. destruct I as [->|I]; [rewrite String.eqb_refl in E; discriminate|contradiction].
Qed.

(* the expanded ids / roles / memberships of one entity *)
Definition expanded (st : bstate) (pp : string) (cells : nat) (st' : bstate) (p : string) : Prop :=
  aget p (b_ax_ids st') = Some (suffix_ids (repeat_list (ids_of st p) cells)) /\
  aget p (b_ax_roles st') = Some (repeat_list (match aget p (b_roles st) with Some l => l | None => [] end) cells) /\
  (p <> pp ->
   aget p (b_ax_members st')
   = Some (tile_members (match aget p (b_members st) with Some l => l | None => [] end)
                        (Z.of_nat (List.length (ids_of st p))) 0 cells)) /\
  (p = pp -> aget p (b_ax_members st') = aget p (b_ax_members st)).

Lemma expand_entities_spec pp cells l : forall st,
  NoDup (map fst l) ->
  (forall p ids, In (p, ids) l -> aget p (b_ids st) = Some ids) ->
  (forall p, In p (map fst l) -> aget p (b_ax_ids st) = None /\ aget p (b_ax_roles st) = None
                                 /\ aget p (b_ax_members st) = None) ->
  let st' := expand_entities st pp cells l in
  b_ids st' = b_ids st /\ b_members st' = b_members st /\ b_roles st' = b_roles st /\
  b_buffer st' = b_buffer st /\
  (forall p, In p (map fst l) -> expanded st pp cells st' p) /\
  (forall p, ~ In p (map fst l) ->
     aget p (b_ax_ids st') = aget p (b_ax_ids st) /\ aget p (b_ax_roles st') = aget p (b_ax_roles st)
     /\ aget p (b_ax_members st') = aget p (b_ax_members st)).
Proof.
  induction l as [|[p ids] l IH]; intros st ND Hids Hnone; cbn [expand_entities].
  - cbv zeta. split; [reflexivity|]. split; [reflexivity|]. split; [reflexivity|]. split; [reflexivity|].
    split; [intros q []|]. intros q _. split; [reflexivity|]. split; reflexivity.
  - cbn [map fst] in ND. inversion ND as [|? ? Nin ND']; subst.
    destruct (Hnone p (or_introl eq_refl)) as (N1 & N2 & N3).
    assert (get_ids st p = ids) as Gi.
    { unfold get_ids, ids_of. rewrite N1, (Hids p ids (or_introl eq_refl)). reflexivity. }
    assert (get_roles st p = match aget p (b_roles st) with Some l0 => l0 | None => [] end) as Gr.
    { unfold get_roles. rewrite N2. reflexivity. }
    assert (get_memberships st p = match aget p (b_members st) with Some l0 => l0 | None => [] end) as Gm.
    { unfold get_memberships. rewrite N3. reflexivity. }
    set (st2 := if String.eqb p pp then _ else _).
    assert (b_ids st2 = b_ids st /\ b_members st2 = b_members st /\ b_roles st2 = b_roles st /\
            b_buffer st2 = b_buffer st) as (E1 & E2 & E3 & E4).
    { unfold st2. destruct (String.eqb p pp); repeat split. }
    assert (b_ax_ids st2 = aset p (suffix_ids (repeat_list ids cells)) (b_ax_ids st) /\
            b_ax_roles st2 = aset p (repeat_list (match aget p (b_roles st) with Some l0 => l0 | None => [] end) cells)
                               (b_ax_roles st)) as (A1 & A2).
    { unfold st2. rewrite Gi, Gr. destruct (String.eqb p pp); split; reflexivity. }
    assert ((p <> pp -> b_ax_members st2
                        = aset p (tile_members (match aget p (b_members st) with Some l0 => l0 | None => [] end)
                                               (Z.of_nat (List.length ids)) 0 cells) (b_ax_members st)) /\
            (p = pp -> b_ax_members st2 = b_ax_members st)) as (A3 & A4).
    { unfold st2. rewrite Gm. destruct (String.eqb p pp) eqn:Q; split; intros H; try reflexivity.
      - apply String.eqb_eq in Q. contradiction.
      - subst. rewrite String.eqb_refl in Q. discriminate. }
    specialize (IH st2 ND').
    assert (forall q ids0, In (q, ids0) l -> aget q (b_ids st2) = Some ids0) as Hids'.
    { intros q ids0 I. rewrite E1. apply Hids. right. assumption. }
    assert (forall q, In q (map fst l) -> aget q (b_ax_ids st2) = None /\ aget q (b_ax_roles st2) = None
                                          /\ aget q (b_ax_members st2) = None) as Hnone'.
    { intros q I. assert (q <> p) as Nq by (intros ->; contradiction).
      destruct (Hnone q (or_intror I)) as (M1 & M2 & M3).
      rewrite A1, A2, !aget_aset_other by assumption. split; [assumption|]. split; [assumption|].
      destruct (string_dec p pp) as [Ep|Np]; [rewrite (A4 Ep)|rewrite (A3 Np), aget_aset_other by assumption];
        assumption. }
    destruct (IH Hids' Hnone') as (I1 & I2 & I3 & I4 & I5 & I6). cbv zeta.
    split; [congruence|]. split; [congruence|]. split; [congruence|]. split; [congruence|]. split.
    + cbn [map fst In]. intros q [<-|I].
      * destruct (I6 p Nin) as (B1 & B2 & B3). unfold expanded.
        rewrite B1, B2, B3, A1, A2, !aget_aset_same. unfold ids_of. rewrite (Hids p ids (or_introl eq_refl)).
        split; [reflexivity|]. split; [reflexivity|]. split.
        -- intros Np. rewrite (A3 Np), aget_aset_same. reflexivity.
        -- intros Ep. rewrite (A4 Ep). reflexivity.
      * assert (q <> p) as Nq by (intros ->; contradiction).
        destruct (I5 q I) as (C1 & C2 & C3 & C4). unfold expanded, ids_of in *.
        rewrite E1, E2, E3 in *. split; [assumption|]. split; [assumption|]. split; [assumption|].
        intros Eq. rewrite (C4 Eq).
        destruct (string_dec p pp) as [Ep|Np]; [rewrite (A4 Ep); reflexivity|].
        rewrite (A3 Np), aget_aset_other by assumption. reflexivity.
    + cbn [map fst In]. intros q Nq. assert (q <> p) as Nqp by (intros ->; apply Nq; left; reflexivity).
      destruct (I6 q (fun I => Nq (or_intror I))) as (B1 & B2 & B3).
      rewrite B1, B2, B3, A1, A2, !aget_aset_other by assumption.
      split; [reflexivity|]. split; [reflexivity|].
      destruct (string_dec p pp) as [Ep|Np]; [rewrite (A4 Ep); reflexivity|].
      rewrite (A3 Np), aget_aset_other by assumption. reflexivity.
Qed.

(** * Applying the axes only writes the buffer *)

Definition same_entities (st st' : bstate) : Prop :=
  b_ids st' = b_ids st /\ b_members st' = b_members st /\ b_roles st' = b_roles st /\
  b_ax_ids st' = b_ax_ids st /\ b_ax_members st' = b_ax_members st /\ b_ax_roles st' = b_ax_roles st.

Lemma apply_axis_entities x s st step cells vals a st' :
  apply_axis x s st step cells vals a = Ok st' -> same_entities st st'.
Proof.
  unfold apply_axis. intros H. apply bind_ok in H. destruct H as (t & _ & H).
  apply bind_ok in H. destruct H as (p & _ & H).
  destruct (find_var (a_name a) (s_vars s)); [|discriminate].
  apply bind_ok in H. destruct H as (cs & _ & H).
  destruct (Nat.eqb step 0); [discriminate|].
  apply bind_ok in H. destruct H as (arr & _ & H). inversion H; subst. repeat split.
Qed.

Lemma same_entities_trans a b c : same_entities a b -> same_entities b c -> same_entities a c.
Proof. unfold same_entities. intuition congruence. Qed.

Lemma apply_axes_entities x s step cells valsf l : forall st st',
  apply_axes x s st step cells valsf l = Ok st' -> same_entities st st'.
Proof.
  induction l as [|a l IH]; intros st st' H; cbn [apply_axes] in H.
  - inversion H; subst. repeat split.
  - apply bind_ok in H. destruct H as (st1 & H1 & H2).
    eapply same_entities_trans; [eapply apply_axis_entities; eassumption|eapply IH; eassumption].
Qed.

Lemma apply_dims_entities x s counts cells dims : forall st d st',
  apply_dims x s st counts cells d dims = Ok st' -> same_entities st st'.
Proof.
  induction dims as [|dim dims IH]; intros st d st' H; cbn [apply_dims] in H.
  - inversion H; subst. repeat split.
  - apply bind_ok in H. destruct H as (step & _ & H).
    destruct (dim_count dim <=? 1); [discriminate|].
    apply bind_ok in H. destruct H as (st1 & H1 & H2).
    eapply same_entities_trans; [eapply apply_axes_entities; eassumption|eapply IH; eassumption].
Qed.

Lemma expand_axes_entities x s st dims st' :
  expand_axes x s st dims = Ok st' ->
  0 < cell_count dims /\
  same_entities (expand_entities st (e_plural (s_person s)) (Z.to_nat (cell_count dims)) (b_ids st)) st'.
Proof.
  unfold expand_axes. destruct (cell_count dims <=? 0) eqn:C; [discriminate|].
  apply Z.leb_gt in C. intros H. split; [assumption|].
  destruct dims as [|dim [|dim' dims]].
  - eapply apply_dims_entities; eassumption.
  - apply bind_ok in H. destruct H as (step & _ & H). eapply apply_axes_entities; eassumption.
  - eapply apply_dims_entities; eassumption.
Qed.

(** * The dictionary of ids: one entry per entity *)

Lemma add_group_entity_ids_keys x s st pids e j st' :
  add_group_entity x s st pids e j = Ok st' ->
  NoDup (map fst (b_ids st)) -> NoDup (map fst (b_ids st')) /\ aget (e_plural e) (b_ids st') <> None.
Proof.
  unfold add_group_entity. destruct j; try discriminate. intros H N.
  apply bind_ok in H. destruct H as ([[st1 todo] mr] & H1 & H2).
  apply add_group_instances_frame in H1. destruct H1 as (F1 & _).
  cbn [set_ids b_ids] in F1.
  destruct todo; inversion H2; subst st'; cbn [set_roles set_members set_buffer set_ids b_ids];
    rewrite ?F1; (split; [repeat apply aset_keys_nodup; assumption|rewrite aget_aset_same; discriminate]).
Qed.

Lemma add_groups_ids_keys x s pids params gs : forall st st',
  add_groups x s st pids params true gs = Ok st' ->
  NoDup (map fst (b_ids st)) ->
  NoDup (map fst (b_ids st')) /\
  (forall q, aget q (b_ids st) <> None -> aget q (b_ids st') <> None) /\
  (forall g, In g gs -> aget (e_plural g) (b_ids st') <> None).
Proof.
  induction gs as [|g gs IH]; intros st st' H N; cbn [add_groups] in H.
  - inversion H; subst. split; [assumption|]. split; [auto|intros ? []].
  - apply bind_ok in H. destruct H as (st1 & H1 & H2).
    assert (exists j, add_group_entity x s st pids g j = Ok st1) as (j & He).
    { destruct (aget (e_plural g) params) as [j|]; [destruct j|]; try discriminate; eauto. }
    destruct (add_group_entity_ids_keys _ _ _ _ _ _ _ He N) as (N1 & S1).
    destruct (IH _ _ H2 N1) as (N2 & K2 & G2).
    split; [assumption|]. split.
    + intros q Hq. apply K2. destruct (string_dec q (e_plural g)) as [->|Nq]; [assumption|].
      destruct (add_group_entity_frame _ _ _ _ _ _ _ He) as (Fo & _).
      destruct (Fo q Nq) as (A & _). rewrite A. assumption.
    + intros g' [<-|I]; [apply K2; assumption|apply G2; assumption].
Qed.

Lemma tile_members_nil cnt cells : forall k, tile_members [] cnt k cells = [].
Proof. induction cells as [|c IH]; intros k; cbn [tile_members map app]; [reflexivity|apply IH]. Qed.

Lemma mapM_In_rev {A B} (f : A -> res B) l : forall ys y,
  mapM f l = Ok ys -> In y ys -> exists a, In a l /\ f a = Ok y.
Proof.
  induction l as [|a0 l IH]; intros ys y H I; cbn [mapM] in H.
  - inversion H; subst. destruct I.
  - destruct (f a0) as [y0|] eqn:E; [|discriminate].
    destruct (mapM f l) as [ys0|] eqn:E'; [|discriminate]. inversion H; subst.
    destruct I as [<-|I]; [exists a0; split; [left; reflexivity|assumption]|].
    destruct (IH ys0 y eq_refl I) as (a & Ia & Fa). exists a. split; [right; assumption|assumption].
Qed.

Lemma key_inj (l : list entity) e e' :
  NoDup (map e_key l) -> In e l -> In e' l -> e_key e' = e_key e -> e' = e.
Proof.
  induction l as [|a l IH]; intros N I I' E; [destruct I|]. cbn [map] in N. inversion N; subst.
  destruct I as [->|I], I' as [->|I']; try reflexivity.
  - exfalso. apply H1. rewrite <- E. apply in_map. assumption.
  - exfalso. apply H1. rewrite E. apply in_map. assumption.
  - apply IH; assumption.
Qed.

Lemma add_groups_members_other x s pids params ax gs q : forall st st',
  add_groups x s st pids params ax gs = Ok st' -> ~ In q (map e_plural gs) ->
  aget q (b_members st') = aget q (b_members st).
Proof.
  induction gs as [|g gs IH]; intros st st' H N; cbn [add_groups] in H.
  - inversion H; subst. reflexivity.
  - apply bind_ok in H. destruct H as (st1 & H1 & H2). cbn [map In] in N.
    rewrite (IH _ _ H2) by (intros I; apply N; right; assumption).
    assert (frame_but (e_plural g) st st1) as F.
    { destruct (aget (e_plural g) params) as [j|].
      - destruct j; try (eapply add_group_entity_frame; eassumption);
          destruct ax; try discriminate; inversion H1; subst; apply add_default_group_entity_frame.
      - destruct ax; try discriminate; inversion H1; subst; apply add_default_group_entity_frame. }
    destruct F as (Fo & _). assert (q <> e_plural g) as Ne by (intros ->; apply N; left; reflexivity).
    destruct (Fo q Ne) as (_ & B & _). assumption.
Qed.

(** * Document level: the entities of a document with axes *)

Theorem axes_entities_doc x s doc dims ds sim base :
  NoDup (plurals s) -> NoDup (singulars s) ->
  aget "axes"%string doc = Some dims -> dims <> JNull -> parse_dims dims = Ok ds ->
  build_from_entities x s doc = Ok sim ->
  build_from_entities x s (aremove "axes" doc) = Ok base ->
  let cells := Z.to_nat (cell_count ds) in
  forall e pop bpop, In e (entities s) -> pop_of sim e pop -> pop_of base e bpop ->
    p_ids pop = suffix_ids (repeat_list (p_ids bpop) cells) /\
    p_mroles pop = repeat_list (p_mroles bpop) cells /\
    p_members pop = tile_members (p_members bpop) (Z.of_nat (List.length (p_ids bpop))) 0 cells.
Proof.
  intros NDp NDs Hax Hnn Hds Hb Hbase cells e pop bpop Ie (Ipop & Kpop) (Ibpop & Kbpop).
  set (pp := e_plural (s_person s)). set (params := aremove "axes" doc).
  (* the run with axes *)
  unfold build_from_entities in Hb. fold params pp in Hb. rewrite Hax in Hb.
  destruct (existsb _ params) eqn:Ex; [discriminate|].
  destruct (aget pp params) as [j|] eqn:Ap; [|discriminate].
  destruct j; try discriminate. destruct l as [|i0 rest]; [discriminate|].
  apply bind_ok in Hb. destruct Hb as (st1 & H1 & Hb).
  apply bind_ok in Hb. destruct Hb as (st2 & H2 & Hb).
  assert (exists st3, expand_axes x s st2 ds = Ok st3
                      /\ mapM (finalize_population s st3) (entities s) = Ok sim) as (st3 & H3 & Hm).
  { destruct dims; try (exfalso; apply Hnn; reflexivity);
      apply bind_ok in Hb; destruct Hb as (st3 & H3 & Hm);
      apply bind_ok in H3; destruct H3 as (ds' & Hd' & H3);
      rewrite Hds in Hd'; inversion Hd'; subst ds'; eauto. }
  assert (add_groups x s st1 (get_ids st1 pp) params true (s_groups s) = Ok st2) as H2'.
  { destruct dims; try (exfalso; apply Hnn; reflexivity); exact H2. }
  (* the run without *)
  unfold build_from_entities in Hbase. rewrite aremove_idem, aget_aremove_same in Hbase.
  fold params pp in Hbase. rewrite Ex, Ap in Hbase.
  fold pp in H1. rewrite H1 in Hbase. cbn [bind] in Hbase.
  rewrite (add_groups_flag _ _ _ _ _ _ _ H2') in Hbase. cbn [bind] in Hbase.
  (* the state before the expansion *)
  pose proof H1 as H1f. unfold add_person_entity in H1f. apply add_person_instances_frame in H1f.
  destruct H1f as (F1 & F2 & F3 & F4 & F5 & F6).
  cbn [set_ids b_empty b_ids b_members b_roles b_ax_ids b_ax_members b_ax_roles] in F1, F2, F3, F4, F5, F6.
  assert (NoDup (map fst (b_ids st1))) as N1.
  { rewrite F1. cbn. constructor; [intros []|constructor]. }
  destruct (add_groups_ids_keys _ _ _ _ _ _ _ H2' N1) as (N2 & K2 & G2).
  destruct (add_groups_ax _ _ _ _ _ _ _ _ H2') as (Y1 & Y2 & Y3).
  assert (b_ax_ids st2 = [] /\ b_ax_members st2 = [] /\ b_ax_roles st2 = []) as (Z1 & Z2 & Z3)
    by (repeat split; congruence).
  assert (aget (e_plural e) (b_ids st2) <> None) as Hkey.
  { destruct Ie as [<-|Ig]; [|apply G2; assumption]. apply K2. fold pp. rewrite F1. cbn.
    rewrite String.eqb_refl. discriminate. }
  destruct (aget (e_plural e) (b_ids st2)) as [ids|] eqn:Aids; [|contradiction].
  destruct (expand_axes_entities _ _ _ _ _ H3) as (Cpos & Se).
  fold pp cells in Se.
  destruct (expand_entities_spec pp cells (b_ids st2) st2 N2) as (Q1 & Q2 & Q3 & _ & Ex5 & _).
  { intros p ids0 I. clear -I N2. induction (b_ids st2) as [|[k w] l IH]; [destruct I|].
    cbn [map fst] in N2. inversion N2; subst. cbn [aget]. destruct I as [E|I].
    - inversion E; subst. rewrite String.eqb_refl. reflexivity.
    - destruct (String.eqb k p) eqn:Q; [|apply IH; assumption].
      apply String.eqb_eq in Q. subst. exfalso. apply H1. apply in_map_iff.
      exists (p, ids0). split; [reflexivity|assumption]. }
  { intros p _. rewrite Z1, Z2, Z3. repeat split. }
  assert (In (e_plural e) (map fst (b_ids st2))) as Ikey.
  { apply in_map_iff. exists (e_plural e, ids). split; [reflexivity|apply aget_In; assumption]. }
  destruct (Ex5 _ Ikey) as (X1 & X2 & X3 & X4).
  destruct Se as (S1 & S2 & S3 & S4 & S5 & S6).
  (* the two populations *)
  destruct (mapM_In_rev _ _ _ _ Hm Ipop) as (e1 & Ie1 & Fe1).
  destruct (mapM_In_rev _ _ _ _ Hbase Ibpop) as (e2 & Ie2 & Fe2).
  unfold finalize_population in Fe1, Fe2.
  apply bind_ok in Fe1. destruct Fe1 as (hs1 & _ & Fe1). inversion Fe1; subst pop. clear Fe1.
  apply bind_ok in Fe2. destruct Fe2 as (hs2 & _ & Fe2). inversion Fe2; subst bpop. clear Fe2.
  cbn [p_entity] in Kpop, Kbpop.
  assert (e1 = e) by (eapply key_inj; eassumption). subst e1.
  assert (e2 = e) by (eapply key_inj; eassumption). subst e2.
  cbn [p_ids p_mroles p_members].
  unfold get_ids, get_roles, get_memberships, ids_of in *.
  rewrite S4, S5, S6, X1, X2, Z1, Z2, Z3. cbn [aget]. rewrite Aids.
  split; [reflexivity|]. split; [reflexivity|].
  destruct (string_dec (e_plural e) pp) as [Ep|Np].
  - rewrite (X4 Ep), Z2. cbn [aget].
    assert (aget (e_plural e) (b_members st2) = None) as Nm.
    { rewrite Ep. unfold pp.
      assert (~ In (e_plural (s_person s)) (map e_plural (s_groups s))) as Npp.
      { unfold plurals, entities in NDp. cbn [map] in NDp. inversion NDp; assumption. }
      rewrite (add_groups_members_other _ _ _ _ _ _ _ _ _ H2' Npp), F2. reflexivity. }
    rewrite S2, Q2, Nm. rewrite tile_members_nil. reflexivity.
  - rewrite (X3 Np), Aids. reflexivity.
Qed.

(** * What the flush stores for a variable without set-input rule *)

Lemma flushed_value s e count b hs vn v :
  buf_ok b -> flush_buffer s e count b [] = Ok hs ->
  find_var vn (s_vars s) = Some v -> v_entity v = e_key e -> no_rule v ->
  forall p,
    match aget vn hs with Some h => hget h p | None => None end
    = option_map (fun arr => repeat_list arr (count / List.length arr)) (buf_get b vn p)
    /\ (forall arr, buf_get b vn p = Some arr ->
          List.length (repeat_list arr (count / List.length arr)) = count).
Proof.
  intros [ND FA] Fl Fv Ev (Hr & He & Hend) p.
  destruct (flush_buffer_get _ _ _ _ _ _ ND Fl) as (Get & Oth).
  unfold buf_get. destruct (aget vn b) as [entries|] eqn:Ge.
  2:{ rewrite (Oth vn (aget_none_notin _ _ Ge)). cbn. split; [reflexivity|discriminate]. }
  destruct (Get vn entries v (aget_In _ _ _ Ge) Fv Ev) as (h & Ah & Fh). cbn [aget] in Fh. rewrite Ah.
  assert (NoDup (map fst entries)) as NDe.
  { rewrite Forall_forall in FA. apply (FA _ (aget_In _ _ _ Ge)). }
  assert (NoDup (map fst (sort_periods entries))) as NDk.
  { eapply Permutation_NoDup; [apply Permutation_map; symmetry; apply sort_periods_perm|assumption]. }
  destruct (flush_periods_rnone v _ Hr He Hend _ _ _ NDk Fh) as (St & Other).
  destruct (key_or_not (sort_periods entries) p) as [(arr0 & I0)|Nk].
  - destruct (St p arr0 I0) as (Hg & Hl).
    assert (hget entries p = Some arr0) as G.
    { apply In_hget; [assumption|]. eapply Permutation_in; [apply sort_periods_perm|assumption]. }
    rewrite G, Hg. cbn [option_map]. split; [reflexivity|].
    intros arr E. inversion E; subst. assumption.
  - rewrite (Other p Nk). cbn [hget].
    destruct (hget entries p) as [arr|] eqn:G; [|split; [reflexivity|discriminate]].
    exfalso. apply Nk. apply in_map_iff. exists (p, arr). split; [reflexivity|].
    eapply Permutation_in; [symmetry; apply sort_periods_perm|]. apply hget_In. assumption.
Qed.

(** * The strided store, block by block *)

Lemma slot_in_block n c i start :
  (start < n)%nat -> (i < n)%nat ->
  (Nat.leb start (c * n + i) && Nat.eqb (Nat.modulo (c * n + i - start) n) 0) = Nat.eqb i start.
Proof.
  intros Hs Hi. destruct (Nat.le_gt_cases start i) as [Le|Gt].
  - replace (c * n + i - start)%nat with ((i - start) + c * n)%nat by lia.
    rewrite Nat.mod_add by lia. rewrite Nat.mod_small by lia.
    assert (Nat.leb start (c * n + i) = true) as -> by (apply Nat.leb_le; lia). cbn [andb].
    destruct (Nat.eqb i start) eqn:Q.
    + apply Nat.eqb_eq in Q. subst. rewrite Nat.sub_diag. reflexivity.
    + apply Nat.eqb_neq in Q. apply Nat.eqb_neq. lia.
  - assert (Nat.eqb i start = false) as -> by (apply Nat.eqb_neq; lia).
    destruct c.
    + assert (Nat.leb start (0 * n + i) = false) as -> by (apply Nat.leb_gt; lia). reflexivity.
    + replace (S c * n + i - start)%nat with ((n + i - start) + c * n)%nat by lia.
      rewrite Nat.mod_add by lia. rewrite Nat.mod_small by lia.
      rewrite andb_false_iff. right. apply Nat.eqb_neq. lia.
Qed.

(* the rest [b] of block number [c], from offset [i0] on, followed by the later blocks *)
Lemma strided_block n c start rest : forall b i0 vals,
  (start < n)%nat -> (i0 + List.length b = n)%nat ->
  set_strided (b ++ rest) (c * n + i0) start n vals
  = if Nat.leb i0 start
    then match vals with
         | [] => Err EValue
         | w :: vals' => let* r := set_strided rest (S c * n) start n vals' in
                         Ok (list_set (start - i0) w b ++ r)
         end
    else let* r := set_strided rest (S c * n) start n vals in Ok (b ++ r).
Proof.
  induction b as [|y b IH]; intros i0 vals Hs Hl; cbn [List.length] in Hl.
  - assert (Nat.leb i0 start = false) as -> by (apply Nat.leb_gt; lia).
    cbn [app]. replace (c * n + i0)%nat with (S c * n)%nat by lia.
    destruct (set_strided rest (S c * n) start n vals); reflexivity.
  - cbn [app set_strided]. rewrite slot_in_block by lia.
    destruct (Nat.eqb i0 start) eqn:Q.
    + apply Nat.eqb_eq in Q. subst i0. rewrite Nat.leb_refl, Nat.sub_diag.
      destruct vals as [|w vals']; [reflexivity|].
      replace (S (c * n + start)) with (c * n + S start)%nat by lia.
      rewrite (IH (S start) vals' Hs) by lia.
      assert (Nat.leb (S start) start = false) as -> by (apply Nat.leb_gt; lia).
      cbn [list_set]. destruct (set_strided rest (S c * n) start n vals'); reflexivity.
    + apply Nat.eqb_neq in Q.
      replace (S (c * n + i0)) with (c * n + S i0)%nat by lia.
      rewrite (IH (S i0) vals Hs) by lia.
      destruct (Nat.leb i0 start) eqn:L.
      * apply Nat.leb_le in L. assert (Nat.leb (S i0) start = true) as -> by (apply Nat.leb_le; lia).
        destruct vals as [|w vals']; [reflexivity|].
        replace (start - i0)%nat with (S (start - S i0)) by lia. cbn [list_set].
        destruct (set_strided rest (S c * n) start n vals'); reflexivity.
      * apply Nat.leb_gt in L. assert (Nat.leb (S i0) start = false) as -> by (apply Nat.leb_gt; lia).
        destruct (set_strided rest (S c * n) start n vals); reflexivity.
Qed.

(* [cells] blocks equal to [blk], one value per block *)
Lemma strided_blocks n start blk : forall vals c,
  (start < n)%nat -> List.length blk = n ->
  set_strided (repeat_list blk (List.length vals)) (c * n) start n vals
  = Ok (List.concat (map (fun w => list_set start w blk) vals)).
Proof.
  induction vals as [|w vals IH]; intros c Hs Hl; cbn [List.length repeat_list map List.concat].
  - reflexivity.
  - pose proof (strided_block n c start (repeat_list blk (List.length vals)) blk 0 (w :: vals) Hs) as B.
    rewrite Nat.add_0_r in B. rewrite B by lia. cbn [Nat.leb]. rewrite Nat.sub_0_r.
    rewrite (IH (S c) Hs Hl). reflexivity.
Qed.

Lemma nth_error_concat_blocks {A} (blocks : list (list A)) n : forall c i,
  (forall b, In b blocks -> List.length b = n) -> (i < n)%nat ->
  nth_error (List.concat blocks) (c * n + i)
  = match nth_error blocks c with Some b => nth_error b i | None => None end.
Proof.
  induction blocks as [|b blocks IH]; intros c i Hl Hi.
  - cbn. destruct c; destruct (0 * n + i)%nat; try reflexivity; destruct (S c * n + i)%nat; reflexivity.
  - cbn [List.concat]. pose proof (Hl b (or_introl eq_refl)) as Lb. destruct c.
    + cbn [Nat.mul Nat.add nth_error]. apply nth_error_app1. lia.
    + rewrite nth_error_app2 by (cbn [Nat.mul]; lia).
      replace (S c * n + i - List.length b)%nat with (c * n + i)%nat by (cbn [Nat.mul]; lia).
      cbn [nth_error]. apply IH; [|assumption]. intros b' I. apply Hl. right. assumption.
Qed.

(** * One parallel axis on a variable of the persons *)

Lemma repeat_repeat_list {A} (y : A) n cells :
  repeat y (cells * n) = repeat_list (repeat y n) cells.
Proof.
  induction cells as [|c IH]; cbn [Nat.mul repeat_list]; [reflexivity|].
  rewrite repeat_app, IH. reflexivity.
Qed.

Lemma mapM_length {A B} (f : A -> res B) l : forall ys, mapM f l = Ok ys -> List.length ys = List.length l.
Proof.
  induction l as [|a l IH]; intros ys H; cbn [mapM] in H; [inversion H; reflexivity|].
  destruct (f a); [|discriminate]. destruct (mapM f l) eqn:E; [|discriminate].
  inversion H; subst. cbn. rewrite (IH _ eq_refl). reflexivity.
Qed.

Lemma mapM_nth {A B} (f : A -> res B) l : forall ys c a,
  mapM f l = Ok ys -> nth_error l c = Some a -> exists w, f a = Ok w /\ nth_error ys c = Some w.
Proof.
  induction l as [|a0 l IH]; intros ys c a H Hn; [destruct c; discriminate|].
  cbn [mapM] in H. destruct (f a0) as [w0|] eqn:E0; [|discriminate].
  destruct (mapM f l) as [ys0|] eqn:E; [|discriminate]. inversion H; subst.
  destruct c; cbn [nth_error] in *.
  - inversion Hn; subst. eauto.
  - eapply IH; [reflexivity|eassumption].
Qed.

Lemma linspace_length mn mx num : 0 < num -> List.length (linspace mn mx num) = Z.to_nat num.
Proof.
  intros H. unfold linspace. destruct (num =? 1) eqn:E.
  - apply Z.eqb_eq in E. subst. reflexivity.
  - rewrite map_length. unfold zrange. rewrite map_length, seq_length. reflexivity.
Qed.

Lemma suffix_ids_length l : List.length (suffix_ids l) = List.length l.
Proof.
  unfold suffix_ids. rewrite map_length, combine_length, seq_length. lia.
Qed.

Lemma add_person_instances_arrays_ok x s l : forall st st',
  add_person_instances x s st l = Ok st' -> arrays_ok s (s_person s) st -> arrays_ok s (s_person s) st'.
Proof.
  induction l as [|[pid j] l IH]; intros st st' H A; cbn [add_person_instances] in H.
  - inversion H; subst. assumption.
  - destruct j; try discriminate. apply bind_ok in H. destruct H as (st1 & H1 & H2).
    eapply IH; [eassumption|]. eapply init_arrays_ok; eassumption.
Qed.

Section SingleAxis.
  Variables (x : ext) (s : sys) (doc : list (string * json)) (dims : json) (a : axis).
  Variables (sim base : simulation) (persons : list (string * json)).
  Variables (v : variable) (t : string) (p : period).
  Hypothesis NDp : NoDup (plurals s).
  Hypothesis NDs : NoDup (singulars s).
  Hypothesis Hax : aget "axes"%string doc = Some dims.
  Hypothesis Hnn : dims <> JNull.
  Hypothesis Hds : parse_dims dims = Ok [[a]].
  Hypothesis Hb : build_from_entities x s doc = Ok sim.
  Hypothesis Hbase : build_from_entities x s (aremove "axes" doc) = Ok base.
  Hypothesis Hpers : aget (e_plural (s_person s)) (aremove "axes" doc) = Some (JObj persons).
  Hypothesis Fv : find_var (a_name a) (s_vars s) = Some v.
  Hypothesis Ev : v_entity v = e_key (s_person s).
  Hypothesis Nr : no_rule v.
  Hypothesis Ht : a_period a = Some t.
  Hypothesis Hp : canon_key (tok x t) = Ok p.

  Let pp := e_plural (s_person s).
  Let params := aremove "axes" doc.
  Let cells := Z.to_nat (a_count a).
  Let n := List.length persons.
  Let vn := a_name a.

  (* the stages shared by the two builds *)
  Lemma single_axis_stages :
    exists st1 st2 st3,
      add_person_instances x s (set_ids b_empty pp (map fst persons)) persons = Ok st1 /\
      add_groups x s st1 (get_ids st1 pp) params false (s_groups s) = Ok st2 /\
      expand_axes x s st2 [[a]] = Ok st3 /\
      mapM (finalize_population s st3) (entities s) = Ok sim /\
      mapM (finalize_population s st2) (entities s) = Ok base.
  Proof.
    unfold build_from_entities in Hb. fold params pp in Hb. rewrite Hax in Hb.
    unfold params, pp in *. rewrite Hpers in Hb.
    destruct (existsb _ (aremove "axes" doc)) eqn:Ex; [discriminate|].
    destruct persons as [|i0 rest] eqn:Ep; [discriminate|]. rewrite <- Ep in *.
    apply bind_ok in Hb. destruct Hb as (st1 & H1 & Hb').
    apply bind_ok in Hb'. destruct Hb' as (st2 & H2 & Hb').
    assert (exists st3, expand_axes x s st2 [[a]] = Ok st3
                        /\ mapM (finalize_population s st3) (entities s) = Ok sim) as (st3 & H3 & Hm).
    { destruct dims; try (exfalso; apply Hnn; reflexivity);
        apply bind_ok in Hb'; destruct Hb' as (st3 & H3 & Hm);
        apply bind_ok in H3; destruct H3 as (ds' & Hd' & H3);
        rewrite Hds in Hd'; inversion Hd'; subst ds'; eauto. }
    assert (add_groups x s st1 (get_ids st1 (e_plural (s_person s))) (aremove "axes" doc) true (s_groups s)
            = Ok st2) as H2'.
    { destruct dims; try (exfalso; apply Hnn; reflexivity); exact H2. }
    unfold build_from_entities in Hbase. rewrite aremove_idem, aget_aremove_same in Hbase.
    rewrite Ex, Hpers, Ep in Hbase. rewrite <- Ep in Hbase. rewrite H1 in Hbase. cbn [bind] in Hbase.
    rewrite (add_groups_flag _ _ _ _ _ _ _ H2') in Hbase. cbn [bind] in Hbase.
    unfold add_person_entity in H1.
    exists st1, st2, st3. repeat split; try assumption.
    apply add_groups_flag. assumption.
  Qed.
End SingleAxis.

Lemma add_groups_buf_ok x s pids params ax gs : forall sa sb,
  add_groups x s sa pids params ax gs = Ok sb -> buf_ok (b_buffer sa) -> buf_ok (b_buffer sb).
Proof.
  induction gs as [|g gs IH]; intros sa sb H B; cbn [add_groups] in H.
  - inversion H; subst. assumption.
  - apply bind_ok in H. destruct H as (s1 & H1 & H2). eapply IH; [eassumption|].
    destruct (aget (e_plural g) params) as [j|].
    + destruct j; try (eapply (add_group_entity_ok x s); eassumption);
        destruct ax; try discriminate; inversion H1; subst; assumption.
    + destruct ax; try discriminate; inversion H1; subst; assumption.
Qed.

Lemma expand_entities_ids pp cells l : forall st, b_ids (expand_entities st pp cells l) = b_ids st.
Proof.
  induction l as [|[q ids] l IH]; intros st; cbn [expand_entities]; [reflexivity|].
  rewrite IH. destruct (String.eqb q pp); reflexivity.
Qed.

Lemma concat_blocks_length {A} (blocks : list (list A)) n :
  (forall b, In b blocks -> List.length b = n) ->
  List.length (List.concat blocks) = (List.length blocks * n)%nat.
Proof.
  induction blocks as [|b blocks IH]; intros H; cbn [List.concat List.length Nat.mul]; [reflexivity|].
  rewrite app_length, (H b (or_introl eq_refl)), IH; [reflexivity|].
  intros b' I. apply H. right. assumption.
Qed.

Lemma nth_error_list_set {A} (l : list A) i j w :
  (i < List.length l)%nat ->
  nth_error (list_set i w l) j = if Nat.eqb j i then Some w else nth_error l j.
Proof.
  intros H. destruct (Nat.eqb j i) eqn:Q.
  - apply Nat.eqb_eq in Q. subst. apply nth_error_list_set_same. assumption.
  - apply Nat.eqb_neq in Q. apply nth_error_list_set_other. congruence.
Qed.

(** One parallel axis on a variable of the persons (no set-input rule), its index within the
    persons: in the simulation built from the document with the axis, the array of the axis
    variable at the axis period holds, in copy [c], the [c]-th value of the axis (converted to
    the variable's type) at the axis index, and elsewhere what the simulation built without the
    axes holds (the default when it holds nothing for that period). *)
Theorem axes_single_person_axis x s doc dims a sim base persons v t p :
  NoDup (plurals s) -> NoDup (singulars s) ->
  aget "axes"%string doc = Some dims -> dims <> JNull -> parse_dims dims = Ok [[a]] ->
  build_from_entities x s doc = Ok sim ->
  build_from_entities x s (aremove "axes" doc) = Ok base ->
  aget (e_plural (s_person s)) (aremove "axes" doc) = Some (JObj persons) ->
  find_var (a_name a) (s_vars s) = Some v -> v_entity v = e_key (s_person s) -> no_rule v ->
  a_period a = Some t -> canon_key (tok x t) = Ok p ->
  (Z.to_nat (a_index a) < List.length persons)%nat ->
  let cells := Z.to_nat (a_count a) in
  let n := List.length persons in
  let vals := linspace (a_min a) (a_max a) (a_count a) in
  exists pop rest bpop brest h arr,
    sim = pop :: rest /\ base = bpop :: brest /\
    p_entity pop = e_key (s_person s) /\ p_entity bpop = e_key (s_person s) /\
    aget (a_name a) (p_holders pop) = Some h /\ hget h p = Some arr /\
    forall c i, (c < cells)%nat -> (i < n)%nat ->
      if Nat.eqb i (Z.to_nat (a_index a))
      then exists q w, nth_error vals c = Some q /\ cell_of_q v q = Ok w
                       /\ nth_error arr (c * n + i) = Some w
      else nth_error arr (c * n + i)
           = match (match aget (a_name a) (p_holders bpop) with Some bh => hget bh p | None => None end) with
             | Some barr => nth_error barr i
             | None => Some (v_default v)
             end.
Proof.
  intros NDp NDs Hax Hnn Hds Hb Hbase Hpers Fv Ev Nr Ht Hp Hidx cells n vals.
  destruct (single_axis_stages x s doc dims a sim base persons Hax Hnn Hds Hb Hbase Hpers)
    as (st1 & st2 & st3 & H1 & H2 & H3 & Hm & Hmb).
  set (pp := e_plural (s_person s)) in *. set (vn := a_name a) in *.
  set (start := Z.to_nat (a_index a)) in *.
  (* the state after reading *)
  set (st0 := set_ids b_empty pp (map fst persons)) in *.
  assert (get_ids st0 pp = map fst persons) as Ids0.
  { unfold get_ids, ids_of, st0. cbn. rewrite String.eqb_refl. reflexivity. }
  pose proof (add_person_instances_frame _ _ _ _ _ H1) as F1.
  assert (arrays_ok s (s_person s) st1) as A1.
  { eapply add_person_instances_arrays_ok; [exact H1|].
    intros vn' v' _ _ q arr G. unfold buf_get, st0 in G. cbn in G. discriminate. }
  assert (buf_ok (b_buffer st1)) as B1.
  { eapply add_person_instances_ok; [exact H1|]. split; constructor. }
  pose proof (add_groups_buf_ok _ _ _ _ _ _ _ _ H2 B1) as B2.
  assert (~ In pp (map e_plural (s_groups s))) as Npp.
  { unfold plurals, entities in NDp. cbn [map] in NDp. inversion NDp; assumption. }
  assert (forall g, In g (s_groups s) -> v_entity v <> e_key g) as Ng.
  { intros g Ig E. rewrite Ev in E. unfold singulars, entities in NDs. cbn [map] in NDs.
    inversion NDs as [|? ? Nin _]; subst. apply Nin. rewrite E. apply in_map. assumption. }
  pose proof (add_groups_other x s vn v Fv _ _ _ _ _ _ Ng H2) as O2.
  destruct (add_groups_other_ids _ _ _ _ _ _ pp _ _ H2 Npp) as (I2 & X2).
  destruct (add_groups_ax _ _ _ _ _ _ _ _ H2) as (_ & X2m & X2r).
  destruct F1 as (F1i & _ & _ & F1a & _ & _).
  assert (b_ax_ids st2 = []) as Z1 by (rewrite X2, F1a; reflexivity).
  assert (ids_of st2 pp = map fst persons) as Ids2.
  { unfold ids_of. rewrite I2, F1i. unfold st0. cbn. rewrite String.eqb_refl. reflexivity. }
  assert (get_ids st2 pp = map fst persons) as Gids2.
  { unfold get_ids. rewrite Z1. cbn [aget]. exact Ids2. }
  assert (len_is (b_buffer st2) vn n) as L2.
  { intros q arr G. unfold buf_get in G. rewrite O2 in G.
    pose proof (A1 vn v Fv Ev q arr G) as L. unfold get_count in L. fold pp in L.
    rewrite (get_ids_frame st0 st1) in L by (eapply add_person_instances_frame; eassumption).
    rewrite Ids0, map_length in L. exact L. }
  assert (0 < n)%nat as Npos by (unfold n; lia).
  (* the expansion *)
  unfold expand_axes in H3.
  assert (cell_count [[a]] = a_count a) as Cc by (unfold cell_count; cbn; apply Z.mul_1_l).
  rewrite Cc in H3. destruct (a_count a <=? 0) eqn:Cz; [discriminate|]. apply Z.leb_gt in Cz.
  fold cells pp in H3.
  set (stx := expand_entities st2 pp cells (b_ids st2)) in *.
  assert (b_buffer stx = b_buffer st2) as Bx by apply expand_entities_buffer.
  assert (b_ids stx = b_ids st2) as Ix by apply expand_entities_ids.
  apply bind_ok in H3. destruct H3 as (step & Hstep & H3).
  assert (step = n) as ->.
  { unfold axis_entity_step in Hstep. fold vn in Hstep. rewrite Fv in Hstep.
    unfold entities in Hstep. cbn [find_entity_by] in Hstep. rewrite Ev, String.eqb_refl in Hstep.
    inversion Hstep. unfold ids_of. rewrite Ix. fold (ids_of st2 (e_plural (s_person s))).
    fold pp. rewrite Ids2. apply map_length. }
  cbn [apply_axes dim_count] in H3. apply bind_ok in H3. destruct H3 as (sty & Hy & E3).
  inversion E3; subst sty. clear E3.
  pose proof (apply_axis_entities _ _ _ _ _ _ _ _ Hy) as Sent.
  unfold apply_axis in Hy. rewrite Ht in Hy. cbn [bind] in Hy. rewrite Hp in Hy. cbn [bind] in Hy.
  fold vn in Hy. rewrite Fv in Hy.
  apply bind_ok in Hy. destruct Hy as (cs & Hcs & Hy).
  destruct (Nat.eqb n 0) eqn:N0; [apply Nat.eqb_eq in N0; lia|].
  apply bind_ok in Hy. destruct Hy as (array' & Hset & Hy). inversion Hy as [E3]. clear Hy.
  fold vals in Hcs.
  assert (List.length cs = cells) as Lcs.
  { rewrite (mapM_length _ _ _ Hcs). unfold vals. apply linspace_length. assumption. }
  rewrite buf_get_touch, Bx in Hset. fold start in Hset.
  set (blk := match buf_get (b_buffer st2) vn p with Some arr => arr | None => default_array v n end).
  assert (List.length blk = n) as Lblk.
  { unfold blk. destruct (buf_get (b_buffer st2) vn p) eqn:G; [eapply L2; eassumption|].
    unfold default_array. apply repeat_length. }
  assert (set_strided (repeat_list blk (List.length cs)) (0 * n) start n cs = Ok array') as Hset'.
  { rewrite Lcs. cbn [Nat.mul]. unfold blk.
    destruct (buf_get (b_buffer st2) vn p) as [arr|] eqn:G.
    - rewrite (L2 _ _ G), Nat.eqb_refl in Hset. exact Hset.
    - unfold default_array in *. rewrite repeat_repeat_list in Hset. exact Hset. }
  rewrite (strided_blocks n start blk cs 0 Hidx Lblk) in Hset'. inversion Hset' as [Earr]. clear Hset'.
  (* the populations *)
  unfold entities in Hm, Hmb. cbn [mapM] in Hm, Hmb.
  destruct (finalize_population s st3 (s_person s)) as [pop|] eqn:Fp; [|discriminate].
  destruct (mapM (finalize_population s st3) (s_groups s)) as [rest|]; [|discriminate].
  destruct (finalize_population s st2 (s_person s)) as [bpop|] eqn:Fb; [|discriminate].
  destruct (mapM (finalize_population s st2) (s_groups s)) as [brest|]; [|discriminate].
  inversion Hm; inversion Hmb; subst sim base. clear Hm Hmb.
  unfold finalize_population in Fp, Fb. fold pp in Fp, Fb.
  apply bind_ok in Fp. destruct Fp as (hs & Flp & Ep). inversion Ep; subst pop. clear Ep.
  apply bind_ok in Fb. destruct Fb as (bhs & Flb & Eb). inversion Eb; subst bpop. clear Eb.
  (* the buffer after the axis *)
  assert (buf_ok (b_buffer st3)) as B3.
  { rewrite <- E3. cbn [set_buffer b_buffer]. apply buf_put_ok, buf_touch_ok. rewrite Bx. exact B2. }
  assert (buf_get (b_buffer st3) vn p = Some array') as G3.
  { rewrite <- E3. cbn [set_buffer b_buffer]. apply buf_get_put_same. }
  destruct (flushed_value s (s_person s) _ _ hs vn v B3 Flp Fv Ev Nr p) as (Vp & Lp).
  destruct (flushed_value s (s_person s) _ _ bhs vn v B2 Flb Fv Ev Nr p) as (Vb & Lb).
  rewrite G3 in Vp. cbn [option_map] in Vp.
  destruct (aget vn hs) as [h|] eqn:Ah; [|discriminate].
  exists (mkPop (e_key (s_person s)) (get_ids st3 pp) (get_memberships st3 pp) (get_roles st3 pp) hs), rest,
         (mkPop (e_key (s_person s)) (get_ids st2 pp) (get_memberships st2 pp) (get_roles st2 pp) bhs), brest,
         h, (repeat_list array' (get_count st3 pp / List.length array')).
  cbn [p_entity p_holders]. fold vn. rewrite Ah.
  split; [reflexivity|]. split; [reflexivity|]. split; [reflexivity|]. split; [reflexivity|].
  split; [reflexivity|]. split; [exact Vp|].
  (* lengths *)
  assert (List.length array' = (cells * n)%nat) as La.
  { rewrite <- Earr. rewrite (concat_blocks_length _ n).
    - rewrite map_length, Lcs. reflexivity.
    - intros b Ib. apply in_map_iff in Ib. destruct Ib as (w & <- & _). rewrite list_set_length. exact Lblk. }
  specialize (Lp array' G3). rewrite repeat_list_length, La in Lp.
  assert (0 < cells)%nat as Cpos by (unfold cells; lia).
  assert (1 <= get_count st3 pp / List.length array')%nat as K1.
  { rewrite La. destruct (get_count st3 pp / (cells * n))%nat eqn:Q; [|lia].
    cbn [Nat.mul] in Lp.
    (* count = 0 would leave no person *)
    exfalso.
    pose proof (axes_entities_doc x s doc dims [[a]] _ _ NDp NDs Hax Hnn Hds Hb Hbase (s_person s)
                  (mkPop (e_key (s_person s)) (get_ids st3 pp) (get_memberships st3 pp) (get_roles st3 pp) hs)
                  (mkPop (e_key (s_person s)) (get_ids st2 pp) (get_memberships st2 pp) (get_roles st2 pp) bhs)
                  (or_introl eq_refl)) as AE.
    destruct AE as (AE & _).
    { split; [left; reflexivity|reflexivity]. }
    { split; [left; reflexivity|reflexivity]. }
    cbn [p_ids] in AE. rewrite Cc in AE. fold cells in AE. rewrite Gids2 in AE.
    unfold get_count in Lp. rewrite AE, suffix_ids_length, repeat_list_length, map_length in Lp.
    fold n in Lp. lia. }
  intros c i Hc Hi.
  assert (c * n + i < List.length array')%nat as Lt by (rewrite La; nia).
  rewrite repeat_list_one by assumption.
  rewrite <- Earr.
  rewrite (nth_error_concat_blocks _ n c i); [|intros b Ib; apply in_map_iff in Ib;
                                                destruct Ib as (w & <- & _); rewrite list_set_length; exact Lblk
                                               |exact Hi].
  rewrite nth_error_map.
  assert (exists w, nth_error cs c = Some w) as (w & Hw).
  { destruct (nth_error cs c) eqn:Q; [eauto|]. apply nth_error_None in Q. lia. }
  rewrite Hw. cbn [option_map]. rewrite nth_error_list_set by (rewrite Lblk; exact Hidx).
  destruct (Nat.eqb i start) eqn:Qi.
  - assert (exists q, nth_error vals c = Some q) as (q & Hq).
    { destruct (nth_error vals c) eqn:Q; [eauto|]. apply nth_error_None in Q.
      unfold vals in Q. rewrite linspace_length in Q by assumption. fold cells in Q. lia. }
    destruct (mapM_nth _ _ _ _ _ Hcs Hq) as (w' & Cq & Hw'). rewrite Hw in Hw'. inversion Hw'; subst w'.
    exists q, w. repeat split; assumption.
  - (* elsewhere: the copy *)
    fold vn. destruct (aget vn bhs) as [bh|] eqn:Abh.
    + rewrite Vb. unfold blk. destruct (buf_get (b_buffer st2) vn p) as [arr|] eqn:G; cbn [option_map].
      * specialize (Lb arr eq_refl). rewrite repeat_list_length, (L2 _ _ G) in Lb.
        unfold get_count in *. rewrite Gids2, map_length in *. fold n in Lb |- *.
        rewrite repeat_list_one; [reflexivity| |rewrite (L2 _ _ G); exact Hi].
        rewrite (L2 _ _ G). destruct (n / n)%nat; lia.
      * unfold default_array. apply nth_error_repeat. exact Hi.
    + unfold blk. destruct (buf_get (b_buffer st2) vn p) as [arr|] eqn:G; cbn [option_map] in Vb.
      * discriminate Vb.
      * unfold default_array. apply nth_error_repeat. exact Hi.
Qed.
