(** Proofs about the situation-builder model, continued: a document with axes builds the
    concatenation of [cell_count] copies of the simulation built from the same document with
    the axes put aside (entities at document level; values of the variables that no axis names). *)
From Coq Require Import ZArith QArith List Bool String Lia Permutation.
From Verif Require Import Base Cal Tables Period Builder BuilderSpec BuilderProofs BuilderGroupProofs
  BuilderValueProofs BuilderRejectProofs BuilderOwnProofs.
Import ListNotations.
Open Scope Z_scope.
Open Scope res_scope.

(** * With axes every group kind is declared: the flag changes nothing *)

Lemma add_groups_flag x s pids params gs : forall st st',
  add_groups x s st pids params true gs = Ok st' -> add_groups x s st pids params false gs = Ok st'.
Proof.
  induction gs as [|g gs IH]; intros st st' H; cbn [add_groups] in *; [assumption|].
  apply bind_ok in H. destruct H as (st1 & H1 & H2).
  destruct (aget (e_plural g) params) as [j|]; [destruct j|]; try discriminate;
    rewrite H1; cbn [bind]; apply IH; assumption.
Qed.

Lemma aget_aremove_same {A} a (l : list (string * A)) : aget a (aremove a l) = None.
Proof.
  induction l as [|[k v] l IH]; cbn [aremove aget]; [reflexivity|].
  destruct (String.eqb k a) eqn:E; [assumption|]. cbn [aget]. rewrite E. assumption.
Qed.

Lemma aremove_idem {A} a (l : list (string * A)) : aremove a (aremove a l) = aremove a l.
Proof.
  induction l as [|[k v] l IH]; cbn [aremove]; [reflexivity|].
  destruct (String.eqb k a) eqn:E; [assumption|]. cbn [aremove]. rewrite E, IH. reflexivity.
Qed.

(** * The entities after [expand_entities] *)

Lemma aset_keys_nodup {A} k (v : A) l : NoDup (map fst l) -> NoDup (map fst (aset k v l)).
Proof.
  induction l as [|[k' w] l IH]; cbn [aset map fst]; intros N.
  - constructor; [intros []|constructor].
  - inversion N; subst. destruct (String.eqb k' k) eqn:E; cbn [map fst].
    + constructor; assumption.
    + constructor; [|apply IH; assumption]. intros I.
      assert (forall q, In q (map fst (aset k v l)) -> q = k \/ In q (map fst l)) as Sub.
      { clear. induction l as [|[k0 w0] l IHl]; cbn [aset map fst In]; intros q.
        - intros [E|[]]; left; congruence.
        - destruct (String.eqb k0 k); cbn [map fst In]; intros [E|I]; auto.
          apply IHl in I. tauto. }
      apply Sub in I. destruct I as [->|I]; [rewrite String.eqb_refl in E; discriminate|contradiction].
Qed.

(* the expanded ids / roles / memberships of one entity *)
Definition expanded (st : bstate) (pp : string) (cells : nat) (st' : bstate) (p : string) : Prop :=
  aget p (b_ax_ids st') = Some (suffix_ids (repeat_list (ids_of st p) cells)) /\
  aget p (b_ax_roles st') = Some (repeat_list (match aget p (b_roles st) with Some l => l | None => [] end) cells) /\
  (p <> pp ->
   aget p (b_ax_members st')
   = Some (tile_members (match aget p (b_members st) with Some l => l | None => [] end)
                        (Z.of_nat (List.length (ids_of st p))) 0 cells)) /\
  (p = pp -> aget p (b_ax_members st') = aget p (b_ax_members st)).

Lemma expand_entities_spec pp cells l : forall st,
  NoDup (map fst l) ->
  (forall p ids, In (p, ids) l -> aget p (b_ids st) = Some ids) ->
  (forall p, In p (map fst l) -> aget p (b_ax_ids st) = None /\ aget p (b_ax_roles st) = None
                                 /\ aget p (b_ax_members st) = None) ->
  let st' := expand_entities st pp cells l in
  b_ids st' = b_ids st /\ b_members st' = b_members st /\ b_roles st' = b_roles st /\
  b_buffer st' = b_buffer st /\
  (forall p, In p (map fst l) -> expanded st pp cells st' p) /\
  (forall p, ~ In p (map fst l) ->
     aget p (b_ax_ids st') = aget p (b_ax_ids st) /\ aget p (b_ax_roles st') = aget p (b_ax_roles st)
     /\ aget p (b_ax_members st') = aget p (b_ax_members st)).
Proof.
  induction l as [|[p ids] l IH]; intros st ND Hids Hnone; cbn [expand_entities].
  - cbv zeta. split; [reflexivity|]. split; [reflexivity|]. split; [reflexivity|]. split; [reflexivity|].
    split; [intros q []|]. intros q _. split; [reflexivity|]. split; reflexivity.
  - cbn [map fst] in ND. inversion ND as [|? ? Nin ND']; subst.
    destruct (Hnone p (or_introl eq_refl)) as (N1 & N2 & N3).
    assert (get_ids st p = ids) as Gi.
    { unfold get_ids, ids_of. rewrite N1, (Hids p ids (or_introl eq_refl)). reflexivity. }
    assert (get_roles st p = match aget p (b_roles st) with Some l0 => l0 | None => [] end) as Gr.
    { unfold get_roles. rewrite N2. reflexivity. }
    assert (get_memberships st p = match aget p (b_members st) with Some l0 => l0 | None => [] end) as Gm.
    { unfold get_memberships. rewrite N3. reflexivity. }
    set (st2 := if String.eqb p pp then _ else _).
    assert (b_ids st2 = b_ids st /\ b_members st2 = b_members st /\ b_roles st2 = b_roles st /\
            b_buffer st2 = b_buffer st) as (E1 & E2 & E3 & E4).
    { unfold st2. destruct (String.eqb p pp); repeat split. }
    assert (b_ax_ids st2 = aset p (suffix_ids (repeat_list ids cells)) (b_ax_ids st) /\
            b_ax_roles st2 = aset p (repeat_list (match aget p (b_roles st) with Some l0 => l0 | None => [] end) cells)
                               (b_ax_roles st)) as (A1 & A2).
    { unfold st2. rewrite Gi, Gr. destruct (String.eqb p pp); split; reflexivity. }
    assert ((p <> pp -> b_ax_members st2
                        = aset p (tile_members (match aget p (b_members st) with Some l0 => l0 | None => [] end)
                                               (Z.of_nat (List.length ids)) 0 cells) (b_ax_members st)) /\
            (p = pp -> b_ax_members st2 = b_ax_members st)) as (A3 & A4).
    { unfold st2. rewrite Gm. destruct (String.eqb p pp) eqn:Q; split; intros H; try reflexivity.
      - apply String.eqb_eq in Q. contradiction.
      - subst. rewrite String.eqb_refl in Q. discriminate. }
    specialize (IH st2 ND').
    assert (forall q ids0, In (q, ids0) l -> aget q (b_ids st2) = Some ids0) as Hids'.
    { intros q ids0 I. rewrite E1. apply Hids. right. assumption. }
    assert (forall q, In q (map fst l) -> aget q (b_ax_ids st2) = None /\ aget q (b_ax_roles st2) = None
                                          /\ aget q (b_ax_members st2) = None) as Hnone'.
    { intros q I. assert (q <> p) as Nq by (intros ->; contradiction).
      destruct (Hnone q (or_intror I)) as (M1 & M2 & M3).
      rewrite A1, A2, !aget_aset_other by assumption. split; [assumption|]. split; [assumption|].
      destruct (string_dec p pp) as [Ep|Np]; [rewrite (A4 Ep)|rewrite (A3 Np), aget_aset_other by assumption];
        assumption. }
    destruct (IH Hids' Hnone') as (I1 & I2 & I3 & I4 & I5 & I6). cbv zeta.
    split; [congruence|]. split; [congruence|]. split; [congruence|]. split; [congruence|]. split.
    + cbn [map fst In]. intros q [<-|I].
      * destruct (I6 p Nin) as (B1 & B2 & B3). unfold expanded.
        rewrite B1, B2, B3, A1, A2, !aget_aset_same. unfold ids_of. rewrite (Hids p ids (or_introl eq_refl)).
        split; [reflexivity|]. split; [reflexivity|]. split.
        -- intros Np. rewrite (A3 Np), aget_aset_same. reflexivity.
        -- intros Ep. rewrite (A4 Ep). reflexivity.
      * assert (q <> p) as Nq by (intros ->; contradiction).
        destruct (I5 q I) as (C1 & C2 & C3 & C4). unfold expanded, ids_of in *.
        rewrite E1, E2, E3 in *. split; [assumption|]. split; [assumption|]. split; [assumption|].
        intros Eq. rewrite (C4 Eq).
        destruct (string_dec p pp) as [Ep|Np]; [rewrite (A4 Ep); reflexivity|].
        rewrite (A3 Np), aget_aset_other by assumption. reflexivity.
    + cbn [map fst In]. intros q Nq. assert (q <> p) as Nqp by (intros ->; apply Nq; left; reflexivity).
      destruct (I6 q (fun I => Nq (or_intror I))) as (B1 & B2 & B3).
      rewrite B1, B2, B3, A1, A2, !aget_aset_other by assumption.
      split; [reflexivity|]. split; [reflexivity|].
      destruct (string_dec p pp) as [Ep|Np]; [rewrite (A4 Ep); reflexivity|].
      rewrite (A3 Np), aget_aset_other by assumption. reflexivity.
Qed.

(** * Applying the axes only writes the buffer *)

Definition same_entities (st st' : bstate) : Prop :=
  b_ids st' = b_ids st /\ b_members st' = b_members st /\ b_roles st' = b_roles st /\
  b_ax_ids st' = b_ax_ids st /\ b_ax_members st' = b_ax_members st /\ b_ax_roles st' = b_ax_roles st.

Lemma apply_axis_entities x s st step cells vals a st' :
  apply_axis x s st step cells vals a = Ok st' -> same_entities st st'.
Proof.
  unfold apply_axis. intros H. apply bind_ok in H. destruct H as (t & _ & H).
  apply bind_ok in H. destruct H as (p & _ & H).
  destruct (find_var (a_name a) (s_vars s)); [|discriminate].
  apply bind_ok in H. destruct H as (cs & _ & H).
  destruct (Nat.eqb step 0); [discriminate|].
  apply bind_ok in H. destruct H as (arr & _ & H). inversion H; subst. repeat split.
Qed.

Lemma same_entities_trans a b c : same_entities a b -> same_entities b c -> same_entities a c.
Proof. unfold same_entities. intuition congruence. Qed.

Lemma apply_axes_entities x s step cells valsf l : forall st st',
  apply_axes x s st step cells valsf l = Ok st' -> same_entities st st'.
Proof.
  induction l as [|a l IH]; intros st st' H; cbn [apply_axes] in H.
  - inversion H; subst. repeat split.
  - apply bind_ok in H. destruct H as (st1 & H1 & H2).
    eapply same_entities_trans; [eapply apply_axis_entities; eassumption|eapply IH; eassumption].
Qed.

Lemma apply_dims_entities x s counts cells dims : forall st d st',
  apply_dims x s st counts cells d dims = Ok st' -> same_entities st st'.
Proof.
  induction dims as [|dim dims IH]; intros st d st' H; cbn [apply_dims] in H.
  - inversion H; subst. repeat split.
  - apply bind_ok in H. destruct H as (step & _ & H).
    destruct (dim_count dim <=? 1); [discriminate|].
    apply bind_ok in H. destruct H as (st1 & H1 & H2).
    eapply same_entities_trans; [eapply apply_axes_entities; eassumption|eapply IH; eassumption].
Qed.

Lemma expand_axes_entities x s st dims st' :
  expand_axes x s st dims = Ok st' ->
  0 < cell_count dims /\
  same_entities (expand_entities st (e_plural (s_person s)) (Z.to_nat (cell_count dims)) (b_ids st)) st'.
Proof.
  unfold expand_axes. destruct (cell_count dims <=? 0) eqn:C; [discriminate|].
  apply Z.leb_gt in C. intros H. split; [assumption|].
  destruct dims as [|dim [|dim' dims]].
  - eapply apply_dims_entities; eassumption.
  - apply bind_ok in H. destruct H as (step & _ & H). eapply apply_axes_entities; eassumption.
  - eapply apply_dims_entities; eassumption.
Qed.

(** * The dictionary of ids: one entry per entity *)

Lemma add_group_entity_ids_keys x s st pids e j st' :
  add_group_entity x s st pids e j = Ok st' ->
  NoDup (map fst (b_ids st)) -> NoDup (map fst (b_ids st')) /\ aget (e_plural e) (b_ids st') <> None.
Proof.
  unfold add_group_entity. destruct j; try discriminate. intros H N.
  apply bind_ok in H. destruct H as ([[st1 todo] mr] & H1 & H2).
  apply add_group_instances_frame in H1. destruct H1 as (F1 & _).
  cbn [set_ids b_ids] in F1.
  destruct todo; inversion H2; subst st'; cbn [set_roles set_members set_buffer set_ids b_ids];
    rewrite ?F1; (split; [repeat apply aset_keys_nodup; assumption|rewrite aget_aset_same; discriminate]).
Qed.

Lemma add_groups_ids_keys x s pids params gs : forall st st',
  add_groups x s st pids params true gs = Ok st' ->
  NoDup (map fst (b_ids st)) ->
  NoDup (map fst (b_ids st')) /\
  (forall q, aget q (b_ids st) <> None -> aget q (b_ids st') <> None) /\
  (forall g, In g gs -> aget (e_plural g) (b_ids st') <> None).
Proof.
  induction gs as [|g gs IH]; intros st st' H N; cbn [add_groups] in H.
  - inversion H; subst. split; [assumption|]. split; [auto|intros ? []].
  - apply bind_ok in H. destruct H as (st1 & H1 & H2).
    assert (exists j, add_group_entity x s st pids g j = Ok st1) as (j & He).
    { destruct (aget (e_plural g) params) as [j|]; [destruct j|]; try discriminate; eauto. }
    destruct (add_group_entity_ids_keys _ _ _ _ _ _ _ He N) as (N1 & S1).
    destruct (IH _ _ H2 N1) as (N2 & K2 & G2).
    split; [assumption|]. split.
    + intros q Hq. apply K2. destruct (string_dec q (e_plural g)) as [->|Nq]; [assumption|].
      destruct (add_group_entity_frame _ _ _ _ _ _ _ He) as (Fo & _).
      destruct (Fo q Nq) as (A & _). rewrite A. assumption.
    + intros g' [<-|I]; [apply K2; assumption|apply G2; assumption].
Qed.

Lemma tile_members_nil cnt cells : forall k, tile_members [] cnt k cells = [].
Proof. induction cells as [|c IH]; intros k; cbn [tile_members map app]; [reflexivity|apply IH]. Qed.

Lemma mapM_In_rev {A B} (f : A -> res B) l : forall ys y,
  mapM f l = Ok ys -> In y ys -> exists a, In a l /\ f a = Ok y.
Proof.
  induction l as [|a0 l IH]; intros ys y H I; cbn [mapM] in H.
  - inversion H; subst. destruct I.
  - destruct (f a0) as [y0|] eqn:E; [|discriminate].
    destruct (mapM f l) as [ys0|] eqn:E'; [|discriminate]. inversion H; subst.
    destruct I as [<-|I]; [exists a0; split; [left; reflexivity|assumption]|].
    destruct (IH ys0 y eq_refl I) as (a & Ia & Fa). exists a. split; [right; assumption|assumption].
Qed.

Lemma key_inj (l : list entity) e e' :
  NoDup (map e_key l) -> In e l -> In e' l -> e_key e' = e_key e -> e' = e.
Proof.
  induction l as [|a l IH]; intros N I I' E; [destruct I|]. cbn [map] in N. inversion N; subst.
  destruct I as [->|I], I' as [->|I']; try reflexivity.
  - exfalso. apply H1. rewrite <- E. apply in_map. assumption.
  - exfalso. apply H1. rewrite E. apply in_map. assumption.
  - apply IH; assumption.
Qed.

Lemma add_groups_members_other x s pids params ax gs q : forall st st',
  add_groups x s st pids params ax gs = Ok st' -> ~ In q (map e_plural gs) ->
  aget q (b_members st') = aget q (b_members st).
Proof.
  induction gs as [|g gs IH]; intros st st' H N; cbn [add_groups] in H.
  - inversion H; subst. reflexivity.
  - apply bind_ok in H. destruct H as (st1 & H1 & H2). cbn [map In] in N.
    rewrite (IH _ _ H2) by (intros I; apply N; right; assumption).
    assert (frame_but (e_plural g) st st1) as F.
    { destruct (aget (e_plural g) params) as [j|].
      - destruct j; try (eapply add_group_entity_frame; eassumption);
          destruct ax; try discriminate; inversion H1; subst; apply add_default_group_entity_frame.
      - destruct ax; try discriminate; inversion H1; subst; apply add_default_group_entity_frame. }
    destruct F as (Fo & _). assert (q <> e_plural g) as Ne by (intros ->; apply N; left; reflexivity).
    destruct (Fo q Ne) as (_ & B & _). assumption.
Qed.

(** * Document level: the entities of a document with axes *)

Theorem axes_entities_doc x s doc dims ds sim base :
  NoDup (plurals s) -> NoDup (singulars s) ->
  aget "axes"%string doc = Some dims -> dims <> JNull -> parse_dims dims = Ok ds ->
  build_from_entities x s doc = Ok sim ->
  build_from_entities x s (aremove "axes" doc) = Ok base ->
  let cells := Z.to_nat (cell_count ds) in
  forall e pop bpop, In e (entities s) -> pop_of sim e pop -> pop_of base e bpop ->
    p_ids pop = suffix_ids (repeat_list (p_ids bpop) cells) /\
    p_mroles pop = repeat_list (p_mroles bpop) cells /\
    p_members pop = tile_members (p_members bpop) (Z.of_nat (List.length (p_ids bpop))) 0 cells.
Proof.
  intros NDp NDs Hax Hnn Hds Hb Hbase cells e pop bpop Ie (Ipop & Kpop) (Ibpop & Kbpop).
  set (pp := e_plural (s_person s)). set (params := aremove "axes" doc).
  (* the run with axes *)
  unfold build_from_entities in Hb. fold params pp in Hb. rewrite Hax in Hb.
  destruct (existsb _ params) eqn:Ex; [discriminate|].
  destruct (aget pp params) as [j|] eqn:Ap; [|discriminate].
  destruct j; try discriminate. destruct l as [|i0 rest]; [discriminate|].
  apply bind_ok in Hb. destruct Hb as (st1 & H1 & Hb).
  apply bind_ok in Hb. destruct Hb as (st2 & H2 & Hb).
  assert (exists st3, expand_axes x s st2 ds = Ok st3
                      /\ mapM (finalize_population s st3) (entities s) = Ok sim) as (st3 & H3 & Hm).
  { destruct dims; try (exfalso; apply Hnn; reflexivity);
      apply bind_ok in Hb; destruct Hb as (st3 & H3 & Hm);
      apply bind_ok in H3; destruct H3 as (ds' & Hd' & H3);
      rewrite Hds in Hd'; inversion Hd'; subst ds'; eauto. }
  assert (add_groups x s st1 (get_ids st1 pp) params true (s_groups s) = Ok st2) as H2'.
  { destruct dims; try (exfalso; apply Hnn; reflexivity); exact H2. }
  (* the run without *)
  unfold build_from_entities in Hbase. rewrite aremove_idem, aget_aremove_same in Hbase.
  fold params pp in Hbase. rewrite Ex, Ap in Hbase.
  fold pp in H1. rewrite H1 in Hbase. cbn [bind] in Hbase.
  rewrite (add_groups_flag _ _ _ _ _ _ _ H2') in Hbase. cbn [bind] in Hbase.
  (* the state before the expansion *)
  pose proof H1 as H1f. unfold add_person_entity in H1f. apply add_person_instances_frame in H1f.
  destruct H1f as (F1 & F2 & F3 & F4 & F5 & F6).
  cbn [set_ids b_empty b_ids b_members b_roles b_ax_ids b_ax_members b_ax_roles] in F1, F2, F3, F4, F5, F6.
  assert (NoDup (map fst (b_ids st1))) as N1.
  { rewrite F1. cbn. constructor; [intros []|constructor]. }
  destruct (add_groups_ids_keys _ _ _ _ _ _ _ H2' N1) as (N2 & K2 & G2).
  destruct (add_groups_ax _ _ _ _ _ _ _ _ H2') as (Y1 & Y2 & Y3).
  assert (b_ax_ids st2 = [] /\ b_ax_members st2 = [] /\ b_ax_roles st2 = []) as (Z1 & Z2 & Z3)
    by (repeat split; congruence).
  assert (aget (e_plural e) (b_ids st2) <> None) as Hkey.
  { destruct Ie as [<-|Ig]; [|apply G2; assumption]. apply K2. fold pp. rewrite F1. cbn.
    rewrite String.eqb_refl. discriminate. }
  destruct (aget (e_plural e) (b_ids st2)) as [ids|] eqn:Aids; [|contradiction].
  destruct (expand_axes_entities _ _ _ _ _ H3) as (Cpos & Se).
  fold pp cells in Se.
  destruct (expand_entities_spec pp cells (b_ids st2) st2 N2) as (Q1 & Q2 & Q3 & _ & Ex5 & _).
  { intros p ids0 I. clear -I N2. induction (b_ids st2) as [|[k w] l IH]; [destruct I|].
    cbn [map fst] in N2. inversion N2; subst. cbn [aget]. destruct I as [E|I].
    - inversion E; subst. rewrite String.eqb_refl. reflexivity.
    - destruct (String.eqb k p) eqn:Q; [|apply IH; assumption].
      apply String.eqb_eq in Q. subst. exfalso. apply H1. apply in_map_iff.
      exists (p, ids0). split; [reflexivity|assumption]. }
  { intros p _. rewrite Z1, Z2, Z3. repeat split. }
  assert (In (e_plural e) (map fst (b_ids st2))) as Ikey.
  { apply in_map_iff. exists (e_plural e, ids). split; [reflexivity|apply aget_In; assumption]. }
  destruct (Ex5 _ Ikey) as (X1 & X2 & X3 & X4).
  destruct Se as (S1 & S2 & S3 & S4 & S5 & S6).
  (* the two populations *)
  destruct (mapM_In_rev _ _ _ _ Hm Ipop) as (e1 & Ie1 & Fe1).
  destruct (mapM_In_rev _ _ _ _ Hbase Ibpop) as (e2 & Ie2 & Fe2).
  unfold finalize_population in Fe1, Fe2.
  apply bind_ok in Fe1. destruct Fe1 as (hs1 & _ & Fe1). inversion Fe1; subst pop. clear Fe1.
  apply bind_ok in Fe2. destruct Fe2 as (hs2 & _ & Fe2). inversion Fe2; subst bpop. clear Fe2.
  cbn [p_entity] in Kpop, Kbpop.
  assert (e1 = e) by (eapply key_inj; eassumption). subst e1.
  assert (e2 = e) by (eapply key_inj; eassumption). subst e2.
  cbn [p_ids p_mroles p_members].
  unfold get_ids, get_roles, get_memberships, ids_of in *.
  rewrite S4, S5, S6, X1, X2, Z1, Z2, Z3. cbn [aget]. rewrite Aids.
  split; [reflexivity|]. split; [reflexivity|].
  destruct (string_dec (e_plural e) pp) as [Ep|Np].
  - rewrite (X4 Ep), Z2. cbn [aget].
    assert (aget (e_plural e) (b_members st2) = None) as Nm.
    { rewrite Ep. unfold pp.
      assert (~ In (e_plural (s_person s)) (map e_plural (s_groups s))) as Npp.
      { unfold plurals, entities in NDp. cbn [map] in NDp. inversion NDp; assumption. }
      rewrite (add_groups_members_other _ _ _ _ _ _ _ _ _ H2' Npp), F2. reflexivity. }
    rewrite S2, Q2, Nm. rewrite tile_members_nil. reflexivity.
  - rewrite (X3 Np), Aids. reflexivity.
Qed.
