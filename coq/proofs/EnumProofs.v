(** Proofs about the enumeration codec model [EnumModel]. *)
From Coq Require Import String Ascii ZArith List Bool Lia Permutation.
From Verif Require Import Base EnumModel.
Import ListNotations.
Open Scope Z_scope.

Lemma encode_encoded e a : encode e (Encoded a) = Ok a.
Proof. reflexivity. Qed.
