(** Proofs about the enumeration codec model [EnumModel]: round trips, idempotence,
    validity of every accepted encoding, rejection of every invalid input.
    String order: [EnumOrder]; argsort / searchsorted: [EnumSearch]. *)
From Coq Require Import String Ascii ZArith List Bool Lia Permutation.
From Verif Require Import Base EnumModel EnumOrder EnumSearch.
Import ListNotations.
Open Scope Z_scope.

Lemma encode_encoded e a : encode e (Encoded a) = Ok a.
Proof. reflexivity. Qed.

(** ** Generic list lemmas *)

Lemma all_of_length {A} (f : elem -> option A) l : forall r,
  all_of f l = Some r -> length r = length l.
Proof.
  induction l as [|x l IH]; intros r H; cbn in H.
  - inversion H. reflexivity.
  - destruct (f x); [|discriminate]. destruct (all_of f l); [|discriminate].
    inversion H. cbn. f_equal. apply IH. reflexivity.
Qed.

Lemma all_of_in {A} (f : elem -> option A) l : forall r y,
  all_of f l = Some r -> In y l -> exists a, f y = Some a /\ In a r.
Proof.
  induction l as [|x l IH]; intros r y H Hy; [contradiction|]. cbn in H.
  destruct (f x) as [a|] eqn:E; [|discriminate].
  destruct (all_of f l) as [r'|]; [|discriminate]. inversion H; subst.
  destruct Hy as [->|Hy].
  - exists a. split; [exact E|left; reflexivity].
  - destruct (IH r' y eq_refl Hy) as [b [H1 H2]]. exists b. split; [exact H1|right; exact H2].
Qed.

Lemma all_of_in_inv {A} (f : elem -> option A) l : forall r a,
  all_of f l = Some r -> In a r -> exists y, In y l /\ f y = Some a.
Proof.
  induction l as [|x l IH]; intros r a H Ha; cbn in H.
  - inversion H; subst. contradiction.
  - destruct (f x) as [b|] eqn:E; [|discriminate].
    destruct (all_of f l) as [r'|]; [|discriminate]. inversion H; subst.
    destruct Ha as [->|Ha].
    + exists x. split; [left; reflexivity|exact E].
    + destruct (IH r' a eq_refl Ha) as [y [H1 H2]]. exists y. split; [right; exact H1|exact H2].
Qed.

Lemma all_of_none {A} (f : elem -> option A) l y :
  In y l -> f y = None -> all_of f l = None.
Proof.
  intros Hy Hf. destruct (all_of f l) as [r|] eqn:E; [|reflexivity].
  destruct (all_of_in f l r y E Hy) as [a [H _]]. congruence.
Qed.

Lemma mapM_length {A B} (f : A -> res B) l : forall r, mapM f l = Ok r -> length r = length l.
Proof.
  induction l as [|x l IH]; intros r H; cbn in H.
  - inversion H. reflexivity.
  - destruct (f x); [|discriminate]. destruct (mapM f l); [|discriminate].
    inversion H. cbn. f_equal. apply IH. reflexivity.
Qed.

Lemma mapM_ok_map {A B} (f : A -> res B) (g : A -> B) l :
  (forall x, In x l -> f x = Ok (g x)) -> mapM f l = Ok (map g l).
Proof.
  induction l as [|x l IH]; intros H; cbn; [reflexivity|].
  rewrite (H x (or_introl eq_refl)). rewrite IH; [reflexivity|].
  intros y Hy. apply H. right. exact Hy.
Qed.

Lemma mapM_Forall2 {A B} (f : A -> res B) (R : A -> B -> Prop) l :
  (forall x, In x l -> exists y, f x = Ok y /\ R x y) ->
  exists r, mapM f l = Ok r /\ Forall2 R l r.
Proof.
  induction l as [|x l IH]; intros H; cbn.
  - exists []. split; [reflexivity|constructor].
  - destruct (H x (or_introl eq_refl)) as [y [Hy Ry]]. rewrite Hy.
    destruct IH as [r [Hr Fr]]. { intros z Hz. apply H. right. exact Hz. }
    rewrite Hr. exists (y :: r). split; [reflexivity|constructor; assumption].
Qed.

Lemma mapM_in {A B} (f : A -> res B) l : forall r y,
  mapM f l = Ok r -> In y r -> exists x, In x l /\ f x = Ok y.
Proof.
  induction l as [|x l IH]; intros r y H Hy; cbn in H.
  - inversion H; subst. contradiction.
  - destruct (f x) as [b|] eqn:E; [|discriminate].
    destruct (mapM f l) as [r'|]; [|discriminate]. inversion H; subst.
    destruct Hy as [->|Hy].
    + exists x. split; [left; reflexivity|exact E].
    + destruct (IH r' y eq_refl Hy) as [z [H1 H2]]. exists z. split; [right; exact H1|exact H2].
Qed.

Lemma mapM_err {A B} (f : A -> res B) l k :
  mapM f l = Err k -> exists x, In x l /\ f x = Err k.
Proof.
  induction l as [|x l IH]; intros H; cbn in H; [discriminate|].
  destruct (f x) as [b|k'] eqn:E.
  - destruct (mapM f l) as [r'|k']; [discriminate|]. inversion H; subst.
    destruct (IH eq_refl) as [z [H1 H2]]. exists z. split; [right; exact H1|exact H2].
  - inversion H; subst. exists x. split; [left; reflexivity|exact E].
Qed.

Lemma filter_all {A} (p : A -> bool) l : (forall x, In x l -> p x = true) -> filter p l = l.
Proof.
  induction l as [|x l IH]; intros H; cbn; [reflexivity|].
  rewrite (H x (or_introl eq_refl)). f_equal. apply IH. intros y Hy. apply H. right. exact Hy.
Qed.

Lemma filter_length_le' {A} (p : A -> bool) l : (length (filter p l) <= length l)%nat.
Proof. induction l as [|x l IH]; cbn; [lia|]. destruct (p x); cbn; lia. Qed.

Lemma filter_length_lt {A} (p : A -> bool) l x :
  In x l -> p x = false -> (length (filter p l) < length l)%nat.
Proof.
  induction l as [|y l IH]; intros Hx Hp; [contradiction|]. cbn.
  destruct Hx as [->|Hx].
  - rewrite Hp. pose proof (filter_length_le' p l). lia.
  - specialize (IH Hx Hp). destruct (p y); cbn; lia.
Qed.

Lemma F2_length {A B} (R : A -> B -> Prop) l r : Forall2 R l r -> length l = length r.
Proof. induction 1; cbn; congruence. Qed.

Lemma F2_in_r {A B} (R : A -> B -> Prop) l r y :
  Forall2 R l r -> In y r -> exists x, In x l /\ R x y.
Proof.
  induction 1 as [|a b l r Hab _ IH]; intros Hy; [contradiction|].
  destruct Hy as [->|Hy].
  - exists a. split; [left; reflexivity|exact Hab].
  - destruct (IH Hy) as [x [H1 H2]]. exists x. split; [right; exact H1|exact H2].
Qed.

Lemma nth_error_seq s n : forall k, (k < n)%nat -> nth_error (seq s n) k = Some (s + k)%nat.
Proof.
  revert s. induction n as [|n IH]; intros s k H; [lia|]. destruct k as [|k]; cbn.
  - f_equal. lia.
  - rewrite IH by lia. f_equal. lia.
Qed.

(** ** finish: the size comparison *)

Lemma finish_ok len idx : length idx = len -> finish len idx = Ok idx.
Proof. intros <-. unfold finish. rewrite Nat.eqb_refl. reflexivity. Qed.

Lemma finish_err len idx : length idx <> len -> finish len idx = Err EIndex.
Proof. intro H. unfold finish. apply Nat.eqb_neq in H. rewrite H. reflexivity. Qed.

Lemma finish_inv len idx r : finish len idx = Ok r -> r = idx /\ length idx = len.
Proof.
  unfold finish. destruct (Nat.eqb (length idx) len) eqn:E; [|discriminate].
  apply Nat.eqb_eq in E. intro H. inversion H; subst. auto.
Qed.

(** ** Elements of the three kinds exclude one another *)

Lemma strs_not_ints l ss : all_strs l = Some ss -> l <> [] -> all_ints l = None.
Proof.
  destruct l as [|x l]; [congruence|]. intros H _. unfold all_strs, all_ints in *. cbn in *.
  destruct x; cbn in *; try discriminate. reflexivity.
Qed.

Lemma enums_not_ints l ms : all_enums l = Some ms -> l <> [] -> all_ints l = None.
Proof.
  destruct l as [|x l]; [congruence|]. intros H _. unfold all_enums, all_ints in *. cbn in *.
  destruct x; cbn in *; try discriminate. reflexivity.
Qed.

Lemma enums_not_strs l ms : all_enums l = Some ms -> l <> [] -> all_strs l = None.
Proof.
  destruct l as [|x l]; [congruence|]. intros H _. unfold all_enums, all_strs in *. cbn in *.
  destruct x; cbn in *; try discriminate. reflexivity.
Qed.

Lemma all_enums_mem l ms m : all_enums l = Some ms -> In m ms -> In (EMem m) l.
Proof.
  intros H Hm. destruct (all_of_in_inv _ _ _ _ H Hm) as [y [Hy E]].
  destruct y; cbn in E; try discriminate. inversion E; subst. exact Hy.
Qed.

Lemma len0 {A} (l : list A) : Nat.eqb (length l) 0 = true -> l = [].
Proof. destruct l; [reflexivity|discriminate]. Qed.

(** ** What [encode] computes on each kind of input *)

Lemma encode_ints e x l : as_ints x = Some l ->
  encode e x = rmap (mkArr (Some e)) (finish (length l) (int_to_index e l)).
Proof.
  destruct x as [a|l0|l0|l0|n|l0]; cbn [as_ints]; intro H; try discriminate.
  - inversion H; subst. cbn [encode input_len].
    destruct (Nat.eqb (length l) 0) eqn:E; [|reflexivity].
    apply len0 in E. subst. reflexivity.
  - cbn [encode input_len]. destruct (Nat.eqb (length l0) 0) eqn:E.
    + apply len0 in E. subst. cbn in H. inversion H. reflexivity.
    + unfold encode_array_like. rewrite H. rewrite (all_of_length _ _ _ H). reflexivity.
Qed.

Lemma encode_names e x l : as_names x = Some l ->
  encode e x = rmap (mkArr (Some e)) (let* idx := str_to_index e l in finish (length l) idx).
Proof.
  destruct x as [a|l0|l0|l0|n|l0]; cbn [as_names]; intro H; try discriminate.
  - inversion H; subst. cbn [encode input_len].
    destruct (Nat.eqb (length l) 0) eqn:E; [|reflexivity].
    apply len0 in E. subst. reflexivity.
  - cbn [encode input_len]. destruct (Nat.eqb (length l0) 0) eqn:E.
    + apply len0 in E. subst. cbn in H. inversion H. reflexivity.
    + unfold encode_array_like.
      rewrite (strs_not_ints _ _ H) by (intros ->; discriminate).
      rewrite H. rewrite (all_of_length _ _ _ H). reflexivity.
Qed.

Lemma encode_members e x ms : as_members x = Some ms ->
  encode e x = rmap (mkArr (Some e))
                 (if forallb (has_member e) ms then finish (length ms) (enum_to_index ms)
                  else Err EType).
Proof.
  destruct x as [a|l0|l0|l0|n|l0]; cbn [as_members]; intro H; try discriminate.
  - cbn [encode input_len]. destruct (Nat.eqb (length l0) 0) eqn:E.
    + apply len0 in E. subst. cbn in H. inversion H. reflexivity.
    + cbn [encode_array]. rewrite H. rewrite (all_of_length _ _ _ H). reflexivity.
  - cbn [encode input_len]. destruct (Nat.eqb (length l0) 0) eqn:E.
    + apply len0 in E. subst. cbn in H. inversion H. reflexivity.
    + unfold encode_array_like.
      rewrite (enums_not_ints _ _ H) by (intros ->; discriminate).
      rewrite (enums_not_strs _ _ H) by (intros ->; discriminate).
      rewrite H. rewrite (all_of_length _ _ _ H). reflexivity.
Qed.

(** ** The helpers of _utils.py *)

Lemma int_to_index_valid e l : (forall i, In i l -> valid_index e i) -> int_to_index e l = l.
Proof.
  intro H. apply filter_all. intros i Hi. specialize (H i Hi). unfold valid_index in H.
  apply andb_true_intro. split; [apply Z.leb_le|apply Z.ltb_lt]; lia.
Qed.

Lemma int_to_index_range e l i : In i (int_to_index e l) -> valid_index e i.
Proof.
  unfold int_to_index. rewrite filter_In. intros [_ H]. apply andb_prop in H.
  destruct H as [H1 H2]. apply Z.leb_le in H1. apply Z.ltb_lt in H2. split; assumption.
Qed.

Lemma int_to_index_drops e l i : In i l -> (i < 0 \/ size e <= i) ->
  (length (int_to_index e l) < length l)%nat.
Proof.
  intros Hi Hb. apply (filter_length_lt _ _ i Hi).
  destruct (0 <=? i) eqn:E1; [|reflexivity]. destruct (i <? size e) eqn:E2; [|reflexivity].
  apply Z.leb_le in E1. apply Z.ltb_lt in E2. lia.
Qed.

Lemma isin_In nm s : isin nm s = true <-> In s nm.
Proof.
  unfold isin. rewrite existsb_exists. split.
  - intros [t [Ht E]]. apply String.eqb_eq in E. subst. exact Ht.
  - intro H. exists s. split; [exact H|apply String.eqb_refl].
Qed.

Lemma isin_not_In nm s : ~ In s nm -> isin nm s = false.
Proof.
  intro H. destruct (isin nm s) eqn:E; [|reflexivity]. apply isin_In in E. contradiction.
Qed.

(** names are found at their declaration index *)
Lemma str_to_index_valid e l :
  NoDup (names e) -> (forall s, In s l -> In s (names e)) ->
  exists idx, str_to_index e l = Ok idx /\
    Forall2 (fun s z => 0 <= z /\ nth_error (names e) (Z.to_nat z) = Some s) l idx.
Proof.
  intros Hnd Hl. unfold str_to_index.
  rewrite filter_all by (intros s Hs; apply isin_In; auto).
  apply mapM_Forall2. intros s Hs.
  destruct (In_nth_error _ _ (Hl s Hs)) as [i Hi].
  exists (Z.of_nat i). split.
  - apply (lookup_member (names e) (argsort (names e)) (argsort_perm _) (argsort_sorts _) i s Hnd Hi).
  - split; [lia|]. rewrite Nat2Z.id. exact Hi.
Qed.

Lemma str_to_index_range e l idx z : str_to_index e l = Ok idx -> In z idx -> valid_index e z.
Proof.
  unfold str_to_index. intros H Hz. destruct (mapM_in _ _ _ _ H Hz) as [s [_ Hs]].
  apply (lookup_range (names e) (argsort (names e)) (argsort_perm _) (argsort_sorts _)) in Hs.
  exact Hs.
Qed.

Lemma str_to_index_length e l idx : str_to_index e l = Ok idx ->
  length idx = length (filter (isin (names e)) l).
Proof. unfold str_to_index. apply mapM_length. Qed.

Lemma str_to_index_err e l k : str_to_index e l = Err k -> k = EIndex.
Proof.
  unfold str_to_index. intro H. destruct (mapM_err _ _ _ H) as [s [_ Hs]].
  apply (lookup_err (names e) (argsort (names e)) (argsort_perm _) (argsort_sorts _)) in Hs.
  exact Hs.
Qed.

(** the filter-then-compare-sizes scheme: the result of [_str_to_index] is as long as its
    input exactly when every name is a member *)
Lemma str_to_index_detects e l idx : str_to_index e l = Ok idx ->
  (length idx = length l <-> forall s, In s l -> In s (names e)).
Proof.
  intro H. rewrite (str_to_index_length _ _ _ H). split.
  - intros Hlen s Hs. destruct (isin (names e) s) eqn:E; [apply isin_In; exact E|].
    pose proof (filter_length_lt _ _ _ Hs E). lia.
  - intro Hl. rewrite filter_all; [reflexivity|]. intros s Hs. apply isin_In. auto.
Qed.

(** ** decode *)

Lemma np_index_ok {A} (t : list A) i a :
  0 <= i -> nth_error t (Z.to_nat i) = Some a -> np_index t i = Ok a.
Proof.
  intros Hi Hn. unfold np_index.
  assert (Hl : (Z.to_nat i < length t)%nat) by (apply nth_error_Some; congruence).
  destruct (i <? 0) eqn:E; [apply Z.ltb_lt in E; lia|].
  replace ((0 <=? i) && (i <? Z.of_nat (length t))) with true.
  - rewrite Hn. reflexivity.
  - symmetry. apply andb_true_intro. split; [apply Z.leb_le|apply Z.ltb_lt]; lia.
Qed.

Lemma has_member_iff e m : has_member e m = true <-> designates e m.
Proof.
  unfold has_member, designates. split.
  - intro H. apply andb_prop in H. destruct H as [H1 H2]. apply Z.eqb_eq in H1.
    destruct (nth_error (names e) (midx m)) as [s|]; [|discriminate].
    apply String.eqb_eq in H2. subst. auto.
  - intros [H1 H2]. rewrite H1, H2, Z.eqb_refl, String.eqb_refl. reflexivity.
Qed.

Lemma has_member_false e m : ~ designates e m -> has_member e m = false.
Proof.
  intro H. destruct (has_member e m) eqn:E; [|reflexivity]. apply has_member_iff in E. contradiction.
Qed.

Lemma designates_range e m : designates e m -> valid_index e (Z.of_nat (midx m)).
Proof.
  intros [_ H]. unfold valid_index, size.
  assert ((midx m < length (names e))%nat) by (apply nth_error_Some; congruence). lia.
Qed.

Lemma nth_error_combine_seq {A} (l : list A) : forall s k x,
  nth_error l k = Some x -> nth_error (combine l (seq s (length l))) k = Some (x, (s + k)%nat).
Proof.
  induction l as [|y l IH]; intros s k x H; [destruct k; discriminate|].
  destruct k as [|k]; cbn in *.
  - inversion H. do 2 f_equal. lia.
  - rewrite (IH (S s) k x H). do 2 f_equal. lia.
Qed.

Lemma nth_error_members e k s : nth_error (names e) k = Some s ->
  nth_error (members e) k = Some (mkMem (eid e) k s).
Proof.
  intro H. unfold members.
  apply (map_nth_error (fun p => mkMem (eid e) (snd p) (fst p)) k) with (d := (s, k)).
  apply (nth_error_combine_seq (names e) 0 k s H).
Qed.

Lemma np_index_members e i : valid_index e i ->
  exists m, np_index (members e) i = Ok m /\ member_of_index e i m.
Proof.
  unfold valid_index, size. intro H.
  destruct (nth_error (names e) (Z.to_nat i)) as [s|] eqn:E.
  - exists (mkMem (eid e) (Z.to_nat i) s). split.
    + apply np_index_ok; [lia|]. apply nth_error_members. exact E.
    + unfold member_of_index, designates. cbn. repeat split; auto. lia.
  - apply nth_error_None in E. lia.
Qed.

Lemma decode_valid e l : (forall i, In i l -> valid_index e i) ->
  exists ms, decode (mkArr (Some e) l) = Ok ms /\ Forall2 (member_of_index e) l ms.
Proof.
  intro H. unfold decode. cbn [possible_values indices].
  apply mapM_Forall2. intros i Hi. apply np_index_members. auto.
Qed.

(** decode_to_str gives the names of the members decode gives *)
Lemma decode_to_str_members e l ms : Forall2 (member_of_index e) l ms ->
  decode_to_str (mkArr (Some e) l) = Ok (map mname ms).
Proof.
  unfold decode_to_str. cbn [possible_values indices].
  induction 1 as [|i m l ms [[_ Hn] Hi] _ IH]; cbn [mapM map]; [reflexivity|].
  rewrite (np_index_ok (names e) i (mname m)); [|lia|subst i; rewrite Nat2Z.id; exact Hn].
  rewrite IH. reflexivity.
Qed.

Lemma decode_to_str_names e l idx :
  Forall2 (fun s z => 0 <= z /\ nth_error (names e) (Z.to_nat z) = Some s) l idx ->
  decode_to_str (mkArr (Some e) idx) = Ok l.
Proof.
  unfold decode_to_str. cbn [possible_values indices].
  induction 1 as [|s z l idx [Hz Hs] _ IH]; cbn [mapM]; [reflexivity|].
  rewrite (np_index_ok _ _ _ Hz Hs). rewrite IH. reflexivity.
Qed.

Lemma F2_members_forall e l ms : Forall2 (member_of_index e) l ms -> forall m, In m ms -> designates e m.
Proof.
  induction 1 as [|i m l ms [Hd _] _ IH]; intros m' Hm; [contradiction|].
  destruct Hm as [<-|Hm]; [exact Hd|apply IH; exact Hm].
Qed.

(** ** Round trips *)

Theorem decode_encode_indices_lemma : forall e x l,
  as_ints x = Some l -> (forall i, In i l -> valid_index e i) ->
  exists a ms, encode e x = Ok a /\ possible_values a = Some e /\ indices a = l /\
    decode a = Ok ms /\ Forall2 (member_of_index e) l ms /\
    decode_to_str a = Ok (map mname ms).
Proof.
  intros e x l Hx Hl. rewrite (encode_ints e x l Hx).
  rewrite (int_to_index_valid e l Hl). rewrite finish_ok by reflexivity. cbn [rmap].
  destruct (decode_valid e l Hl) as [ms [H1 H2]].
  exists (mkArr (Some e) l), ms. repeat split; auto. apply decode_to_str_members. exact H2.
Qed.

Lemma names_back e l idx : 
  Forall2 (fun s z => 0 <= z /\ nth_error (names e) (Z.to_nat z) = Some s) l idx ->
  forall ms, Forall2 (member_of_index e) idx ms -> map mname ms = l.
Proof.
  induction 1 as [|s z l idx [Hz Hs] _ IH]; intros ms F; inversion F; subst; cbn [map]; [reflexivity|].
  f_equal; [|apply IH; assumption].
  match goal with H : member_of_index e _ _ |- _ => destruct H as [[_ Hn] Hi] end.
  subst z. rewrite Nat2Z.id in Hs. congruence.
Qed.

Theorem decode_encode_names_lemma : forall e x l,
  NoDup (names e) -> as_names x = Some l -> (forall s, In s l -> In s (names e)) ->
  exists a ms, encode e x = Ok a /\ possible_values a = Some e /\
    decode_to_str a = Ok l /\ decode a = Ok ms /\
    map mname ms = l /\ (forall m, In m ms -> designates e m).
Proof.
  intros e x l Hnd Hx Hl. rewrite (encode_names e x l Hx).
  destruct (str_to_index_valid e l Hnd Hl) as [idx [Hi F]]. rewrite Hi. cbn [bind].
  rewrite finish_ok by (symmetry; eapply F2_length; eauto). cbn [rmap].
  assert (Hv : forall z, In z idx -> valid_index e z).
  { intros z Hz. unfold valid_index, size.
    destruct (F2_in_r _ _ _ _ F Hz) as [s [_ [H0 Hn]]].
    assert ((Z.to_nat z < length (names e))%nat) by (apply nth_error_Some; congruence). lia. }
  destruct (decode_valid e idx Hv) as [ms [H1 H2]].
  exists (mkArr (Some e) idx), ms.
  split; [reflexivity|]. split; [reflexivity|]. split; [apply decode_to_str_names; exact F|].
  split; [exact H1|]. split; [eapply names_back; eauto|eapply F2_members_forall; eauto].
Qed.

Lemma members_back e ms : (forall m, In m ms -> designates e m) ->
  forall ms', Forall2 (member_of_index e) (enum_to_index ms) ms' -> ms' = ms.
Proof.
  induction ms as [|m ms IH]; intros Hd ms' F; cbn [enum_to_index map] in F.
  - inversion F. reflexivity.
  - inversion F as [|i m' idx' ms'' Hm' F']; subst. f_equal.
    + destruct Hm' as [[H1 H2] H3].
      destruct (Hd m (or_introl eq_refl)) as [H4 H5].
      apply Nat2Z.inj in H3. destruct m as [c i n], m' as [c' i' n']. cbn in *. subst. congruence.
    + apply IH; [|exact F']. intros m0 H0. apply Hd. right. exact H0.
Qed.

Theorem decode_encode_members_lemma : forall e x ms,
  as_members x = Some ms -> (forall m, In m ms -> designates e m) ->
  exists a, encode e x = Ok a /\ possible_values a = Some e /\ decode a = Ok ms /\
    decode_to_str a = Ok (map mname ms).
Proof.
  intros e x ms Hx Hm. rewrite (encode_members e x ms Hx).
  replace (forallb (has_member e) ms) with true.
  2:{ symmetry. apply forallb_forall. intros m H. apply has_member_iff. auto. }
  rewrite finish_ok by (unfold enum_to_index; apply map_length). cbn [rmap].
  assert (Hv : forall i, In i (enum_to_index ms) -> valid_index e i).
  { intros i Hi. unfold enum_to_index in Hi. apply in_map_iff in Hi. destruct Hi as [m [<- Hi]].
    apply designates_range. auto. }
  destruct (decode_valid e _ Hv) as [ms' [H1 H2]].
  pose proof (members_back e ms Hm ms' H2). subst ms'.
  exists (mkArr (Some e) (enum_to_index ms)).
  split; [reflexivity|]. split; [reflexivity|]. split; [exact H1|].
  apply decode_to_str_members. exact H2.
Qed.

Theorem encode_idempotent_lemma : forall e e' x a,
  encode e x = Ok a -> encode e' (Encoded a) = Ok a.
Proof. intros. reflexivity. Qed.

(** ** Every accepted encoding holds indices of members only *)

Definition core (e : enum) (x : input) : res (list Z) :=
  match x with Seq l => encode_array_like e l | _ => encode_array e x end.

Lemma encode_inv e x a : (forall b, x <> Encoded b) -> encode e x = Ok a ->
  possible_values a = Some e /\
  ((input_len x = 0%nat /\ indices a = []) \/
   (input_len x <> 0%nat /\ core e x = Ok (indices a))).
Proof.
  intros Hx H.
  assert (H' : rmap (mkArr (Some e))
            (if Nat.eqb (input_len x) 0 then Ok [] else core e x) = Ok a).
  { destruct x; try exact H. exfalso. eapply Hx. reflexivity. }
  clear H. destruct (Nat.eqb (input_len x) 0) eqn:E.
  - apply Nat.eqb_eq in E. cbn in H'. inversion H'; subst. cbn. auto.
  - apply Nat.eqb_neq in E. destruct (core e x) as [idx|k]; cbn in H'; [|discriminate].
    inversion H'; subst. cbn. auto.
Qed.

Lemma members_branch_valid e len ms idx :
  (if forallb (has_member e) ms then finish len (enum_to_index ms) else Err EType) = Ok idx ->
  length idx = len /\ forall i, In i idx -> valid_index e i.
Proof.
  intros H. destruct (forallb (has_member e) ms) eqn:E; [|discriminate].
  apply finish_inv in H. destruct H as [-> Hlen]. split; [exact Hlen|].
  intros i Hi. unfold enum_to_index in Hi. apply in_map_iff in Hi. destruct Hi as [m [<- Hm]].
  rewrite forallb_forall in E. apply designates_range. apply has_member_iff. auto.
Qed.

Lemma str_branch_valid e ss len idx :
  (let* i := str_to_index e ss in finish len i) = Ok idx ->
  length idx = len /\ forall i, In i idx -> valid_index e i.
Proof.
  destruct (str_to_index e ss) as [i|k] eqn:E; cbn [bind]; [|discriminate].
  intro H. apply finish_inv in H. destruct H as [-> Hlen]. split; [exact Hlen|].
  intros z Hz. eapply str_to_index_range; eauto.
Qed.

Lemma int_branch_valid e zs len idx :
  finish len (int_to_index e zs) = Ok idx ->
  length idx = len /\ forall i, In i idx -> valid_index e i.
Proof.
  intro H. apply finish_inv in H. destruct H as [-> Hlen]. split; [exact Hlen|].
  intros i. apply int_to_index_range.
Qed.

Lemma encode_array_like_valid e l idx :
  encode_array_like e l = Ok idx ->
  length idx = length l /\ forall i, In i idx -> valid_index e i.
Proof.
  unfold encode_array_like. intros H.
  destruct (all_ints l) as [zs|]; [eapply int_branch_valid; eauto|].
  destruct (all_strs l) as [ss|]; [eapply str_branch_valid; eauto|].
  destruct (all_enums l) as [ms|] eqn:E; [|discriminate].
  eapply members_branch_valid; eauto.
Qed.

Lemma core_valid e x idx :
  (forall b, x <> Encoded b) -> core e x = Ok idx ->
  length idx = input_len x /\ forall i, In i idx -> valid_index e i.
Proof.
  intros Hx H. destruct x as [a|l|l|l|n|l]; cbn [core encode_array input_len] in *.
  - exfalso. eapply Hx. reflexivity.
  - eapply int_branch_valid; eauto.
  - eapply str_branch_valid; eauto.
  - destruct (all_enums l) as [ms|] eqn:E; [|discriminate].
    eapply members_branch_valid; eauto.
  - discriminate.
  - apply encode_array_like_valid; assumption.
Qed.

Theorem encode_total_valid_lemma : forall e x a,
  (forall b, x <> Encoded b) -> encode e x = Ok a ->
  possible_values a = Some e /\ length (indices a) = input_len x /\
  forall i, In i (indices a) -> valid_index e i.
Proof.
  intros e x a Hx H. destruct (encode_inv e x a Hx H) as [Hp [[H0 Hi]|[H0 Hc]]].
  - split; [exact Hp|]. rewrite Hi, H0. split; [reflexivity|]. intros i [].
  - split; [exact Hp|]. apply core_valid; assumption.
Qed.

(** ... hence decodes, to members of this enumeration, one per input element *)
Theorem encoded_decodes_lemma : forall e x a,
  (forall b, x <> Encoded b) -> encode e x = Ok a ->
  exists ms, decode a = Ok ms /\ decode_to_str a = Ok (map mname ms) /\
    length ms = input_len x /\ Forall2 (member_of_index e) (indices a) ms.
Proof.
  intros e x a Hx H.
  destruct (encode_total_valid_lemma e x a Hx H) as [Hp [Hlen Hv]].
  destruct a as [pv idx]. cbn [possible_values indices] in *. subst pv.
  destruct (decode_valid e idx Hv) as [ms [H1 H2]].
  exists ms. split; [exact H1|]. split; [apply decode_to_str_members; exact H2|].
  split; [rewrite <- (F2_length _ _ _ H2); exact Hlen|exact H2].
Qed.

(** ** Invalid inputs are rejected, class by class *)

Theorem index_out_of_range_rejected_lemma : forall e x l i,
  as_ints x = Some l -> In i l -> (i < 0 \/ size e <= i) -> encode e x = Err EIndex.
Proof.
  intros e x l i Hx Hi Hb. rewrite (encode_ints e x l Hx).
  rewrite finish_err; [reflexivity|]. pose proof (int_to_index_drops e l i Hi Hb). lia.
Qed.

Theorem unknown_name_rejected_lemma : forall e x l s,
  as_names x = Some l -> In s l -> ~ In s (names e) -> encode e x = Err EIndex.
Proof.
  intros e x l s Hx Hs Hn. rewrite (encode_names e x l Hx).
  destruct (str_to_index e l) as [idx|k] eqn:E; cbn [bind].
  - rewrite finish_err; [reflexivity|]. rewrite (str_to_index_length _ _ _ E).
    pose proof (filter_length_lt _ _ _ Hs (isin_not_In _ _ Hn)). lia.
  - apply str_to_index_err in E. subst. reflexivity.
Qed.

Theorem foreign_member_rejected_lemma : forall e x ms m,
  as_members x = Some ms -> In m ms -> ~ designates e m -> encode e x = Err EType.
Proof.
  intros e x ms m Hx Hm Hf. rewrite (encode_members e x ms Hx).
  replace (forallb (has_member e) ms) with false; [reflexivity|].
  symmetry. destruct (forallb (has_member e) ms) eqn:E; [|reflexivity].
  rewrite forallb_forall in E. specialize (E m Hm). apply has_member_iff in E. contradiction.
Qed.

Lemma nonempty_len {A} (l : list A) y : In y l -> Nat.eqb (length l) 0 = false.
Proof. destruct l; [contradiction|reflexivity]. Qed.

(** an element that is no int, no str and no member (float, bytes, None, ...) anywhere,
    or an array of another dtype *)
Theorem unsupported_type_rejected_lemma : forall e x,
  In EOther (input_elems x) \/ (exists n, x = ArrOther (S n)) -> encode e x = Err EType.
Proof.
  intros e x [H|[n ->]]; [|reflexivity].
  destruct x as [a|l|l|l|n|l]; cbn [input_elems] in H; try contradiction;
    cbn [encode input_len]; rewrite (nonempty_len _ _ H).
  - cbn [encode_array]. unfold all_enums. rewrite (all_of_none as_enum l EOther H eq_refl). reflexivity.
  - unfold encode_array_like, all_ints, all_strs, all_enums.
    rewrite (all_of_none as_int l EOther H eq_refl).
    rewrite (all_of_none as_str l EOther H eq_refl).
    rewrite (all_of_none as_enum l EOther H eq_refl). reflexivity.
Qed.

(** elements of different kinds in one sequence (even when each would be valid alone) *)
Theorem mixed_kinds_rejected_lemma : forall e l,
  l <> [] -> all_ints l = None -> all_strs l = None -> all_enums l = None ->
  encode e (Seq l) = Err EType /\ encode e (ArrObj l) = Err EType.
Proof.
  intros e l Hl H1 H2 H3. cbn [encode input_len].
  replace (Nat.eqb (length l) 0) with false by (destruct l; [congruence|reflexivity]).
  unfold encode_array_like. cbn [encode_array]. rewrite H1, H2, H3. split; reflexivity.
Qed.

Lemma members_branch_invalid e l ms y :
  all_enums l = Some ms -> In y l -> elem_invalid e y ->
  (if forallb (has_member e) ms then finish (length l) (enum_to_index ms) else Err EType) = Err EType.
Proof.
  intros Hms Hy Hinv. destruct (all_of_in _ _ _ _ Hms Hy) as [m [E Hm]].
  destruct y; cbn in E; try discriminate. inversion E; subst. cbn in Hinv.
  replace (forallb (has_member e) ms) with false; [reflexivity|].
  symmetry. destruct (forallb (has_member e) ms) eqn:F; [|reflexivity].
  rewrite forallb_forall in F. specialize (F m Hm). apply has_member_iff in F. contradiction.
Qed.

Lemma encode_array_like_invalid e l y :
  In y l -> elem_invalid e y -> exists k, encode_array_like e l = Err k.
Proof.
  intros Hy Hinv. unfold encode_array_like.
  destruct (all_ints l) as [zs|] eqn:E1.
  { destruct (all_of_in _ _ _ _ E1 Hy) as [z [Ez Hz]].
    assert (Hb : z < 0 \/ size e <= z).
    { destruct y; cbn in Ez; try discriminate; inversion Ez; subst; cbn in Hinv; auto. }
    exists EIndex. apply finish_err. pose proof (int_to_index_drops e zs z Hz Hb).
    rewrite <- (all_of_length _ _ _ E1). lia. }
  destruct (all_strs l) as [ss|] eqn:E2.
  { destruct (all_of_in _ _ _ _ E2 Hy) as [s [Es Hs]].
    assert (Hn : ~ In s (names e)).
    { destruct y; cbn in Es; try discriminate; inversion Es; subst; exact Hinv. }
    destruct (str_to_index e ss) as [idx|k] eqn:E; cbn [bind]; [|eauto].
    exists EIndex. apply finish_err. rewrite (str_to_index_length _ _ _ E).
    pose proof (filter_length_lt _ _ _ Hs (isin_not_In _ _ Hn)).
    rewrite <- (all_of_length _ _ _ E2). lia. }
  destruct (all_enums l) as [ms|] eqn:E3; [|eauto].
  exists EType. eapply members_branch_invalid; eauto.
Qed.

Theorem invalid_rejected_lemma : forall e x, input_invalid e x -> exists k, encode e x = Err k.
Proof.
  intros e x H. destruct x as [a|l|l|l|n|l]; cbn [input_invalid] in H.
  - contradiction.
  - destruct H as [i [Hi Hb]]. exists EIndex.
    apply (index_out_of_range_rejected_lemma e (ArrInt l) l i eq_refl Hi Hb).
  - destruct H as [s [Hs Hn]]. exists EIndex.
    apply (unknown_name_rejected_lemma e (ArrStr l) l s eq_refl Hs Hn).
  - destruct H as [y [Hy Hinv]]. cbn [encode input_len]. rewrite (nonempty_len _ _ Hy).
    cbn [encode_array]. destruct (all_enums l) as [ms|] eqn:E; [|exists EType; reflexivity].
    exists EType. rewrite (members_branch_invalid e l ms y E Hy Hinv). reflexivity.
  - destruct n; [lia|]. exists EType. reflexivity.
  - destruct H as [y [Hy Hinv]]. cbn [encode input_len]. rewrite (nonempty_len _ _ Hy).
    destruct (encode_array_like_invalid e l y Hy Hinv) as [k ->]. exists k. reflexivity.
Qed.

(** ** The str -> index route, for any name list and any sorting permutation *)

Theorem searchsorted_finds_lemma : forall nm sorter,
  NoDup nm -> Permutation sorter (seq 0 (length nm)) -> sorts nm sorter ->
  (forall i s, nth_error nm i = Some s -> lookup nm sorter s = Ok (Z.of_nat i)) /\
  (forall s, ~ In s nm ->
     exists r, searchsorted nm sorter s = Ok r /\
       (r = length sorter \/
        exists j t, nth_error sorter r = Some j /\ nth_error nm j = Some t /\ String.ltb s t = true)).
Proof.
  intros nm sorter Hnd Hp Hs. split.
  - intros i s Hi. apply (lookup_member nm sorter Hp Hs i s Hnd Hi).
  - intros s Hn. apply (lookup_non_member nm sorter Hp Hs s Hn).
Qed.

Theorem argsort_sorts_lemma : forall nm,
  Permutation (argsort nm) (seq 0 (length nm)) /\ sorts nm (argsort nm).
Proof. intro nm. split; [apply argsort_perm|apply argsort_sorts]. Qed.

(** the model's [_str_to_index] on arbitrary input: the declaration indices of the names that
    are members, in order; the others are dropped (and [finish] then notices the size) *)
Theorem str_to_index_spec_lemma : forall e l,
  NoDup (names e) ->
  exists idx, str_to_index e l = Ok idx /\
    Forall2 (fun s z => 0 <= z /\ nth_error (names e) (Z.to_nat z) = Some s)
            (filter (isin (names e)) l) idx /\
    (length idx = length l <-> forall s, In s l -> In s (names e)).
Proof.
  intros e l Hnd.
  destruct (str_to_index_valid e (filter (isin (names e)) l) Hnd) as [idx [H F]].
  { intros s Hs. apply filter_In in Hs. apply isin_In. apply Hs. }
  assert (H' : str_to_index e l = Ok idx).
  { unfold str_to_index in *. rewrite filter_all in H; [exact H|].
    intros s Hs. apply filter_In in Hs. apply Hs. }
  exists idx. split; [exact H'|]. split; [exact F|]. apply str_to_index_detects. exact H'.
Qed.
