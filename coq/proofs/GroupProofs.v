(** Proofs about the group-population model [Group] (numpy list lemmas are in NpProofs). *)
From Coq Require Import String ZArith List Bool Arith Lia Sorting.Permutation Sorting.Sorted.
From Verif Require Import Base Np Group GroupSpec NpProofs.
Import ListNotations.
Open Scope nat_scope.

Lemma bubble_app sim c1 c2 x :
  transform_and_bubble_up sim (c1 ++ c2) x =
  bind (transform_and_bubble_up sim c1 x) (transform_and_bubble_up sim c2).
Proof.
  revert x; induction c1 as [|pr c1 IH]; intros x; cbn; [reflexivity|].
  destruct (transform sim pr x); cbn; auto.
Qed.

(** ** the arrays of a population as maps over the persons 0..n-1 *)

Lemma ids_map p : g_ids p = map (group_of p) (seq 0 (npersons p)).
Proof. unfold group_of, npersons. apply as_map. Qed.

Lemma arr_map {A} p (a : list A) d :
  length a = npersons p -> a = map (fun i => nth i a d) (seq 0 (npersons p)).
Proof. intros <-. apply as_map. Qed.

Lemma has_role_map p r :
  wf_pop p -> has_role p r = map (in_role p (Some r)) (seq 0 (npersons p)).
Proof.
  intros [_ Hl]. unfold has_role, in_role, role_of.
  rewrite (as_map (g_roles p) 0) at 1. rewrite map_map, Hl. reflexivity.
Qed.

Lemma wf_group_lt p i : wf_pop p -> i < npersons p -> group_of p i < g_count p.
Proof.
  intros [H _] Hi. rewrite Forall_forall in H. apply H. apply nth_In. exact Hi.
Qed.

Lemma wf_Forall_seq p (f : nat -> bool) :
  wf_pop p -> Forall (fun i => group_of p i < g_count p) (filter f (seq 0 (npersons p))).
Proof.
  intros W. apply Forall_filter. rewrite Forall_forall. intros i Hi. apply in_seq in Hi.
  apply wf_group_lt; [exact W|lia].
Qed.

Lemma filter_true {A} (l : list A) : filter (fun _ => true) l = l.
Proof. induction l; cbn; congruence. Qed.

Lemma members_with_role_alt p role g :
  members_with_role p role g =
  filter (fun i => group_of p i =? g) (filter (in_role p role) (seq 0 (npersons p))).
Proof. unfold members_with_role, members. apply filter_comm. Qed.

Lemma members_with_role_None p g : members_with_role p None g = members p g.
Proof. unfold members_with_role. cbn. apply filter_true. Qed.

(** ** sum, nb_persons, any *)

Lemma sum_ok p array role :
  wf_pop p -> length array = npersons p ->
  sum p array role =
  Ok (map (fun g => zsum (map (fun i => nth i array 0%Z) (members_with_role p role g)))
          (seq 0 (g_count p))).
Proof.
  intros W Hl. unfold sum, check_size. rewrite Hl, Nat.eqb_refl. cbn [bind].
  destruct role as [r|].
  - rewrite (has_role_map p r W), (ids_map p), (arr_map p array 0%Z Hl), !mask_select_map.
    rewrite bincount_maps by (apply wf_Forall_seq; exact W).
    f_equal. apply map_ext. intros g. rewrite members_with_role_alt.
    rewrite <- (arr_map p array 0%Z Hl). reflexivity.
  - rewrite (ids_map p), (arr_map p array 0%Z Hl).
    rewrite bincount_maps.
    + f_equal. apply map_ext. intros g. rewrite members_with_role_None.
      rewrite <- (arr_map p array 0%Z Hl). reflexivity.
    + rewrite <- (filter_true (seq 0 (npersons p))). apply wf_Forall_seq; exact W.
Qed.

Lemma zsum_b2z (f : nat -> bool) l :
  zsum (map (fun i => b2z (f i)) l) = Z.of_nat (length (filter f l)).
Proof.
  induction l as [|a l IH]; [reflexivity|]. cbn [map zsum fold_right filter].
  fold (zsum (map (fun i => b2z (f i)) l)). rewrite IH.
  destruct (f a); cbn [b2z length]; lia.
Qed.

Lemma nb_persons_ok p role :
  wf_pop p ->
  nb_persons p role =
  Ok (map (fun g => Z.of_nat (length (members_with_role p role g))) (seq 0 (g_count p))).
Proof.
  intros W. unfold nb_persons. destruct role as [r|].
  - rewrite sum_ok; [|exact W|].
    + f_equal. apply map_ext. intros g. rewrite members_with_role_None.
      rewrite (has_role_map p r W), map_map.
      rewrite (map_ext_in _ (fun i => b2z (in_role p (Some r) i))).
      * apply zsum_b2z.
      * intros i Hi. apply filter_In in Hi as [Hi _]. apply in_seq in Hi.
        now rewrite nth_map_seq by lia.
    + rewrite (has_role_map p r W), !map_length, seq_length. reflexivity.
  - f_equal. rewrite (ids_map p), bincount_count_maps.
    + apply map_ext. intros g. now rewrite members_with_role_None.
    + rewrite <- (filter_true (seq 0 (npersons p))). apply wf_Forall_seq; exact W.
Qed.

Lemma zsum_pos_existsb (w : nat -> Z) l :
  (forall i, In i l -> (0 <= w i)%Z) ->
  (0 <? zsum (map w l))%Z = existsb (fun i => (0 <? w i)%Z) l.
Proof.
  induction l as [|a l IH]; intros H; [reflexivity|].
  cbn [map zsum fold_right existsb]. fold (zsum (map w l)).
  assert (Ha : (0 <= w a)%Z) by (apply H; now left).
  assert (Hl : forall i, In i l -> (0 <= w i)%Z) by (intros; apply H; now right).
  specialize (IH Hl).
  assert (0 <= zsum (map w l))%Z.
  { clear IH H. induction l as [|b l IH2]; [cbn; lia|].
    cbn [map zsum fold_right]. fold (zsum (map w l)).
    assert (0 <= w b)%Z by (apply Hl; now left).
    assert (0 <= zsum (map w l))%Z by (apply IH2; intros; apply Hl; now right). lia. }
  destruct (0 <? w a)%Z eqn:E1, (existsb (fun i => (0 <? w i)%Z) l) eqn:E2; cbn [orb];
    rewrite ?Z.ltb_lt, ?Z.ltb_ge in *; lia.
Qed.

Lemma any_ok p array role :
  wf_pop p -> length array = npersons p -> Forall (fun v => (0 <= v)%Z) array ->
  any p array role =
  Ok (map (fun g => existsb (fun i => (0 <? nth i array 0)%Z) (members_with_role p role g))
          (seq 0 (g_count p))).
Proof.
  intros W Hl Hpos. unfold any. rewrite sum_ok by assumption. cbn [bind]. f_equal.
  rewrite map_map. apply map_ext. intros g.
  apply zsum_pos_existsb. intros i _.
  destruct (Nat.lt_ge_cases i (length array)) as [Hi|Hi].
  - rewrite Forall_forall in Hpos. apply Hpos, nth_In, Hi.
  - rewrite nth_overflow by exact Hi. lia.
Qed.

(** ** project *)

Lemma project_ok p array role :
  wf_pop p -> length array = g_count p ->
  project p array role =
  Ok (map (fun i => if in_role p role i then nth (group_of p i) array 0%Z else 0%Z)
          (seq 0 (npersons p))).
Proof.
  intros W Hl. unfold project, check_size. rewrite Hl, Nat.eqb_refl. cbn [bind].
  rewrite (take_map array 0%Z) by (rewrite Hl; apply W). cbn [bind].
  destruct role as [r|]; f_equal.
  - rewrite (has_role_map p r W), (ids_map p), map_map.
    rewrite (full_as_map (npersons p) 0%Z (seq 0 (npersons p))) by apply seq_length.
    rewrite where_map. reflexivity.
  - rewrite (ids_map p) at 1. rewrite map_map. reflexivity.
Qed.
