(** Proofs about the group-population model [Group] (numpy list lemmas are in NpProofs). *)
From Coq Require Import String ZArith List Bool Arith Lia Sorting.Permutation Sorting.Sorted.
From Verif Require Import Base Np Group GroupSpec NpProofs.
Import ListNotations.
Open Scope nat_scope.

Lemma bubble_app sim c1 c2 x :
  transform_and_bubble_up sim (c1 ++ c2) x =
  bind (transform_and_bubble_up sim c1 x) (transform_and_bubble_up sim c2).
Proof.
  revert x; induction c1 as [|pr c1 IH]; intros x; cbn; [reflexivity|].
  destruct (transform sim pr x); cbn; auto.
Qed.

(** ** the arrays of a population as maps over the persons 0..n-1 *)

Lemma ids_map p : g_ids p = map (group_of p) (seq 0 (npersons p)).
Proof. unfold group_of, npersons. apply as_map. Qed.

Lemma arr_map {A} p (a : list A) d :
  length a = npersons p -> a = map (fun i => nth i a d) (seq 0 (npersons p)).
Proof. intros <-. apply as_map. Qed.

Lemma has_role_map p r :
  wf_pop p -> has_role p r = map (in_role p (Some r)) (seq 0 (npersons p)).
Proof.
  intros [_ Hl]. unfold has_role, in_role, role_of.
  rewrite (as_map (g_roles p) 0) at 1. rewrite map_map, Hl. reflexivity.
Qed.

Lemma wf_group_lt p i : wf_pop p -> i < npersons p -> group_of p i < g_count p.
Proof.
  intros [H _] Hi. rewrite Forall_forall in H. apply H. apply nth_In. exact Hi.
Qed.

Lemma wf_Forall_seq p (f : nat -> bool) :
  wf_pop p -> Forall (fun i => group_of p i < g_count p) (filter f (seq 0 (npersons p))).
Proof.
  intros W. apply Forall_filter. rewrite Forall_forall. intros i Hi. apply in_seq in Hi.
  apply wf_group_lt; [exact W|lia].
Qed.

Lemma filter_true {A} (l : list A) : filter (fun _ => true) l = l.
Proof. induction l; cbn; congruence. Qed.

Lemma members_with_role_alt p role g :
  members_with_role p role g =
  filter (fun i => group_of p i =? g) (filter (in_role p role) (seq 0 (npersons p))).
Proof. unfold members_with_role, members. apply filter_comm. Qed.

Lemma members_with_role_None p g : members_with_role p None g = members p g.
Proof. unfold members_with_role. cbn. apply filter_true. Qed.

(** ** sum, nb_persons, any *)

Lemma sum_ok p array role :
  wf_pop p -> length array = npersons p ->
  sum p array role =
  Ok (map (fun g => zsum (map (fun i => nth i array 0%Z) (members_with_role p role g)))
          (seq 0 (g_count p))).
Proof.
  intros W Hl. unfold sum, check_size. rewrite Hl, Nat.eqb_refl. cbn [bind].
  destruct role as [r|].
  - rewrite (has_role_map p r W), (ids_map p), (arr_map p array 0%Z Hl), !mask_select_map.
    rewrite bincount_maps by (apply wf_Forall_seq; exact W).
    f_equal. apply map_ext. intros g. rewrite members_with_role_alt.
    rewrite <- (arr_map p array 0%Z Hl). reflexivity.
  - rewrite (ids_map p), (arr_map p array 0%Z Hl).
    rewrite bincount_maps.
    + f_equal. apply map_ext. intros g. rewrite members_with_role_None.
      rewrite <- (arr_map p array 0%Z Hl). reflexivity.
    + rewrite <- (filter_true (seq 0 (npersons p))). apply wf_Forall_seq; exact W.
Qed.

Lemma zsum_b2z (f : nat -> bool) l :
  zsum (map (fun i => b2z (f i)) l) = Z.of_nat (length (filter f l)).
Proof.
  induction l as [|a l IH]; [reflexivity|]. cbn [map zsum fold_right filter].
  fold (zsum (map (fun i => b2z (f i)) l)). rewrite IH.
  destruct (f a); cbn [b2z length]; lia.
Qed.

Lemma nb_persons_ok p role :
  wf_pop p ->
  nb_persons p role =
  Ok (map (fun g => Z.of_nat (length (members_with_role p role g))) (seq 0 (g_count p))).
Proof.
  intros W. unfold nb_persons. destruct role as [r|].
  - rewrite sum_ok; [|exact W|].
    + f_equal. apply map_ext. intros g. rewrite members_with_role_None.
      rewrite (has_role_map p r W), map_map.
      rewrite (map_ext_in _ (fun i => b2z (in_role p (Some r) i))).
      * apply zsum_b2z.
      * intros i Hi. apply filter_In in Hi as [Hi _]. apply in_seq in Hi.
        now rewrite nth_map_seq by lia.
    + rewrite (has_role_map p r W), !map_length, seq_length. reflexivity.
  - f_equal. rewrite (ids_map p), bincount_count_maps.
    + apply map_ext. intros g. now rewrite members_with_role_None.
    + rewrite <- (filter_true (seq 0 (npersons p))). apply wf_Forall_seq; exact W.
Qed.

Lemma zsum_pos_existsb (w : nat -> Z) l :
  (forall i, In i l -> (0 <= w i)%Z) ->
  (0 <? zsum (map w l))%Z = existsb (fun i => (0 <? w i)%Z) l.
Proof.
  induction l as [|a l IH]; intros H; [reflexivity|].
  cbn [map zsum fold_right existsb]. fold (zsum (map w l)).
  assert (Ha : (0 <= w a)%Z) by (apply H; now left).
  assert (Hl : forall i, In i l -> (0 <= w i)%Z) by (intros; apply H; now right).
  specialize (IH Hl).
  assert (0 <= zsum (map w l))%Z.
  { clear IH H. induction l as [|b l IH2]; [cbn; lia|].
    cbn [map zsum fold_right]. fold (zsum (map w l)).
    assert (0 <= w b)%Z by (apply Hl; now left).
    assert (0 <= zsum (map w l))%Z by (apply IH2; intros; apply Hl; now right). lia. }
  destruct (0 <? w a)%Z eqn:E1, (existsb (fun i => (0 <? w i)%Z) l) eqn:E2; cbn [orb];
    rewrite ?Z.ltb_lt, ?Z.ltb_ge in *; lia.
Qed.

Lemma any_ok p array role :
  wf_pop p -> length array = npersons p -> Forall (fun v => (0 <= v)%Z) array ->
  any p array role =
  Ok (map (fun g => existsb (fun i => (0 <? nth i array 0)%Z) (members_with_role p role g))
          (seq 0 (g_count p))).
Proof.
  intros W Hl Hpos. unfold any. rewrite sum_ok by assumption. cbn [bind]. f_equal.
  rewrite map_map. apply map_ext. intros g.
  apply zsum_pos_existsb. intros i _.
  destruct (Nat.lt_ge_cases i (length array)) as [Hi|Hi].
  - rewrite Forall_forall in Hpos. apply Hpos, nth_In, Hi.
  - rewrite nth_overflow by exact Hi. lia.
Qed.

(** ** project *)

Lemma project_ok p array role :
  wf_pop p -> length array = g_count p ->
  project p array role =
  Ok (map (fun i => if in_role p role i then nth (group_of p i) array 0%Z else 0%Z)
          (seq 0 (npersons p))).
Proof.
  intros W Hl. unfold project, check_size. rewrite Hl, Nat.eqb_refl. cbn [bind].
  rewrite (take_map array 0%Z) by (rewrite Hl; apply W). cbn [bind].
  destruct role as [r|]; f_equal.
  - rewrite (has_role_map p r W), (ids_map p), map_map.
    rewrite (full_as_map (npersons p) 0%Z (seq 0 (npersons p))) by apply seq_length.
    rewrite where_map. reflexivity.
  - rewrite (ids_map p) at 1. rewrite map_map. reflexivity.
Qed.

(** ** members_position *)

Lemma positions_loop_length ids counter : length (positions_loop ids counter) = length ids.
Proof. revert counter; induction ids; intros c; cbn; auto. Qed.

Lemma positions_loop_nth (xi : nat -> nat) L1 i L2 counter :
  xi i < length counter ->
  nth (length L1) (positions_loop (map xi (L1 ++ i :: L2)) counter) 0 =
  nth (xi i) counter 0 + length (filter (fun j => xi j =? xi i) L1).
Proof.
  revert counter; induction L1 as [|a L1 IH]; intros counter Hi.
  - cbn. lia.
  - cbn [app map positions_loop length nth filter].
    rewrite IH by (now rewrite upd_length). rewrite nth_upd.
    destruct (xi a =? xi i) eqn:E.
    + apply Nat.eqb_eq in E. rewrite E, Nat.eqb_refl.
      apply Nat.ltb_lt in Hi. rewrite Hi. cbn [andb length]. lia.
    + rewrite Nat.eqb_sym, E. cbn [andb]. reflexivity.
Qed.

Lemma seq_split_at n i : i < n -> seq 0 n = seq 0 i ++ i :: seq (S i) (n - S i).
Proof.
  intros H. replace n with (i + S (n - S i)) at 1 by lia. rewrite seq_app. reflexivity.
Qed.

Lemma members_position_ok p :
  0 < npersons p ->
  members_position p = Ok (map (earlier_in_group p) (seq 0 (npersons p))).
Proof.
  intros Hn. unfold members_position, max_plus_one.
  destruct (g_ids p) as [|e0 t] eqn:Eids; [unfold npersons in Hn; rewrite Eids in Hn; cbn in Hn; lia|].
  rewrite <- Eids. cbn [bind]. f_equal.
  apply map_seq_ext_nth with (d := 0).
  - apply positions_loop_length.
  - intros i Hi. rewrite (ids_map p) at 1. rewrite (seq_split_at _ i Hi).
    pose proof (positions_loop_nth (group_of p) (seq 0 i) i (seq (S i) (npersons p - S i))
                  (full (S (list_max (g_ids p))) 0)) as P.
    rewrite seq_length in P. rewrite P.
    + assert (Hz : forall k n, nth k (full n 0) 0 = 0).
      { intros k n. unfold full. revert k; induction n; intros [|k]; cbn; auto. }
      rewrite Hz. reflexivity.
    + rewrite full_length. apply Nat.lt_succ_r, list_max_ge. unfold group_of. apply nth_In, Hi.
Qed.

(** ** members of a group and positions *)

Lemma in_members p g i : In i (members p g) <-> i < npersons p /\ group_of p i = g.
Proof.
  unfold members. rewrite filter_In, in_seq, Nat.eqb_eq. intuition lia.
Qed.

Lemma members_NoDup p g : NoDup (members p g).
Proof. apply NoDup_filter, seq_NoDup. Qed.

Lemma members_split p i :
  i < npersons p ->
  members p (group_of p i) =
  filter (fun j => group_of p j =? group_of p i) (seq 0 i) ++
  i :: filter (fun j => group_of p j =? group_of p i) (seq (S i) (npersons p - S i)).
Proof.
  intros Hi. unfold members. rewrite (seq_split_at _ i Hi) at 1.
  rewrite filter_app. cbn [filter]. rewrite Nat.eqb_refl. reflexivity.
Qed.

Lemma nth_pos_members p i :
  i < npersons p -> nth_error (members p (group_of p i)) (earlier_in_group p i) = Some i.
Proof.
  intros Hi. rewrite (members_split p i Hi). unfold earlier_in_group.
  rewrite nth_error_app2 by lia. rewrite Nat.sub_diag. reflexivity.
Qed.

Lemma pos_of_nth p g k i : nth_error (members p g) k = Some i -> earlier_in_group p i = k.
Proof.
  intros H. assert (Hin : In i (members p g)) by (eapply nth_error_In; eauto).
  apply in_members in Hin as [Hi Hg]. subst g.
  pose proof (nth_pos_members p i Hi) as P.
  pose proof (proj1 (NoDup_nth_error _) (members_NoDup p (group_of p i))) as ND.
  apply ND; [|congruence].
  apply nth_error_Some. congruence.
Qed.

Lemma pos_lt_size p i : i < npersons p -> earlier_in_group p i < length (members p (group_of p i)).
Proof. intros Hi. apply nth_error_Some. rewrite nth_pos_members by exact Hi. discriminate. Qed.

(** ** selecting at most one member per group through the sorted members map

    The shape shared by value_nth_person and value_from_person:
        result[group_mask] = array[members_map][sel[members_map]]
    where at most one member of each group satisfies [sel]. *)

Section Select.
  Variable p : gpop.
  Hypothesis W : wf_pop p.
  Variable mm : list nat.
  Hypothesis MM : sorting_perm_nat (g_ids p) mm.
  Variable sel : nat -> bool.
  Hypothesis sel_inj : forall i j, i < npersons p -> j < npersons p ->
    sel i = true -> sel j = true -> group_of p i = group_of p j -> i = j.

  Lemma mm_in i : In i mm <-> i < npersons p.
  Proof.
    destruct MM as [P _]. split; intros H.
    - apply (Permutation_in _ P) in H. apply in_seq in H. unfold npersons. lia.
    - apply (Permutation_in _ (Permutation_sym P)). apply in_seq. unfold npersons in H. lia.
  Qed.

  Lemma mm_NoDup : NoDup mm.
  Proof. destruct MM as [P _]. eapply Permutation_NoDup; [apply Permutation_sym, P|apply seq_NoDup]. Qed.

  Lemma mm_Forall {A} (a : list A) : length a = npersons p -> Forall (fun i => i < length a) mm.
  Proof. intros H. rewrite Forall_forall. intros i Hi. apply mm_in in Hi. lia. Qed.

  Lemma sel_groups_sorted : StronglySorted lt (map (group_of p) (filter sel mm)).
  Proof.
    apply StronglySorted_map.
    assert (S0 : StronglySorted (fun a b => group_of p a <= group_of p b) mm) by apply MM.
    pose proof mm_NoDup as ND.
    assert (IN : forall i, In i mm -> i < npersons p) by (intros; now apply mm_in).
    clear MM. induction S0 as [|a l Hs IH Hf]; cbn [filter]; [constructor|].
    inversion ND as [|? ? Hna ND']; subst.
    destruct (sel a) eqn:Ea.
    - constructor; [apply IH; [exact ND'|intros; apply IN; now right]|].
      rewrite Forall_forall in *. intros b Hb. apply filter_In in Hb as [Hb Eb].
      assert (group_of p a <= group_of p b) by auto.
      assert (group_of p a <> group_of p b).
      { intros E. apply Hna. rewrite (sel_inj a b); auto.
        - apply IN; now left.
        - apply IN; now right. }
      lia.
    - apply IH; [exact ND'|intros; apply IN; now right].
  Qed.

  Definition gsel (g : nat) : bool := existsb sel (members p g).

  Lemma sel_groups :
    map (group_of p) (filter sel mm) = filter gsel (seq 0 (g_count p)).
  Proof.
    apply sorted_lt_ext.
    - apply sel_groups_sorted.
    - apply StronglySorted_filter, StronglySorted_lt_seq.
    - intros g. rewrite in_map_iff, filter_In, in_seq. unfold gsel. rewrite existsb_exists.
      split.
      + intros (i & <- & Hi). apply filter_In in Hi as [Hi Es]. apply mm_in in Hi.
        split; [split; [lia|apply wf_group_lt; assumption]|].
        exists i. split; [apply in_members; auto|exact Es].
      + intros (_ & i & Hi & Es). apply in_members in Hi as [Hi Hg].
        exists i. split; [exact Hg|]. apply filter_In. split; [now apply mm_in|exact Es].
  Qed.

  Lemma sel_find i : In i (filter sel mm) -> find sel (members p (group_of p i)) = Some i.
  Proof.
    intros Hi. apply filter_In in Hi as [Hi Es]. apply mm_in in Hi.
    destruct (find sel (members p (group_of p i))) as [j|] eqn:F.
    - apply find_some in F as [Hj Ej]. apply in_members in Hj as [Hj Hg].
      f_equal. apply sel_inj; auto.
    - exfalso. pose proof (find_none _ _ F i) as N.
      rewrite N in Es; [discriminate|]. apply in_members; auto.
  Qed.

  (** The assignment, for any array and default. *)
  Lemma select_assign {A} (array : list A) (d : A) (mask : list bool) :
    length array = npersons p ->
    mask = map gsel (seq 0 (g_count p)) ->
    mask_assign (full (g_count p) d) mask
                (map (fun i => nth i array d) (filter sel mm)) =
    Ok (map (fun g => match find sel (members p g) with
                      | Some i => nth i array d
                      | None => d
                      end) (seq 0 (g_count p))).
  Proof.
    intros Hl ->.
    set (h := fun g => match find sel (members p g) with Some i => nth i array d | None => d end).
    assert (E : map (fun i => nth i array d) (filter sel mm) =
                map h (filter gsel (seq 0 (g_count p)))).
    { rewrite <- sel_groups, map_map. apply map_ext_in. intros i Hi.
      unfold h. now rewrite sel_find. }
    rewrite E, mask_assign_map. f_equal. apply map_ext. intros g.
    unfold h, gsel. destruct (existsb sel (members p g)) eqn:Ex; [reflexivity|].
    destruct (find sel (members p g)) as [i|] eqn:F; [|reflexivity].
    apply find_some in F as [Hi Es].
    assert (existsb sel (members p g) = true) by (apply existsb_exists; eauto). congruence.
  Qed.
End Select.

(** ** value_nth_person *)

Definition at_pos (p : gpop) (n : nat) (i : nat) : bool := earlier_in_group p i =? n.

Lemma at_pos_inj p n i j :
  i < npersons p -> j < npersons p -> at_pos p n i = true -> at_pos p n j = true ->
  group_of p i = group_of p j -> i = j.
Proof.
  unfold at_pos. intros Hi Hj Ei Ej Hg. apply Nat.eqb_eq in Ei, Ej.
  pose proof (nth_pos_members p i Hi) as Pi. pose proof (nth_pos_members p j Hj) as Pj.
  rewrite Ei in Pi. rewrite Ej, <- Hg in Pj. congruence.
Qed.

Lemma find_at_pos p n g : find (at_pos p n) (members p g) = nth_error (members p g) n.
Proof.
  destruct (nth_error (members p g) n) as [i|] eqn:E.
  - pose proof (pos_of_nth p g n i E) as Pi.
    destruct (find (at_pos p n) (members p g)) as [j|] eqn:F.
    + apply find_some in F as [Hj Ej]. apply in_members in Hj as [Hj Hg]. subst g.
      unfold at_pos in Ej. apply Nat.eqb_eq in Ej.
      pose proof (nth_pos_members p j Hj) as Pj. congruence.
    + pose proof (find_none _ _ F i (nth_error_In _ _ E)) as N.
      unfold at_pos in N. rewrite Pi, Nat.eqb_refl in N. discriminate.
  - destruct (find (at_pos p n) (members p g)) as [j|] eqn:F; [|reflexivity].
    apply find_some in F as [Hj Ej]. apply in_members in Hj as [Hj Hg]. subst g.
    unfold at_pos in Ej. apply Nat.eqb_eq in Ej.
    pose proof (nth_pos_members p j Hj) as Pj. congruence.
Qed.

Lemma existsb_at_pos p n g : existsb (at_pos p n) (members p g) = (n <? length (members p g)).
Proof.
  destruct (n <? length (members p g)) eqn:E.
  - apply Nat.ltb_lt in E. destruct (nth_error (members p g) n) as [i|] eqn:N.
    + apply existsb_exists. exists i. split; [eapply nth_error_In; eauto|].
      unfold at_pos. rewrite (pos_of_nth p g n i N). apply Nat.eqb_refl.
    + apply nth_error_None in N. lia.
  - apply Nat.ltb_ge in E. destruct (existsb (at_pos p n) (members p g)) eqn:X; [|reflexivity].
    apply existsb_exists in X as (i & Hi & Ei). apply in_members in Hi as [Hi Hg]. subst g.
    unfold at_pos in Ei. apply Nat.eqb_eq in Ei. pose proof (pos_lt_size p i Hi). lia.
Qed.

Lemma value_nth_person_ok {A} mm p n (array : list A) d :
  wf_pop p -> sorting_perm_nat (g_ids p) mm -> length array = npersons p -> 0 < npersons p ->
  value_nth_person_with mm p (Z.of_nat n) array d =
  Ok (map (fun g => match nth_error (members p g) n with
                    | Some i => nth i array d
                    | None => d
                    end) (seq 0 (g_count p))).
Proof.
  intros W MM Hl Hn. unfold value_nth_person_with, check_size.
  rewrite Hl, Nat.eqb_refl, (members_position_ok p Hn), (nb_persons_ok p None W). cbn [bind].
  rewrite (take_map array d) by (eapply mm_Forall; eauto). cbn [bind].
  rewrite (take_map _ 0) by (eapply mm_Forall; eauto; now rewrite map_length, seq_length).
  cbn [bind]. rewrite !map_map, mask_select_map.
  rewrite (filter_ext_in _ (at_pos p n)).
  2:{ intros i Hi. apply (mm_in p mm MM) in Hi. rewrite nth_map_seq by exact Hi.
      unfold at_pos. destruct (Nat.eqb_spec (earlier_in_group p i) n) as [->|Ne].
      - apply Z.eqb_refl.
      - apply Z.eqb_neq. lia. }
  rewrite (select_assign p W mm MM (at_pos p n) (at_pos_inj p n) array d); [|exact Hl|].
  2:{ apply map_ext. intros g. unfold gsel. rewrite existsb_at_pos, members_with_role_None.
      destruct (Nat.ltb_spec n (length (members p g))); [apply Z.ltb_lt|apply Z.ltb_ge]; lia. }
  f_equal. apply map_ext. intros g. now rewrite find_at_pos.
Qed.

(** ** value_from_person *)

Lemma existsb_ext_in {A} (f g : A -> bool) l :
  (forall x, In x l -> f x = g x) -> existsb f l = existsb g l.
Proof.
  induction l as [|a l IH]; intros H; [reflexivity|]. cbn.
  rewrite (H a) by now left. rewrite IH; [reflexivity|]. intros; apply H; now right.
Qed.

Lemma find_hd_filter {A} (f : A -> bool) l : find f l = hd_error (filter f l).
Proof. induction l as [|a l IH]; [reflexivity|]. cbn. destruct (f a); [reflexivity|exact IH]. Qed.

Lemma le1_eq {A} (l : list A) a b : length l <= 1 -> In a l -> In b l -> a = b.
Proof.
  destruct l as [|x [|y l]]; cbn; try tauto; try lia.
  intros _ [<-|[]] [<-|[]]. reflexivity.
Qed.

Lemma in_role_inj p r :
  wf_pop p -> role_unique_in p r ->
  forall i j, i < npersons p -> j < npersons p ->
    in_role p (Some r) i = true -> in_role p (Some r) j = true ->
    group_of p i = group_of p j -> i = j.
Proof.
  intros W U i j Hi Hj Ei Ej Hg.
  apply (le1_eq (members_with_role p (Some r) (group_of p i))).
  - apply U. apply wf_group_lt; assumption.
  - apply filter_In. split; [apply in_members; auto|exact Ei].
  - apply filter_In. split; [apply in_members; auto|exact Ej].
Qed.

Lemma value_from_person_ok {A} mm p (array : list A) r d :
  wf_pop p -> sorting_perm_nat (g_ids p) mm -> length array = npersons p ->
  role_max (g_entity p) r = Some 1 -> role_unique_in p r ->
  value_from_person_with mm p array r d =
  Ok (map (fun g => match members_with_role p (Some r) g with
                    | [i] => nth i array d
                    | _ => d
                    end) (seq 0 (g_count p))).
Proof.
  intros W MM Hl Hmax U. unfold value_from_person_with, check_size.
  rewrite Hmax, Hl, Nat.eqb_refl. cbn [bind].
  rewrite (has_role_map p r W).
  rewrite any_ok; [|exact W|now rewrite !map_length, seq_length|].
  2:{ rewrite Forall_forall. intros v Hv. apply in_map_iff in Hv as (b & <- & _). destruct b; cbn; lia. }
  cbn [bind].
  rewrite (take_map array d) by (eapply mm_Forall; eauto). cbn [bind].
  rewrite (take_map _ false) by (eapply mm_Forall; eauto; now rewrite map_length, seq_length).
  cbn [bind]. rewrite mask_select_map.
  rewrite (filter_ext_in _ (in_role p (Some r))).
  2:{ intros i Hi. apply (mm_in p mm MM) in Hi. now rewrite nth_map_seq by exact Hi. }
  rewrite (select_assign p W mm MM (in_role p (Some r)) (in_role_inj p r W U) array d); [|exact Hl|].
  2:{ apply map_ext. intros g. unfold gsel. rewrite members_with_role_None.
      apply existsb_ext_in. intros i Hi. apply in_members in Hi as [Hi _].
      rewrite map_map, nth_map_seq by exact Hi. now destruct (in_role p (Some r) i). }
  f_equal. apply map_ext_in. intros g Hg. apply in_seq in Hg.
  rewrite find_hd_filter. fold (members_with_role p (Some r) g).
  pose proof (U g ltac:(lia)) as Ug.
  destruct (members_with_role p (Some r) g) as [|x [|y l]]; cbn in *; try reflexivity. lia.
Qed.

(** ** reduce: all / max / min *)

Lemma zip_with_map {A} (f : A -> A -> A) (a b : nat -> A) L :
  zip_with f (map a L) (map b L) = map (fun g => f (a g) (b g)) L.
Proof. induction L; cbn; congruence. Qed.

Lemma fold_left_ext_in {A B} (F G : A -> B -> A) l a0 :
  (forall a k, In k l -> F a k = G a k) -> fold_left F l a0 = fold_left G l a0.
Proof.
  revert a0; induction l as [|x l IH]; intros a0 H; [reflexivity|]. cbn.
  rewrite (H a0 x) by now left. apply IH. intros; apply H; now right.
Qed.

Lemma fold_left_const {A B} (l : list B) (a0 : A) : fold_left (fun a _ => a) l a0 = a0.
Proof. induction l; cbn; auto. Qed.

Lemma fold_nth_error_gen {A} (f : A -> A -> A) (h : nat -> A) neutral (l : list nat) s a0 :
  fold_left (fun a k => f a (match nth_error l (k - s) with Some i => h i | None => neutral end))
            (seq s (length l)) a0 =
  fold_left (fun a i => f a (h i)) l a0.
Proof.
  revert s a0; induction l as [|x l IH]; intros s a0; [reflexivity|].
  cbn [length seq fold_left]. rewrite Nat.sub_diag. cbn [nth_error].
  rewrite <- (IH (S s)). apply fold_left_ext_in. intros a k Hk. apply in_seq in Hk.
  replace (k - s) with (S (k - S s)) by lia. reflexivity.
Qed.

Lemma fold_filter_neutral {A} (f : A -> A -> A) neutral (c : nat -> bool) (h : nat -> A) l a0 :
  (forall x, f x neutral = x) ->
  fold_left (fun a i => f a (if c i then h i else neutral)) l a0 =
  fold_left (fun a i => f a (h i)) (filter c l) a0.
Proof.
  intros N. revert a0; induction l as [|x l IH]; intros a0; [reflexivity|].
  cbn [fold_left filter]. destruct (c x); cbn [fold_left]; [apply IH|]. rewrite N. apply IH.
Qed.

Lemma members_size_le_maxpos p g :
  length (members p g) <= S (list_max (map (earlier_in_group p) (seq 0 (npersons p)))).
Proof.
  destruct (length (members p g)) as [|m] eqn:E; [lia|].
  destruct (nth_error (members p g) m) as [i|] eqn:N.
  - pose proof (pos_of_nth p g m i N) as P.
    assert (Hi : In i (members p g)) by (eapply nth_error_In; eauto).
    apply in_members in Hi as [Hi _].
    apply le_n_S. rewrite <- P. apply list_max_ge. apply in_map. apply in_seq. lia.
  - apply nth_error_None in N. lia.
Qed.

Lemma reduce_ok {A} mm p (array : list A) (f : A -> A -> A) neutral role :
  wf_pop p -> sorting_perm_nat (g_ids p) mm -> length array = npersons p -> 0 < npersons p ->
  (forall x, f x neutral = x) ->
  reduce_with mm p array f neutral role =
  Ok (map (fun g => fold_left (fun acc i => f acc (nth i array neutral))
                              (members_with_role p role g) neutral)
          (seq 0 (g_count p))).
Proof.
  intros W MM Hl Hn Neu. unfold reduce_with, check_size.
  rewrite Hl, Nat.eqb_refl, (members_position_ok p Hn). cbn [bind].
  set (POS := map (earlier_in_group p) (seq 0 (npersons p))).
  assert (HB : max_plus_one POS = Ok (S (list_max POS))).
  { unfold max_plus_one, POS. destruct (npersons p) as [|n]; [lia|]. reflexivity. }
  rewrite HB. cbn [bind].
  set (fa := fun i => if in_role p role i then nth i array neutral else neutral).
  set (FA := match role with Some r => where_ _ _ _ | None => array end).
  assert (HFA : FA = map fa (seq 0 (npersons p))).
  { unfold FA, fa. destruct role as [r|].
    - rewrite (has_role_map p r W). rewrite (arr_map p array neutral Hl) at 1.
      rewrite (full_as_map (npersons p) neutral (seq 0 (npersons p))) by apply seq_length.
      now rewrite where_map.
    - cbn. apply arr_map, Hl. }
  clearbody FA. subst FA.
  set (V := fun k g => match nth_error (members p g) k with Some i => fa i | None => neutral end).
  assert (HV : forall k, value_nth_person_with mm p (Z.of_nat k) (map fa (seq 0 (npersons p))) neutral
                         = Ok (map (V k) (seq 0 (g_count p)))).
  { intros k. rewrite value_nth_person_ok; try assumption; [|now rewrite map_length, seq_length].
    f_equal. apply map_ext. intros g. unfold V.
    destruct (nth_error (members p g) k) as [i|] eqn:N; [|reflexivity].
    apply nth_error_In, in_members in N as [Hi _]. now rewrite nth_map_seq. }
  assert (FOLD : forall ks r0,
    fold_left (fun acc k => bind acc (fun result =>
                 bind (value_nth_person_with mm p (Z.of_nat k) (map fa (seq 0 (npersons p))) neutral)
                      (fun values => Ok (zip_with f result values))))
              ks (Ok (map r0 (seq 0 (g_count p)))) =
    Ok (map (fun g => fold_left (fun a k => f a (V k g)) ks (r0 g)) (seq 0 (g_count p)))).
  { induction ks as [|k ks IH]; intros r0; [reflexivity|].
    cbn [fold_left bind]. rewrite HV. cbn [bind]. rewrite zip_with_map. apply IH. }
  rewrite (full_as_map (g_count p) neutral (seq 0 (g_count p))) by apply seq_length.
  rewrite FOLD. f_equal. apply map_ext. intros g.
  pose proof (members_size_le_maxpos p g) as LE. fold POS in LE.
  replace (S (list_max POS)) with (length (members p g) + (S (list_max POS) - length (members p g))) by lia.
  rewrite seq_app, fold_left_app. cbn [plus].
  rewrite (fold_left_ext_in _ (fun a _ => a) (seq (length (members p g)) _)).
  2:{ intros a k Hk. apply in_seq in Hk. unfold V.
      destruct (nth_error (members p g) k) eqn:N; [|apply Neu].
      assert (k < length (members p g)) by (apply nth_error_Some; congruence). lia. }
  rewrite fold_left_const.
  pose proof (fold_nth_error_gen f fa neutral (members p g) 0 neutral) as F0.
  rewrite (fold_left_ext_in _ (fun a k => f a (V k g))) in F0
    by (intros a k _; unfold V; now rewrite Nat.sub_0_r).
  rewrite F0. unfold fa, members_with_role. apply fold_filter_neutral, Neu.
Qed.

Lemma fold_left_map {A B C} (F : A -> B -> A) (h : C -> B) l a0 :
  fold_left F (map h l) a0 = fold_left (fun a x => F a (h x)) l a0.
Proof. revert a0; induction l; intros a0; cbn; auto. Qed.

Lemma fold_andb_forallb {B} (c : B -> bool) l a :
  fold_left (fun acc i => acc && c i) l a = a && forallb c l.
Proof.
  revert a; induction l as [|x l IH]; intros a; cbn; [now rewrite andb_true_r|].
  rewrite IH. now rewrite andb_assoc.
Qed.

Lemma mwr_lt p role g i : In i (members_with_role p role g) -> i < npersons p.
Proof. intros H. apply filter_In in H as [H _]. now apply in_members in H. Qed.

Lemma all_ok mm p array role :
  wf_pop p -> sorting_perm_nat (g_ids p) mm -> length array = npersons p -> 0 < npersons p ->
  all_with mm p array role =
  Ok (map (fun g => forallb (fun i => truthy (nth i array 0%Z)) (members_with_role p role g))
          (seq 0 (g_count p))).
Proof.
  intros W MM Hl Hn. unfold all_with.
  rewrite reduce_ok; try assumption; [|now rewrite map_length|apply andb_true_r].
  f_equal. apply map_ext. intros g.
  rewrite (fold_left_ext_in _ (fun acc i => acc && truthy (nth i array 0%Z))).
  - now rewrite fold_andb_forallb.
  - intros a i Hi. apply mwr_lt in Hi. f_equal.
    rewrite nth_indep with (d' := truthy 0%Z) by (rewrite map_length; lia).
    apply (map_nth truthy).
Qed.

Lemma ext_max_neutral x : ext_max x NInf = x.
Proof. destruct x; reflexivity. Qed.
Lemma ext_min_neutral x : ext_min x PInf = x.
Proof. destruct x; reflexivity. Qed.

Lemma nth_map_Fin array i d : i < length array -> nth i (map Fin array) d = Fin (nth i array 0%Z).
Proof.
  intros H. rewrite nth_indep with (d' := Fin 0%Z) by (now rewrite map_length). apply (map_nth Fin).
Qed.

Lemma max_ok mm p array role :
  wf_pop p -> sorting_perm_nat (g_ids p) mm -> length array = npersons p -> 0 < npersons p ->
  max_with mm p array role =
  Ok (map (fun g => ext_max_list (map (fun i => nth i array 0%Z) (members_with_role p role g)))
          (seq 0 (g_count p))).
Proof.
  intros W MM Hl Hn. unfold max_with.
  rewrite reduce_ok; try assumption; [|now rewrite map_length|apply ext_max_neutral].
  f_equal. apply map_ext. intros g. unfold ext_max_list. rewrite fold_left_map.
  apply fold_left_ext_in. intros a i Hi. apply mwr_lt in Hi. now rewrite nth_map_Fin by lia.
Qed.

Lemma min_ok mm p array role :
  wf_pop p -> sorting_perm_nat (g_ids p) mm -> length array = npersons p -> 0 < npersons p ->
  min_with mm p array role =
  Ok (map (fun g => ext_min_list (map (fun i => nth i array 0%Z) (members_with_role p role g)))
          (seq 0 (g_count p))).
Proof.
  intros W MM Hl Hn. unfold min_with.
  rewrite reduce_ok; try assumption; [|now rewrite map_length|apply ext_min_neutral].
  f_equal. apply map_ext. intros g. unfold ext_min_list. rewrite fold_left_map.
  apply fold_left_ext_in. intros a i Hi. apply mwr_lt in Hi. now rewrite nth_map_Fin by lia.
Qed.

(** [ext_min_list] / [ext_max_list] are the greatest lower / least upper bound, attained
    on a non-empty list, and the neutral element on the empty one (independently of the
    order in which the fold visits the members). *)
Lemma fold_zmin_spec l a :
  (fold_left Z.min l a = a \/ In (fold_left Z.min l a) l) /\ (fold_left Z.min l a <= a)%Z /\
  forall w, In w l -> (fold_left Z.min l a <= w)%Z.
Proof.
  revert a; induction l as [|x l IH]; intros a; cbn [fold_left In].
  - repeat split; [now left|lia|tauto].
  - destruct (IH (Z.min a x)) as (H1 & H2 & H3). repeat split.
    + destruct H1 as [H1|H1]; [|right; right; exact H1].
      destruct (Z.min_spec a x) as [[_ E]|[_ E]]; rewrite E in *; [now left|right; left; congruence].
    + lia.
    + intros w [<-|Hw]; [lia|auto].
Qed.

Lemma fold_zmax_spec l a :
  (fold_left Z.max l a = a \/ In (fold_left Z.max l a) l) /\ (a <= fold_left Z.max l a)%Z /\
  forall w, In w l -> (w <= fold_left Z.max l a)%Z.
Proof.
  revert a; induction l as [|x l IH]; intros a; cbn [fold_left In].
  - repeat split; [now left|lia|tauto].
  - destruct (IH (Z.max a x)) as (H1 & H2 & H3). repeat split.
    + destruct H1 as [H1|H1]; [|right; right; exact H1].
      destruct (Z.max_spec a x) as [[_ E]|[_ E]]; rewrite E in *; [right; left; congruence|now left].
    + lia.
    + intros w [<-|Hw]; [lia|auto].
Qed.

Lemma fold_min_fin l a :
  fold_left (fun acc v => ext_min acc (Fin v)) l (Fin a) = Fin (fold_left Z.min l a).
Proof.
  revert a; induction l as [|x l IH]; intros a; [reflexivity|]. cbn [fold_left].
  unfold ext_min at 2. cbn [ext_leb]. destruct (Z.leb_spec a x).
  - rewrite IH. now rewrite Z.min_l by lia.
  - rewrite IH. now rewrite Z.min_r by lia.
Qed.

Lemma fold_max_fin l a :
  fold_left (fun acc v => ext_max acc (Fin v)) l (Fin a) = Fin (fold_left Z.max l a).
Proof.
  revert a; induction l as [|x l IH]; intros a; [reflexivity|]. cbn [fold_left].
  unfold ext_max at 2. cbn [ext_leb]. destruct (Z.leb_spec a x).
  - rewrite IH. now rewrite Z.max_r by lia.
  - rewrite IH. now rewrite Z.max_l by lia.
Qed.

Lemma ext_min_list_glb l :
  match l with
  | [] => ext_min_list l = PInf
  | _ => exists m, ext_min_list l = Fin m /\ In m l /\ forall w, In w l -> (m <= w)%Z
  end.
Proof.
  destruct l as [|x l]; [reflexivity|]. unfold ext_min_list. cbn [fold_left].
  change (ext_min PInf (Fin x)) with (Fin x). rewrite fold_min_fin.
  destruct (fold_zmin_spec l x) as (H1 & H2 & H3).
  eexists; split; [reflexivity|]. split.
  - destruct H1 as [->|H1]; [now left|now right].
  - intros w [<-|Hw]; auto.
Qed.

Lemma ext_max_list_lub l :
  match l with
  | [] => ext_max_list l = NInf
  | _ => exists m, ext_max_list l = Fin m /\ In m l /\ forall w, In w l -> (w <= m)%Z
  end.
Proof.
  destruct l as [|x l]; [reflexivity|]. unfold ext_max_list. cbn [fold_left].
  change (ext_max NInf (Fin x)) with (Fin x). rewrite fold_max_fin.
  destruct (fold_zmax_spec l x) as (H1 & H2 & H3).
  eexists; split; [reflexivity|]. split.
  - destruct H1 as [->|H1]; [now left|now right].
  - intros w [<-|Hw]; auto.
Qed.

(** ** projector chains *)

Lemma gpfs_shape sim pop s parent :
  get_projector_from_shortcut sim pop s parent =
    match get_projector_from_shortcut sim pop s [] with
    | Some c => Some (c ++ parent)
    | None => None
    end /\
  get_projector_from_shortcut sim pop s [] <> Some [].
Proof.
  unfold get_projector_from_shortcut. destruct pop as [|k].
  - destruct (find_pop sim s); split; try reflexivity; discriminate.
  - destruct (String.eqb s "first_person"); [split; [reflexivity|discriminate]|].
    destruct (nth_error (s_groups sim) k) as [p|]; [|split; [reflexivity|discriminate]].
    destruct (find_role (e_roles (g_entity p)) s (Some 1)); [split; [reflexivity|discriminate]|].
    destruct (existsb (String.eqb s) (e_containing (g_entity p))); [|split; [reflexivity|discriminate]].
    destruct (find_pop sim s); split; try reflexivity; discriminate.
Qed.

Lemma resolve_chain sim path : forall cur chain,
  resolve sim cur path chain =
  match resolve sim cur path [] with
  | Ok (c, e) => Ok (c ++ chain, e)
  | Err e => Err e
  end.
Proof.
  induction path as [|s rest IH]; intros cur chain; [reflexivity|].
  cbn [resolve]. destruct (gpfs_shape sim cur s chain) as [E NE]. rewrite E.
  destruct (get_projector_from_shortcut sim cur s []) as [[|pr ch]|]; [congruence| |reflexivity].
  cbn [app]. rewrite (IH _ (pr :: ch ++ chain)), (IH _ (pr :: ch)).
  destruct (resolve sim (reference_entity pr) rest []) as [[c e]|e]; [|reflexivity].
  now rewrite <- app_assoc.
Qed.

Lemma resolve_app sim path1 path2 : forall cur chain,
  resolve sim cur (path1 ++ path2) chain =
  bind (resolve sim cur path1 chain) (fun ce => resolve sim (snd ce) path2 (fst ce)).
Proof.
  induction path1 as [|s rest IH]; intros cur chain; [reflexivity|].
  cbn [app resolve]. destruct (get_projector_from_shortcut sim cur s chain) as [[|pr ch]|]; try reflexivity.
  apply IH.
Qed.

Lemma chain_composition sim start path1 path2 c1 mid c2 last :
  resolve sim start path1 [] = Ok (c1, mid) ->
  resolve sim mid path2 [] = Ok (c2, last) ->
  resolve sim start (path1 ++ path2) [] = Ok (c2 ++ c1, last) /\
  forall x, transform_and_bubble_up sim (c2 ++ c1) x =
            bind (transform_and_bubble_up sim c2 x) (transform_and_bubble_up sim c1).
Proof.
  intros R1 R2. split; [|intros x; apply bubble_app].
  rewrite resolve_app, R1. cbn [bind fst snd]. rewrite resolve_chain, R2. reflexivity.
Qed.

(** ** every group-level result has one element per group *)

Lemma bind_ok_inv {A B} (r : res A) (f : A -> res B) y :
  bind r f = Ok y -> exists x, r = Ok x /\ f x = Ok y.
Proof. destruct r; cbn; [eauto|discriminate]. Qed.

Lemma mask_assign_loop_length {A} (result : list A) mask vals :
  length (mask_assign_loop result mask vals) = length result.
Proof.
  revert mask vals; induction result as [|r result IH]; intros [|m mask] vals; cbn; auto.
  destruct m; [destruct vals|]; cbn; now rewrite IH.
Qed.

Lemma mask_assign_length {A} (result : list A) mask vals out :
  mask_assign result mask vals = Ok out -> length out = length result.
Proof.
  unfold mask_assign. destruct (negb _); [discriminate|].
  destruct (length vals =? count_true mask).
  - intros [= <-]. apply mask_assign_loop_length.
  - destruct vals as [|v [|? ?]]; try discriminate. intros [= <-]. apply mask_assign_loop_length.
Qed.

Lemma value_nth_person_length {A} mm p n (array : list A) d out :
  value_nth_person_with mm p n array d = Ok out -> length out = g_count p.
Proof.
  unfold value_nth_person_with. intros H.
  repeat (apply bind_ok_inv in H as (? & _ & H)).
  apply mask_assign_length in H. now rewrite full_length in H.
Qed.

Lemma value_from_person_length {A} mm p (array : list A) r d out :
  value_from_person_with mm p array r d = Ok out -> length out = g_count p.
Proof.
  unfold value_from_person_with. destruct (role_max (g_entity p) r) as [[|[|?]]|]; try discriminate.
  intros H. repeat (apply bind_ok_inv in H as (? & _ & H)).
  apply mask_assign_length in H. now rewrite full_length in H.
Qed.

Lemma empty_positions_err p : npersons p = 0 -> members_position p = Err EValue.
Proof.
  unfold npersons, members_position. destruct (g_ids p); [reflexivity|discriminate].
Qed.

Lemma reduce_empty_err {A} mm p (array : list A) f neutral role :
  npersons p = 0 -> exists e, reduce_with mm p array f neutral role = Err e.
Proof.
  intros H. unfold reduce_with. destruct (check_size (npersons p) array); cbn [bind]; [|eauto].
  rewrite (empty_positions_err p H). cbn. eauto.
Qed.

Lemma lengths_ok p mm array role :
  wf_pop p -> sorting_perm_nat (g_ids p) mm -> length array = npersons p ->
  (forall out, sum p array role = Ok out -> length out = g_count p) /\
  (forall out, any p array role = Ok out -> length out = g_count p) /\
  (forall out, nb_persons p role = Ok out -> length out = g_count p) /\
  (forall out, all_with mm p array role = Ok out -> length out = g_count p) /\
  (forall out, max_with mm p array role = Ok out -> length out = g_count p) /\
  (forall out, min_with mm p array role = Ok out -> length out = g_count p) /\
  (forall n d out, value_nth_person_with mm p n array d = Ok out -> length out = g_count p) /\
  (forall out, value_from_first_person_with mm p array = Ok out -> length out = g_count p) /\
  (forall r d out, value_from_person_with mm p array r d = Ok out -> length out = g_count p).
Proof.
  intros W MM Hl.
  assert (Hmap : forall {B} (F : nat -> B), length (map F (seq 0 (g_count p))) = g_count p)
    by (intros; now rewrite map_length, seq_length).
  assert (Hred : forall {B} (arr : list B) f neutral out,
            length arr = npersons p -> (forall x, f x neutral = x) ->
            reduce_with mm p arr f neutral role = Ok out -> length out = g_count p).
  { intros B arr f neutral out Ha Hneu H.
    destruct (Nat.eq_dec (npersons p) 0) as [Z|NZ].
    - destruct (reduce_empty_err mm p arr f neutral role Z) as [e E]. congruence.
    - rewrite reduce_ok in H; try assumption; [|lia]. injection H as <-. apply Hmap. }
  repeat split.
  - intros out H. rewrite sum_ok in H by assumption. injection H as <-. apply Hmap.
  - intros out H. unfold any in H. rewrite sum_ok in H by assumption. cbn in H. injection H as <-.
    rewrite map_length. apply Hmap.
  - intros out H. rewrite nb_persons_ok in H by assumption. injection H as <-. apply Hmap.
  - intros out. apply Hred; [now rewrite map_length|apply andb_true_r].
  - intros out. apply Hred; [now rewrite map_length|apply ext_max_neutral].
  - intros out. apply Hred; [now rewrite map_length|apply ext_min_neutral].
  - intros n d out. apply value_nth_person_length.
  - intros out. apply value_nth_person_length.
  - intros r d out. apply value_from_person_length.
Qed.

(** The un-suffixed functions (the ones the correspondence runs) are the instances at the
    stable argsort, which is one of the sorting permutations. *)
Lemma ordered_members_map_sorting p : sorting_perm_nat (g_ids p) (ordered_members_map p).
Proof. apply argsort_nat_sorting. Qed.
