(** Proofs about the group-population model [Group] and the numpy list models [Np]. *)
From Coq Require Import String ZArith List Bool Arith Lia Sorting.Permutation Sorting.Sorted.
From Verif Require Import Base Np Group.
Import ListNotations.
Open Scope nat_scope.

Lemma bubble_app sim c1 c2 x :
  transform_and_bubble_up sim (c1 ++ c2) x =
  bind (transform_and_bubble_up sim c1 x) (transform_and_bubble_up sim c2).
Proof.
  revert x; induction c1 as [|pr c1 IH]; intros x; cbn; [reflexivity|].
  destruct (transform sim pr x); cbn; auto.
Qed.
