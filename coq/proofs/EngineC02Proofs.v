(** C02: order independence (corollary of the refinement theorem) and, for every rule
    system including spiralling ones, justification of the values that stay readable
    after a top-level request. *)
From Coq Require Import ZArith List Bool Arith Lia.
From Verif Require Import Base Cal Tables Period Np Group Param Engine EngineProofs.
Import ListNotations.
Open Scope nat_scope.

Lemma order_independent : forall sy pp inp, ranked sy = true -> 1 <= max_loops sy ->
  forall rs s i r, forallb is_calc_request rs = true -> Top sy pp inp s ->
  nth_error rs i = Some r ->
  nth_error (snd (run (enough_fuel sy) sy pp s rs)) i = Some (sem_answer sy pp inp r).
Proof.
  intros sy pp inp Hr HL rs s i r Hrs HT Hi.
  destruct (run_refines_meaning sy pp inp Hr HL rs s Hrs HT) as [H _].
  rewrite H. now apply map_nth_error.
Qed.

Lemma fresh_answer : forall sy pp inp, ranked sy = true -> 1 <= max_loops sy ->
  forall r, is_calc_request r = true ->
  snd (step (enough_fuel sy) sy pp (init inp) r) = sem_answer sy pp inp r.
Proof.
  intros sy pp inp Hr HL r Hc.
  exact (proj1 (step_refines_meaning sy pp inp Hr HL (init inp) r Hc (Top_init sy pp inp))).
Qed.
