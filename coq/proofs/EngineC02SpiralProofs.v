(** C02, sentence 2 (every rule system, spirals included): basic facts about the machine.

    - marks are top segments of the stack ([spiral_marks_app_stop/_go], [spiral_marks_incl]);
    - [invalid] only grows while the stack is not empty, the stack is restored
      ([calc_frame]);
    - frames in progress are not stored; entries are never overwritten during a run and
      a mark is only ever put on a key that has no entry (or is marked already)
      ([calc_T]). *)
From Coq Require Import ZArith List Bool Arith Lia.
From Verif Require Import Base Cal Tables Period Np Group Param Engine EngineProofs EngineC02Gen.
Import ListNotations.
Open Scope nat_scope.

(** * Lists, lookup *)

Lemma existsb_key_in k l : existsb (key_eqb k) l = true <-> In k l.
Proof.
  rewrite existsb_exists. split.
  - intros (k' & Hin & He). apply key_eqb_iff in He. now subst.
  - intro H. exists k. split; auto. apply key_eqb_refl.
Qed.

Lemma existsb_key_notin k l : existsb (key_eqb k) l = false <-> ~ In k l.
Proof.
  rewrite <- existsb_key_in. destruct (existsb (key_eqb k) l); split; intro H; auto; try discriminate.
  now destruct H.
Qed.

Lemma lookup_filter_key (g : key -> bool) k c :
  lookup k (filter (fun kv => g (fst kv)) c) = if g k then lookup k c else None.
Proof.
  unfold lookup. induction c as [|[k1 a1] c IH]; cbn [filter find fst]; [now destruct (g k)|].
  destruct (g k1) eqn:Eg; cbn [find fst].
  - destruct (key_eqb k k1) eqn:Ek.
    + apply key_eqb_iff in Ek. subst k1. now rewrite Eg.
    + exact IH.
  - destruct (key_eqb k k1) eqn:Ek.
    + apply key_eqb_iff in Ek. subst k1. rewrite Eg in IH. rewrite IH. now rewrite Eg.
    + exact IH.
Qed.

Lemma lookup_put_in_cache x v p a s k :
  lookup k (cache (put_in_cache x v p a s)) =
  if v_nostore x then lookup k (cache s)
  else if key_eqb k (v, norm x p) then Some a else lookup k (cache s).
Proof. unfold put_in_cache. destruct (v_nostore x); auto. apply lookup_put. Qed.

Lemma invalid_put_in_cache x v p a s : invalid (put_in_cache x v p a s) = invalid s.
Proof. unfold put_in_cache. destruct (v_nostore x); reflexivity. Qed.

Lemma stack_put_in_cache' x v p a s : stack (put_in_cache x v p a s) = stack s.
Proof. unfold put_in_cache. destruct (v_nostore x); reflexivity. Qed.

Lemma purge_nonempty sy s : stack s <> [] -> purge sy s = s.
Proof. unfold purge. destruct (stack s); [congruence|reflexivity]. Qed.

(** * No eternal variable: the storage key of a frame is the frame *)

Definition no_eternal (sy : sys) : Prop :=
  forallb (fun x => negb (unit_eqb (v_unit x) Eternity)) (vars sy) = true.

Lemma norm_id sy v x p : no_eternal sy -> nth_error (vars sy) v = Some x -> norm x p = p.
Proof.
  intros H Hn. unfold no_eternal in H. rewrite forallb_forall in H.
  specialize (H x (nth_error_In _ _ Hn)). unfold norm.
  destruct (unit_eqb (v_unit x) Eternity); [discriminate|reflexivity].
Qed.

Lemma norm_dated x p : unit_eqb (v_unit x) Eternity = false -> norm x p = p.
Proof. intro H. unfold norm. now rewrite H. Qed.

(** Eternal variables, if any, are leaves: they carry no formula (and at least one spiral
    loop is allowed, so that a leaf is never cut).  Implied by [no_eternal]. *)
Definition leafy (sy : sys) : Prop := forall v x, nth_error (vars sy) v = Some x ->
  unit_eqb (v_unit x) Eternity = true -> v_formulas x = [] /\ 1 <= max_loops sy.

(** keys that do not belong to an eternal variable *)
Definition dated_keys (sy : sys) (l : list key) : Prop := forall k x, In k l ->
  nth_error (vars sy) (fst k) = Some x -> unit_eqb (v_unit x) Eternity = false.

Lemma no_eternal_leafy sy : no_eternal sy -> leafy sy.
Proof.
  intros H v x Ex Eu. unfold no_eternal in H. rewrite forallb_forall in H.
  specialize (H x (nth_error_In _ _ Ex)). rewrite Eu in H. discriminate.
Qed.

Lemma no_eternal_dated sy l : no_eternal sy -> dated_keys sy l.
Proof.
  intros H k x _ Ex. unfold no_eternal in H. rewrite forallb_forall in H.
  specialize (H x (nth_error_In _ _ Ex)). now apply negb_true_iff in H.
Qed.

Lemma dated_keys_app sy l1 l2 : dated_keys sy l1 -> dated_keys sy l2 -> dated_keys sy (l1 ++ l2).
Proof. intros H1 H2 k x Hk. apply in_app_or in Hk as [Hk|Hk]; eauto. Qed.

Lemma dated_keys_incl sy l1 l2 : incl l1 l2 -> dated_keys sy l2 -> dated_keys sy l1.
Proof. intros Hi H k x Hk. eauto. Qed.

(** * Marks are top segments *)

Lemma prev_periods_app v a b : prev_periods v (a ++ b) = prev_periods v a ++ prev_periods v b.
Proof. unfold prev_periods. now rewrite filter_app, map_app. Qed.

Lemma prev_periods_cons_same v p stk : prev_periods v ((v, p) :: stk) = p :: prev_periods v stk.
Proof. unfold prev_periods. cbn [filter fst]. now rewrite Nat.eqb_refl. Qed.

Lemma spiral_marks_incl L v : forall stk c, incl (spiral_marks L v c stk) stk.
Proof.
  induction stk as [|k r IH]; intros c; cbn [spiral_marks]; [apply incl_refl|].
  apply incl_cons; [now left|]. apply incl_tl.
  destruct (Nat.eqb (fst k) v); [destruct (Nat.ltb L (S c))|]; auto. apply incl_nil_l.
Qed.

(** the walk stops inside [up]: what lies below is irrelevant *)
Lemma spiral_marks_app_stop L v low : forall up c, c <= L ->
  L < c + length (prev_periods v up) ->
  spiral_marks L v c (up ++ low) = spiral_marks L v c up.
Proof.
  induction up as [|k r IH]; intros c Hc H; cbn [app spiral_marks].
  - cbn in H. lia.
  - unfold prev_periods in H. cbn [filter] in H. f_equal.
    destruct (Nat.eqb (fst k) v) eqn:E.
    + cbn [map length] in H. destruct (Nat.ltb_spec L (S c)); [reflexivity|].
      apply IH; [lia|]. unfold prev_periods. lia.
    + apply IH; auto.
Qed.

(** the walk does not stop inside [up]: all of [up] is marked *)
Lemma spiral_marks_app_go L v low : forall up c,
  c + length (prev_periods v up) <= L ->
  spiral_marks L v c (up ++ low) = up ++ spiral_marks L v (c + length (prev_periods v up)) low.
Proof.
  induction up as [|k r IH]; intros c H; cbn [app spiral_marks].
  - cbn. now rewrite Nat.add_0_r.
  - unfold prev_periods in H |- *. cbn [filter] in H |- *. f_equal.
    destruct (Nat.eqb (fst k) v) eqn:E.
    + cbn [map length] in H |- *. destruct (Nat.ltb_spec L (S c)); [lia|].
      rewrite (IH (S c)); [|unfold prev_periods; lia].
      unfold prev_periods. do 2 f_equal. lia.
    + apply IH; auto.
Qed.

Lemma not_cycle_not_in v p stk :
  existsb (period_eqb p) (prev_periods v stk) = false -> ~ In (v, p) stk.
Proof.
  intros H Hin. rewrite (existsb_period_in p _ (prev_periods_in v p _ Hin)) in H. discriminate.
Qed.

(** a leaf is never below another frame of its variable *)
Lemma prev_nil_eternal sy v x stk : nth_error (vars sy) v = Some x ->
  unit_eqb (v_unit x) Eternity = true -> dated_keys sy stk -> prev_periods v stk = [].
Proof.
  intros Ex Eu. unfold prev_periods. induction stk as [|k r IH]; intro Hd; cbn [filter map]; auto.
  destruct (Nat.eqb_spec (fst k) v) as [E|E].
  - exfalso. assert (Hk : In k (k :: r)) by now left. rewrite <- E in Ex.
    specialize (Hd k x Hk Ex). congruence.
  - apply IH. intros k' y Hk'. apply Hd. now right.
Qed.

(** * The stack is restored; [invalid] only grows while the stack is not empty *)

Section Frame.
  Variable sy : sys.
  Variable pp : popu.

  Definition Fr (s0 s : st) : Prop := stack s = stack s0 /\ incl (invalid s0) (invalid s).

  Lemma Fr_refl s : Fr s s.
  Proof. split; [reflexivity|apply incl_refl]. Qed.

  Lemma body_frame (rec : st -> nat -> period -> st * res val) s0 v p :
    (forall s w q, Fr s0 s -> Fr s0 (fst (rec s w q))) ->
    Fr s0 (fst (calc_body rec sy pp s0 v p)).
  Proof.
    intro Hrec. unfold calc_body.
    destruct (nth_error (vars sy) v) as [x|]; [|apply Fr_refl].
    destruct (check_consistency x p); [|apply Fr_refl].
    destruct (get_array pp x s0 v p).
    { destruct (existsb _ _); cbn [fst]; [|apply Fr_refl].
      split; [reflexivity|]. cbn [add_invalid invalid]. apply incl_appr, incl_refl. }
    destruct (existsb _ _); [apply Fr_refl|].
    destruct (Nat.leb _ _).
    { cbn [fst]. split; [reflexivity|]. cbn [add_invalid invalid]. apply incl_appr, incl_refl. }
    destruct (formula_at x p) as [[e|]|]; [| |apply Fr_refl].
    - pose proof (eval_pres sy pp rec (Fr s0) Hrec e (v_ent x) p s0 (Fr_refl s0)) as H.
      destruct (eval rec sy pp (v_ent x) s0 p e) as [s1 r]. cbn [fst] in *.
      destruct r; cbn [fst]; [|exact H].
      destruct H as [H1 H2]. split; [now rewrite stack_put_in_cache'|now rewrite invalid_put_in_cache].
    - cbn [fst]. split; [now rewrite stack_put_in_cache'|rewrite invalid_put_in_cache; apply incl_refl].
  Qed.

  Lemma calc_frame : forall fuel s v p,
    stack (fst (calc fuel sy pp s v p)) = stack s /\
    (stack s <> [] -> incl (invalid s) (invalid (fst (calc fuel sy pp s v p)))).
  Proof.
    induction fuel as [|f IH]; intros s v p; cbn [calc].
    { split; [reflexivity|intros _; apply incl_refl]. }
    assert (Hb : Fr (push (v, p) s) (fst (calc_body (calc f sy pp) sy pp (push (v, p) s) v p))).
    { apply body_frame. intros s' w q [H1 H2]. destruct (IH s' w q) as [I1 I2]. split.
      - now rewrite I1.
      - eapply incl_tran; [exact H2|]. apply I2. rewrite H1. discriminate. }
    destruct (calc_body (calc f sy pp) sy pp (push (v, p) s) v p) as [s1 r]. cbn [fst] in *.
    destruct Hb as [H1 H2]. cbn [push stack invalid] in H1, H2.
    assert (Hs : stack (pop s1) = stack s) by (unfold pop; cbn [stack]; now rewrite H1).
    split.
    - unfold purge. destruct (stack (pop s1)) eqn:E; cbn [stack]; congruence.
    - intro Hne. rewrite purge_nonempty by congruence. exact H2.
  Qed.

  Lemma body_calc_frame f s0 v p : stack s0 <> [] ->
    Fr s0 (fst (calc_body (calc f sy pp) sy pp s0 v p)).
  Proof.
    intro Hs. apply body_frame. intros s' w q [H1 H2]. destruct (calc_frame f s' w q) as [I1 I2]. split.
    - now rewrite I1.
    - eapply incl_tran; [exact H2|]. apply I2. now rewrite H1.
  Qed.

  Lemma calc_stack' fuel s v p : stack (fst (calc fuel sy pp s v p)) = stack s.
  Proof. exact (proj1 (calc_frame fuel s v p)). Qed.

  Lemma calc_invalid_mono fuel s v p : stack s <> [] ->
    incl (invalid s) (invalid (fst (calc fuel sy pp s v p))).
  Proof. exact (proj2 (calc_frame fuel s v p)). Qed.
End Frame.

(** * Frames in progress are not stored; entries persist; marks fall on absent keys *)

Section Tr.
  Variable sy : sys.
  Variable pp : popu.
  Hypothesis Hlf : leafy sy.

  (** every frame of the stack is absent from the cache and belongs to a dated variable;
      so do the marks *)
  Definition Qs (s : st) : Prop :=
    (forall k, In k (stack s) -> lookup k (cache s) = None) /\
    dated_keys sy (stack s) /\ dated_keys sy (invalid s).

  (** from [s] to a later state [s'] of the same top-level request *)
  Definition Tr (s s' : st) : Prop :=
    (forall k a, lookup k (cache s) = Some a -> lookup k (cache s') = Some a) /\
    (forall k, In k (invalid s') -> In k (invalid s) \/ lookup k (cache s) = None).

  Lemma Tr_refl s : Tr s s.
  Proof. split; auto. Qed.

  Lemma Tr_trans s1 s2 s3 : Tr s1 s2 -> Tr s2 s3 -> Tr s1 s3.
  Proof.
    intros [A1 A2] [B1 B2]. split; [auto|].
    intros k Hk. destruct (B2 k Hk) as [H|H]; [auto|].
    destruct (lookup k (cache s1)) as [a|] eqn:E; [|auto].
    rewrite (A1 k a E) in H. discriminate.
  Qed.

  Definition Inv1 (s0 s : st) : Prop := stack s = stack s0 /\ Qs s /\ Tr s0 s.

  Lemma body_T (rec : st -> nat -> period -> st * res val) s0 v p stk :
    stack s0 = (v, p) :: stk ->
    (forall k, In k stk -> lookup k (cache s0) = None) ->
    dated_keys sy stk -> dated_keys sy (invalid s0) ->
    (forall s w q, Inv1 s0 s -> Inv1 s0 (fst (rec s w q))) ->
    let s' := fst (calc_body rec sy pp s0 v p) in
    stack s' = (v, p) :: stk /\ (forall k, In k stk -> lookup k (cache s') = None) /\
    dated_keys sy (invalid s') /\ Tr s0 s'.
  Proof.
    intros Hst Hq Hds Hdi Hrec. unfold calc_body. rewrite Hst. cbn [tl].
    destruct (nth_error (vars sy) v) as [x|] eqn:Ex; [|cbn; repeat split; auto].
    destruct (check_consistency x p) as [u|]; [|cbn; repeat split; auto].
    unfold get_array.
    assert (Hmark : forall ks, (forall k, In k ks -> In k (invalid s0) \/ lookup k (cache s0) = None) ->
              Tr s0 (add_invalid ks s0)).
    { intros ks H. split; [auto|]. cbn [add_invalid invalid]. intros k Hk.
      apply in_app_or in Hk as [Hk|Hk]; auto. }
    destruct (if v_neutral x then Some (default_array pp x) else lookup (v, norm x p) (cache s0)) as [a|] eqn:Eg.
    { destruct (existsb (key_eqb (v, p)) (invalid s0)) eqn:Et; cbn [fst]; [|repeat split; auto].
      apply existsb_key_in in Et.
      split; [exact Hst|]. split; [exact Hq|]. split.
      - cbn [add_invalid invalid]. apply dated_keys_app; [|exact Hdi].
        intros k y [<-|Hk]; [now apply Hdi|now apply Hds].
      - apply Hmark. intros k [<-|Hk]; [now left|right; auto]. }
    destruct (v_neutral x); [discriminate|].
    destruct (unit_eqb (v_unit x) Eternity) eqn:Eu.
    { (* an eternal leaf: no frame of it below, no cut, no formula; the default is stored *)
      destruct (Hlf v x Ex Eu) as [Hnf HL].
      rewrite (prev_nil_eternal sy v x stk Ex Eu Hds). cbn [existsb length].
      destruct (Nat.leb_spec (max_loops sy) 0) as [HL0|_]; [lia|].
      assert (Ef : formula_at x p = Ok None) by (unfold formula_at; now rewrite Hnf).
      rewrite Ef. cbn [fst]. rewrite stack_put_in_cache', invalid_put_in_cache.
      split; [exact Hst|]. split; [|split; [exact Hdi|]].
      - intros k Hk. rewrite lookup_put_in_cache. destruct (v_nostore x); auto.
        destruct (key_eqb k (v, norm x p)) eqn:E; auto.
        apply key_eqb_iff in E. subst k. specialize (Hds _ x Hk Ex). congruence.
      - split.
        + intros k c Hk. rewrite lookup_put_in_cache. destruct (v_nostore x); auto.
          destruct (key_eqb k (v, norm x p)) eqn:E; auto.
          apply key_eqb_iff in E. subst k. congruence.
        + intros k Hk. rewrite invalid_put_in_cache in Hk. auto. }
    rewrite (norm_dated x p Eu) in Eg.
    assert (Hq0 : forall k, In k (stack s0) -> lookup k (cache s0) = None).
    { intros k Hk. rewrite Hst in Hk. destruct Hk as [<-|Hk]; auto. }
    assert (Hd0 : dated_keys sy (stack s0)).
    { rewrite Hst. intros k y [<-|Hk] Hy; [cbn [fst] in Hy; congruence|eauto]. }
    destruct (existsb (period_eqb p) (prev_periods v stk)) eqn:Ecy; [cbn; repeat split; auto|].
    apply not_cycle_not_in in Ecy.
    destruct (Nat.leb _ _).
    { cbn [fst]. split; [exact Hst|]. split; [exact Hq|]. split.
      - cbn [add_invalid invalid]. apply dated_keys_app; [|exact Hdi].
        eapply dated_keys_incl; [apply spiral_marks_incl|]. rewrite <- Hst. exact Hd0.
      - apply Hmark. intros k Hk. right. apply Hq0. rewrite Hst. eapply spiral_marks_incl; eauto. }
    assert (Hput : forall s1 b, Inv1 s0 s1 ->
              let s' := put_in_cache x v p b s1 in
              stack s' = (v, p) :: stk /\ (forall k, In k stk -> lookup k (cache s') = None) /\
              dated_keys sy (invalid s') /\ Tr s0 s').
    { intros s1 b (I1 & (I2 & I2b & I2c) & I3). cbn zeta.
      rewrite stack_put_in_cache', invalid_put_in_cache. split; [congruence|].
      assert (Hkf : lookup (v, p) (cache s1) = None).
      { apply I2. rewrite I1, Hst. now left. }
      split; [|split; [exact I2c|]].
      - intros k Hk. rewrite lookup_put_in_cache, (norm_dated x p Eu).
        destruct (v_nostore x). { apply I2. rewrite I1, Hst. now right. }
        destruct (key_eqb k (v, p)) eqn:E.
        + apply key_eqb_iff in E. subst k. contradiction.
        + apply I2. rewrite I1, Hst. now right.
      - apply (Tr_trans s0 s1); [exact I3|]. split.
        + intros k c Hk. rewrite lookup_put_in_cache, (norm_dated x p Eu).
          destruct (v_nostore x); auto.
          destruct (key_eqb k (v, p)) eqn:E; auto.
          apply key_eqb_iff in E. subst k. congruence.
        + intros k Hk. rewrite invalid_put_in_cache in Hk. auto. }
    assert (HI0 : Inv1 s0 s0).
    { split; [reflexivity|]. split; [|apply Tr_refl]. repeat split; auto. }
    destruct (formula_at x p) as [[e|]|]; [| |cbn; repeat split; auto].
    - pose proof (eval_pres sy pp rec (Inv1 s0) Hrec e (v_ent x) p s0 HI0) as H.
      destruct (eval rec sy pp (v_ent x) s0 p e) as [s1 r]. cbn [fst] in *.
      destruct r; cbn [fst]; [now apply Hput|].
      destruct H as (I1 & (I2 & I2b & I2c) & I3). split; [congruence|]. split; [|split; [exact I2c|exact I3]].
      intros k Hk. apply I2. rewrite I1, Hst. now right.
    - cbn [fst]. now apply Hput.
  Qed.

  Lemma calc_T : forall fuel s v p, Qs s -> stack s <> [] ->
    Qs (fst (calc fuel sy pp s v p)) /\ Tr s (fst (calc fuel sy pp s v p)).
  Proof.
    induction fuel as [|f IH]; intros s v p HQ Hs; cbn [calc]; [split; [exact HQ|apply Tr_refl]|].
    destruct HQ as (HQ1 & HQ2 & HQ3).
    pose proof (body_T (calc f sy pp) (push (v, p) s) v p (stack s) eq_refl HQ1 HQ2 HQ3) as Hb.
    cbn zeta in Hb.
    assert (Hrec : forall s' w q, Inv1 (push (v, p) s) s' -> Inv1 (push (v, p) s) (fst (calc f sy pp s' w q))).
    { intros s' w q (I1 & I2 & I3).
      assert (Hs' : stack s' <> []) by (rewrite I1; discriminate).
      destruct (IH s' w q I2 Hs') as [J1 J2].
      split; [now rewrite calc_stack'|]. split; [exact J1|]. eapply Tr_trans; eauto. }
    specialize (Hb Hrec).
    destruct (calc_body (calc f sy pp) sy pp (push (v, p) s) v p) as [s1 r]. cbn [fst] in *.
    destruct Hb as (B1 & B2 & B3 & B4). cbn [push stack] in B1.
    assert (Hp : stack (pop s1) = stack s) by (unfold pop; cbn [stack]; now rewrite B1).
    rewrite purge_nonempty by congruence.
    split; [|exact B4]. split; [|split].
    - intros k Hk. rewrite Hp in Hk. unfold pop; cbn [cache]. auto.
    - rewrite Hp. exact HQ2.
    - exact B3.
  Qed.
End Tr.
