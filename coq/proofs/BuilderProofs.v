(** Proofs about the situation-builder model (model/Builder.v).
    Part 1: the build depends on the texts of period keys only through their canonical form
    (spelling irrelevance).  Part 2: the flush order.  Part 3: rejection of ill-formed items.
    Part 4: what a successful build stores (ids, memberships, values).  Part 5: axes. *)
From Coq Require Import ZArith QArith List Bool String Lia Permutation Sorted.
From Verif Require Import Base Cal Tables Period Builder.
Import ListNotations.
Open Scope Z_scope.
Open Scope res_scope.

(** * Generic *)

Lemma bind_ext {A B} (r : res A) (f g : A -> res B) :
  (forall a, f a = g a) -> bind r f = bind r g.
Proof. intros H. destruct r; cbn; [apply H | reflexivity]. Qed.

Lemma bind_ok {A B} (r : res A) (f : A -> res B) b :
  bind r f = Ok b -> exists a, r = Ok a /\ f a = Ok b.
Proof. destruct r; cbn; intros H; [eauto | discriminate]. Qed.

Lemma bind_err {A B} (r : res A) (f : A -> res B) e :
  r = Err e -> bind r f = Err e.
Proof. intros ->. reflexivity. Qed.

(** * 1. Spelling irrelevance *)

Definition same_reading (x x' : ext) : Prop :=
  (forall t, canon_key (tok x t) = canon_key (tok x' t)) /\
  (forall t, date_of_text x t = date_of_text x' t) /\
  (forall t, evalx x t = evalx x' t) /\
  (forall l, set_order x l = set_order x' l).

Lemma parse_start_err s e : parse_start s = Err e -> e = EPeriod.
Proof.
  destruct s; cbn; intros H;
    match type of H with (if ?c then _ else _) = _ => destruct c end; congruence.
Qed.

Lemma parse_key_err k e : parse_key k = Err e -> e = EPeriod.
Proof.
  destruct k as [s|u s size|sp|]; cbn; intros H; try congruence.
  - destruct (parse_start s) eqn:E; cbn in H; [discriminate|].
    inversion H; subst. eapply parse_start_err; eassumption.
  - destruct (unit_eqb u Eternity); [congruence|].
    destruct (parse_start s) eqn:E; cbn in H.
    + destruct (unit_weight u <? unit_weight (fst a)); congruence.
    + inversion H; subst. eapply parse_start_err; eassumption.
Qed.

Lemma canon_err p e : canon p = Err e -> e = EUnmodelled.
Proof.
  destruct p as [[u [[y m] d]] n]. unfold canon. intros H.
  destruct u; try discriminate;
    (destruct ((n <=? 0) || (y <? 1000)); [inversion H; reflexivity|]); try discriminate.
  destruct (n =? 12); discriminate.
Qed.

Lemma EUnmodelled_neq_EPeriod : EUnmodelled <> EPeriod.
Proof. discriminate. Qed.

(* the canonical form decides whether the key parses at all *)
Lemma canon_key_parse_ok k k' :
  canon_key k = canon_key k' ->
  match parse_key k, parse_key k' with
  | Ok _, Ok _ | Err _, Err _ => True
  | _, _ => False
  end.
Proof.
  unfold canon_key. intros H.
  destruct (parse_key k) eqn:E, (parse_key k') eqn:E'; cbn in H; auto.
  - destruct (canon a) eqn:C; [discriminate|].
    apply canon_err in C. apply parse_key_err in E'. subst. unfold EUnmodelled in H. discriminate.
  - destruct (canon a) eqn:C; [discriminate|].
    apply canon_err in C. apply parse_key_err in E. subst. unfold EUnmodelled in H. discriminate.
Qed.

Section Reading.
  Variables x x' : ext.
  Hypothesis R : same_reading x x'.

  Let Rk := proj1 R.
  Let Rd := proj1 (proj2 R).
  Let Re := proj1 (proj2 (proj2 R)).
  Let Ro := proj2 (proj2 (proj2 R)).

  Lemma check_set_value_reading v j : check_set_value x v j = check_set_value x' v j.
  Proof.
    unfold check_set_value. destruct (v_type v), j; try reflexivity;
      rewrite ?Rd, ?Re; reflexivity.
  Qed.

  Lemma add_variable_value_reading st e v idx t value :
    add_variable_value x st e v idx t value = add_variable_value x' st e v idx t value.
  Proof.
    unfold add_variable_value. destruct value; try reflexivity;
      rewrite Rk; apply bind_ext; intros p; rewrite check_set_value_reading; reflexivity.
  Qed.

  Lemma add_dated_reading e v idx l : forall st,
    add_dated x st e v idx l = add_dated x' st e v idx l.
  Proof.
    induction l as [|[t value] l IH]; intros st; cbn [add_dated]; [reflexivity|].
    pose proof (canon_key_parse_ok _ _ (Rk t)) as P.
    destruct (parse_key (tok x t)), (parse_key (tok x' t)); try contradiction; [|reflexivity].
    rewrite add_variable_value_reading. apply bind_ext; intros st'. apply IH.
  Qed.

  Lemma init_variable_values_reading s e id fields : forall st,
    init_variable_values x s st e fields id = init_variable_values x' s st e fields id.
  Proof.
    induction fields as [|[vn vals] fields IH]; intros st; cbn [init_variable_values]; [reflexivity|].
    destruct (find_var vn (s_vars s)); [|reflexivity].
    destruct (negb (String.eqb (v_entity v) (e_key e))); [reflexivity|].
    destruct (index_of id (get_ids st (e_plural e))); [|reflexivity].
    destruct vals; try reflexivity.
    rewrite add_dated_reading. apply bind_ext; intros st'. apply IH.
  Qed.

  Lemma add_person_instances_reading s l : forall st,
    add_person_instances x s st l = add_person_instances x' s st l.
  Proof.
    induction l as [|[pid j] l IH]; intros st; cbn [add_person_instances]; [reflexivity|].
    destruct j; try reflexivity.
    rewrite init_variable_values_reading. apply bind_ext; intros st'. apply IH.
  Qed.

  Lemma add_group_instances_reading s e pids eids l : forall st todo mr,
    add_group_instances x s e pids eids l st todo mr
    = add_group_instances x' s e pids eids l st todo mr.
  Proof.
    induction l as [|[gid j] l IH]; intros st todo mr; cbn [add_group_instances]; [reflexivity|].
    destruct j; try reflexivity.
    apply bind_ext; intros todo'.
    destruct (index_of gid eids); [|reflexivity].
    apply bind_ext; intros mr'.
    rewrite init_variable_values_reading. apply bind_ext; intros st'. apply IH.
  Qed.

  Lemma add_group_entity_reading s st pids e j :
    add_group_entity x s st pids e j = add_group_entity x' s st pids e j.
  Proof.
    unfold add_group_entity. destruct j; try reflexivity.
    rewrite add_group_instances_reading. apply bind_ext; intros [[st1 todo] mr].
    destruct todo; [reflexivity|]. rewrite Ro. reflexivity.
  Qed.

  Lemma add_groups_reading s pids params ax gs : forall st,
    add_groups x s st pids params ax gs = add_groups x' s st pids params ax gs.
  Proof.
    induction gs as [|e gs IH]; intros st; cbn [add_groups]; [reflexivity|].
    destruct (aget (e_plural e) params) as [j|].
    - rewrite add_group_entity_reading.
      destruct j; (apply bind_ext; intros st'; apply IH).
    - apply bind_ext; intros st'; apply IH.
  Qed.

  Lemma apply_axis_reading s st step cells vals a :
    apply_axis x s st step cells vals a = apply_axis x' s st step cells vals a.
  Proof.
    unfold apply_axis. apply bind_ext; intros t. rewrite Rk. reflexivity.
  Qed.

  Lemma apply_axes_reading s step cells valsf l : forall st,
    apply_axes x s st step cells valsf l = apply_axes x' s st step cells valsf l.
  Proof.
    induction l as [|a l IH]; intros st; cbn [apply_axes]; [reflexivity|].
    rewrite apply_axis_reading. apply bind_ext; intros st'. apply IH.
  Qed.

  Lemma apply_dims_reading s counts cells dims : forall st d,
    apply_dims x s st counts cells d dims = apply_dims x' s st counts cells d dims.
  Proof.
    induction dims as [|dim dims IH]; intros st d; cbn [apply_dims]; [reflexivity|].
    apply bind_ext; intros step.
    destruct (dim_count dim <=? 1); [reflexivity|].
    rewrite apply_axes_reading. apply bind_ext; intros st'. apply IH.
  Qed.

  Lemma expand_axes_reading s st dims : expand_axes x s st dims = expand_axes x' s st dims.
  Proof.
    unfold expand_axes. destruct (cell_count dims <=? 0); [reflexivity|].
    destruct dims as [|dim [|dim' dims]].
    - apply apply_dims_reading.
    - apply bind_ext; intros step. apply apply_axes_reading.
    - apply apply_dims_reading.
  Qed.

  Lemma axes_step_reading s st2 (o : option json) :
    match o with
    | None => Ok st2
    | Some j => let* dims := parse_dims j in expand_axes x s st2 dims
    end
    = match o with
      | None => Ok st2
      | Some j => let* dims := parse_dims j in expand_axes x' s st2 dims
      end.
  Proof.
    destruct o; [|reflexivity]. apply bind_ext; intros dims. apply expand_axes_reading.
  Qed.

  Lemma build_from_entities_reading s doc :
    build_from_entities x s doc = build_from_entities x' s doc.
  Proof.
    unfold build_from_entities.
    destruct (existsb _ (aremove "axes" doc)); [reflexivity|].
    destruct (aget (e_plural (s_person s)) (aremove "axes" doc)) as [j|]; [|reflexivity].
    destruct j as [| | | | | |l]; try reflexivity.
    destruct l as [|i instances]; [reflexivity|].
    unfold add_person_entity. rewrite add_person_instances_reading.
    apply bind_ext; intros st1.
    rewrite add_groups_reading. apply bind_ext; intros st2.
    rewrite axes_step_reading. reflexivity.
  Qed.
End Reading.

(** Variables-only documents do not go through the canonical text: the reading must agree on
    the parsed period itself. *)
Definition same_parse (x x' : ext) : Prop :=
  (forall t, parse_key (tok x t) = parse_key (tok x' t)) /\
  (forall t, date_of_text x t = date_of_text x' t) /\
  (forall t, evalx x t = evalx x' t) /\
  (forall l, set_order x l = set_order x' l).

Lemma same_parse_reading x x' : same_parse x x' -> same_reading x x'.
Proof.
  intros (Hp & Hd & He & Ho). repeat split; auto.
  intros t. unfold canon_key. rewrite Hp. reflexivity.
Qed.

Section Parse.
  Variables x x' : ext.
  Hypothesis R : same_parse x x'.
  Let Rp := proj1 R.
  Let Rd := proj1 (proj2 R).
  Let Re := proj1 (proj2 (proj2 R)).

  Lemma convert_elem_parse v sc j : convert_elem x v sc j = convert_elem x' v sc j.
  Proof.
    unfold convert_elem. destruct (v_type v), j; try reflexivity;
      rewrite ?Rd, ?Re; reflexivity.
  Qed.

  Lemma mapM_ext {A B} (f g : A -> res B) l : (forall a, f a = g a) -> mapM f l = mapM g l.
  Proof.
    intros H. induction l as [|a l IH]; cbn; [reflexivity|]. rewrite H, IH. reflexivity.
  Qed.

  Lemma convert_value_parse v j : convert_value x v j = convert_value x' v j.
  Proof.
    unfold convert_value. destruct j; try (rewrite convert_elem_parse; reflexivity).
    destruct l as [|j0 l]; [reflexivity|].
    destruct (forallb _ l); [|reflexivity].
    apply mapM_ext. intros a. apply convert_elem_parse.
  Qed.

  Lemma sim_set_input_parse s count hs vn t value :
    sim_set_input x s count hs vn t value = sim_set_input x' s count hs vn t value.
  Proof.
    unfold sim_set_input. destruct (find_var vn (s_vars s)); [|reflexivity].
    rewrite Rp. apply bind_ext; intros p. apply bind_ext; intros sk.
    destruct sk; [reflexivity|].
    destruct (unit_eqb (p_unit p) Eternity && negb (eternal v)); [reflexivity|].
    rewrite convert_value_parse. reflexivity.
  Qed.

  Lemma set_dated_parse s count vn l : forall hs,
    set_dated x s count hs vn l = set_dated x' s count hs vn l.
  Proof.
    induction l as [|[p [t value]] l IH]; intros hs; cbn [set_dated]; [reflexivity|].
    rewrite sim_set_input_parse. apply bind_ext; intros hs'. apply IH.
  Qed.

  Lemma add_dated_values_parse s count doc : forall hs,
    add_dated_values x s count hs doc = add_dated_values x' s count hs doc.
  Proof.
    induction doc as [|[vn j] doc IH]; intros hs; cbn [add_dated_values]; [reflexivity|].
    destruct j; try apply IH.
    rewrite (mapM_ext _ (fun kv => let* p := parse_key (tok x' (fst kv)) in Ok (p, kv))).
    2:{ intros kv. rewrite Rp. reflexivity. }
    apply bind_ext; intros keyed. rewrite set_dated_parse.
    apply bind_ext; intros hs'. apply IH.
  Qed.

  Lemma build_from_dict_parse s input : build_from_dict x s input = build_from_dict x' s input.
  Proof.
    pose proof (same_parse_reading _ _ R) as R'.
    unfold build_from_dict. destruct input; try reflexivity.
    destruct (existsb _ (map fst l)); [apply build_from_entities_reading; assumption|].
    destruct (_ && _); [apply build_from_entities_reading; assumption|].
    destruct (_ || _); [|apply build_from_entities_reading; assumption].
    unfold build_from_variables. rewrite add_dated_values_parse. reflexivity.
  Qed.
End Parse.

(** every shape that names entities goes through [build_from_entities] *)
Lemma build_from_dict_reading x x' s doc :
  same_reading x x' ->
  existsb (fun k => match find_var k (s_vars s) with Some _ => true | None => false end)
          (map fst doc) = false ->
  doc <> [] ->
  build_from_dict x s (JObj doc) = build_from_dict x' s (JObj doc).
Proof.
  intros R Hv Hne. unfold build_from_dict.
  destruct (existsb (fun k => mem_str k (singulars s)) (map fst doc));
    [apply build_from_entities_reading; assumption|].
  destruct (_ && _); [apply build_from_entities_reading; assumption|].
  rewrite Hv. destruct doc; [contradiction|]. cbn [List.length Nat.eqb orb].
  apply build_from_entities_reading; assumption.
Qed.
