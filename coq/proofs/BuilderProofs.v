(** Proofs about the situation-builder model (model/Builder.v). *)
From Coq Require Import ZArith QArith List Bool String Lia.
From Verif Require Import Base Cal Tables Period Builder.
Import ListNotations.
Open Scope Z_scope.

Lemma canon_key_eternity : forall s, canon_key (KEternity s) = Ok eternity_period.
Proof. reflexivity. Qed.
