(** Proofs about the situation-builder model (model/Builder.v).
    Part 1: the build depends on the texts of period keys only through their canonical form
    (spelling irrelevance).  Part 2: the flush order.  Part 3: rejection of ill-formed items.
    Part 4: what a successful build stores (ids, memberships, values).  Part 5: axes. *)
From Coq Require Import ZArith QArith List Bool String Lia Permutation Sorted.
From Verif Require Import Base Cal Tables Period Builder CalProofs.
Import ListNotations.
Open Scope Z_scope.
Open Scope res_scope.

(** * Generic *)

Lemma bind_ext {A B} (r : res A) (f g : A -> res B) :
  (forall a, f a = g a) -> bind r f = bind r g.
Proof. intros H. destruct r; cbn; [apply H | reflexivity]. Qed.

Lemma bind_ok {A B} (r : res A) (f : A -> res B) b :
  bind r f = Ok b -> exists a, r = Ok a /\ f a = Ok b.
Proof. destruct r; cbn; intros H; [eauto | discriminate]. Qed.

Lemma bind_err {A B} (r : res A) (f : A -> res B) e :
  r = Err e -> bind r f = Err e.
Proof. intros ->. reflexivity. Qed.

(** * 1. Spelling irrelevance *)

Definition same_reading (x x' : ext) : Prop :=
  (forall t, canon_key (tok x t) = canon_key (tok x' t)) /\
  (forall t, date_of_text x t = date_of_text x' t) /\
  (forall t, evalx x t = evalx x' t) /\
  (forall l, set_order x l = set_order x' l).

Lemma parse_start_err s e : parse_start s = Err e -> e = EPeriod.
Proof.
  destruct s; cbn; intros H;
    match type of H with (if ?c then _ else _) = _ => destruct c end; congruence.
Qed.

Lemma parse_key_err k e : parse_key k = Err e -> e = EPeriod.
Proof.
  destruct k as [s|u s size|sp|]; cbn; intros H; try congruence.
  - destruct (parse_start s) eqn:E; cbn in H; [discriminate|].
    inversion H; subst. eapply parse_start_err; eassumption.
  - destruct (unit_eqb u Eternity); [congruence|].
    destruct (parse_start s) eqn:E; cbn in H.
    + destruct (unit_weight u <? unit_weight (fst a)); congruence.
    + inversion H; subst. eapply parse_start_err; eassumption.
Qed.

Lemma canon_err p e : canon p = Err e -> e = EUnmodelled.
Proof.
  destruct p as [[u [[y m] d]] n]. unfold canon. intros H.
  destruct u; try discriminate;
    (destruct ((n <=? 0) || (y <? 1000)); [inversion H; reflexivity|]); try discriminate.
  destruct (n =? 12); discriminate.
Qed.

Lemma EUnmodelled_neq_EPeriod : EUnmodelled <> EPeriod.
Proof. discriminate. Qed.

(* the canonical form decides whether the key parses at all *)
Lemma canon_key_parse_ok k k' :
  canon_key k = canon_key k' ->
  match parse_key k, parse_key k' with
  | Ok _, Ok _ | Err _, Err _ => True
  | _, _ => False
  end.
Proof.
  unfold canon_key. intros H.
  destruct (parse_key k) eqn:E, (parse_key k') eqn:E'; cbn in H; auto.
  - destruct (canon a) eqn:C; [discriminate|].
    apply canon_err in C. apply parse_key_err in E'. subst. unfold EUnmodelled in H. discriminate.
  - destruct (canon a) eqn:C; [discriminate|].
    apply canon_err in C. apply parse_key_err in E. subst. unfold EUnmodelled in H. discriminate.
Qed.

Section Reading.
  Variables x x' : ext.
  Hypothesis R : same_reading x x'.

  Let Rk := proj1 R.
  Let Rd := proj1 (proj2 R).
  Let Re := proj1 (proj2 (proj2 R)).
  Let Ro := proj2 (proj2 (proj2 R)).

  Lemma check_set_value_reading v j : check_set_value x v j = check_set_value x' v j.
  Proof.
    unfold check_set_value. destruct (v_type v), j; try reflexivity;
      rewrite ?Rd, ?Re; reflexivity.
  Qed.

  Lemma add_variable_value_reading st e v idx t value :
    add_variable_value x st e v idx t value = add_variable_value x' st e v idx t value.
  Proof.
    unfold add_variable_value. destruct value; try reflexivity;
      rewrite Rk; apply bind_ext; intros p; rewrite check_set_value_reading; reflexivity.
  Qed.

  Lemma add_dated_reading e v idx l : forall st,
    add_dated x st e v idx l = add_dated x' st e v idx l.
  Proof.
    induction l as [|[t value] l IH]; intros st; cbn [add_dated]; [reflexivity|].
    pose proof (canon_key_parse_ok _ _ (Rk t)) as P.
    destruct (parse_key (tok x t)), (parse_key (tok x' t)); try contradiction; [|reflexivity].
    rewrite add_variable_value_reading. apply bind_ext; intros st'. apply IH.
  Qed.

  Lemma init_variable_values_reading s e id fields : forall st,
    init_variable_values x s st e fields id = init_variable_values x' s st e fields id.
  Proof.
    induction fields as [|[vn vals] fields IH]; intros st; cbn [init_variable_values]; [reflexivity|].
    destruct (find_var vn (s_vars s)); [|reflexivity].
    destruct (negb (String.eqb (v_entity v) (e_key e))); [reflexivity|].
    destruct (index_of id (get_ids st (e_plural e))); [|reflexivity].
    destruct vals; try reflexivity.
    rewrite add_dated_reading. apply bind_ext; intros st'. apply IH.
  Qed.

  Lemma add_person_instances_reading s l : forall st,
    add_person_instances x s st l = add_person_instances x' s st l.
  Proof.
    induction l as [|[pid j] l IH]; intros st; cbn [add_person_instances]; [reflexivity|].
    destruct j; try reflexivity.
    rewrite init_variable_values_reading. apply bind_ext; intros st'. apply IH.
  Qed.

  Lemma add_group_instances_reading s e pids eids l : forall st todo mr,
    add_group_instances x s e pids eids l st todo mr
    = add_group_instances x' s e pids eids l st todo mr.
  Proof.
    induction l as [|[gid j] l IH]; intros st todo mr; cbn [add_group_instances]; [reflexivity|].
    destruct j; try reflexivity.
    apply bind_ext; intros todo'.
    destruct (index_of gid eids); [|reflexivity].
    apply bind_ext; intros mr'.
    rewrite init_variable_values_reading. apply bind_ext; intros st'. apply IH.
  Qed.

  Lemma add_group_entity_reading s st pids e j :
    add_group_entity x s st pids e j = add_group_entity x' s st pids e j.
  Proof.
    unfold add_group_entity. destruct j; try reflexivity.
    rewrite add_group_instances_reading. apply bind_ext; intros [[st1 todo] mr].
    destruct todo; [reflexivity|]. rewrite Ro. reflexivity.
  Qed.

  Lemma add_groups_reading s pids params ax gs : forall st,
    add_groups x s st pids params ax gs = add_groups x' s st pids params ax gs.
  Proof.
    induction gs as [|e gs IH]; intros st; cbn [add_groups]; [reflexivity|].
    destruct (aget (e_plural e) params) as [j|].
    - rewrite add_group_entity_reading.
      destruct j; (apply bind_ext; intros st'; apply IH).
    - apply bind_ext; intros st'; apply IH.
  Qed.

  Lemma apply_axis_reading s st step cells vals a :
    apply_axis x s st step cells vals a = apply_axis x' s st step cells vals a.
  Proof.
    unfold apply_axis. apply bind_ext; intros t. rewrite Rk. reflexivity.
  Qed.

  Lemma apply_axes_reading s step cells valsf l : forall st,
    apply_axes x s st step cells valsf l = apply_axes x' s st step cells valsf l.
  Proof.
    induction l as [|a l IH]; intros st; cbn [apply_axes]; [reflexivity|].
    rewrite apply_axis_reading. apply bind_ext; intros st'. apply IH.
  Qed.

  Lemma apply_dims_reading s counts cells dims : forall st d,
    apply_dims x s st counts cells d dims = apply_dims x' s st counts cells d dims.
  Proof.
    induction dims as [|dim dims IH]; intros st d; cbn [apply_dims]; [reflexivity|].
    apply bind_ext; intros step.
    destruct (dim_count dim <=? 1); [reflexivity|].
    rewrite apply_axes_reading. apply bind_ext; intros st'. apply IH.
  Qed.

  Lemma expand_axes_reading s st dims : expand_axes x s st dims = expand_axes x' s st dims.
  Proof.
    unfold expand_axes. destruct (cell_count dims <=? 0); [reflexivity|].
    destruct dims as [|dim [|dim' dims]].
    - apply apply_dims_reading.
    - apply bind_ext; intros step. apply apply_axes_reading.
    - apply apply_dims_reading.
  Qed.

  Lemma axes_step_reading s st2 (o : option json) :
    match o with
    | None => Ok st2
    | Some j => let* dims := parse_dims j in expand_axes x s st2 dims
    end
    = match o with
      | None => Ok st2
      | Some j => let* dims := parse_dims j in expand_axes x' s st2 dims
      end.
  Proof.
    destruct o; [|reflexivity]. apply bind_ext; intros dims. apply expand_axes_reading.
  Qed.

  Lemma build_from_entities_reading s doc :
    build_from_entities x s doc = build_from_entities x' s doc.
  Proof.
    unfold build_from_entities.
    destruct (existsb _ (aremove "axes" doc)); [reflexivity|].
    destruct (aget (e_plural (s_person s)) (aremove "axes" doc)) as [j|]; [|reflexivity].
    destruct j as [| | | | | |l]; try reflexivity.
    destruct l as [|i instances]; [reflexivity|].
    unfold add_person_entity. rewrite add_person_instances_reading.
    apply bind_ext; intros st1.
    rewrite add_groups_reading. apply bind_ext; intros st2.
    rewrite axes_step_reading. reflexivity.
  Qed.
End Reading.

(** Variables-only documents do not go through the canonical text: the reading must agree on
    the parsed period itself. *)
Definition same_parse (x x' : ext) : Prop :=
  (forall t, parse_key (tok x t) = parse_key (tok x' t)) /\
  (forall t, date_of_text x t = date_of_text x' t) /\
  (forall t, evalx x t = evalx x' t) /\
  (forall l, set_order x l = set_order x' l).

Lemma same_parse_reading x x' : same_parse x x' -> same_reading x x'.
Proof.
  intros (Hp & Hd & He & Ho). repeat split; auto.
  intros t. unfold canon_key. rewrite Hp. reflexivity.
Qed.

Section Parse.
  Variables x x' : ext.
  Hypothesis R : same_parse x x'.
  Let Rp := proj1 R.
  Let Rd := proj1 (proj2 R).
  Let Re := proj1 (proj2 (proj2 R)).

  Lemma convert_elem_parse v sc j : convert_elem x v sc j = convert_elem x' v sc j.
  Proof.
    unfold convert_elem. destruct (v_type v), j; try reflexivity;
      rewrite ?Rd, ?Re; reflexivity.
  Qed.

  Lemma mapM_ext {A B} (f g : A -> res B) l : (forall a, f a = g a) -> mapM f l = mapM g l.
  Proof.
    intros H. induction l as [|a l IH]; cbn; [reflexivity|]. rewrite H, IH. reflexivity.
  Qed.

  Lemma convert_value_parse v j : convert_value x v j = convert_value x' v j.
  Proof.
    unfold convert_value. destruct j; try (rewrite convert_elem_parse; reflexivity).
    destruct l as [|j0 l]; [reflexivity|].
    destruct (forallb _ l); [|reflexivity].
    apply mapM_ext. intros a. apply convert_elem_parse.
  Qed.

  Lemma sim_set_input_parse s count hs vn t value :
    sim_set_input x s count hs vn t value = sim_set_input x' s count hs vn t value.
  Proof.
    unfold sim_set_input. destruct (find_var vn (s_vars s)); [|reflexivity].
    rewrite Rp. apply bind_ext; intros p. apply bind_ext; intros sk.
    destruct sk; [reflexivity|].
    destruct (unit_eqb (p_unit p) Eternity && negb (eternal v)); [reflexivity|].
    rewrite convert_value_parse. reflexivity.
  Qed.

  Lemma set_dated_parse s count vn l : forall hs,
    set_dated x s count hs vn l = set_dated x' s count hs vn l.
  Proof.
    induction l as [|[p [t value]] l IH]; intros hs; cbn [set_dated]; [reflexivity|].
    rewrite sim_set_input_parse. apply bind_ext; intros hs'. apply IH.
  Qed.

  Lemma add_dated_values_parse s count doc : forall hs,
    add_dated_values x s count hs doc = add_dated_values x' s count hs doc.
  Proof.
    induction doc as [|[vn j] doc IH]; intros hs; cbn [add_dated_values]; [reflexivity|].
    destruct j; try apply IH.
    rewrite (mapM_ext _ (fun kv => let* p := parse_key (tok x' (fst kv)) in Ok (p, kv))).
    2:{ intros kv. rewrite Rp. reflexivity. }
    apply bind_ext; intros keyed. rewrite set_dated_parse.
    apply bind_ext; intros hs'. apply IH.
  Qed.

  Lemma build_from_dict_parse s input : build_from_dict x s input = build_from_dict x' s input.
  Proof.
    pose proof (same_parse_reading _ _ R) as R'.
    unfold build_from_dict. destruct input; try reflexivity.
    destruct (existsb _ (map fst l)); [apply build_from_entities_reading; assumption|].
    destruct (_ && _); [apply build_from_entities_reading; assumption|].
    destruct (_ || _); [|apply build_from_entities_reading; assumption].
    unfold build_from_variables. rewrite add_dated_values_parse. reflexivity.
  Qed.
End Parse.

(** every shape that names entities goes through [build_from_entities] *)
Lemma build_from_dict_reading x x' s doc :
  same_reading x x' ->
  existsb (fun k => match find_var k (s_vars s) with Some _ => true | None => false end)
          (map fst doc) = false ->
  doc <> [] ->
  build_from_dict x s (JObj doc) = build_from_dict x' s (JObj doc).
Proof.
  intros R Hv Hne. unfold build_from_dict.
  destruct (existsb (fun k => mem_str k (singulars s)) (map fst doc));
    [apply build_from_entities_reading; assumption|].
  destruct (_ && _); [apply build_from_entities_reading; assumption|].
  rewrite Hv. destruct doc; [contradiction|]. cbn [List.length Nat.eqb orb].
  apply build_from_entities_reading; assumption.
Qed.

(** * 2. The flush order: shortest periods first *)

(* [a] is strictly shorter than [b]: lighter unit (gen/Tables.v: unit_weight), or same weight
   and smaller size *)
Definition shorter (a b : period) : Prop :=
  unit_weight (p_unit a) < unit_weight (p_unit b)
  \/ (unit_weight (p_unit a) = unit_weight (p_unit b) /\ p_size a < p_size b).

Lemma period_key_leb_spec a b : period_key_leb a b = true <-> ~ shorter b a.
Proof.
  unfold period_key_leb, shorter.
  rewrite orb_true_iff, andb_true_iff, Z.ltb_lt, Z.eqb_eq, Z.leb_le. lia.
Qed.

Lemma period_key_leb_total a b : period_key_leb a b = false -> period_key_leb b a = true.
Proof.
  intros H. apply period_key_leb_spec. intros S.
  assert (period_key_leb a b = true) as H'; [|congruence].
  apply period_key_leb_spec. unfold shorter in *. lia.
Qed.

Lemma period_key_leb_trans a b c :
  period_key_leb a b = true -> period_key_leb b c = true -> period_key_leb a c = true.
Proof. rewrite !period_key_leb_spec. unfold shorter. lia. Qed.

Section Sorting.
  Context {A : Type}.
  Let R (a b : period * A) : Prop := period_key_leb (fst a) (fst b) = true.

  Lemma insert_sorted_perm (pa : period * A) l : Permutation (insert_sorted pa l) (pa :: l).
  Proof.
    induction l as [|qb l IH]; cbn [insert_sorted]; [reflexivity|].
    destruct (period_key_leb (fst qb) (fst pa)); [|reflexivity].
    rewrite IH. apply perm_swap.
  Qed.

  Lemma insert_sorted_sorted (pa : period * A) l :
    StronglySorted R l -> StronglySorted R (insert_sorted pa l).
  Proof.
    induction l as [|qb l IH]; intros S; cbn [insert_sorted].
    - constructor; constructor.
    - inversion S as [|? ? S' F]; subst.
      destruct (period_key_leb (fst qb) (fst pa)) eqn:E.
      + constructor; [apply IH; assumption|].
        eapply Permutation_Forall; [symmetry; apply insert_sorted_perm|].
        constructor; assumption.
      + constructor; [assumption|]. constructor.
        * apply period_key_leb_total; assumption.
        * eapply Forall_impl; [|exact F]. intros c Hc. unfold R in *.
          eapply period_key_leb_trans; [apply period_key_leb_total; eassumption|assumption].
  Qed.

  Lemma sort_fold_perm (l acc : list (period * A)) :
    Permutation (fold_left (fun acc pa => insert_sorted pa acc) l acc) (l ++ acc).
  Proof.
    revert acc. induction l as [|pa l IH]; intros acc; cbn [fold_left app]; [reflexivity|].
    rewrite IH, insert_sorted_perm. symmetry. apply Permutation_middle.
  Qed.

  Lemma sort_fold_sorted (l acc : list (period * A)) :
    StronglySorted R acc ->
    StronglySorted R (fold_left (fun acc pa => insert_sorted pa acc) l acc).
  Proof.
    revert acc. induction l as [|pa l IH]; intros acc S; cbn [fold_left]; [assumption|].
    apply IH, insert_sorted_sorted, S.
  Qed.

  Lemma sort_periods_perm (l : list (period * A)) : Permutation (sort_periods l) l.
  Proof. unfold sort_periods. rewrite sort_fold_perm, app_nil_r. reflexivity. Qed.

  Lemma sort_periods_sorted (l : list (period * A)) :
    StronglySorted (fun a b => ~ shorter (fst b) (fst a)) (sort_periods l).
  Proof.
    assert (StronglySorted R (sort_periods l)) as S
      by (apply sort_fold_sorted; constructor).
    induction S as [|a l' S IH F]; constructor; [assumption|].
    eapply Forall_impl; [|exact F]. intros b Hb. apply period_key_leb_spec, Hb.
  Qed.
End Sorting.

(* the flush sets the inputs one after the other, in the order of the list *)
Lemma flush_periods_app v count l1 : forall h l2,
  flush_periods v count h (l1 ++ l2)
  = bind (flush_periods v count h l1) (fun h' => flush_periods v count h' l2).
Proof.
  induction l1 as [|[p values] l1 IH]; intros h l2; cbn [flush_periods app]; [reflexivity|].
  destruct (Nat.eqb (List.length values) 0); [reflexivity|].
  destruct (set_input_unless_ended v count h p _); cbn [bind]; [apply IH|reflexivity].
Qed.

Lemma set_dated_app x s count vn l1 : forall hs l2,
  set_dated x s count hs vn (l1 ++ l2)
  = bind (set_dated x s count hs vn l1) (fun hs' => set_dated x s count hs' vn l2).
Proof.
  induction l1 as [|[p [t value]] l1 IH]; intros hs l2; cbn [set_dated app]; [reflexivity|].
  destruct (sim_set_input x s count hs vn t value); cbn [bind]; [apply IH|reflexivity].
Qed.

(** Whenever the flush sets an input [b] after an input [a], [b] is not strictly shorter than
    [a]: the list that [flush_periods] walks is split as [l1 ++ a :: l2 ++ b :: l3]. *)
Lemma flush_order {A} (entries : list (period * A)) l1 a l2 b l3 :
  sort_periods entries = l1 ++ a :: l2 ++ b :: l3 -> ~ shorter (fst b) (fst a).
Proof.
  intros E. pose proof (sort_periods_sorted entries) as S. rewrite E in S.
  clear E. induction l1 as [|c l1 IH]; cbn [app] in S.
  - inversion S as [|? ? _ F]; subst. rewrite Forall_forall in F. apply F.
    apply in_or_app. right. left. reflexivity.
  - inversion S; subst. apply IH. assumption.
Qed.

(** * 3. Ill-formed items are refused with the situation error *)

Lemma mem_str_In s l : mem_str s l = true <-> In s l.
Proof.
  unfold mem_str. rewrite existsb_exists. split.
  - intros (y & Hy & E). apply String.eqb_eq in E. subst. assumption.
  - intros H. exists s. split; [assumption|apply String.eqb_refl].
Qed.

Lemma mem_str_false s l : mem_str s l = false <-> ~ In s l.
Proof.
  rewrite <- mem_str_In. destruct (mem_str s l); split; intros H;
    try reflexivity; try discriminate; try (intros Q; discriminate);
    try (exfalso; apply H; reflexivity).
Qed.

Lemma aremove_keys {A} a k (l : list (string * A)) :
  In k (map fst l) -> k <> a -> In k (map fst (aremove a l)).
Proof.
  induction l as [|[k' v] l IH]; cbn [aremove map fst In]; [tauto|].
  intros [E|H] N.
  - subst k'. destruct (String.eqb k a) eqn:Q; [apply String.eqb_eq in Q; contradiction|].
    left. reflexivity.
  - destruct (String.eqb k' a); [apply IH; assumption|]. right. apply IH; assumption.
Qed.

Lemma aset_keys {A} k k' (v : A) l : In k (map fst l) -> In k (map fst (aset k' v l)).
Proof.
  induction l as [|[k0 w] l IH]; cbn [aset map fst In]; [tauto|].
  intros [E|H]; destruct (String.eqb k0 k'); cbn [map fst In]; auto.
Qed.

(** ** unknown entity *)

Lemma unknown_entity_entities x s doc k :
  In k (map fst doc) -> k <> "axes"%string -> ~ In k (plurals s) ->
  build_from_entities x s doc = Err ESituation.
Proof.
  intros Hin Hax Hpl. unfold build_from_entities.
  assert (existsb (fun kv : string * json => negb (mem_str (fst kv) (plurals s)))
                  (aremove "axes" doc) = true) as ->; [|reflexivity].
  apply existsb_exists.
  pose proof (aremove_keys "axes"%string k doc Hin Hax) as H.
  apply in_map_iff in H. destruct H as (kv & E & H). exists kv. split; [assumption|].
  rewrite E. apply negb_true_iff, mem_str_false. assumption.
Qed.

Lemma explicit_singular_keeps s doc k :
  In k (map fst doc) -> ~ In k (singulars s) ->
  In k (map fst (explicit_singular_entities s doc)).
Proof.
  intros Hin Hs. unfold explicit_singular_entities.
  assert (In k (map fst (filter (fun kv : string * json => negb (mem_str (fst kv) (singulars s))) doc)))
    as H0.
  { apply in_map_iff in Hin. destruct Hin as (kv & E & H). apply in_map_iff. exists kv.
    split; [assumption|]. apply filter_In. split; [assumption|].
    rewrite E. apply negb_true_iff, mem_str_false. assumption. }
  revert H0. generalize (filter (fun kv : string * json => negb (mem_str (fst kv) (singulars s))) doc).
  induction (entities s) as [|e es IH]; intros acc H0; cbn [fold_left]; [assumption|].
  apply IH. destruct (aget (e_key e) doc); [apply aset_keys|]; assumption.
Qed.

(** A top-level key that names neither an entity (plural or singular) nor the axes: refused,
    whenever the document is read as an entity description (a singular entity key is present,
    or no key is the name of a variable). *)
Lemma unknown_entity_rejected x s doc k :
  In k (map fst doc) -> k <> "axes"%string -> ~ In k (plurals s) -> ~ In k (singulars s) ->
  (existsb (fun k => mem_str k (singulars s)) (map fst doc) = true
   \/ existsb (fun k => match find_var k (s_vars s) with Some _ => true | None => false end)
              (map fst doc) = false) ->
  build_from_dict x s (JObj doc) = Err ESituation.
Proof.
  intros Hin Hax Hpl Hsg Hshape. unfold build_from_dict.
  destruct (existsb (fun k => mem_str k (singulars s)) (map fst doc)) eqn:Es.
  - eapply unknown_entity_entities; [apply explicit_singular_keeps; eassumption|assumption|assumption].
  - destruct Hshape as [H|Hv]; [discriminate|].
    assert (forallb (fun k0 : string => (k0 =? "axes")%string || mem_str k0 (plurals s)) (map fst doc)
            = false) as ->.
    { apply not_true_iff_false. intros F. rewrite forallb_forall in F. specialize (F k Hin).
      apply orb_true_iff in F. destruct F as [F|F].
      - apply String.eqb_eq in F. contradiction.
      - apply mem_str_In in F. contradiction. }
    rewrite andb_false_r, Hv. destruct doc as [|kv doc]; [destruct Hin|].
    cbn [List.length Nat.eqb orb].
    eapply unknown_entity_entities; eassumption.
Qed.

(** ** values, variables and period keys inside one instance *)

Lemma add_dated_app x e v idx l1 : forall st l2,
  add_dated x st e v idx (l1 ++ l2)
  = bind (add_dated x st e v idx l1) (fun st' => add_dated x st' e v idx l2).
Proof.
  induction l1 as [|[t value] l1 IH]; intros st l2; cbn [add_dated app]; [reflexivity|].
  destruct (parse_key (tok x t)); [|reflexivity].
  destruct (add_variable_value x st e v idx t value); cbn [bind]; [apply IH|reflexivity].
Qed.

Lemma init_variable_values_app x s e id l1 : forall st l2,
  init_variable_values x s st e (l1 ++ l2) id
  = bind (init_variable_values x s st e l1 id) (fun st' => init_variable_values x s st' e l2 id).
Proof.
  induction l1 as [|[vn vals] l1 IH]; intros st l2; cbn [init_variable_values app]; [reflexivity|].
  destruct (find_var vn (s_vars s)); [|reflexivity].
  destruct (negb (String.eqb (v_entity v) (e_key e))); [reflexivity|].
  destruct (index_of id (get_ids st (e_plural e))); [|reflexivity].
  destruct vals; try reflexivity.
  destruct (add_dated x st e v n l); cbn [bind]; [apply IH|reflexivity].
Qed.

Lemma add_person_instances_app x s l1 : forall st l2,
  add_person_instances x s st (l1 ++ l2)
  = bind (add_person_instances x s st l1) (fun st' => add_person_instances x s st' l2).
Proof.
  induction l1 as [|[pid j] l1 IH]; intros st l2; cbn [add_person_instances app]; [reflexivity|].
  destruct j; try reflexivity.
  destruct (init_variable_values x s st (s_person s) l pid); cbn [bind]; [apply IH|reflexivity].
Qed.

(* a declaration that the builder refuses at once, whatever was read before *)
Definition refused_field (x : ext) (s : sys) (e : entity) (f : string * json) : Prop :=
  forall st id rest,
    index_of id (get_ids st (e_plural e)) <> None ->
    init_variable_values x s st e (f :: rest) id = Err ESituation.

Lemma unknown_variable_refused x s e vn vals :
  find_var vn (s_vars s) = None -> refused_field x s e (vn, vals).
Proof. intros H st id rest _. cbn [init_variable_values]. rewrite H. reflexivity. Qed.

Lemma other_entity_variable_refused x s e vn vals v :
  find_var vn (s_vars s) = Some v -> v_entity v <> e_key e -> refused_field x s e (vn, vals).
Proof.
  intros H N st id rest _. cbn [init_variable_values]. rewrite H.
  destruct (String.eqb (v_entity v) (e_key e)) eqn:Q; [apply String.eqb_eq in Q; contradiction|].
  reflexivity.
Qed.

Lemma undated_value_refused x s e vn vals :
  (forall l, vals <> JObj l) -> refused_field x s e (vn, vals).
Proof.
  intros N st id rest Hid. cbn [init_variable_values].
  destruct (find_var vn (s_vars s)); [|reflexivity].
  destruct (negb _); [reflexivity|].
  destruct (index_of id _); [|contradiction].
  destruct vals; try reflexivity. exfalso. eapply N. reflexivity.
Qed.

(* a (key, value) pair that the builder refuses at once *)
Definition refused_entry (x : ext) (v : variable) (tv : string * json) : Prop :=
  forall st e idx rest, add_dated x st e v idx (tv :: rest) = Err ESituation.

Lemma unparsable_period_refused x v t value k :
  parse_key (tok x t) = Err k -> refused_entry x v (t, value).
Proof. intros H st e idx rest. cbn [add_dated]. rewrite H. reflexivity. Qed.

Lemma bad_value_refused x v t value p :
  value <> JNull -> canon_key (tok x t) = Ok p -> check_set_value x v value = Err EValue ->
  refused_entry x v (t, value).
Proof.
  intros Hn Hk Hc st e idx rest. cbn [add_dated].
  unfold canon_key in Hk. destruct (parse_key (tok x t)) eqn:E; [|discriminate].
  assert (add_variable_value x st e v idx t value = Err ESituation) as ->; [|reflexivity].
  unfold add_variable_value. destruct value; try contradiction;
    unfold canon_key; rewrite E; cbn [bind]; cbn [bind] in Hk; rewrite Hk; cbn [bind];
    rewrite Hc; reflexivity.
Qed.

Lemma text_for_number_value x v s :
  (v_type v = TInt \/ v_type v = TFloat) -> evalx x s = None ->
  check_set_value x v (JStr s) = Err EValue.
Proof. intros [T|T] H; unfold check_set_value; rewrite T, H; reflexivity. Qed.

Lemma unknown_enum_value x v s :
  v_type v = TEnum -> ~ In s (v_enum v) -> check_set_value x v (JStr s) = Err EValue.
Proof.
  intros T H. unfold check_set_value. rewrite T.
  assert (index_of s (v_enum v) = None) as ->; [|reflexivity].
  induction (v_enum v) as [|a l IH]; cbn [index_of]; [reflexivity|].
  destruct (String.eqb a s) eqn:Q.
  - apply String.eqb_eq in Q. subst. exfalso. apply H. left. reflexivity.
  - rewrite IH; [reflexivity|]. intros I. apply H. right. assumption.
Qed.

Lemma impossible_date_value x v s y m d :
  v_type v = TDate -> tok x s = KPlain (SYMD y m d) -> validb (y, m, d) = false ->
  check_set_value x v (JStr s) = Err EValue.
Proof.
  intros T K V. unfold check_set_value. rewrite T. unfold date_of_text. rewrite K.
  cbn [parse_start]. rewrite V. reflexivity.
Qed.

Lemma not_a_date_value x v s :
  v_type v = TDate -> (forall k, tok x s <> KPlain k) -> check_set_value x v (JStr s) = Err EValue.
Proof.
  intros T K. unfold check_set_value. rewrite T. unfold date_of_text.
  destruct (tok x s) eqn:E; try reflexivity. exfalso. eapply K. reflexivity.
Qed.

(* an entry refused inside a dated object makes the whole declaration refused, once the
   entries before it have been accepted *)
Lemma refused_entry_in_field x s e vn v pre tv post st id rest idx st' :
  find_var vn (s_vars s) = Some v -> v_entity v = e_key e ->
  index_of id (get_ids st (e_plural e)) = Some idx ->
  add_dated x st e v idx pre = Ok st' ->
  refused_entry x v tv ->
  init_variable_values x s st e ((vn, JObj (pre ++ tv :: post)) :: rest) id = Err ESituation.
Proof.
  intros Hv He Hi Hpre Hr. cbn [init_variable_values]. rewrite Hv, He, String.eqb_refl, Hi.
  cbn [negb]. rewrite add_dated_app, Hpre. cbn [bind]. rewrite Hr. reflexivity.
Qed.

(** the first refused declaration of a person makes the whole build fail with the situation
    error: [pre_i] are the persons read before, [pre] the declarations of that person read
    before, all accepted *)
Lemma person_declaration_rejected x s doc persons pre_i pid pre bad post post_i st1 st2 :
  existsb (fun kv : string * json => negb (mem_str (fst kv) (plurals s))) (aremove "axes" doc) = false ->
  aget (e_plural (s_person s)) (aremove "axes" doc) = Some (JObj persons) ->
  persons = pre_i ++ (pid, JObj (pre ++ bad :: post)) :: post_i ->
  add_person_instances x s (set_ids b_empty (e_plural (s_person s)) (map fst persons)) pre_i = Ok st1 ->
  init_variable_values x s st1 (s_person s) pre pid = Ok st2 ->
  index_of pid (get_ids st2 (e_plural (s_person s))) <> None ->
  (forall st id rest, index_of id (get_ids st (e_plural (s_person s))) <> None ->
                      init_variable_values x s st (s_person s) (bad :: rest) id = Err ESituation) ->
  build_from_entities x s doc = Err ESituation.
Proof.
  intros Hent Hp E H1 H2 Hid Hbad. unfold build_from_entities. rewrite Hent, Hp.
  assert (add_person_entity x s b_empty persons = Err ESituation) as Hpe.
  { unfold add_person_entity. rewrite E at 2.
    rewrite add_person_instances_app, H1. cbn [bind add_person_instances].
    rewrite init_variable_values_app, H2. cbn [bind].
    rewrite Hbad; [reflexivity|assumption]. }
  destruct persons as [|i instances]; [destruct pre_i; discriminate|].
  rewrite Hpe. reflexivity.
Qed.

(** ** mismatched period *)

Lemma holder_set_input_mismatch v n h P a :
  eternal v = false ->
  (p_unit P = Eternity
   \/ (v_rule v = RNone /\ List.length a = n /\ (p_unit P <> v_def v \/ 1 < p_size P))) ->
  holder_set_input v n h P a = Err EMismatch.
Proof.
  intros Hv [HE|(Hr & Hl & Hm)]; unfold holder_set_input; rewrite Hv; cbn [negb].
  - rewrite HE. reflexivity.
  - destruct (unit_eqb (p_unit P) Eternity); [reflexivity|]. cbn [andb]. rewrite Hr.
    unfold holder_set, check_len. rewrite Hl, Nat.eqb_refl. cbn [bind]. rewrite Hv.
    destruct Hm as [Hu|Hs].
    + assert (unit_eqb (v_def v) (p_unit P) = false) as ->; [|reflexivity].
      destruct (v_def v), (p_unit P); try reflexivity; exfalso; apply Hu; reflexivity.
    + assert (1 <? p_size P = true) as -> by (apply Z.ltb_lt; assumption).
      rewrite orb_true_r. reflexivity.
Qed.

(* the period mismatch met while the buffer of a population is flushed becomes the situation
   error; the variables flushed before ([pre]) were accepted *)
Lemma flush_buffer_mismatch s e count pre vn entries post hs hs' v :
  flush_buffer s e count pre hs = Ok hs' ->
  find_var vn (s_vars s) = Some v -> v_entity v = e_key e ->
  flush_periods v count (match aget vn hs' with Some h => h | None => [] end) (sort_periods entries)
  = Err EMismatch ->
  flush_buffer s e count (pre ++ (vn, entries) :: post) hs = Err ESituation.
Proof.
  revert hs. induction pre as [|[vn0 en0] pre IH]; intros hs Hpre Hv He Hf; cbn [app flush_buffer].
  - cbn [flush_buffer] in Hpre. inversion Hpre; subst hs'.
    rewrite Hv, He, String.eqb_refl. cbn [negb]. rewrite Hf. reflexivity.
  - cbn [flush_buffer] in Hpre.
    destruct (find_var vn0 (s_vars s)) as [v0|]; [|apply IH; assumption].
    destruct (negb (String.eqb (v_entity v0) (e_key e))); [apply IH; assumption|].
    destruct (flush_periods v0 count _ (sort_periods en0)) as [h|k]; [apply IH; assumption|].
    destruct k; discriminate.
Qed.

(** ** persons in groups *)

Lemma allocate_list_err pids l : forall todo e,
  allocate_list pids todo l = Err e -> e = ESituation.
Proof.
  induction l as [|j l IH]; intros todo e; cbn [allocate_list]; [discriminate|].
  destruct j; try (intros H; inversion H; reflexivity).
  destruct (negb (mem_str s pids)); [intros H; inversion H; reflexivity|].
  destruct (negb (mem_str s todo)); [intros H; inversion H; reflexivity|].
  apply IH.
Qed.

Lemma allocate_roles_err pids rj : forall todo e,
  allocate_roles pids todo rj = Err e -> e = ESituation.
Proof.
  induction rj as [|[r j] rj IH]; intros todo e; cbn [allocate_roles]; [discriminate|].
  destruct j; try (intros H; inversion H; reflexivity).
  destruct (allocate_list pids todo l) eqn:A; cbn [bind].
  - apply IH.
  - intros H; inversion H; subst. eapply allocate_list_err; eassumption.
Qed.

(* what is still to allocate only shrinks, and loses the persons just allocated *)
Lemma allocate_list_todo pids l : forall todo todo',
  allocate_list pids todo l = Ok todo' ->
  (forall p, In p todo' -> In p todo) /\ (forall p, In (JStr p) l -> ~ In p todo').
Proof.
  induction l as [|j l IH]; intros todo todo'; cbn [allocate_list].
  - intros H; inversion H; subst. split; [auto|]. intros p [].
  - destruct j; try discriminate.
    destruct (negb (mem_str s pids)); [discriminate|].
    destruct (negb (mem_str s todo)); [discriminate|].
    intros H. apply IH in H. destruct H as [H1 H2]. split.
    + intros p Hp. apply H1 in Hp. apply filter_In in Hp. tauto.
    + intros p [E|Hp]; [|apply H2; assumption].
      inversion E; subst. intros Hin. apply H1 in Hin. apply filter_In in Hin.
      destruct Hin as [_ Hin]. rewrite String.eqb_refl in Hin. discriminate.
Qed.

Lemma allocate_list_unknown_person pids l pid : forall todo,
  In (JStr pid) l -> ~ In pid pids -> allocate_list pids todo l = Err ESituation.
Proof.
  induction l as [|j l IH]; intros todo Hin Hp; [destruct Hin|]. cbn [allocate_list].
  destruct j; try reflexivity.
  destruct (negb (mem_str s pids)) eqn:M; [reflexivity|].
  destruct (negb (mem_str s todo)); [reflexivity|].
  destruct Hin as [E|Hin]; [|apply IH; assumption].
  inversion E; subst. apply negb_false_iff, mem_str_In in M. contradiction.
Qed.

Lemma allocate_list_not_to_allocate pids l pid : forall todo,
  In (JStr pid) l -> ~ In pid todo -> allocate_list pids todo l = Err ESituation.
Proof.
  induction l as [|j l IH]; intros todo Hin Hp; [destruct Hin|]. cbn [allocate_list].
  destruct j; try reflexivity.
  destruct (negb (mem_str s pids)); [reflexivity|].
  destruct (negb (mem_str s todo)) eqn:M; [reflexivity|].
  destruct Hin as [E|Hin].
  - inversion E; subst. apply negb_false_iff, mem_str_In in M. contradiction.
  - apply IH; [assumption|]. intros I. apply filter_In in I. tauto.
Qed.

(* the same person twice in one list *)
Lemma allocate_list_duplicate pids l1 l2 pid todo :
  In (JStr pid) l1 -> allocate_list pids todo (l1 ++ JStr pid :: l2) = Err ESituation.
Proof.
  intros Hin.
  assert (forall l1 todo, allocate_list pids todo (l1 ++ JStr pid :: l2)
           = bind (allocate_list pids todo l1)
                  (fun t => allocate_list pids t (JStr pid :: l2))) as App.
  { clear. induction l1 as [|j l1 IH]; intros todo; cbn [app allocate_list]; [reflexivity|].
    destruct j; try reflexivity.
    destruct (negb (mem_str s pids)); [reflexivity|].
    destruct (negb (mem_str s todo)); [reflexivity|]. apply IH. }
  rewrite App. destruct (allocate_list pids todo l1) as [t|e] eqn:A; cbn [bind].
  - apply allocate_list_not_to_allocate with (pid := pid); [left; reflexivity|].
    eapply (proj2 (allocate_list_todo _ _ _ _ A)). assumption.
  - apply allocate_list_err in A. subst. reflexivity.
Qed.

(* ... or in the lists of two roles, or of an earlier group ([todo] no longer has the person) *)
Lemma allocate_roles_not_to_allocate pids rj r l pid : forall todo,
  In (r, JArr l) rj -> In (JStr pid) l -> ~ In pid todo ->
  allocate_roles pids todo rj = Err ESituation.
Proof.
  induction rj as [|[r0 j0] rj IH]; intros todo Hin Hl Hp; [destruct Hin|]. cbn [allocate_roles].
  destruct Hin as [E|Hin].
  - inversion E; subst. erewrite allocate_list_not_to_allocate; eauto.
  - destruct j0; try reflexivity.
    destruct (allocate_list pids todo l0) as [t|e] eqn:A; cbn [bind].
    + eapply IH; eauto. intros I. apply Hp. eapply (proj1 (allocate_list_todo _ _ _ _ A)). assumption.
    + apply allocate_list_err in A. subst. reflexivity.
Qed.

Lemma allocate_roles_unknown_person pids rj r l pid : forall todo,
  In (r, JArr l) rj -> In (JStr pid) l -> ~ In pid pids ->
  allocate_roles pids todo rj = Err ESituation.
Proof.
  induction rj as [|[r0 j0] rj IH]; intros todo Hin Hl Hp; [destruct Hin|]. cbn [allocate_roles].
  destruct Hin as [E|Hin].
  - inversion E; subst. erewrite allocate_list_unknown_person; eauto.
  - destruct j0; try reflexivity.
    destruct (allocate_list pids todo l0) as [t|e] eqn:A; cbn [bind].
    + eapply IH; eauto.
    + apply allocate_list_err in A. subst. reflexivity.
Qed.

Lemma assign_roles_err pids gidx rj : forall mr e,
  assign_roles pids gidx rj mr = Err e -> e = ESituation.
Proof.
  induction rj as [|[r j] rj IH]; intros mr e; cbn [assign_roles]; [discriminate|].
  destruct (r_max r) as [mx|]; [|apply IH].
  destruct (mx <? _); [intros H; inversion H; reflexivity|apply IH].
Qed.

(* more holders of a role than its maximum *)
Lemma assign_roles_too_many pids gidx rj r l mx : forall mr,
  In (r, JArr l) rj -> r_max r = Some mx -> mx < Z.of_nat (List.length (person_ids_of l)) ->
  assign_roles pids gidx rj mr = Err ESituation.
Proof.
  induction rj as [|[r0 j0] rj IH]; intros mr Hin Hm Hl; [destruct Hin|]. cbn [assign_roles].
  destruct Hin as [E|Hin].
  - inversion E; subst. rewrite Hm.
    assert (mx <? Z.of_nat (List.length (person_ids_of l)) = true) as -> by (apply Z.ltb_lt; assumption).
    reflexivity.
  - destruct (r_max r0) as [mx0|]; [|eapply IH; eauto].
    destruct (mx0 <? _); [reflexivity|eapply IH; eauto].
Qed.

(** the group whose role lists hold an unknown person, a person already allocated or too many
    holders is refused as soon as it is read *)
Lemma group_instance_rejected x s e pids eids gid fields rest st todo mr :
  (allocate_roles pids todo (roles_json e fields) = Err ESituation
   \/ (exists todo', allocate_roles pids todo (roles_json e fields) = Ok todo'
       /\ forall gi, assign_roles pids gi (roles_json e fields) mr = Err ESituation)) ->
  In gid eids ->
  add_group_instances x s e pids eids ((gid, JObj fields) :: rest) st todo mr = Err ESituation.
Proof.
  intros H Hg. cbn [add_group_instances]. destruct H as [H|(todo' & H & H')].
  - rewrite H. reflexivity.
  - rewrite H. cbn [bind].
    destruct (index_of gid eids) eqn:I.
    + rewrite H'. reflexivity.
    + exfalso. clear -Hg I. induction eids as [|a l IH]; [destruct Hg|].
      cbn [index_of] in I. destruct (String.eqb a gid) eqn:Q; [discriminate|].
      destruct Hg as [->|Hg]; [rewrite String.eqb_refl in Q; discriminate|].
      destruct (index_of gid l); [discriminate|]. apply IH; [assumption|reflexivity].
Qed.

(** * 4. What the builder stores *)

Lemma bp_unit_eqb_eq a b : unit_eqb a b = true <-> a = b.
Proof. destruct a, b; cbn; split; intros H; try reflexivity; discriminate. Qed.

Lemma bp_period_eqb_eq p q : period_eqb p q = true <-> p = q.
Proof.
  destruct p as [[u s] n], q as [[u' s'] n'].
  unfold period_eqb, p_unit, p_start, p_size; cbn [fst snd].
  rewrite !andb_true_iff, bp_unit_eqb_eq, CalProofs.date_eqb_eq, Z.eqb_eq.
  split; [intros [[-> ->] ->]; reflexivity | intros H; inversion H; auto].
Qed.

Lemma bp_period_eqb_refl p : period_eqb p p = true.
Proof. apply bp_period_eqb_eq. reflexivity. Qed.

Lemma bp_period_eqb_neq p q : p <> q -> period_eqb p q = false.
Proof.
  intros H. destruct (period_eqb p q) eqn:E; [|reflexivity].
  apply bp_period_eqb_eq in E. contradiction.
Qed.

Lemma aget_aset_same {A} k (v : A) l : aget k (aset k v l) = Some v.
Proof.
  induction l as [|[k' w] l IH]; cbn [aset aget].
  - rewrite String.eqb_refl. reflexivity.
  - destruct (String.eqb k' k) eqn:E; cbn [aget]; rewrite E; [reflexivity|assumption].
Qed.

Lemma aget_aset_other {A} k k' (v : A) l : k <> k' -> aget k (aset k' v l) = aget k l.
Proof.
  intros N. induction l as [|[k0 w] l IH]; cbn [aset aget].
  - destruct (String.eqb k' k) eqn:E; [apply String.eqb_eq in E; congruence|reflexivity].
  - destruct (String.eqb k0 k') eqn:E; cbn [aget].
    + apply String.eqb_eq in E. subst k0.
      destruct (String.eqb k' k) eqn:E'; [apply String.eqb_eq in E'; congruence|reflexivity].
    + destruct (String.eqb k0 k); [reflexivity|assumption].
Qed.

Lemma hget_hput_same h p a : hget (hput h p a) p = Some a.
Proof.
  induction h as [|[k w] h IH]; cbn [hput hget].
  - rewrite bp_period_eqb_refl. reflexivity.
  - destruct (period_eqb k p) eqn:E; cbn [hget]; rewrite E; [reflexivity|assumption].
Qed.

Lemma hget_hput_other h p q a : q <> p -> hget (hput h p a) q = hget h q.
Proof.
  intros N. induction h as [|[k w] h IH]; cbn [hput hget].
  - rewrite bp_period_eqb_neq; [reflexivity|congruence].
  - destruct (period_eqb k p) eqn:E; cbn [hget].
    + apply bp_period_eqb_eq in E. subst k. rewrite !bp_period_eqb_neq by congruence. reflexivity.
    + destruct (period_eqb k q); [reflexivity|assumption].
Qed.

Lemma aget_app_fresh {A} k (v : A) l : aget k l = None -> aget k (l ++ [(k, v)]) = Some v.
Proof.
  induction l as [|[k' w] l IH]; cbn [app aget]; intros H.
  - rewrite String.eqb_refl. reflexivity.
  - destruct (String.eqb k' k); [discriminate|apply IH; assumption].
Qed.

Lemma aget_app_other {A} k k' (v : A) l : k <> k' -> aget k (l ++ [(k', v)]) = aget k l.
Proof.
  intros N. induction l as [|[k0 w] l IH]; cbn [app aget].
  - destruct (String.eqb k' k) eqn:E; [apply String.eqb_eq in E; congruence|reflexivity].
  - destruct (String.eqb k0 k); [reflexivity|assumption].
Qed.

Lemma buf_get_touch b vn vn' p : buf_get (buf_touch b vn) vn' p = buf_get b vn' p.
Proof.
  unfold buf_touch, buf_get. destruct (aget vn b) eqn:E; [reflexivity|].
  destruct (String.eqb vn' vn) eqn:Q.
  - apply String.eqb_eq in Q. subst. rewrite aget_app_fresh, E by assumption. reflexivity.
  - rewrite aget_app_other; [reflexivity|]. intros ->. rewrite String.eqb_refl in Q. discriminate.
Qed.

Lemma buf_get_put_same b vn p a : buf_get (buf_put b vn p a) vn p = Some a.
Proof.
  unfold buf_put, buf_get. destruct (aget vn b) eqn:E.
  - rewrite aget_aset_same. apply hget_hput_same.
  - rewrite aget_app_fresh by assumption. cbn [hget]. rewrite bp_period_eqb_refl. reflexivity.
Qed.

Lemma buf_get_put_other b vn p a vn' p' :
  (vn', p') <> (vn, p) -> buf_get (buf_put b vn p a) vn' p' = buf_get b vn' p'.
Proof.
  intros N. unfold buf_put, buf_get. destruct (String.eqb vn' vn) eqn:Q.
  - apply String.eqb_eq in Q. subst vn'.
    assert (p' <> p) as Np by congruence.
    destruct (aget vn b) eqn:E.
    + rewrite aget_aset_same. apply hget_hput_other. assumption.
    + rewrite aget_app_fresh by assumption. cbn [hget]. rewrite bp_period_eqb_neq by congruence.
      reflexivity.
  - assert (vn' <> vn) as Nv by (intros ->; rewrite String.eqb_refl in Q; discriminate).
    destruct (aget vn b) eqn:E.
    + rewrite aget_aset_other by assumption. reflexivity.
    + rewrite aget_app_other by assumption. reflexivity.
Qed.

Lemma nth_error_list_set_same {A} (l : list A) n x :
  (n < List.length l)%nat -> nth_error (list_set n x l) n = Some x.
Proof.
  revert n. induction l as [|y l IH]; intros n H; cbn [List.length] in H; [lia|].
  destruct n; cbn [list_set nth_error]; [reflexivity|]. apply IH. lia.
Qed.

Lemma nth_error_list_set_other {A} (l : list A) n m x :
  n <> m -> nth_error (list_set n x l) m = nth_error l m.
Proof.
  revert n m. induction l as [|y l IH]; intros n m H; [destruct n; reflexivity|].
  destruct n, m; cbn [list_set nth_error]; try reflexivity; [congruence|]. apply IH. congruence.
Qed.

Lemma list_set_length {A} (l : list A) n x : List.length (list_set n x l) = List.length l.
Proof.
  revert n. induction l as [|y l IH]; intros n; [destruct n; reflexivity|].
  destruct n; cbn [list_set List.length]; [reflexivity|]. rewrite IH. reflexivity.
Qed.

(** add_variable_value places the converted value in the array buffered under the canonical
    form of the key, at the instance's index; every other cell of that array, every other
    buffered array, the ids, memberships and roles are untouched. *)
Lemma add_variable_value_spec x st e v idx t value st' :
  value <> JNull ->
  add_variable_value x st e v idx t value = Ok st' ->
  exists p c old,
    canon_key (tok x t) = Ok p /\ check_set_value x v value = Ok c /\
    old = match buf_get (b_buffer st) (v_name v) p with
          | Some a => a
          | None => default_array v (get_count st (e_plural e))
          end /\
    (idx < List.length old)%nat /\
    buf_get (b_buffer st') (v_name v) p = Some (list_set idx c old) /\
    (forall vn' p', (vn', p') <> (v_name v, p) ->
                    buf_get (b_buffer st') vn' p' = buf_get (b_buffer st) vn' p') /\
    b_ids st' = b_ids st /\ b_members st' = b_members st /\ b_roles st' = b_roles st /\
    b_ax_ids st' = b_ax_ids st.
Proof.
  intros Hn H. unfold add_variable_value in H.
  assert (bind (canon_key (tok x t)) (fun p =>
            let b := buf_touch (b_buffer st) (v_name v) in
            let array := match buf_get b (v_name v) p with
                         | Some a => a
                         | None => default_array v (get_count st (e_plural e)) end in
            match check_set_value x v value with
            | Ok c => if Nat.ltb idx (List.length array)
                      then Ok (set_buffer st (buf_put b (v_name v) p (list_set idx c array)))
                      else Err EIndex
            | Err EValue => Err ESituation
            | Err k => Err k
            end) = Ok st') as H'.
  { destruct value; try contradiction; exact H. }
  clear H. apply bind_ok in H'. destruct H' as (p & Hp & H).
  cbv zeta in H. rewrite buf_get_touch in H.
  destruct (check_set_value x v value) as [c|k] eqn:C; [|destruct k; discriminate].
  destruct (Nat.ltb idx _) eqn:L; [|discriminate]. inversion H; subst st'. clear H.
  apply Nat.ltb_lt in L.
  exists p, c, (match buf_get (b_buffer st) (v_name v) p with
                | Some a => a | None => default_array v (get_count st (e_plural e)) end).
  repeat split; try assumption; cbn [set_buffer b_buffer b_ids b_members b_roles b_ax_ids].
  - apply buf_get_put_same.
  - intros vn' p' N. rewrite buf_get_put_other by assumption. apply buf_get_touch.
Qed.

(** ** memberships and roles *)

Lemma index_of_inj l : forall p q k, index_of p l = Some k -> index_of q l = Some k -> p = q.
Proof.
  induction l as [|a l IH]; intros p q k; cbn [index_of]; [discriminate|].
  destruct (String.eqb a p) eqn:Ep, (String.eqb a q) eqn:Eq.
  - apply String.eqb_eq in Ep, Eq. congruence.
  - intros H1 H2. inversion H1; subst. destruct (index_of q l); discriminate.
  - intros H1 H2. inversion H2; subst. destruct (index_of p l); discriminate.
  - destruct (index_of p l) eqn:Ip, (index_of q l) eqn:Iq; try discriminate.
    intros H1 H2. inversion H1; inversion H2; subst. eapply IH; [eassumption|].
    rewrite Iq. f_equal. lia.
Qed.

Lemma index_of_lt l p k : index_of p l = Some k -> (k < List.length l)%nat.
Proof.
  revert k. induction l as [|a l IH]; intros k; cbn [index_of]; [discriminate|].
  destruct (String.eqb a p); [intros H; inversion H; cbn; lia|].
  destruct (index_of p l); [|discriminate]. intros H; inversion H; subst.
  specialize (IH _ eq_refl). cbn. lia.
Qed.

(* the members of one role list: each gets the group's index and the (sub-)role of its rank;
   the entries of the other persons are untouched *)
Lemma assign_members_spec pids r gidx l : forall i mr,
  NoDup l ->
  List.length (fst mr) = List.length pids -> List.length (snd mr) = List.length pids ->
  let mr' := assign_members pids r gidx i l mr in
  List.length (fst mr') = List.length pids /\ List.length (snd mr') = List.length pids /\
  (forall j pid k, nth_error l j = Some pid -> index_of pid pids = Some k ->
     nth_error (fst mr') k = Some gidx /\ nth_error (snd mr') k = Some (role_at r (i + j))) /\
  (forall k, (forall pid, In pid l -> index_of pid pids <> Some k) ->
     nth_error (fst mr') k = nth_error (fst mr) k /\ nth_error (snd mr') k = nth_error (snd mr) k).
Proof.
  induction l as [|pid l IH]; intros i mr ND L1 L2; cbn [assign_members].
  - split; [assumption|]. split; [assumption|]. split.
    + intros [|j] q k H; discriminate.
    + intros k _. split; reflexivity.
  - inversion ND as [|? ? Hnotin ND']; subst.
    set (mr1 := match index_of pid pids with
                | Some k => (list_set k gidx (fst mr), list_set k (role_at r i) (snd mr))
                | None => mr end).
    assert (List.length (fst mr1) = List.length pids /\ List.length (snd mr1) = List.length pids)
      as [L1' L2'].
    { unfold mr1. destruct (index_of pid pids); cbn [fst snd]; rewrite ?list_set_length; auto. }
    specialize (IH (S i) mr1 ND' L1' L2'). cbv zeta in IH.
    destruct IH as (A & B & C & D). split; [assumption|]. split; [assumption|]. split.
    + intros [|j] q k Hq Hk; cbn [nth_error] in Hq.
      * inversion Hq; subst q.
        assert (forall pid0, In pid0 l -> index_of pid0 pids <> Some k) as Fr.
        { intros p0 Hp0 E. assert (p0 = pid) by (eapply index_of_inj; eassumption). subst. contradiction. }
        destruct (D k Fr) as [D1 D2]. rewrite D1, D2. unfold mr1. rewrite Hk. cbn [fst snd].
        pose proof (index_of_lt _ _ _ Hk) as Lt.
        rewrite !nth_error_list_set_same by lia. rewrite Nat.add_0_r. split; reflexivity.
      * replace (i + S j)%nat with (S i + j)%nat by lia. eapply C; eassumption.
    + intros k Fr. destruct (D k) as [D1 D2].
      { intros p0 Hp0. apply Fr. right. assumption. }
      rewrite D1, D2. unfold mr1. destruct (index_of pid pids) as [k0|] eqn:E; [|split; reflexivity].
      cbn [fst snd]. assert (k0 <> k) as N.
      { intros ->. eapply Fr; [left; reflexivity|eassumption]. }
      rewrite !nth_error_list_set_other by assumption. split; reflexivity.
Qed.

(* persons left out: person [own_j] gets the fresh group [g + j] and the first role; the
   entries of the other persons are untouched *)
Lemma allocate_own_spec pids first own : forall g mr,
  NoDup own ->
  List.length (fst mr) = List.length pids -> List.length (snd mr) = List.length pids ->
  let mr' := allocate_own pids g first own mr in
  List.length (fst mr') = List.length pids /\ List.length (snd mr') = List.length pids /\
  (forall j pid k, nth_error own j = Some pid -> index_of pid pids = Some k ->
     nth_error (fst mr') k = Some (Z.of_nat (g + j)) /\ nth_error (snd mr') k = Some first) /\
  (forall k, (forall pid, In pid own -> index_of pid pids <> Some k) ->
     nth_error (fst mr') k = nth_error (fst mr) k /\ nth_error (snd mr') k = nth_error (snd mr) k).
Proof.
  induction own as [|pid own IH]; intros g mr ND L1 L2; cbn [allocate_own].
  - split; [assumption|]. split; [assumption|]. split.
    + intros [|j] q k H; discriminate.
    + intros k _. split; reflexivity.
  - inversion ND as [|? ? Hnotin ND']; subst.
    set (mr1 := match index_of pid pids with
                | Some k => (list_set k (Z.of_nat g) (fst mr), list_set k first (snd mr))
                | None => mr end).
    assert (List.length (fst mr1) = List.length pids /\ List.length (snd mr1) = List.length pids)
      as [L1' L2'].
    { unfold mr1. destruct (index_of pid pids); cbn [fst snd]; rewrite ?list_set_length; auto. }
    specialize (IH (S g) mr1 ND' L1' L2'). cbv zeta in IH.
    destruct IH as (A & B & C & D). split; [assumption|]. split; [assumption|]. split.
    + intros [|j] q k Hq Hk; cbn [nth_error] in Hq.
      * inversion Hq; subst q.
        assert (forall pid0, In pid0 own -> index_of pid0 pids <> Some k) as Fr.
        { intros p0 Hp0 E. assert (p0 = pid) by (eapply index_of_inj; eassumption). subst. contradiction. }
        destruct (D k Fr) as [D1 D2]. rewrite D1, D2. unfold mr1. rewrite Hk. cbn [fst snd].
        pose proof (index_of_lt _ _ _ Hk) as Lt.
        rewrite !nth_error_list_set_same by lia. rewrite Nat.add_0_r. split; reflexivity.
      * replace (g + S j)%nat with (S g + j)%nat by lia. eapply C; eassumption.
    + intros k Fr. destruct (D k) as [D1 D2].
      { intros p0 Hp0. apply Fr. right. assumption. }
      rewrite D1, D2. unfold mr1. destruct (index_of pid pids) as [k0|] eqn:E; [|split; reflexivity].
      cbn [fst snd]. assert (k0 <> k) as N.
      { intros ->. eapply Fr; [left; reflexivity|eassumption]. }
      rewrite !nth_error_list_set_other by assumption. split; reflexivity.
Qed.

(* the arrays of the group kind's variables are padded with the default: the declared groups
   keep their values, the added groups hold the default *)
Lemma pad_array_spec v n a :
  (List.length a <= n)%nat ->
  List.length (pad_array v n a) = n /\
  (forall i, (i < List.length a)%nat -> nth_error (pad_array v n a) i = nth_error a i) /\
  (forall i, (List.length a <= i < n)%nat -> nth_error (pad_array v n a) i = Some (v_default v)).
Proof.
  intros L. unfold pad_array, default_array. repeat split.
  - rewrite app_length, repeat_length. lia.
  - intros i Hi. apply nth_error_app1. assumption.
  - intros i Hi. rewrite nth_error_app2 by lia.
    apply nth_error_repeat. lia.
Qed.

(** ** ids *)

Lemma add_variable_value_ids x st e v idx t value st' :
  add_variable_value x st e v idx t value = Ok st' ->
  b_ids st' = b_ids st /\ b_ax_ids st' = b_ax_ids st.
Proof.
  destruct value; try (intros H; apply add_variable_value_spec in H; [|discriminate];
                       destruct H as (p & c & old & H); tauto).
  cbn. intros H; inversion H; subst. split; reflexivity.
Qed.

Lemma add_dated_ids x e v idx l : forall st st',
  add_dated x st e v idx l = Ok st' -> b_ids st' = b_ids st /\ b_ax_ids st' = b_ax_ids st.
Proof.
  induction l as [|[t value] l IH]; intros st st'; cbn [add_dated].
  - intros H; inversion H; subst. split; reflexivity.
  - destruct (parse_key (tok x t)); [|discriminate]. intros H. apply bind_ok in H.
    destruct H as (st1 & H1 & H2). apply add_variable_value_ids in H1. apply IH in H2.
    destruct H1 as [A1 A2], H2 as [B1 B2]. split; congruence.
Qed.

Lemma init_variable_values_ids x s e id fields : forall st st',
  init_variable_values x s st e fields id = Ok st' ->
  b_ids st' = b_ids st /\ b_ax_ids st' = b_ax_ids st.
Proof.
  induction fields as [|[vn vals] fields IH]; intros st st'; cbn [init_variable_values].
  - intros H; inversion H; subst. split; reflexivity.
  - destruct (find_var vn (s_vars s)); [|discriminate].
    destruct (negb _); [discriminate|]. destruct (index_of id _); [|discriminate].
    destruct vals; try discriminate. intros H. apply bind_ok in H.
    destruct H as (st1 & H1 & H2). apply add_dated_ids in H1. apply IH in H2.
    destruct H1 as [A1 A2], H2 as [B1 B2]. split; congruence.
Qed.

Lemma add_person_instances_ids x s l : forall st st',
  add_person_instances x s st l = Ok st' -> b_ids st' = b_ids st /\ b_ax_ids st' = b_ax_ids st.
Proof.
  induction l as [|[pid j] l IH]; intros st st'; cbn [add_person_instances].
  - intros H; inversion H; subst. split; reflexivity.
  - destruct j; try discriminate. intros H. apply bind_ok in H.
    destruct H as (st1 & H1 & H2). apply init_variable_values_ids in H1. apply IH in H2.
    destruct H1 as [A1 A2], H2 as [B1 B2]. split; congruence.
Qed.

(** one person per declared id, in declaration order *)
Lemma add_person_entity_ids x s instances st :
  add_person_entity x s b_empty instances = Ok st ->
  get_ids st (e_plural (s_person s)) = map fst instances.
Proof.
  unfold add_person_entity. intros H. apply add_person_instances_ids in H.
  destruct H as [Hi Ha]. unfold get_ids, ids_of. rewrite Ha, Hi. cbn.
  rewrite String.eqb_refl. reflexivity.
Qed.

Lemma add_group_instances_ids x s e pids eids l : forall st todo mr st' todo' mr',
  add_group_instances x s e pids eids l st todo mr = Ok (st', todo', mr') ->
  b_ids st' = b_ids st /\ b_ax_ids st' = b_ax_ids st.
Proof.
  induction l as [|[gid j] l IH]; intros st todo mr st' todo' mr'; cbn [add_group_instances].
  - intros H; inversion H; subst. split; reflexivity.
  - destruct j; try discriminate. intros H. apply bind_ok in H. destruct H as (t1 & _ & H).
    destruct (index_of gid eids); [|discriminate].
    apply bind_ok in H. destruct H as (m1 & _ & H).
    apply bind_ok in H. destruct H as (st1 & H1 & H2).
    apply init_variable_values_ids in H1. apply IH in H2.
    destruct H1 as [A1 A2], H2 as [B1 B2]. split; congruence.
Qed.

(** one group per declared id, in declaration order, then one per person left out (in the
    order [set_order] gives) *)
Lemma add_group_entity_ids x s st pids e instances st' :
  add_group_entity x s st pids e (JObj instances) = Ok st' ->
  exists st1 todo mr,
    add_group_instances x s e pids (map fst instances) instances
      (set_ids st (e_plural e) (map fst instances)) pids
      (repeat 0 (List.length pids), repeat EmptyString (List.length pids)) = Ok (st1, todo, mr) /\
    aget (e_plural e) (b_ids st') = Some (map fst instances ++ match todo with [] => [] | _ => set_order x todo end).
Proof.
  unfold add_group_entity. intros H. apply bind_ok in H. destruct H as ([[st1 todo] mr] & H1 & H2).
  exists st1, todo, mr. split; [assumption|].
  pose proof (add_group_instances_ids _ _ _ _ _ _ _ _ _ _ _ _ H1) as [Hi _].
  destruct todo as [|t todo].
  - inversion H2; subst st'. cbn [set_roles set_members b_ids]. rewrite Hi. cbn [set_ids b_ids].
    rewrite aget_aset_same, app_nil_r. reflexivity.
  - inversion H2; subst st'. cbn [set_roles set_members set_buffer set_ids b_ids].
    rewrite aget_aset_same. reflexivity.
Qed.

(** * 5. Axes: the entities of the expanded situation are the concatenation of the copies *)

Lemma repeat_list_concat {A} (l : list A) n : repeat_list l n = List.concat (repeat l n).
Proof. induction n as [|n IH]; cbn [repeat_list repeat List.concat]; [reflexivity|]. rewrite IH. reflexivity. Qed.

Lemma repeat_list_length {A} (l : list A) n : List.length (repeat_list l n) = (n * List.length l)%nat.
Proof. induction n as [|n IH]; cbn [repeat_list]; [reflexivity|]. rewrite app_length, IH. lia. Qed.

(* copy number k (from 0) of the memberships points into the k-th block of [cnt] groups *)
Lemma tile_members_concat m cnt cells : forall k,
  tile_members m cnt k cells
  = List.concat (map (fun c => map (fun i => i + Z.of_nat c * cnt) m) (seq k cells)).
Proof.
  induction cells as [|cells IH]; intros k; cbn [tile_members seq map List.concat]; [reflexivity|].
  rewrite IH. reflexivity.
Qed.

Lemma suffix_ids_spec l i id :
  nth_error l i = Some id ->
  nth_error (suffix_ids l) i = Some (append id (string_of_nat i)).
Proof.
  unfold suffix_ids. intros H.
  rewrite nth_error_map.
  assert (nth_error (combine l (seq 0 (List.length l))) i = Some (id, i)) as ->; [|reflexivity].
  assert (forall (l : list string) k i id, nth_error l i = Some id ->
            nth_error (combine l (seq k (List.length l))) i = Some (id, (k + i)%nat)) as G.
  { clear. induction l as [|a l IH]; intros k i id H; [destruct i; discriminate|].
    destruct i; cbn [List.length seq combine nth_error] in *.
    - inversion H; subst. rewrite Nat.add_0_r. reflexivity.
    - rewrite (IH (S k) i id H). f_equal. f_equal. lia. }
  apply (G l 0%nat i id H).
Qed.

(* the n-th element of the c-th copy *)
Lemma nth_error_repeat_list {A} (l : list A) cells c i :
  (c < cells)%nat -> (i < List.length l)%nat ->
  nth_error (repeat_list l cells) (c * List.length l + i) = nth_error l i.
Proof.
  revert c. induction cells as [|cells IH]; intros c Hc Hi; [lia|]. cbn [repeat_list].
  destruct c.
  - cbn [Nat.mul Nat.add]. apply nth_error_app1. assumption.
  - rewrite nth_error_app2 by (cbn [Nat.mul]; lia).
    replace (S c * List.length l + i - List.length l)%nat with (c * List.length l + i)%nat
      by (cbn [Nat.mul]; lia).
    apply IH; [lia|assumption].
Qed.

(** * 6. Document level: the persons of the built simulation *)

Lemma add_group_entity_other_ids x s st pids e j st' q :
  add_group_entity x s st pids e j = Ok st' -> q <> e_plural e ->
  aget q (b_ids st') = aget q (b_ids st) /\ b_ax_ids st' = b_ax_ids st.
Proof.
  unfold add_group_entity. destruct j; try discriminate. intros H N.
  apply bind_ok in H. destruct H as ([[st1 todo] mr] & H1 & H2).
  pose proof (add_group_instances_ids _ _ _ _ _ _ _ _ _ _ _ _ H1) as [Hi Ha].
  cbn [set_ids b_ids b_ax_ids] in Hi, Ha.
  destruct todo; inversion H2; subst st';
    cbn [set_roles set_members set_buffer set_ids b_ids b_ax_ids]; rewrite ?Hi, ?Ha;
    rewrite ?aget_aset_other by assumption; split; reflexivity.
Qed.

Lemma add_groups_other_ids x s pids params ax gs q : forall st st',
  add_groups x s st pids params ax gs = Ok st' -> ~ In q (map e_plural gs) ->
  aget q (b_ids st') = aget q (b_ids st) /\ b_ax_ids st' = b_ax_ids st.
Proof.
  induction gs as [|e gs IH]; intros st st'; cbn [add_groups map In].
  - intros H _. inversion H; subst. split; reflexivity.
  - intros H N. apply bind_ok in H. destruct H as (st1 & H1 & H2).
    assert (q <> e_plural e) as Nq by (intros ->; apply N; left; reflexivity).
    apply IH in H2; [|intros I; apply N; right; assumption].
    destruct H2 as [B1 B2].
    assert (aget q (b_ids st1) = aget q (b_ids st) /\ b_ax_ids st1 = b_ax_ids st) as [A1 A2].
    { destruct (aget (e_plural e) params) as [j|].
      - destruct j; try (eapply add_group_entity_other_ids; eassumption);
          destruct ax; try discriminate; inversion H1; subst st1;
          unfold add_default_group_entity; cbn [set_roles set_members set_ids b_ids b_ax_ids];
          rewrite aget_aset_other by assumption; split; reflexivity.
      - destruct ax; try discriminate; inversion H1; subst st1;
          unfold add_default_group_entity; cbn [set_roles set_members set_ids b_ids b_ax_ids];
          rewrite aget_aset_other by assumption; split; reflexivity. }
    split; congruence.
Qed.

(** For every document without axes that builds: the first population is the persons', with
    one person per declared id, in declaration order. *)
Lemma build_persons_ids x s doc sim persons :
  ~ In (e_plural (s_person s)) (map e_plural (s_groups s)) ->
  aget "axes"%string doc = None ->
  aget (e_plural (s_person s)) (aremove "axes" doc) = Some (JObj persons) ->
  build_from_entities x s doc = Ok sim ->
  exists pop rest, sim = pop :: rest /\ p_entity pop = e_key (s_person s)
                   /\ p_ids pop = map fst persons.
Proof.
  intros Hwf Hax Hp H. unfold build_from_entities in H. rewrite Hp, Hax in H.
  destruct (existsb _ (aremove "axes" doc)); [discriminate|].
  destruct persons as [|i instances]; [discriminate|].
  apply bind_ok in H. destruct H as (st1 & H1 & H).
  apply bind_ok in H. destruct H as (st2 & H2 & H).
  cbn [bind] in H. unfold entities in H. cbn [mapM] in H.
  destruct (finalize_population s st2 (s_person s)) as [pop|] eqn:F; [|discriminate].
  destruct (mapM (finalize_population s st2) (s_groups s)) as [rest|]; [|discriminate].
  inversion H; subst sim. exists pop, rest. split; [reflexivity|].
  unfold finalize_population in F. apply bind_ok in F. destruct F as (hs & _ & F).
  inversion F; subst pop. cbn [p_entity p_ids]. split; [reflexivity|].
  pose proof (add_person_entity_ids _ _ _ _ H1) as I1.
  apply add_groups_other_ids with (q := e_plural (s_person s)) in H2; [|assumption].
  destruct H2 as [A1 A2]. unfold get_ids, ids_of in *. rewrite A2, A1. exact I1.
Qed.

(** * Statements as cited by props/C12.v *)

Lemma flush_order_full (A : Type) (entries : list (period * A)) :
  Permutation (sort_periods entries) entries /\
  StronglySorted (fun a b => ~ shorter (fst b) (fst a)) (sort_periods entries) /\
  (forall l1 a l2 b l3, sort_periods entries = l1 ++ a :: l2 ++ b :: l3 -> ~ shorter (fst b) (fst a)).
Proof.
  split; [apply sort_periods_perm|]. split; [apply sort_periods_sorted|]. apply flush_order.
Qed.

Lemma duplicate_membership_full :
  (forall pids rj r l pid todo,
     In (r, JArr l) rj -> In (JStr pid) l -> ~ In pid todo ->
     allocate_roles pids todo rj = Err ESituation) /\
  (forall pids l todo todo',
     allocate_list pids todo l = Ok todo' ->
     (forall p, In p todo' -> In p todo) /\ (forall p, In (JStr p) l -> ~ In p todo')) /\
  (forall pids l1 l2 pid todo,
     In (JStr pid) l1 -> allocate_list pids todo (l1 ++ JStr pid :: l2) = Err ESituation).
Proof.
  split; [|split].
  - intros. eapply allocate_roles_not_to_allocate; eassumption.
  - exact allocate_list_todo.
  - exact allocate_list_duplicate.
Qed.

Lemma unknown_person_full pids rj r l pid todo :
  In (r, JArr l) rj -> In (JStr pid) l -> ~ In pid pids ->
  allocate_roles pids todo rj = Err ESituation.
Proof. intros. eapply allocate_roles_unknown_person; eassumption. Qed.

Lemma too_many_full pids gidx rj r l mx mr :
  In (r, JArr l) rj -> r_max r = Some mx -> mx < Z.of_nat (List.length (person_ids_of l)) ->
  assign_roles pids gidx rj mr = Err ESituation.
Proof. intros. eapply assign_roles_too_many; eassumption. Qed.

Lemma mismatched_period_full :
  (forall v n h P a,
     eternal v = false ->
     (p_unit P = Eternity
      \/ (v_rule v = RNone /\ List.length a = n /\ (p_unit P <> v_def v \/ 1 < p_size P))) ->
     holder_set_input v n h P a = Err EMismatch) /\
  (forall s e count pre vn entries post hs hs' v,
     flush_buffer s e count pre hs = Ok hs' ->
     find_var vn (s_vars s) = Some v -> v_entity v = e_key e ->
     flush_periods v count (match aget vn hs' with Some h => h | None => [] end) (sort_periods entries)
     = Err EMismatch ->
     flush_buffer s e count (pre ++ (vn, entries) :: post) hs = Err ESituation).
Proof. split; [exact holder_set_input_mismatch|exact flush_buffer_mismatch]. Qed.

Lemma build_spec_partial_full :
  (forall x s doc sim persons,
     ~ In (e_plural (s_person s)) (map e_plural (s_groups s)) ->
     aget "axes"%string doc = None ->
     aget (e_plural (s_person s)) (aremove "axes" doc) = Some (JObj persons) ->
     build_from_entities x s doc = Ok sim ->
     exists pop rest, sim = pop :: rest /\ p_entity pop = e_key (s_person s)
                      /\ p_ids pop = map fst persons) /\
  (forall x s st pids e instances st',
     add_group_entity x s st pids e (JObj instances) = Ok st' ->
     exists st1 todo mr,
       add_group_instances x s e pids (map fst instances) instances
         (set_ids st (e_plural e) (map fst instances)) pids
         (repeat 0 (List.length pids), repeat EmptyString (List.length pids)) = Ok (st1, todo, mr) /\
       aget (e_plural e) (b_ids st')
       = Some (map fst instances ++ match todo with [] => [] | _ => set_order x todo end)) /\
  (forall x st e v idx t value st',
     value <> JNull ->
     add_variable_value x st e v idx t value = Ok st' ->
     exists p c old,
       canon_key (tok x t) = Ok p /\ check_set_value x v value = Ok c /\
       old = match buf_get (b_buffer st) (v_name v) p with
             | Some a => a
             | None => default_array v (get_count st (e_plural e))
             end /\
       (idx < List.length old)%nat /\
       buf_get (b_buffer st') (v_name v) p = Some (list_set idx c old) /\
       (forall vn' p', (vn', p') <> (v_name v, p) ->
                       buf_get (b_buffer st') vn' p' = buf_get (b_buffer st) vn' p') /\
       b_ids st' = b_ids st /\ b_members st' = b_members st /\ b_roles st' = b_roles st /\
       b_ax_ids st' = b_ax_ids st).
Proof.
  split; [exact build_persons_ids|]. split; [exact add_group_entity_ids|].
  exact add_variable_value_spec.
Qed.

Lemma own_groups_full :
  (forall pids first own g mr,
     NoDup own ->
     List.length (fst mr) = List.length pids -> List.length (snd mr) = List.length pids ->
     let mr' := allocate_own pids g first own mr in
     List.length (fst mr') = List.length pids /\ List.length (snd mr') = List.length pids /\
     (forall j pid k, nth_error own j = Some pid -> index_of pid pids = Some k ->
        nth_error (fst mr') k = Some (Z.of_nat (g + j)) /\ nth_error (snd mr') k = Some first) /\
     (forall k, (forall pid, In pid own -> index_of pid pids <> Some k) ->
        nth_error (fst mr') k = nth_error (fst mr) k /\ nth_error (snd mr') k = nth_error (snd mr) k)) /\
  (forall v n a, (List.length a <= n)%nat ->
     List.length (pad_array v n a) = n /\
     (forall i, (i < List.length a)%nat -> nth_error (pad_array v n a) i = nth_error a i) /\
     (forall i, (List.length a <= i < n)%nat -> nth_error (pad_array v n a) i = Some (v_default v))).
Proof. split; [exact allocate_own_spec|exact pad_array_spec]. Qed.

Lemma axes_entities_full :
  (forall (l : list string) cells c i id,
     (c < cells)%nat -> nth_error l i = Some id ->
     nth_error (suffix_ids (repeat_list l cells)) (c * List.length l + i)
     = Some (append id (string_of_nat (c * List.length l + i)))) /\
  (forall m cnt cells,
     tile_members m cnt 0 cells
     = List.concat (map (fun c => map (fun i => i + Z.of_nat c * cnt) m) (seq 0 cells))) /\
  (forall (A : Type) (l : list A) n, repeat_list l n = List.concat (repeat l n)).
Proof.
  split; [|split].
  - intros l cells c i id Hc Hi. apply suffix_ids_spec.
    rewrite nth_error_repeat_list; [assumption|assumption|].
    apply nth_error_Some. congruence.
  - intros. apply tile_members_concat.
  - intros. apply repeat_list_concat.
Qed.

(** * Longer periods only fill the gaps *)

Lemma dispatch_tiles_keeps v n T a : eternal v = false -> forall h h',
  dispatch_tiles v n h T a = Ok h' ->
  forall q arr, hget h q = Some arr -> hget h' q = Some arr.
Proof.
  intros He. induction T as [|t T IH]; intros h h' H q arr G; cbn [dispatch_tiles] in H.
  - inversion H; subst. assumption.
  - unfold holder_get, storage_key in H. rewrite He in H.
    destruct (hget h t) eqn:Gt.
    + eapply IH; eassumption.
    + apply bind_ok in H. destruct H as (h1 & H1 & H2). eapply IH; [eassumption|].
      unfold holder_set in H1. apply bind_ok in H1. destruct H1 as (a' & _ & H1).
      rewrite He in H1. destruct (negb _ || _); [discriminate|]. inversion H1; subst h1.
      rewrite hget_hput_other; [assumption|]. intros ->. congruence.
Qed.

(** An input for a variable with a set-input rule (divide or dispatch) never changes an array
    that is already known: together with the flush order (shortest first), what is declared on
    a longer period is distributed only over the sub-periods for which nothing more specific
    was declared. *)
Lemma longer_fills_gaps_only v n h P a h' :
  v_rule v <> RNone ->
  holder_set_input v n h P a = Ok h' ->
  forall q arr, hget h q = Some arr -> hget h' q = Some arr.
Proof.
  intros Hr H q arr G. unfold holder_set_input in H.
  destruct (unit_eqb (p_unit P) Eternity && negb (eternal v)); [discriminate|].
  destruct (v_rule v) eqn:R; [contradiction| |].
  - apply bind_ok in H. destruct H as (a' & _ & H).
    destruct (eternal v) eqn:He; [discriminate|].
    destruct (negb (numeric v)); [discriminate|].
    apply bind_ok in H. destruct H as (T & _ & H).
    unfold divide_tiles in H. apply bind_ok in H. destruct H as (rc & _ & H).
    destruct (0 <? snd rc).
    + apply bind_ok in H. destruct H as (d & _ & H). eapply dispatch_tiles_keeps; eassumption.
    + destruct (forallb cell_is_zero (fst rc)); [|discriminate]. inversion H; subst. assumption.
  - apply bind_ok in H. destruct H as (a' & _ & H).
    destruct (eternal v) eqn:He; [discriminate|].
    apply bind_ok in H. destruct H as (T & _ & H). eapply dispatch_tiles_keeps; eassumption.
Qed.
