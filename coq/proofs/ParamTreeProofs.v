(** Proofs about construction from data (of_yaml), nodes at an instant and scales at an
    instant of the parameter model (model/Param.v), for property C06. *)
From Coq Require Import ZArith List Bool Lia ZifyBool String.
From Verif Require Import Base Cal Period Param ParamProofs.
Import ListNotations.
Open Scope Z_scope.

(** ** of_yaml: sorting, placeholders, refusals *)

Lemma insert_desc_in {A} (x y : Z * A) l : In y (insert_desc x l) <-> y = x \/ In y l.
Proof.
  induction l as [|z t IH]; simpl.
  - intuition.
  - destruct (fst z <=? fst x); simpl; [intuition|]. rewrite IH. intuition.
Qed.

Lemma sort_desc_in {A} (y : Z * A) l : In y (sort_desc l) <-> In y l.
Proof.
  induction l as [|x t IH]; simpl; [tauto|].
  rewrite insert_desc_in, IH. intuition.
Qed.

Lemma insert_desc_sdec {A} (x : Z * A) l :
  sdec l -> ~ In (fst x) (map fst l) -> sdec (insert_desc x l).
Proof.
  induction l as [|z t IH]; simpl; intros Hs Hn.
  - split; [intros ? []|exact I].
  - destruct Hs as [H1 H2]. destruct (fst z <=? fst x) eqn:E; simpl.
    + split; [|split; assumption].
      intros y [Hy|Hy]; [subst y; lia|]. specialize (H1 y Hy). lia.
    + split.
      * intros y Hy. apply insert_desc_in in Hy. destruct Hy as [Hy|Hy]; [subst y; lia|auto].
      * apply IH; [exact H2|]. intros Hin. apply Hn. now right.
Qed.

Lemma sort_desc_sdec {A} (l : list (Z * A)) : NoDup (map fst l) -> sdec (sort_desc l).
Proof.
  induction l as [|x t IH]; simpl; intros Hnd; [exact I|].
  inversion Hnd as [|? ? Hn Hnd']; subst.
  apply insert_desc_sdec; [auto|].
  intros Hin. apply Hn. apply in_map_iff in Hin. destruct Hin as (y & Hy1 & Hy2).
  apply (proj1 (sort_desc_in y t)) in Hy2. apply in_map_iff. exists y. split; [exact Hy1|exact Hy2].
Qed.

(** the entries that carry a value, in the order of the list *)
Fixpoint values_of {V} (l : list (Z * yentry V)) : hist V :=
  match l with
  | [] => []
  | (k, YValue v) :: t => (k, v) :: values_of t
  | _ :: t => values_of t
  end.

Definition refused {V} (e : yentry V) : bool :=
  match e with YInvalid | YBadKey => true | _ => false end.

Lemma load_entries_eq {V} (l : list (Z * yentry V)) :
  load_entries l = if existsb (fun ke => refused (snd ke)) l then Err EOther else Ok (values_of l).
Proof.
  induction l as [|[k e] t IH]; simpl; [reflexivity|].
  destruct e; simpl; try reflexivity; rewrite IH;
    destruct (existsb _ t); reflexivity.
Qed.

Lemma values_of_in {V} (l : list (Z * yentry V)) k v :
  In (k, v) (values_of l) <-> In (k, YValue v) l.
Proof.
  induction l as [|[k0 e] t IH]; simpl; [tauto|].
  destruct e; simpl; rewrite IH; split; intros H;
    try (destruct H as [H|H]; [inversion H; subst; auto|auto]); auto; try discriminate.
Qed.

Lemma values_of_sdec {V} (l : list (Z * yentry V)) : sdec l -> sdec (values_of l).
Proof.
  induction l as [|[k e] t IH]; simpl; [tauto|]. intros [H1 H2].
  destruct e; simpl; auto. split; [|auto].
  intros [k' v'] Hy. apply values_of_in in Hy. apply (H1 _ Hy).
Qed.

Lemma existsb_sort_desc {A} (f : Z * A -> bool) l : existsb f (sort_desc l) = existsb f l.
Proof.
  apply eq_true_iff_eq. rewrite !existsb_exists.
  split; intros (x & Hx & Hf); exists x; (split; [|exact Hf]); now apply sort_desc_in.
Qed.

Lemma of_yaml_eq {V} (w : bool) (entries : list (Z * yentry V)) :
  of_yaml w entries
  = if (w && match entries with [] => true | _ => false end)
       || existsb (fun ke => refused (snd ke)) entries
    then Err EOther
    else Ok (values_of (sort_desc entries)).
Proof.
  unfold of_yaml. destruct w, entries as [|x t]; try reflexivity;
    rewrite load_entries_eq, existsb_sort_desc; reflexivity.
Qed.

Lemma of_yaml_refuses {V} (w : bool) (entries : list (Z * yentry V)) :
  of_yaml w entries = Err EOther
  <-> (w = true /\ entries = [])
      \/ (exists k e, In (k, e) entries /\ (e = YInvalid \/ e = YBadKey)).
Proof.
  rewrite of_yaml_eq.
  destruct (existsb (fun ke => refused (snd ke)) entries) eqn:E.
  - rewrite orb_true_r. split; [intros _|reflexivity]. right.
    apply existsb_exists in E. destruct E as ([k e] & Hin & Hr). exists k, e. split; [exact Hin|].
    destruct e; simpl in Hr; try discriminate; auto.
  - rewrite orb_false_r. destruct w, entries as [|x t]; simpl; split; try discriminate; auto.
    + intros [[_ H]|(k & e & Hin & He)]; [discriminate|].
      exfalso. assert (existsb (fun ke => refused (snd ke)) (x :: t) = true); [|congruence].
      apply existsb_exists. exists (k, e). split; [exact Hin|]. destruct He; subst; reflexivity.
    + intros [[H _]|(k & e & [] & _)]; discriminate.
    + intros [[H _]|(k & e & Hin & He)]; [discriminate|].
      exfalso. assert (existsb (fun ke => refused (snd ke)) (x :: t) = true); [|congruence].
      apply existsb_exists. exists (k, e). split; [exact Hin|]. destruct He; subst; reflexivity.
Qed.

Lemma of_yaml_only_error {V} (w : bool) (entries : list (Z * yentry V)) x :
  of_yaml w entries = Err x -> x = EOther.
Proof.
  rewrite of_yaml_eq. destruct (_ || _); congruence.
Qed.

(** distinct keys (they are the keys of a dict): the history is strictly decreasing and
    holds exactly the entries that carry a value - placeholders are dropped *)
Lemma of_yaml_spec {V} (w : bool) (entries : list (Z * yentry V)) (h : hist V) :
  NoDup (map fst entries) -> of_yaml w entries = Ok h ->
  decreasing h /\ (forall k v, In (k, v) h <-> In (k, YValue v) entries).
Proof.
  intros Hnd. rewrite of_yaml_eq. destruct (_ || _); [discriminate|].
  intros H; inversion H; subst; clear H. split.
  - apply decreasing_sdec. apply values_of_sdec. now apply sort_desc_sdec.
  - intros k v. rewrite values_of_in. apply sort_desc_in.
Qed.

(** the value at a date of a parameter built from data, read off the data *)
Lemma of_yaml_value_at {V} (w : bool) (entries : list (Z * yentry V)) (h : hist V) (d : Z) :
  NoDup (map fst entries) -> of_yaml w entries = Ok h ->
  (exists k v, In (k, YValue v) entries /\ k <= d
      /\ (forall k' v', In (k', YValue v') entries -> k' <= d -> k' <= k)
      /\ get_at h d = v)
  \/ ((forall k v, In (k, YValue v) entries -> d < k) /\ get_at h d = None).
Proof.
  intros Hnd Hy. destruct (of_yaml_spec w entries h Hnd Hy) as [Hdec Hin].
  destruct (get_at_latest_exists h d Hdec) as [(k & v & H1 & H2 & H3 & H4)|[H1 H2]].
  - left. exists k, v. split; [now apply Hin|]. split; [exact H2|]. split; [|exact H4].
    intros k' v' Hin' Hk'. apply (H3 k' v'); [now apply Hin|exact Hk'].
  - right. split; [|exact H2]. intros k v Hk. apply (H1 k v). now apply Hin.
Qed.

(** ** Nodes at an instant *)

(** a leaf is defined at a date when its value there is not None; groups and scales
    always are *)
Definition defined_at (c : tree) (d : Z) : bool :=
  match c with
  | TParam h => is_some (get_at h d)
  | TScale _ | TNode _ => true
  end.

Lemma at_instant_defined (c : tree) (d : Z) :
  defined_at c d = is_some (at_instant c d).
Proof.
  destruct c as [h|s|ch]; simpl.
  - destruct (get_at h d); reflexivity.
  - destruct (scale_at s d); reflexivity.
  - reflexivity.
Qed.

Lemma children_at_spec {A B} (f : A -> option B) (l : list (string * A)) :
  Forall2 (fun nc nx => fst nc = fst nx /\ f (snd nc) = Some (snd nx))
          (filter (fun nc => is_some (f (snd nc))) l) (children_at f l).
Proof.
  induction l as [|[n c] r IH]; simpl; [constructor|].
  destruct (f c) eqn:E; simpl; [|exact IH].
  constructor; [|exact IH]. simpl. auto.
Qed.

Lemma children_at_in {A B} (f : A -> option B) (l : list (string * A)) n x :
  In (n, x) (children_at f l) <-> exists c, In (n, c) l /\ f c = Some x.
Proof.
  induction l as [|[n0 c0] r IH]; simpl.
  - split; [tauto|]. intros (c & [] & _).
  - destruct (f c0) eqn:E; simpl; rewrite IH; split.
    + intros [H|(c & Hin & Hf)]; [inversion H; subst; exists c0; auto|exists c; auto].
    + intros (c & [Hin|Hin] & Hf); [inversion Hin; subst; left; congruence|right; eauto].
    + intros (c & Hin & Hf). exists c; auto.
    + intros (c & [Hin|Hin] & Hf); [inversion Hin; subst; congruence|eauto].
Qed.

Lemma filter_ext_in' {A} (f g : A -> bool) l :
  (forall x, f x = g x) -> filter f l = filter g l.
Proof. intros H. induction l as [|x t IH]; simpl; [reflexivity|]. now rewrite H, IH. Qed.

Lemma node_at_spec (ch : list (string * tree)) (d : Z) :
  exists l, at_instant (TNode ch) d = Some (VNode l)
    /\ Forall2 (fun nc nx => fst nc = fst nx /\ at_instant (snd nc) d = Some (snd nx))
               (filter (fun nc => defined_at (snd nc) d) ch) l
    /\ (forall n x, In (n, x) l <-> exists c, In (n, c) ch /\ at_instant c d = Some x).
Proof.
  exists (children_at (fun c => at_instant c d) ch). split; [reflexivity|]. split.
  - rewrite (filter_ext_in' _ (fun nc => is_some (at_instant (snd nc) d))).
    + apply (children_at_spec (fun c => at_instant c d)).
    + intros x. apply at_instant_defined.
  - intros n x. apply (children_at_in (fun c => at_instant c d)).
Qed.

Lemma member_defined (d : Z) :
  (forall h, at_instant (TParam h) d = match get_at h d with Some v => Some (VValue v) | None => None end)
  /\ (forall s, exists k l, at_instant (TScale s) d = Some (VScale k l) /\ scale_at s d = (k, l))
  /\ (forall ch, exists l, at_instant (TNode ch) d = Some (VNode l)).
Proof.
  repeat split.
  - intros s. cbn [at_instant]. destruct (scale_at s d) as [k l]. exists k, l. split; reflexivity.
  - intros ch. eexists. reflexivity.
Qed.

(** ** Scales at an instant *)

(** which brackets contribute: exactly those whose threshold and whose field of the
    chosen kind are both defined at the date, in declaration order *)
Lemma contributions_spec (k : scale_kind) (brs : list bracket) (d : Z) :
  Forall2 (fun b tx => field_at (b_threshold b) d = Some (fst tx)
                       /\ field_at (kind_field k b) d = Some (snd tx))
          (filter (fun b => is_some (field_at (b_threshold b) d)
                            && is_some (field_at (kind_field k b) d)) brs)
          (contributions k brs d).
Proof.
  unfold contributions. induction brs as [|b r IH]; simpl; [constructor|].
  destruct (field_at (kind_field k b) d) as [x|] eqn:E1;
    destruct (field_at (b_threshold b) d) as [t|] eqn:E2; simpl; try exact IH.
  constructor; [|exact IH]. simpl. auto.
Qed.

Lemma contributions_in (k : scale_kind) (brs : list bracket) (d t x : Z) :
  In (t, x) (contributions k brs d)
  <-> exists b, In b brs /\ field_at (b_threshold b) d = Some t
                /\ field_at (kind_field k b) d = Some x.
Proof.
  unfold contributions. rewrite in_flat_map. split.
  - intros (b & Hb & Hin). exists b. split; [exact Hb|].
    destruct (field_at (kind_field k b) d), (field_at (b_threshold b) d); simpl in Hin; try tauto.
    destruct Hin as [H|[]]. inversion H; subst. auto.
  - intros (b & Hb & Ht & Hx). exists b. split; [exact Hb|]. rewrite Ht, Hx. now left.
Qed.

(** which kind of scale is built *)
Lemma kind_at_spec (s : scale) (d : Z) :
  let has f := exists b, In b (s_brackets s) /\ field_at (f b) d <> None in
  (s_single_amount s = true -> kind_at s d = SingleAmount)
  /\ (s_single_amount s = false -> has b_amount -> kind_at s d = MarginalAmount)
  /\ (s_single_amount s = false -> ~ has b_amount -> has b_average_rate ->
      kind_at s d = LinearAverageRate)
  /\ (s_single_amount s = false -> ~ has b_amount -> ~ has b_average_rate ->
      kind_at s d = MarginalRate).
Proof.
  intros has.
  assert (Hex : forall f, existsb (fun b => is_some (field_at (f b) d)) (s_brackets s) = true <-> has f).
  { intros f. rewrite existsb_exists. unfold has. split; intros (b & Hb & H); exists b; (split; [exact Hb|]).
    - destruct (field_at (f b) d); [discriminate|discriminate H].
    - destruct (field_at (f b) d); [reflexivity|congruence]. }
  unfold kind_at. repeat split; intros Hs; rewrite Hs; try reflexivity.
  - intros Ha. apply Hex in Ha. now rewrite Ha.
  - intros Ha Hr. destruct (existsb _ _) eqn:E1; [apply Hex in E1; contradiction|].
    apply Hex in Hr. now rewrite Hr.
  - intros Ha Hr. destruct (existsb (fun b => is_some (field_at (b_amount b) d)) _) eqn:E1;
      [apply Hex in E1; contradiction|].
    destruct (existsb (fun b => is_some (field_at (b_average_rate b) d)) _) eqn:E2; [apply Hex in E2; contradiction|reflexivity].
Qed.

(** *** add_bracket: equal thresholds are merged (added), the list stays sorted *)

Fixpoint lookup (t : Z) (l : list (Z * Z)) : option Z :=
  match l with
  | [] => None
  | (t', x) :: r => if t' =? t then Some x else lookup t r
  end.

(** strictly increasing thresholds *)
Fixpoint sinc (l : list (Z * Z)) : Prop :=
  match l with
  | [] => True
  | x :: r => (forall y, In y r -> fst x < fst y) /\ sinc r
  end.

Lemma lookup_none_existsb t l : lookup t l = None <-> existsb (fun p => fst p =? t) l = false.
Proof.
  induction l as [|[t' x] r IH]; simpl; [tauto|].
  destruct (t' =? t); simpl; [split; discriminate|exact IH].
Qed.

Lemma lookup_add_to t x l u :
  lookup u (add_to t x l)
  = if u =? t then match lookup t l with Some y => Some (y + x) | None => None end
    else lookup u l.
Proof.
  induction l as [|[t' x'] r IH]; simpl.
  - now destruct (u =? t).
  - destruct (t' =? t) eqn:E; simpl.
    + destruct (u =? t) eqn:E2.
      * replace (t' =? u) with true by lia. reflexivity.
      * replace (t' =? u) with false by lia. reflexivity.
    + rewrite IH. destruct (u =? t) eqn:E2.
      * replace (t' =? u) with false by lia. reflexivity.
      * reflexivity.
Qed.

Lemma lookup_insert t x l u :
  lookup t l = None ->
  lookup u (insert_before_ge t x l) = if u =? t then Some x else lookup u l.
Proof.
  induction l as [|[t' x'] r IH]; simpl; intros Hn.
  - destruct (u =? t) eqn:E; [replace (t =? u) with true by lia|replace (t =? u) with false by lia];
      reflexivity.
  - destruct (t' =? t) eqn:E0; [discriminate|].
    destruct (t <=? t') eqn:E; simpl.
    + destruct (u =? t) eqn:E2; [replace (t =? u) with true by lia|replace (t =? u) with false by lia];
        reflexivity.
    + rewrite (IH Hn). destruct (u =? t) eqn:E2; [|reflexivity].
      replace (t' =? u) with false by lia. reflexivity.
Qed.

Lemma lookup_add_bracket l t x u :
  lookup u (add_bracket l (t, x))
  = if u =? t then Some (match lookup t l with Some y => y + x | None => x end)
    else lookup u l.
Proof.
  unfold add_bracket. destruct (existsb (fun p => fst p =? t) l) eqn:E.
  - rewrite lookup_add_to. destruct (lookup t l) eqn:E2; [reflexivity|].
    apply lookup_none_existsb in E2. congruence.
  - apply lookup_none_existsb in E. rewrite (lookup_insert t x l u E). now rewrite E.
Qed.

Lemma add_to_fst t x l : map fst (add_to t x l) = map fst l.
Proof.
  induction l as [|[t' x'] r IH]; simpl; [reflexivity|].
  destruct (t' =? t); simpl; [reflexivity|now rewrite IH].
Qed.

Lemma sinc_fst l l' : map fst l = map fst l' -> sinc l -> sinc l'.
Proof.
  revert l'. induction l as [|x r IH]; intros [|x' r'] Hm; simpl in *; try discriminate; auto.
  inversion Hm as [[H1 H2]]. intros [Ha Hb]. split; [|now apply IH].
  intros y Hy. assert (Hin : In (fst y) (map fst r)) by (rewrite H2; now apply in_map).
  apply in_map_iff in Hin. destruct Hin as (z & Hz1 & Hz2). specialize (Ha z Hz2). lia.
Qed.

Lemma insert_before_ge_in t x l y :
  In y (insert_before_ge t x l) <-> y = (t, x) \/ In y l.
Proof.
  induction l as [|[t' x'] r IH]; simpl; [intuition|].
  destruct (t <=? t'); simpl; [intuition|]. rewrite IH. intuition.
Qed.

Lemma insert_before_ge_sinc t x l :
  sinc l -> lookup t l = None -> sinc (insert_before_ge t x l).
Proof.
  induction l as [|[t' x'] r IH]; simpl; intros Hs Hn.
  - split; [intros ? []|exact I].
  - destruct (t' =? t) eqn:E0; [discriminate|]. destruct Hs as [H1 H2].
    destruct (t <=? t') eqn:E; simpl.
    + split; [|split; assumption].
      intros y [Hy|Hy]; [subst y; simpl; lia|]. specialize (H1 y Hy). simpl in *. lia.
    + split; [|auto]. intros y Hy. apply insert_before_ge_in in Hy.
      destruct Hy as [Hy|Hy]; [subst y; simpl; lia|auto].
Qed.

Lemma add_bracket_sinc l tx : sinc l -> sinc (add_bracket l tx).
Proof.
  destruct tx as [t x]. intros Hs. unfold add_bracket.
  destruct (existsb (fun p => fst p =? t) l) eqn:E.
  - apply (sinc_fst l); [symmetry; apply add_to_fst|exact Hs].
  - apply insert_before_ge_sinc; [exact Hs|]. now apply lookup_none_existsb.
Qed.

Lemma fold_add_bracket_sinc cs l : sinc l -> sinc (fold_left add_bracket cs l).
Proof.
  revert l. induction cs as [|c cs IH]; simpl; intros l Hs; [exact Hs|].
  apply IH. now apply add_bracket_sinc.
Qed.

(** the sum of the contributions made at threshold [t], None when there is none *)
Definition merged (t : Z) (cs : list (Z * Z)) : option Z :=
  fold_left (fun acc p => if fst p =? t
                          then Some (match acc with Some y => y + snd p | None => snd p end)
                          else acc) cs None.

Lemma fold_add_bracket_lookup cs l t :
  lookup t (fold_left add_bracket cs l)
  = fold_left (fun acc p => if fst p =? t
                            then Some (match acc with Some y => y + snd p | None => snd p end)
                            else acc) cs (lookup t l).
Proof.
  revert l. induction cs as [|[t' x] cs IH]; intros l; [reflexivity|]. cbn [fold_left].
  rewrite IH. f_equal. rewrite lookup_add_bracket. cbn [fst snd].
  destruct (t =? t') eqn:E.
  - replace (t' =? t) with true by lia. assert (t = t') by lia. subst. reflexivity.
  - replace (t' =? t) with false by lia. reflexivity.
Qed.

Lemma sinc_lookup_in l t y : sinc l -> (In (t, y) l <-> lookup t l = Some y).
Proof.
  induction l as [|[t' x'] r IH]; simpl; intros Hs.
  - split; [tauto|discriminate].
  - destruct Hs as [H1 H2]. destruct (t' =? t) eqn:E.
    + assert (t' = t) by lia. subst. split.
      * intros [H|H]; [now inversion H|]. specialize (H1 _ H). simpl in H1. lia.
      * intros H. inversion H. now left.
    + rewrite <- (IH H2). split; [|auto].
      intros [H|H]; [inversion H; lia|exact H].
Qed.

(** sum and presence of contributions at a threshold, in closed form *)
Fixpoint total (t : Z) (cs : list (Z * Z)) : Z :=
  match cs with
  | [] => 0
  | (t', x) :: r => if t' =? t then x + total t r else total t r
  end.

Lemma total_absent t cs : existsb (fun p => fst p =? t) cs = false -> total t cs = 0.
Proof.
  induction cs as [|[t' x] r IH]; simpl; [reflexivity|].
  destruct (t' =? t); simpl; [discriminate|exact IH].
Qed.

Lemma merged_gen t cs acc :
  fold_left (fun acc p => if fst p =? t
                          then Some (match acc with Some y => y + snd p | None => snd p end)
                          else acc) cs acc
  = if existsb (fun p => fst p =? t) cs
    then Some (match acc with Some y => y + total t cs | None => total t cs end)
    else acc.
Proof.
  revert acc. induction cs as [|[t' x] r IH]; simpl; intros acc; [reflexivity|].
  rewrite IH. destruct (t' =? t) eqn:E; simpl; [|reflexivity].
  destruct (existsb (fun p => fst p =? t) r) eqn:E2.
  - destruct acc; f_equal; lia.
  - rewrite (total_absent t r E2). destruct acc; f_equal; lia.
Qed.

Lemma merged_eq t cs :
  merged t cs = if existsb (fun p => fst p =? t) cs then Some (total t cs) else None.
Proof. unfold merged. apply merged_gen. Qed.

Lemma scale_at_spec (s : scale) (d : Z) :
  exists l, scale_at s d = (kind_at s d, l)
    /\ sinc l
    /\ forall t y, In (t, y) l
         <-> (exists x, In (t, x) (contributions (kind_at s d) (s_brackets s) d))
             /\ y = total t (contributions (kind_at s d) (s_brackets s) d).
Proof.
  unfold scale_at. set (k := kind_at s d). set (cs := contributions k (s_brackets s) d).
  exists (fold_left add_bracket cs []). split; [reflexivity|].
  assert (Hs : sinc (fold_left add_bracket cs [])) by (apply fold_add_bracket_sinc; exact I).
  split; [exact Hs|]. intros t y.
  rewrite (sinc_lookup_in _ t y Hs), fold_add_bracket_lookup. simpl.
  fold (merged t cs). rewrite merged_eq.
  destruct (existsb (fun p => fst p =? t) cs) eqn:E.
  - apply existsb_exists in E. destruct E as ([t' x] & Hin & Ht). simpl in Ht.
    assert (t' = t) by lia. subst t'. split.
    + intros H. inversion H. split; [now exists x|reflexivity].
    + intros [_ ->]. reflexivity.
  - split; [discriminate|]. intros [(x & Hin) _]. exfalso.
    assert (existsb (fun p => fst p =? t) cs = true); [|congruence].
    apply existsb_exists. exists (t, x). split; [exact Hin|simpl; lia].
Qed.

(** *** the same statement in standard-library vocabulary (quoted by props/C06.v) *)
From Coq Require Import Sorted.

Lemma sinc_StronglySorted l : sinc l -> StronglySorted (fun a b : Z * Z => fst a < fst b) l.
Proof.
  induction l as [|x r IH]; simpl; intros H; constructor.
  - apply IH, H.
  - apply Forall_forall. apply H.
Qed.

Lemma total_filter t cs :
  total t cs = fold_right Z.add 0 (map snd (filter (fun tx : Z * Z => fst tx =? t) cs)).
Proof.
  induction cs as [|[t' x] r IH]; simpl; [reflexivity|].
  destruct (t' =? t); simpl; now rewrite IH.
Qed.

Lemma scale_at_brackets_lemma (s : scale) (d : Z) :
  exists l, scale_at s d = (kind_at s d, l)
    /\ StronglySorted (fun a b : Z * Z => fst a < fst b) l
    /\ forall t y, In (t, y) l
         <-> (exists b, In b (s_brackets s)
                /\ field_at (b_threshold b) d = Some t
                /\ field_at (kind_field (kind_at s d) b) d <> None)
             /\ y = fold_right Z.add 0
                      (map snd (filter (fun tx : Z * Z => fst tx =? t)
                                       (contributions (kind_at s d) (s_brackets s) d))).
Proof.
  destruct (scale_at_spec s d) as (l & H1 & H2 & H3). exists l.
  split; [exact H1|]. split; [now apply sinc_StronglySorted|].
  intros t y. rewrite H3, total_filter. split; intros [Hex Hy]; (split; [|exact Hy]).
  - destruct Hex as (x & Hin). apply contributions_in in Hin. destruct Hin as (b & Hb & Ht & Hx).
    exists b. repeat split; auto. congruence.
  - destruct Hex as (b & Hb & Ht & Hx).
    destruct (field_at (kind_field (kind_at s d) b) d) as [x|] eqn:E; [|congruence].
    exists x. apply contributions_in. exists b. auto.
Qed.

Lemma node_at_lemma (ch : list (string * tree)) (d : Z) :
  exists l, at_instant (TNode ch) d = Some (VNode l)
    /\ Forall2 (fun nc nx => fst nc = fst nx /\ at_instant (snd nc) d = Some (snd nx))
               (filter (fun nc => match snd nc with
                                  | TParam h => is_some (get_at h d)
                                  | TScale _ | TNode _ => true
                                  end) ch) l
    /\ (forall n x, In (n, x) l <-> exists c, In (n, c) ch /\ at_instant c d = Some x).
Proof. exact (node_at_spec ch d). Qed.
