(** The regenerated dispatch of Period.get_subperiods (coq/gen/GuardsPeriod.v) is the one of
    coq/model/Period.v: case analysis over the six units. *)
From Coq Require Import ZArith List Bool.
From Verif Require Import Base Cal Tables Period GuardsTypes GuardsPeriod GuardsPeriodSem.
Import ListNotations.
Open Scope Z_scope.

Lemma gen_subperiods_guard_bool : forall pu u,
  gen_subperiods_guard pu u = (unit_weight pu <? unit_weight u).
Proof. intros pu u. destruct pu, u; vm_compute; reflexivity. Qed.

Lemma gen_subperiods_choice_table : forall u,
  gen_subperiods_choice u
  = match u with
    | Year => Some (NThisYear, Year, SSize)
    | Month => Some (NFirstMonth, Month, SInMonths)
    | Day => Some (NFirstDay, Day, SInDays)
    | Week => Some (NFirstWeek, Week, SInWeeks)
    | Weekday => Some (NFirstWeekday, Weekday, SInWeekdays)
    | Eternity => None
    end.
Proof. intros []; reflexivity. Qed.

Lemma subperiods_is_source : forall p u, subperiods p u = src_subperiods p u.
Proof.
  intros p u. unfold subperiods, src_subperiods.
  rewrite gen_subperiods_guard_bool, gen_subperiods_choice_table.
  destruct (unit_weight (p_unit p) <? unit_weight u); [reflexivity|].
  destruct u; reflexivity.
Qed.
