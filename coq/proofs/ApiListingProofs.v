(** C20: the /variable/<id> listing shows the formula the engine uses (Api.api_variable). *)
From Coq Require Import ZArith List Bool String Sorted Lia.
From Verif Require Import Base Cal CalProofs Period Engine Api ApiSpec.
Import ListNotations.
Open Scope Z_scope.

(** the last entry, in list order, whose date is on or before [d] *)
Definition last_le (l : list (date * option expr)) (d : date) (best : option (date * option expr)) :=
  fold_left (fun acc e => if date_leb (fst e) d then Some e else acc) l best.

Definition before_all (best : option (date * option expr)) (l : list (date * option expr)) : Prop :=
  match best with
  | Some (s0, _) => Forall (fun e => date_leb s0 (fst e) = true) l
  | None => True
  end.

Lemma listed_at_sorted : forall l d best,
  StronglySorted (fun a b : date * option expr => date_leb (fst a) (fst b) = true) l ->
  before_all best l -> listed_at l d best = last_le l d best.
Proof.
  induction l as [|[s f] r IH]; intros d best Hs Hb; [reflexivity|].
  inversion Hs as [|? ? Hs' Hall]; subst. cbn [listed_at last_le fold_left fst].
  destruct (date_leb s d) eqn:E.
  - assert (Hn : before_all (Some (s, f)) r) by exact Hall.
    destruct best as [[s0 f0]|].
    + cbn in Hb. inversion Hb as [|? ? H0 Hr]; subst. cbn [fst] in H0. rewrite H0. now apply IH.
    + now apply IH.
  - apply IH; [exact Hs'|]. destruct best as [[s0 f0]|]; [|exact I]. cbn in *. now inversion Hb.
Qed.

Definition wrap (se : date * expr) : date * option expr := (fst se, Some (snd se)).

Lemma last_le_cons : forall e l d best,
  last_le (e :: l) d best = last_le l d (if date_leb (fst e) d then Some e else best).
Proof. reflexivity. Qed.

Lemma last_le_formulas : forall fs d best,
  entry_formula (last_le (map wrap fs) d best) = latest_formula fs d (entry_formula best).
Proof.
  induction fs as [|[s e] fs IH]; intros d best; [reflexivity|].
  cbn [map]. rewrite last_le_cons, IH. cbn [wrap fst snd latest_formula].
  destruct (date_leb s d); reflexivity.
Qed.

Lemma last_le_app : forall l m d best,
  last_le (l ++ [m]) d best = if date_leb (fst m) d then Some m else last_le l d best.
Proof. intros l m d best. unfold last_le. now rewrite fold_left_app. Qed.

Lemma sorted_wrap : forall fs,
  StronglySorted (fun a b : date * expr => date_leb (fst a) (fst b) = true) fs ->
  StronglySorted (fun a b : date * option expr => date_leb (fst a) (fst b) = true) (map wrap fs).
Proof.
  induction 1 as [|a l Hs IH Hall]; cbn; constructor; [exact IH|].
  apply Forall_map. exact Hall.
Qed.

Lemma sorted_snoc : forall (l : list (date * option expr)) m,
  StronglySorted (fun a b => date_leb (fst a) (fst b) = true) l ->
  Forall (fun a => date_leb (fst a) (fst m) = true) l ->
  StronglySorted (fun a b => date_leb (fst a) (fst b) = true) (l ++ [m]).
Proof.
  induction 1 as [|a l Hs IH Hall]; intros Hm; cbn.
  - constructor; constructor.
  - inversion Hm; subst. constructor; [now apply IH|].
    apply Forall_app. split; [exact Hall|]. now constructor.
Qed.

(** the day after the end is on or before [d] exactly when the end is before [d] *)
Lemma day_after_end : forall e d, valid e -> valid d ->
  valid (add_days e 1) /\ date_leb (add_days e 1) d = date_ltb e d.
Proof.
  intros e d He Hd. pose proof (ord_pos e He) as Hp.
  destruct (add_days_ord e 1 He ltac:(lia)) as [Hv Ho]. split; [exact Hv|].
  pose proof (ord_le_iff (add_days e 1) d Hv Hd) as H1. pose proof (ord_lt_iff e d He Hd) as H2.
  rewrite Ho in H1.
  destruct (date_leb (add_days e 1) d), (date_ltb e d); try reflexivity.
  - assert (ord e < ord d) by (pose proof (proj1 H1 eq_refl); lia). pose proof (proj2 H2 H). discriminate.
  - assert (ord e + 1 <= ord d) by (pose proof (proj1 H2 eq_refl); lia). pose proof (proj2 H1 H). discriminate.
Qed.

Lemma start_before_marker : forall s e, valid s -> valid e -> date_leb s e = true ->
  date_leb s (add_days e 1) = true.
Proof.
  intros s e Hs He H. pose proof (ord_pos e He) as Hp.
  destruct (add_days_ord e 1 He ltac:(lia)) as [Hv Ho].
  apply (ord_le_iff s (add_days e 1) Hs Hv). rewrite Ho.
  pose proof (proj1 (ord_le_iff s e Hs He) H). lia.
Qed.

(** ** variable_listing_in_force *)
Theorem variable_listing : forall x p, well_formed_variable x -> valid (p_start p) ->
  formula_at x p = Ok (listing_in_force (api_variable_formula_dates x) (p_start p))
  /\ a_formulas (api_variable x)
     = map (fun e => (iso_date (fst e), match snd e with Some _ => true | None => false end))
           (api_variable_formula_dates x)
  /\ a_default (api_variable x) = api_default_value x
  /\ a_value_type (api_variable x) = formatted_type (v_type x)
  /\ a_definition_period (api_variable x) = unit_upper (v_unit x)
  /\ a_entity (api_variable x) = entity_key (v_ent x).
Proof.
  intros x p (Hval & Hsort & Hend) Hd. split; [|repeat split; reflexivity].
  unfold formula_at, api_variable_formula_dates, listing_in_force.
  destruct (v_formulas x) as [|se0 fs0] eqn:F; [reflexivity|]. rewrite <- F in *.
  unfold valid in Hd. rewrite Hd. cbn [negb].
  pose proof (sorted_wrap _ Hsort) as Hw.
  fold wrap. change (fun se : date * expr => (fst se, Some (snd se))) with wrap.
  destruct (v_end x) as [e|].
  - destruct Hend as [He Hle].
    destruct (day_after_end e (p_start p) He Hd) as [Hv Hm].
    assert (Hs : StronglySorted (fun a b : date * option expr => date_leb (fst a) (fst b) = true)
                   (map wrap (v_formulas x) ++ [(add_days e 1, None)])).
    { apply sorted_snoc; [exact Hw|]. apply Forall_map. cbn [fst wrap].
      rewrite Forall_forall in *. intros se Hin. apply start_before_marker; [now apply Hval|exact He|now apply Hle]. }
    rewrite (listed_at_sorted _ _ None Hs I), last_le_app. cbn [fst]. rewrite Hm.
    destruct (date_ltb e (p_start p)); [reflexivity|].
    now rewrite last_le_formulas.
  - rewrite app_nil_r, (listed_at_sorted _ _ None Hw I), last_le_formulas. reflexivity.
Qed.
