(** C09: to_average followed by to_marginal gives back a scale with the same taxes.

    For a non-empty sorted scale s = [(t0,r0); ...; (tn,rn)] with t0 >= 0,
      to_average s  = [(0,0)] ++ [(t0,0) if t0 <> 0] ++ [(t_k, i_k / t_k)]_k>=1 ++ [(inf, rn)]
    with i_k the tax of s on the base t_k, and to_marginal of that is s itself (up to == on
    the rates) when t0 == 0, and (0,0) :: s otherwise. *)
From Coq Require Import ZArith QArith Qminmax Qfield List Bool Lia Lqa Setoid Morphisms Sorted.
From Verif Require Import Base Scale ScaleOps ScaleProofs ScaleC09Proofs ScaleC09Combine.
Import ListNotations.
Open Scope Q_scope.

(* ------------------------------------------------------------------------- *)
(** * add_bracket at the end of a sorted list is an append                     *)
(* ------------------------------------------------------------------------- *)

Lemma add_append : forall t r s, Forall (fun x => fst x < t) s -> add_bracket t r s = s ++ [(t, r)].
Proof.
  intros t r s H. unfold add_bracket.
  assert (Hm : mem_thr t s = false).
  { induction H as [|[u q] s Hu _ IH]; [reflexivity|]. cbn [mem_thr fst] in *.
    rewrite IH, orb_false_r. apply Qeq_bool_false_iff. lra. }
  rewrite Hm. induction H as [|[u q] s Hu Hs IH]; [reflexivity|].
  cbn [mem_thr] in Hm. apply orb_false_iff in Hm. destruct Hm as [_ Hm].
  cbn [insert_left fst app] in *.
  apply Qlt_bool_iff in Hu. rewrite Hu, (IH Hm). reflexivity.
Qed.

Lemma ext_ltb_neq : forall a t, ext_ltb a t = true -> ext_eqb a t = false.
Proof.
  intros [x|] [y|]; cbn [ext_ltb ext_eqb]; intro H; try reflexivity; try discriminate.
  qcases. apply Qeq_bool_false_iff. lra.
Qed.

Lemma eadd_append : forall t r s, Forall (fun x => ext_ltb (fst x) t = true) s ->
  eadd_bracket t r s = s ++ [(t, r)].
Proof.
  intros t r s H. unfold eadd_bracket.
  assert (Hm : emem_thr t s = false).
  { induction H as [|[u q] s Hu _ IH]; [reflexivity|]. cbn [emem_thr fst] in *.
    rewrite IH, orb_false_r. apply ext_ltb_neq. assumption. }
  rewrite Hm. clear Hm. induction H as [|[u q] s Hu Hs IH]; [reflexivity|].
  cbn [einsert_left fst app] in *. rewrite Hu, IH. reflexivity.
Qed.

(* ------------------------------------------------------------------------- *)
(** * to_average                                                               *)
(* ------------------------------------------------------------------------- *)

(** the brackets the loop of to_average emits *)
Fixpoint avg_spec (rest : scale) (i pt pr : Q) : escale :=
  match rest with
  | [] => []
  | (t, r) :: rest' =>
      let i' := i + pr * (t - pt) in (Fin t, i' / t) :: avg_spec rest' i' t r
  end.

(** every threshold of [avg] is finite and at most [pt] *)
Definition below (pt : Q) (avg : escale) : Prop :=
  Forall (fun x => exists q, fst x = Fin q /\ q <= pt) avg.

Lemma below_ltb : forall pt t avg, below pt avg -> pt < t ->
  Forall (fun x => ext_ltb (fst x) (Fin t) = true) avg.
Proof.
  intros pt t avg H Hlt. eapply Forall_impl; [|exact H].
  intros [e q] [x [Hx Hle]]. cbn [fst] in *. subst e. cbn [ext_ltb]. apply Qlt_bool_iff. lra.
Qed.

Lemma below_app : forall pt t x avg, below pt avg -> pt < t -> below t (avg ++ [(Fin t, x)]).
Proof.
  intros pt t x avg H Hlt. unfold below. apply Forall_app. split.
  - eapply Forall_impl; [|exact H]. intros [e q] [y [Hy Hle]]. exists y. split; [assumption|lra].
  - constructor; [|constructor]. exists t. split; [reflexivity|lra].
Qed.

Lemma to_average_loop_spec : forall rest i pt pr avg,
  sorted ((pt, pr) :: rest) -> 0 <= pt -> below pt avg ->
  to_average_loop rest i pt pr avg = Ok (avg ++ avg_spec rest i pt pr)
  /\ Forall (fun x => exists q, fst x = Fin q) (avg ++ avg_spec rest i pt pr).
Proof.
  induction rest as [|[t r] rest IH]; intros i pt pr avg Hs Hpt Hb.
  - cbn [to_average_loop avg_spec]. rewrite app_nil_r. split; [reflexivity|].
    eapply Forall_impl; [|exact Hb]. intros a [q [Hq _]]. exists q. assumption.
  - pose proof (sorted_cons2 _ _ _ _ _ Hs) as Hlt.
    cbn [to_average_loop avg_spec].
    assert (E : Qeq_bool t 0 = false) by (apply Qeq_bool_false_iff; lra).
    rewrite E. rewrite eadd_append by (eapply below_ltb; eassumption).
    destruct (IH (i + pr * (t - pt)) t r (avg ++ [(Fin t, (i + pr * (t - pt)) / t)])) as [H1 H2].
    + eapply sorted_tail. exact Hs.
    + lra.
    + eapply below_app; eassumption.
    + rewrite <- app_assoc in H1, H2. cbn [app] in H1, H2. split; assumption.
Qed.

Lemma last_rates_cons : forall t r (rest : scale) d, last (rates ((t, r) :: rest)) d = last (rates rest) r.
Proof.
  intros t r rest d. cbn [rates map snd]. fold (rates rest).
  generalize (rates rest) as l. intro l. revert r d.
  induction l as [|a l IH]; intros r d; [reflexivity|].
  change (last (r :: a :: l) d) with (last (a :: l) d). rewrite (IH a d), (IH a r). reflexivity.
Qed.

(** the prefix of the average scale: (0, 0), and (t0, 0) when t0 is not 0 *)
Definition avg_prefix (t0 : Q) : escale :=
  if Qeq_bool t0 0 then [(Fin 0, 0)] else [(Fin 0, 0); (Fin t0, 0)].

Lemma to_average_spec : forall t0 r0 rest,
  sorted ((t0, r0) :: rest) -> 0 <= t0 ->
  to_average ((t0, r0) :: rest)
  = Ok (avg_prefix t0 ++ avg_spec rest 0 t0 r0 ++ [(Inf, last (rates rest) r0)]).
Proof.
  intros t0 r0 rest Hs H0. unfold to_average. cbv zeta. rewrite last_rates_cons.
  change (eadd_bracket (Fin 0) 0 []) with [(Fin 0, 0)].
  assert (Hfin : forall avg, below t0 avg ->
            match to_average_loop rest 0 t0 r0 avg with
            | Ok avg' => Ok (eadd_bracket Inf (last (rates rest) r0) avg')
            | Err e => Err e
            end = Ok (avg ++ avg_spec rest 0 t0 r0 ++ [(Inf, last (rates rest) r0)])).
  { intros avg Hb.
    destruct (to_average_loop_spec rest 0 t0 r0 avg Hs H0 Hb) as [H1 H2].
    rewrite H1. rewrite eadd_append.
    - rewrite <- app_assoc. reflexivity.
    - eapply Forall_impl; [|exact H2]. intros [e q] [x Hx]. cbn [fst] in *. subst e. reflexivity. }
  unfold avg_prefix. destruct (Qeq_bool t0 0) eqn:E; qcases.
  - apply Hfin. constructor; [|constructor]. exists 0. split; [reflexivity|lra].
  - assert (Hlt : 0 < t0).
    { destruct (Qlt_le_dec 0 t0) as [H|H]; [assumption|]. exfalso. apply E. lra. }
    rewrite eadd_append.
    + apply Hfin. constructor; [|constructor; [|constructor]].
      * exists 0. split; [reflexivity|lra].
      * exists t0. split; [reflexivity|lra].
    + constructor; [|constructor]. cbn [fst ext_ltb]. apply Qlt_bool_iff. assumption.
Qed.

(* ------------------------------------------------------------------------- *)
(** * to_marginal on the brackets emitted by to_average                        *)
(* ------------------------------------------------------------------------- *)

Lemma to_marginal_loop_spec : forall rest i pt pr rl pi pt' lr m,
  sorted ((pt, pr) :: rest) -> 0 <= pt ->
  pi == i -> pt' == pt -> rl == last (rates rest) pr ->
  Forall (fun x => fst x < pt') m ->
  exists out,
    to_marginal_loop (avg_spec rest i pt pr ++ [(Inf, rl)]) pi pt' lr m = Ok (m ++ out)
    /\ seq out ((pt, pr) :: rest).
Proof.
  induction rest as [|[t r] rest IH]; intros i pt pr rl pi pt' lr m Hs Hpt Hpi Hpt' Hrl Hm.
  - cbn [avg_spec app to_marginal_loop]. rewrite add_append by assumption.
    eexists. split; [reflexivity|]. constructor; [|constructor].
    split; cbn [fst snd]; [assumption|]. cbn [rates map last] in Hrl. assumption.
  - pose proof (sorted_cons2 _ _ _ _ _ Hs) as Hlt.
    cbn [avg_spec app to_marginal_loop].
    assert (E : Qeq_bool (t - pt') 0 = false) by (apply Qeq_bool_false_iff; lra).
    rewrite E. rewrite add_append by assumption.
    set (i' := i + pr * (t - pt)).
    set (x := ((i' / t * t - pi) / (t - pt'))).
    destruct (IH i' t r rl (i' / t * t) t (Some (i' / t)) (m ++ [(pt', x)])) as [out [H1 H2]].
    + eapply sorted_tail. exact Hs.
    + lra.
    + field. lra.
    + reflexivity.
    + rewrite Hrl. rewrite last_rates_cons. reflexivity.
    + apply Forall_app. split.
      * eapply Forall_impl; [|exact Hm]. intros a Ha. cbn beta in *. lra.
      * constructor; [|constructor]. cbn [fst]. lra.
    + exists ((pt', x) :: out). split.
      * rewrite H1. rewrite <- app_assoc. reflexivity.
      * constructor; [|exact H2]. split; cbn [fst snd]; [assumption|].
        unfold x, i'. rewrite Hpi, Hpt'. field. split; lra.
Qed.

Lemma avg_marg_structure : forall t0 r0 rest,
  sorted ((t0, r0) :: rest) -> 0 <= t0 ->
  exists m, average_then_marginal ((t0, r0) :: rest) = Ok m
            /\ (seq m ((t0, r0) :: rest) \/ seq m ((0, 0) :: (t0, r0) :: rest)).
Proof.
  intros t0 r0 rest Hs H0. unfold average_then_marginal.
  rewrite (to_average_spec t0 r0 rest Hs H0). cbn [bind]. unfold to_marginal, avg_prefix.
  destruct (Qeq_bool t0 0) eqn:E; qcases.
  - cbn [app tl].
    destruct (to_marginal_loop_spec rest 0 t0 r0 (last (rates rest) r0) 0 0 None [] Hs H0)
      as [out [H1 H2]]; try reflexivity.
    + symmetry. assumption.
    + constructor.
    + exists out. split; [exact H1|]. left. assumption.
  - assert (Hlt : 0 < t0).
    { destruct (Qlt_le_dec 0 t0) as [H|H]; [assumption|]. exfalso. apply E. lra. }
    cbn [app tl to_marginal_loop].
    assert (E2 : Qeq_bool (t0 - 0) 0 = false) by (apply Qeq_bool_false_iff; lra).
    rewrite E2. change (add_bracket 0 ((0 * t0 - 0) / (t0 - 0)) []) with [(0, (0 * t0 - 0) / (t0 - 0))].
    destruct (to_marginal_loop_spec rest 0 t0 r0 (last (rates rest) r0) (0 * t0) t0 (Some 0)
                [(0, (0 * t0 - 0) / (t0 - 0))] Hs H0) as [out [H1 H2]]; try reflexivity.
    + constructor; [|constructor]. cbn [fst]. assumption.
    + eexists. split; [exact H1|]. right. cbn [app]. constructor; [|exact H2].
      split; cbn [fst snd]; [reflexivity|]. field. lra.
Qed.

Lemma marginal_tax_zero_bracket : forall b s, marginal_tax b ((0, 0) :: s) == marginal_tax b s.
Proof. intros. cbn [marginal_tax]. ring. Qed.

Lemma average_marginal_roundtrip_calc : forall s b,
  s <> [] -> sorted s -> nonneg s ->
  exists m, average_then_marginal s = Ok m /\ calc m b == calc s b.
Proof.
  intros [|[t0 r0] rest] b Hne Hs Hnn; [contradiction|].
  assert (H0 : 0 <= t0) by (inversion Hnn; assumption).
  destruct (avg_marg_structure t0 r0 rest Hs H0) as [m [H1 [H2|H2]]]; exists m; (split; [exact H1|]).
  - apply calc_seq. assumption.
  - rewrite (calc_seq _ _ b H2). rewrite !calc_marginal_tax. apply marginal_tax_zero_bracket.
Qed.

(** an empty scale has no last rate: to_marginal of its average scale is rejected *)
Lemma average_marginal_empty : average_then_marginal [] = Err EOther.
Proof. reflexivity. Qed.
