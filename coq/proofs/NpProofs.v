(** Characterising lemmas of the numpy list models of [Np].  The recurring device: an array
    is written [map f L] for an index list [L] (usually [seq 0 n], or a filtered /
    permuted one), which turns masks, fancy indexing and accumulation loops into
    [filter] / [map] over [L]. *)
From Coq Require Import ZArith List Bool Arith Lia Sorting.Permutation Sorting.Sorted.
From Verif Require Import Base Np.
Import ListNotations.
Open Scope nat_scope.

(** ** arrays as maps over their indices *)

Lemma as_map {A} (l : list A) d : l = map (fun i => nth i l d) (seq 0 (length l)).
Proof.
  apply nth_ext with (d := d) (d' := nth (length l) l d).
  - now rewrite map_length, seq_length.
  - intros n Hn. rewrite map_nth with (d := length l), seq_nth by exact Hn. reflexivity.
Qed.

Lemma full_as_map {A} n (v : A) (L : list nat) : length L = n -> full n v = map (fun _ => v) L.
Proof.
  unfold full. revert n; induction L; intros n H; subst n; cbn; [reflexivity|].
  f_equal; auto.
Qed.

Lemma full_length {A} n (v : A) : length (full n v) = n.
Proof. apply repeat_length. Qed.

Lemma nth_full {A} n (v d : A) k : k < n -> nth k (full n v) d = v.
Proof.
  unfold full. revert k; induction n; intros k H; [lia|]. destruct k; cbn; [reflexivity|].
  apply IHn; lia.
Qed.

Lemma nth_map_seq {A} (f : nat -> A) n k d : k < n -> nth k (map f (seq 0 n)) d = f k.
Proof.
  intros H. rewrite nth_indep with (d' := f 0) by (now rewrite map_length, seq_length).
  rewrite map_nth with (d := 0), seq_nth by exact H. reflexivity.
Qed.

Lemma map_seq_ext_nth {A} (l : list A) (f : nat -> A) d n :
  length l = n -> (forall k, k < n -> nth k l d = f k) -> l = map f (seq 0 n).
Proof.
  intros Hl H. apply nth_ext with (d := d) (d' := d).
  - now rewrite map_length, seq_length.
  - intros k Hk. rewrite nth_map_seq by lia. apply H; lia.
Qed.

(** ** upd *)

Lemma upd_length {A} (l : list A) k v : length (upd l k v) = length l.
Proof. revert k; induction l; intros [|k]; cbn; auto. Qed.

Lemma nth_upd {A} (l : list A) k v j d :
  nth j (upd l k v) d = if (j =? k) && (k <? length l) then v else nth j l d.
Proof.
  revert k j; induction l as [|x l IH]; intros k j.
  - cbn. rewrite andb_false_r. reflexivity.
  - destruct k, j; cbn [upd nth length]; try reflexivity.
    rewrite IH. reflexivity.
Qed.

(** ** filters *)

Lemma filter_comm {A} (f g : A -> bool) l : filter f (filter g l) = filter g (filter f l).
Proof.
  induction l as [|x l IH]; cbn; [reflexivity|].
  destruct (g x) eqn:G, (f x) eqn:F; cbn; rewrite ?G, ?F, IH; reflexivity.
Qed.

Lemma filter_filter {A} (f g : A -> bool) l :
  filter f (filter g l) = filter (fun x => g x && f x) l.
Proof.
  induction l as [|x l IH]; cbn; [reflexivity|].
  destruct (g x); cbn; [destruct (f x)|]; rewrite IH; reflexivity.
Qed.

Lemma Forall_filter {A} (P : A -> Prop) f l : Forall P l -> Forall P (filter f l).
Proof. rewrite !Forall_forall. intros H x Hx. apply filter_In in Hx. apply H, Hx. Qed.

Lemma StronglySorted_filter {A} (R : A -> A -> Prop) f l :
  StronglySorted R l -> StronglySorted R (filter f l).
Proof.
  induction 1 as [|x l Hs IH Hf]; cbn; [constructor|].
  destruct (f x); [constructor; [exact IH | now apply Forall_filter]|exact IH].
Qed.

Lemma StronglySorted_map {A B} (R : B -> B -> Prop) (h : A -> B) l :
  StronglySorted (fun a b => R (h a) (h b)) l -> StronglySorted R (map h l).
Proof.
  induction 1 as [|x l Hs IH Hf]; cbn; constructor; [exact IH|].
  rewrite Forall_forall in *. intros y Hy. apply in_map_iff in Hy as (a & <- & Ha). auto.
Qed.

Lemma StronglySorted_lt_seq s n : StronglySorted lt (seq s n).
Proof.
  revert s; induction n; intros s; cbn; constructor; [apply IHn|].
  rewrite Forall_forall. intros y Hy. apply in_seq in Hy. lia.
Qed.

(** Two strictly increasing lists with the same elements are equal. *)
Lemma sorted_lt_ext (l1 l2 : list nat) :
  StronglySorted lt l1 -> StronglySorted lt l2 -> (forall x, In x l1 <-> In x l2) -> l1 = l2.
Proof.
  intros H1; revert l2; induction H1 as [|a l1 Hs1 IH Hf1]; intros l2 H2 Hin.
  - destruct l2 as [|b l2]; [reflexivity|]. exfalso. apply (Hin b). now left.
  - destruct H2 as [|b l2 Hs2 Hf2].
    + exfalso. apply (Hin a). now left.
    + rewrite Forall_forall in Hf1, Hf2.
      assert (a = b) as ->.
      { destruct (proj1 (Hin a) (or_introl eq_refl)) as [E|E]; [auto|].
        destruct (proj2 (Hin b) (or_introl eq_refl)) as [E'|E']; [auto|].
        apply Hf2 in E. apply Hf1 in E'. lia. }
      f_equal. apply IH; [exact Hs2|]. intros x; split; intros Hx.
      * destruct (proj1 (Hin x) (or_intror Hx)) as [E|E]; [|exact E].
        subst x. apply Hf1 in Hx. lia.
      * destruct (proj2 (Hin x) (or_intror Hx)) as [E|E]; [|exact E].
        subst x. apply Hf2 in Hx. lia.
Qed.

(** ** list_max, bincount length *)

Lemma list_max_lt_Forall l n : Forall (fun k => k < n) l -> l <> [] -> list_max l < n.
Proof.
  intros H Hne. induction H as [|x l Hx Hl IH]; [congruence|].
  destruct l as [|y l]; [cbn; lia|].
  assert (list_max (y :: l) < n) by (apply IH; congruence).
  change (Nat.max x (list_max (y :: l)) < n). lia.
Qed.

Lemma bincount_len_wf count x : Forall (fun k => k < count) x -> bincount_len count x = count.
Proof.
  intros H. unfold bincount_len. destruct x as [|a x]; [reflexivity|].
  assert (list_max (a :: x) < count) by (apply list_max_lt_Forall; [exact H|congruence]). lia.
Qed.

Lemma list_max_ge l x : In x l -> x <= list_max l.
Proof.
  induction l as [|a l IH]; [cbn; tauto|]. change (list_max (a :: l)) with (Nat.max a (list_max l)).
  intros [->|H]; [lia|]. apply IH in H. lia.
Qed.

(** ** bincount *)

Lemma bincount_acc_length x w acc : length (bincount_acc x w acc) = length acc.
Proof.
  revert w acc; induction x as [|k x IH]; intros [|v w] acc; cbn; auto.
  rewrite IH, upd_length. reflexivity.
Qed.

Lemma bincount_acc_nth (xi : nat -> nat) (wi : nat -> Z) L acc g :
  g < length acc ->
  nth g (bincount_acc (map xi L) (map wi L) acc) 0%Z =
  (nth g acc 0 + fold_right Z.add 0%Z (map wi (filter (fun i => Nat.eqb (xi i) g) L)))%Z.
Proof.
  revert acc; induction L as [|i L IH]; intros acc Hg; cbn [map bincount_acc filter fold_right].
  - lia.
  - rewrite IH by (now rewrite upd_length). rewrite nth_upd.
    destruct (xi i =? g) eqn:E.
    + apply Nat.eqb_eq in E. subst g. rewrite Nat.eqb_refl.
      apply Nat.ltb_lt in Hg. rewrite Hg. cbn [andb map fold_right]. lia.
    + rewrite Nat.eqb_sym, E. cbn [andb]. reflexivity.
Qed.

Lemma bincount_maps count (xi : nat -> nat) (wi : nat -> Z) L :
  Forall (fun i => xi i < count) L ->
  bincount count (map xi L) (map wi L) =
  Ok (map (fun g => fold_right Z.add 0%Z (map wi (filter (fun i => xi i =? g) L))) (seq 0 count)).
Proof.
  intros H. unfold bincount. rewrite !map_length, Nat.eqb_refl. f_equal.
  assert (Hlen : bincount_len count (map xi L) = count).
  { apply bincount_len_wf. rewrite Forall_forall in *. intros k Hk.
    apply in_map_iff in Hk as (i & <- & Hi). auto. }
  rewrite Hlen.
  apply map_seq_ext_nth with (d := 0%Z).
  - now rewrite bincount_acc_length, full_length.
  - intros g Hg. rewrite bincount_acc_nth by (now rewrite full_length).
    rewrite nth_full by exact Hg. reflexivity.
Qed.

Lemma bincount_count_maps count (xi : nat -> nat) L :
  Forall (fun i => xi i < count) L ->
  bincount_count count (map xi L) =
  map (fun g => Z.of_nat (length (filter (fun i => xi i =? g) L))) (seq 0 count).
Proof.
  intros H. pose proof (bincount_maps count xi (fun _ => 1%Z) L H) as B.
  unfold bincount in B. rewrite !map_length, Nat.eqb_refl in B. injection B as B.
  unfold bincount_count. rewrite map_map. rewrite B.
  apply map_ext. intros g. induction (filter (fun i => xi i =? g) L) as [|a l IH]; [reflexivity|].
  cbn [map fold_right length]. rewrite IH. lia.
Qed.

(** ** masks, fancy indexing, where *)

Lemma mask_select_map {A} (c : nat -> bool) (a : nat -> A) L :
  mask_select (map c L) (map a L) = map a (filter c L).
Proof.
  induction L as [|i L IH]; cbn; [reflexivity|]. destruct (c i); cbn; now rewrite IH.
Qed.

Lemma where_map {A} (c : nat -> bool) (a b : nat -> A) L :
  where_ (map c L) (map a L) (map b L) = map (fun i => if c i then a i else b i) L.
Proof. induction L as [|i L IH]; cbn; [reflexivity|]. now rewrite IH. Qed.

Lemma take_map {A} (a : list A) d idx :
  Forall (fun i => i < length a) idx -> take idx a = Ok (map (fun i => nth i a d) idx).
Proof.
  unfold take. induction 1 as [|i idx Hi Hf IH]; cbn; [reflexivity|].
  rewrite IH. destruct (nth_error a i) eqn:E.
  - rewrite (nth_error_nth _ _ d E). reflexivity.
  - apply nth_error_None in E. lia.
Qed.

Lemma count_true_map (c : nat -> bool) L : count_true (map c L) = length (filter c L).
Proof.
  unfold count_true. induction L as [|i L IH]; cbn; [reflexivity|].
  destruct (c i); cbn; now rewrite IH.
Qed.

(** result[mask] = vals when the values are listed group by group. *)
Lemma mask_assign_loop_map {A} (f : nat -> bool) (h : nat -> A) (d : A) L :
  mask_assign_loop (map (fun _ => d) L) (map f L) (map h (filter f L)) =
  map (fun g => if f g then h g else d) L.
Proof.
  induction L as [|g L IH]; cbn; [reflexivity|].
  destruct (f g); cbn; now rewrite IH.
Qed.

Lemma mask_assign_map {A} (f : nat -> bool) (h : nat -> A) (d : A) n :
  mask_assign (full n d) (map f (seq 0 n)) (map h (filter f (seq 0 n))) =
  Ok (map (fun g => if f g then h g else d) (seq 0 n)).
Proof.
  unfold mask_assign. rewrite map_length, seq_length, full_length, Nat.eqb_refl. cbn [negb].
  rewrite count_true_map, map_length, Nat.eqb_refl.
  rewrite (full_as_map n d (seq 0 n)) by apply seq_length.
  now rewrite mask_assign_loop_map.
Qed.

(** ** zip_with *)

Lemma zip_with_length {A} (f : A -> A -> A) a b :
  length a = length b -> length (zip_with f a b) = length a.
Proof.
  revert b; induction a as [|x a IH]; intros [|y b]; cbn; try discriminate; [reflexivity|].
  intros [= H]. now rewrite IH.
Qed.

Lemma zip_with_nth {A} (f : A -> A -> A) a b k d :
  length a = length b -> k < length a -> nth k (zip_with f a b) d = f (nth k a d) (nth k b d).
Proof.
  revert b k; induction a as [|x a IH]; intros [|y b] k; cbn; try discriminate; try lia.
  intros [= H] Hk. destruct k; [reflexivity|]. apply IH; [exact H|lia].
Qed.

(** ** the stable insertion argsort returns a sorting permutation *)

Section Argsort.
  Context {K : Type} (leb : K -> K -> bool) (key : nat -> K).
  Hypothesis leb_total : forall a b, leb a b = true \/ leb b a = true.
  Hypothesis leb_trans : forall a b c, leb a b = true -> leb b c = true -> leb a c = true.
  Let R (a b : nat) := leb (key a) (key b) = true.

  Lemma insert_by_perm i l : Permutation (insert_by leb key i l) (i :: l).
  Proof.
    induction l as [|j t IH]; cbn; [reflexivity|].
    destruct (leb (key i) (key j)); [reflexivity|].
    rewrite IH. apply perm_swap.
  Qed.

  Lemma insert_by_sorted i l : StronglySorted R l -> StronglySorted R (insert_by leb key i l).
  Proof.
    induction 1 as [|j t Hs IH Hf]; cbn.
    - constructor; constructor.
    - destruct (leb (key i) (key j)) eqn:E.
      + constructor; [constructor; assumption|]. constructor; [exact E|].
        rewrite Forall_forall in *. intros y Hy. unfold R in *. eapply leb_trans; [exact E|auto].
      + constructor; [exact IH|].
        rewrite Forall_forall in *. intros y Hy.
        apply (Permutation_in _ (insert_by_perm i t)) in Hy. destruct Hy as [<-|Hy]; [|auto].
        unfold R. destruct (leb_total (key i) (key j)); congruence.
  Qed.

  Lemma fold_insert_perm l : Permutation (fold_right (insert_by leb key) [] l) l.
  Proof. induction l; cbn; [reflexivity|]. rewrite insert_by_perm. now constructor. Qed.

  Lemma fold_insert_sorted l : StronglySorted R (fold_right (insert_by leb key) [] l).
  Proof. induction l; cbn; [constructor|]. now apply insert_by_sorted. Qed.
End Argsort.

Lemma StronglySorted_impl {A} (R S : A -> A -> Prop) l :
  (forall a b, R a b -> S a b) -> StronglySorted R l -> StronglySorted S l.
Proof.
  intros H. induction 1 as [|x l Hs IH Hf]; constructor; [exact IH|].
  rewrite Forall_forall in *. auto.
Qed.

Lemma argsort_nat_sorting l : sorting_perm_nat l (argsort_nat l).
Proof.
  split.
  - apply fold_insert_perm.
  - eapply StronglySorted_impl; [|apply fold_insert_sorted].
    + cbn. intros a b H. now apply Nat.leb_le.
    + intros a b. destruct (Nat.leb_spec a b); [now left|right]. apply Nat.leb_le. lia.
    + intros a b c H1 H2. apply Nat.leb_le in H1, H2. apply Nat.leb_le. lia.
Qed.

Lemma ext_leb_total a b : ext_leb a b = true \/ ext_leb b a = true.
Proof. destruct a, b; cbn; auto. destruct (Z.leb_spec z z0); [now left|right]. apply Z.leb_le. lia. Qed.

Lemma ext_leb_trans a b c : ext_leb a b = true -> ext_leb b c = true -> ext_leb a c = true.
Proof.
  destruct a, b, c; cbn; auto; try discriminate.
  intros H1 H2. apply Z.leb_le in H1, H2. apply Z.leb_le. lia.
Qed.

Lemma argsort_ext_sorting l : sorting_perm_ext l (argsort_ext l).
Proof.
  split.
  - apply fold_insert_perm.
  - eapply StronglySorted_impl; [|apply fold_insert_sorted].
    + cbn. intros a b H. exact H.
    + intros; apply ext_leb_total.
    + intros a b c; apply ext_leb_trans.
Qed.
