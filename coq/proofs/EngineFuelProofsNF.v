(** Error kinds of the pure helpers the evaluator calls (periods, group operations, numpy
    primitives): none of them produces the model-only error [EFuel].  Proved by unfolding,
    function by function.  Used by EngineFuelProofs.v. *)
From Coq Require Import ZArith List Bool Arith.
From Verif Require Import Base Cal Tables Period Np Group Param Engine.
Import ListNotations.
Open Scope nat_scope.

Definition NF {A} (r : res A) : Prop := r <> Err EFuel.

Lemma NF_ok {A} (a : A) : NF (Ok a).
Proof. discriminate. Qed.

Lemma NF_err {A} e : e <> EFuel -> NF (@Err A e).
Proof. intros H E. inversion E. contradiction. Qed.

Lemma NF_bind {A B} (r : res A) (f : A -> res B) :
  NF r -> (forall a, NF (f a)) -> NF (bind r f).
Proof. destruct r as [a|e]; cbn; intros H1 H2; [apply H2|]. intro E. apply H1. now inversion E. Qed.

Lemma NF_rmap {A B} (f : A -> B) (r : res A) : NF r -> NF (rmap f r).
Proof. destruct r as [a|e]; cbn; intros H1; [discriminate|]. intro E. apply H1. now inversion E. Qed.

Lemma NF_mapM {A B} (f : A -> res B) l : (forall a, NF (f a)) -> NF (mapM f l).
Proof.
  intro H. induction l as [|x l IH]; cbn; [discriminate|].
  specialize (H x). destruct (f x) as [y|e].
  - destruct (mapM f l) as [ys|e]; [discriminate|]. intro E. apply IH. now inversion E.
  - intro E. apply H. now inversion E.
Qed.

Ltac nf_step :=
  first
    [ apply NF_ok
    | apply NF_err; discriminate
    | assumption
    | apply NF_rmap
    | apply NF_mapM; intros
    | apply NF_bind; [|intros]
    | match goal with
      | |- NF (match ?x with _ => _ end) => destruct x
      | |- NF (let '(_, _) := ?x in _) => destruct x
      end ].
Ltac nf := repeat nf_step.

(** * Periods *)

Lemma NF_instant_offset c n u : NF (instant_offset c n u).
Proof. unfold instant_offset. nf. Qed.

Lemma NF_instant_first_of c u : NF (instant_first_of c u).
Proof. unfold instant_first_of. nf. Qed.

Lemma NF_first_of_or_fail c u : NF (first_of_or_fail c u).
Proof. unfold first_of_or_fail. pose proof (NF_instant_first_of c u). nf. Qed.

Lemma NF_offset p n u : NF (offset p n u).
Proof. unfold offset. destruct p as [[pu s] sz]. apply NF_bind; [apply NF_instant_offset|intros; nf]. Qed.

Lemma NF_this_year p : NF (this_year p).
Proof. unfold this_year. apply NF_bind; [apply NF_first_of_or_fail|intros; nf]. Qed.
Lemma NF_first_month p : NF (first_month p).
Proof. unfold first_month. apply NF_bind; [apply NF_first_of_or_fail|intros; nf]. Qed.
Lemma NF_first_week p : NF (first_week p).
Proof. unfold first_week. apply NF_bind; [apply NF_first_of_or_fail|intros; nf]. Qed.
Lemma NF_first_day p : NF (first_day p).
Proof. unfold first_day. nf. Qed.
Lemma NF_first_weekday p : NF (first_weekday p).
Proof. unfold first_weekday. nf. Qed.
Lemma NF_last_year p : NF (last_year p).
Proof. unfold last_year. apply NF_bind; [apply NF_this_year|intros; apply NF_offset]. Qed.
Lemma NF_n_2 p : NF (n_2 p).
Proof. unfold n_2. apply NF_bind; [apply NF_this_year|intros; apply NF_offset]. Qed.
Lemma NF_last_month p : NF (last_month p).
Proof. unfold last_month. apply NF_bind; [apply NF_first_month|intros; apply NF_offset]. Qed.

Lemma NF_apply_ptrans pt p : NF (apply_ptrans pt p).
Proof.
  destruct pt; cbn [apply_ptrans];
    auto using NF_this_year, NF_first_month, NF_first_day, NF_first_week, NF_first_weekday,
               NF_last_month, NF_last_year, NF_n_2, NF_offset, NF_ok.
  apply NF_err; discriminate.
Qed.

Lemma NF_size_in_years p : NF (size_in_years p).
Proof. unfold size_in_years. nf. Qed.
Lemma NF_size_in_months p : NF (size_in_months p).
Proof. unfold size_in_months. nf. Qed.
Lemma NF_size_in_days p : NF (size_in_days p).
Proof.
  unfold size_in_days. destruct p as [[u s] n].
  destruct u; nf; try apply NF_instant_offset.
Qed.
Lemma NF_size_in_weeks p : NF (size_in_weeks p).
Proof. unfold size_in_weeks. destruct p as [[u s] n]. destruct u; nf. Qed.
Lemma NF_size_in_weekdays p : NF (size_in_weekdays p).
Proof.
  unfold size_in_weekdays. destruct p as [[u s] n].
  destruct u; nf; try apply NF_instant_offset; try apply NF_size_in_weeks.
Qed.

Lemma NF_subperiods p u : NF (subperiods p u).
Proof.
  unfold subperiods. destruct (_ <? _)%Z; [apply NF_err; discriminate|].
  assert (G : forall base count, NF base -> NF count ->
    NF (bind base (fun b => bind count (fun n => mapM (fun i => offset b i (Some u)) (zrange n))))).
  { intros base count Hb Hc. apply NF_bind; [exact Hb|intro b].
    apply NF_bind; [exact Hc|intro n]. apply NF_mapM. intro i. apply NF_offset. }
  destruct u; try (apply NF_err; discriminate); apply G;
    auto using NF_this_year, NF_first_month, NF_first_day, NF_first_week, NF_first_weekday,
               NF_size_in_months, NF_size_in_days, NF_size_in_weeks, NF_size_in_weekdays, NF_ok.
Qed.

Lemma NF_divide_period x q : NF (divide_period x q).
Proof.
  unfold divide_period.
  destruct (v_unit x);
    auto using NF_this_year, NF_first_month, NF_first_day, NF_first_week, NF_first_weekday.
Qed.

Lemma NF_divide_denominator q cp : NF (divide_denominator q cp).
Proof.
  unfold divide_denominator.
  destruct (p_unit q);
    auto using NF_size_in_years, NF_size_in_months, NF_size_in_days, NF_size_in_weeks, NF_size_in_weekdays.
Qed.

(** * numpy primitives and group operations *)

Lemma NF_check_size {A} n (a : list A) : NF (check_size n a).
Proof. unfold check_size. nf. Qed.

Lemma NF_max_plus_one x : NF (max_plus_one x).
Proof. unfold max_plus_one. nf. Qed.

Lemma NF_bincount m x w : NF (bincount m x w).
Proof. unfold bincount. nf. Qed.

Lemma NF_take {A} idx (a : list A) : NF (take idx a).
Proof. unfold take. nf. Qed.

Lemma NF_mask_assign {A} (r : list A) m v : NF (mask_assign r m v).
Proof. unfold mask_assign. nf. Qed.

Lemma NF_sum p a role : NF (Group.sum p a role).
Proof.
  unfold Group.sum. apply NF_bind; [apply NF_check_size|intros _].
  destruct role; apply NF_bincount.
Qed.

Lemma NF_any p a role : NF (Group.any p a role).
Proof. unfold Group.any. apply NF_bind; [apply NF_sum|intros; nf]. Qed.

Lemma NF_nb_persons p role : NF (Group.nb_persons p role).
Proof. unfold Group.nb_persons. destruct role; [apply NF_sum|nf]. Qed.

Lemma NF_members_position p : NF (members_position p).
Proof. unfold members_position. apply NF_bind; [apply NF_max_plus_one|intros; nf]. Qed.

Lemma NF_value_nth_person_with {A} mm p n (a : list A) d : NF (value_nth_person_with mm p n a d).
Proof.
  unfold value_nth_person_with.
  apply NF_bind; [apply NF_check_size|intros _].
  apply NF_bind; [apply NF_members_position|intros pos].
  apply NF_bind; [apply NF_nb_persons|intros nb].
  apply NF_bind; [apply NF_take|intros sa].
  apply NF_bind; [apply NF_take|intros sp].
  apply NF_mask_assign.
Qed.

Lemma NF_fold_left {A B} (f : res A -> B -> res A) l : forall acc,
  NF acc -> (forall r b, NF r -> NF (f r b)) -> NF (fold_left f l acc).
Proof. induction l as [|b l IH]; intros acc Ha Hf; cbn; auto. Qed.

Lemma NF_reduce_with {A} mm p (a : list A) red ne role : NF (reduce_with mm p a red ne role).
Proof.
  unfold reduce_with.
  apply NF_bind; [apply NF_check_size|intros _].
  apply NF_bind; [apply NF_members_position|intros pos].
  apply NF_bind; [apply NF_max_plus_one|intros big].
  apply NF_fold_left; [apply NF_ok|].
  intros r b Hr. apply NF_bind; [exact Hr|intros res].
  apply NF_bind; [apply NF_value_nth_person_with|intros; nf].
Qed.

Lemma NF_all p a role : NF (Group.all p a role).
Proof. unfold Group.all, all_with. apply NF_reduce_with. Qed.

Lemma NF_value_from_person {A} p (a : list A) r d : NF (value_from_person p a r d).
Proof.
  unfold value_from_person, value_from_person_with.
  destruct (role_max _ _) as [[|[|m]]|]; try (apply NF_err; discriminate).
  apply NF_bind; [apply NF_check_size|intros _].
  apply NF_bind; [apply NF_any|intros ef].
  apply NF_bind; [apply NF_take|intros sa].
  apply NF_bind; [apply NF_take|intros sf].
  apply NF_mask_assign.
Qed.

Lemma NF_project p a role : NF (Group.project p a role).
Proof.
  unfold Group.project.
  apply NF_bind; [apply NF_check_size|intros _].
  apply NF_bind; [apply NF_take|intros pr]. destruct role; nf.
Qed.

Lemma NF_agg pp g role a : NF (agg pp g role a).
Proof.
  unfold agg. destruct g.
  - apply NF_sum.
  - apply NF_rmap, NF_any.
  - apply NF_rmap, NF_all.
  - destruct role; [apply NF_value_from_person|apply NF_err; discriminate].
Qed.

(** * Variable-level helpers *)

Lemma NF_check_consistency x p : NF (check_consistency x p).
Proof. unfold check_consistency. nf. Qed.

Lemma NF_formula_at x p : NF (formula_at x p).
Proof. unfold formula_at. nf. Qed.
