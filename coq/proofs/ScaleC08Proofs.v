(** C08: the calc functions of the tax-scale model compute their mathematical definitions
    (marginal amount, single amount, bracket of a base, linear average rate), and every
    vectorised function is the map of its one-base version.  The marginal-rate definition
    and the canonical form of [add_bracket] are in ScaleProofs.v (shared with C09). *)
From Coq Require Import ZArith QArith Qminmax Qround List Bool Lia Lqa Permutation Setoid Morphisms Sorted.
From Verif Require Import Base Scale ScaleProofs.
Import ListNotations.
Open Scope Q_scope.

(* ------------------------------------------------------------------------- *)
(** * Specifications                                                           *)
(* ------------------------------------------------------------------------- *)

(** base [b] lies in the bracket from [lo] to [hi] (+inf for the last bracket):
    [lo, hi) in general, (lo, hi] for numpy.digitize(right=True). *)
Definition in_bracket (right : bool) (lo : Q) (hi : ext) (b : Q) : Prop :=
  if right
  then lo < b /\ match hi with Fin h => b <= h | Inf => True end
  else lo <= b /\ match hi with Fin h => b < h | Inf => True end.

(** base [b] lies before threshold [t] (outside every bracket when [t] is the first one) *)
Definition before (right : bool) (b t : Q) : Prop := if right then b <= t else b < t.

(** sum of the amounts of the brackets whose threshold is < b *)
Fixpoint amounts_below (b : Q) (s : scale) : Q :=
  match s with
  | [] => 0
  | (t, a) :: rest => (if Qlt_bool t b then a else 0) + amounts_below b rest
  end.

(* ------------------------------------------------------------------------- *)
(** * List helpers                                                             *)
(* ------------------------------------------------------------------------- *)

Lemma map2_map_map : forall {A B C D} (f : B -> C -> D) (g : A -> B) (h : A -> C) l,
  map2 f (map g l) (map h l) = map (fun x => f (g x) (h x)) l.
Proof. intros. induction l as [|x l IH]; [reflexivity|]. cbn [map map2]. rewrite IH. reflexivity. Qed.

Lemma map2_map_r : forall {A B C} (f : A -> B -> C) (h : A -> B) l,
  map2 f l (map h l) = map (fun x => f x (h x)) l.
Proof. intros. induction l as [|x l IH]; [reflexivity|]. cbn [map map2]. rewrite IH. reflexivity. Qed.

Lemma combine_map_map : forall {A B C} (g : A -> B) (h : A -> C) l,
  combine (map g l) (map h l) = map (fun x => (g x, h x)) l.
Proof. intros. induction l as [|x l IH]; [reflexivity|]. cbn [map combine]. rewrite IH. reflexivity. Qed.

Lemma concat_map_singleton : forall {A B} (f : A -> B) l, concat (map (fun x => [f x]) l) = map f l.
Proof. intros. induction l as [|x l IH]; [reflexivity|]. cbn. rewrite IH. reflexivity. Qed.

Lemma count_true_map : forall {A} (p : A -> bool) l,
  count_true (map p l) = Z.of_nat (length (filter p l)).
Proof.
  intros. unfold count_true. f_equal. induction l as [|x l IH]; [reflexivity|].
  cbn [map filter]. destruct (p x); cbn [length]; rewrite IH; reflexivity.
Qed.

Lemma filter_all : forall {A} (p : A -> bool) l, Forall (fun x => p x = true) l -> filter p l = l.
Proof. intros A p l H. induction H; [reflexivity|]. cbn [filter]. rewrite H, IHForall. reflexivity. Qed.

Lemma filter_none : forall {A} (p : A -> bool) l, Forall (fun x => p x = false) l -> filter p l = [].
Proof. intros A p l H. induction H; [reflexivity|]. cbn [filter]. rewrite H, IHForall. reflexivity. Qed.

(** number of elements satisfying [p] in a list made of a prefix where [p] holds, one
    element where it holds and a suffix where it fails *)
Lemma count_prefix : forall {A} (p : A -> bool) l1 x l2,
  Forall (fun y => p y = true) l1 -> p x = true -> Forall (fun y => p y = false) l2 ->
  length (filter p (l1 ++ x :: l2)) = S (length l1).
Proof.
  intros A p l1 x l2 H1 Hx H2. rewrite filter_app. cbn [filter]. rewrite Hx.
  rewrite (filter_all _ _ H1), (filter_none _ _ H2), app_length. cbn [length]. lia.
Qed.

(** in a sorted scale [pre ++ (t, r) :: post] everything in [pre] is below [t] and
    everything in [post] above *)
Lemma sorted_app_inv : forall pre t r post,
  sorted (pre ++ (t, r) :: post) ->
  Forall (fun x => fst x < t) pre /\ above t post /\ sorted ((t, r) :: post).
Proof.
  induction pre as [|[u q] pre IH]; intros t r post H.
  - cbn [app] in H. split; [constructor|]. split; [eapply sorted_above; exact H|exact H].
  - cbn [app] in H. pose proof (sorted_above _ _ _ H) as Ha. apply sorted_tail in H.
    destruct (IH _ _ _ H) as [H1 [H2 H3]]. split; [|tauto].
    constructor; [|exact H1]. unfold above in Ha. rewrite Forall_forall in Ha.
    apply (Ha (t, r)). apply in_or_app. right. left. reflexivity.
Qed.

Lemma above_upper_end : forall t post,
  above t post -> match upper_end post with Fin h => t < h | Inf => True end.
Proof. intros t [|[u q] post] H; cbn [upper_end]; [exact I|]. inversion H; subst. assumption. Qed.

(** when [b] is before the upper end of a bracket, it is before every later threshold *)
Lemma above_before : forall right b t r post,
  sorted ((t, r) :: post) ->
  match upper_end post with
  | Fin h => before right b h
  | Inf => True
  end ->
  Forall (fun x => before right b (fst x)) post.
Proof.
  intros right b t r post Hs Hb. apply sorted_tail in Hs. destruct post as [|[u q] post]; [constructor|].
  cbn [upper_end] in Hb. constructor; [exact Hb|].
  pose proof (sorted_above _ _ _ Hs) as Ha. eapply Forall_impl; [|exact Ha].
  intros x Hx. cbn beta in *. unfold before in *. destruct right; lra.
Qed.

(* ------------------------------------------------------------------------- *)
(** * MarginalAmountTaxScale.calc                                              *)
(* ------------------------------------------------------------------------- *)

(** clipped bracket parts without threshold multiplier *)
Fixpoint clips0 (b : Q) (s : scale) : list Q :=
  match s with
  | [] => []
  | (t, _) :: rest => clip1 b (upper_end rest) (Fin t) :: clips0 b rest
  end.

Lemma clip_row_clips0 : forall b s n,
  (length s <= n)%nat ->
  clip_row (repeat b n) (map Fin (thresholds s) ++ [Inf]) = clips0 b s.
Proof.
  intros b s. unfold clip_row. induction s as [|[t r] s IH]; intros n Hn.
  - cbn. destruct n; reflexivity.
  - destruct n; cbn [length] in Hn; [lia|].
    destruct s as [|[t' r'] s'].
    + cbn. destruct n; reflexivity.
    + specialize (IH n ltac:(cbn [length] in *; lia)).
      cbn [thresholds map fst app] in *. rewrite his_los_cons2.
      cbn [repeat map2 fst snd clips0 upper_end]. f_equal. exact IH.
Qed.

Lemma calc_marginal_amount_map : forall s bases,
  calc_marginal_amount s bases
  = map (fun b => dot (rates s) (map (fun x => b2q (Qlt_bool 0 x)) (clips0 b s))) bases.
Proof.
  intros. unfold calc_marginal_amount, tile_T, tile_rows. rewrite map2_map_map, map_map.
  apply map_ext. intro b. rewrite clip_row_clips0 by lia. reflexivity.
Qed.

Lemma calc_marginal_amount_pointwise : forall s bases,
  calc_marginal_amount s bases = concat (map (fun b => calc_marginal_amount s [b]) bases).
Proof.
  intros. rewrite calc_marginal_amount_map.
  rewrite (map_ext _ (fun b => [dot (rates s) (map (fun x => b2q (Qlt_bool 0 x)) (clips0 b s))])).
  - rewrite concat_map_singleton. reflexivity.
  - intro b. rewrite calc_marginal_amount_map. reflexivity.
Qed.

(** the clipped part of a non-empty bracket is positive exactly when the threshold is
    below the base *)
Lemma clip1_pos : forall b t hi,
  match hi with Fin h => t < h | Inf => True end ->
  Qlt_bool 0 (clip1 b hi (Fin t)) = Qlt_bool t b.
Proof.
  intros b t hi Hhi.
  destruct (Qlt_bool t b) eqn:E; [apply Qlt_bool_iff|apply Qlt_bool_false_iff]; qcases;
    destruct hi as [h|]; cbn [clip1 emin]; qminmax; lra.
Qed.

Lemma dot_amounts_below : forall b s,
  sorted s ->
  dot (rates s) (map (fun x => b2q (Qlt_bool 0 x)) (clips0 b s)) == amounts_below b s.
Proof.
  intros b s. induction s as [|[t a] s IH]; intro Hs; [reflexivity|].
  cbn [rates map snd clips0 amounts_below]. rewrite dot_cons. fold (rates s).
  rewrite (IH (sorted_tail _ _ Hs)).
  rewrite clip1_pos by (apply above_upper_end; eapply sorted_above; exact Hs).
  destruct (Qlt_bool t b); cbn [b2q]; ring.
Qed.

Theorem calc_marginal_amount_def : forall s bases,
  sorted s ->
  Forall2 Qeq (calc_marginal_amount s bases) (map (fun b => amounts_below b s) bases).
Proof.
  intros s bases Hs. rewrite calc_marginal_amount_map.
  induction bases as [|b bs IH]; constructor; [|exact IH]. apply dot_amounts_below. exact Hs.
Qed.

(* ------------------------------------------------------------------------- *)
(** * SingleAmountTaxScale.calc                                                *)
(* ------------------------------------------------------------------------- *)

Lemma calc_single_amount_pointwise : forall right s bases,
  calc_single_amount right s bases = concat (map (fun b => calc_single_amount right s [b]) bases).
Proof. intros. unfold calc_single_amount. cbn [map]. rewrite concat_map_singleton. reflexivity. Qed.

Definition reached (right : bool) (b t : Q) : bool := if right then Qlt_bool t b else Qle_bool t b.

Lemma reached_before : forall right b t, before right b t -> reached right b t = false.
Proof.
  intros [|] b t H; unfold before, reached in *; [apply Qlt_bool_false_iff|apply Qle_bool_false_iff]; exact H.
Qed.

Lemma reached_lt : forall right b t u, u < t -> reached right b t = true -> reached right b u = true.
Proof.
  intros [|] b t u Hu H; unfold reached in *; qcases; [apply Qlt_bool_iff|apply Qle_bool_iff]; lra.
Qed.

Lemma in_bracket_reached : forall right lo hi b, in_bracket right lo hi b -> reached right b lo = true.
Proof.
  intros [|] lo hi b [H _]; unfold reached; [apply Qlt_bool_iff|apply Qle_bool_iff]; exact H.
Qed.

Lemma in_bracket_before : forall right lo hi b,
  in_bracket right lo hi b -> match hi with Fin h => before right b h | Inf => True end.
Proof. intros [|] lo [h|] b [_ H]; cbn; auto. Qed.

(** number of thresholds reached by [b] when [b] is in the bracket after [pre] *)
Lemma digitize_in_bracket : forall right pre t a post b,
  sorted (pre ++ (t, a) :: post) ->
  in_bracket right t (upper_end post) b ->
  digitize_m1 right (thresholds (pre ++ (t, a) :: post)) b = S (length pre).
Proof.
  intros right pre t a post b Hs Hb. unfold digitize_m1.
  change (fun t0 => if right then Qlt_bool t0 b else Qle_bool t0 b) with (reached right b).
  destruct (sorted_app_inv _ _ _ _ Hs) as [Hpre [Hpost Hs']].
  unfold thresholds. rewrite map_app. cbn [map fst].
  rewrite count_prefix; [rewrite map_length; reflexivity| | |].
  - rewrite Forall_map. eapply Forall_impl; [|exact Hpre]. intros x Hx. cbn beta in *.
    eapply reached_lt; [exact Hx|]. eapply in_bracket_reached. exact Hb.
  - eapply in_bracket_reached. exact Hb.
  - rewrite Forall_map. pose proof (above_before right b _ _ _ Hs' (in_bracket_before _ _ _ _ Hb)) as H.
    eapply Forall_impl; [|exact H]. intros x Hx. apply reached_before. exact Hx.
Qed.

Lemma nth_guarded : forall pre t a post,
  nth (S (length pre)) (0 :: rates (pre ++ (t, a) :: post) ++ [0]) 0 = a.
Proof.
  intros. cbn [nth]. unfold rates. rewrite map_app. cbn [map snd]. rewrite <- app_assoc.
  rewrite app_nth2; rewrite map_length; [|lia]. rewrite Nat.sub_diag. reflexivity.
Qed.

(** the amount of the bracket containing the base *)
Theorem calc_single_amount_def : forall right pre t a post b,
  sorted (pre ++ (t, a) :: post) ->
  in_bracket right t (upper_end post) b ->
  calc_single_amount right (pre ++ (t, a) :: post) [b] = [a].
Proof.
  intros. unfold calc_single_amount. cbn [map]. rewrite digitize_in_bracket by assumption.
  rewrite nth_guarded. reflexivity.
Qed.

(** 0 before the first threshold (no sortedness needed: before every threshold) *)
Theorem calc_single_amount_outside : forall right s b,
  Forall (fun x => before right b (fst x)) s ->
  calc_single_amount right s [b] = [0].
Proof.
  intros right s b H. unfold calc_single_amount, digitize_m1. cbn [map].
  change (fun t0 => if right then Qlt_bool t0 b else Qle_bool t0 b) with (reached right b).
  rewrite filter_none; [reflexivity|]. unfold thresholds. rewrite Forall_map.
  eapply Forall_impl; [|exact H]. intros x Hx. apply reached_before. exact Hx.
Qed.

(* ------------------------------------------------------------------------- *)
(** * RateTaxScaleLike.bracket_indices, MarginalRateTaxScale.marginal_rates    *)
(* ------------------------------------------------------------------------- *)

(** one row of thresholds1 (the same for every base) *)
Definition trow (eps f : Q) (rd : option Z) (ths : list ext) : list ext :=
  match rd with
  | None => map (emul (1 * f + eps)) ths
  | Some d => map (earound d) (map (emul (1 * f + eps)) ths)
  end.

Lemma thresholds1_rows : forall eps f rd ths bases,
  thresholds1 eps f rd ths bases = map (fun _ => trow eps f rd ths) bases.
Proof.
  intros. unfold thresholds1, outer, trow. rewrite !map_map. destruct rd; [rewrite map_map|]; reflexivity.
Qed.

(** index reported for one base *)
Definition bracket_index1 (eps f : Q) (rd : option Z) (s : scale) (b : Q) : Z :=
  (count_true (map2 (fun b t => match t with Fin t => Qle_bool 0 (b - t) | Inf => false end)
                    (repeat b (length s)) (trow eps f rd (map Fin (thresholds s)))) - 1)%Z.

Lemma bracket_indices_map : forall eps f rd s bases,
  s <> [] -> bases <> [] ->
  bracket_indices eps f rd s bases = Ok (map (bracket_index1 eps f rd s) bases).
Proof.
  intros eps f rd s bases Hs Hb. unfold bracket_indices.
  destruct s as [|x s]; [congruence|]. destruct bases as [|b bs]; [congruence|].
  rewrite thresholds1_rows. unfold tile_T. rewrite map2_map_map. reflexivity.
Qed.

Theorem bracket_indices_pointwise : forall eps f rd s bases,
  s <> [] -> bases <> [] ->
  exists l, bracket_indices eps f rd s bases = Ok l
            /\ Forall2 (fun b k => bracket_indices eps f rd s [b] = Ok [k]) bases l.
Proof.
  intros eps f rd s bases Hs Hb. exists (map (bracket_index1 eps f rd s) bases).
  split; [apply bracket_indices_map; assumption|].
  clear Hb. induction bases as [|b bs IH]; constructor; [|exact IH].
  rewrite bracket_indices_map; [reflexivity|exact Hs|discriminate].
Qed.

Theorem marginal_rates_pointwise : forall eps f rd s bases,
  s <> [] -> bases <> [] ->
  exists l, marginal_rates eps f rd s bases = Ok l
            /\ Forall2 (fun b k => marginal_rates eps f rd s [b] = Ok [k]) bases l.
Proof.
  intros eps f rd s bases Hs Hb. unfold marginal_rates.
  exists (map (py_nth (rates s)) (map (bracket_index1 eps f rd s) bases)).
  rewrite bracket_indices_map by assumption. split; [reflexivity|].
  clear Hb. induction bases as [|b bs IH]; constructor; [|exact IH].
  rewrite bracket_indices_map; [reflexivity|exact Hs|discriminate].
Qed.

(** without rounding the index is the number of shifted thresholds <= b, minus one *)
Lemma bracket_index1_count : forall eps f s b,
  bracket_index1 eps f None s b
  = (Z.of_nat (length (filter (fun t => Qle_bool ((1 * f + eps) * t) b) (thresholds s))) - 1)%Z.
Proof.
  intros. unfold bracket_index1, trow. rewrite map2_repeat_l by (rewrite !map_length; unfold thresholds; rewrite map_length; lia).
  rewrite !map_map, count_true_map. cbn [emul]. do 3 f_equal.
  apply filter_ext. intro t. generalize ((1 * f + eps) * t). intro x.
  destruct (Qle_bool x b) eqn:E; [apply Qle_bool_iff|apply Qle_bool_false_iff]; qcases; lra.
Qed.

Lemma py_nth_nat : forall l n, py_nth l (Z.of_nat n) = nth n l 0.
Proof.
  intros. unfold py_nth. destruct (Z.of_nat n <? 0)%Z eqn:E; [apply Z.ltb_lt in E; lia|]. rewrite Nat2Z.id. reflexivity.
Qed.

Lemma nth_rates_app : forall pre t r post, nth (length pre) (rates (pre ++ (t, r) :: post)) 0 = r.
Proof.
  intros. unfold rates. rewrite map_app. cbn [map snd].
  rewrite app_nth2; rewrite map_length; [|lia]. rewrite Nat.sub_diag. reflexivity.
Qed.

Lemma nth_thresholds_app : forall pre t r post, nth (length pre) (thresholds (pre ++ (t, r) :: post)) 0 = t.
Proof.
  intros. unfold thresholds. rewrite map_app. cbn [map fst].
  rewrite app_nth2; rewrite map_length; [|lia]. rewrite Nat.sub_diag. reflexivity.
Qed.

(** The bracket reported for base [b] is the one whose shifted interval
    [t * m, t_next * m) contains [b]  (m = factor + eps > 0, thresholds sorted). *)
Lemma bracket_index1_in_bracket : forall eps f pre t r post b,
  sorted (pre ++ (t, r) :: post) ->
  0 < f + eps ->
  in_bracket false ((f + eps) * t) (emul (f + eps) (upper_end post)) b ->
  bracket_index1 eps f None (pre ++ (t, r) :: post) b = Z.of_nat (length pre).
Proof.
  intros eps f pre t r post b Hs Hm [Hlo Hhi].
  rewrite bracket_index1_count.
  destruct (sorted_app_inv _ _ _ _ Hs) as [Hpre [Hpost Hs']].
  assert (Em : 1 * f + eps == f + eps) by ring.
  unfold thresholds. rewrite map_app. cbn [map fst].
  rewrite count_prefix; [rewrite map_length; lia| | |].
  - rewrite Forall_map. eapply Forall_impl; [|exact Hpre]. intros x Hx. cbn beta in *.
    apply Qle_bool_iff. rewrite Em. nra.
  - apply Qle_bool_iff. rewrite Em. exact Hlo.
  - rewrite Forall_map. destruct post as [|[u q] post]; [constructor|].
    cbn [upper_end emul] in Hhi. pose proof (sorted_above _ _ _ (sorted_tail _ _ Hs')) as Ha.
    constructor.
    + apply Qle_bool_false_iff. cbn [fst]. rewrite Em. exact Hhi.
    + eapply Forall_impl; [|exact Ha]. intros x Hx. cbn beta in *.
      apply Qle_bool_false_iff. rewrite Em. nra.
Qed.

Theorem bracket_of_base_index : forall eps f pre t r post b,
  sorted (pre ++ (t, r) :: post) ->
  0 < f + eps ->
  in_bracket false ((f + eps) * t) (emul (f + eps) (upper_end post)) b ->
  bracket_indices eps f None (pre ++ (t, r) :: post) [b] = Ok [Z.of_nat (length pre)].
Proof.
  intros. rewrite bracket_indices_map; [|destruct pre; discriminate|discriminate].
  cbn [map]. rewrite bracket_index1_in_bracket by assumption. reflexivity.
Qed.

Theorem bracket_of_base_rate : forall eps f pre t r post b,
  sorted (pre ++ (t, r) :: post) ->
  0 < f + eps ->
  in_bracket false ((f + eps) * t) (emul (f + eps) (upper_end post)) b ->
  marginal_rates eps f None (pre ++ (t, r) :: post) [b] = Ok [r].
Proof.
  intros. unfold marginal_rates. rewrite bracket_of_base_index by assumption.
  cbn [rmap map]. rewrite py_nth_nat, nth_rates_app. reflexivity.
Qed.

Theorem bracket_of_base_rate_from : forall eps pre t r post b,
  sorted (pre ++ (t, r) :: post) ->
  0 < 1 + eps ->
  in_bracket false ((1 + eps) * t) (emul (1 + eps) (upper_end post)) b ->
  rate_from_tax_base eps (pre ++ (t, r) :: post) [b] = Ok [r].
Proof.
  intros. unfold rate_from_tax_base. rewrite bracket_of_base_index by assumption.
  cbn [bind]. unfold rate_from_bracket_indice. cbn [existsb].
  rewrite app_length. cbn [length].
  destruct (Z.of_nat (length pre + S (length post)) - 1 <? Z.of_nat (length pre))%Z eqn:E; [apply Z.ltb_lt in E; lia|].
  cbn [orb map]. rewrite py_nth_nat, nth_rates_app. reflexivity.
Qed.

Theorem bracket_of_base_threshold_from : forall eps pre t r post b,
  sorted (pre ++ (t, r) :: post) ->
  0 < 1 + eps ->
  in_bracket false ((1 + eps) * t) (emul (1 + eps) (upper_end post)) b ->
  threshold_from_tax_base eps (pre ++ (t, r) :: post) [b] = Ok [t].
Proof.
  intros. unfold threshold_from_tax_base. rewrite bracket_of_base_index by assumption.
  cbn [rmap map]. rewrite py_nth_nat, nth_thresholds_app. reflexivity.
Qed.

(* ------------------------------------------------------------------------- *)
(** * LinearAverageRateTaxScale.calc                                           *)
(* ------------------------------------------------------------------------- *)

(** rate interpolated linearly between (t0, r0) and (t1, r1) at b; constant r0 in the
    open-ended last bracket *)
Definition interpolated_rate (t0 r0 : Q) (t1 : ext) (r1 : Q) (b : Q) : Q :=
  match t1 with
  | Fin c => r0 + (b - t0) * ((r1 - r0) / (c - t0))
  | Inf => r0
  end.

Definition esorted (s : escale) : Prop :=
  StronglySorted (fun a b => ext_ltb a b = true) (ethresholds s).

(** indicator of b in [lo, hi) *)
Definition ind (b : Q) (lo hi : ext) : Q := b2q (ext_leb_q lo b && q_ltb_ext b hi).

(** one value per pair of consecutive brackets *)
Fixpoint segvals {A} (h : ext * Q -> ext * Q -> A) (s : escale) : list A :=
  match s with
  | [] => []
  | x0 :: rest => match rest with
                  | [] => []
                  | x1 :: _ => h x0 x1 :: segvals h rest
                  end
  end.

Fixpoint seg_sum (g : ext * Q -> ext * Q -> Q) (s : escale) : Q :=
  match s with
  | [] => 0
  | x0 :: rest => match rest with
                  | [] => 0
                  | x1 :: _ => g x0 x1 + seg_sum g rest
                  end
  end.

Lemma segvals_length : forall {A} (h : ext * Q -> ext * Q -> A) s, length (segvals h s) = (length s - 1)%nat.
Proof.
  intros A h s. induction s as [|x0 [|x1 rest] IH]; try reflexivity.
  cbn [segvals length] in *. rewrite IH. lia.
Qed.

Lemma combine_lo_hi : forall s : escale,
  combine (removelast (ethresholds s)) (tl (ethresholds s)) = segvals (fun x y => (fst x, fst y)) s.
Proof.
  induction s as [|x0 [|x1 rest] IH]; try reflexivity.
  change (ethresholds (x0 :: x1 :: rest)) with (fst x0 :: ethresholds (x1 :: rest)).
  change (ethresholds (x1 :: rest)) with (fst x1 :: ethresholds rest) at 1 2.
  cbn [removelast tl combine segvals]. f_equal.
  change (fst x1 :: ethresholds rest) with (ethresholds (x1 :: rest)). exact IH.
Qed.

Lemma combine_rates : forall s : escale,
  combine (removelast (erates s)) (tl (erates s)) = segvals (fun x y => (snd x, snd y)) s.
Proof.
  induction s as [|x0 [|x1 rest] IH]; try reflexivity.
  change (erates (x0 :: x1 :: rest)) with (snd x0 :: erates (x1 :: rest)).
  change (erates (x1 :: rest)) with (snd x1 :: erates rest) at 1 2.
  cbn [removelast tl combine segvals]. f_equal.
  change (snd x1 :: erates rest) with (erates (x1 :: rest)). exact IH.
Qed.

Lemma removelast_erates : forall s : escale, removelast (erates s) = segvals (fun x _ => snd x) s.
Proof.
  induction s as [|x0 [|x1 rest] IH]; try reflexivity.
  change (erates (x0 :: x1 :: rest)) with (snd x0 :: erates (x1 :: rest)).
  change (erates (x1 :: rest)) with (snd x1 :: erates rest) at 1.
  cbn [removelast segvals]. f_equal.
  change (snd x1 :: erates rest) with (erates (x1 :: rest)). exact IH.
Qed.

Lemma removelast_ethresholds : forall s : escale,
  map fin_or0 (removelast (ethresholds s)) = segvals (fun x _ => fin_or0 (fst x)) s.
Proof.
  induction s as [|x0 [|x1 rest] IH]; try reflexivity.
  change (ethresholds (x0 :: x1 :: rest)) with (fst x0 :: ethresholds (x1 :: rest)).
  change (ethresholds (x1 :: rest)) with (fst x1 :: ethresholds rest) at 1.
  cbn [removelast segvals map]. f_equal.
  change (fst x1 :: ethresholds rest) with (ethresholds (x1 :: rest)). exact IH.
Qed.

Lemma map_segvals : forall {A B} (f : A -> B) (h : ext * Q -> ext * Q -> A) s,
  map f (segvals h s) = segvals (fun x y => f (h x y)) s.
Proof.
  intros A B f h s. induction s as [|x0 [|x1 rest] IH]; try reflexivity.
  cbn [segvals map] in *. rewrite IH. reflexivity.
Qed.

Lemma map2_segvals : forall {A B C} (f : A -> B -> C) (h : ext * Q -> ext * Q -> A) (k : ext * Q -> ext * Q -> B) s,
  map2 f (segvals h s) (segvals k s) = segvals (fun x y => f (h x y) (k x y)) s.
Proof.
  intros A B C f h k s. induction s as [|x0 [|x1 rest] IH]; try reflexivity.
  cbn [segvals map2] in *. rewrite IH. reflexivity.
Qed.

Lemma dot_segvals : forall h k s, dot (segvals h s) (segvals k s) = seg_sum (fun x y => h x y * k x y) s.
Proof.
  intros h k s. induction s as [|x0 [|x1 rest] IH]; try reflexivity.
  cbn [segvals seg_sum] in *. rewrite dot_cons, IH. reflexivity.
Qed.

(** the value computed for one base, as three sums over consecutive brackets *)
Definition la1 (s : escale) (b : Q) : Q :=
  let w x y := ind b (fst x) (fst y) in
  b * (seg_sum (fun x y => w x y * snd x) s
       + (b - seg_sum (fun x y => w x y * fin_or0 (fst x)) s)
         * seg_sum (fun x y => w x y * slope (fst x) (fst y) (snd x) (snd y)) s).

Lemma calc_linear_average_map : forall s bases,
  (2 <= length s)%nat -> calc_linear_average s bases = Ok (map (la1 s) bases).
Proof.
  intros s bases Hlen. destruct s as [|[t0 r0] [|x1 rest]]; cbn [length] in Hlen; try lia.
  unfold calc_linear_average. set (s := (t0, r0) :: x1 :: rest).
  unfold tile_T, tile_rows. rewrite map2_map_map.
  rewrite combine_lo_hi, combine_rates, removelast_erates, removelast_ethresholds, map2_segvals.
  rewrite (map_ext _ (fun b => segvals (fun x y => ind b (fst x) (fst y)) s)).
  2:{ intro b. rewrite map2_repeat_l by (rewrite segvals_length; lia). rewrite map_segvals. reflexivity. }
  rewrite !map_map, !combine_map_map, map2_map_r. f_equal. apply map_ext. intro b.
  cbn [fst snd]. rewrite !dot_segvals. reflexivity.
Qed.

Theorem calc_linear_average_pointwise : forall s bases,
  s <> [] ->
  exists l, calc_linear_average s bases = Ok l
            /\ Forall2 (fun b v => calc_linear_average s [b] = Ok [v]) bases l.
Proof.
  intros s bases Hs. destruct s as [|[t0 r0] [|x1 rest]]; [congruence| |].
  - exists (map (fun b => b * r0) bases). split; [reflexivity|].
    induction bases as [|b bs IH]; constructor; [reflexivity|exact IH].
  - exists (map (la1 ((t0, r0) :: x1 :: rest)) bases).
    split; [apply calc_linear_average_map; cbn [length]; lia|].
    induction bases as [|b bs IH]; constructor; [|exact IH].
    rewrite calc_linear_average_map by (cbn [length]; lia). reflexivity.
Qed.

(** ** exactly one indicator is 1 for a base inside the thresholds' range *)

Lemma seg_sum_above : forall b h s,
  Forall (fun x => ext_leb_q (fst x) b = false) s ->
  seg_sum (fun x y => ind b (fst x) (fst y) * h x y) s == 0.
Proof.
  intros b h s H. induction H as [|x0 rest Hx Hr IH]; [reflexivity|].
  destruct rest as [|x1 rest]; [reflexivity|].
  cbn [seg_sum] in *. rewrite IH. unfold ind. rewrite Hx. cbn [andb b2q]. ring.
Qed.

Lemma seg_sum_cons2 : forall g x y l, seg_sum g (x :: y :: l) = g x y + seg_sum g (y :: l).
Proof. reflexivity. Qed.

Lemma seg_sum_pre : forall b h pre x0 tail,
  Forall (fun x => q_ltb_ext b (fst x) = false) (pre ++ [x0]) ->
  seg_sum (fun x y => ind b (fst x) (fst y) * h x y) (pre ++ x0 :: tail)
  == seg_sum (fun x y => ind b (fst x) (fst y) * h x y) (x0 :: tail).
Proof.
  intros b h pre x0 tail. induction pre as [|p pre IH]; intro H; [reflexivity|].
  cbn [app] in H. inversion H as [|? ? Hp H']; subst. specialize (IH H').
  assert (Hq : exists q l, pre ++ x0 :: tail = q :: l /\ q_ltb_ext b (fst q) = false).
  { destruct pre as [|q pre]; cbn [app] in *; inversion H'; subst; eauto. }
  destruct Hq as [q [l [El Hq]]]. cbn [app]. rewrite El in *.
  rewrite seg_sum_cons2, IH. unfold ind at 1. rewrite Hq, andb_false_r. cbn [b2q]. ring.
Qed.

Lemma esorted_app_inv : forall pre x0 tail,
  esorted (pre ++ x0 :: tail) ->
  Forall (fun x => ext_ltb (fst x) (fst x0) = true) pre
  /\ Forall (fun x => ext_ltb (fst x0) (fst x) = true) tail
  /\ esorted (x0 :: tail).
Proof.
  unfold esorted, ethresholds. induction pre as [|p pre IH]; intros x0 tail H.
  - cbn [app map] in *. split; [constructor|]. split; [|exact H].
    inversion H as [|? ? _ Hf]; subst. rewrite Forall_map in Hf. exact Hf.
  - cbn [app map] in H. inversion H as [|? ? Hs Hf]; subst.
    destruct (IH _ _ Hs) as [H1 [H2 H3]]. split; [|tauto].
    constructor; [|exact H1]. rewrite Forall_map, Forall_forall in Hf.
    apply (Hf x0). apply in_or_app. right. left. reflexivity.
Qed.

Lemma seg_sum_in_bracket : forall b h pre t0 r0 x1 post,
  esorted (pre ++ (Fin t0, r0) :: x1 :: post) ->
  in_bracket false t0 (fst x1) b ->
  seg_sum (fun x y => ind b (fst x) (fst y) * h x y) (pre ++ (Fin t0, r0) :: x1 :: post)
  == h (Fin t0, r0) x1.
Proof.
  intros b h pre t0 r0 x1 post Hs [Hlo Hhi].
  destruct (esorted_app_inv _ _ _ Hs) as [Hpre [_ Hs0]].
  destruct (esorted_app_inv [(Fin t0, r0)] x1 post Hs0) as [_ [Hpost _]].
  assert (Hb1 : q_ltb_ext b (fst x1) = true).
  { destruct (fst x1) as [c|]; [apply Qlt_bool_iff; exact Hhi|reflexivity]. }
  rewrite seg_sum_pre.
  2:{ apply Forall_app. split.
      - eapply Forall_impl; [|exact Hpre]. intros [[c|] q] Hx; cbn [fst ext_ltb q_ltb_ext] in *; [|discriminate].
        qcases. apply Qlt_bool_false_iff. lra.
      - constructor; [|constructor]. cbn [fst q_ltb_ext]. apply Qlt_bool_false_iff. exact Hlo. }
  rewrite seg_sum_cons2, seg_sum_above.
  2:{ assert (H1 : ext_leb_q (fst x1) b = false).
      { destruct (fst x1) as [c|]; cbn [ext_leb_q q_ltb_ext] in *; [|reflexivity].
        qcases. apply Qle_bool_false_iff. exact Hb1. }
      constructor; [exact H1|]. eapply Forall_impl; [|exact Hpost].
      intros [[c|] q] Hx; cbn [fst ext_leb_q] in *; [|reflexivity].
      destruct (fst x1) as [c1|]; cbn [ext_ltb q_ltb_ext] in *; [|discriminate].
      qcases. apply Qle_bool_false_iff. lra. }
  unfold ind. cbn [fst ext_leb_q]. rewrite Hb1.
  assert (E : Qle_bool t0 b = true) by (apply Qle_bool_iff; exact Hlo). rewrite E. cbn [andb b2q]. ring.
Qed.

(** For a base in [t0, t1) the result is base * rate interpolated between (t0, r0) and
    (t1, r1);  t1 may be +inf (last bracket of an average scale): constant rate r0. *)
Theorem calc_linear_average_def : forall pre t0 r0 t1 r1 post b,
  esorted (pre ++ (Fin t0, r0) :: (t1, r1) :: post) ->
  in_bracket false t0 t1 b ->
  exists v, calc_linear_average (pre ++ (Fin t0, r0) :: (t1, r1) :: post) [b] = Ok [v]
            /\ v == b * interpolated_rate t0 r0 t1 r1 b.
Proof.
  intros pre t0 r0 t1 r1 post b Hs Hb.
  exists (la1 (pre ++ (Fin t0, r0) :: (t1, r1) :: post) b). split.
  - apply (calc_linear_average_map _ [b]). rewrite app_length. cbn [length]. lia.
  - unfold la1. rewrite !(seg_sum_in_bracket b _ pre t0 r0 (t1, r1) post Hs Hb).
    cbn [fst snd fin_or0]. unfold interpolated_rate, slope. destruct t1 as [c|]; ring.
Qed.

(** the same for a scale with finite thresholds (what C08 runs: [to_escale (build calls)]) *)
Lemma esorted_to_escale : forall s, sorted s -> esorted (to_escale s).
Proof.
  intros s. unfold esorted, ethresholds, to_escale. rewrite map_map. cbn [fst].
  induction s as [|[t r] s IH]; intro H; [constructor|].
  cbn [map fst]. constructor; [apply IH; eapply sorted_tail; exact H|].
  rewrite Forall_map. eapply Forall_impl; [|exact (sorted_above _ _ _ H)].
  intros u Hu. cbn [ext_ltb]. apply Qlt_bool_iff. exact Hu.
Qed.

Theorem calc_linear_average_def_fin : forall pre t0 r0 t1 r1 post b,
  sorted (pre ++ (t0, r0) :: (t1, r1) :: post) ->
  t0 <= b < t1 ->
  exists v, calc_linear_average (to_escale (pre ++ (t0, r0) :: (t1, r1) :: post)) [b] = Ok [v]
            /\ v == b * (r0 + (b - t0) * ((r1 - r0) / (t1 - t0))).
Proof.
  intros pre t0 r0 t1 r1 post b Hs Hb. apply esorted_to_escale in Hs.
  unfold to_escale in *. rewrite map_app in *. cbn [map fst snd] in *.
  apply (calc_linear_average_def _ t0 r0 (Fin t1) r1 _ b Hs). exact Hb.
Qed.

(* ------------------------------------------------------------------------- *)
(** * [marginal_tax] is the textbook piecewise-linear function                 *)
(* ------------------------------------------------------------------------- *)

Lemma overlap_zero : forall lo hi b, b <= lo -> overlap lo hi b == 0.
Proof. intros lo [h|] b H; cbn [overlap]; qminmax; lra. Qed.

Lemma overlap_inside : forall lo hi b,
  lo <= b -> match hi with Fin h => b <= h | Inf => True end -> overlap lo hi b == b - lo.
Proof. intros lo [h|] b H1 H2; cbn [overlap]; qminmax; lra. Qed.

Lemma marginal_tax_zero_below : forall b s,
  Forall (fun x => b <= fst x) s -> marginal_tax b s == 0.
Proof.
  intros b s H. induction H as [|[t r] s Ht _ IH]; [reflexivity|].
  cbn [marginal_tax fst] in *. rewrite IH, (overlap_zero _ _ _ Ht). ring.
Qed.

(** On a sorted scale: 0 up to the first threshold, and inside (the closure of) the
    bracket starting at t with rate r:  tax(b) = tax(t) + r * (b - t). *)
Theorem marginal_tax_piecewise_linear : forall pre t r post b,
  sorted (pre ++ (t, r) :: post) ->
  t <= b -> match upper_end post with Fin h => b <= h | Inf => True end ->
  marginal_tax b (pre ++ (t, r) :: post) == marginal_tax t (pre ++ (t, r) :: post) + r * (b - t).
Proof.
  induction pre as [|[u q] pre IH]; intros t r post b Hs Hlo Hhi.
  - cbn [app marginal_tax]. pose proof (sorted_above _ _ _ Hs) as Ha.
    assert (Hz : forall x, t <= x -> match upper_end post with Fin h => x <= h | Inf => True end ->
                           marginal_tax x post == 0).
    { intros x Hx Hxh. apply marginal_tax_zero_below. destruct post as [|[v p] post]; [constructor|].
      cbn [upper_end] in Hxh. apply sorted_tail in Hs. pose proof (sorted_above _ _ _ Hs) as Ha'.
      constructor; [exact Hxh|]. eapply Forall_impl; [|exact Ha']. intros y Hy. cbn beta in *. cbn [fst]. lra. }
    rewrite (Hz b Hlo Hhi).
    rewrite (Hz t (Qle_refl t)) by (destruct (upper_end post); [lra|exact I]).
    rewrite (overlap_inside _ _ _ Hlo Hhi), (overlap_zero t _ t (Qle_refl t)). ring.
  - cbn [app marginal_tax]. pose proof (sorted_above _ _ _ Hs) as Ha.
    rewrite (IH t r post b (sorted_tail _ _ Hs) Hlo Hhi).
    assert (Hue : exists h, upper_end (pre ++ (t, r) :: post) = Fin h /\ h <= t).
    { destruct pre as [|[v p] pre]; cbn [app upper_end].
      - exists t. split; [reflexivity|apply Qle_refl].
      - exists v. split; [reflexivity|]. cbn [app] in Hs. apply sorted_tail in Hs.
        destruct (sorted_app_inv ((v, p) :: pre) t r post Hs) as [Hp _].
        inversion Hp; subst. cbn [fst] in *. lra. }
    destruct Hue as [h [Eh Hh]]. rewrite Eh. cbn [overlap].
    assert (E1 : Qmin b h == h) by (apply Q.min_r; lra).
    assert (E2 : Qmin t h == h) by (apply Q.min_r; lra).
    rewrite E1, E2. ring.
Qed.

(* ------------------------------------------------------------------------- *)
(** * The same for scales given by their add_bracket calls                     *)
(* ------------------------------------------------------------------------- *)

Corollary calc_marginal_amount_def_build : forall calls bases,
  Forall2 Qeq (calc_marginal_amount (build calls) bases)
              (map (fun b => amounts_below b (build calls)) bases).
Proof. intros. apply calc_marginal_amount_def. apply build_sorted. Qed.

Lemma shift_thresholds_seq : forall m s s', seq s s' -> seq (shift_thresholds m s) (shift_thresholds m s').
Proof.
  intros m s s' H. induction H as [|[t r] [t' r'] s s' [Ht Hr] _ IH]; constructor; [|exact IH].
  cbn [fst snd] in *. split; cbn [fst snd]; [rewrite Ht; reflexivity|exact Hr].
Qed.

(** the tax does not depend on the order of the add_bracket calls *)
Corollary calc_marginal_order_irrelevant : forall eps factor calls1 calls2 bases,
  Permutation calls1 calls2 ->
  Forall2 Qeq (calc_marginal eps factor None (build calls1) bases)
              (calc_marginal eps factor None (build calls2) bases).
Proof.
  intros eps factor c1 c2 bases H.
  eapply Forall2_Qeq_trans; [apply calc_marginal_def|].
  eapply Forall2_Qeq_trans; [|apply Forall2_Qeq_sym; apply calc_marginal_def].
  induction bases as [|b bs IH]; constructor; [|exact IH].
  apply marginal_tax_seq. apply shift_thresholds_seq. apply build_perm. exact H.
Qed.
