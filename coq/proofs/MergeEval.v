(** C11, second step: from local group operations (MergeEmb.v) to expressions, variables
    and whole rule systems.  For an embedding of population [pp] in [ppM] and inputs that
    agree on the image, [den] on [ppM] read at the image is [den] on [pp]; error kinds are
    the same. *)
From Coq Require Import ZArith List Bool Arith Lia.
From Verif Require Import Base Cal Tables Period Np NpProofs Group GroupSpec GroupProofs Param Engine.
From Verif Require Import EngineProofs Merge MergeLists MergeEmb.
Import ListNotations.
Open Scope nat_scope.

Section Rel.
  Variables pp ppM : popu.
  Variables fp fg : list nat.
  Hypothesis E : Emb (grp pp) (grp ppM) fp fg.
  Hypothesis Hpos : 0 < npersons (grp pp).
  Hypothesis HU : roles_unique (grp pp).
  Hypothesis HUM : roles_unique (grp ppM).

  Definition fsel (c : ent) : list nat := pick c fp fg.

  (** [aM] is an array over the entities [c] of [ppM] and [a] is its part at the image -
      or both are the empty array (the only array of another size that an expression can
      produce: the sum over no sub-period). *)
  Definition Rv (c : ent) (aM a : val) : Prop :=
    (length aM = count_of ppM c /\ a = gather (fsel c) aM) \/ (aM = [] /\ a = []).

  Definition Rr (c : ent) (rM r : res val) : Prop :=
    match rM, r with
    | Ok aM, Ok a => Rv c aM a
    | Err e, Err e' => e = e'
    | _, _ => False
    end.

  Lemma fsel_length c : length (fsel c) = count_of pp c.
  Proof. destruct c; [exact (e_lp _ _ _ _ E)|exact (e_lg _ _ _ _ E)]. Qed.

  Lemma fsel_lt c : Forall (fun j => j < count_of ppM c) (fsel c).
  Proof. destruct c; [exact (e_rp _ _ _ _ E)|exact (e_rg _ _ _ _ E)]. Qed.

  Lemma Rv_repeat c z : Rv c (repeat z (count_of ppM c)) (repeat z (count_of pp c)).
  Proof.
    left. split; [apply repeat_length|].
    rewrite (gather_nth z) by (rewrite repeat_length; apply fsel_lt).
    rewrite <- fsel_length, <- map_const_repeat. apply map_ext_in. intros j Hj.
    pose proof (fsel_lt c) as H. rewrite Forall_forall in H. symmetry. apply nth_full, H, Hj.
  Qed.

  Lemma Rv_map c h aM a : Rv c aM a -> Rv c (map h aM) (map h a).
  Proof.
    intros [[Hl Ha]|[-> ->]]; [left|right; split; reflexivity].
    split; [now rewrite map_length|]. subst a. symmetry. apply gather_map.
  Qed.

  Lemma Rv_zip2 c h aM a bM b : Rv c aM a -> Rv c bM b -> Rv c (zip2 h aM bM) (zip2 h a b).
  Proof.
    intros [[Hl Ha]|[-> ->]]; [|right; split; reflexivity].
    intros [[Hl' Hb]|[-> ->]]; [left|right; split; apply zip2_nil_r].
    split; [rewrite zip2_length, Hl, Hl'; apply Nat.min_id|]. subst a b.
    symmetry. apply gather_zip2. congruence.
  Qed.

  Lemma Rv_zip3 c h aM a bM b cM c' :
    Rv c aM a -> Rv c bM b -> Rv c cM c' -> Rv c (zip3 h aM bM cM) (zip3 h a b c').
  Proof.
    intros [[Hl Ha]|[-> ->]]; [|right; split; reflexivity].
    intros [[Hl' Hb]|[-> ->]]; [|right; split; apply zip3_nil_2].
    intros [[Hl'' Hc]|[-> ->]]; [left|right; split; apply zip3_nil_3].
    split; [rewrite zip3_length, Hl, Hl', Hl''; now rewrite !Nat.min_id|]. subst.
    symmetry. apply gather_zip3; congruence.
  Qed.

  Lemma Rv_cast c x aM a : Rv c aM a -> Rv c (cast x aM) (cast x a).
  Proof. intros H. unfold cast. destruct (v_type x); try exact H. now apply Rv_map. Qed.

  (** ** Group operations *)

  Lemma agg_rel g role xM x : Rv EPerson xM x -> Rr EGroup (agg ppM g role xM) (agg pp g role x).
  Proof.
    intros [[Hl Hx]|[-> ->]].
    - cbn [count_of] in Hl. cbn [fsel pick] in Hx. subst x. destruct g; cbn [agg].
      + destruct (sum_local _ _ _ _ E Hpos xM role Hl) as [sM [H1 [H2 H3]]]. rewrite H1, H3.
        left. split; [exact H2|reflexivity].
      + unfold any. destruct (sum_local _ _ _ _ E Hpos xM role Hl) as [sM [H1 [H2 H3]]]. rewrite H1, H3.
        cbn [bind rmap Rr]. rewrite !map_map. apply Rv_map. left. split; [exact H2|reflexivity].
      + destruct (all_local _ _ _ _ E Hpos xM role Hl) as [sM [H1 [H2 H3]]]. rewrite H1, H3.
        cbn [rmap Rr]. left. split; [now rewrite map_length|]. cbn [fsel pick]. symmetry. apply gather_map.
      + destruct role as [r|]; [|reflexivity].
        assert (D : {role_max (g_entity (grp pp)) r = Some 1} + {role_max (g_entity (grp pp)) r <> Some 1}).
        { destruct (role_max (g_entity (grp pp)) r) as [[|[|k]]|];
            [right; discriminate|left; reflexivity|right; discriminate|right; discriminate]. }
        destruct D as [Hm|Hm].
        * assert (HmM : role_max (g_entity (grp ppM)) r = Some 1) by (now rewrite (e_ent _ _ _ _ E)).
          destruct (vfp_local _ _ _ _ E Hpos xM r Hm (HU r Hm) (HUM r HmM) Hl) as [sM [H1 [H2 H3]]].
          rewrite H1, H3. left. split; [exact H2|reflexivity].
        * destruct (vfp_not_unique _ _ _ _ E xM (gather fp xM) r Hm) as [-> ->]. reflexivity.
    - destruct g; cbn [agg]; unfold any; [| | |
        destruct role as [r|]; [destruct (vfp_nil _ _ _ _ E Hpos r) as [e [-> ->]]|]; reflexivity].
      + destruct (sum_nil _ _ _ _ E Hpos role) as [-> ->]. reflexivity.
      + destruct (sum_nil _ _ _ _ E Hpos role) as [-> ->]. reflexivity.
      + destruct (all_nil _ _ _ _ E Hpos role) as [-> ->]. reflexivity.
  Qed.

  Lemma nb_rel role : Rr EGroup (nb_persons (grp ppM) role) (nb_persons (grp pp) role).
  Proof.
    destruct (nb_local _ _ _ _ E Hpos role) as [sM [H1 [H2 H3]]]. rewrite H1, H3.
    left. split; [exact H2|reflexivity].
  Qed.

  Lemma project_rel role yM y : Rv EGroup yM y ->
    Rr EPerson (project (grp ppM) yM role) (project (grp pp) y role).
  Proof.
    intros [[Hl Hy]|[-> ->]].
    - cbn [count_of] in Hl. cbn [fsel pick] in Hy. subst y.
      destruct (project_local _ _ _ _ E Hpos yM role Hl) as [xM [H1 [H2 H3]]]. rewrite H1, H3.
      left. split; [exact H2|reflexivity].
    - destruct (project_nil _ _ _ _ E Hpos role) as [-> ->]. reflexivity.
  Qed.

  (** ** Expressions *)

  Section Eval.
    Variable sy : sys.
    Variables recM rec : unit -> nat -> period -> unit * res val.
    Hypothesis Hrec : forall v q, Rr (ent_of sy v) (snd (recM tt v q)) (snd (rec tt v q)).

    Definition acc_rel (c : ent) (accM acc : option val) : Prop :=
      match accM, acc with
      | Some bM, Some b => Rv c bM b
      | None, None => True
      | _, _ => False
      end.

    Lemma sum_calc_rel v subs : forall accM acc, acc_rel (ent_of sy v) accM acc ->
      Rr (ent_of sy v) (snd (sum_calc recM tt v subs accM)) (snd (sum_calc rec tt v subs acc)).
    Proof.
      induction subs as [|q subs IH]; intros accM acc Hacc; cbn [sum_calc].
      - cbn [snd Rr]. destruct accM, acc; cbn [acc_rel] in Hacc; try contradiction; [exact Hacc|].
        right. split; reflexivity.
      - generalize (Hrec v q).
        destruct (recM tt v q) as [[] rM]. destruct (rec tt v q) as [[] r]. cbn [snd].
        destruct rM as [aM|eM], r as [a|e]; cbn [Rr]; intros H; try contradiction; [|exact H].
        apply IH. destruct accM, acc; cbn [acc_rel] in *; try contradiction; [|exact H].
        now apply Rv_zip2.
    Qed.

    Lemma call_rel c v q o :
      Rr c (snd (call recM sy c tt v q o)) (snd (call rec sy c tt v q o)).
    Proof.
      unfold call. destruct (nth_error (vars sy) v) as [x|] eqn:Ev; [|reflexivity].
      destruct (ent_eqb (v_ent x) c) eqn:Ec; cbn [negb]; [|reflexivity].
      assert (Hc : ent_of sy v = c).
      { unfold ent_of. rewrite Ev. destruct (v_ent x), c; (reflexivity || discriminate). }
      destruct o; try reflexivity.
      - rewrite <- Hc. apply Hrec.
      - unfold calc_add.
        destruct (_ <? _)%Z; [reflexivity|]. destruct (unit_eqb _ _); [reflexivity|].
        destruct (negb _); [reflexivity|]. destruct (subperiods q (v_unit x)); [|reflexivity].
        rewrite <- Hc. apply sum_calc_rel. exact I.
      - unfold calc_divide.
        destruct (_ || _); [reflexivity|]. destruct (negb _); [reflexivity|].
        destruct (_ || _); [reflexivity|]. destruct (divide_period x q) as [cp|]; [|reflexivity].
        destruct (divide_denominator q cp) as [dn|]; [|reflexivity].
        generalize (Hrec v cp).
        destruct (recM tt v cp) as [[] rM]. destruct (rec tt v cp) as [[] r]. cbn [snd].
        destruct rM as [aM|eM], r as [a|e]; cbn [Rr]; intros H; try contradiction; [|exact H].
        rewrite <- Hc. now apply Rv_map.
    Qed.

    Lemma eval_rel : forall e c p, kind_ok c e = true ->
      Rr c (snd (eval recM sy ppM c tt p e)) (snd (eval rec sy pp c tt p e)).
    Proof.
      induction e as [z|v pt o|op a IHa b IHb|a IHa|x IHx a IHa b IHb|k|g role a IHa|role|role a IHa|f|k];
        intros c p K; cbn [eval kind_ok] in *.
      - apply Rv_repeat.
      - destruct (apply_ptrans pt p) as [q|]; [apply call_rel|reflexivity].
      - apply andb_prop in K as [Ka Kb].
        generalize (IHa c p Ka).
        destruct (eval recM sy ppM c tt p a) as [[] r1M]. destruct (eval rec sy pp c tt p a) as [[] r1].
        cbn [snd]. destruct r1M as [xM|], r1 as [x|]; cbn [Rr]; intros H1; try contradiction; [|exact H1].
        generalize (IHb c p Kb).
        destruct (eval recM sy ppM c tt p b) as [[] r2M]. destruct (eval rec sy pp c tt p b) as [[] r2].
        cbn [snd]. destruct r2M as [yM|], r2 as [y|]; cbn [Rr]; intros H2; try contradiction; [|exact H2].
        now apply Rv_zip2.
      - generalize (IHa c p K).
        destruct (eval recM sy ppM c tt p a) as [[] r1M]. destruct (eval rec sy pp c tt p a) as [[] r1].
        cbn [snd]. destruct r1M as [xM|], r1 as [x|]; cbn [Rr rmap]; intros H1; try contradiction; [|exact H1].
        now apply Rv_map.
      - apply andb_prop in K as [K Kb]. apply andb_prop in K as [Kx Ka].
        generalize (IHx c p Kx).
        destruct (eval recM sy ppM c tt p x) as [[] r0M]. destruct (eval rec sy pp c tt p x) as [[] r0].
        cbn [snd]. destruct r0M as [wM|], r0 as [w|]; cbn [Rr]; intros H0; try contradiction; [|exact H0].
        generalize (IHa c p Ka).
        destruct (eval recM sy ppM c tt p a) as [[] r1M]. destruct (eval rec sy pp c tt p a) as [[] r1].
        cbn [snd]. destruct r1M as [xM|], r1 as [x1|]; cbn [Rr]; intros H1; try contradiction; [|exact H1].
        generalize (IHb c p Kb).
        destruct (eval recM sy ppM c tt p b) as [[] r2M]. destruct (eval rec sy pp c tt p b) as [[] r2].
        cbn [snd]. destruct r2M as [yM|], r2 as [y|]; cbn [Rr]; intros H2; try contradiction; [|exact H2].
        now apply Rv_zip3.
      - destruct (nth_error (params sy) k) as [h|]; [|reflexivity].
        destruct (Param.get_at h _) as [z|]; [|reflexivity]. apply Rv_repeat.
      - apply andb_prop in K as [Kc Ka]. destruct c; [discriminate|].
        generalize (IHa EPerson p Ka).
        destruct (eval recM sy ppM EPerson tt p a) as [[] r1M]. destruct (eval rec sy pp EPerson tt p a) as [[] r1].
        cbn [snd]. destruct r1M as [xM|], r1 as [x|]; cbn [Rr bind]; intros H1; try contradiction; [|exact H1].
        now apply agg_rel.
      - destruct c; [discriminate|]. cbn [snd]. apply nb_rel.
      - apply andb_prop in K as [Kc Ka]. destruct c; [|discriminate].
        generalize (IHa EGroup p Ka).
        destruct (eval recM sy ppM EGroup tt p a) as [[] r1M]. destruct (eval rec sy pp EGroup tt p a) as [[] r1].
        cbn [snd]. destruct r1M as [yM|], r1 as [y|]; cbn [Rr bind]; intros H1; try contradiction; [|exact H1].
        now apply project_rel.
      - apply Rv_repeat.
      - destruct (existsb _ _); [reflexivity|apply Rv_repeat].
    Qed.
  End Eval.

  (** ** Variables *)

  Definition inputs_rel (sy : sys) (inpM inp : inputs) : Prop :=
    forall v x q, nth_error (vars sy) v = Some x ->
      match lookup (v, q) inpM, lookup (v, q) inp with
      | Some aM, Some a => Rv (v_ent x) aM a
      | None, None => True
      | _, _ => False
      end.

  Lemma formula_at_kind sy v x p e : kinded sy = true -> nth_error (vars sy) v = Some x ->
    formula_at x p = Ok (Some e) -> kind_ok (v_ent x) e = true.
  Proof.
    intros K Hv H. unfold kinded in K. rewrite forallb_forall in K.
    pose proof (K x (nth_error_In _ _ Hv)) as Kx. rewrite forallb_forall in Kx.
    assert (Hl : forall o, latest_formula (v_formulas x) (p_start p) None = o -> o = Some e ->
                           kind_ok (v_ent x) e = true).
    { intros o Ho Hoe. subst o. apply latest_formula_in in Hoe as [Hc|[s Hin]]; [discriminate|].
      exact (Kx _ Hin). }
    unfold formula_at in H. destruct (v_formulas x) as [|f fs] eqn:Ef; [discriminate|].
    rewrite <- Ef in *. destruct (negb (validb (p_start p))); [discriminate|].
    destruct (v_end x) as [en|].
    - destruct (date_ltb en (p_start p)); [discriminate|]. inversion H. eapply Hl; eauto.
    - inversion H. eapply Hl; eauto.
  Qed.

  Lemma den_rel sy inpM inp : kinded sy = true -> inputs_rel sy inpM inp ->
    forall fuel v p, Rr (ent_of sy v) (snd (den fuel sy ppM inpM tt v p)) (snd (den fuel sy pp inp tt v p)).
  Proof.
    intros K Hinp. induction fuel as [|f IH]; intros v p; cbn [den]; [reflexivity|].
    destruct (nth_error (vars sy) v) as [x|] eqn:Ev; [|reflexivity].
    assert (Hc : ent_of sy v = v_ent x) by (unfold ent_of; now rewrite Ev). rewrite Hc.
    destruct (check_consistency x p) as [[]|]; [|reflexivity].
    destruct (v_neutral x); [apply Rv_repeat|].
    generalize (Hinp v x (norm x p) Ev).
    destruct (lookup (v, norm x p) inpM) as [aM|], (lookup (v, norm x p) inp) as [a|];
      intros Hl; try contradiction; [exact Hl|].
    destruct (formula_at x p) as [[e|]|] eqn:Ef; [| apply Rv_repeat | reflexivity].
    generalize (eval_rel sy _ _ IH e (v_ent x) p (formula_at_kind sy v x p e K Ev Ef)).
    destruct (eval (den f sy ppM inpM) sy ppM (v_ent x) tt p e) as [[] rM].
    destruct (eval (den f sy pp inp) sy pp (v_ent x) tt p e) as [[] r].
    cbn [snd]. destruct rM as [bM|], r as [b|]; cbn [Rr rmap]; intros H; try contradiction; [|exact H].
    now apply Rv_cast.
  Qed.

  (** The statement in the vocabulary of model/Merge.v. *)
  Lemma Rr_restrict c rM r : Rr c rM r -> rmap (restrict (fsel c)) rM = r.
  Proof.
    destruct rM as [aM|eM], r as [a|e]; cbn [Rr rmap]; try contradiction.
    - intros [[_ ->]|[-> ->]]; [reflexivity|]. unfold restrict. now rewrite gather_nil.
    - now intros ->.
  Qed.

  Theorem sem_emb sy inpM inp : kinded sy = true -> inputs_rel sy inpM inp ->
    forall v p, rmap (restrict (pick (ent_of sy v) fp fg)) (sem sy ppM inpM v p) = sem sy pp inp v p.
  Proof.
    intros K Hinp v p. apply (Rr_restrict (ent_of sy v)). unfold sem, sem_rec. now apply den_rel.
  Qed.

  (** ... with the size of every value of the larger population. *)
  Lemma sem_rel sy inpM inp : kinded sy = true -> inputs_rel sy inpM inp ->
    forall v p, Rr (ent_of sy v) (sem sy ppM inpM v p) (sem sy pp inp v p).
  Proof. intros K Hinp v p. unfold sem, sem_rec. now apply den_rel. Qed.
End Rel.
