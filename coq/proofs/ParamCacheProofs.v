(** Proofs about model/ParamCache.v (property C07). *)
From Coq Require Import ZArith List Bool String Ascii Lia Arith Permutation.
From Verif Require Import Base Cal Param ParamCache ParamCacheSpec.
Import ListNotations.
Open Scope Z_scope.

(** * 1. The cache never shows: the world with caches answers as the world without *)

Lemma init_ok (t : tree) : world_ok (init t).
Proof.
  unfold world_ok, init; cbn. constructor; [|constructor].
  unfold cache_ok; cbn. repeat split; try lia; intros; discriminate.
Qed.

Lemma cache_ok_mono (n n' : nat) (s : sys) : (n <= n')%nat -> cache_ok n s -> cache_ok n' s.
Proof.
  intros Hle (H1 & H2 & H3). repeat split; [lia | | exact H3].
  intros k Hk. specialize (H2 k Hk). lia.
Qed.

Lemma validate_ok (n : nat) (s : sys) :
  cache_ok n s ->
  cache_ok n (validate s) /\ s_cached (validate s) = Some (s_rid s) /\
  same_trees (validate s) s.
Proof.
  intros (H1 & H2 & H3). unfold validate.
  destruct s as [base root rid cache cached]. cbn in *.
  destruct cached as [k|].
  - destruct (Nat.eqb k rid) eqn:E.
    + apply Nat.eqb_eq in E. subst k. unfold cache_ok, same_trees; cbn. repeat split; auto.
    + unfold cache_ok, same_trees, set_cache; cbn. repeat split; auto.
      * intros k' Hk. inversion Hk; subst. exact H1.
      * intros _ i ov Hx. discriminate.
  - unfold cache_ok, same_trees, set_cache; cbn. repeat split; auto.
    + intros k' Hk. inversion Hk; subst. exact H1.
    + intros _ i ov Hx. discriminate.
Qed.

(** get_parameters_at_instant returns the view of the system's CURRENT tree, whatever was
    read before, and keeps the invariant. *)
Lemma get_parameters_at_instant_current (n : nat) (s : sys) (i : Z) :
  cache_ok n s ->
  let '(s', ov) := get_parameters_at_instant Fixed s i in
  ov = at_instant (s_root s) i /\ cache_ok n s' /\ same_trees s' s.
Proof.
  intros Hok. unfold get_parameters_at_instant.
  destruct (validate_ok n s Hok) as (Hv & Hc & (Hb & Hr & Hid)).
  destruct Hv as (V1 & V2 & V3).
  destruct (assoc i (s_cache (validate s))) as [[v|]|] eqn:Ea.
  - split; [|split].
    + rewrite <- Hr. apply V3 with (i := i); auto. rewrite Hc, Hid. reflexivity.
    + repeat split; auto.
    + repeat split; auto.
  - rewrite Hr. split; [reflexivity|]. split; [|repeat split; auto].
    unfold cache_ok, set_cache; cbn. repeat split; auto.
    intros Hst j ov. destruct (i =? j) eqn:Eij.
    + apply Z.eqb_eq in Eij. subst j. intros Hx. inversion Hx. rewrite Hr. reflexivity.
    + intros Hx. apply V3; auto.
  - rewrite Hr. split; [reflexivity|]. split; [|repeat split; auto].
    unfold cache_ok, set_cache; cbn. repeat split; auto.
    intros Hst j ov. destruct (i =? j) eqn:Eij.
    + apply Z.eqb_eq in Eij. subst j. intros Hx. inversion Hx. rewrite Hr. reflexivity.
    + intros Hx. apply V3; auto.
Qed.

(** a read on one system: same answer as without cache *)
Lemma read_sys_ok (n : nat) (s s0 : sys) (r : route) (p : path) (i : Z) (t : tail) :
  cache_ok n s -> same_trees s s0 ->
  snd (read_sys Fixed s r p i t) = read_spec (s_root s) r p i t /\
  snd (read_sys NoCache s0 r p i t) = read_spec (s_root s) r p i t /\
  cache_ok n (fst (read_sys Fixed s r p i t)) /\
  same_trees (fst (read_sys Fixed s r p i t)) (fst (read_sys NoCache s0 r p i t)).
Proof.
  intros Hok Hst. pose proof Hst as (Hb & Hr & Hid).
  pose proof (get_parameters_at_instant_current n s i Hok) as Hg.
  assert (T : forall a b c : sys, same_trees a b -> same_trees b c -> same_trees a c).
  { intros a b c (A1 & A2 & A3) (B1 & B2 & B3). repeat split; congruence. }
  unfold read_sys, read_spec.
  change (get_parameters_at_instant NoCache s0 i) with (s0, at_instant (s_root s0) i).
  destruct (get_parameters_at_instant Fixed s i) as [s' ov]. destruct Hg as (-> & Hok' & He).
  rewrite <- Hr.
  destruct r as [ | | [|]]; cbn [fst snd];
    (split; [reflexivity | split; [reflexivity | split]]);
    first [exact Hok' | exact Hok | exact (T _ _ _ He Hst) | exact Hst].
Qed.

Lemma new_root_ok (n : nat) (s : sys) (t : tree) (clear : bool) :
  cache_ok n s -> cache_ok (S n) (new_root Fixed s t n clear).
Proof.
  intros (H1 & H2 & H3). unfold cache_ok, new_root; cbn. repeat split.
  - lia.
  - intros k Hk. specialize (H2 k Hk). lia.
  - intros Hk. specialize (H2 _ Hk). lia.
Qed.

(** list plumbing *)
Lemma Forall2_nth {A B} (R : A -> B -> Prop) (l : list A) (l' : list B) (k : nat) :
  Forall2 R l l' ->
  match nth_error l k, nth_error l' k with
  | Some x, Some y => R x y
  | None, None => True
  | _, _ => False
  end.
Proof.
  intros H. revert k. induction H as [|x y l l' Hxy _ IH]; intros [|k]; cbn; auto. apply IH.
Qed.

Lemma Forall2_replace {A B} (R : A -> B -> Prop) (l : list A) (l' : list B) (k : nat) x y :
  Forall2 R l l' -> R x y -> Forall2 R (replace k x l) (replace k y l').
Proof.
  intros H Hxy. revert k. induction H as [|a b l l' Hab Hl IH]; intros [|k]; cbn; constructor; auto.
Qed.

Lemma Forall_replace {A} (P : A -> Prop) (l : list A) (k : nat) x :
  Forall P l -> P x -> Forall P (replace k x l).
Proof.
  intros H Hx. revert k. induction H as [|a l Ha Hl IH]; intros [|k]; cbn; constructor; auto.
Qed.

Lemma Forall_nth {A} (P : A -> Prop) (l : list A) (k : nat) x :
  Forall P l -> nth_error l k = Some x -> P x.
Proof. intros H Hk. eapply Forall_forall; eauto. eapply nth_error_In; eauto. Qed.

Lemma Forall_mono_ok (n n' : nat) (l : list sys) :
  (n <= n')%nat -> Forall (cache_ok n) l -> Forall (cache_ok n') l.
Proof. intros Hle H. eapply Forall_impl; [|exact H]. intros s. apply cache_ok_mono; exact Hle. Qed.

(** One operation: the world with caches and the world without give the same answer and
    stay the same world up to caches; the invariant is kept. *)
Lemma wstep_ok (w w0 : world) (o : nat * op) :
  world_ok w -> same_world w w0 -> documented o = true ->
  snd (wstep Fixed w o) = snd (wstep NoCache w0 o) /\
  world_ok (fst (wstep Fixed w o)) /\
  same_world (fst (wstep Fixed w o)) (fst (wstep NoCache w0 o)).
Proof.
  intros Hok [Hn Hs] Hd. destruct o as [k o]. unfold wstep.
  pose proof (Forall2_nth _ _ _ k Hs) as Hk.
  destruct (nth_error (w_sys w) k) as [s|] eqn:Es; destruct (nth_error (w_sys w0) k) as [s0|] eqn:Es0;
    try contradiction; [|cbn; repeat split; auto].
  pose proof (Forall_nth _ _ _ _ Hok Es) as Hsk.
  destruct o as [r p i t | t | | ups rn | p u]; try discriminate.
  - (* Read *)
    destruct (read_sys_ok (w_next w) s s0 r p i t Hsk Hk) as (A1 & A2 & A3 & A4).
    destruct (read_sys Fixed s r p i t) as [s' a]. destruct (read_sys NoCache s0 r p i t) as [s0' a0].
    cbn [fst snd] in *. split; [congruence|]. split.
    + apply Forall_replace; assumption.
    + split; [exact Hn|]. apply Forall2_replace; assumption.
  - (* Load *)
    cbn [fst snd]. split; [reflexivity|]. split.
    + unfold world_ok; cbn [w_sys w_next]. apply Forall_replace.
      * apply (Forall_mono_ok (w_next w)); [lia | exact Hok].
      * apply new_root_ok; exact Hsk.
    + split; [cbn; congruence|]. cbn [w_sys]. apply Forall2_replace; [exact Hs|].
      destruct Hk as (K1 & K2 & K3). unfold same_trees, new_root; cbn. repeat split; congruence.
  - (* NewReform *)
    cbn [fst snd]. split; [reflexivity|]. split.
    + unfold world_ok; cbn [w_sys w_next]. apply Forall_app. split; [exact Hok|]. constructor; [|constructor].
      destruct Hsk as (H1 & H2 & H3). unfold cache_ok; cbn. repeat split; auto; intros; discriminate.
    + split; [exact Hn|]. cbn [w_sys]. apply Forall2_app; [exact Hs|]. constructor; [|constructor].
      destruct Hk as (K1 & K2 & K3). unfold same_trees; cbn. repeat split; congruence.
  - (* Modify *)
    destruct Hk as (K1 & K2 & K3). rewrite <- K1.
    destruct (s_base s) as [b|] eqn:Eb; [|cbn; repeat split; auto].
    pose proof (Forall2_nth _ _ _ b Hs) as Hb.
    destruct (nth_error (w_sys w) b) as [sb|]; destruct (nth_error (w_sys w0) b) as [sb0|];
      try contradiction; [|cbn; repeat split; auto].
    destruct Hb as (_ & B2 & _). rewrite <- B2.
    destruct (apply_modifier (s_root sb) ups) as [t'|e]; [|cbn; repeat split; auto].
    destruct rn; [|cbn; repeat split; auto].
    cbn [fst snd]. split; [reflexivity|]. split.
    + unfold world_ok; cbn [w_sys w_next]. apply Forall_replace.
      * apply (Forall_mono_ok (w_next w)); [lia | exact Hok].
      * apply new_root_ok; exact Hsk.
    + split; [cbn; congruence|]. cbn [w_sys]. apply Forall2_replace; [exact Hs|].
      unfold same_trees, new_root; cbn. repeat split; congruence.
Qed.

(** Every sequence of documented operations on any systems of the world, started in any
    world that satisfies the invariant (in particular a new system), answers as the
    cache-free world does. *)
Lemma views_agree_gen (ops : list (nat * op)) : forall w w0,
  world_ok w -> same_world w w0 -> forallb documented ops = true ->
  wrun Fixed w ops = wrun NoCache w0 ops.
Proof.
  induction ops as [|o ops IH]; intros w w0 Hok Hs Hd; [reflexivity|].
  cbn [forallb] in Hd. apply andb_true_iff in Hd. destruct Hd as [Ho Hd].
  destruct (wstep_ok w w0 o Hok Hs Ho) as (Ha & Hok' & Hs').
  cbn [wrun]. destruct (wstep Fixed w o) as [w' a]. destruct (wstep NoCache w0 o) as [w0' a0].
  cbn [fst snd] in *. subst a0. f_equal. apply IH; auto.
Qed.

Lemma same_world_refl (w : world) : same_world w w.
Proof.
  split; [reflexivity|]. induction (w_sys w); constructor; auto. repeat split.
Qed.

Lemma views_agree_init (t0 : tree) (ops : list (nat * op)) :
  forallb documented ops = true ->
  wrun Fixed (init t0) ops = wrun NoCache (init t0) ops.
Proof. intros H. apply views_agree_gen; [apply init_ok | apply same_world_refl | exact H]. Qed.

Lemma reachable_ok (ops : list (nat * op)) : forall w,
  world_ok w -> forallb documented ops = true -> world_ok (wexec Fixed w ops).
Proof.
  induction ops as [|o ops IH]; intros w Hok Hd; [exact Hok|].
  cbn [forallb] in Hd. apply andb_true_iff in Hd. destruct Hd as [Ho Hd].
  cbn [wexec fold_left]. apply IH; auto.
  apply (wstep_ok w w o Hok (same_world_refl w) Ho).
Qed.

Lemma reachable_ok_init (t0 : tree) (ops : list (nat * op)) :
  forallb documented ops = true -> world_ok (wexec Fixed (init t0) ops).
Proof. intros H. exact (reachable_ok ops (init t0) (init_ok t0) H). Qed.

(** In any reachable world, a read by any route on ANY of its systems answers from
    [at_instant] of the tree THAT system holds. *)
Lemma read_current (t0 : tree) (ops : list (nat * op)) (k : nat) (s : sys)
      (r : route) (p : path) (i : Z) (t : tail) :
  forallb documented ops = true ->
  let w := wexec Fixed (init t0) ops in
  nth_error (w_sys w) k = Some s ->
  snd (wstep Fixed w (k, Read r p i t)) = read_spec (s_root s) r p i t.
Proof.
  intros Hd w Hk.
  assert (Hok : world_ok w) by (apply reachable_ok_init; exact Hd).
  pose proof (Forall_nth _ _ _ _ Hok Hk) as Hsk.
  destruct (read_sys_ok (w_next w) s s r p i t Hsk) as (A1 & _); [repeat split|].
  unfold wstep. rewrite Hk. destruct (read_sys Fixed s r p i t) as [s' a]. exact A1.
Qed.

(** * 2. The machine before the fix *)

Definition lru_tree1 : tree := TNode [("a"%string, TParam [(0, Some 1)])].
Definition lru_tree2 : tree := TNode [("a"%string, TParam [(0, Some 3)])].
Definition lru_witness : list (nat * op) :=
  [(O, Read RSystem ["a"%string] 10 TWhole); (O, Load lru_tree2); (O, Read RSystem ["a"%string] 10 TWhole)].

Lemma lru_witness_stale :
  wrun Lru (init lru_tree1) lru_witness =
    [(Ok (RView (VValue 1)), []); (Ok RNone, []); (Ok (RView (VValue 1)), [])] /\
  wrun NoCache (init lru_tree1) lru_witness =
    [(Ok (RView (VValue 1)), []); (Ok RNone, []); (Ok (RView (VValue 3)), [])] /\
  read_direct lru_tree2 ["a"%string] 10 TWhole = Ok (RView (VValue 3)).
Proof. vm_compute. repeat split. Qed.

Lemma views_agree_refuted_lru_lemma :
  exists (t0 : tree) (ops : list (nat * op)),
    List.length ops = 3%nat /\ forallb documented ops = true /\
    wrun Lru (init t0) ops <> wrun NoCache (init t0) ops.
Proof.
  exists lru_tree1, lru_witness. split; [reflexivity|]. split; [reflexivity|].
  destruct lru_witness_stale as (H1 & H2 & _). rewrite H1, H2. intros H. discriminate H.
Qed.

(** * 3. The tracing wrapper forwards reads unchanged *)

Lemma traced_get_view_get (p : path) : forall nm v,
  rmap (fun x => fst (fst x)) (traced_get nm v p) = view_get v p.
Proof.
  induction p as [|k p IH]; intros nm v; [reflexivity|].
  cbn [traced_get view_get]. destruct v as [z | sk br | ch]; try reflexivity.
  destruct (find_child k ch) as [c|]; [|reflexivity].
  destruct c as [z | sk br | ch'].
  - destruct p; reflexivity.
  - destruct p; reflexivity.
  - apply IH.
Qed.

Lemma read_traced_transparent (ov : option view) (p : path) (t : tail) :
  fst (read_traced ov p t) = read_view ov p t.
Proof.
  unfold read_traced, read_view. destruct ov as [v|]; [|reflexivity].
  pose proof (traced_get_view_get p "" v) as H.
  destruct (traced_get "" v p) as [[[w nm] lg]|e]; cbn in H; rewrite <- H.
  - unfold apply_tail. destruct (apply_tail_full w t) as [[r plain]|e]; reflexivity.
  - reflexivity.
Qed.

Lemma tracing_transparent_lemma (m : mode) (w : world) (k : nat) (p : path) (i : Z) (t : tail) :
  fst (wstep m w (k, Read (RFormula true) p i t)) = fst (wstep m w (k, Read (RFormula false) p i t)) /\
  fst (snd (wstep m w (k, Read (RFormula true) p i t))) = fst (snd (wstep m w (k, Read (RFormula false) p i t))) /\
  fst (snd (wstep m w (k, Read (RFormula false) p i t))) = fst (snd (wstep m w (k, Read RSystem p i t))).
Proof.
  unfold wstep. destruct (nth_error (w_sys w) k) as [s|]; [|repeat split].
  unfold read_sys. destruct (get_parameters_at_instant m s i) as [s' ov]. cbn [fst snd].
  split; [reflexivity|]. split; [apply read_traced_transparent | reflexivity].
Qed.

(** what is recorded for a plain read of a leaf: the value that was returned *)
Lemma traced_leaf_recorded (v : view) (p : path) (z : Z) :
  view_get v p = Ok (VValue z) -> p <> [] ->
  exists nm, read_traced (Some v) p TWhole = (Ok (RView (VValue z)), [(nm, RView (VValue z))]).
Proof.
  intros H Hp. unfold read_traced.
  assert (G : forall p nm v, view_get v p = Ok (VValue z) -> p <> [] ->
              exists nm', exists nn, traced_get nm v p = Ok (VValue z, nn, [(nm', RView (VValue z))])).
  { clear. induction p as [|k p IH]; intros nm v H Hp; [congruence|].
    cbn [view_get traced_get] in *. destruct v as [z0 | sk br | ch]; try discriminate.
    destruct (find_child k ch) as [c|]; [|discriminate].
    destruct c as [z0 | sk br | ch'].
    - destruct p; cbn in H; [|discriminate]. inversion H; subst. eexists; eexists; reflexivity.
    - destruct p; cbn in H; discriminate.
    - destruct p as [|k' p']; [cbn in H; discriminate|].
      apply IH; [exact H | discriminate]. }
  destruct (G p ""%string v H Hp) as (nm' & nn & ->). cbn. eexists; reflexivity.
Qed.

(** * 4. Unique member names; the parameter object and the view agree *)

Lemma find_child_in {A} (n : string) (l : list (string * A)) (c : A) :
  find_child n l = Some c -> In (n, c) l.
Proof.
  induction l as [|[m x] r IH]; cbn; [discriminate|].
  destruct (String.eqb n m) eqn:E.
  - apply String.eqb_eq in E. subst. intros H; inversion H; auto.
  - auto.
Qed.

Lemma find_child_none {A} (n : string) (l : list (string * A)) :
  find_child n l = None <-> ~ In n (map fst l).
Proof.
  induction l as [|[m x] r IH]; cbn; [tauto|].
  destruct (String.eqb n m) eqn:E.
  - apply String.eqb_eq in E. subst. split; [discriminate | intros H; exfalso; apply H; auto].
  - apply String.eqb_neq in E. rewrite IH. split; intros H; [intros [G|G]; congruence | tauto].
Qed.

Lemma wf_child (ch : list (string * tree)) (n : string) (c : tree) :
  wf_tree (TNode ch) -> find_child n ch = Some c -> wf_tree c.
Proof.
  cbn [wf_tree]. intros [_ H] Hf. apply find_child_in in Hf.
  induction ch as [|[m x] r IH]; [contradiction|].
  destruct H as [Hx Hr]. destruct Hf as [Hf|Hf]; [inversion Hf; subst; exact Hx | auto].
Qed.

Lemma children_at_names {A B} (f : A -> option B) (l : list (string * A)) (n : string) :
  In n (map fst (children_at f l)) -> In n (map fst l).
Proof.
  induction l as [|[m x] r IH]; cbn; [tauto|].
  destruct (f x); cbn; intros H; [destruct H; auto | auto].
Qed.

(** a member of the view is the member of the tree, evaluated - or absent *)
Lemma find_child_children_at {A B} (f : A -> option B) (l : list (string * A)) (n : string) :
  NoDup (map fst l) ->
  find_child n (children_at f l) = match find_child n l with Some c => f c | None => None end.
Proof.
  induction l as [|[m x] r IH]; cbn [children_at find_child map fst]; intros Hnd; [reflexivity|].
  inversion Hnd as [|? ? Hnot Hnd']; subst.
  destruct (String.eqb n m) eqn:E.
  - apply String.eqb_eq in E. subst m. destruct (f x) as [y|] eqn:Ef.
    + cbn [find_child]. rewrite String.eqb_refl. reflexivity.
    + apply find_child_none. intros Hin. apply Hnot. eapply children_at_names; eauto.
  - destruct (f x) as [y|]; [cbn [find_child]; rewrite E|]; apply IH; auto.
Qed.

(** The parameter object called at the date and the system view read at the same path
    give the same object; a leaf without value at the date is None on one side and
    ParameterNotFoundError on the other. *)
Lemma direct_vs_view (p : path) : forall root st v i,
  wf_tree root -> subtree root p = Ok st -> at_instant root i = Some v ->
  match at_instant st i with
  | Some w => view_get v p = Ok w
  | None => view_get v p = Err ENotFound
  end.
Proof.
  induction p as [|n p IH]; intros root st v i Hwf Hs Hv.
  - cbn in Hs. inversion Hs; subst. rewrite Hv. reflexivity.
  - cbn [subtree] in Hs. destruct root as [h | sc | ch]; try discriminate.
    destruct (find_child n ch) as [c|] eqn:Ef; [|discriminate].
    cbn [at_instant] in Hv. inversion Hv; subst v. cbn [view_get].
    rewrite find_child_children_at by (apply Hwf). rewrite Ef.
    pose proof (wf_child ch n c Hwf Ef) as Hwc.
    destruct (at_instant c i) as [vc|] eqn:Ec.
    + apply (IH c st vc i Hwc Hs Ec).
    + (* the member has no value at the date: it is a leaf, the path ends here *)
      destruct c as [h | sc | ch'].
      * destruct p; cbn in Hs; [inversion Hs; subst; rewrite Ec; reflexivity | discriminate].
      * cbn in Ec. destruct (scale_at sc i). discriminate.
      * cbn in Ec. discriminate.
Qed.

Lemma routes_agree_lemma (root st : tree) (v : view) (p : path) (i : Z) (t : tail) :
  wf_tree root -> subtree root p = Ok st -> at_instant root i = Some v ->
  match at_instant st i with
  | Some w => read_direct root p i t = apply_tail w t /\ read_view (Some v) p t = apply_tail w t
  | None => read_direct root p i t = (match t with TWhole => Ok RNone | _ => Err EType end) /\
            read_view (Some v) p t = Err ENotFound
  end.
Proof.
  intros Hwf Hs Hv. pose proof (direct_vs_view p root st v i Hwf Hs Hv) as H.
  unfold read_direct, read_view. rewrite Hs.
  destruct (at_instant st i) as [w|]; rewrite H; split; reflexivity.
Qed.

(** a path that does not exist in the tree does not exist in the view either *)
Lemma missing_in_both (p : path) : forall root v i e,
  wf_tree root -> subtree root p = Err e -> at_instant root i = Some v ->
  exists e', view_get v p = Err e'.
Proof.
  induction p as [|n p IH]; intros root v i e Hwf Hs Hv; [discriminate|].
  cbn [subtree] in Hs. destruct root as [h | sc | ch].
  - cbn in Hv. destruct (get_at h i); inversion Hv; subst. cbn. eauto.
  - cbn in Hv. destruct (scale_at sc i). inversion Hv; subst. cbn. eauto.
  - cbn [at_instant] in Hv. inversion Hv; subst v. cbn [view_get].
    rewrite find_child_children_at by (apply Hwf).
    destruct (find_child n ch) as [c|] eqn:Ef; [|eauto].
    destruct (at_instant c i) as [vc|] eqn:Ec; [|eauto].
    apply (IH c vc i e (wf_child ch n c Hwf Ef) Hs Ec).
Qed.

(** updates keep the names *)
Lemma tree_update_wf (p : path) : forall t u t',
  wf_tree t -> tree_update t p u = Ok t' -> wf_tree t'.
Proof.
  induction p as [|n p IH]; intros t u t' Hwf H.
  - destruct t; cbn in H; try discriminate. inversion H. exact I.
  - destruct t as [h | sc | ch]; cbn [tree_update] in H; try discriminate.
    { (* a parameter of a scale bracket: still a scale *)
      destruct p as [|f [|? ?]]; try discriminate.
      destruct (scale_update sc n f u); [|discriminate]. inversion H. exact I. }
    match type of H with match ?g ch with _ => _ end = _ => set (go := g) in * end.
    destruct (go ch) as [ch'|e] eqn:Eg; [|discriminate]. inversion H; subst t'. clear H.
    assert (G : forall l l', go l = Ok l' ->
                map fst l' = map fst l /\
                ((fix all (l : list (string * tree)) : Prop :=
                    match l with [] => True | (_, c) :: r => wf_tree c /\ all r end) l ->
                 (fix all (l : list (string * tree)) : Prop :=
                    match l with [] => True | (_, c) :: r => wf_tree c /\ all r end) l')).
    { induction l as [|[m c] r IHl]; intros l' Hl; cbn in Hl; [discriminate|].
      destruct (String.eqb n m).
      - destruct (tree_update c p u) as [c'|] eqn:Ec; [|discriminate]. inversion Hl; subst l'.
        split; [reflexivity|]. intros [Hc Hr]. split; [eapply IH; eauto | exact Hr].
      - fold go in Hl. destruct (go r) as [r'|] eqn:Er; [|discriminate]. inversion Hl; subst l'.
        destruct (IHl r' eq_refl) as [Hn Ha]. split; [cbn; rewrite Hn; reflexivity|].
        intros [Hc Hr]. split; [exact Hc | apply Ha; exact Hr]. }
    destruct (G ch ch' Eg) as [Hn Ha]. destruct Hwf as [Hnd Hall].
    cbn [wf_tree]. split; [rewrite Hn; exact Hnd | apply Ha; exact Hall].
Qed.

Lemma all_wf_app (l : list (string * tree)) (n : string) (c : tree) :
  (fix all (l : list (string * tree)) : Prop :=
     match l with [] => True | (_, c) :: r => wf_tree c /\ all r end) l ->
  wf_tree c ->
  (fix all (l : list (string * tree)) : Prop :=
     match l with [] => True | (_, c) :: r => wf_tree c /\ all r end) (l ++ [(n, c)])%list.
Proof.
  intros Hl Hc. induction l as [|[m x] r IH]; cbn; [auto|].
  destruct Hl as [Hx Hr]. split; [exact Hx | apply IH; exact Hr].
Qed.

Lemma tree_add_wf (p : path) : forall t n c t',
  wf_tree t -> wf_tree c -> tree_add t p n c = Ok t' -> wf_tree t'.
Proof.
  induction p as [|m p IH]; intros t n c t' Hwf Hc H.
  - destruct t as [h | sc | ch]; cbn in H; try discriminate.
    destruct (find_child n ch) eqn:Ef; [discriminate|]. inversion H; subst t'.
    destruct Hwf as [Hnd Hall]. cbn [wf_tree]. split.
    + rewrite map_app. cbn [map fst].
      apply (Permutation.Permutation_NoDup (Permutation.Permutation_cons_append (map fst ch) n)).
      constructor; [apply find_child_none; exact Ef | exact Hnd].
    + apply all_wf_app; assumption.
  - destruct t as [h | sc | ch]; cbn [tree_add] in H; try discriminate.
    match type of H with match ?g ch with _ => _ end = _ => set (go := g) in * end.
    destruct (go ch) as [ch'|e] eqn:Eg; [|discriminate]. inversion H; subst t'. clear H.
    assert (G : forall l l', go l = Ok l' ->
                map fst l' = map fst l /\
                ((fix all (l : list (string * tree)) : Prop :=
                    match l with [] => True | (_, c) :: r => wf_tree c /\ all r end) l ->
                 (fix all (l : list (string * tree)) : Prop :=
                    match l with [] => True | (_, c) :: r => wf_tree c /\ all r end) l')).
    { induction l as [|[k x] r IHl]; intros l' Hl; cbn in Hl; [discriminate|].
      destruct (String.eqb m k).
      - destruct (tree_add x p n c) as [x'|] eqn:Ec; [|discriminate]. inversion Hl; subst l'.
        split; [reflexivity|]. intros [Hx Hr]. split; [exact (IH x n c x' Hx Hc Ec) | exact Hr].
      - fold go in Hl. destruct (go r) as [r'|] eqn:Er; [|discriminate]. inversion Hl; subst l'.
        destruct (IHl r' eq_refl) as [Hn Ha]. split; [cbn; rewrite Hn; reflexivity|].
        intros [Hx Hr]. split; [exact Hx | apply Ha; exact Hr]. }
    destruct (G ch ch' Eg) as [Hn Ha]. destruct Hwf as [Hnd Hall].
    cbn [wf_tree]. split; [rewrite Hn; exact Hnd | apply Ha; exact Hall].
Qed.

Lemma apply_modifier_wf (ups : list mitem) : forall t t',
  wf_tree t -> Forall wf_item ups -> apply_modifier t ups = Ok t' -> wf_tree t'.
Proof.
  induction ups as [|it r IH]; intros t t' Hwf Hi H; cbn in H.
  - inversion H; subst; exact Hwf.
  - inversion Hi as [|? ? Hit Hr]; subst.
    destruct (apply_item t it) as [t1|] eqn:E; [|discriminate].
    assert (W1 : wf_tree t1).
    { destruct it as [p u | p n c]; cbn in E, Hit.
      - exact (tree_update_wf p t u t1 Hwf E).
      - exact (tree_add_wf p t n c t1 Hwf Hit E). }
    exact (IH t1 t' W1 Hr H).
Qed.

Lemma gpai_root (m : mode) (s : sys) (i : Z) :
  s_root (fst (get_parameters_at_instant m s i)) = s_root s.
Proof.
  assert (V : s_root (validate s) = s_root s).
  { unfold validate. destruct (s_cached s) as [k|]; [destruct (Nat.eqb k (s_rid s))|]; reflexivity. }
  unfold get_parameters_at_instant. destruct m.
  - destruct (assoc i (s_cache (validate s))) as [[v|]|]; cbn; auto.
  - destruct (assoc i (s_cache s)) as [v|]; cbn; auto.
  - reflexivity.
Qed.

Lemma read_sys_root (m : mode) (s : sys) r p i t : s_root (fst (read_sys m s r p i t)) = s_root s.
Proof.
  pose proof (gpai_root m s i) as G. unfold read_sys.
  destruct r as [ | | [|]]; try reflexivity; destruct (get_parameters_at_instant m s i); exact G.
Qed.

Lemma wstep_wf (m : mode) (w : world) (o : nat * op) :
  wf_world w -> wf_op o -> wf_world (fst (wstep m w o)).
Proof.
  intros Hw Ho. destruct o as [k o]. unfold wstep.
  destruct (nth_error (w_sys w) k) as [s|] eqn:Es; [|exact Hw].
  pose proof (Forall_nth _ _ _ _ Hw Es) as Hs. cbn beta in Hs.
  destruct o as [r p i t | t | | ups rn | p u].
  - pose proof (read_sys_root m s r p i t) as R. destruct (read_sys m s r p i t) as [s' a].
    cbn [fst] in *. unfold wf_world; cbn [w_sys]. apply Forall_replace; [exact Hw|]. rewrite R. exact Hs.
  - cbn [fst]. unfold wf_world; cbn [w_sys]. apply Forall_replace; [exact Hw | exact Ho].
  - cbn [fst]. unfold wf_world; cbn [w_sys]. apply Forall_app. split; [exact Hw|]. constructor; [exact Hs | constructor].
  - destruct (s_base s) as [b|]; [|exact Hw].
    destruct (nth_error (w_sys w) b) as [sb|] eqn:Eb; [|exact Hw].
    pose proof (Forall_nth _ _ _ _ Hw Eb) as Hb. cbn beta in Hb.
    destruct (apply_modifier (s_root sb) ups) as [t'|] eqn:Em; [|exact Hw].
    destruct rn; [|exact Hw].
    cbn [fst]. unfold wf_world; cbn [w_sys]. apply Forall_replace; [exact Hw|].
    cbn. eapply apply_modifier_wf; [exact Hb | exact Ho | exact Em].
  - destruct (tree_update (s_root s) p u) as [t'|] eqn:Eu; [|exact Hw].
    pose proof (tree_update_wf p _ u t' Hs Eu) as Ht.
    cbn [fst]. unfold wf_world; cbn [w_sys]. apply Forall_forall. intros x Hx.
    apply in_map_iff in Hx. destruct Hx as (y & <- & Hy).
    destruct (Nat.eqb (s_rid y) (s_rid s)); [exact Ht|].
    eapply Forall_forall in Hw; eauto.
Qed.

Lemma wexec_wf (m : mode) (ops : list (nat * op)) : forall w,
  wf_world w -> Forall wf_op ops -> wf_world (wexec m w ops).
Proof.
  induction ops as [|o ops IH]; intros w Hw Ho; [exact Hw|].
  inversion Ho; subst. cbn [wexec fold_left]. apply IH; auto. apply wstep_wf; auto.
Qed.

(** * 5. Fancy indexing is element-wise *)

Lemma mapM_map {A B C} (g : A -> B) (f : B -> res C) (l : list A) :
  mapM f (map g l) = mapM (fun x => f (g x)) l.
Proof.
  induction l as [|x r IH]; cbn; [reflexivity|]. destruct (f (g x)); [rewrite IH|]; reflexivity.
Qed.

Lemma mapM_ext {A B} (f g : A -> res B) (l : list A) :
  (forall x, f x = g x) -> mapM f l = mapM g l.
Proof.
  intros H. induction l as [|x r IH]; cbn; [reflexivity|]. rewrite H, IH. reflexivity.
Qed.

Lemma broadcast_one {A B} (x : A) (b : list B) :
  broadcast2 [x] b = Ok (map (fun y => (x, y)) b).
Proof. reflexivity. Qed.

(** The whole of __getitem__ on a group that passed the check: the first key decides
    between "no field of name" and the element-wise lookups. *)
Lemma vector_lookup_eq (ch : list (string * view)) (k0 : string) (keys : list string) :
  check_node_vectorisable (VNode ch) = Ok tt ->
  vector_lookup (VNode ch) (k0 :: keys) =
    match find_child k0 ch with
    | None => Err EValue
    | Some _ => mapM (scalar_lookup (VNode ch)) (k0 :: keys)
    end.
Proof.
  intros Hc. unfold vector_lookup. rewrite Hc. unfold vec_getitem. cbn [v_tmpl v_rows].
  destruct (find_child k0 ch) as [c0|] eqn:E0; [|reflexivity].
  rewrite broadcast_one. rewrite mapM_map.
  unfold scalar_lookup.
  destruct (mapM (fun x => lookup_key (VNode ch, x)) (k0 :: keys)); reflexivity.
Qed.

Lemma vector_lookup_pointwise_lemma (v : view) (keys : list string) (rows : list view) :
  vector_lookup v keys = Ok rows -> mapM (scalar_lookup v) keys = Ok rows.
Proof.
  unfold vector_lookup. destruct v as [z | sk br | ch]; try discriminate.
  destruct (check_node_vectorisable (VNode ch)) as [[]|] eqn:Hc; [|discriminate].
  destruct keys as [|k0 keys]; [cbn; discriminate|].
  intros H. pose proof (vector_lookup_eq ch k0 keys Hc) as G.
  unfold vector_lookup in G. rewrite Hc in G. rewrite G in H.
  destruct (find_child k0 ch); [exact H | discriminate].
Qed.

Lemma mapM_ok_nth {A B} (f : A -> res B) (l : list A) (out : list B) :
  mapM f l = Ok out ->
  List.length out = List.length l /\
  forall j a, nth_error l j = Some a -> exists b, nth_error out j = Some b /\ f a = Ok b.
Proof.
  revert out. induction l as [|x r IH]; intros out H; cbn in H.
  - inversion H; subst. split; [reflexivity|]. intros [|j] a Hj; discriminate.
  - destruct (f x) as [y|] eqn:Ex; [|discriminate].
    destruct (mapM f r) as [ys|] eqn:Er; [|discriminate]. inversion H; subst out.
    destruct (IH ys eq_refl) as [Hl Hn]. split; [cbn; rewrite Hl; reflexivity|].
    intros [|j] a Hj; cbn in Hj.
    + inversion Hj; subst. exists y. split; [reflexivity | exact Ex].
    + apply Hn; exact Hj.
Qed.

Lemma mapM_err_in {A B} (f : A -> res B) (l : list A) (e : err) :
  (forall x e', f x = Err e' -> e' = e) ->
  (exists x, In x l /\ exists e', f x = Err e') -> mapM f l = Err e.
Proof.
  intros Hk. induction l as [|x r IH]; intros (y & Hy & e' & He); [contradiction|].
  cbn. destruct (f x) as [b|e1] eqn:Ex.
  - destruct Hy as [Hy|Hy]; [subst; congruence|].
    rewrite IH; [reflexivity | eauto].
  - f_equal. eapply Hk; eauto.
Qed.

(** a key that names no member: ParameterNotFoundError, unless it stands first, in
    which case numpy refuses the field name with a ValueError *)
Lemma vector_lookup_unknown_lemma (ch : list (string * view)) (k0 : string) (keys : list string) :
  check_node_vectorisable (VNode ch) = Ok tt ->
  (exists k, In k (k0 :: keys) /\ find_child k ch = None) ->
  vector_lookup (VNode ch) (k0 :: keys) =
    Err (match find_child k0 ch with None => EValue | Some _ => ENotFound end).
Proof.
  intros Hc (k & Hin & Hk). rewrite vector_lookup_eq by exact Hc.
  destruct (find_child k0 ch) eqn:E0; [|reflexivity].
  apply mapM_err_in.
  - intros x e'. unfold scalar_lookup, lookup_key. destruct (find_child x ch); congruence.
  - exists k. split; [exact Hin|]. exists ENotFound. unfold scalar_lookup, lookup_key. rewrite Hk. reflexivity.
Qed.

(** ** several levels: rows[j] is the object at path keys[j] :: step names *)

Lemma view_get_app (p q : path) : forall v w,
  view_get v p = Ok w -> view_get v (p ++ q)%list = view_get w q.
Proof.
  induction p as [|n p IH]; intros v w H; cbn in *.
  - inversion H; reflexivity.
  - destruct v as [z | sk br | ch]; try discriminate.
    destruct (find_child n ch); [|discriminate]. apply IH; exact H.
Qed.

Lemma lookup_key_view_get (r : view) (k : string) (c : view) :
  lookup_key (r, k) = Ok c -> view_get r [k] = Ok c.
Proof.
  unfold lookup_key. destruct r as [z | sk br | ch]; try discriminate.
  cbn. destruct (find_child k ch); [intros H; inversion H; reflexivity | discriminate].
Qed.

Lemma combine_nth {A B} (a : list A) (b : list B) (j : nat) (x : A) (y : B) :
  nth_error a j = Some x -> nth_error b j = Some y -> nth_error (combine a b) j = Some (x, y).
Proof.
  revert b j. induction a as [|a0 a IH]; intros [|b0 b] [|j] Ha Hb; cbn in *; try discriminate.
  - inversion Ha; inversion Hb; reflexivity.
  - apply IH; auto.
Qed.

Lemma broadcast2_same {A B} (a : list A) (b : list B) :
  List.length a = List.length b -> broadcast2 a b = Ok (combine a b).
Proof.
  intros H. destruct a as [|x [|x' a]]; destruct b as [|y [|y' b]]; cbn in H; try discriminate; cbn;
    try reflexivity.
  injection H as H. rewrite H, Nat.eqb_refl. reflexivity.
Qed.

Lemma nth_error_some_lt {A} (l : list A) (j : nat) (x : A) : nth_error l j = Some x -> (j < List.length l)%nat.
Proof. intros H. apply nth_error_Some. congruence. Qed.

Lemma nth_error_lt_some {A} (l : list A) (j : nat) : (j < List.length l)%nat -> exists x, nth_error l j = Some x.
Proof. intros H. destruct (nth_error l j) eqn:E; [eauto|]. apply nth_error_None in E. lia. Qed.

(** one step keeps "row j is the object at the path of element j" *)
Lemma vec_step_paths (root : view) (paths : nat -> path) (x y : vec) (s : vstep) :
  same_length (List.length (v_rows x)) s ->
  (forall j r, nth_error (v_rows x) j = Some r -> view_get root (paths j) = Ok r) ->
  vec_step x s = Ok y ->
  List.length (v_rows y) = List.length (v_rows x) /\
  forall j r, nth_error (v_rows y) j = Some r ->
    exists n, step_name j s = Some n /\ view_get root (paths j ++ [n])%list = Ok r.
Proof.
  intros Hlen Hinv Hs. destruct s as [ks | n]; cbn [vec_step] in Hs.
  - unfold vec_getitem in Hs. destruct (v_tmpl x) as [z | sk br | tch]; try discriminate.
    destruct ks as [|k0 ks']; [discriminate|].
    destruct (find_child k0 tch) as [c0|]; [|discriminate].
    cbn [same_length] in Hlen. rewrite broadcast2_same in Hs by (symmetry; exact Hlen).
    destruct (mapM lookup_key (combine (v_rows x) (k0 :: ks'))) as [rows|] eqn:Em; [|discriminate].
    inversion Hs; subst y. cbn [v_rows]. destruct (mapM_ok_nth _ _ _ Em) as [Hl Hn].
    rewrite combine_length, Hlen, Nat.min_id in Hl.
    split; [congruence|]. intros j r Hj.
    assert (Hlt : (j < List.length (v_rows x))%nat) by (rewrite <- Hl; eapply nth_error_some_lt; eauto).
    destruct (nth_error_lt_some _ _ Hlt) as [rx Hrx].
    assert (Hlt' : (j < List.length (k0 :: ks'))%nat) by (rewrite Hlen; exact Hlt).
    destruct (nth_error_lt_some _ _ Hlt') as [kj Hkj].
    destruct (Hn j (rx, kj) (combine_nth _ _ _ _ _ Hrx Hkj)) as (b & Hb & Hlk).
    rewrite Hj in Hb. inversion Hb; subst b.
    exists kj. split; [exact Hkj|].
    rewrite (view_get_app _ _ _ _ (Hinv j rx Hrx)). apply lookup_key_view_get; exact Hlk.
  - unfold vec_getattr in Hs. destruct (v_tmpl x) as [z | sk br | tch]; try discriminate.
    destruct (find_child n tch) as [c0|]; [|discriminate].
    assert (Hs' : match mapM (fun r => lookup_key (r, n)) (v_rows x) with
                  | Ok rows => Ok (mk_vec c0 rows) | Err e => Err e end = Ok y)
      by (destruct c0; try exact Hs; discriminate).
    destruct (mapM (fun r => lookup_key (r, n)) (v_rows x)) as [rows|] eqn:Em; [|discriminate].
    inversion Hs'; subst y. cbn [v_rows]. destruct (mapM_ok_nth _ _ _ Em) as [Hl Hn].
    split; [exact Hl|]. intros j r Hj.
    assert (Hlt : (j < List.length (v_rows x))%nat) by (rewrite <- Hl; eapply nth_error_some_lt; eauto).
    destruct (nth_error_lt_some _ _ Hlt) as [rx Hrx].
    destruct (Hn j rx Hrx) as (b & Hb & Hlk). rewrite Hj in Hb. inversion Hb; subst b.
    exists n. split; [reflexivity|].
    rewrite (view_get_app _ _ _ _ (Hinv j rx Hrx)). apply lookup_key_view_get; exact Hlk.
Qed.

Lemma vec_step_length (x y : vec) (s : vstep) :
  same_length (List.length (v_rows x)) s -> vec_step x s = Ok y ->
  List.length (v_rows y) = List.length (v_rows x).
Proof.
  intros Hlen Hs. destruct s as [ks | n]; cbn [vec_step] in Hs.
  - unfold vec_getitem in Hs. destruct (v_tmpl x) as [z | sk br | tch]; try discriminate.
    destruct ks as [|k0 ks']; [discriminate|].
    destruct (find_child k0 tch) as [c0|]; [|discriminate].
    cbn [same_length] in Hlen. rewrite broadcast2_same in Hs by (symmetry; exact Hlen).
    destruct (mapM lookup_key (combine (v_rows x) (k0 :: ks'))) as [rows|] eqn:Em; [|discriminate].
    inversion Hs; subst y. cbn [v_rows]. destruct (mapM_ok_nth _ _ _ Em) as [Hl _].
    rewrite combine_length, Hlen, Nat.min_id in Hl. congruence.
  - unfold vec_getattr in Hs. destruct (v_tmpl x) as [z | sk br | tch]; try discriminate.
    destruct (find_child n tch) as [c0|]; [|discriminate].
    assert (Hs' : match mapM (fun r => lookup_key (r, n)) (v_rows x) with
                  | Ok rows => Ok (mk_vec c0 rows) | Err e => Err e end = Ok y)
      by (destruct c0; try exact Hs; discriminate).
    destruct (mapM (fun r => lookup_key (r, n)) (v_rows x)) as [rows|] eqn:Em; [|discriminate].
    inversion Hs'; subst y. cbn [v_rows]. destruct (mapM_ok_nth _ _ _ Em) as [Hl _]. exact Hl.
Qed.

Lemma vec_steps_length (steps : list vstep) : forall (x y : vec),
  Forall (same_length (List.length (v_rows x))) steps -> vec_steps x steps = Ok y ->
  List.length (v_rows y) = List.length (v_rows x).
Proof.
  induction steps as [|s steps IH]; intros x y Hlen Hs.
  - cbn in Hs. inversion Hs; reflexivity.
  - cbn [vec_steps] in Hs. destruct (vec_step x s) as [x1|] eqn:E1; [|discriminate].
    inversion Hlen as [|? ? Hs0 Hrest]; subst.
    pose proof (vec_step_length x x1 s Hs0 E1) as Hl. rewrite <- Hl in Hrest.
    rewrite (IH x1 y Hrest Hs). exact Hl.
Qed.

Lemma vec_steps_paths (root : view) (steps : list vstep) : forall (paths : nat -> path) (x y : vec),
  Forall (same_length (List.length (v_rows x))) steps ->
  (forall j r, nth_error (v_rows x) j = Some r -> view_get root (paths j) = Ok r) ->
  vec_steps x steps = Ok y ->
  forall j r, nth_error (v_rows y) j = Some r ->
    exists ns, step_names j steps = Some ns /\ view_get root (paths j ++ ns)%list = Ok r.
Proof.
  induction steps as [|s steps IH]; intros paths x y Hlen Hinv Hs j r Hj.
  - cbn in Hs. inversion Hs; subst y. exists []. split; [reflexivity|]. rewrite app_nil_r. apply Hinv; exact Hj.
  - cbn [vec_steps] in Hs. destruct (vec_step x s) as [x1|] eqn:E1; [|discriminate].
    inversion Hlen as [|? ? Hs0 Hrest]; subst.
    destruct (vec_step_paths root paths x x1 s Hs0 Hinv E1) as [Hl Hstep].
    set (paths1 := fun j => match step_name j s with Some n => (paths j ++ [n])%list | None => paths j end).
    assert (Hinv1 : forall j r, nth_error (v_rows x1) j = Some r -> view_get root (paths1 j) = Ok r).
    { intros j0 r0 Hj0. destruct (Hstep j0 r0 Hj0) as (n & Hn & Hg). unfold paths1. rewrite Hn. exact Hg. }
    rewrite <- Hl in Hrest.
    destruct (IH paths1 x1 y Hrest Hinv1 Hs j r Hj) as (ns & Hns & Hg).
    assert (Hx1 : exists r1, nth_error (v_rows x1) j = Some r1).
    { apply nth_error_lt_some. rewrite <- (vec_steps_length steps x1 y Hrest Hs).
      eapply nth_error_some_lt; eauto. }
    destruct Hx1 as [r1 Hr1]. destruct (Hstep j r1 Hr1) as (n & Hn & _).
    exists (n :: ns). split.
    + cbn [step_names]. rewrite Hn, Hns. reflexivity.
    + unfold paths1 in Hg. rewrite Hn in Hg. rewrite <- app_assoc in Hg. exact Hg.
Qed.

(** the whole tail [node[keys] step ...]: element j of the result is the object found
    from the group along keys[j] and the j-th name of every step *)
Lemma tail_vec_pointwise (v : view) (keys : list string) (steps : list vstep) (rows : list view) :
  Forall (same_length (List.length keys)) steps ->
  apply_tail v (TVec keys steps) = Ok (RRows rows) ->
  List.length rows = List.length keys /\
  forall j r, nth_error rows j = Some r ->
    exists k ns, nth_error keys j = Some k /\ step_names j steps = Some ns /\
                 view_get v (k :: ns) = Ok r.
Proof.
  intros Hlen H. unfold apply_tail, apply_tail_full in H.
  destruct v as [z | sk br | ch]; try discriminate.
  destruct (check_node_vectorisable (VNode ch)) as [[]|] eqn:Hc; [|discriminate].
  destruct (vec_getitem (mk_vec (VNode ch) [VNode ch]) keys) as [x|] eqn:Ex; [|discriminate].
  destruct (vec_steps x steps) as [y|] eqn:Ey; [|discriminate].
  cbn in H. inversion H; subst rows. clear H.
  assert (Hv : vector_lookup (VNode ch) keys = Ok (v_rows x)).
  { unfold vector_lookup. rewrite Hc, Ex. reflexivity. }
  apply vector_lookup_pointwise_lemma in Hv. destruct (mapM_ok_nth _ _ _ Hv) as [Hl Hn].
  rewrite <- Hl in Hlen.
  set (paths := fun j => match nth_error keys j with Some k => [k] | None => [] end).
  assert (Hinv : forall j r, nth_error (v_rows x) j = Some r -> view_get (VNode ch) (paths j) = Ok r).
  { intros j r Hj.
    assert (Hlt : (j < List.length keys)%nat) by (rewrite <- Hl; eapply nth_error_some_lt; eauto).
    destruct (nth_error_lt_some _ _ Hlt) as [k Hk]. destruct (Hn j k Hk) as (b & Hb & Hs).
    rewrite Hj in Hb. inversion Hb; subst b. unfold paths. rewrite Hk.
    apply lookup_key_view_get. exact Hs. }
  split; [rewrite (vec_steps_length steps x y Hlen Ey); exact Hl|].
  intros j r Hj.
  destruct (vec_steps_paths (VNode ch) steps paths x y Hlen Hinv Ey j r Hj) as (ns & Hns & Hg).
  assert (Hlt : (j < List.length keys)%nat).
  { rewrite <- Hl, <- (vec_steps_length steps x y Hlen Ey). eapply nth_error_some_lt; eauto. }
  destruct (nth_error_lt_some _ _ Hlt) as [k Hk].
  exists k, ns. split; [exact Hk|]. split; [exact Hns|].
  unfold paths in Hg. rewrite Hk in Hg. exact Hg.
Qed.

(** * 6. Indexing by dates *)

Lemma chrono_later (afters : list (Z * view)) : forall a d,
  match afters with [] => True | (b, _) :: _ => a <= b end -> chrono afters -> d < a ->
  asof_index (after_dates afters) d = O.
Proof.
  induction afters as [|[b y] r IH]; intros a d Hab Hc Hd; [reflexivity|].
  unfold asof_index, after_dates in *. cbn [map filter fst].
  destruct (b <=? d) eqn:E; [apply Z.leb_le in E; lia|].
  destruct Hc as [Hb Hc]. apply (IH b d Hb Hc). apply Z.leb_gt in E. lia.
Qed.

Lemma asof_index_in_force (afters : list (Z * view)) : forall cur d,
  chrono afters ->
  nth_error (cur :: map snd afters) (asof_index (after_dates afters) d) = Some (in_force cur afters d).
Proof.
  induction afters as [|[a x] r IH]; intros cur d Hc; [reflexivity|].
  destruct Hc as [Hab Hc].
  unfold asof_index, after_dates. cbn [map filter fst snd in_force].
  destruct (a <=? d) eqn:E.
  - cbn [List.length nth_error]. apply (IH x d Hc).
  - apply Z.leb_gt in E. pose proof (chrono_later r a d Hab Hc E) as H0.
    unfold asof_index, after_dates in H0. rewrite H0. reflexivity.
Qed.

Lemma asof_dates_dated (rest : list (string * view)) (afters : list (Z * view)) :
  Forall2 dated rest afters ->
  asof_dates (map fst rest) = Ok (after_dates afters) /\ map snd rest = map snd afters.
Proof.
  induction 1 as [|[n c] [a x] rest afters [Hd Hv] _ [IH1 IH2]]; [split; reflexivity|].
  cbn in Hd, Hv. cbn [map fst snd asof_dates]. rewrite Hd, IH1. subst c. rewrite IH2. split; reflexivity.
Qed.

(** The precondition the code relies on: the group is homogeneous, its first declared
    member is its only "before" member, every other member is named after_<date> and
    they are declared in chronological order.  Then every date gets the member in force. *)
Lemma asof_pointwise_lemma (b : string) (v0 : view) (rest : list (string * view))
      (afters : list (Z * view)) (dates : list Z) :
  classify_asof b = ABefore ->
  Forall2 dated rest afters -> afters <> [] -> chrono afters ->
  check_node_vectorisable (VNode ((b, v0) :: rest)) = Ok tt ->
  asof_lookup (VNode ((b, v0) :: rest)) dates = Ok (RRows (map (in_force v0 afters) dates)).
Proof.
  intros Hb Hd Hne Hc Hck. destruct (asof_dates_dated rest afters Hd) as [Hn Hv].
  unfold asof_lookup, asof_getitem. rewrite Hck. cbn [map fst snd asof_dates]. rewrite Hb, Hn, Hv.
  assert (G : mapM (fun d => nth_res (v0 :: map snd afters) (asof_index (after_dates afters) d)) dates
              = Ok (map (in_force v0 afters) dates)).
  { clear - Hc. induction dates as [|d ds IH]; [reflexivity|].
    cbn [mapM]. unfold nth_res at 1. rewrite (asof_index_in_force afters v0 d Hc).
    rewrite IH. reflexivity. }
  destruct (after_dates afters) as [|n0 ns] eqn:En.
  - destruct afters; [congruence | discriminate].
  - rewrite G. reflexivity.
Qed.

(** without any dated member the answer is the first member itself, not an array *)
Lemma asof_no_dated_member (b : string) (v0 : view) (dates : list Z) :
  classify_asof b = ABefore ->
  check_node_vectorisable (VNode [(b, v0)]) = Ok tt ->
  asof_lookup (VNode [(b, v0)]) dates = Ok (RView v0).
Proof.
  intros Hb Hck. unfold asof_lookup, asof_getitem. rewrite Hck. cbn [map fst snd asof_dates]. rewrite Hb.
  reflexivity.
Qed.
