(** The regenerated holder decisions are the engine's [get_array] / [put_in_cache] on the
    merged cache. *)
From Coq Require Import ZArith List Bool.
From Verif Require Import Base Cal Tables Period Engine GuardsTypes GuardsStorage GuardsStorageSem
  GuardsStorageProofs GuardsHolder GuardsHolderSem.
Import ListNotations.
Open Scope Z_scope.

Lemma gen_holder_get_array_table : forall n m d,
  gen_holder_get_array n m d
  = if n then GDefault else if m then GMemory else if d then GDisk else GNothing.
Proof. intros [] [] []; reflexivity. Qed.

Lemma gen_holder_put_in_cache_table : forall dns oo ne inb,
  gen_holder_put_in_cache dns oo ne inb = if dns || (oo && ne && inb) then PSkip else PSet.
Proof. intros [] [] [] []; reflexivity. Qed.

Lemma gen_holder_store_choice_table : forall ods has pressure,
  gen_holder_store_choice ods has pressure = if ods && negb has && pressure then StDisk else StMemory.
Proof. intros [] [] []; reflexivity. Qed.

Lemma keys_are_norm : forall x p, memory_key x p = norm x p /\ disk_key x p = norm x p.
Proof.
  intros x p. unfold memory_key, disk_key.
  destruct (storages_agree (holder_eternal x) false) as [<- _].
  split; symmetry; apply norm_is_source_get.
Qed.

Lemma store_key_is_norm : forall c x p, store_key c x p = norm x p.
Proof.
  intros c x p. destruct (storages_agree (holder_eternal x) false) as [_ [Hp _]].
  destruct c; unfold store_key; rewrite <- ?Hp; symmetry; apply norm_is_source_put.
Qed.

Lemma get_array_is_source : forall pp x s mem disk has_disk v p,
  merged (cache s) mem disk has_disk ->
  get_array pp x s v p = src_get_array pp x mem disk has_disk v p.
Proof.
  intros pp x s mem disk has_disk v p H. unfold get_array, src_get_array.
  rewrite gen_holder_get_array_table.
  destruct (keys_are_norm x p) as [-> ->].
  destruct (v_neutral x); [reflexivity|].
  rewrite (H (v, norm x p)).
  destruct (lookup (v, norm x p) mem); cbn [is_some]; [reflexivity|].
  destruct has_disk; reflexivity.
Qed.

Lemma put_in_cache_is_source : forall dns oo ne inb x v p a s,
  v_nostore x = dns || (oo && ne && inb) ->
  put_in_cache x v p a s = src_put_in_cache dns oo ne inb x v p a s.
Proof.
  intros dns oo ne inb x v p a s H. unfold put_in_cache, src_put_in_cache.
  rewrite gen_holder_put_in_cache_table, H, <- norm_is_source_put.
  destruct (dns || (oo && ne && inb)); reflexivity.
Qed.
