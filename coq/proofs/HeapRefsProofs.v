(** Proofs about the back-pointers of cloned simulations (model/HeapRefs.v). *)
From Coq Require Import ZArith List Bool Arith Lia.
From Verif Require Import Base Engine Heap HeapRefs.
Import ListNotations.
Open Scope nat_scope.
Local Notation length := List.length.

(** every simulation is bound to itself and made of objects that already exist *)
Definition sim_ok (next : oid) (s : rsim) : Prop :=
  bound s = true /\ Forall (fun o => o < next) (objects s).

Definition rwf (w : rworld) : Prop := Forall (sim_ok (r_next w)) (rsims w).

Lemma sim_ok_mono n m s : n <= m -> sim_ok n s -> sim_ok m s.
Proof.
  intros Hnm [Hb Ho]. split; [assumption|]. eapply Forall_impl; [|exact Ho]. simpl. intros; lia.
Qed.

Lemma clone_holders_bound pop sim hs : holders_bound sim pop (clone_holders pop sim hs) = true.
Proof.
  unfold holders_bound, clone_holders. induction hs as [|h t IH]; simpl; auto.
  rewrite !Nat.eqb_refl. simpl. assumption.
Qed.

Lemma map_holders_bound sim pop (l : list nat) :
  holders_bound sim pop (map (fun v => (v, mk_rholder sim pop)) l) = true.
Proof.
  unfold holders_bound. induction l as [|h t IH]; simpl; auto. rewrite !Nat.eqb_refl. simpl. assumption.
Qed.

Lemma rinit_rwf sy : rwf (rinit sy).
Proof.
  unfold rwf, rinit. cbn [r_next rsims]. constructor; [|constructor].
  split.
  - unfold bound. cbn [r_persons r_group r_id p_sim p_members p_id p_holders opt_eqb].
    rewrite !map_holders_bound. reflexivity.
  - unfold objects. cbn. repeat constructor.
Qed.

(** the clone made by the current code *)
Lemma rclone_new_bound s n :
  bound {| r_id := n; r_tracer := n + 1;
           r_persons := clone_persons (r_persons s) (n + 2) n;
           r_group := clone_group BRebind (r_group s) (n + 3) n (n + 2) |} = true.
Proof.
  unfold bound, clone_persons, clone_group.
  cbn [r_persons r_group r_id p_sim p_members p_id p_holders opt_eqb].
  rewrite !Nat.eqb_refl, !clone_holders_bound. reflexivity.
Qed.

Lemma rclone_rwf w i : rwf w -> rwf (rclone BRebind w i).
Proof.
  intros Hwf. unfold rclone. destruct (nth_error (rsims w) i) as [s|]; [|assumption].
  unfold rwf. cbn [r_next rsims]. apply Forall_app. split.
  - eapply Forall_impl; [|exact Hwf]. intros a. apply sim_ok_mono. lia.
  - constructor; [|constructor]. split; [apply rclone_new_bound|].
    unfold objects, clone_persons, clone_group. cbn [r_id r_tracer r_persons r_group p_id].
    repeat constructor; lia.
Qed.

Lemma Forall_set_nth {A} (P : A -> Prop) l i x : Forall P l -> P x -> Forall P (set_nth l i x).
Proof.
  intros Hl Hx. revert i. induction Hl as [|a t Ha Ht IH]; intros [|i]; simpl; constructor; auto.
Qed.

Lemma rset_trace_rwf w i : rwf w -> rwf (rset_trace w i).
Proof.
  intros Hwf. unfold rset_trace. destruct (nth_error (rsims w) i) as [s|] eqn:Hi; [|assumption].
  unfold rwf. cbn [r_next rsims].
  assert (Hs : sim_ok (r_next w) s) by (eapply Forall_forall; [exact Hwf | eapply nth_error_In; eauto]).
  apply Forall_set_nth.
  - eapply Forall_impl; [|exact Hwf]. intros a. apply sim_ok_mono. lia.
  - destruct Hs as [Hb Ho]. split; [exact Hb|].
    unfold objects in *. cbn [r_id r_tracer r_persons r_group].
    inversion Ho as [|? ? H1 Ho1]; subst. inversion Ho1 as [|? ? H2 Ho2]; subst.
    inversion Ho2 as [|? ? H3 Ho3]; subst. inversion Ho3 as [|? ? H4 _]; subst.
    repeat constructor; lia.
Qed.

Lemma rstep_rwf w o : rwf w -> rwf (rstep BRebind w o).
Proof.
  intros H. destruct o; cbn [rstep]; [assumption | apply rclone_rwf; assumption | apply rset_trace_rwf; assumption].
Qed.

Lemma rrun_rwf os : forall w, rwf w -> rwf (rrun BRebind w os).
Proof.
  unfold rrun. induction os as [|o r IH]; intros w H; simpl; [assumption|]. apply IH. apply rstep_rwf. assumption.
Qed.

(** The statement, for a back-pointer policy: clone simulation [i] of any world reachable from
    a freshly built simulation.  The clone is one new simulation [c] appended to the world
    (so every earlier simulation is literally unchanged); [c] is made of four NEW objects
    (simulation, tracer, persons, household: numbers the world had not used), every part
    of [c] points to [c]'s own objects ([bound c]); and every earlier simulation - the
    original among them - still points to its own objects, all of them older than [c]'s. *)
Definition backpointers_after_clone (bp : bpolicy) : Prop :=
  forall sy pre i,
  let w0 := rrun bp (rinit sy) pre in
  i < length (rsims w0) ->
  let w := rclone bp w0 i in
  exists c,
    rsims w = rsims w0 ++ [c]
    /\ objects c = [r_next w0; r_next w0 + 1; r_next w0 + 2; r_next w0 + 3]
    /\ bound c = true
    /\ forall s, In s (rsims w0) -> bound s = true /\ Forall (fun o => o < r_next w0) (objects s).

Theorem backpointers_after_clone_holds : backpointers_after_clone BRebind.
Proof.
  intros sy pre i w0 Hi w.
  assert (Hwf : rwf w0) by (apply rrun_rwf; apply rinit_rwf).
  subst w. unfold rclone.
  destruct (nth_error (rsims w0) i) as [s|] eqn:Hs; [|apply nth_error_None in Hs; lia].
  eexists. cbn [rsims]. split; [reflexivity|]. split; [reflexivity|]. split; [apply rclone_new_bound|].
  intros s' Hin. exact (proj1 (Forall_forall _ _) Hwf s' Hin).
Qed.

(** before fix 0ac1a97: with one household variable, the clone's household holder points to
    the original's household population and simulation, and its members are the
    original's persons *)
Definition refs_wit_sys : sys :=
  {| vars := [ mk_var EPerson TInt Month None [] 0%Z false false;
               mk_var EGroup TInt Month None [] 0%Z false false ];
     params := []; switches := []; max_loops := 1 |}.

Theorem backpointers_keep_original_refuted : ~ backpointers_after_clone BKeepOriginal.
Proof.
  intro H. specialize (H refs_wit_sys [] 0 Nat.lt_0_1). destruct H as (c & E & _ & B & _).
  vm_compute in E. injection E as E. subst c. vm_compute in B. discriminate.
Qed.
