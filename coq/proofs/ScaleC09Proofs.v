(** Proofs of the C09 laws about the tax-scale transformations (Scale.v, ScaleOps.v).

    This file: [calc] is the mathematical definition ([marginal_tax] of ScaleProofs.v),
    the laws of multiply_rates / multiply_thresholds / scale_tax_scales / copy, and the
    "jump" form of the tax of a sorted scale,
        tax s b = sum_k (r_k - r_(k-1)) * max(0, b - t_k),
    on which the proofs about add_tax_scale (ScaleC09Combine.v) rest. *)
From Coq Require Import ZArith QArith Qminmax Qabs List Bool Lia Lqa Setoid Morphisms Sorted.
From Verif Require Import Base Scale ScaleOps ScaleProofs.
Import ListNotations.
Open Scope Q_scope.

(* ------------------------------------------------------------------------- *)
(** * calc                                                                     *)
(* ------------------------------------------------------------------------- *)

Lemma calc_marginal_tax : forall s b, calc s b == marginal_tax b s.
Proof.
  intros s b. unfold calc, calc_eps.
  pose proof (calc_marginal_def_clean s [b]) as H.
  destruct (calc_marginal 0 1 None s [b]) as [|x l]; inversion H; subst.
  cbn [nth]. assumption.
Qed.

Lemma calc_vector : forall s bases,
  Forall2 Qeq (calc_marginal 0 1 None s bases) (map (calc s) bases).
Proof.
  intros. eapply Forall2_Qeq_trans; [apply calc_marginal_def_clean|].
  induction bases as [|b bs IH]; constructor; [|exact IH].
  symmetry. apply calc_marginal_tax.
Qed.

Lemma calc_seq : forall s s' b, seq s s' -> calc s b == calc s' b.
Proof. intros. rewrite !calc_marginal_tax. apply marginal_tax_seq. assumption. Qed.

(* ------------------------------------------------------------------------- *)
(** * copy, multiply_rates, multiply_thresholds                                *)
(* ------------------------------------------------------------------------- *)

Lemma copy_same_calc : forall s b, calc (returned (copy_call s)) b = calc s b.
Proof. reflexivity. Qed.

Lemma copy_leaves_self : forall s, self_after (copy_call s) = s /\ returned (copy_call s) = s.
Proof. intro. split; reflexivity. Qed.

Lemma upper_end_multiply_rates : forall f s, upper_end (multiply_rates f s) = upper_end s.
Proof. intros f [|[t r] s]; reflexivity. Qed.

Lemma marginal_tax_multiply_rates : forall f s b,
  marginal_tax b (multiply_rates f s) == f * marginal_tax b s.
Proof.
  intros f s b. induction s as [|[t r] s IH]; [cbn; ring|].
  change (multiply_rates f ((t, r) :: s)) with ((t, r * f) :: multiply_rates f s).
  cbn [marginal_tax]. rewrite IH, upper_end_multiply_rates. ring.
Qed.

Lemma scale_rates_calc : forall f s b, calc (multiply_rates f s) b == f * calc s b.
Proof. intros. rewrite !calc_marginal_tax. apply marginal_tax_multiply_rates. Qed.

Lemma Qmin_scale : forall f x y, 0 <= f -> Qmin (f * x) (f * y) == f * Qmin x y.
Proof. intros f x y Hf. qminmax; nra. Qed.

Lemma Qmax0_scale : forall f x, 0 <= f -> Qmax 0 (f * x) == f * Qmax 0 x.
Proof. intros f x Hf. qminmax; nra. Qed.

Lemma overlap_scale : forall f t hi b, 0 <= f ->
  overlap (f * t) (emul f hi) (f * b) == f * overlap t hi b.
Proof.
  intros f t hi b Hf. destruct hi as [h|]; cbn [overlap emul].
  - rewrite Qmin_scale by assumption. rewrite <- Qmax0_scale by assumption.
    apply Q.max_compat; [reflexivity|ring].
  - rewrite <- Qmax0_scale by assumption. apply Q.max_compat; [reflexivity|ring].
Qed.

Lemma upper_end_multiply_thresholds : forall f s,
  match upper_end (multiply_thresholds f None s), emul f (upper_end s) with
  | Fin a, Fin b => a == b
  | Inf, Inf => True
  | _, _ => False
  end.
Proof. intros f [|[t r] s]; cbn; [exact I|ring]. Qed.

Lemma marginal_tax_multiply_thresholds : forall f s b, 0 <= f ->
  marginal_tax (f * b) (multiply_thresholds f None s) == f * marginal_tax b s.
Proof.
  intros f s b Hf. induction s as [|[t r] s IH]; [cbn; ring|].
  change (multiply_thresholds f None ((t, r) :: s))
    with ((t * f, r) :: multiply_thresholds f None s).
  cbn [marginal_tax]. rewrite IH.
  assert (E : overlap (t * f) (upper_end (multiply_thresholds f None s)) (f * b)
              == f * overlap t (upper_end s) b).
  { rewrite <- overlap_scale by assumption.
    pose proof (upper_end_multiply_thresholds f s) as Hu.
    destruct (upper_end (multiply_thresholds f None s)) as [a|], (emul f (upper_end s)) as [c|];
      try contradiction.
    - rewrite (overlap_hi_compat _ _ _ _ Hu). apply overlap_comp; [ring|reflexivity|reflexivity].
    - apply overlap_comp; [ring|reflexivity|reflexivity]. }
  rewrite E. ring.
Qed.

Lemma scale_thresholds_calc : forall f s b, 0 <= f ->
  calc (multiply_thresholds f None s) (f * b) == f * calc s b.
Proof. intros. rewrite !calc_marginal_tax. apply marginal_tax_multiply_thresholds. assumption. Qed.

(** the calls: what is returned and what [self] becomes *)
Lemma multiply_rates_call_spec : forall f inplace s,
  exists c, multiply_rates_call f inplace false s = Ok c
            /\ returned c = multiply_rates f s
            /\ aliased c = inplace
            /\ self_after c = (if inplace then multiply_rates f s else s).
Proof. intros f [|] s; eexists; repeat split. Qed.

Lemma multiply_thresholds_call_spec : forall f d inplace s,
  exists c, multiply_thresholds_call f d inplace false s = Ok c
            /\ returned c = multiply_thresholds f d s
            /\ aliased c = inplace
            /\ self_after c = (if inplace then multiply_thresholds f d s else s).
Proof. intros f d [|] s; eexists; repeat split. Qed.

Lemma scale_tax_scales_call_spec : forall f s,
  exists c, scale_tax_scales_call f s = Ok c
            /\ returned c = multiply_thresholds f None s /\ aliased c = false /\ self_after c = s.
Proof. intros; eexists; repeat split. Qed.

(* ------------------------------------------------------------------------- *)
(** * Jump form of the tax of a sorted scale                                   *)
(* ------------------------------------------------------------------------- *)

Definition pos (b t : Q) : Q := Qmax 0 (b - t).

Global Instance pos_comp : Proper (Qeq ==> Qeq ==> Qeq) pos.
Proof. intros b b' Hb t t' Ht. unfold pos. rewrite Hb, Ht. reflexivity. Qed.

Lemma pos_nonneg : forall b t, 0 <= pos b t.
Proof. intros. unfold pos. apply Q.le_max_l. Qed.

Lemma overlap_pos : forall t h b, t <= h -> overlap t (Fin h) b == pos b t - pos b h.
Proof. intros t h b H. unfold overlap, pos. qminmax; lra. Qed.

Lemma overlap_inf_pos : forall t b, overlap t Inf b == pos b t.
Proof. reflexivity. Qed.

Definition head_pos (s : scale) (b : Q) : Q :=
  match s with [] => 0 | (t, _) :: _ => pos b t end.

Fixpoint jumps (prev : Q) (s : scale) (b : Q) : Q :=
  match s with
  | [] => 0
  | (t, r) :: rest => (r - prev) * pos b t + jumps r rest b
  end.

Lemma jumps_marginal_tax : forall s prev b, sorted s ->
  jumps prev s b == marginal_tax b s - prev * head_pos s b.
Proof.
  induction s as [|[t r] s IH]; intros prev b Hs; [cbn; ring|].
  cbn [jumps marginal_tax head_pos].
  rewrite (IH r b (sorted_tail _ _ Hs)).
  destruct s as [|[t' r'] s'].
  - cbn [upper_end head_pos marginal_tax]. rewrite overlap_inf_pos. ring.
  - cbn [upper_end head_pos]. rewrite overlap_pos.
    + ring.
    + apply Qlt_le_weak. eapply sorted_cons2. exact Hs.
Qed.

Lemma marginal_tax_jumps : forall s b, sorted s -> marginal_tax b s == jumps 0 s b.
Proof. intros. rewrite jumps_marginal_tax by assumption. ring. Qed.

Lemma jumps_prev : forall s p q b, jumps p s b == jumps q s b + (q - p) * head_pos s b.
Proof. intros [|[t r] s] p q b; cbn [jumps head_pos]; ring. Qed.

Lemma jumps_seq : forall s s' p b, seq s s' -> jumps p s b == jumps p s' b.
Proof.
  intros s s' p b H. revert p. induction H as [|[t r] [t' r'] s s' [Ht Hr] Hs IH]; intro p; [reflexivity|].
  cbn [fst snd] in Ht, Hr. cbn [jumps]. rewrite (jumps_prev s r r' b), (IH r'), Ht.
  setoid_replace (r' - r) with 0 by (rewrite Hr; ring).
  setoid_replace (r - p) with (r' - p) by (rewrite Hr; ring). ring.
Qed.

(* ------------------------------------------------------------------------- *)
(** * Example scales used by the non-vacuity examples of props/C09.v           *)
(* ------------------------------------------------------------------------- *)

Definition sA : scale := [(0, 1 # 10); (10, 2 # 10); (20, 3 # 10)].
Definition sB : scale := [(5, 1 # 4); (10, 1 # 8); (30, 1 # 2)].
