(** Proofs of the C09 laws about the tax-scale transformations (Scale.v, ScaleOps.v). *)
From Coq Require Import ZArith QArith Qminmax Qabs List Bool Lia Lqa Setoid Morphisms.
From Verif Require Import Base Scale ScaleOps.
Import ListNotations.
Open Scope Q_scope.

Lemma copy_same_calc : forall s b, calc (returned (copy_call s)) b = calc s b.
Proof. reflexivity. Qed.
