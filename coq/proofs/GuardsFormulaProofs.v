(** The regenerated structure of Variable.get_formula is [Engine.formula_at]; an ascending list
    scanned keeping the last match is the reversed list scanned taking the first match. *)
From Coq Require Import ZArith List Bool.
From Verif Require Import Base Cal Tables Period Engine GuardsTypes GuardsFormula GuardsFormulaSem.
Import ListNotations.
Open Scope Z_scope.

Lemma first_match_app : forall c l1 l2 d,
  first_match c (l1 ++ l2) d
  = match first_match c l1 d with Some e => Some e | None => first_match c l2 d end.
Proof.
  intros c l1 l2 d. induction l1 as [|[s e] r IH]; cbn; [reflexivity|].
  destruct (cmp_dates c s d); [reflexivity|apply IH].
Qed.

(** keeping the last match of the ascending scan = first match of the reversed scan *)
Lemma latest_is_first_of_reversed : forall fs d acc,
  latest_formula fs d acc
  = match first_match CmpLe (rev fs) d with Some e => Some e | None => acc end.
Proof.
  induction fs as [|[s e] r IH]; intros d acc; cbn [latest_formula rev]; [reflexivity|].
  rewrite first_match_app. cbn [first_match cmp_dates].
  destruct (date_leb s d); rewrite IH; destruct (first_match CmpLe (rev r) d); reflexivity.
Qed.

Lemma gen_formula_guard_table : forall has pn inone he ae,
  gen_formula_guard has pn inone he ae
  = if negb has then FNone else if pn then FOldest else if inone then FNone
    else if he && ae then FNone else FScan.
Proof. intros [] [] [] [] []; reflexivity. Qed.

Lemma gen_formula_scan_is_reversed_le : gen_formula_scan = ScanFirst ScanReversed CmpLe.
Proof. reflexivity. Qed.

Lemma formula_at_is_source : forall x p, formula_at x p = src_formula_at x p.
Proof.
  intros x p. unfold formula_at, src_formula_at.
  rewrite gen_formula_guard_table, gen_formula_scan_is_reversed_le. unfold run_scan.
  destruct (v_formulas x) as [|f r] eqn:Hfs; [reflexivity|].
  cbn [negb andb]. destruct (validb (p_start p)); cbn [negb]; [|reflexivity].
  rewrite latest_is_first_of_reversed.
  destruct (v_end x) as [e|]; cbn [andb].
  - destruct (date_ltb e (p_start p)); [reflexivity|].
    destruct (first_match CmpLe (rev (f :: r)) (p_start p)); reflexivity.
  - destruct (first_match CmpLe (rev (f :: r)) (p_start p)); reflexivity.
Qed.
