(** Proofs about the set-input model (SetInput.v): the divide and dispatch rules over an
    arbitrary list of sub-period keys, their lifting to [sim_set_input] and to histories. *)
From Coq Require Import ZArith QArith List Bool Lia Qfield Qround.
From Verif Require Import Base Cal Tables Period SetInput CalProofs.
Import ListNotations.
Open Scope Z_scope.

(** * Keys *)

Lemma unit_eqb_eq a b : unit_eqb a b = true <-> a = b.
Proof. destruct a, b; cbn; split; intros H; try reflexivity; discriminate. Qed.

Lemma period_eqb_eq p q : period_eqb p q = true <-> p = q.
Proof.
  destruct p as [[u s] n], q as [[u' s'] n']. unfold period_eqb, p_unit, p_start, p_size; cbn [fst snd].
  rewrite !andb_true_iff, unit_eqb_eq, date_eqb_eq, Z.eqb_eq.
  split; [intros [[-> ->] ->]; reflexivity | intros H; inversion H; auto].
Qed.

Lemma period_eqb_refl p : period_eqb p p = true.
Proof. apply period_eqb_eq. reflexivity. Qed.

Lemma period_eqb_neq p q : p <> q -> period_eqb p q = false.
Proof.
  intros H. destruct (period_eqb p q) eqn:E; [|reflexivity]. apply period_eqb_eq in E. contradiction.
Qed.

Lemma period_eq_dec (p q : period) : {p = q} + {p <> q}.
Proof.
  destruct (period_eqb p q) eqn:E; [left; apply period_eqb_eq; assumption|].
  right. intros ->. rewrite period_eqb_refl in E. discriminate.
Qed.

(** * The dictionary *)

Lemma get_put_same h p a : get (put h p a) p = Some a.
Proof.
  induction h as [|[k w] h IH]; cbn [put get].
  - rewrite period_eqb_refl. reflexivity.
  - destruct (period_eqb k p) eqn:E; cbn [get]; rewrite E; [reflexivity|assumption].
Qed.

Lemma get_put_other h p q a : p <> q -> get (put h p a) q = get h q.
Proof.
  intros Hn. induction h as [|[k w] h IH]; cbn [put get].
  - rewrite (period_eqb_neq p q Hn). reflexivity.
  - destruct (period_eqb k p) eqn:E; cbn [get].
    + apply period_eqb_eq in E. subst k. rewrite (period_eqb_neq p q Hn). reflexivity.
    + destruct (period_eqb k q); [reflexivity|assumption].
Qed.

Lemma wf_put n h p a : wf_holder n h -> Z.of_nat (length a) = n -> wf_holder n (put h p a).
Proof.
  intros Hw Ha q b Hg. destruct (period_eq_dec p q) as [->|Hn].
  - rewrite get_put_same in Hg. injection Hg as <-. exact Ha.
  - rewrite get_put_other in Hg by assumption. eapply Hw; eassumption.
Qed.

Lemma wf_nil n : wf_holder n [].
Proof. intros p a H. discriminate. Qed.

(** * The cast *)

Lemma qtrunc_inject z : qtrunc (inject_Z z) = inject_Z z.
Proof. unfold qtrunc, inject_Z; cbn [Qnum Qden]. rewrite Z.quot_1_r. reflexivity. Qed.

Lemma cast_idem t q : cast t (cast t q) = cast t q.
Proof. destruct t; cbn [cast]; [reflexivity|]. unfold qtrunc at 2. apply qtrunc_inject. Qed.

Lemma map_cast_idem t a : map (cast t) (map (cast t) a) = map (cast t) a.
Proof. rewrite map_map. apply map_ext. intros. apply cast_idem. Qed.

Lemma cast_float q : cast VFloat q = q.
Proof. reflexivity. Qed.

(** the int cast leaves integers alone *)
Lemma cast_int_exact t z : cast t (inject_Z z) = inject_Z z.
Proof. destruct t; [reflexivity|apply qtrunc_inject]. Qed.

(** * [to_array] and [_set] *)

Lemma to_array_ok v n a : Z.of_nat (length a) = n -> to_array v n a = Ok (map (cast (v_type v)) a).
Proof. intros H. unfold to_array. rewrite (proj2 (Z.eqb_eq _ _) H). reflexivity. Qed.

Lemma to_array_inv v n a a' : to_array v n a = Ok a' ->
  Z.of_nat (length a) = n /\ a' = map (cast (v_type v)) a.
Proof.
  unfold to_array. destruct (Z.of_nat (length a) =? n) eqn:E; [|discriminate].
  intros H. inversion H. apply Z.eqb_eq in E. auto.
Qed.

Lemma holder_get_ne v h t : eternal v = false -> holder_get v h t = get h t.
Proof. intros H. unfold holder_get, storage_key. rewrite H. reflexivity. Qed.

Lemma set_tile v n h t a :
  eternal v = false -> tile_ok v t -> Z.of_nat (length a) = n ->
  _set v n h t a = Ok (put h t (map (cast (v_type v)) a)).
Proof.
  intros He [Hu Hs] Ha. unfold _set. rewrite (to_array_ok v n a Ha). cbn [bind].
  unfold storage_key. rewrite He.
  assert (E1 : unit_eqb (v_def v) (p_unit t) = true) by (apply unit_eqb_eq; congruence).
  assert (E2 : (1 <? p_size t) = false) by (apply Z.ltb_ge; assumption).
  rewrite E1, E2. reflexivity.
Qed.

(** whatever [_set] does, it stores an array of the right length under one key *)
Lemma set_inv v n h p a h' : _set v n h p a = Ok h' ->
  h' = put h (storage_key v p) (map (cast (v_type v)) a) /\ Z.of_nat (length a) = n.
Proof.
  unfold _set. destruct (to_array v n a) as [a'|] eqn:E; cbn [bind]; [|discriminate].
  apply to_array_inv in E. destruct E as [Hl ->].
  destruct (eternal v).
  - intros H; inversion H; auto.
  - destruct (negb (unit_eqb (v_def v) (p_unit p)) || (1 <? p_size p)); [discriminate|].
    intros H; inversion H; auto.
Qed.

(** * The storing loop (second loop of divide, only loop of dispatch) *)

(** Without any hypothesis: a value that is known stays, and stays the same. *)
Lemma dispatch_tiles_persist v n : forall T h a h', dispatch_tiles v n h T a = Ok h' ->
  forall q x, get h q = Some x -> get h' q = Some x.
Proof.
  induction T as [|t T IH]; intros h a h' H q x Hq; cbn [dispatch_tiles] in H.
  - inversion H; subst; assumption.
  - destruct (holder_get v h t) eqn:G.
    + eapply IH; eassumption.
    + destruct (_set v n h t a) as [h1|] eqn:S; cbn [bind] in H; [|discriminate].
      apply set_inv in S. destruct S as [-> _].
      eapply IH; [eassumption|].
      rewrite get_put_other; [assumption|].
      intros E. unfold holder_get in G. rewrite E in G. congruence.
Qed.

Lemma dispatch_tiles_wf v n : forall T h a h', dispatch_tiles v n h T a = Ok h' ->
  wf_holder n h -> wf_holder n h'.
Proof.
  induction T as [|t T IH]; intros h a h' H Hw; cbn [dispatch_tiles] in H.
  - inversion H; subst; assumption.
  - destruct (holder_get v h t) eqn:G.
    + eapply IH; eassumption.
    + destruct (_set v n h t a) as [h1|] eqn:S; cbn [bind] in H; [|discriminate].
      apply set_inv in S. destruct S as [-> Hl].
      eapply IH; [eassumption|]. apply wf_put; [assumption|]. rewrite map_length. assumption.
Qed.

Lemma dispatch_tiles_spec v n : eternal v = false -> forall T h a,
  Forall (tile_ok v) T -> Z.of_nat (length a) = n ->
  exists h', dispatch_tiles v n h T a = Ok h'
    /\ (forall t, In t T -> get h t = None -> get h' t = Some (map (cast (v_type v)) a))
    /\ (forall q, ~ In q T -> get h' q = get h q).
Proof.
  intros He. induction T as [|t T IH]; intros h a HT Ha.
  - exists h. cbn. split; [reflexivity|]. split; [intros t []|reflexivity].
  - pose proof (Forall_inv HT) as Ht. pose proof (Forall_inv_tail HT) as HT'. cbn [dispatch_tiles].
    rewrite (holder_get_ne v h t He).
    destruct (get h t) as [e|] eqn:G.
    + destruct (IH h a HT' Ha) as [h' [E [F1 F2]]]. exists h'. split; [assumption|]. split.
      * intros t' [<-|Hin] Hn; [congruence|]. apply F1; assumption.
      * intros q Hq. apply F2. intros Hin. apply Hq. right. assumption.
    + rewrite (set_tile v n h t a He Ht Ha). cbn [bind].
      set (a' := map (cast (v_type v)) a).
      destruct (IH (put h t a') a HT' Ha) as [h' [E [F1 F2]]]. exists h'. split; [assumption|]. split.
      * intros t' Hin Hn. destruct (period_eq_dec t t') as [<-|Hne].
        -- eapply dispatch_tiles_persist; [eassumption|]. apply get_put_same.
        -- destruct Hin as [->|Hin]; [contradiction|]. apply F1; [assumption|].
           rewrite get_put_other; assumption.
      * intros q Hq. rewrite F2 by (intros Hin; apply Hq; right; assumption).
        apply get_put_other. intros ->. apply Hq. left. reflexivity.
Qed.

(** * Arrays, entity by entity *)

Lemma ent_nil i : ent i [] = 0%Q.
Proof. destruct i; reflexivity. Qed.

Lemma ent_asub : forall r e i, length r = length e -> (ent i (asub r e) == ent i r - ent i e)%Q.
Proof.
  induction r as [|x r IH]; intros [|y e] i Hl; try discriminate.
  - unfold asub, ent. cbn [combine map]. destruct i; cbn [nth]; ring.
  - destruct i; unfold asub, ent; cbn [combine map nth fst snd].
    + reflexivity.
    + apply IH. cbn in Hl. lia.
Qed.

Lemma length_asub r e : length r = length e -> length (asub r e) = length r.
Proof. intros H. unfold asub. rewrite map_length, combine_length. lia. Qed.

Lemma ent_map (f : Q -> Q) a i : (i < length a)%nat -> ent i (map f a) = f (ent i a).
Proof.
  intros H. unfold ent. rewrite (nth_indep (map f a) 0%Q (f 0%Q)) by (rewrite map_length; assumption).
  apply map_nth.
Qed.

Lemma ent_adiv a k i : (i < length a)%nat -> ent i (adiv a k) = (ent i a / inject_Z k)%Q.
Proof. intros H. unfold adiv. apply (ent_map (fun x => (x / inject_Z k)%Q)). assumption. Qed.

Lemma all_zero_spec a : all_zero a = true <-> forall i, (i < length a)%nat -> (ent i a == 0)%Q.
Proof.
  unfold all_zero. rewrite forallb_forall. split.
  - intros H i Hi. apply Qeq_bool_iff. apply H. apply nth_In. assumption.
  - intros H x Hx. apply Qeq_bool_iff. destruct (In_nth a x 0%Q Hx) as [i [Hi <-]]. apply H. assumption.
Qed.

(** * The counting loop *)

Lemma divide_count_spec v n h : eternal v = false -> wf_holder n h -> forall T rem cnt,
  Z.of_nat (length rem) = n ->
  snd (divide_count v h T rem cnt) = cnt + Z.of_nat (length (unknown_tiles v h T))
  /\ length (fst (divide_count v h T rem cnt)) = length rem
  /\ forall i, (ent i (fst (divide_count v h T rem cnt))
                == ent i rem - qsum (map (val v n h i) (known_tiles v h T)))%Q.
Proof.
  intros He Hw. induction T as [|t T IH]; intros rem cnt Hl.
  - cbn [divide_count fst snd]. unfold known_tiles, unknown_tiles. cbn [filter map length].
    split; [lia|]. split; [reflexivity|]. intros i. unfold qsum; cbn [fold_right]. ring.
  - cbn [divide_count]. unfold known_tiles, unknown_tiles in *. cbn [filter].
    destruct (holder_get v h t) as [e|] eqn:G;
      [assert (K : is_known v h t = true) by (unfold is_known; rewrite G; reflexivity)
      |assert (K : is_known v h t = false) by (unfold is_known; rewrite G; reflexivity)];
      rewrite K; cbn [negb].
    + assert (Le : length rem = length e).
      { rewrite holder_get_ne in G by assumption. apply Hw in G. lia. }
      destruct (IH (asub rem e) cnt) as [I1 [I2 I3]]; [rewrite length_asub; assumption|].
      split; [assumption|]. split; [rewrite I2; apply length_asub; assumption|].
      intros i. rewrite I3. rewrite (ent_asub rem e i Le). cbn [map]. unfold qsum at 2. cbn [fold_right].
      change (val v n h i t) with (ent i (getd v n h t)). unfold getd. rewrite G. cbn [map].
      fold (qsum (map (val v n h i) (filter (is_known v h) T))). ring.
    + destruct (IH rem (cnt + 1) Hl) as [I1 [I2 I3]].
      split; [rewrite I1; cbn [length]; lia|]. split; assumption.
Qed.

(** * The cast respects equality of rationals *)

Lemma qtrunc_compat x y : (x == y)%Q -> qtrunc x = qtrunc y.
Proof.
  intros E. unfold qtrunc. f_equal.
  assert (F := Qfloor_comp x y E). assert (C := Qceiling_comp x y E).
  destruct x as [a b], y as [c d]. unfold Qeq in E. cbn [Qnum Qden] in *.
  unfold Qceiling, Qfloor, Qopp in *; cbn [Qnum Qden] in *.
  destruct (Z_le_gt_dec 0 a).
  - assert (0 <= c) by nia. rewrite !Z.quot_div_nonneg by lia. exact F.
  - assert (c < 0) by nia.
    assert (Qa : forall p q, p < 0 -> Z.quot p (Zpos q) = - ((- p) / Zpos q)).
    { intros p q Hp. rewrite <- Z.quot_div_nonneg by lia. rewrite Z.quot_opp_l by lia. lia. }
    rewrite !Qa by lia. exact C.
Qed.

Lemma cast_compat t x y : (x == y)%Q -> (cast t x == cast t y)%Q.
Proof. intros E. destruct t; cbn [cast]; [assumption|]. rewrite (qtrunc_compat x y E). reflexivity. Qed.

(** * Sums over the tiles, split into known and unknown ones *)

Lemma qsum_split (f g : period -> Q) (p : period -> bool) (c : Q) : forall T,
  (forall t, In t T -> p t = true -> (g t == f t)%Q) ->
  (forall t, In t T -> p t = false -> (g t == c)%Q) ->
  (qsum (map g T) == qsum (map f (filter p T))
     + inject_Z (Z.of_nat (length (filter (fun t => negb (p t)) T))) * c)%Q.
Proof.
  induction T as [|t T IH]; intros H1 H2.
  - cbn. ring.
  - assert (IH' := IH (fun t' Hin => H1 t' (or_intror Hin)) (fun t' Hin => H2 t' (or_intror Hin))).
    unfold qsum in *. cbn [map filter fold_right]. rewrite IH'.
    destruct (p t) eqn:E; cbn [negb map length fold_right].
    + rewrite (H1 t (or_introl eq_refl) E). ring.
    + rewrite (H2 t (or_introl eq_refl) E). rewrite Nat2Z.inj_succ, <- Z.add_1_r, inject_Z_plus. ring.
Qed.

Lemma inject_Z_nonzero k : k <> 0 -> ~ (inject_Z k == 0)%Q.
Proof. intros H E. unfold Qeq, inject_Z in E. cbn in E. lia. Qed.

(** * The divide rule over an arbitrary list of sub-period keys *)

Lemma divide_tiles_persist v n h T a h' : divide_tiles v n h T a = Ok h' ->
  forall q x, get h q = Some x -> get h' q = Some x.
Proof.
  unfold divide_tiles. destruct (0 <? snd (divide_count v h T a 0)).
  - apply dispatch_tiles_persist.
  - destruct (all_zero _); [|discriminate]. intros H; inversion H; subst; auto.
Qed.

Lemma divide_tiles_wf v n h T a h' : divide_tiles v n h T a = Ok h' -> wf_holder n h -> wf_holder n h'.
Proof.
  unfold divide_tiles. destruct (0 <? snd (divide_count v h T a 0)).
  - apply dispatch_tiles_wf.
  - destruct (all_zero _); [|discriminate]. intros H; inversion H; subst; auto.
Qed.

Lemma known_get v h t : eternal v = false -> is_known v h t = true -> exists e, get h t = Some e.
Proof.
  intros He. unfold is_known. rewrite holder_get_ne by assumption.
  destruct (get h t) as [e|]; [eexists; reflexivity|discriminate].
Qed.

Lemma unknown_get v h t : eternal v = false -> is_known v h t = false -> get h t = None.
Proof.
  intros He. unfold is_known. rewrite holder_get_ne by assumption.
  destruct (get h t) as [e|]; [discriminate|reflexivity].
Qed.

Lemma divide_tiles_fill v n h T a :
  eternal v = false -> wf_holder n h -> Z.of_nat (length a) = n -> Forall (tile_ok v) T ->
  0 < n_unknown v h T ->
  exists h', divide_tiles v n h T a = Ok h' /\ wf_holder n h'
    /\ (forall q x, get h q = Some x -> get h' q = Some x)
    /\ (forall q, ~ In q T -> get h' q = get h q)
    /\ (forall t, In t T -> get h t = None ->
          exists x, get h' t = Some x /\ length x = length a /\
            forall i, (i < length a)%nat -> (ent i x == cast (v_type v) (share v n h T a i))%Q)
    /\ (forall i, (i < length a)%nat ->
          (cast (v_type v) (share v n h T a i) == share v n h T a i)%Q ->
          (qsum (map (val v n h' i) T) == ent i a)%Q).
Proof.
  intros He Hw Ha HT Hk.
  destruct (divide_count_spec v n h He Hw T a 0 Ha) as [I1 [I2 I3]].
  rewrite Z.add_0_l in I1. fold (n_unknown v h T) in I1.
  unfold divide_tiles. set (rc := divide_count v h T a 0) in *.
  rewrite I1. rewrite (proj2 (Z.ltb_lt _ _) Hk).
  set (d := adiv (fst rc) (n_unknown v h T)).
  assert (Ld : length d = length a) by (unfold d, adiv; rewrite map_length; assumption).
  destruct (dispatch_tiles_spec v n He T h d HT ltac:(rewrite Ld; assumption)) as [h' [E [F1 F2]]].
  assert (U : forall t, In t T -> get h t = None ->
          exists x, get h' t = Some x /\ length x = length a /\
            forall i, (i < length a)%nat -> (ent i x == cast (v_type v) (share v n h T a i))%Q).
  { intros t Hin Hn. exists (map (cast (v_type v)) d). split; [apply F1; assumption|].
    split; [rewrite map_length; assumption|]. intros i Hi.
    rewrite ent_map by (rewrite Ld; assumption).
    unfold d. rewrite ent_adiv by (rewrite I2; assumption).
    apply cast_compat. unfold share, remainder. rewrite I3. reflexivity. }
  exists h'. split; [assumption|].
  split; [eapply dispatch_tiles_wf; eassumption|].
  split; [eapply dispatch_tiles_persist; eassumption|].
  split; [assumption|]. split; [assumption|].
  intros i Hi Hex.
  rewrite (qsum_split (val v n h i) (val v n h' i) (is_known v h) (cast (v_type v) (share v n h T a i))).
  - fold (unknown_tiles v h T). fold (n_unknown v h T). fold (known_tiles v h T).
    rewrite Hex. unfold share at 1. rewrite Qmult_div_r by (apply inject_Z_nonzero; lia).
    unfold remainder. ring.
  - intros t Hin Hkn. destruct (known_get v h t He Hkn) as [e Ge].
    unfold val, getd. rewrite !holder_get_ne by assumption.
    rewrite Ge. rewrite (dispatch_tiles_persist _ _ _ _ _ _ E t e Ge). reflexivity.
  - intros t Hin Hkn. apply (unknown_get v h t He) in Hkn.
    destruct (U t Hin Hkn) as [x [Gx [_ Vx]]].
    unfold val, getd. rewrite holder_get_ne by assumption. rewrite Gx. apply Vx. assumption.
Qed.

Lemma divide_tiles_full v n h T a :
  eternal v = false -> wf_holder n h -> Z.of_nat (length a) = n ->
  n_unknown v h T = 0 ->
  ((forall i, (i < length a)%nat -> (remainder v n h T a i == 0)%Q) ->
     divide_tiles v n h T a = Ok h
     /\ forall i, (i < length a)%nat -> (qsum (map (val v n h i) T) == ent i a)%Q)
  /\ ((exists i, (i < length a)%nat /\ ~ (remainder v n h T a i == 0)%Q) ->
     divide_tiles v n h T a = Err EValue).
Proof.
  intros He Hw Ha Hk.
  destruct (divide_count_spec v n h He Hw T a 0 Ha) as [I1 [I2 I3]].
  rewrite Z.add_0_l in I1. fold (n_unknown v h T) in I1.
  unfold divide_tiles. set (rc := divide_count v h T a 0) in *.
  rewrite I1, Hk. cbn [Z.ltb Z.compare].
  split.
  - intros Hz. assert (Az : all_zero (fst rc) = true).
    { apply all_zero_spec. intros i Hi. rewrite I3. apply Hz. rewrite <- I2. assumption. }
    rewrite Az. split; [reflexivity|]. intros i Hi.
    rewrite (qsum_split (val v n h i) (val v n h i) (is_known v h) 0%Q).
    + fold (unknown_tiles v h T). fold (n_unknown v h T). fold (known_tiles v h T). rewrite Hk.
      specialize (Hz i Hi). unfold remainder in Hz.
      setoid_replace (ent i a) with (ent i a - qsum (map (val v n h i) (known_tiles v h T))
                                     + qsum (map (val v n h i) (known_tiles v h T)))%Q by ring.
      rewrite Hz. ring.
    + reflexivity.
    + intros t Hin Hkn. exfalso.
      assert (Hin' : In t (unknown_tiles v h T)).
      { unfold unknown_tiles. apply filter_In. split; [assumption|]. rewrite Hkn. reflexivity. }
      unfold n_unknown in Hk. destruct (unknown_tiles v h T); [contradiction|]. cbn [length] in Hk. lia.
  - intros [i [Hi Hnz]]. destruct (all_zero (fst rc)) eqn:Az; [|reflexivity].
    exfalso. apply Hnz. unfold remainder. rewrite <- I3.
    apply (proj1 (all_zero_spec (fst rc)) Az). rewrite I2. assumption.
Qed.

(** * The dispatch rule over an arbitrary list of sub-period keys *)

Lemma dispatch_tiles_repeats v n h T a :
  eternal v = false -> wf_holder n h -> Z.of_nat (length a) = n -> Forall (tile_ok v) T ->
  exists h', dispatch_tiles v n h T a = Ok h' /\ wf_holder n h'
    /\ (forall q x, get h q = Some x -> get h' q = Some x)
    /\ (forall q, ~ In q T -> get h' q = get h q)
    /\ (forall t, In t T -> get h t = None -> get h' t = Some (map (cast (v_type v)) a)).
Proof.
  intros He Hw Ha HT.
  destruct (dispatch_tiles_spec v n He T h a HT Ha) as [h' [E [F1 F2]]].
  exists h'. split; [assumption|].
  split; [eapply dispatch_tiles_wf; eassumption|].
  split; [eapply dispatch_tiles_persist; eassumption|].
  split; assumption.
Qed.

(** * The walk only produces keys that [_set] accepts *)

Lemma offset_shape sp nx : offset sp 1 None = Ok nx -> p_unit nx = p_unit sp /\ p_size nx = p_size sp.
Proof.
  destruct sp as [[pu s] sz]. unfold offset.
  destruct (instant_offset s 1 pu) as [s'|]; cbn [bind]; [|discriminate].
  intros H; inversion H; subst. split; reflexivity.
Qed.

Lemma walk_shape after : forall fuel sp T, walk fuel sp after = Ok T ->
  Forall (fun t => p_unit t = p_unit sp /\ p_size t = p_size sp) T.
Proof.
  induction fuel as [|f IH]; intros sp T H; cbn [walk] in H; [discriminate|].
  destruct (date_ltb (p_start sp) after); [|inversion H; constructor].
  destruct (offset sp 1 None) as [nx|] eqn:O; cbn [bind] in H; [|discriminate].
  destruct (walk f nx after) as [r|] eqn:W; cbn [bind] in H; [|discriminate].
  inversion H; subst. constructor; [split; reflexivity|].
  destruct (offset_shape sp nx O) as [Eu Es]. rewrite <- Eu, <- Es. apply IH. assumption.
Qed.

Lemma walk_tiles_ok v P T : walk_tiles v P = Ok T -> Forall (tile_ok v) T.
Proof.
  unfold walk_tiles. destruct (instant_offset _ _ _) as [after|]; cbn [bind]; [|discriminate].
  intros H. apply walk_shape in H. eapply Forall_impl; [|exact H].
  intros t [Hu Hs]. unfold tile_ok, p_unit, p_size in *; cbn [fst snd] in *. split; [assumption|lia].
Qed.

(** * Routing: what [Simulation.set_input] reduces to *)

Lemma unit_eqb_neq a b : a <> b -> unit_eqb a b = false.
Proof. intros H. destruct (unit_eqb a b) eqn:E; [apply unit_eqb_eq in E; contradiction|reflexivity]. Qed.

Lemma sim_to_holder v n h P a : not_after_end v P -> p_unit P <> Eternity ->
  sim_set_input v n h P a = holder_set_input v n h P a.
Proof.
  intros He Hp. unfold sim_set_input, not_after_end in *. destruct (v_end v) as [e|]; [|reflexivity].
  rewrite (unit_eqb_neq _ _ Hp), He. reflexivity.
Qed.

Lemma sim_set_input_divide v n h P a T :
  v_rule v = RDivide -> eternal v = false -> not_after_end v P -> p_unit P <> Eternity ->
  Z.of_nat (length a) = n -> walk_tiles v P = Ok T ->
  sim_set_input v n h P a = divide_tiles v n h T (map (cast (v_type v)) a).
Proof.
  intros Hr He Hend Hp Ha Hw. rewrite sim_to_holder by assumption.
  unfold holder_set_input. rewrite (unit_eqb_neq _ _ Hp). cbn [andb]. rewrite Hr.
  unfold set_input_divide_by_period. rewrite (to_array_ok v n a Ha). cbn [bind].
  rewrite He, Hw. reflexivity.
Qed.

Lemma sim_set_input_dispatch v n h P a T :
  v_rule v = RDispatch -> eternal v = false -> not_after_end v P -> p_unit P <> Eternity ->
  Z.of_nat (length a) = n -> walk_tiles v P = Ok T ->
  sim_set_input v n h P a = dispatch_tiles v n h T (map (cast (v_type v)) a).
Proof.
  intros Hr He Hend Hp Ha Hw. rewrite sim_to_holder by assumption.
  unfold holder_set_input. rewrite (unit_eqb_neq _ _ Hp). cbn [andb]. rewrite Hr.
  unfold set_input_dispatch_by_period. rewrite (to_array_ok v n a Ha). cbn [bind].
  rewrite He, Hw. reflexivity.
Qed.

(** * Histories *)

Lemma sim_set_input_persist v n h P a h' : v_rule v <> RNone -> sim_set_input v n h P a = Ok h' ->
  forall q x, get h q = Some x -> get h' q = Some x.
Proof.
  intros Hr H q x Hq. unfold sim_set_input in H.
  assert (G : holder_set_input v n h P a = Ok h' -> get h' q = Some x).
  { clear H. unfold holder_set_input. destruct (_ && _); [discriminate|].
    destruct (v_rule v); [contradiction| |].
    - unfold set_input_divide_by_period. destruct (to_array v n a); cbn [bind]; [|discriminate].
      destruct (eternal v); [discriminate|]. destruct (walk_tiles v P); cbn [bind]; [|discriminate].
      intros H. eapply divide_tiles_persist; eassumption.
    - unfold set_input_dispatch_by_period. destruct (to_array v n a); cbn [bind]; [|discriminate].
      destruct (eternal v); [discriminate|]. destruct (walk_tiles v P); cbn [bind]; [|discriminate].
      intros H. eapply dispatch_tiles_persist; eassumption. }
  destruct (v_end v); [|auto].
  destruct (unit_eqb (p_unit P) Eternity); [discriminate|].
  destruct (date_ltb d (p_start P)); [inversion H; subst; assumption|auto].
Qed.

Lemma sim_set_input_wf v n h P a h' : sim_set_input v n h P a = Ok h' -> wf_holder n h -> wf_holder n h'.
Proof.
  intros H Hw. unfold sim_set_input in H.
  assert (G : holder_set_input v n h P a = Ok h' -> wf_holder n h').
  { clear H. unfold holder_set_input. destruct (_ && _); [discriminate|].
    destruct (v_rule v).
    - intros H. apply set_inv in H. destruct H as [-> Hl]. apply wf_put; [assumption|].
      rewrite map_length. assumption.
    - unfold set_input_divide_by_period. destruct (to_array v n a); cbn [bind]; [|discriminate].
      destruct (eternal v); [discriminate|]. destruct (walk_tiles v P); cbn [bind]; [|discriminate].
      intros H. eapply divide_tiles_wf; eassumption.
    - unfold set_input_dispatch_by_period. destruct (to_array v n a); cbn [bind]; [|discriminate].
      destruct (eternal v); [discriminate|]. destruct (walk_tiles v P); cbn [bind]; [|discriminate].
      intros H. eapply dispatch_tiles_wf; eassumption. }
  destruct (v_end v); [|auto].
  destruct (unit_eqb (p_unit P) Eternity); [discriminate|].
  destruct (date_ltb d (p_start P)); [inversion H; subst; assumption|auto].
Qed.

Lemma step_persist v n h s : v_rule v <> RNone ->
  forall q x, get h q = Some x -> get (step_holder v n h s) q = Some x.
Proof.
  intros Hr q x Hq. unfold step_holder. destruct (sim_set_input v n h (fst s) (snd s)) eqn:E; [|assumption].
  eapply sim_set_input_persist; eassumption.
Qed.

Lemma step_wf v n h s : wf_holder n h -> wf_holder n (step_holder v n h s).
Proof.
  intros Hw. unfold step_holder. destruct (sim_set_input v n h (fst s) (snd s)) eqn:E; [|assumption].
  eapply sim_set_input_wf; eassumption.
Qed.

Lemma run_steps_persist v n : v_rule v <> RNone -> forall steps h q x,
  get h q = Some x -> get (run_steps v n h steps) q = Some x.
Proof.
  intros Hr. induction steps as [|s steps IH]; intros h q x Hq; [assumption|].
  cbn [run_steps fold_left]. apply IH. apply step_persist; assumption.
Qed.

Lemma run_steps_wf v n : forall steps h, wf_holder n h -> wf_holder n (run_steps v n h steps).
Proof.
  induction steps as [|s steps IH]; intros h Hw; [assumption|].
  cbn [run_steps fold_left]. apply IH. apply step_wf; assumption.
Qed.

Lemma run_steps_app v n h s1 s2 : run_steps v n h (s1 ++ s2) = run_steps v n (run_steps v n h s1) s2.
Proof. unfold run_steps. apply fold_left_app. Qed.

(** * [calculate_add] of an input variable is the entity-wise sum over the sub-periods *)

Lemma ent_aadd : forall r e i, length r = length e -> (ent i (aadd r e) == ent i r + ent i e)%Q.
Proof.
  induction r as [|x r IH]; intros [|y e] i Hl; try discriminate.
  - unfold aadd, ent. cbn [combine map]. destruct i; cbn [nth]; ring.
  - destruct i; unfold aadd, ent; cbn [combine map nth fst snd].
    + reflexivity.
    + apply IH. cbn in Hl. lia.
Qed.

Lemma length_aadd r e : length r = length e -> length (aadd r e) = length r.
Proof. intros H. unfold aadd. rewrite map_length, combine_length. lia. Qed.

Lemma length_zeros n : length (zeros n) = Z.to_nat n.
Proof. unfold zeros, zrange. rewrite !map_length, seq_length. reflexivity. Qed.

Lemma ent_zeros n i : ent i (zeros n) = 0%Q.
Proof.
  unfold zeros, ent. generalize (zrange n). intros l. revert i.
  induction l as [|x l IH]; intros [|i]; cbn [map nth]; auto.
Qed.

Lemma length_getd v n h t : eternal v = false -> wf_holder n h -> length (getd v n h t) = Z.to_nat n.
Proof.
  intros He Hw. unfold getd. rewrite holder_get_ne by assumption.
  destruct (get h t) as [e|] eqn:G; [apply Hw in G; lia|apply length_zeros].
Qed.

Lemma sum_tiles_ent v n h : eternal v = false -> wf_holder n h -> forall T i,
  (ent i (sum_tiles v n h T) == qsum (map (val v n h i) T))%Q.
Proof.
  intros He Hw T i. unfold sum_tiles.
  assert (G : forall acc, length acc = Z.to_nat n ->
            (ent i (fold_left (fun acc t => aadd acc (getd v n h t)) T acc)
             == ent i acc + qsum (map (val v n h i) T))%Q).
  { induction T as [|t T IH]; intros acc Hl; cbn [fold_left map].
    - unfold qsum; cbn [fold_right]. ring.
    - rewrite IH by (rewrite length_aadd; rewrite ?length_getd; assumption).
      rewrite ent_aadd by (rewrite length_getd; assumption).
      unfold qsum; cbn [fold_right]. unfold val. ring. }
  rewrite G by apply length_zeros. rewrite ent_zeros. ring.
Qed.

(** * The theorems of props/C16.v *)

Lemma map_cast_float a : map (cast VFloat) a = a.
Proof. induction a as [|x a IH]; cbn [map cast]; [reflexivity|]. rewrite IH. reflexivity. Qed.

(** divide rule, any list of sub-period keys *)
Definition divide_tiles_conserves_statement : Prop :=
  forall (v : var) (n : Z) (h : holder) (T : list period) (a : arr),
  eternal v = false -> wf_holder n h -> Z.of_nat (length a) = n -> Forall (tile_ok v) T ->
  (0 < n_unknown v h T ->
     exists h', divide_tiles v n h T a = Ok h' /\ wf_holder n h'
       /\ (forall q x, get h q = Some x -> get h' q = Some x)
       /\ (forall q, ~ In q T -> get h' q = get h q)
       /\ (forall t, In t T -> get h t = None ->
             exists x, get h' t = Some x /\ length x = length a /\
               forall i, (i < length a)%nat -> (ent i x == cast (v_type v) (share v n h T a i))%Q)
       /\ (forall i, (i < length a)%nat ->
             (cast (v_type v) (share v n h T a i) == share v n h T a i)%Q ->
             (qsum (map (val v n h' i) T) == ent i a)%Q))
  /\ (n_unknown v h T = 0 ->
       ((forall i, (i < length a)%nat -> (remainder v n h T a i == 0)%Q) ->
          divide_tiles v n h T a = Ok h
          /\ forall i, (i < length a)%nat -> (qsum (map (val v n h i) T) == ent i a)%Q)
       /\ ((exists i, (i < length a)%nat /\ ~ (remainder v n h T a i == 0)%Q) ->
          divide_tiles v n h T a = Err EValue)).

Lemma divide_tiles_conserves_proof : divide_tiles_conserves_statement.
Proof.
  intros v n h T a He Hw Ha HT. split.
  - apply divide_tiles_fill; assumption.
  - apply divide_tiles_full; assumption.
Qed.

(** divide rule, the real entry point, after any history *)
Definition divide_conserves_statement : Prop :=
  forall (v : var) (n : Z) (steps : list (period * arr)) (P : period) (a : arr) (T : list period),
  v_rule v = RDivide -> eternal v = false -> not_after_end v P -> p_unit P <> Eternity ->
  Z.of_nat (length a) = n -> walk_tiles v P = Ok T ->
  let h := run_steps v n [] steps in
  let a' := map (cast (v_type v)) a in
  (0 < n_unknown v h T ->
     exists h', sim_set_input v n h P a = Ok h' /\ wf_holder n h'
       /\ (forall q x, get h q = Some x -> get h' q = Some x)
       /\ (forall q, ~ In q T -> get h' q = get h q)
       /\ (forall t, In t T -> get h t = None ->
             exists x, get h' t = Some x /\ length x = length a /\
               forall i, (i < length a)%nat -> (ent i x == cast (v_type v) (share v n h T a' i))%Q)
       /\ (forall i, (i < length a)%nat ->
             (cast (v_type v) (share v n h T a' i) == share v n h T a' i)%Q ->
             (qsum (map (val v n h' i) T) == ent i a')%Q))
  /\ (n_unknown v h T = 0 ->
       ((forall i, (i < length a)%nat -> (remainder v n h T a' i == 0)%Q) ->
          sim_set_input v n h P a = Ok h
          /\ forall i, (i < length a)%nat -> (qsum (map (val v n h i) T) == ent i a')%Q)
       /\ ((exists i, (i < length a)%nat /\ ~ (remainder v n h T a' i == 0)%Q) ->
          sim_set_input v n h P a = Err EValue)).

Lemma divide_conserves_proof : divide_conserves_statement.
Proof.
  intros v n steps P a T Hr He Hend Hp Ha HT h a'.
  assert (Hw : wf_holder n h) by (apply run_steps_wf, wf_nil).
  rewrite (sim_set_input_divide v n h P a T Hr He Hend Hp Ha HT). fold a'.
  assert (La : length a' = length a) by (unfold a'; apply map_length).
  assert (Ha' : Z.of_nat (length a') = n) by (rewrite La; assumption).
  pose proof (walk_tiles_ok v P T HT) as Hok.
  destruct (divide_tiles_conserves_proof v n h T a' He Hw Ha' Hok) as [C1 C2].
  rewrite La in C1, C2. split; assumption.
Qed.

(** float variables: no side condition on the share *)
Lemma divide_conserves_float_proof :
  forall (v : var) (n : Z) (steps : list (period * arr)) (P : period) (a : arr) (T : list period),
  v_type v = VFloat ->
  v_rule v = RDivide -> eternal v = false -> not_after_end v P -> p_unit P <> Eternity ->
  Z.of_nat (length a) = n -> walk_tiles v P = Ok T ->
  let h := run_steps v n [] steps in
  0 < n_unknown v h T ->
  exists h', sim_set_input v n h P a = Ok h'
    /\ forall i, (i < length a)%nat -> (qsum (map (val v n h' i) T) == ent i a)%Q.
Proof.
  intros v n steps P a T Hf Hr He Hend Hp Ha HT h Hk.
  destruct (divide_conserves_proof v n steps P a T Hr He Hend Hp Ha HT) as [C _].
  destruct (C Hk) as [h' [E [_ [_ [_ [_ S]]]]]]. exists h'. split; [assumption|].
  intros i Hi. specialize (S i Hi). rewrite Hf in S. rewrite map_cast_float in S.
  apply S. reflexivity.
Qed.

(** dispatch rule, any list of sub-period keys *)
Definition dispatch_tiles_repeats_statement : Prop :=
  forall (v : var) (n : Z) (h : holder) (T : list period) (a : arr),
  eternal v = false -> wf_holder n h -> Z.of_nat (length a) = n -> Forall (tile_ok v) T ->
  exists h', dispatch_tiles v n h T a = Ok h' /\ wf_holder n h'
    /\ (forall q x, get h q = Some x -> get h' q = Some x)
    /\ (forall q, ~ In q T -> get h' q = get h q)
    /\ (forall t, In t T -> get h t = None -> get h' t = Some (map (cast (v_type v)) a)).

(** dispatch rule, the real entry point, after any history *)
Definition dispatch_repeats_statement : Prop :=
  forall (v : var) (n : Z) (steps : list (period * arr)) (P : period) (a : arr) (T : list period),
  v_rule v = RDispatch -> eternal v = false -> not_after_end v P -> p_unit P <> Eternity ->
  Z.of_nat (length a) = n -> walk_tiles v P = Ok T ->
  let h := run_steps v n [] steps in
  exists h', sim_set_input v n h P a = Ok h' /\ wf_holder n h'
    /\ (forall q x, get h q = Some x -> get h' q = Some x)
    /\ (forall q, ~ In q T -> get h' q = get h q)
    /\ (forall t, In t T -> get h t = None -> get h' t = Some (map (cast (v_type v)) a)).

Lemma dispatch_repeats_proof : dispatch_repeats_statement.
Proof.
  intros v n steps P a T Hr He Hend Hp Ha HT h.
  assert (Hw : wf_holder n h) by (apply run_steps_wf, wf_nil).
  rewrite (sim_set_input_dispatch v n h P a T Hr He Hend Hp Ha HT).
  pose proof (walk_tiles_ok v P T HT) as Hok.
  destruct (dispatch_tiles_repeats v n h T (map (cast (v_type v)) a) He Hw
              ltac:(rewrite map_length; assumption) Hok) as [h' [E [W [F1 [F2 F3]]]]].
  exists h'. rewrite map_cast_idem in F3. repeat split; assumption.
Qed.

(** order effects: whatever is known at some point of a history of a variable with a rule
    is never changed by the rest of the history *)
Lemma later_inputs_only_fill_unknown_proof :
  forall (v : var) (n : Z) (s1 s2 : list (period * arr)) (q : period) (x : arr),
  v_rule v <> RNone ->
  get (run_steps v n [] s1) q = Some x -> get (run_steps v n [] (s1 ++ s2)) q = Some x.
Proof.
  intros v n s1 s2 q x Hr H. rewrite run_steps_app. apply run_steps_persist; assumption.
Qed.

(** a refused or dropped input leaves the holder as it was, by definition of [step_holder];
    an accepted one keeps every stored array of the population's length *)
Lemma history_wf_proof : forall v n steps, wf_holder n (run_steps v n [] steps).
Proof. intros. apply run_steps_wf, wf_nil. Qed.

(** * Concrete instances used by the non-vacuity examples of props/C16.v *)

Definition arr_eqb (a b : arr) : bool :=
  Nat.eqb (length a) (length b) && forallb (fun xy => Qeq_bool (fst xy) (snd xy)) (combine a b).
Definition holds (h : res holder) (t : period) (x : arr) : bool :=
  match h with
  | Ok h' => match get h' t with Some y => arr_eqb y x | None => false end
  | Err _ => false
  end.
Definition ex_month (t : vtype) (r : rule) : var := mkVar t Month r None.
Definition ex_year_var (t : vtype) (r : rule) : var := mkVar t Year r None.
Definition ex_2019 : period := (Year, (2019, 1, 1), 1).
Definition ex_m (m : Z) : period := (Month, (2019, m, 1), 1).
Definition ex_y (y : Z) : period := (Year, (y, 1, 1), 1).
