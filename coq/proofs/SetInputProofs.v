(** Proofs about the set-input model (SetInput.v). *)
From Coq Require Import ZArith QArith List Bool Lia.
From Verif Require Import Base Cal Tables Period SetInput CalProofs.
Import ListNotations.
Open Scope Z_scope.

Lemma unit_eqb_eq a b : unit_eqb a b = true <-> a = b.
Proof. destruct a, b; cbn; split; intros H; try reflexivity; discriminate. Qed.

Lemma period_eqb_eq p q : period_eqb p q = true <-> p = q.
Proof.
  destruct p as [[u s] n], q as [[u' s'] n']. unfold period_eqb, p_unit, p_start, p_size; cbn [fst snd].
  rewrite !andb_true_iff, unit_eqb_eq, date_eqb_eq, Z.eqb_eq.
  split; [intros [[-> ->] ->]; reflexivity | intros H; inversion H; auto].
Qed.
