(** C02, sentence 2: [ordinary_keys] is preserved by the machine, so that the purge
    hypothesis follows from conditions on the rule system, the initial cache and the request.

    [gpb n q]: a dated period with a valid start in a year > n, and a start day <= 28 when
    its unit is month or year.  The year bound decreases by 2 at each nesting level (a
    dependency may look back up to two years), so a request in a year > 2 * fuel + 2 keeps
    every frame of the run in valid years.

    [sys_good B sy] (semantic): no eternal variable, and every dependency of every formula
    maps such a period (size 1, the variable's unit, year > n + 2) to periods that are
    [gpb n] - the requested period itself for a plain dependency, its sub-periods for ADD,
    the enclosing period for DIVIDE.  [sys_okb] is a syntactic check that implies it for
    the fragment listed there. *)
From Coq Require Import ZArith List Bool Arith Lia ZifyBool.
From Verif Require Import Base Cal Tables Period PeriodSpec CalProofs PeriodProofs PeriodMoreProofs
  Np Group Param Engine EngineProofs EngineC02Gen EngineC02SpiralProofs EngineC02Justify EngineC02Ordinary.
Import ListNotations.
Local Open Scope Z_scope.

Definition year_of (q : period) : Z := let '(y, _, _) := p_start q in y.

Definition gpb (n : Z) (q : period) : bool :=
  negb (unit_eqb (p_unit q) Eternity) && validb (p_start q) && (n <? year_of q) &&
  match p_unit q with
  | Month | Year => let '(_, _, d) := p_start q in d <=? 28
  | _ => true
  end.

Lemma gpb_ordinary n q : gpb n q = true -> p_size q = 1 -> ordinary q = true.
Proof.
  unfold gpb, ordinary. intros H Hs.
  apply andb_true_iff in H as [H H4]. apply andb_true_iff in H as [H H3].
  apply andb_true_iff in H as [H1 H2]. rewrite H1, H2, H4, Hs. reflexivity.
Qed.

Lemma gpb_mono n n' q : n <= n' -> gpb n' q = true -> gpb n q = true.
Proof.
  unfold gpb. intros Hn H.
  apply andb_true_iff in H as [H H4]. apply andb_true_iff in H as [H H3].
  apply andb_true_iff in H as [H1 H2]. rewrite H1, H2, H4.
  apply Z.ltb_lt in H3. assert (E : (n <? year_of q) = true) by (apply Z.ltb_lt; lia).
  now rewrite E.
Qed.

(** * The generic evaluator with a condition on the requested periods *)

Section PresG.
  Context {S : Type}.
  Variable sy : sys.
  Variable pp : popu.
  Variable rec : S -> nat -> period -> S * res val.
  Variable P : S -> Prop.
  Variable G : period -> Prop.
  Hypothesis Hrec : forall s w q, G q -> P s -> P (fst (rec s w q)).

  Definition dep_good (p : period) (w : nat) (pt : ptrans) (o : opt) : Prop :=
    forall q x, apply_ptrans pt p = Ok q -> nth_error (vars sy) w = Some x ->
      match o with
      | OPlain => G q
      | OAdd => forall subs, subperiods q (v_unit x) = Ok subs -> Forall G subs
      | ODivide => forall cp, divide_period x q = Ok cp -> G cp
      | _ => True
      end.

  Fixpoint expr_good (p : period) (e : expr) : Prop :=
    match e with
    | EDep w pt o => dep_good p w pt o
    | EBin _ a b => expr_good p a /\ expr_good p b
    | ENot a => expr_good p a
    | EWhere c a b => expr_good p c /\ expr_good p a /\ expr_good p b
    | EAgg _ _ a => expr_good p a
    | EProject _ a => expr_good p a
    | _ => True
    end.

  Lemma sum_calc_presG : forall subs w acc s, Forall G subs -> P s ->
    P (fst (sum_calc rec s w subs acc)).
  Proof.
    induction subs as [|q r IH]; intros w acc s HG HP; cbn [sum_calc]; [auto|].
    inversion HG as [|? ? Hq Hr]; subst.
    pose proof (Hrec s w q Hq HP) as H1.
    destruct (rec s w q) as [s1 r1]; cbn [fst] in *.
    destruct r1 as [a|e]; cbn [fst]; auto.
  Qed.

  Lemma call_presG c w pt o p q s : dep_good p w pt o -> apply_ptrans pt p = Ok q -> P s ->
    P (fst (call rec sy c s w q o)).
  Proof.
    intros Hd Hq HP. unfold call.
    destruct (nth_error (vars sy) w) as [x|] eqn:Ex; cbn [fst]; auto.
    specialize (Hd q x Hq Ex).
    destruct (negb _); cbn [fst]; auto.
    destruct o; cbn [fst]; auto.
    - unfold calc_add.
      destruct (_ <? _); cbn [fst]; auto.
      destruct (unit_eqb _ _); cbn [fst]; auto.
      destruct (negb _); cbn [fst]; auto.
      destruct (subperiods q (v_unit x)) as [subs|] eqn:Es; cbn [fst]; auto.
      apply sum_calc_presG; auto.
    - unfold calc_divide.
      destruct (_ || _); cbn [fst]; auto.
      destruct (negb (dated_unit (v_unit x))); cbn [fst]; auto.
      destruct (_ || _); cbn [fst]; auto.
      destruct (divide_period x q) as [cp|] eqn:Ed; cbn [fst]; auto.
      destruct (divide_denominator _ _); cbn [fst]; auto.
      pose proof (Hrec s w cp (Hd cp eq_refl) HP) as H1.
      destruct (rec s w cp) as [s1 r1]; cbn [fst] in *.
      destruct r1; cbn [fst]; auto.
  Qed.

  Lemma eval_presG : forall e c p s, expr_good p e -> P s -> P (fst (eval rec sy pp c s p e)).
  Proof.
    induction e as [z|w pt o|op a IHa b IHb|a IHa|cn IHc a IHa b IHb|k|g role a IHa|role|role a IHa|f|k];
      intros c p s Hg HP; cbn [eval expr_good] in *; auto.
    - destruct (apply_ptrans pt p) as [q|] eqn:Eq; cbn [fst]; auto. eapply call_presG; eauto.
    - destruct Hg as [Ga Gb]. pose proof (IHa c p s Ga HP) as H1.
      destruct (eval rec sy pp c s p a) as [s1 r1]; cbn [fst] in *.
      destruct r1 as [x|]; cbn [fst]; auto.
      pose proof (IHb c p s1 Gb H1) as H2.
      destruct (eval rec sy pp c s1 p b) as [s2 r2]; cbn [fst] in *.
      destruct r2; cbn [fst]; auto.
    - pose proof (IHa c p s Hg HP) as H1.
      destruct (eval rec sy pp c s p a) as [s1 r1]; cbn [fst] in *. auto.
    - destruct Hg as (Gc & Ga & Gb). pose proof (IHc c p s Gc HP) as H1.
      destruct (eval rec sy pp c s p cn) as [s1 r1]; cbn [fst] in *.
      destruct r1 as [x|]; cbn [fst]; auto.
      pose proof (IHa c p s1 Ga H1) as H2.
      destruct (eval rec sy pp c s1 p a) as [s2 r2]; cbn [fst] in *.
      destruct r2 as [y|]; cbn [fst]; auto.
      pose proof (IHb c p s2 Gb H2) as H3.
      destruct (eval rec sy pp c s2 p b) as [s3 r3]; cbn [fst] in *.
      destruct r3; cbn [fst]; auto.
    - destruct (nth_error (params sy) k); cbn [fst]; auto. destruct (get_at _ _); cbn [fst]; auto.
    - pose proof (IHa EPerson p s Hg HP) as H1.
      destruct (eval rec sy pp EPerson s p a) as [s1 r1]; cbn [fst] in *. auto.
    - pose proof (IHa EGroup p s Hg HP) as H1.
      destruct (eval rec sy pp EGroup s p a) as [s1 r1]; cbn [fst] in *. auto.
    - destruct (existsb _ _); cbn [fst]; auto.
  Qed.
End PresG.

(** * Small facts *)

Lemma check_ok x p u : check_consistency x p = Ok u -> unit_eqb (v_unit x) Eternity = false ->
  unit_eqb (v_unit x) (p_unit p) = true /\ p_size p = 1.
Proof.
  unfold check_consistency. intros H He. rewrite He in H.
  destruct (unit_eqb (v_unit x) (p_unit p)); [|discriminate]. cbn [negb] in H.
  destruct (p_size p =? 1) eqn:E; [|discriminate]. split; auto. now apply Z.eqb_eq.
Qed.

Lemma formula_at_in x p e : formula_at x p = Ok (Some e) -> exists d, In (d, e) (v_formulas x).
Proof.
  intro H. unfold formula_at in H.
  assert (Hl : latest_formula (v_formulas x) (p_start p) None = Some e -> exists d, In (d, e) (v_formulas x)).
  { intro Hoe. apply latest_formula_in in Hoe as [Hc|Hin]; [discriminate|exact Hin]. }
  destruct (v_formulas x) as [|f0 fs] eqn:Ef; [discriminate|]. rewrite <- Ef in *.
  destruct (negb (validb (p_start p))); [discriminate|].
  destruct (v_end x) as [en|].
  - destruct (date_ltb en (p_start p)); [discriminate|]. inversion H. auto.
  - inversion H. auto.
Qed.

Lemma no_eternal_unit sy v x : no_eternal sy -> nth_error (vars sy) v = Some x ->
  unit_eqb (v_unit x) Eternity = false.
Proof.
  intros H Hn. unfold no_eternal in H. rewrite forallb_forall in H.
  specialize (H x (nth_error_In _ _ Hn)). now apply negb_true_iff in H.
Qed.

Lemma ok_add_invalid sy ks s : ordinary_keys sy s = true -> forallb (key_ordinary sy) ks = true ->
  ordinary_keys sy (add_invalid ks s) = true.
Proof.
  unfold ordinary_keys. cbn [add_invalid invalid cache]. intros H Hk.
  apply andb_true_iff in H as [H1 H2]. now rewrite forallb_app, Hk, H1, H2.
Qed.

Lemma ok_put sy k a s : ordinary_keys sy s = true -> key_ordinary sy k = true ->
  ordinary_keys sy (put k a s) = true.
Proof.
  unfold ordinary_keys. cbn [put invalid cache forallb fst]. intros H Hk.
  apply andb_true_iff in H as [H1 H2]. rewrite H1, Hk. cbn [andb].
  rewrite forallb_forall in H2 |- *. intros kv Hin. apply H2.
  unfold remove_key in Hin. now apply filter_In in Hin.
Qed.

Lemma forallb_incl {A} (g : A -> bool) l1 l2 : incl l1 l2 -> forallb g l2 = true -> forallb g l1 = true.
Proof. intros Hi H. rewrite forallb_forall in H |- *. auto. Qed.

Lemma forallb_purge_fold sy (g : key * val -> bool) inv : forall c,
  forallb g c = true -> forallb g (fold_left (fun c m => delete_one sy m c) inv c) = true.
Proof.
  induction inv as [|m inv IH]; intros c H; cbn [fold_left]; [exact H|].
  apply IH. unfold delete_one. destruct (nth_error (vars sy) (fst m)); [|exact H].
  rewrite forallb_forall in H |- *. intros kv Hin. apply H. now apply filter_In in Hin.
Qed.

(** * Preservation *)

Section Closure.
  Variable sy : sys.
  Variable pp : popu.
  Variable B : Z.

  Definition Pok (s : st) : Prop :=
    ordinary_keys sy s = true /\ forallb (key_ordinary sy) (stack s) = true.

  Definition sys_good : Prop :=
    no_eternal sy /\
    forall v x d e n p, 0 <= n <= B -> nth_error (vars sy) v = Some x -> In (d, e) (v_formulas x) ->
      gpb (n + 2) p = true -> p_unit p = v_unit x -> p_size p = 1 ->
      expr_good sy (fun q => gpb n q = true) p e.

  Hypothesis Hsys : sys_good.

  Lemma body_P (rec : st -> nat -> period -> st * res val) n s0 v p stk :
    0 <= n <= B ->
    (forall s w q, gpb n q = true -> Pok s -> Pok (fst (rec s w q))) ->
    stack s0 = (v, p) :: stk -> gpb (n + 2) p = true ->
    ordinary_keys sy s0 = true -> forallb (key_ordinary sy) stk = true ->
    ordinary_keys sy (fst (calc_body rec sy pp s0 v p)) = true.
  Proof.
    intros Hn Hrec Hst Hp Hok Hstk. destruct Hsys as [Hne Hgood]. unfold calc_body.
    destruct (nth_error (vars sy) v) as [x|] eqn:Ex; [|exact Hok].
    destruct (check_consistency x p) as [u|] eqn:Ec; [|exact Hok].
    pose proof (no_eternal_unit sy v x Hne Ex) as Hu.
    destruct (check_ok x p u Ec Hu) as [Hunit Hsize].
    assert (Hk : key_ordinary sy (v, p) = true).
    { unfold key_ordinary. cbn [fst snd]. rewrite Ex, Hunit. cbn [andb].
      apply (gpb_ordinary (n + 2)); auto. }
    assert (Hall : forallb (key_ordinary sy) (stack s0) = true).
    { rewrite Hst. cbn [forallb]. now rewrite Hk, Hstk. }
    destruct (get_array pp x s0 v p).
    { destruct (existsb _ _); cbn [fst]; [|exact Hok]. now apply ok_add_invalid. }
    destruct (existsb _ _); [exact Hok|].
    destruct (Nat.leb _ _).
    { cbn [fst]. apply ok_add_invalid; auto.
      eapply forallb_incl; [apply spiral_marks_incl|exact Hall]. }
    assert (Hput : forall s1 a, ordinary_keys sy s1 = true ->
              ordinary_keys sy (put_in_cache x v p a s1) = true).
    { intros s1 a H1. unfold put_in_cache. destruct (v_nostore x); auto.
      apply ok_put; auto. now rewrite (norm_id sy v x p Hne Ex). }
    destruct (formula_at x p) as [[e|]|] eqn:Ef; [| |exact Hok].
    - destruct (formula_at_in x p e Ef) as [d Hin].
      apply unit_eqb_iff in Hunit.
      assert (Hg : expr_good sy (fun q => gpb n q = true) p e).
      { eapply Hgood; eauto. }
      pose proof (eval_presG sy pp rec Pok (fun q => gpb n q = true) Hrec e (v_ent x) p s0 Hg (conj Hok Hall)) as H.
      destruct (eval rec sy pp (v_ent x) s0 p e) as [s1 r]. cbn [fst] in *.
      destruct r; cbn [fst]; [apply Hput|]; apply H.
    - cbn [fst]. now apply Hput.
  Qed.

  Lemma calc_P : forall f, 2 * Z.of_nat f <= B + 2 -> forall s v p,
    gpb (2 * Z.of_nat f) p = true -> Pok s -> Pok (fst (calc f sy pp s v p)).
  Proof.
    induction f as [|f IH]; intros Hf s v p Hp HP; cbn [calc]; [exact HP|].
    destruct HP as [Hok Hstk].
    assert (Hn : 0 <= 2 * Z.of_nat f <= B) by lia.
    assert (Hp' : gpb (2 * Z.of_nat f + 2) p = true).
    { replace (2 * Z.of_nat f + 2) with (2 * Z.of_nat (S f)) by lia. exact Hp. }
    pose proof (body_P (calc f sy pp) (2 * Z.of_nat f) (push (v, p) s) v p (stack s) Hn
                  (IH ltac:(lia)) eq_refl Hp' Hok Hstk) as Hb.
    pose proof (body_calc_frame sy pp f (push (v, p) s) v p ltac:(discriminate)) as [Hs1 _].
    destruct (calc_body (calc f sy pp) sy pp (push (v, p) s) v p) as [s1 r]. cbn [fst] in *.
    cbn [push stack] in Hs1.
    unfold purge. unfold pop at 1. cbn [stack]. rewrite Hs1. cbn [tl].
    destruct (stack s) as [|k stk] eqn:Es.
    - split; [|reflexivity]. unfold ordinary_keys in Hb |- *. cbn [invalid cache pop forallb].
      apply andb_true_iff in Hb as [_ Hc]. cbn [andb]. now apply forallb_purge_fold.
    - split; [exact Hb|]. unfold pop; cbn [stack]. rewrite Hs1. exact Hstk.
  Qed.

  Lemma before_purge_ordinary f s0 v p : 2 * Z.of_nat f <= B ->
    gpb (2 * Z.of_nat f + 2) p = true -> ordinary_keys sy s0 = true -> stack s0 = [] ->
    ordinary_keys sy (before_purge f sy pp s0 v p) = true.
  Proof.
    intros Hf Hp Hok Hst. unfold before_purge.
    assert (Hn : 0 <= 2 * Z.of_nat f <= B) by lia.
    pose proof (body_P (calc f sy pp) (2 * Z.of_nat f) (push (v, p) s0) v p (stack s0) Hn
                  (calc_P f ltac:(lia)) eq_refl Hp Hok) as Hb.
    rewrite Hst in Hb. exact (Hb eq_refl).
  Qed.
End Closure.

(** Sentence 2 from conditions on the rule system, the initial cache and the request only. *)
Theorem retained_justified_closed : forall sy pp f s0 v p,
  sys_good sy (2 * Z.of_nat f) ->
  stack s0 = [] -> invalid s0 = [] -> ordinary_keys sy s0 = true ->
  gpb (2 * Z.of_nat f + 2) p = true ->
  let s1 := fst (calc (S f) sy pp s0 v p) in
  forall k a, lookup k (cache s1) = Some a -> lookup k (cache s0) <> Some a ->
  exists W : list (key * val),
    (forall k' a', lookup k' W = Some a' -> k' <> k /\ lookup k' (cache s1) = Some a') /\
    snd (calc (S f) sy pp {| cache := W; stack := []; invalid := [] |} (fst k) (snd k)) = Ok a.
Proof.
  intros sy pp f s0 v p Hsys Hst Hinv Hok Hp.
  apply retained_justified_ordinary; auto; [exact (proj1 Hsys)|].
  eapply before_purge_ordinary; eauto. lia.
Qed.
