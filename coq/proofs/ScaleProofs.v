(** Lemmas about the tax-scale model (Scale.v): basic facts shared by the C08 and C09
    proofs.

    Layout:
      1. numbers ([Qlt_bool] & co as propositions)
      2. lists ([qsum], [dot], [map2], [Forall2 Qeq])
      3. scales up to [==] on numbers ([seq]), strictly sorted scales ([sorted])
      4. SPECIFICATIONS: the mathematical definitions the calc functions are compared with
      5. the matrix formulation of [calc_marginal] is the map of a scalar recursion
      6. [marginal_rate_def]
      7. [add_bracket]: sortedness, canonical form *)
From Coq Require Import ZArith QArith Qminmax Qround List Bool Lia Lqa Permutation Setoid Morphisms Sorted.
From Verif Require Import Base Scale.
Import ListNotations.
Open Scope Q_scope.

(* ------------------------------------------------------------------------- *)
(** * 1. Numbers                                                               *)
(* ------------------------------------------------------------------------- *)

Lemma Qle_bool_false_iff : forall a b, Qle_bool a b = false <-> b < a.
Proof.
  intros a b. split; intro H.
  - apply Qnot_le_lt. intro H1. apply Qle_bool_iff in H1. congruence.
  - destruct (Qle_bool a b) eqn:E; [|reflexivity].
    apply Qle_bool_iff in E. exfalso. exact (Qlt_not_le _ _ H E).
Qed.

Lemma Qlt_bool_iff : forall a b, Qlt_bool a b = true <-> a < b.
Proof. intros. unfold Qlt_bool. rewrite negb_true_iff. apply Qle_bool_false_iff. Qed.

Lemma Qlt_bool_false_iff : forall a b, Qlt_bool a b = false <-> b <= a.
Proof. intros. unfold Qlt_bool. rewrite negb_false_iff. apply Qle_bool_iff. Qed.

Lemma Qeq_bool_false_iff : forall a b, Qeq_bool a b = false <-> ~ a == b.
Proof.
  intros a b. split; intro H.
  - intro E. apply Qeq_bool_iff in E. congruence.
  - destruct (Qeq_bool a b) eqn:E; [|reflexivity]. apply Qeq_bool_iff in E. contradiction.
Qed.

Lemma Qeq_bool_refl : forall a, Qeq_bool a a = true.
Proof. intro. apply Qeq_bool_iff. reflexivity. Qed.

Lemma Qeq_bool_sym : forall a b, Qeq_bool a b = Qeq_bool b a.
Proof.
  intros a b. destruct (Qeq_bool a b) eqn:E1, (Qeq_bool b a) eqn:E2; try reflexivity.
  - apply Qeq_bool_iff in E1. apply Qeq_bool_false_iff in E2. exfalso. apply E2. symmetry. exact E1.
  - apply Qeq_bool_iff in E2. apply Qeq_bool_false_iff in E1. exfalso. apply E1. symmetry. exact E2.
Qed.

Global Instance Qlt_bool_comp : Proper (Qeq ==> Qeq ==> eq) Qlt_bool.
Proof. intros a a' Ha b b' Hb. unfold Qlt_bool. rewrite Ha, Hb. reflexivity. Qed.

(** reflection of the three comparisons, for case analyses followed by [lra] *)
Ltac qcases :=
  repeat match goal with
  | H : Qlt_bool _ _ = true |- _ => apply Qlt_bool_iff in H
  | H : Qlt_bool _ _ = false |- _ => apply Qlt_bool_false_iff in H
  | H : Qle_bool _ _ = true |- _ => apply Qle_bool_iff in H
  | H : Qle_bool _ _ = false |- _ => apply Qle_bool_false_iff in H
  | H : Qeq_bool _ _ = true |- _ => apply Qeq_bool_iff in H
  | H : Qeq_bool _ _ = false |- _ => apply Qeq_bool_false_iff in H
  end.

Lemma Qmax_case_le : forall a b, (a <= b /\ Qmax a b == b) \/ (b <= a /\ Qmax a b == a).
Proof.
  intros a b. destruct (Qlt_le_dec a b) as [H|H].
  - left. split; [apply Qlt_le_weak; exact H|]. apply Q.max_r. apply Qlt_le_weak; exact H.
  - right. split; [exact H|]. apply Q.max_l. exact H.
Qed.

Lemma Qmin_case_le : forall a b, (a <= b /\ Qmin a b == a) \/ (b <= a /\ Qmin a b == b).
Proof.
  intros a b. destruct (Qlt_le_dec a b) as [H|H].
  - left. split; [apply Qlt_le_weak; exact H|]. apply Q.min_l. apply Qlt_le_weak; exact H.
  - right. split; [exact H|]. apply Q.min_r. exact H.
Qed.

(** [qminmax]: eliminate every [Qmax]/[Qmin] of the goal and of the hypotheses by case
    analysis, leaving linear goals for [lra]. *)
Ltac qminmax :=
  repeat match goal with
  | |- context [Qmax ?a ?b] =>
      let H := fresh "Hm" in let E := fresh "Em" in
      destruct (Qmax_case_le a b) as [[H E]|[H E]]; rewrite E in *; clear E
  | |- context [Qmin ?a ?b] =>
      let H := fresh "Hm" in let E := fresh "Em" in
      destruct (Qmin_case_le a b) as [[H E]|[H E]]; rewrite E in *; clear E
  | H0 : context [Qmax ?a ?b] |- _ =>
      let H := fresh "Hm" in let E := fresh "Em" in
      destruct (Qmax_case_le a b) as [[H E]|[H E]]; rewrite E in *; clear E
  | H0 : context [Qmin ?a ?b] |- _ =>
      let H := fresh "Hm" in let E := fresh "Em" in
      destruct (Qmin_case_le a b) as [[H E]|[H E]]; rewrite E in *; clear E
  end.

(* ------------------------------------------------------------------------- *)
(** * 2. Lists                                                                 *)
(* ------------------------------------------------------------------------- *)

Global Instance qsum_comp : Proper (Forall2 Qeq ==> Qeq) qsum.
Proof. intros l l' H. induction H; cbn [qsum]; [reflexivity|]. rewrite H, IHForall2. reflexivity. Qed.

Lemma qsum_app : forall l m, qsum (l ++ m) == qsum l + qsum m.
Proof. induction l as [|x l IH]; intro m; cbn [qsum app]; [ring|]. rewrite IH. ring. Qed.

Lemma Forall2_Qeq_refl : forall l, Forall2 Qeq l l.
Proof. induction l; constructor; [reflexivity|assumption]. Qed.

Lemma Forall2_Qeq_sym : forall l m, Forall2 Qeq l m -> Forall2 Qeq m l.
Proof. induction 1; constructor; [symmetry|]; assumption. Qed.

Lemma Forall2_Qeq_trans : forall l m n, Forall2 Qeq l m -> Forall2 Qeq m n -> Forall2 Qeq l n.
Proof.
  intros l m n H. revert n. induction H; intros n Hn; inversion Hn; subst; constructor.
  - etransitivity; eassumption.
  - auto.
Qed.

Lemma dot_nil_l : forall v, dot [] v = 0.
Proof. reflexivity. Qed.

Lemma dot_cons : forall x u y v, dot (x :: u) (y :: v) = x * y + dot u v.
Proof. reflexivity. Qed.

Lemma map2_repeat_l : forall {A B C} (f : A -> B -> C) (a : A) (l : list B) n,
  (length l <= n)%nat -> map2 f (repeat a n) l = map (f a) l.
Proof.
  intros A B C f a l. induction l as [|x l IH]; intros n Hn.
  - destruct n; reflexivity.
  - destruct n; cbn [length] in Hn; [lia|]. cbn [repeat map2 map]. rewrite IH by lia. reflexivity.
Qed.

Lemma map2_length : forall {A B C} (f : A -> B -> C) l m,
  length (map2 f l m) = Nat.min (length l) (length m).
Proof.
  intros A B C f. induction l as [|a l IH]; intros [|b m]; cbn [map2 length]; try reflexivity.
  rewrite IH. reflexivity.
Qed.

(** consecutive pairs (x_{i+1}, x_i) of a row: [combine (his row) (los row)] *)
Lemma his_los_cons2 : forall (x y : ext) l,
  combine (his (x :: y :: l)) (los (x :: y :: l)) = (y, x) :: combine (his (y :: l)) (los (y :: l)).
Proof. reflexivity. Qed.

Lemma his_los_single : forall x : ext, combine (his [x]) (los [x]) = [].
Proof. reflexivity. Qed.

(* ------------------------------------------------------------------------- *)
(** * 3. Scales up to [==]; strictly sorted scales                             *)
(* ------------------------------------------------------------------------- *)

(** Two brackets / scales that differ only by the representation of their rationals. *)
Definition beq (x y : Q * Q) : Prop := fst x == fst y /\ snd x == snd y.
Definition seq (s s' : scale) : Prop := Forall2 beq s s'.

Lemma beq_refl : forall x, beq x x.
Proof. intro. split; reflexivity. Qed.
Lemma beq_sym : forall x y, beq x y -> beq y x.
Proof. intros x y [H1 H2]. split; symmetry; assumption. Qed.
Lemma beq_trans : forall x y z, beq x y -> beq y z -> beq x z.
Proof. intros x y z [H1 H2] [H3 H4]. split; etransitivity; eassumption. Qed.

Lemma seq_refl : forall s, seq s s.
Proof. induction s; constructor; [apply beq_refl|assumption]. Qed.
Lemma seq_sym : forall s s', seq s s' -> seq s' s.
Proof. induction 1; constructor; [apply beq_sym|]; assumption. Qed.
Lemma seq_trans : forall s1 s2 s3, seq s1 s2 -> seq s2 s3 -> seq s1 s3.
Proof.
  intros s1 s2 s3 H. revert s3. induction H; intros s3 H3; inversion H3; subst; constructor.
  - eapply beq_trans; eassumption.
  - apply IHForall2. assumption.
Qed.
Global Instance seq_Equivalence : Equivalence seq.
Proof. split; [exact seq_refl|exact seq_sym|exact seq_trans]. Qed.

Lemma seq_length : forall s s', seq s s' -> length s = length s'.
Proof. induction 1; cbn [length]; congruence. Qed.

(** thresholds strictly increasing (what [add_bracket] maintains) *)
Definition sorted (s : scale) : Prop := StronglySorted Qlt (thresholds s).

Lemma sorted_nil : sorted [].
Proof. constructor. Qed.

Lemma sorted_cons_iff : forall t r s,
  sorted ((t, r) :: s) <-> sorted s /\ Forall (fun x => t < fst x) s.
Proof.
  intros t r s. unfold sorted, thresholds. cbn [map fst]. split.
  - intro H. inversion H as [|a l Hs Hf]; subst. split; [exact Hs|].
    rewrite Forall_map in Hf. exact Hf.
  - intros [Hs Hf]. constructor; [exact Hs|]. rewrite Forall_map. exact Hf.
Qed.

Lemma sorted_tail : forall x s, sorted (x :: s) -> sorted s.
Proof. intros [t r] s H. apply sorted_cons_iff in H. tauto. Qed.

Lemma sorted_cons2 : forall t r t' r' s, sorted ((t, r) :: (t', r') :: s) -> t < t'.
Proof.
  intros t r t' r' s H. apply sorted_cons_iff in H. destruct H as [_ H].
  inversion H; subst. assumption.
Qed.

(* ------------------------------------------------------------------------- *)
(** * 4. Specifications                                                        *)
(* ------------------------------------------------------------------------- *)

(** Length of [lo, hi) ∩ (-inf, b):  max(0, min(b, hi) - lo);  hi = +inf for the last
    bracket. *)
Definition overlap (lo : Q) (hi : ext) (b : Q) : Q :=
  match hi with
  | Fin h => Qmax 0 (Qmin b h - lo)
  | Inf => Qmax 0 (b - lo)
  end.

(** upper end of the bracket that precedes the brackets [rest] *)
Definition upper_end (rest : scale) : ext :=
  match rest with
  | [] => Inf
  | (t', _) :: _ => Fin t'
  end.

(** Marginal-rate tax of base [b]: sum over brackets i of rate_i * |[t_i, t_i+1) ∩ (-inf, b)| *)
Fixpoint marginal_tax (b : Q) (s : scale) : Q :=
  match s with
  | [] => 0
  | (t, r) :: rest => r * overlap t (upper_end rest) b + marginal_tax b rest
  end.

(** the thresholds the code really uses: t * (factor + eps) *)
Definition shift_thresholds (m : Q) (s : scale) : scale := map (fun tr => (m * fst tr, snd tr)) s.

(* ------------------------------------------------------------------------- *)
(** * 5. The matrix formulation is the map of the scalar one                   *)
(* ------------------------------------------------------------------------- *)

Lemma calc_marginal_cons : forall eps f rd s b bs,
  calc_marginal eps f rd s (b :: bs) = calc_marginal eps f rd s [b] ++ calc_marginal eps f rd s bs.
Proof. intros. unfold calc_marginal, thresholds1, tile_T, outer. destruct rd; reflexivity. Qed.

Lemma calc_marginal_pointwise : forall eps f rd s bases,
  calc_marginal eps f rd s bases = concat (map (fun b => calc_marginal eps f rd s [b]) bases).
Proof.
  induction bases as [|b bs IH]; [destruct rd; reflexivity|].
  rewrite calc_marginal_cons, IH. reflexivity.
Qed.

(** the row of clipped bracket parts for one base, as a recursion over the scale;
    [m] is the multiplier [1 * factor + eps] *)
Fixpoint clips (m b : Q) (s : scale) : list Q :=
  match s with
  | [] => []
  | (t, _) :: rest => clip1 b (emul m (upper_end rest)) (Fin (m * t)) :: clips m b rest
  end.

Lemma clip_row_clips : forall m b s n,
  (length s <= n)%nat ->
  clip_row (repeat b n) (map (emul m) (map Fin (thresholds s) ++ [Inf])) = clips m b s.
Proof.
  intros m b s. unfold clip_row. induction s as [|[t r] s IH]; intros n Hn.
  - cbn. destruct n; reflexivity.
  - destruct n; cbn [length] in Hn; [lia|].
    destruct s as [|[t' r'] s'].
    + cbn. destruct n; reflexivity.
    + specialize (IH n ltac:(cbn [length] in *; lia)).
      cbn [thresholds map fst app] in *. rewrite his_los_cons2.
      cbn [repeat map2 fst snd clips upper_end emul]. f_equal. exact IH.
Qed.

Lemma calc_marginal_scalar : forall eps f s b,
  calc_marginal eps f None s [b] = [dot (rates s) (clips (1 * f + eps) b s)].
Proof.
  intros. unfold calc_marginal, thresholds1, tile_T, outer. cbn [map map2].
  rewrite clip_row_clips by lia. reflexivity.
Qed.

Lemma calc_marginal_map : forall eps f s bases,
  calc_marginal eps f None s bases = map (fun b => dot (rates s) (clips (1 * f + eps) b s)) bases.
Proof.
  intros. rewrite calc_marginal_pointwise. induction bases as [|b bs IH]; [reflexivity|].
  cbn [map concat]. rewrite calc_marginal_scalar, IH. reflexivity.
Qed.

(* ------------------------------------------------------------------------- *)
(** * 6. marginal_rate_def                                                     *)
(* ------------------------------------------------------------------------- *)

Lemma clip1_overlap : forall b hi lo, clip1 b hi (Fin lo) == overlap lo hi b.
Proof. intros b [h|] lo; cbn [clip1 overlap emin]; apply Q.max_comm. Qed.

Lemma upper_end_shift : forall m s, upper_end (shift_thresholds m s) = emul m (upper_end s).
Proof. intros m [|[t r] s]; reflexivity. Qed.

Lemma rates_shift : forall m s, rates (shift_thresholds m s) = rates s.
Proof. intros. unfold rates, shift_thresholds. rewrite map_map. reflexivity. Qed.

Lemma dot_clips_marginal_tax : forall m b s,
  dot (rates s) (clips m b s) == marginal_tax b (shift_thresholds m s).
Proof.
  intros m b s. induction s as [|[t r] s IH]; [reflexivity|].
  cbn [rates map snd clips shift_thresholds marginal_tax fst].
  rewrite dot_cons. fold (rates s). fold (shift_thresholds m s).
  rewrite IH, clip1_overlap, upper_end_shift. reflexivity.
Qed.

Global Instance overlap_comp : Proper (Qeq ==> eq ==> Qeq ==> Qeq) overlap.
Proof.
  intros lo lo' Hlo hi hi' Hhi b b' Hb. subst hi'. destruct hi; cbn [overlap]; rewrite Hlo, Hb; reflexivity.
Qed.

Lemma overlap_hi_compat : forall lo h h' b, h == h' -> overlap lo (Fin h) b == overlap lo (Fin h') b.
Proof. intros. cbn [overlap]. rewrite H. reflexivity. Qed.

Lemma marginal_tax_seq : forall b s s', seq s s' -> marginal_tax b s == marginal_tax b s'.
Proof.
  intros b s s' H. induction H as [|[t r] [t' r'] s s' [Ht Hr] Hs IH]; [reflexivity|].
  cbn [fst snd] in Ht, Hr. cbn [marginal_tax]. rewrite IH, Hr, Ht.
  destruct Hs as [|[u q] [u' q'] s s' [Hu _] _]; cbn [upper_end]; [reflexivity|].
  cbn [fst] in Hu. rewrite (overlap_hi_compat _ _ _ _ Hu). reflexivity.
Qed.

Lemma shift_thresholds_compat : forall m m' s, m == m' -> seq (shift_thresholds m s) (shift_thresholds m' s).
Proof.
  intros m m' s H. induction s as [|[t r] s IH]; constructor; [|exact IH].
  split; cbn [fst snd]; [rewrite H|]; reflexivity.
Qed.

Lemma shift_thresholds_1 : forall s, seq (shift_thresholds 1 s) s.
Proof.
  induction s as [|[t r] s IH]; constructor; [|exact IH].
  split; cbn [fst snd]; [ring|reflexivity].
Qed.

(** MarginalRateTaxScale.calc without rounding: for every scale (sorted or not), factor,
    eps and vector of bases, element i of the result is
      sum_k rate_k * max(0, min(b_i, t'_k+1) - t'_k)       (last bracket: max(0, b_i - t'_k))
    with t' = t * (factor + eps). *)
Theorem calc_marginal_def : forall eps factor s bases,
  Forall2 Qeq (calc_marginal eps factor None s bases)
              (map (fun b => marginal_tax b (shift_thresholds (factor + eps) s)) bases).
Proof.
  intros. rewrite calc_marginal_map. induction bases as [|b bs IH]; constructor; [|exact IH].
  rewrite dot_clips_marginal_tax. apply marginal_tax_seq. apply shift_thresholds_compat. ring.
Qed.

Corollary calc_marginal_def_clean : forall s bases,
  Forall2 Qeq (calc_marginal 0 1 None s bases) (map (fun b => marginal_tax b s) bases).
Proof.
  intros. eapply Forall2_Qeq_trans; [apply calc_marginal_def|].
  induction bases as [|b bs IH]; constructor; [|exact IH].
  apply marginal_tax_seq. eapply seq_trans; [|apply shift_thresholds_1].
  apply shift_thresholds_compat. ring.
Qed.

(* ------------------------------------------------------------------------- *)
(** * 7. add_bracket: sortedness and canonical form                            *)
(* ------------------------------------------------------------------------- *)

(** Sum of the rates attached to threshold [x] (up to [==]) in a scale or in a list of
    [add_bracket] calls (both are lists of pairs). *)
Fixpoint lookup (x : Q) (s : scale) : Q :=
  match s with
  | [] => 0
  | (t, r) :: s' => (if Qeq_bool t x then r else 0) + lookup x s'
  end.

Lemma mem_thr_compat : forall t t' s, t == t' -> mem_thr t s = mem_thr t' s.
Proof.
  intros t t' s H. induction s as [|[u r] s IH]; [reflexivity|].
  cbn [mem_thr]. rewrite IH, H. reflexivity.
Qed.

Lemma lookup_compat : forall t t' s, t == t' -> lookup t s == lookup t' s.
Proof.
  intros t t' s H. induction s as [|[u r] s IH]; [reflexivity|].
  cbn [lookup]. rewrite IH, H. reflexivity.
Qed.

Lemma mem_thr_true_iff : forall t s, mem_thr t s = true <-> exists x, In x s /\ fst x == t.
Proof.
  intros t s. induction s as [|[u r] s IH]; cbn [mem_thr].
  - split; [discriminate|intros [x [[] _]]].
  - rewrite orb_true_iff, IH. split.
    + intros [H|[x [Hi Hx]]].
      * exists (u, r). split; [left; reflexivity|apply Qeq_bool_iff; exact H].
      * exists x. split; [right; exact Hi|exact Hx].
    + intros [x [[Hx|Hi] He]].
      * subst x. left. apply Qeq_bool_iff. exact He.
      * right. exists x. tauto.
Qed.

Lemma mem_thr_thresholds : forall t s, mem_thr t s = existsb (fun u => Qeq_bool u t) (thresholds s).
Proof. intros t s. induction s as [|[u r] s IH]; [reflexivity|]. cbn. rewrite IH. reflexivity. Qed.

(** everything in [s] lies strictly above [t] *)
Definition above (t : Q) (s : scale) : Prop := Forall (fun x => t < fst x) s.

Lemma above_weaken : forall t t' s, t' <= t -> above t s -> above t' s.
Proof.
  intros t t' s H Ha. unfold above in *. eapply Forall_impl; [|exact Ha].
  intros x Hx. cbn beta in *. eapply Qle_lt_trans; eassumption.
Qed.

Lemma above_mem_thr : forall t s, above t s -> mem_thr t s = false.
Proof.
  intros t s H. induction H as [|[u r] s Hu _ IH]; [reflexivity|].
  cbn [mem_thr fst] in *. rewrite IH, orb_false_r. apply Qeq_bool_false_iff. intro E. rewrite E in Hu.
  exact (Qlt_irrefl _ Hu).
Qed.

Lemma above_lookup : forall t s, above t s -> lookup t s == 0.
Proof.
  intros t s H. induction H as [|[u r] s Hu _ IH]; [reflexivity|].
  cbn [lookup fst] in *. rewrite IH.
  destruct (Qeq_bool u t) eqn:E; [|ring]. qcases. rewrite E in Hu. exfalso. exact (Qlt_irrefl _ Hu).
Qed.

Lemma sorted_above : forall t r s, sorted ((t, r) :: s) -> above t s.
Proof. intros t r s H. apply sorted_cons_iff in H. exact (proj2 H). Qed.

(** ** merge_first *)

Lemma merge_first_thresholds : forall t r s, thresholds (merge_first t r s) = thresholds s.
Proof.
  intros t r s. induction s as [|[u q] s IH]; [reflexivity|].
  unfold thresholds in *. cbn [merge_first]. destruct (Qeq_bool u t); cbn [map fst]; [reflexivity|].
  rewrite IH. reflexivity.
Qed.

Lemma merge_first_length : forall t r s, length (merge_first t r s) = length s.
Proof.
  intros. rewrite <- (map_length fst (merge_first t r s)), <- (map_length fst s).
  fold (thresholds (merge_first t r s)). rewrite merge_first_thresholds. reflexivity.
Qed.

Lemma merge_first_sorted : forall t r s, sorted s -> sorted (merge_first t r s).
Proof. intros. unfold sorted. rewrite merge_first_thresholds. assumption. Qed.

Lemma mem_thr_merge_first : forall x t r s, mem_thr x (merge_first t r s) = mem_thr x s.
Proof. intros. rewrite !mem_thr_thresholds, merge_first_thresholds. reflexivity. Qed.

Lemma lookup_merge_first : forall x t r s,
  mem_thr t s = true ->
  lookup x (merge_first t r s) == lookup x s + (if Qeq_bool t x then r else 0).
Proof.
  intros x t r s. induction s as [|[u q] s IH]; [discriminate|].
  cbn [mem_thr merge_first]. destruct (Qeq_bool u t) eqn:E; cbn [orb]; intro H.
  - cbn [lookup]. qcases. rewrite <- E. destruct (Qeq_bool u x); ring.
  - cbn [lookup]. rewrite (IH H). ring.
Qed.

(** ** insert_left *)

Lemma insert_left_length : forall t r s, length (insert_left t r s) = S (length s).
Proof.
  intros t r s. induction s as [|[u q] s IH]; [reflexivity|].
  cbn [insert_left]. destruct (Qlt_bool u t); cbn [length]; [rewrite IH|]; reflexivity.
Qed.

Lemma insert_left_above : forall x t r s, x < t -> above x s -> above x (insert_left t r s).
Proof.
  intros x t r s Hx H. induction H as [|[u q] s Hu Hs IH]; cbn [insert_left].
  - constructor; [exact Hx|constructor].
  - destruct (Qlt_bool u t); repeat constructor; assumption.
Qed.

Lemma insert_left_sorted : forall t r s,
  sorted s -> mem_thr t s = false -> sorted (insert_left t r s).
Proof.
  intros t r s. induction s as [|[u q] s IH]; intros Hs Hm.
  - cbn. apply sorted_cons_iff. split; [apply sorted_nil|constructor].
  - cbn [mem_thr] in Hm. apply orb_false_iff in Hm. destruct Hm as [Hut Hm].
    pose proof (sorted_above _ _ _ Hs) as Ha. pose proof (sorted_tail _ _ Hs) as Hs'.
    cbn [insert_left]. destruct (Qlt_bool u t) eqn:E; qcases.
    + apply sorted_cons_iff. split; [apply IH; assumption|].
      apply insert_left_above; assumption.
    + assert (Hlt : t < u).
      { destruct (Qlt_le_dec t u) as [H|H]; [exact H|]. exfalso. apply Hut. apply Qle_antisym; assumption. }
      apply sorted_cons_iff. split; [exact Hs|].
      constructor; [exact Hlt|]. apply above_weaken with u; [apply Qlt_le_weak; exact Hlt|exact Ha].
Qed.

Lemma mem_thr_insert_left : forall x t r s,
  mem_thr x (insert_left t r s) = Qeq_bool t x || mem_thr x s.
Proof.
  intros x t r s. induction s as [|[u q] s IH]; [reflexivity|].
  cbn [insert_left]. destruct (Qlt_bool u t); cbn [mem_thr]; [|reflexivity].
  rewrite IH. destruct (Qeq_bool u x), (Qeq_bool t x); reflexivity.
Qed.

Lemma lookup_insert_left : forall x t r s,
  lookup x (insert_left t r s) == lookup x s + (if Qeq_bool t x then r else 0).
Proof.
  intros x t r s. induction s as [|[u q] s IH]; [cbn; ring|].
  cbn [insert_left]. destruct (Qlt_bool u t); cbn [lookup]; [rewrite IH|]; ring.
Qed.

(** ** add_bracket *)

Lemma add_bracket_sorted : forall t r s, sorted s -> sorted (add_bracket t r s).
Proof.
  intros t r s H. unfold add_bracket. destruct (mem_thr t s) eqn:E.
  - apply merge_first_sorted. exact H.
  - apply insert_left_sorted; assumption.
Qed.

Lemma mem_thr_add_bracket : forall x t r s,
  mem_thr x (add_bracket t r s) = Qeq_bool t x || mem_thr x s.
Proof.
  intros x t r s. unfold add_bracket. destruct (mem_thr t s) eqn:E.
  - rewrite mem_thr_merge_first. destruct (Qeq_bool t x) eqn:Etx; [|reflexivity].
    qcases. rewrite <- (mem_thr_compat _ _ s Etx). rewrite E. reflexivity.
  - apply mem_thr_insert_left.
Qed.

Lemma lookup_add_bracket : forall x t r s,
  lookup x (add_bracket t r s) == lookup x s + (if Qeq_bool t x then r else 0).
Proof.
  intros x t r s. unfold add_bracket. destruct (mem_thr t s) eqn:E.
  - apply lookup_merge_first. exact E.
  - apply lookup_insert_left.
Qed.

Lemma add_bracket_length : forall t r s,
  length (add_bracket t r s) = if mem_thr t s then length s else S (length s).
Proof.
  intros. unfold add_bracket. destruct (mem_thr t s); [apply merge_first_length|apply insert_left_length].
Qed.

(** ** a sorted scale is determined by its thresholds and its [lookup] function *)

Lemma sorted_ext : forall s1 s2,
  sorted s1 -> sorted s2 ->
  (forall x, mem_thr x s1 = mem_thr x s2) ->
  (forall x, lookup x s1 == lookup x s2) ->
  seq s1 s2.
Proof.
  induction s1 as [|[t1 r1] s1 IH]; intros [|[t2 r2] s2] H1 H2 Hm Hl.
  - constructor.
  - specialize (Hm t2). cbn [mem_thr] in Hm. rewrite Qeq_bool_refl in Hm. discriminate.
  - specialize (Hm t1). cbn [mem_thr] in Hm. rewrite Qeq_bool_refl in Hm. discriminate.
  - pose proof (sorted_above _ _ _ H1) as A1. pose proof (sorted_above _ _ _ H2) as A2.
    assert (Et : t1 == t2).
    { destruct (Q_dec t1 t2) as [[H|H]|H]; [| |exact H]; exfalso.
      - pose proof (Hm t1) as Hm1. cbn [mem_thr] in Hm1. rewrite Qeq_bool_refl in Hm1. cbn [orb] in Hm1.
        rewrite (above_mem_thr t1 s2) in Hm1 by (apply above_weaken with t2; [apply Qlt_le_weak|]; assumption).
        rewrite orb_false_r in Hm1. symmetry in Hm1. qcases. rewrite Hm1 in H. exact (Qlt_irrefl _ H).
      - pose proof (Hm t2) as Hm1. cbn [mem_thr] in Hm1. rewrite Qeq_bool_refl in Hm1. cbn [orb] in Hm1.
        rewrite (above_mem_thr t2 s1) in Hm1 by (apply above_weaken with t1; [apply Qlt_le_weak|]; assumption).
        rewrite orb_false_r in Hm1. qcases. rewrite Hm1 in H. exact (Qlt_irrefl _ H). }
    assert (A2' : above t1 s2) by (apply above_weaken with t2; [rewrite Et; apply Qle_refl|exact A2]).
    constructor.
    + split; cbn [fst snd]; [exact Et|].
      pose proof (Hl t1) as Hl1. cbn [lookup] in Hl1.
      rewrite Qeq_bool_refl, (above_lookup _ _ A1), (above_lookup _ _ A2') in Hl1.
      assert (E : Qeq_bool t2 t1 = true) by (apply Qeq_bool_iff; symmetry; exact Et).
      rewrite E in Hl1. lra.
    + apply IH; [eapply sorted_tail; eassumption|eapply sorted_tail; eassumption| |].
      * intro x. destruct (Qlt_le_dec t1 x) as [Hx|Hx].
        -- pose proof (Hm x) as Hmx. cbn [mem_thr] in Hmx.
           assert (E1 : Qeq_bool t1 x = false) by (apply Qeq_bool_false_iff; intro E; lra).
           assert (E2 : Qeq_bool t2 x = false) by (apply Qeq_bool_false_iff; intro E; lra).
           rewrite E1, E2 in Hmx. exact Hmx.
        -- rewrite (above_mem_thr x s1), (above_mem_thr x s2) by (eapply above_weaken; eassumption). reflexivity.
      * intro x. destruct (Qlt_le_dec t1 x) as [Hx|Hx].
        -- pose proof (Hl x) as Hlx. cbn [lookup] in Hlx.
           assert (E1 : Qeq_bool t1 x = false) by (apply Qeq_bool_false_iff; intro E; lra).
           assert (E2 : Qeq_bool t2 x = false) by (apply Qeq_bool_false_iff; intro E; lra).
           rewrite E1, E2 in Hlx. lra.
        -- rewrite (above_lookup x s1), (above_lookup x s2) by (eapply above_weaken; eassumption). reflexivity.
Qed.

(** ** build: canonical form *)

Definition add_call (s : scale) (tr : Q * Q) : scale := add_bracket (fst tr) (snd tr) s.

Lemma build_fold : forall calls, build calls = fold_left add_call calls [].
Proof. reflexivity. Qed.

Lemma fold_add_sorted : forall calls s, sorted s -> sorted (fold_left add_call calls s).
Proof.
  induction calls as [|[t r] calls IH]; intros s H; [exact H|].
  cbn [fold_left]. apply IH. apply add_bracket_sorted. exact H.
Qed.

Lemma fold_add_mem_thr : forall x calls s,
  mem_thr x (fold_left add_call calls s) = mem_thr x s || mem_thr x calls.
Proof.
  intros x. induction calls as [|[t r] calls IH]; intro s; [cbn; rewrite orb_false_r; reflexivity|].
  cbn [fold_left]. rewrite IH. unfold add_call. cbn [fst snd mem_thr]. rewrite mem_thr_add_bracket.
  destruct (Qeq_bool t x), (mem_thr x s); reflexivity.
Qed.

Lemma fold_add_lookup : forall x calls s,
  lookup x (fold_left add_call calls s) == lookup x s + lookup x calls.
Proof.
  intros x. induction calls as [|[t r] calls IH]; intro s; [cbn; ring|].
  cbn [fold_left]. rewrite IH. unfold add_call. cbn [fst snd lookup]. rewrite lookup_add_bracket. ring.
Qed.

Lemma build_sorted : forall calls, sorted (build calls).
Proof. intro. rewrite build_fold. apply fold_add_sorted. apply sorted_nil. Qed.

Lemma build_mem_thr : forall x calls, mem_thr x (build calls) = mem_thr x calls.
Proof. intros. rewrite build_fold, fold_add_mem_thr. reflexivity. Qed.

Lemma build_lookup : forall x calls, lookup x (build calls) == lookup x calls.
Proof. intros. rewrite build_fold, fold_add_lookup. cbn [lookup]. ring. Qed.

Lemma lookup_sorted_In : forall t r s, sorted s -> In (t, r) s -> lookup t s == r.
Proof.
  intros t r s. induction s as [|[u q] s IH]; intros Hs Hi; [destruct Hi|]. destruct Hi as [Hi|Hi].
  - inversion Hi; subst. cbn [lookup]. rewrite Qeq_bool_refl, (above_lookup _ _ (sorted_above _ _ _ Hs)). ring.
  - pose proof (sorted_above _ _ _ Hs) as Ha. cbn [lookup].
    assert (Hlt : u < t). { unfold above in Ha. rewrite Forall_forall in Ha. exact (Ha _ Hi). }
    assert (E : Qeq_bool u t = false) by (apply Qeq_bool_false_iff; intro E; rewrite E in Hlt; exact (Qlt_irrefl _ Hlt)).
    rewrite E, (IH (sorted_tail _ _ Hs) Hi). ring.
Qed.

Lemma mem_thr_perm : forall x c1 c2, Permutation c1 c2 -> mem_thr x c1 = mem_thr x c2.
Proof.
  intros x c1 c2 H. induction H as [|[t r] l l' _ IH|[t r] [t' r'] l|l l' l'' _ IH1 _ IH2]; cbn [mem_thr].
  - reflexivity.
  - rewrite IH. reflexivity.
  - destruct (Qeq_bool t x), (Qeq_bool t' x); reflexivity.
  - congruence.
Qed.

Lemma lookup_perm : forall x c1 c2, Permutation c1 c2 -> lookup x c1 == lookup x c2.
Proof.
  intros x c1 c2 H. induction H as [|[t r] l l' _ IH|[t r] [t' r'] l|l l' l'' _ IH1 _ IH2]; cbn [lookup].
  - reflexivity.
  - rewrite IH. reflexivity.
  - ring.
  - rewrite IH1. exact IH2.
Qed.

(** Any permutation of the same add_bracket calls builds the same scale (up to the
    representation of the rationals: rates are summed in a different order). *)
Theorem build_perm : forall c1 c2, Permutation c1 c2 -> seq (build c1) (build c2).
Proof.
  intros c1 c2 H. apply sorted_ext; try apply build_sorted.
  - intro x. rewrite !build_mem_thr. apply mem_thr_perm. exact H.
  - intro x. rewrite !build_lookup. apply lookup_perm. exact H.
Qed.

Lemma build_canonical_form : forall calls,
  sorted (build calls)
  /\ (forall t, mem_thr t (build calls) = mem_thr t calls)
  /\ (forall t r, In (t, r) (build calls) -> r == lookup t calls).
Proof.
  intro calls. split; [apply build_sorted|]. split; [intro; apply build_mem_thr|].
  intros t r Hi. rewrite <- build_lookup. symmetry. apply lookup_sorted_In; [apply build_sorted|exact Hi].
Qed.
