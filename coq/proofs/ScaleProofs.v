(** Lemmas about the tax-scale model (Scale.v): basic facts shared by the C08 and C09
    proofs. *)
From Coq Require Import ZArith QArith Qminmax Qround List Bool Lia Lra Permutation Setoid Morphisms.
From Verif Require Import Base Scale.
Import ListNotations.
Open Scope Q_scope.

(* ------------------------------------------------------------------------- *)
(** * The matrix formulation is the map of the scalar one                      *)
(* ------------------------------------------------------------------------- *)

Lemma calc_marginal_cons : forall eps f rd s b bs,
  calc_marginal eps f rd s (b :: bs) = calc_marginal eps f rd s [b] ++ calc_marginal eps f rd s bs.
Proof. intros. unfold calc_marginal, thresholds1, tile_T, outer. destruct rd; reflexivity. Qed.

Lemma calc_marginal_pointwise : forall eps f rd s bases,
  calc_marginal eps f rd s bases = concat (map (fun b => calc_marginal eps f rd s [b]) bases).
Proof.
  induction bases as [|b bs IH]; [destruct rd; reflexivity|].
  rewrite calc_marginal_cons, IH. reflexivity.
Qed.
