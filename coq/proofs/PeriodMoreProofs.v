(** C04, second part: set-of-days forms of containment / intersection / tiling,
    sizes per unit, offsets and their inverses, named reference periods. *)
From Coq Require Import ZArith List Bool Lia ZifyBool.
From Verif Require Import Base Cal Tables Period PeriodSpec CalProofs PeriodProofs.
Import ListNotations.
Ltac Zify.zify_post_hook ::= Z.to_euclidean_division_equations.
Open Scope Z_scope.

(** * Denotation *)

Theorem end_excl_offset p : p_unit p <> Eternity ->
  instant_offset (p_start p) (p_size p) (p_unit p) = Ok (end_excl p).
Proof. destruct p as [[u s] n]. destruct u; cbn; congruence. Qed.

Theorem wf_nonempty p : wf p -> day_in p (first_ord p).
Proof. intros H. destruct (days_spec p H). unfold day_in. lia. Qed.

Theorem stop_in p : wf p -> day_in p (ord (stop p)) /\ ~ day_in p (ord (stop p) + 1).
Proof.
  intros H. destruct (stop_spec p H) as [_ E]. destruct (days_spec p H). unfold day_in. lia.
Qed.

Theorem stop_last_day p : wf p ->
  day_in p (first_ord p) /\ day_in p (ord (stop p)) /\ ~ day_in p (ord (stop p) + 1).
Proof. intros H. exact (conj (wf_nonempty p H) (stop_in p H)). Qed.

(** * Containment as inclusion of day sets *)

Theorem contains_subset p q : wf p -> wf q ->
  (contains p q = true <-> forall d, day_in q d -> day_in p d).
Proof.
  intros Hp Hq. rewrite (contains_spec p q Hp Hq).
  destruct (days_spec q Hq) as [Hd Hd1]. unfold day_in. split.
  - intros [H1 H2] d Hd'. lia.
  - intros H. pose proof (H (first_ord q) ltac:(lia)). pose proof (H (last_ord q) ltac:(lia)). lia.
Qed.

(** * Intersection as intersection of day sets *)

Theorem intersection_days p a b :
  wf p -> opt_valid a -> opt_valid b ->
  opt_ord a (first_ord p) <= opt_ord b (last_ord p) ->
  let in_range d := opt_ord a (first_ord p) <= d <= opt_ord b (last_ord p) in
  match intersection p a b with
  | None => forall d, ~ (day_in p d /\ in_range d)
  | Some r => wf r /\ (exists d, day_in r d) /\ forall d, day_in r d <-> (day_in p d /\ in_range d)
  end.
Proof.
  intros Hwf Va Vb Hab in_range. pose proof (intersection_spec p a b Hwf Va Vb Hab) as H.
  cbv zeta in H. subst in_range. cbv beta.
  destruct (intersection p a b) as [r|].
  - destruct H as [Hr [H1 [H2 H3]]]. split; [assumption|]. split.
    + exists (first_ord r). apply wf_nonempty. assumption.
    + intros d. unfold day_in. lia.
  - intros d. unfold day_in. lia.
Qed.

(** * Sub-periods partition the period *)

Lemma tiles_consecutive l : forall lo hi, tiles l lo hi ->
  forall i q q', nth_error l i = Some q -> nth_error l (S i) = Some q' ->
  last_ord q + 1 = first_ord q'.
Proof.
  induction l as [|a l IH]; intros lo hi T i q q' Hi Hj; [destruct i; discriminate|].
  cbn [tiles] in T. destruct T as [T1 [T2 T3]]. destruct i as [|i].
  - cbn in Hi, Hj. inversion Hi; subst a. destruct l as [|b l]; [discriminate|].
    cbn in Hj. inversion Hj; subst b. cbn [tiles] in T3. lia.
  - cbn in Hi. change (nth_error l (S i) = Some q') in Hj. apply (IH _ _ T3 i q q' Hi Hj).
Qed.

Theorem subperiods_partition p u :
  wf p -> same_family (p_unit p) u = true -> aligned u (p_start p) ->
  exists l, subperiods p u = Ok l
    /\ Z.of_nat (length l) = count_in p u
    /\ Forall (fun q => p_unit q = u /\ p_size q = 1 /\ wf q) l
    /\ (forall d, day_in p d <-> exists q, In q l /\ day_in q d)
    /\ (forall i j q q', (i < j)%nat -> nth_error l i = Some q -> nth_error l j = Some q' ->
          last_ord q + 1 <= first_ord q' /\ (S i = j -> last_ord q + 1 = first_ord q')).
Proof.
  intros Hwf Hfam Hal. destruct (subperiods_tile p u Hwf Hfam Hal) as [l [E [T [F L]]]].
  exists l. split; [assumption|]. split; [assumption|]. split; [assumption|]. split.
  - intros d. unfold day_in. apply tiles_cover. assumption.
  - intros i j q q' Hij Hi Hj. split.
    + pose proof (tiles_disjoint l _ _ T i j q q' Hij Hi Hj). lia.
    + intros <-. apply (tiles_consecutive l _ _ T i q q' Hi Hj).
Qed.

(** * Sizes expressed in a unit of the same family *)

Theorem size_in_spec p u : wf p -> same_family (p_unit p) u = true ->
  size_in u p = Ok (count_in p u).
Proof.
  intros Hwf Hfam.
  assert (Hdays : (u = Day -> size_in u p = Ok (days p))
                  /\ (u = Weekday -> size_in u p = Ok (days p))).
  { split; intros ->; cbn [size_in]; [apply size_in_days_spec; assumption|].
    apply size_in_weekdays_spec; [assumption|]. destruct (p_unit p); try discriminate; auto. }
  destruct Hdays as [HD HW].
  destruct u; try (destruct (p_unit p); discriminate).
  - rewrite HW by reflexivity. unfold count_in. destruct (p_unit p); reflexivity.
  - destruct p as [[pu s] n]. unfold p_unit in Hfam; cbn [fst snd] in Hfam. destruct pu; try discriminate. reflexivity.
  - rewrite HD by reflexivity. unfold count_in. destruct (p_unit p); reflexivity.
  - destruct p as [[pu s] n]. unfold p_unit in Hfam; cbn [fst snd] in Hfam.
    destruct pu; try discriminate; unfold size_in, size_in_months, count_in, p_unit, p_size; cbn [fst snd];
      f_equal; lia.
  - destruct p as [[pu s] n]. unfold p_unit in Hfam; cbn [fst snd] in Hfam. destruct pu; try discriminate. reflexivity.
Qed.

(** * Offsets and their inverses *)

Theorem offset_inverse_days p n u :
  valid (p_start p) ->
  let eu := eff_unit p u in
  eu = Day \/ eu = Weekday \/ eu = Week ->
  1 <= ord (p_start p) + days_of eu n ->
  exists q, offset p n u = Ok q
    /\ p_unit q = p_unit p /\ p_size q = p_size p
    /\ valid (p_start q) /\ ord (p_start q) = ord (p_start p) + days_of eu n
    /\ offset q (- n) u = Ok p.
Proof.
  destruct p as [[pu s] sz]. cbv zeta. set (eu := eff_unit _ u).
  unfold p_start, p_unit, p_size; cbn [fst snd]. intros Hv Heu Hpos.
  assert (Hoff : forall c k, instant_offset c k eu = Ok (add_days c (days_of eu k))).
  { intros c k. destruct Heu as [E|[E|E]]; rewrite E; reflexivity. }
  destruct (add_days_ord s (days_of eu n) Hv Hpos) as [V E].
  exists (pu, add_days s (days_of eu n), sz). unfold offset. change (match u with Some u' => u' | None => pu end) with eu. rewrite !Hoff. cbn [bind fst snd].
  repeat split; try assumption.
  do 3 f_equal. unfold add_days at 1. rewrite E.
  replace (ord s + days_of eu n + days_of eu (- n)) with (ord s)
    by (destruct Heu as [E'|[E'|E']]; rewrite E'; cbn [days_of]; lia).
  apply of_ord_ord. assumption.
Qed.

Lemma add_months_back y m d k : 1 <= m <= 12 -> 1 <= d <= dim y m ->
  (add_months (add_months (y, m, d) k) (- k) = (y, m, d) <-> no_clip (y, m, d) k).
Proof.
  intros Hm Hd. unfold add_months, no_clip. cbv zeta.
  set (t := y * 12 + (m - 1) + k).
  replace ((t / 12 * 12 + (t mod 12 + 1 - 1) + - k) / 12) with y by (subst t; lia).
  replace ((t / 12 * 12 + (t mod 12 + 1 - 1) + - k) mod 12 + 1) with m by (subst t; lia).
  set (D' := dim (t / 12) (t mod 12 + 1)). set (D := dim y m) in *.
  split.
  - intros H. inversion H. lia.
  - intros H. f_equal. lia.
Qed.

Lemma ok_period_inj (pu : unit_t) (a b : date) (sz : Z) :
  Ok (A:=period) (pu, a, sz) = Ok (pu, b, sz) <-> a = b.
Proof. split; [intros H; inversion H; reflexivity | intros ->; reflexivity]. Qed.

Theorem offset_inverse_months p n u :
  valid (p_start p) ->
  let eu := eff_unit p u in
  eu = Month \/ eu = Year ->
  exists q, offset p n u = Ok q
    /\ p_unit q = p_unit p /\ p_size q = p_size p
    /\ p_start q = add_months (p_start p) (months_of eu n)
    /\ (offset q (- n) u = Ok p <-> no_clip (p_start p) (months_of eu n)).
Proof.
  destruct p as [[pu [[y m] d]] sz]. cbv zeta. set (eu := eff_unit _ u).
  unfold p_start, p_unit, p_size; cbn [fst snd]. intros Hv Heu. apply valid_iff in Hv. rewrite <- dim_dim' in Hv.
  assert (Hoff : forall c k, instant_offset c k eu = Ok (add_months c (months_of eu k))).
  { intros c k. destruct Heu as [E|E]; rewrite E; reflexivity. }
  exists (pu, add_months (y, m, d) (months_of eu n), sz). unfold offset. change (match u with Some u' => u' | None => pu end) with eu. rewrite !Hoff. cbn [bind fst snd].
  repeat split.
  - intros H. apply add_months_back; [lia|lia|].
    replace (- months_of eu n) with (months_of eu (- n))
      by (destruct Heu as [E'|E']; rewrite E'; cbn [months_of]; lia).
    apply ok_period_inj in H. exact H.
  - intros H. apply add_months_back in H; [|lia|lia].
    replace (months_of eu (- n)) with (- months_of eu n)
      by (destruct Heu as [E'|E']; rewrite E'; cbn [months_of]; lia).
    apply ok_period_inj. exact H.
Qed.

(** * Named reference periods *)

Theorem this_year_spec u y m d n : this_year (u, (y, m, d), n) = Ok (Year, (y, 1, 1), 1).
Proof. reflexivity. Qed.

Theorem first_month_spec u y m d n : first_month (u, (y, m, d), n) = Ok (Month, (y, m, 1), 1).
Proof. reflexivity. Qed.

Theorem first_day_spec u s n : first_day (u, s, n) = Ok (Day, s, 1).
Proof. reflexivity. Qed.

Theorem first_weekday_spec u s n : first_weekday (u, s, n) = Ok (Weekday, s, 1).
Proof. reflexivity. Qed.

Lemma add_months_jan1 y k : add_months (y, 1, 1) (12 * k) = (y + k, 1, 1).
Proof.
  rewrite add_months_small by lia.
  replace ((y * 12 + (1 - 1) + 12 * k) / 12) with (y + k) by lia.
  replace ((y * 12 + (1 - 1) + 12 * k) mod 12 + 1) with 1 by lia. reflexivity.
Qed.

Theorem last_year_spec u y m d n : last_year (u, (y, m, d), n) = Ok (Year, (y - 1, 1, 1), 1).
Proof.
  unfold last_year, this_year, first_of_or_fail, instant_first_of, offset, instant_offset, p_start, add_years;
    cbn [fst snd bind]. rewrite add_months_jan1. reflexivity.
Qed.

Theorem n_2_spec u y m d n : n_2 (u, (y, m, d), n) = Ok (Year, (y - 2, 1, 1), 1).
Proof.
  unfold n_2, this_year, first_of_or_fail, instant_first_of, offset, instant_offset, p_start, add_years;
    cbn [fst snd bind]. rewrite add_months_jan1. reflexivity.
Qed.

Theorem last_month_spec u y m d n : 1 <= m <= 12 ->
  last_month (u, (y, m, d), n)
  = Ok (Month, (if m =? 1 then (y - 1, 12, 1) else (y, m - 1, 1)), 1).
Proof.
  intros Hm.
  unfold last_month, first_month, first_of_or_fail, instant_first_of, offset, instant_offset, p_start;
    cbn [fst snd bind]. rewrite add_months_small by lia.
  assert (E : forall a b c a' b' c' : Z, a = a' -> b = b' -> c = c' ->
            Ok (A:=period) (Month, (a, b, c), 1) = Ok (Month, (a', b', c'), 1))
    by (intros; subst; reflexivity).
  destruct (Z.eqb_spec m 1) as [->|Hne]; apply E; lia.
Qed.

(** the three whole months that end the day before [first_month] starts *)
Theorem last_3_months_spec u y m d n : 1 <= m <= 12 ->
  exists s, last_3_months (u, (y, m, d), n) = Ok (Month, s, 3)
    /\ s = add_months (y, m, 1) (-3)
    /\ end_excl (Month, s, 3) = (y, m, 1).
Proof.
  intros Hm. exists (add_months (y, m, 1) (-3)). split; [reflexivity|]. split; [reflexivity|].
  cbn [end_excl]. rewrite add_months_add by lia. rewrite add_months_small by lia.
  match goal with |- (?a, ?b, ?c) = (?a', ?b', ?c') =>
    replace a with a' by lia; replace b with b' by lia; reflexivity end.
Qed.

Theorem first_week_spec p : valid (p_start p) ->
  exists mo, first_week p = Ok (Week, mo, 1) /\ mo = start_of_week (p_start p)
    /\ valid mo /\ isoweekday mo = 1 /\ ord mo <= ord (p_start p) < ord mo + 7.
Proof.
  intros Hv. exists (start_of_week (p_start p)).
  destruct (start_of_week_spec _ Hv) as [V [W R]].
  split; [|auto]. unfold first_week, first_of_or_fail, instant_first_of.
  destruct (p_start p) as [[y m] d]. reflexivity.
Qed.

(** last_week, last_fortnight, last_2_weeks, last_26_weeks, last_52_weeks:
    [sz] weeks starting [k] weeks before the Monday of the start's week *)
Definition last_weeks_table : list ((period -> res period) * Z * Z) :=
  [(last_week, 1, 1); (last_fortnight, 1, 2); (last_2_weeks, 2, 2);
   (last_26_weeks, 26, 26); (last_52_weeks, 52, 52)].

Lemma week_back p mo sz k : first_week p = Ok (Week, mo, 1) ->
  bind (first_week p) (fun q => offset (Week, p_start q, sz) (- k) None)
  = Ok (Week, add_days mo (7 * - k), sz).
Proof. intros ->. reflexivity. Qed.

Lemma week_back1 p mo k : first_week p = Ok (Week, mo, 1) ->
  bind (first_week p) (fun q => offset q (- k) None) = Ok (Week, add_days mo (7 * - k), 1).
Proof. intros ->. reflexivity. Qed.

Lemma last_weeks_eq p f sz k mo : In (f, sz, k) last_weeks_table ->
  first_week p = Ok (Week, mo, 1) -> f p = Ok (Week, add_days mo (7 * - k), sz).
Proof.
  intros Hin Hfw. unfold last_weeks_table in Hin. cbn [In] in Hin.
  destruct Hin as [H|[H|[H|[H|[H|[]]]]]]; inversion H; subst f sz k.
  - apply (week_back1 p mo 1 Hfw).
  - apply (week_back p mo 1 2 Hfw).
  - apply (week_back p mo 2 2 Hfw).
  - apply (week_back p mo 26 26 Hfw).
  - apply (week_back p mo 52 52 Hfw).
Qed.

Theorem last_weeks_spec p f sz k : valid (p_start p) -> In (f, sz, k) last_weeks_table ->
  1 <= ord (start_of_week (p_start p)) - 7 * k ->
  exists mo, f p = Ok (Week, mo, sz)
    /\ valid mo /\ isoweekday mo = 1 /\ ord mo = ord (start_of_week (p_start p)) - 7 * k.
Proof.
  intros Hv Hin Hpos. destruct (start_of_week_spec _ Hv) as [V [W R]].
  destruct (first_week_spec p Hv) as [mo [Hfw [Emo _]]]. rewrite <- Emo in *. clear Emo.
  destruct (add_days_ord mo (7 * - k) V ltac:(lia)) as [V' E'].
  exists (add_days mo (7 * - k)).
  split; [apply last_weeks_eq; assumption|]. split; [assumption|]. split; [|lia].
  revert W. unfold isoweekday. rewrite E'. lia.
Qed.

(** closes the concrete non-vacuity examples of props/C04.v by evaluation *)
Ltac c04_example :=
  cbv zeta; unfold wf;
  repeat match goal with |- _ /\ _ => split end;
  vm_compute;
  first [ reflexivity | discriminate | exact I
        | let H := fresh in intros H; apply H; reflexivity ].
