(** Proofs about the text forms of periods and instants [PeriodStr]. *)
From Coq Require Import ZArith List Bool Ascii String Lia ZifyBool Wf_Z.
From Verif Require Import Base Cal Tables Period PeriodStr PeriodStrSpec CalProofs.
Ltac Zify.zify_post_hook ::= Z.to_euclidean_division_equations.
Import ListNotations.
Open Scope string_scope.
Open Scope Z_scope.

(** * Characters *)

Lemma digit_cases k : 0 <= k <= 9 ->
  k = 0 \/ k = 1 \/ k = 2 \/ k = 3 \/ k = 4 \/ k = 5 \/ k = 6 \/ k = 7 \/ k = 8 \/ k = 9.
Proof. lia. Qed.

Ltac digit_split k H :=
  destruct (digit_cases k H) as [?|[?|[?|[?|[?|[?|[?|[?|[?|?]]]]]]]]]; subst k.

Lemma digit_val_char k : 0 <= k <= 9 -> digit_val (digit_char k) = Some k.
Proof. intros H. digit_split k H; reflexivity. Qed.

Lemma is_digit_char k : 0 <= k <= 9 -> is_digit (digit_char k) = true.
Proof. intros H. unfold is_digit. rewrite digit_val_char by assumption. reflexivity. Qed.

Lemma dv_char k : 0 <= k <= 9 -> dv (digit_char k) = k.
Proof. intros H. unfold dv. rewrite digit_val_char by assumption. reflexivity. Qed.

(* a digit is none of the other characters the grammar uses *)
Definition sepc (c : ascii) : bool :=
  ((c =? ":") || (c =? "-") || (c =? "W") || (c =? "_") || (c =? "+") || (c =? "e") || (c =? "E")
   || is_space c)%char.

Lemma digit_not_sep c : is_digit c = true -> sepc c = false.
Proof.
  destruct c as [[] [] [] [] [] [] [] []]; try reflexivity; intros H; discriminate H.
Qed.

Lemma digit_sep_facts c : is_digit c = true ->
  (c =? ":")%char = false /\ (c =? "-")%char = false /\ (c =? "W")%char = false /\
  (c =? "_")%char = false /\ (c =? "+")%char = false /\ is_space c = false /\
  (lower_char c =? "e")%char = false.
Proof.
  destruct c as [[] [] [] [] [] [] [] []]; try (intros H; discriminate H); intros _;
    repeat split; reflexivity.
Qed.

Lemma digit_val_range c k : digit_val c = Some k -> 0 <= k <= 9.
Proof.
  unfold digit_val.
  repeat match goal with |- context [if ?b then _ else _] => destruct b end;
    intros H; inversion H; lia.
Qed.

Lemma lower_char_colon c : (lower_char c =? ":")%char = (c =? ":")%char.
Proof. destruct c as [[] [] [] [] [] [] [] []]; reflexivity. Qed.

(** * Strings *)

Lemma append_nil_r s : s ++ "" = s.
Proof. induction s; cbn; congruence. Qed.

Lemma append_assoc a b c : (a ++ b) ++ c = a ++ b ++ c.
Proof. induction a; cbn; congruence. Qed.

Lemma has_char_app c a b : has_char c (a ++ b) = has_char c a || has_char c b.
Proof. induction a; cbn; [reflexivity|]. rewrite IHa. apply orb_assoc. Qed.

Lemma split_none c s : has_char c s = false -> split c s = [s].
Proof.
  induction s as [|a r IH]; cbn; [reflexivity|]. intros H.
  apply orb_false_elim in H. destruct H as [H1 H2]. rewrite H1, (IH H2). reflexivity.
Qed.

Lemma split_app_sep c a b : has_char c a = false -> split c (a ++ String c b) = a :: split c b.
Proof.
  induction a as [|x r IH]; cbn.
  - intros _. rewrite Ascii.eqb_refl. reflexivity.
  - intros H. apply orb_false_elim in H. destruct H as [H1 H2]. rewrite H1, (IH H2). reflexivity.
Qed.

Lemma has_char_lower s : has_char ":" (lower s) = has_char ":" s.
Proof. induction s; cbn; [reflexivity|]. rewrite lower_char_colon, IHs. reflexivity. Qed.

Lemma not_eternity_colon s : has_char ":" s = true -> (lower s =? "eternity")%string = false.
Proof.
  intros H. destruct (lower s =? "eternity")%string eqn:E; [|reflexivity].
  apply String.eqb_eq in E. rewrite <- has_char_lower, E in H. discriminate H.
Qed.

Lemma not_eternity_digit c r : is_digit c = true -> (lower (String c r) =? "eternity")%string = false.
Proof.
  intros H. destruct (digit_sep_facts c H) as (_ & _ & _ & _ & _ & _ & He).
  cbn [lower]. change "eternity" with (String "e" "ternity"). cbn [String.eqb]. rewrite He. reflexivity.
Qed.

(** * Decimal printing *)

Lemma show_digits_app fuel : forall n acc, show_digits fuel n acc = show_digits fuel n "" ++ acc.
Proof.
  induction fuel as [|f IH]; intros n acc; cbn [show_digits]; [reflexivity|].
  destruct (n <? 10); [reflexivity|].
  rewrite IH. rewrite (IH _ (String _ "")). rewrite append_assoc. reflexivity.
Qed.

Lemma show_digits_fuel f1 : forall f2 n acc,
  0 <= n -> n < 2 ^ (Z.of_nat f1 + 1) -> n < 2 ^ (Z.of_nat f2 + 1) ->
  show_digits f1 n acc = show_digits f2 n acc.
Proof.
  induction f1 as [|f1 IH]; intros f2 n acc H0 H1 H2.
  - cbn in H1. assert (n <? 10 = true) as E by lia.
    destruct f2; cbn [show_digits]; [reflexivity|]. rewrite E. reflexivity.
  - cbn [show_digits]. destruct (n <? 10) eqn:E.
    + destruct f2; cbn [show_digits]; [reflexivity|]. rewrite E. reflexivity.
    + destruct f2 as [|f2].
      * cbn in H2. lia.
      * cbn [show_digits]. rewrite E.
        replace (Z.of_nat (S f1) + 1) with (Z.succ (Z.of_nat f1 + 1)) in H1 by lia.
        replace (Z.of_nat (S f2) + 1) with (Z.succ (Z.of_nat f2 + 1)) in H2 by lia.
        rewrite Z.pow_succ_r in H1, H2 by lia.
        apply IH; lia.
Qed.

Lemma show_nat_small n : 0 <= n < 10 -> show_nat n = String (digit_char n) "".
Proof.
  intros H. unfold show_nat. assert (n mod 10 = n) as E by lia.
  destruct (Z.to_nat (Z.log2 n)); cbn [show_digits]; rewrite E; [reflexivity|].
  assert (n <? 10 = true) as -> by lia. reflexivity.
Qed.

Lemma show_nat_step n : 10 <= n ->
  show_nat n = show_nat (n / 10) ++ String (digit_char (n mod 10)) "".
Proof.
  intros H. unfold show_nat.
  pose proof (Z.log2_spec n ltac:(lia)) as [L1 L2].
  assert (3 <= Z.log2 n) as L3. { apply Z.log2_le_pow2; [lia|]. cbn. lia. }
  destruct (Z.to_nat (Z.log2 n)) as [|f] eqn:Ef; [lia|].
  cbn [show_digits]. assert (n <? 10 = false) as -> by lia.
  rewrite show_digits_app. f_equal.
  assert (Z.log2 n = Z.succ (Z.of_nat f)) as El by lia.
  rewrite El in L2. replace (Z.succ (Z.succ (Z.of_nat f))) with (Z.succ (Z.of_nat f + 1)) in L2 by lia.
  rewrite Z.pow_succ_r in L2 by lia.
  pose proof (Z.log2_spec (n / 10) ltac:(lia)) as [M1 M2].
  pose proof (Z.log2_nonneg (n / 10)).
  apply show_digits_fuel; try lia.
  rewrite Z2Nat.id by lia. replace (Z.log2 (n / 10) + 1) with (Z.succ (Z.log2 (n / 10))) by lia. exact M2.
Qed.

(** all characters of [show_nat n] are digits, and [int_digits] reads the number back *)
Fixpoint all_digits (s : string) : bool :=
  match s with EmptyString => true | String c r => is_digit c && all_digits r end.

Lemma all_digits_app a b : all_digits (a ++ b) = all_digits a && all_digits b.
Proof. induction a; cbn; [reflexivity|]. rewrite IHa. apply andb_assoc. Qed.

Lemma show_nat_digits n : 0 <= n ->
  all_digits (show_nat n) = true /\
  exists c r, show_nat n = String c r /\
  exists k, n < k /\ forall a p t, int_digits a p (show_nat n ++ t) = int_digits (a * k + n) true t.
Proof.
  revert n. apply (Zlt_0_ind (fun n => all_digits (show_nat n) = true /\
    exists c r, show_nat n = String c r /\
    exists k, n < k /\ forall a p t, int_digits a p (show_nat n ++ t) = int_digits (a * k + n) true t)).
  intros n IH Hn. destruct (Z_lt_le_dec n 10) as [Hs|Hb].
  - rewrite show_nat_small by lia. split; [cbn; rewrite is_digit_char by lia; reflexivity|].
    eexists _, _. split; [reflexivity|]. exists 10. split; [lia|]. intros a p t.
    cbn [append int_digits]. rewrite digit_val_char by lia. f_equal. lia.
  - rewrite show_nat_step by lia.
    destruct (IH (n / 10) ltac:(lia)) as (D & c & r & Ecr & k & Hk & Hint).
    split. { rewrite all_digits_app, D. cbn. rewrite is_digit_char by lia. reflexivity. }
    exists c, (r ++ String (digit_char (n mod 10)) ""). split. { rewrite Ecr. reflexivity. }
    exists (10 * k). split; [lia|]. intros a p t.
    rewrite append_assoc, Hint. cbn [append int_digits]. rewrite digit_val_char by lia. f_equal. lia.
Qed.

Lemma all_digits_no c s : all_digits s = true -> sepc c = true -> has_char c s = false.
Proof.
  intros H Hc. induction s as [|a r IH]; cbn in *; [reflexivity|].
  apply andb_prop in H. destruct H as [H1 H2]. rewrite (IH H2), orb_false_r.
  destruct (a =? c)%char eqn:E; [|reflexivity]. apply Ascii.eqb_eq in E. subst a.
  rewrite (digit_not_sep _ H1) in Hc. discriminate Hc.
Qed.

Lemma all_digits_nospace s : all_digits s = true -> lstrip s = s /\ rstrip s = s.
Proof.
  induction s as [|a r IH]; cbn; [auto|]. intros H. apply andb_prop in H. destruct H as [H1 H2].
  destruct (digit_sep_facts a H1) as (_ & _ & _ & _ & _ & Hsp & _). rewrite Hsp. split; [reflexivity|].
  destruct (IH H2) as [_ ->]. destruct r; reflexivity.
Qed.

Lemma py_int_show_nat n : 0 <= n -> py_int (show_nat n) = Some n.
Proof.
  intros H. destruct (show_nat_digits n H) as (D & c & r & Ecr & k & Hk & Hint).
  unfold py_int. destruct (all_digits_nospace _ D) as [-> ->].
  rewrite Ecr. rewrite Ecr in D. cbn in D. apply andb_prop in D. destruct D as [Dc _].
  destruct (digit_sep_facts c Dc) as (_ & Hm & _ & _ & Hp & _ & _). rewrite Hp, Hm.
  rewrite <- Ecr. specialize (Hint 0 false ""). rewrite append_nil_r in Hint. rewrite Hint. reflexivity.
Qed.

Theorem py_int_show_Z n : py_int (show_Z n) = Some n.
Proof.
  unfold show_Z. destruct (n <? 0) eqn:E; [|apply py_int_show_nat; lia].
  assert (0 <= - n) as H by lia.
  destruct (show_nat_digits _ H) as (D & c & r & Ecr & k & Hk & Hint).
  unfold py_int. cbn [lstrip]. change (is_space "-") with false. cbv iota.
  assert (rstrip (String "-" (show_nat (- n))) = String "-" (show_nat (- n))) as ->.
  { cbn [rstrip]. destruct (all_digits_nospace _ D) as [_ ->]. rewrite Ecr. reflexivity. }
  change ("-" =? "+")%char with false. change ("-" =? "-")%char with true. cbv iota.
  specialize (Hint 0 false ""). rewrite append_nil_r in Hint. rewrite Hint. cbn. f_equal. lia.
Qed.

Lemma show_Z_no_colon n : has_char ":" (show_Z n) = false.
Proof.
  unfold show_Z. destruct (n <? 0) eqn:E.
  - cbn. apply all_digits_no; [|reflexivity]. apply show_nat_digits. lia.
  - apply all_digits_no; [|reflexivity]. apply show_nat_digits. lia.
Qed.

(** * Fixed-width fields *)

Definition d2 (m : Z) : string :=
  String (digit_char (m / 10)) (String (digit_char (m mod 10)) "").
Definition d4 (y : Z) : string :=
  String (digit_char (y / 1000)) (String (digit_char (y / 100 mod 10))
    (String (digit_char (y / 10 mod 10)) (String (digit_char (y mod 10)) ""))).

Lemma show_nat_2 m : 10 <= m <= 99 -> show_nat m = d2 m.
Proof.
  intros H. rewrite show_nat_step by lia. rewrite show_nat_small by lia. reflexivity.
Qed.

Lemma show_nat_3 m : 100 <= m <= 999 ->
  show_nat m = String (digit_char (m / 100)) (String (digit_char (m / 10 mod 10)) (String (digit_char (m mod 10)) "")).
Proof.
  intros H. rewrite show_nat_step by lia. rewrite show_nat_2 by lia. unfold d2. cbn [append].
  replace (m / 10 / 10) with (m / 100) by lia. reflexivity.
Qed.

Lemma show_nat_4 y : 1000 <= y <= 9999 -> show_nat y = d4 y.
Proof.
  intros H. rewrite show_nat_step by lia. rewrite show_nat_3 by lia. unfold d4. cbn [append].
  replace (y / 10 / 100) with (y / 1000) by lia.
  replace (y / 10 / 10 mod 10) with (y / 100 mod 10) by lia. reflexivity.
Qed.

Lemma show_Z_nonneg n : 0 <= n -> show_Z n = show_nat n.
Proof. intros H. unfold show_Z. assert (n <? 0 = false) as -> by lia. reflexivity. Qed.

Lemma show_Z_4 y : 1000 <= y <= 9999 -> show_Z y = d4 y.
Proof. intros H. rewrite show_Z_nonneg by lia. apply show_nat_4, H. Qed.

Lemma show_Z_1 d : 0 <= d <= 9 -> show_Z d = String (digit_char d) "".
Proof. intros H. rewrite show_Z_nonneg by lia. apply show_nat_small. lia. Qed.

Lemma pad2_spec m : 0 <= m <= 99 -> pad2 m = d2 m.
Proof.
  intros H. unfold pad2, pad. rewrite show_Z_nonneg by lia.
  destruct (Z_lt_le_dec m 10).
  - rewrite show_nat_small by lia. cbn. unfold d2.
    replace (m / 10) with 0 by lia. replace (m mod 10) with m by lia. reflexivity.
  - rewrite show_nat_2 by lia. reflexivity.
Qed.

Lemma pad4_spec y : 0 <= y <= 9999 -> pad4 y = d4 y.
Proof.
  intros H. unfold pad4, pad. rewrite show_Z_nonneg by lia. unfold d4.
  destruct (Z_lt_le_dec y 10); [|destruct (Z_lt_le_dec y 100); [|destruct (Z_lt_le_dec y 1000)]].
  - rewrite show_nat_small by lia. cbn.
    replace (y / 1000) with 0 by lia. replace (y / 100 mod 10) with 0 by lia.
    replace (y / 10 mod 10) with 0 by lia. replace (y mod 10) with y by lia. reflexivity.
  - rewrite show_nat_2 by lia. cbn. unfold d2.
    replace (y / 1000) with 0 by lia. replace (y / 100 mod 10) with 0 by lia.
    replace (y / 10 mod 10) with (y / 10) by lia. reflexivity.
  - rewrite show_nat_3 by lia. cbn.
    replace (y / 1000) with 0 by lia. replace (y / 100 mod 10) with (y / 100) by lia. reflexivity.
  - rewrite show_nat_4 by lia. reflexivity.
Qed.

Lemma week_text_spec w : 0 <= w <= 99 -> week_text w = String "W" (d2 w).
Proof.
  intros H. unfold week_text. destruct (w <? 10) eqn:E.
  - rewrite show_Z_1 by lia. cbn. unfold d2.
    replace (w / 10) with 0 by lia. replace (w mod 10) with w by lia. reflexivity.
  - rewrite show_Z_nonneg, show_nat_2 by lia. reflexivity.
Qed.

(* finite sweeps over two-digit fields *)
Lemma sweep (n : Z) (P : Z -> bool) : forallb P (zrange n) = true -> forall m, 0 <= m < n -> P m = true.
Proof.
  intros H m Hm. rewrite forallb_forall in H. apply H. unfold zrange.
  apply in_map_iff. exists (Z.to_nat m). split; [lia|]. apply in_seq. lia.
Qed.

Lemma re_month_d2 m : 0 <= m <= 99 ->
  re_month (digit_char (m / 10)) (digit_char (m mod 10)) = (1 <=? m) && (m <=? 12).
Proof.
  intros H. apply eqb_prop.
  apply (sweep 100 (fun m => Bool.eqb (re_month (digit_char (m / 10)) (digit_char (m mod 10))) ((1 <=? m) && (m <=? 12))));
    [vm_compute; reflexivity|lia].
Qed.

Lemma re_day_d2 m : 0 <= m <= 99 ->
  re_day (digit_char (m / 10)) (digit_char (m mod 10)) = (1 <=? m) && (m <=? 31).
Proof.
  intros H. apply eqb_prop.
  apply (sweep 100 (fun m => Bool.eqb (re_day (digit_char (m / 10)) (digit_char (m mod 10))) ((1 <=? m) && (m <=? 31))));
    [vm_compute; reflexivity|lia].
Qed.

Lemma re_week_d2 m : 0 <= m <= 99 ->
  re_week (digit_char (m / 10)) (digit_char (m mod 10)) = (1 <=? m) && (m <=? 53).
Proof.
  intros H. apply eqb_prop.
  apply (sweep 100 (fun m => Bool.eqb (re_week (digit_char (m / 10)) (digit_char (m mod 10))) ((1 <=? m) && (m <=? 53))));
    [vm_compute; reflexivity|lia].
Qed.

Lemma re_weekday_char k : 0 <= k <= 9 -> re_weekday (digit_char k) = (1 <=? k) && (k <=? 7).
Proof. intros H. digit_split k H; reflexivity. Qed.

Lemma num2_d2 m : 0 <= m <= 99 -> num2 (digit_char (m / 10)) (digit_char (m mod 10)) = m.
Proof. intros H. unfold num2. rewrite !dv_char by lia. lia. Qed.

Lemma num4_d4 y : 0 <= y <= 9999 ->
  num4 (digit_char (y / 1000)) (digit_char (y / 100 mod 10)) (digit_char (y / 10 mod 10)) (digit_char (y mod 10)) = y.
Proof. intros H. unfold num4. rewrite !dv_char by lia. lia. Qed.

(** * Shapes of date texts *)

Ltac bsplit :=
  repeat match goal with
  | H : _ && _ = true |- _ => apply andb_prop in H; destruct H
  | H : _ || _ = true |- _ => apply orb_prop in H; destruct H
  | H : (_ =? _)%char = true |- _ => apply Ascii.eqb_eq in H; subst
  end.

Lemma re_month_digits a b : re_month a b = true -> is_digit a = true /\ is_digit b = true.
Proof. unfold re_month. intros H. bsplit; split; try reflexivity; assumption. Qed.

Lemma re_day_digits a b : re_day a b = true -> is_digit a = true /\ is_digit b = true.
Proof. unfold re_day. intros H. bsplit; split; try reflexivity; assumption. Qed.

Lemma re_week_digits a b : re_week a b = true -> is_digit a = true /\ is_digit b = true.
Proof. unfold re_week. intros H. bsplit; split; try reflexivity; assumption. Qed.

Lemma re_weekday_digit a : re_weekday a = true -> is_digit a = true.
Proof. unfold re_weekday. intros H. bsplit. assumption. Qed.

Ltac dfacts H :=
  let F := fresh "F" in
  pose proof (digit_sep_facts _ H) as F; destruct F as (? & ? & ? & ? & ? & ? & ?).

Ltac rw_chars :=
  repeat match goal with
  | H : (_ =? _)%char = false |- _ => rewrite H
  | H : is_digit _ = true |- _ => rewrite H
  | H : re_month _ _ = true |- _ => rewrite H
  | H : re_day _ _ = true |- _ => rewrite H
  | H : re_week _ _ = true |- _ => rewrite H
  | H : re_weekday _ = true |- _ => rewrite H
  end.

Ltac shape_step :=
  cbn [re_iso_format re_iso_calendar re_opt_weekday pendulum_parse_date split andb orb negb
       List.length Ascii.eqb Bool.eqb bind];
  rw_chars.

Lemma shape_year a b c d :
  is_digit a = true -> is_digit b = true -> is_digit c = true -> is_digit d = true ->
  parse_simple (String a (String b (String c (String d "")))) =
  if num4 a b c d =? 0 then Err EValue else Ok (Year, (num4 a b c d, 1, 1), 1).
Proof.
  intros Ha Hb Hc Hd. dfacts Ha. dfacts Hb. dfacts Hc. dfacts Hd.
  unfold parse_simple, parse_instant, parse_unit, is_instant_str.
  repeat shape_step.
  change (neg_index units_isocalendar 1) with (@Ok unit_t Year).
  destruct (num4 a b c d =? 0); reflexivity.
Qed.

Lemma shape_month a b c d m1 m2 :
  is_digit a = true -> is_digit b = true -> is_digit c = true -> is_digit d = true ->
  re_month m1 m2 = true ->
  parse_simple (String a (String b (String c (String d (String "-" (String m1 (String m2 ""))))))) =
  bind (pendulum_ymd (num4 a b c d) (num2 m1 m2) 1) (fun i => Ok (Month, i, 1)).
Proof.
  intros Ha Hb Hc Hd Hm. destruct (re_month_digits _ _ Hm) as [Hm1 Hm2].
  dfacts Ha. dfacts Hb. dfacts Hc. dfacts Hd. dfacts Hm1. dfacts Hm2.
  unfold parse_simple, parse_instant, parse_unit, is_instant_str.
  repeat shape_step.
  change (neg_index units_isoformat 2) with (@Ok unit_t Month).
  destruct (pendulum_ymd _ _ _); reflexivity.
Qed.

Lemma shape_day a b c d m1 m2 d1 d2 :
  is_digit a = true -> is_digit b = true -> is_digit c = true -> is_digit d = true ->
  re_month m1 m2 = true -> re_day d1 d2 = true ->
  parse_simple (String a (String b (String c (String d (String "-" (String m1 (String m2
                  (String "-" (String d1 (String d2 "")))))))))) =
  bind (pendulum_ymd (num4 a b c d) (num2 m1 m2) (num2 d1 d2)) (fun i => Ok (Day, i, 1)).
Proof.
  intros Ha Hb Hc Hd Hm Hdd. destruct (re_month_digits _ _ Hm) as [Hm1 Hm2].
  destruct (re_day_digits _ _ Hdd) as [Hd1 Hd2].
  dfacts Ha. dfacts Hb. dfacts Hc. dfacts Hd. dfacts Hm1. dfacts Hm2. dfacts Hd1. dfacts Hd2.
  unfold parse_simple, parse_instant, parse_unit, is_instant_str.
  repeat shape_step.
  change (neg_index units_isoformat 3) with (@Ok unit_t Day).
  destruct (pendulum_ymd _ _ _); reflexivity.
Qed.

Lemma shape_week a b c d w1 w2 :
  is_digit a = true -> is_digit b = true -> is_digit c = true -> is_digit d = true ->
  re_week w1 w2 = true ->
  parse_simple (String a (String b (String c (String d (String "-" (String "W" (String w1 (String w2 "")))))))) =
  bind (pendulum_week_date (num4 a b c d) (num2 w1 w2) 1) (fun i => Ok (Week, i, 1)).
Proof.
  intros Ha Hb Hc Hd Hw. destruct (re_week_digits _ _ Hw) as [Hw1 Hw2].
  dfacts Ha. dfacts Hb. dfacts Hc. dfacts Hd. dfacts Hw1. dfacts Hw2.
  unfold parse_simple, parse_instant, parse_unit, is_instant_str.
  repeat shape_step.
  rewrite orb_true_r. cbn [negb].
  change (neg_index units_isocalendar 2) with (@Ok unit_t Week).
  destruct (pendulum_week_date _ _ _); reflexivity.
Qed.

Lemma shape_weekday a b c d w1 w2 e :
  is_digit a = true -> is_digit b = true -> is_digit c = true -> is_digit d = true ->
  re_week w1 w2 = true -> re_weekday e = true ->
  parse_simple (String a (String b (String c (String d (String "-" (String "W" (String w1 (String w2
                  (String "-" (String e "")))))))))) =
  bind (pendulum_week_date (num4 a b c d) (num2 w1 w2) (dv e)) (fun i => Ok (Weekday, i, 1)).
Proof.
  intros Ha Hb Hc Hd Hw He. destruct (re_week_digits _ _ Hw) as [Hw1 Hw2].
  pose proof (re_weekday_digit _ He) as He1.
  dfacts Ha. dfacts Hb. dfacts Hc. dfacts Hd. dfacts Hw1. dfacts Hw2. dfacts He1.
  unfold parse_simple, parse_instant, parse_unit, is_instant_str.
  repeat shape_step.
  rewrite orb_true_r. cbn [negb].
  change (neg_index units_isocalendar 3) with (@Ok unit_t Weekday).
  destruct (pendulum_week_date _ _ _); reflexivity.
Qed.

(** * ISO week dates *)

Lemma ord_jan4 y : ord (y, 1, 4) = ybase y + 4.
Proof. unfold ord, cum. change (1 =? 1) with true. change (2 <? 1) with false. cbn [andb]. lia. Qed.

Lemma w1_def y : iso_week1_monday y = ybase y + 4 - (ybase y + 3) mod 7.
Proof.
  unfold iso_week1_monday. rewrite ord_jan4. replace (ybase y + 4 - 1) with (ybase y + 3) by lia.
  reflexivity.
Qed.

Lemma isocalendar_spec y m d : valid (y, m, d) ->
  forall cy w wd, isocalendar (y, m, d) = (cy, w, wd) ->
  y - 1 <= cy <= y + 1 /\ 1 <= w <= weeks_in_iso_year cy /\ w <= 53 /\ 1 <= wd <= 7 /\
  wd = isoweekday (y, m, d) /\
  iso_week1_monday cy + (w - 1) * 7 + (wd - 1) = ord (y, m, d).
Proof.
  intros Hv cy w wd. pose proof (ord_in_year _ _ _ Hv) as Ho.
  unfold isocalendar, isoweekday, weeks_in_iso_year. set (o := ord (y, m, d)) in *. clearbody o.
  pose proof (ybase_succ y) as S1. pose proof (ybase_succ (y + 1)) as S2.
  pose proof (ybase_succ (y - 1)) as S0. replace (y - 1 + 1) with y in S0 by lia.
  assert (0 <= (if leap y then 1 else 0) <= 1) as L1 by (destruct (leap y); lia).
  assert (0 <= (if leap (y + 1) then 1 else 0) <= 1) as L2 by (destruct (leap (y + 1)); lia).
  assert (0 <= (if leap (y - 1) then 1 else 0) <= 1) as L0 by (destruct (leap (y - 1)); lia).
  destruct (o <? iso_week1_monday y) eqn:E1; [|destruct (iso_week1_monday (y + 1) <=? o) eqn:E2];
    intros H; inversion H; subst cy w wd; clear H.
  - replace (y - 1 + 1) with y by lia. rewrite !w1_def in *.
    generalize dependent (ybase (y - 1)). generalize dependent (ybase y).
    generalize dependent (if leap y then 1 else 0). generalize dependent (if leap (y - 1) then 1 else 0).
    intros. lia.
  - rewrite !w1_def in *.
    generalize dependent (ybase (y + 1 + 1)). generalize dependent (ybase (y + 1)). generalize dependent (ybase y).
    generalize dependent (if leap y then 1 else 0). generalize dependent (if leap (y + 1) then 1 else 0).
    intros. lia.
  - rewrite !w1_def in *.
    generalize dependent (ybase (y + 1)). generalize dependent (ybase y).
    generalize dependent (if leap y then 1 else 0).
    intros. lia.
Qed.

Lemma max_ordinal_val : max_ordinal = ybase 10000.
Proof. vm_compute. reflexivity. Qed.

Lemma week_date_of_isocalendar y m d cy w wd :
  valid (y, m, d) -> y <= 9999 -> isocalendar (y, m, d) = (cy, w, wd) ->
  pendulum_week_date cy w wd = Ok (y, m, d).
Proof.
  intros Hv Hy Hi. destruct (isocalendar_spec _ _ _ Hv _ _ _ Hi) as (_ & Hw & _ & _ & _ & Ho).
  unfold pendulum_week_date. assert (weeks_in_iso_year cy <? w = false) as -> by lia.
  rewrite Ho. pose proof (ord_pos _ Hv). pose proof (ord_in_year _ _ _ Hv) as Hin.
  pose proof (ybase_succ y) as Hs. pose proof (ybase_mono (y + 1) 10000 ltac:(lia)) as Hm.
  rewrite max_ordinal_val.
  assert ((ord (y, m, d) <? 1) || (ybase 10000 <? ord (y, m, d)) = false) as -> by lia.
  rewrite of_ord_ord by assumption. reflexivity.
Qed.

Lemma isocalendar_year_range y m d cy w wd :
  valid (y, m, d) -> 1000 <= y <= 9999 -> isocalendar (y, m, d) = (cy, w, wd) -> 1000 <= cy <= 9999.
Proof.
  intros Hv Hy. pose proof (ord_in_year _ _ _ Hv) as Ho. unfold isocalendar.
  set (o := ord (y, m, d)) in *. clearbody o.
  destruct (o <? iso_week1_monday y) eqn:E1; [|destruct (iso_week1_monday (y + 1) <=? o) eqn:E2];
    intros H; inversion H; subst cy; try lia.
  - destruct (Z.eq_dec y 1000) as [->|]; [|lia]. exfalso. revert E1 Ho. vm_compute (iso_week1_monday 1000).
    vm_compute (ybase 1000). lia.
  - destruct (Z.eq_dec y 9999) as [->|]; [|lia]. exfalso. revert E2 Ho.
    vm_compute (iso_week1_monday (9999 + 1)). vm_compute (ybase 9999). vm_compute (leap 9999). lia.
Qed.

(** * No ":" in an instant text; head of an instant text *)

Ltac to_digits :=
  repeat match goal with
  | H : re_month _ _ = true |- _ => apply re_month_digits in H; destruct H
  | H : re_day _ _ = true |- _ => apply re_day_digits in H; destruct H
  | H : re_week _ _ = true |- _ => apply re_week_digits in H; destruct H
  | H : re_weekday _ = true |- _ => apply re_weekday_digit in H
  end.

Ltac all_dfacts :=
  repeat match goal with H : is_digit ?c = true |- _ => dfacts H; clear H end.

Ltac no_colon_leaf :=
  bsplit; to_digits; all_dfacts; cbn [has_char]; rw_chars; reflexivity.

Lemma iso_format_no_colon s : re_iso_format s = true -> has_char ":" s = false.
Proof.
  destruct s as [|a [|b [|c [|d r]]]]; try (intros H; discriminate H).
  cbn [re_iso_format]. destruct r as [|s1 [|m1 [|m2 r2]]]; try (intros H; bsplit; discriminate).
  - intros H. no_colon_leaf.
  - destruct r2 as [|s2 [|d1 [|d2 [|x1 x2]]]]; try (intros H; bsplit; discriminate); intros H; no_colon_leaf.
Qed.

Lemma opt_weekday_no_colon r : re_opt_weekday r = true -> has_char ":" r = false.
Proof.
  destruct r as [|s1 [|e [|x1 x2]]]; try (intros H; discriminate H); [reflexivity|].
  cbn [re_opt_weekday]. intros H. no_colon_leaf.
Qed.

Lemma iso_calendar_no_colon s : re_iso_calendar s = true -> has_char ":" s = false.
Proof.
  destruct s as [|a [|b [|c [|d r]]]]; try (intros H; discriminate H).
  cbn [re_iso_calendar]. intros H. apply andb_prop in H. destruct H as [H Hr].
  assert (has_char ":" r = false) as Hc.
  { destruct r as [|s1 [|W [|w1 [|w2 r2]]]]; try (apply opt_weekday_no_colon; exact Hr).
    destruct ((s1 =? "-")%char && (W =? "W")%char) eqn:E; [|apply opt_weekday_no_colon; exact Hr].
    apply andb_prop in Hr. destruct Hr as [Hw Hr2]. apply opt_weekday_no_colon in Hr2.
    bsplit. to_digits. all_dfacts. cbn [has_char]. rw_chars. rewrite Hr2. reflexivity. }
  bsplit. all_dfacts. cbn [has_char]. rw_chars. rewrite Hc. reflexivity.
Qed.

Lemma instant_no_colon s : is_instant_str s = true -> has_char ":" s = false.
Proof.
  unfold is_instant_str. intros H. apply orb_prop in H.
  destruct H; [apply iso_format_no_colon|apply iso_calendar_no_colon]; assumption.
Qed.

Lemma instant_head s : is_instant_str s = true -> exists a r, s = String a r /\ is_digit a = true.
Proof.
  unfold is_instant_str.
  destruct s as [|a [|b [|c [|d r]]]]; try (intros H; discriminate H).
  cbn [re_iso_format re_iso_calendar]. intros H. exists a, (String b (String c (String d r))).
  split; [reflexivity|]. bsplit; assumption.
Qed.

(** * helpers.period on the two kinds of text *)

Lemma parse_period_simple s : is_instant_str s = true -> parse_period s = parse_simple s.
Proof.
  intros H. destruct (instant_head s H) as (a & r & -> & Ha).
  unfold parse_period. change (unit_name Eternity) with "eternity".
  rewrite (not_eternity_digit a r Ha), H. reflexivity.
Qed.

Lemma join_has_colon x y l : has_char ":" (join_colon (x :: y :: l)) = true.
Proof.
  cbn [join_colon]. rewrite has_char_app. cbn. apply orb_true_r.
Qed.

Lemma split_join l : l <> [] -> Forall colon_free l -> split ":" (join_colon l) = l.
Proof.
  induction l as [|x [|y l] IH]; intros Hne Hf; [congruence| |].
  - cbn [join_colon]. inversion Hf; subst. apply split_none. assumption.
  - inversion Hf; subst. change (join_colon (x :: y :: l)) with (x ++ String ":" (join_colon (y :: l))).
    rewrite split_app_sep by assumption. rewrite IH; [reflexivity|discriminate|assumption].
Qed.

Lemma parse_period_long u body rest :
  Forall colon_free (u :: body :: rest) ->
  parse_period (join_colon (u :: body :: rest)) =
  if is_instant_str body then period_of_components (u :: body :: rest) else Err EPeriod.
Proof.
  intros Hf. unfold parse_period. change (unit_name Eternity) with "eternity".
  pose proof (join_has_colon u body rest) as Hc.
  rewrite (not_eternity_colon _ Hc).
  destruct (is_instant_str (join_colon (u :: body :: rest))) eqn:E.
  { apply instant_no_colon in E. congruence. }
  unfold is_period_str. rewrite Hc. rewrite split_join by (assumption || discriminate).
  cbn [nth andb]. reflexivity.
Qed.

(** * Printed date texts parse back *)

Lemma parse_simple_ok_instant s q : parse_simple s = Ok q -> is_instant_str s = true.
Proof.
  unfold parse_simple, parse_instant. destruct (is_instant_str s); [reflexivity|]. cbn. discriminate.
Qed.

Lemma valid_bounds y m d : valid (y, m, d) -> 1 <= y /\ 1 <= m <= 12 /\ 1 <= d <= 31.
Proof. intros H. apply valid_iff in H. pose proof (dim'_pos (leap y) m). lia. Qed.

Lemma valid_first y m d : valid (y, m, d) -> validb (y, m, 1) = true.
Proof.
  intros H. apply valid_iff in H. apply (proj2 (valid_iff y m 1)). pose proof (dim'_pos (leap y) m). lia.
Qed.

Lemma d4_digit_hyps y : 0 <= y <= 9999 ->
  is_digit (digit_char (y / 1000)) = true /\ is_digit (digit_char (y / 100 mod 10)) = true /\
  is_digit (digit_char (y / 10 mod 10)) = true /\ is_digit (digit_char (y mod 10)) = true.
Proof. intros H. repeat split; apply is_digit_char; lia. Qed.

Lemma simple_year y : 1 <= y <= 9999 -> parse_simple (d4 y) = Ok (Year, (y, 1, 1), 1).
Proof.
  intros H. destruct (d4_digit_hyps y ltac:(lia)) as (A & B & C & D).
  unfold d4. rewrite shape_year by assumption. rewrite num4_d4 by lia.
  assert (y =? 0 = false) as -> by lia. reflexivity.
Qed.

Lemma simple_month y m : 0 <= y <= 9999 -> 1 <= m <= 12 ->
  parse_simple (d4 y ++ "-" ++ d2 m) = bind (pendulum_ymd y m 1) (fun i => Ok (Month, i, 1)).
Proof.
  intros H Hm. destruct (d4_digit_hyps y ltac:(lia)) as (A & B & C & D).
  unfold d4, d2. cbn [append]. rewrite shape_month; try assumption.
  - rewrite num4_d4, num2_d2 by lia. reflexivity.
  - rewrite re_month_d2 by lia. lia.
Qed.

Lemma simple_day y m d : 0 <= y <= 9999 -> 1 <= m <= 12 -> 1 <= d <= 31 ->
  parse_simple (d4 y ++ "-" ++ d2 m ++ "-" ++ d2 d) = bind (pendulum_ymd y m d) (fun i => Ok (Day, i, 1)).
Proof.
  intros H Hm Hd. destruct (d4_digit_hyps y ltac:(lia)) as (A & B & C & D).
  unfold d4, d2. cbn [append]. rewrite shape_day; try assumption.
  - rewrite num4_d4, !num2_d2 by lia. reflexivity.
  - rewrite re_month_d2 by lia. lia.
  - rewrite re_day_d2 by lia. lia.
Qed.

Lemma simple_week cy w : 0 <= cy <= 9999 -> 1 <= w <= 53 ->
  parse_simple (d4 cy ++ "-" ++ String "W" (d2 w)) = bind (pendulum_week_date cy w 1) (fun i => Ok (Week, i, 1)).
Proof.
  intros H Hw. destruct (d4_digit_hyps cy ltac:(lia)) as (A & B & C & D).
  unfold d4, d2. cbn [append]. rewrite shape_week; try assumption.
  - rewrite num4_d4, num2_d2 by lia. reflexivity.
  - rewrite re_week_d2 by lia. lia.
Qed.

Lemma simple_weekday cy w wd : 0 <= cy <= 9999 -> 1 <= w <= 53 -> 1 <= wd <= 7 ->
  parse_simple (d4 cy ++ "-" ++ String "W" (d2 w) ++ "-" ++ String (digit_char wd) "") =
  bind (pendulum_week_date cy w wd) (fun i => Ok (Weekday, i, 1)).
Proof.
  intros H Hw Hwd. destruct (d4_digit_hyps cy ltac:(lia)) as (A & B & C & D).
  unfold d4, d2. cbn [append]. rewrite shape_weekday; try assumption.
  - rewrite num4_d4, num2_d2, dv_char by lia. reflexivity.
  - rewrite re_week_d2 by lia. lia.
  - rewrite re_weekday_char by lia. lia.
Qed.

Lemma unit_name_colon_free u : colon_free (unit_name u).
Proof. destruct u; reflexivity. Qed.

Lemma unit_of_name_name u : unit_of_name (unit_name u) = Some u.
Proof. destruct u; reflexivity. Qed.

Definition size_fields (sz : option Z) : list string :=
  match sz with None => [] | Some n => [show_Z n] end.
Definition size_value (sz : option Z) : Z := match sz with None => 1 | Some n => n end.

Lemma parse_long_ok u body q sz :
  u <> Eternity -> parse_simple body = Ok q -> unit_weight u <? unit_weight (p_unit q) = false ->
  parse_period (join_colon (unit_name u :: body :: size_fields sz)) = Ok (u, p_start q, size_value sz).
Proof.
  intros Hu Hq Hw. pose proof (parse_simple_ok_instant _ _ Hq) as Hi.
  rewrite parse_period_long.
  - rewrite Hi. unfold period_of_components. rewrite unit_of_name_name, Hq. cbn [bind].
    destruct sz as [n|]; cbn [size_fields size_value].
    + rewrite py_int_show_Z. cbn [bind]. rewrite Hw. destruct u; congruence.
    + cbn [bind]. rewrite Hw. destruct u; congruence.
  - constructor; [apply unit_name_colon_free|]. constructor; [apply instant_no_colon, Hi|].
    destruct sz; cbn [size_fields]; [|constructor]. constructor; [apply show_Z_no_colon|constructor].
Qed.

(** * Round trip *)

Definition t_ym (y m : Z) : string := d4 y ++ "-" ++ d2 m.
Definition t_ymd (y m d : Z) : string := t_ym y m ++ "-" ++ d2 d.
Definition t_yw (cy w : Z) : string := d4 cy ++ "-" ++ String "W" (d2 w).
Definition t_ywd (cy w wd : Z) : string := t_yw cy w ++ "-" ++ String (digit_char wd) "".

Lemma parse_simple_period s q : parse_simple s = Ok q -> parse_period s = Ok q.
Proof.
  intros H. rewrite parse_period_simple; [assumption|]. eapply parse_simple_ok_instant, H.
Qed.

Lemma py_date_ok_valid y m d : valid (y, m, d) -> y <= 9999 -> py_date_ok (y, m, d) = true.
Proof. intros H Hy. unfold py_date_ok. unfold valid in H. rewrite H. lia. Qed.

Lemma body_month y m d : valid (y, m, d) -> y <= 9999 ->
  parse_simple (t_ym y m) = Ok (Month, (y, m, 1), 1).
Proof.
  intros Hv Hy. destruct (valid_bounds _ _ _ Hv) as (Hy1 & Hm & _).
  unfold t_ym. rewrite simple_month by lia. unfold pendulum_ymd. rewrite (valid_first _ _ _ Hv). reflexivity.
Qed.

Lemma body_day y m d : valid (y, m, d) -> y <= 9999 ->
  parse_simple (t_ymd y m d) = Ok (Day, (y, m, d), 1).
Proof.
  intros Hv Hy. destruct (valid_bounds _ _ _ Hv) as (Hy1 & Hm & Hd).
  change (t_ymd y m d) with (d4 y ++ "-" ++ d2 m ++ "-" ++ d2 d).
  rewrite simple_day by lia. unfold pendulum_ymd. unfold valid in Hv. rewrite Hv. reflexivity.
Qed.

Lemma body_week y m d cy w wd : valid (y, m, d) -> y <= 9999 -> 0 <= cy <= 9999 ->
  isocalendar (y, m, d) = (cy, w, wd) -> wd = 1 ->
  parse_simple (t_yw cy w) = Ok (Week, (y, m, d), 1).
Proof.
  intros Hv Hy Hcy Hi ->. destruct (isocalendar_spec _ _ _ Hv _ _ _ Hi) as (_ & Hw & Hw53 & _).
  unfold t_yw. rewrite simple_week by lia.
  rewrite (week_date_of_isocalendar _ _ _ _ _ _ Hv Hy Hi). reflexivity.
Qed.

Lemma body_weekday y m d cy w wd : valid (y, m, d) -> y <= 9999 -> 0 <= cy <= 9999 ->
  isocalendar (y, m, d) = (cy, w, wd) ->
  parse_simple (t_ywd cy w wd) = Ok (Weekday, (y, m, d), 1).
Proof.
  intros Hv Hy Hcy Hi. destruct (isocalendar_spec _ _ _ Hv _ _ _ Hi) as (_ & Hw & Hw53 & Hwd & _).
  change (t_ywd cy w wd) with (d4 cy ++ "-" ++ String "W" (d2 w) ++ "-" ++ String (digit_char wd) "").
  rewrite simple_weekday by lia.
  rewrite (week_date_of_isocalendar _ _ _ _ _ _ Hv Hy Hi). reflexivity.
Qed.

Definition rt (p : period) : Prop :=
  exists s, show_period p = Ok s /\ parse_period s = Ok (canon p) /\ show_period (canon p) = Ok s.

Lemma rt_year y m n : valid (y, m, 1) -> 1000 <= y <= 9999 -> 0 < n -> rt (Year, (y, m, 1), n).
Proof.
  intros Hv Hy Hn. destruct (valid_bounds _ _ _ Hv) as (_ & Hm & _).
  unfold rt. change (canon (Year, (y, m, 1), n)) with (Year, (y, m, 1), n).
  unfold show_period. rewrite (py_date_ok_valid _ _ _ Hv) by lia. cbn [negb].
  destruct (isocalendar (y, m, 1)) as [[cy w] wd].
  cbn [unit_eqb andb orb]. rewrite show_Z_4, pad2_spec by lia.
  pose proof (body_month _ _ _ Hv ltac:(lia)) as Bm.
  pose proof (simple_year y ltac:(lia)) as By.
  destruct (n =? 1) eqn:En; destruct (m =? 1) eqn:Em.
  - assert (n = 1) by lia. assert (m = 1) by lia. subst n m.
    eexists. split; [reflexivity|]. split; [|reflexivity]. apply parse_simple_period. exact By.
  - assert (n = 1) by lia. subst n.
    eexists. split; [reflexivity|]. split; [|reflexivity].
    exact (parse_long_ok Year (t_ym y m) _ None ltac:(discriminate) Bm eq_refl).
  - assert (m = 1) by lia. subst m.
    eexists. split; [reflexivity|]. split; [|reflexivity].
    exact (parse_long_ok Year (d4 y) _ (Some n) ltac:(discriminate) By eq_refl).
  - eexists. split; [reflexivity|]. split; [|reflexivity].
    exact (parse_long_ok Year (t_ym y m) _ (Some n) ltac:(discriminate) Bm eq_refl).
Qed.

Lemma rt_month y m n : valid (y, m, 1) -> 1000 <= y <= 9999 -> 0 < n -> rt (Month, (y, m, 1), n).
Proof.
  intros Hv Hy Hn. destruct (valid_bounds _ _ _ Hv) as (_ & Hm & _).
  unfold rt, canon. cbn [unit_eqb andb].
  pose proof (body_month _ _ _ Hv ltac:(lia)) as Bm.
  pose proof (simple_year y ltac:(lia)) as By.
  destruct (n =? 12) eqn:E12.
  - assert (n = 12) by lia. subst n.
    unfold show_period. rewrite (py_date_ok_valid _ _ _ Hv) by lia. cbn [negb].
    destruct (isocalendar (y, m, 1)) as [[cy w] wd].
    cbn [unit_eqb andb orb Z.eqb Pos.eqb]. rewrite show_Z_4, pad2_spec by lia.
    destruct (m =? 1) eqn:Em.
    + assert (m = 1) by lia. subst m.
      eexists. split; [reflexivity|]. split; [|reflexivity]. apply parse_simple_period. exact By.
    + eexists. split; [reflexivity|]. split; [|reflexivity].
      exact (parse_long_ok Year (t_ym y m) _ None ltac:(discriminate) Bm eq_refl).
  - unfold show_period. rewrite (py_date_ok_valid _ _ _ Hv) by lia. cbn [negb].
    destruct (isocalendar (y, m, 1)) as [[cy w] wd].
    cbn [unit_eqb andb orb]. rewrite E12. cbn [orb]. rewrite show_Z_4, pad2_spec by lia.
    destruct (n =? 1) eqn:E1.
    + assert (n = 1) by lia. subst n.
      eexists. split; [reflexivity|]. split; [|reflexivity]. apply parse_simple_period. exact Bm.
    + eexists. split; [reflexivity|]. split; [|reflexivity].
      exact (parse_long_ok Month (t_ym y m) _ (Some n) ltac:(discriminate) Bm eq_refl).
Qed.

Lemma rt_day y m d n : valid (y, m, d) -> 1000 <= y <= 9999 -> 0 < n -> rt (Day, (y, m, d), n).
Proof.
  intros Hv Hy Hn. destruct (valid_bounds _ _ _ Hv) as (_ & Hm & Hd).
  unfold rt. change (canon (Day, (y, m, d), n)) with (Day, (y, m, d), n).
  pose proof (body_day _ _ _ Hv ltac:(lia)) as Bd.
  unfold show_period. rewrite (py_date_ok_valid _ _ _ Hv) by lia. cbn [negb].
  destruct (isocalendar (y, m, d)) as [[cy w] wd].
  cbn [unit_eqb andb orb]. rewrite show_Z_4, !pad2_spec by lia.
  destruct (n =? 1) eqn:E1.
  - assert (n = 1) by lia. subst n.
    eexists. split; [reflexivity|]. split; [|reflexivity]. apply parse_simple_period. exact Bd.
  - eexists. split; [reflexivity|]. split; [|reflexivity].
    exact (parse_long_ok Day (t_ymd y m d) _ (Some n) ltac:(discriminate) Bd eq_refl).
Qed.

Lemma rt_week y m d n : valid (y, m, d) -> 1000 <= y <= 9999 -> 0 < n -> isoweekday (y, m, d) = 1 ->
  rt (Week, (y, m, d), n).
Proof.
  intros Hv Hy Hn Hmon.
  unfold rt. change (canon (Week, (y, m, d), n)) with (Week, (y, m, d), n).
  unfold show_period. rewrite (py_date_ok_valid _ _ _ Hv) by lia. cbn [negb].
  destruct (isocalendar (y, m, d)) as [[cy w] wd] eqn:Hi.
  pose proof (isocalendar_year_range _ _ _ _ _ _ Hv Hy Hi) as Hcy.
  destruct (isocalendar_spec _ _ _ Hv _ _ _ Hi) as (_ & Hw & Hw53 & _ & Hwd & _).
  assert (wd = 1) as Hwd1 by congruence.
  pose proof (body_week y m d cy w wd Hv ltac:(lia) ltac:(lia) Hi Hwd1) as Bw.
  cbn [unit_eqb andb orb]. rewrite (show_Z_4 cy), week_text_spec by lia.
  destruct (n =? 1) eqn:E1.
  - assert (n = 1) by lia. subst n.
    eexists. split; [reflexivity|]. split; [|reflexivity]. apply parse_simple_period. exact Bw.
  - assert (1 <? n = true) as -> by lia.
    eexists. split; [reflexivity|]. split; [|reflexivity].
    exact (parse_long_ok Week (t_yw cy w) _ (Some n) ltac:(discriminate) Bw eq_refl).
Qed.

Lemma rt_weekday y m d n : valid (y, m, d) -> 1000 <= y <= 9999 -> 0 < n -> rt (Weekday, (y, m, d), n).
Proof.
  intros Hv Hy Hn.
  unfold rt. change (canon (Weekday, (y, m, d), n)) with (Weekday, (y, m, d), n).
  unfold show_period. rewrite (py_date_ok_valid _ _ _ Hv) by lia. cbn [negb].
  destruct (isocalendar (y, m, d)) as [[cy w] wd] eqn:Hi.
  pose proof (isocalendar_year_range _ _ _ _ _ _ Hv Hy Hi) as Hcy.
  destruct (isocalendar_spec _ _ _ Hv _ _ _ Hi) as (_ & Hw & Hw53 & Hwd & _).
  pose proof (body_weekday y m d cy w wd Hv ltac:(lia) ltac:(lia) Hi) as Bw.
  cbn [unit_eqb andb orb]. rewrite (show_Z_4 cy), week_text_spec, (show_Z_1 wd) by lia.
  destruct (n =? 1) eqn:E1.
  - assert (n = 1) by lia. subst n.
    eexists. split; [reflexivity|]. split; [|reflexivity]. apply parse_simple_period. exact Bw.
  - assert (1 <? n = true) as -> by lia.
    eexists. split; [reflexivity|]. split; [|reflexivity].
    exact (parse_long_ok Weekday (t_ywd cy w wd) _ (Some n) ltac:(discriminate) Bw eq_refl).
Qed.

Lemma rt_claimed p : claimed p -> rt p.
Proof.
  destruct p as [[u [[y m] d]] n]. unfold claimed. cbn [p_unit p_start p_size fst snd].
  destruct u; cbn [aligned].
  - intros (Hv & Hy & Hn & _). apply rt_weekday; assumption.
  - intros (Hv & Hy & Hn & Ha). apply rt_week; assumption.
  - intros (Hv & Hy & Hn & _). apply rt_day; assumption.
  - intros (Hv & Hy & Hn & ->). apply rt_month; assumption.
  - intros (Hv & Hy & Hn & ->). apply rt_year; assumption.
  - intros ->. exists "ETERNITY". repeat split; reflexivity.
Qed.

(** * The theorems of C05 *)

Lemma period_roundtrip_lemma p : claimed p ->
  exists s q, show_period p = Ok s /\ parse_period s = Ok q /\ show_period q = Ok s /\
    p_start q = p_start p /\ stop q = stop p /\ days q = days p /\
    (if unit_eqb (p_unit p) Month && (p_size p =? 12) then p_unit q = Year /\ p_size q = 1 else q = p).
Proof.
  intros Hc. destruct (rt_claimed p Hc) as (s & H1 & H2 & H3). exists s, (canon p).
  repeat (split; [assumption|]). clear. destruct p as [[u s0] n]. unfold canon.
  cbn [p_unit p_start p_size fst snd].
  destruct (unit_eqb u Month && (n =? 12)) eqn:E; [|auto].
  apply andb_prop in E. destruct E as [Eu En]. destruct u; try discriminate Eu.
  assert (n = 12) by lia. subst n.
  split; [reflexivity|]. split; [|split; [|split; reflexivity]].
  - unfold stop, add_years. change (12 * 1) with 12. reflexivity.
  - unfold days, stop, add_years. cbn [p_start fst snd]. change (12 * 1) with 12. reflexivity.
Qed.

Lemma show_injective_lemma p q : claimed p -> claimed q -> p_unit p = p_unit q ->
  show_period p = show_period q -> p = q.
Proof.
  intros Hp Hq Hu Hs.
  destruct (rt_claimed p Hp) as (s1 & A1 & A2 & _). destruct (rt_claimed q Hq) as (s2 & B1 & B2 & _).
  assert (s1 = s2) by congruence. subst s2. assert (canon p = canon q) as Hc by congruence.
  clear - Hu Hc. destruct p as [[u s] n], q as [[u' s'] n']. cbn in Hu. subst u'. unfold canon in Hc.
  destruct (unit_eqb u Month && (n =? 12)) eqn:E1; destruct (unit_eqb u Month && (n' =? 12)) eqn:E2.
  - apply andb_prop in E1, E2. assert (n = 12) by lia. assert (n' = 12) by lia. congruence.
  - apply andb_prop in E1. destruct E1 as [E1 _]. destruct u; try discriminate E1. inversion Hc.
  - apply andb_prop in E2. destruct E2 as [E2 _]. destruct u; try discriminate E2. inversion Hc.
  - assumption.
Qed.

Lemma parse_simple_instant s q : parse_simple s = Ok q -> parse_instant s = Ok (p_start q).
Proof.
  unfold parse_simple. destruct (parse_instant s); cbn; [|discriminate].
  destruct (parse_unit s); cbn; [|discriminate]. intros H. inversion H. reflexivity.
Qed.

Lemma iso_text_spec y m d : 0 <= y <= 9999 -> 0 <= m <= 99 -> 0 <= d <= 99 -> iso_text y m d = t_ymd y m d.
Proof.
  intros. unfold iso_text. rewrite pad4_spec, !pad2_spec by lia. reflexivity.
Qed.

Lemma instant_roundtrip_lemma y m d : valid (y, m, d) -> y <= 9999 ->
  show_instant (y, m, d) = Ok (iso_text y m d) /\ parse_instant (iso_text y m d) = Ok (y, m, d).
Proof.
  intros Hv Hy. destruct (valid_bounds _ _ _ Hv) as (Hy1 & Hm & Hd). split.
  - unfold show_instant. rewrite (py_date_ok_valid _ _ _ Hv Hy). reflexivity.
  - rewrite iso_text_spec by lia. apply (parse_simple_instant _ _ (body_day _ _ _ Hv Hy)).
Qed.

(** ** Rejections *)

Lemma parse_period_plain s : colon_free s -> (lower s =? "eternity")%string = false ->
  parse_period s = if is_instant_str s then parse_simple s else Err EPeriod.
Proof.
  intros Hc He. unfold parse_period. change (unit_name Eternity) with "eternity". rewrite He.
  destruct (is_instant_str s); [reflexivity|]. unfold is_period_str. rewrite Hc. reflexivity.
Qed.

Lemma parse_simple_err_not_instant s : is_instant_str s = false -> parse_simple s = Err EPeriod.
Proof. intros H. unfold parse_simple, parse_instant. rewrite H. reflexivity. Qed.

(* a date text that does not parse is rejected on its own ... *)
Lemma rejected_plain s e : colon_free s -> (lower s =? "eternity")%string = false ->
  parse_simple s = Err e -> rejected s.
Proof.
  intros Hc He Hp. unfold rejected. rewrite parse_period_plain by assumption.
  destruct (is_instant_str s); eauto.
Qed.

(* ... and inside "unit:date[:size...]" whatever the other fields are *)
Lemma rejected_long u body rest e : Forall colon_free (u :: body :: rest) ->
  parse_simple body = Err e -> rejected (join_colon (u :: body :: rest)).
Proof.
  intros Hf Hp. unfold rejected. rewrite parse_period_long by assumption.
  destruct (is_instant_str body); [|eauto].
  unfold period_of_components. destruct (unit_of_name u) as [[]|]; rewrite ?Hp; cbn [bind]; eauto.
Qed.

Lemma instant_str_ymd a b c d m1 m2 d1 d2 :
  is_digit a = true -> is_digit b = true -> is_digit c = true -> is_digit d = true ->
  is_digit m1 = true -> is_digit m2 = true -> is_digit d1 = true -> is_digit d2 = true ->
  is_instant_str (String a (String b (String c (String d (String "-" (String m1 (String m2
                  (String "-" (String d1 (String d2 "")))))))))) = re_month m1 m2 && re_day d1 d2.
Proof.
  intros Ha Hb Hc Hd Hm1 Hm2 Hd1 Hd2.
  dfacts Ha. dfacts Hb. dfacts Hc. dfacts Hd. dfacts Hm1. dfacts Hm2. dfacts Hd1. dfacts Hd2.
  unfold is_instant_str. repeat shape_step. rewrite orb_false_r.
  destruct (re_month m1 m2); reflexivity.
Qed.

Lemma impossible_date_unparsable y m d : 0 <= y <= 9999 -> 0 <= m <= 99 -> 0 <= d <= 99 ->
  validb (y, m, d) = false -> parse_simple (iso_text y m d) = Err EPeriod.
Proof.
  intros Hy Hm Hd Hv. rewrite iso_text_spec by lia.
  destruct ((1 <=? m) && (m <=? 12) && ((1 <=? d) && (d <=? 31))) eqn:E.
  - change (t_ymd y m d) with (d4 y ++ "-" ++ d2 m ++ "-" ++ d2 d).
    rewrite simple_day by lia. unfold pendulum_ymd. rewrite Hv. reflexivity.
  - apply parse_simple_err_not_instant.
    destruct (d4_digit_hyps y ltac:(lia)) as (A & B & C & D).
    change (t_ymd y m d) with (d4 y ++ "-" ++ d2 m ++ "-" ++ d2 d). unfold d4, d2. cbn [append].
    rewrite instant_str_ymd; try assumption; try (apply is_digit_char; lia).
    rewrite re_month_d2, re_day_d2 by lia. exact E.
Qed.

Lemma week_beyond_unparsable y w : 0 <= y <= 9999 -> 1 <= w <= 53 -> weeks_in_iso_year y < w ->
  parse_simple (t_yw y w) = Err EPeriod /\
  forall wd, 1 <= wd <= 7 -> parse_simple (t_ywd y w wd) = Err EPeriod.
Proof.
  intros Hy Hw Hlt. split.
  - unfold t_yw. rewrite simple_week by lia. unfold pendulum_week_date.
    assert (weeks_in_iso_year y <? w = true) as -> by lia. reflexivity.
  - intros wd Hwd.
    change (t_ywd y w wd) with (d4 y ++ "-" ++ String "W" (d2 w) ++ "-" ++ String (digit_char wd) "").
    rewrite simple_weekday by lia. unfold pendulum_week_date.
    assert (weeks_in_iso_year y <? w = true) as -> by lia. reflexivity.
Qed.

Lemma t_ymd_plain y m d : 0 <= y <= 9999 -> 0 <= m <= 99 -> 0 <= d <= 99 ->
  colon_free (t_ymd y m d) /\ (lower (t_ymd y m d) =? "eternity")%string = false.
Proof.
  intros Hy Hm Hd. destruct (d4_digit_hyps y ltac:(lia)) as (A & B & C & D).
  assert (is_digit (digit_char (m / 10)) = true) as M1 by (apply is_digit_char; lia).
  assert (is_digit (digit_char (m mod 10)) = true) as M2 by (apply is_digit_char; lia).
  assert (is_digit (digit_char (d / 10)) = true) as D1 by (apply is_digit_char; lia).
  assert (is_digit (digit_char (d mod 10)) = true) as D2 by (apply is_digit_char; lia).
  change (t_ymd y m d) with (d4 y ++ "-" ++ d2 m ++ "-" ++ d2 d). unfold d4, d2. cbn [append]. split.
  - unfold colon_free. pose proof A as A'. all_dfacts. cbn [has_char]. rw_chars. reflexivity.
  - apply not_eternity_digit. assumption.
Qed.

Lemma t_yw_plain y w : 0 <= y <= 9999 -> 0 <= w <= 99 ->
  colon_free (t_yw y w) /\ (lower (t_yw y w) =? "eternity")%string = false /\
  forall wd, 0 <= wd <= 9 ->
    colon_free (t_ywd y w wd) /\ (lower (t_ywd y w wd) =? "eternity")%string = false.
Proof.
  intros Hy Hw. destruct (d4_digit_hyps y ltac:(lia)) as (A & B & C & D).
  assert (is_digit (digit_char (w / 10)) = true) as M1 by (apply is_digit_char; lia).
  assert (is_digit (digit_char (w mod 10)) = true) as M2 by (apply is_digit_char; lia).
  split; [|split].
  - unfold t_yw, d4, d2. cbn [append]. unfold colon_free. all_dfacts. cbn [has_char]. rw_chars. reflexivity.
  - unfold t_yw, d4. cbn [append]. apply not_eternity_digit. assumption.
  - intros wd Hwd. assert (is_digit (digit_char wd) = true) as E by (apply is_digit_char; lia).
    change (t_ywd y w wd) with (d4 y ++ "-" ++ String "W" (d2 w) ++ "-" ++ String (digit_char wd) "").
    unfold d4, d2. cbn [append]. split.
    + unfold colon_free. pose proof A as A'. all_dfacts. cbn [has_char]. rw_chars. reflexivity.
    + apply not_eternity_digit. assumption.
Qed.

(** ** One lemma per rejection class of the statement *)

(* 1. impossible calendar date, alone or as the date field of a longer text *)
Lemma rejects_impossible_date_lemma y m d : 0 <= y <= 9999 -> 0 <= m <= 99 -> 0 <= d <= 99 ->
  validb (y, m, d) = false ->
  rejected (iso_text y m d) /\
  forall u rest, Forall colon_free (u :: rest) -> rejected (join_colon (u :: iso_text y m d :: rest)).
Proof.
  intros Hy Hm Hd Hv. pose proof (impossible_date_unparsable y m d Hy Hm Hd Hv) as He.
  rewrite iso_text_spec in * by lia. destruct (t_ymd_plain y m d Hy Hm Hd) as [Hc Hl]. split.
  - eapply rejected_plain; eassumption.
  - intros u rest Hf. inversion Hf; subst. eapply rejected_long; [|eassumption].
    constructor; [assumption|]. constructor; assumption.
Qed.

(* 1'. week number beyond the last ISO week of the year (week 53 of a 52-week year) *)
Lemma rejects_week_beyond_lemma y w : 0 <= y <= 9999 -> 1 <= w <= 53 -> weeks_in_iso_year y < w ->
  let week := pad4 y ++ "-W" ++ pad2 w in
  rejected week /\
  (forall wd, 1 <= wd <= 7 -> rejected (week ++ "-" ++ show_Z wd)) /\
  forall u rest, Forall colon_free (u :: rest) ->
    rejected (join_colon (u :: week :: rest)) /\
    forall wd, 1 <= wd <= 7 -> rejected (join_colon (u :: (week ++ "-" ++ show_Z wd) :: rest)).
Proof.
  intros Hy Hw Hlt week. destruct (week_beyond_unparsable y w Hy Hw Hlt) as [E1 E2].
  destruct (t_yw_plain y w Hy ltac:(lia)) as (C1 & L1 & P2).
  assert (week = t_yw y w) as Ew. { unfold week. rewrite pad4_spec, pad2_spec by lia. reflexivity. }
  assert (forall wd, 1 <= wd <= 7 -> week ++ "-" ++ show_Z wd = t_ywd y w wd) as Ewd.
  { intros wd Hwd. rewrite Ew, show_Z_1 by lia. reflexivity. }
  split; [|split].
  - rewrite Ew. eapply rejected_plain; eassumption.
  - intros wd Hwd. rewrite Ewd by assumption. destruct (P2 wd ltac:(lia)) as [C2 L2].
    eapply rejected_plain; [assumption|assumption|apply E2; assumption].
  - intros u rest Hf. inversion Hf; subst. split.
    + rewrite Ew. eapply rejected_long; [|eassumption]. constructor; [assumption|]. constructor; assumption.
    + intros wd Hwd. rewrite Ewd by assumption. destruct (P2 wd ltac:(lia)) as [C2 L2].
      eapply rejected_long; [|apply E2; assumption]. constructor; [assumption|]. constructor; assumption.
Qed.

(* 2. unit lighter than the precision of the date (engine's unit weights, Tables.unit_weight) *)
Lemma rejects_finer_unit_lemma u body rest q : Forall colon_free (body :: rest) ->
  parse_simple body = Ok q -> unit_weight u < unit_weight (p_unit q) ->
  rejected (join_colon (unit_name u :: body :: rest)).
Proof.
  intros Hf Hq Hw. unfold rejected. rewrite parse_period_long.
  2: { constructor; [apply unit_name_colon_free|assumption]. }
  rewrite (parse_simple_ok_instant _ _ Hq). unfold period_of_components. rewrite unit_of_name_name, Hq.
  assert (unit_weight u <? unit_weight (p_unit q) = true) as Ew by lia.
  destruct u; try (eexists; reflexivity);
    (destruct rest as [|sz [|x xs]]; cbn [bind];
     [rewrite Ew; eauto | destruct (py_int sz); cbn [bind]; [rewrite Ew|]; eauto | eauto]).
Qed.

(* 3. size that is not an integer *)
Lemma rejects_noninteger_size_lemma u body sz : Forall colon_free [u; body; sz] -> py_int sz = None ->
  rejected (join_colon [u; body; sz]).
Proof.
  intros Hf Hs. unfold rejected. rewrite parse_period_long by assumption.
  destruct (is_instant_str body); [|eauto]. unfold period_of_components.
  destruct (unit_of_name u) as [[]|]; eauto; destruct (parse_simple body); cbn [bind]; eauto;
    rewrite Hs; cbn [bind]; eauto.
Qed.

(* 4. unknown unit *)
Lemma unit_of_name_none u : (forall v, u <> unit_name v) -> unit_of_name u = None.
Proof.
  intros H. unfold unit_of_name, all_units. cbn [find].
  repeat match goal with
  | |- context [(unit_name ?v =? u)%string] =>
      let E := fresh in destruct (unit_name v =? u)%string eqn:E;
      [apply String.eqb_eq in E; exfalso; exact (H v (eq_sym E))|]
  end. reflexivity.
Qed.

Lemma rejects_unknown_unit_lemma u body rest : Forall colon_free (u :: body :: rest) ->
  (forall v, v <> Eternity -> u <> unit_name v) -> rejected (join_colon (u :: body :: rest)).
Proof.
  intros Hf Hu. unfold rejected. rewrite parse_period_long by assumption.
  destruct (is_instant_str body); [|eauto]. unfold period_of_components.
  destruct (unit_of_name u) as [v|] eqn:E; [|eauto].
  assert (u = unit_name v) as Ev.
  { unfold unit_of_name in E. apply find_some in E. destruct E as [_ E]. apply String.eqb_eq in E. auto. }
  destruct v; eauto; exfalso; eapply Hu; try exact Ev; discriminate.
Qed.

(* 5. extra fields *)
Lemma rejects_extra_fields_lemma a b c d rest : Forall colon_free (a :: b :: c :: d :: rest) ->
  rejected (join_colon (a :: b :: c :: d :: rest)).
Proof.
  intros Hf. unfold rejected. rewrite parse_period_long by assumption.
  destruct (is_instant_str b); [|eauto]. unfold period_of_components.
  destruct (unit_of_name a) as [[]|]; eauto; destruct (parse_simple b); cbn [bind]; eauto.
Qed.

(* 6. empty fields *)
Lemma rejects_empty_field_lemma u body rest : Forall colon_free (u :: body :: rest) ->
  In "" (u :: body :: rest) -> rejected (join_colon (u :: body :: rest)).
Proof.
  intros Hf Hin. unfold rejected. rewrite parse_period_long by assumption.
  destruct (is_instant_str body) eqn:Ei; [|eauto]. unfold period_of_components.
  destruct Hin as [E|[E|Hin]]; [subst u|subst body|].
  - cbn. eauto.
  - discriminate Ei.
  - destruct (unit_of_name u) as [[]|]; eauto; destruct (parse_simple body); cbn [bind]; eauto;
      (destruct rest as [|sz [|x xs]]; [destruct Hin| |cbn [bind]; eauto]);
      (destruct Hin as [E|[]]; subst sz; cbn; eauto).
Qed.

Lemma rejects_empty_text_lemma : rejected "".
Proof. eexists. reflexivity. Qed.

(** ** A size containing any character other than digits, sign, underscore, white space is not an integer *)

Lemma int_digits_chars s : forall a p n, int_digits a p s = Some n ->
  forall c, has_char c s = true -> is_digit c = true \/ (c =? "_")%char = true.
Proof.
  induction s as [|x r IH]; intros a p n H c Hc; [discriminate Hc|].
  cbn [int_digits] in H. cbn [has_char] in Hc.
  destruct (digit_val x) as [k|] eqn:Ed.
  - apply orb_prop in Hc. destruct Hc as [Hc|Hc]; [|eapply IH; eassumption].
    apply Ascii.eqb_eq in Hc. subst c. left. unfold is_digit. rewrite Ed. reflexivity.
  - destruct ((x =? "_")%char && p) eqn:Eu; [|discriminate H].
    apply andb_prop in Eu. destruct Eu as [Eu _].
    apply orb_prop in Hc. destruct Hc as [Hc|Hc]; [|eapply IH; eassumption].
    apply Ascii.eqb_eq in Hc. subst c. right. exact Eu.
Qed.

Lemma lstrip_keeps c s : is_space c = false -> has_char c s = true -> has_char c (lstrip s) = true.
Proof.
  intros Hs. induction s as [|a r IH]; cbn [lstrip has_char]; [auto|]. intros H.
  destruct (is_space a) eqn:Ea; [|cbn [has_char]; exact H].
  apply orb_prop in H. destruct H as [H|H]; [|auto].
  apply Ascii.eqb_eq in H. subst a. congruence.
Qed.

Lemma rstrip_keeps c s : is_space c = false -> has_char c s = true -> has_char c (rstrip s) = true.
Proof.
  intros Hs. induction s as [|a r IH]; cbn [rstrip has_char]; [auto|]. intros H.
  apply orb_prop in H. destruct H as [H|H].
  - apply Ascii.eqb_eq in H. subst a. destruct (rstrip r); [rewrite Hs|]; cbn [has_char];
      rewrite Ascii.eqb_refl; reflexivity.
  - specialize (IH H). destruct (rstrip r) as [|x r'] eqn:Er; [discriminate IH|].
    cbn [has_char] in *. rewrite IH. apply orb_true_r.
Qed.

Lemma py_int_foreign_char sz c : has_char c sz = true -> int_char c = false -> py_int sz = None.
Proof.
  intros Hc Hi. unfold int_char in Hi.
  repeat (apply orb_false_elim in Hi; destruct Hi as [Hi ?]).
  unfold py_int. pose proof (rstrip_keeps c _ ltac:(assumption) (lstrip_keeps c sz ltac:(assumption) Hc)) as Ht.
  destruct (rstrip (lstrip sz)) as [|x r]; [reflexivity|].
  assert (forall s, has_char c s = true -> int_digits 0 false s = None) as Hn.
  { intros s Hs. destruct (int_digits 0 false s) eqn:E; [|reflexivity].
    destruct (int_digits_chars _ _ _ _ E c Hs); congruence. }
  cbn [has_char] in Ht.
  destruct (x =? "+")%char eqn:Ep; [|destruct (x =? "-")%char eqn:Em].
  - apply Ascii.eqb_eq in Ep. subst x. rewrite Ascii.eqb_sym in Ht.
    replace (c =? "+")%char with false in Ht by congruence. rewrite (Hn r Ht). reflexivity.
  - apply Ascii.eqb_eq in Em. subst x. rewrite Ascii.eqb_sym in Ht.
    replace (c =? "-")%char with false in Ht by congruence. rewrite (Hn r Ht). reflexivity.
  - apply Hn. cbn [has_char]. exact Ht.
Qed.

Lemma rejects_foreign_size_lemma u body sz c : Forall colon_free [u; body; sz] ->
  has_char c sz = true -> int_char c = false -> rejected (join_colon [u; body; sz]).
Proof.
  intros Hf Hc Hi. apply rejects_noninteger_size_lemma; [assumption|].
  eapply py_int_foreign_char; eassumption.
Qed.
