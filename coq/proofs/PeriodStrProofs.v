(** Proofs about the text forms of periods and instants [PeriodStr]. *)
From Coq Require Import ZArith List Bool Ascii String Lia ZifyBool.
From Verif Require Import Base Cal Tables Period PeriodStr.
Ltac Zify.zify_post_hook ::= Z.to_euclidean_division_equations.
Import ListNotations.
Open Scope string_scope.
Open Scope Z_scope.

Lemma eternity_roundtrip_lemma :
  show_period eternity_period = Ok "ETERNITY" /\ parse_period "ETERNITY" = Ok eternity_period.
Proof. split; reflexivity. Qed.
