(** Proofs about the calendar model [Cal]. *)
From Coq Require Import ZArith List Bool Lia ZifyBool.
From Verif Require Import Base Cal Tables Period PeriodSpec.
Ltac Zify.zify_post_hook ::= Z.to_euclidean_division_equations.
Open Scope Z_scope.

Lemma ybase_succ y : ybase (y + 1) = ybase y + 365 + (if leap y then 1 else 0).
Proof.
  unfold ybase, leap.
  destruct (y mod 4 =? 0) eqn:E4; destruct (y mod 100 =? 0) eqn:E100;
    destruct (y mod 400 =? 0) eqn:E400; cbn [andb orb negb]; lia.
Qed.

Lemma leap_cases y : leap y = true \/ leap y = false.
Proof. destruct (leap y); auto. Qed.

(* year decomposition used by [of_ord] *)
Lemma ybase_decomp n400 n100 n4 n1 :
  0 <= n100 <= 3 -> 0 <= n4 <= 24 -> 0 <= n1 <= 3 ->
  ybase (400 * n400 + 100 * n100 + 4 * n4 + n1 + 1)
  = 146097 * n400 + 36524 * n100 + 1461 * n4 + 365 * n1.
Proof. intros. unfold ybase. lia. Qed.

Lemma leap_decomp n400 n100 n4 n1 :
  0 <= n100 <= 3 -> 0 <= n4 <= 24 -> 0 <= n1 <= 3 ->
  leap (400 * n400 + 100 * n100 + 4 * n4 + n1 + 1)
  = (n1 =? 3) && ((negb (n4 =? 24)) || (n100 =? 3)).
Proof. intros. unfold leap. lia. Qed.

Definition off (lp : bool) (m : Z) : Z := cum m + (if (2 <? m) && lp then 1 else 0).
Definition dim' (lp : bool) (m : Z) : Z :=
  if m =? 2 then (if lp then 29 else 28)
  else if (m =? 4) || (m =? 6) || (m =? 9) || (m =? 11) then 30 else 31.

Lemma dim_dim' y m : dim y m = dim' (leap y) m.
Proof. reflexivity. Qed.

Lemma month_of_doy_spec (lp : bool) (doy : Z) :
  0 <= doy < 365 + (if lp then 1 else 0) ->
  let m := month_of_doy lp doy in
  1 <= m <= 12 /\ off lp m <= doy < off lp m + dim' lp m.
Proof.
  intros H. unfold month_of_doy.
  destruct lp; cbn [off];
  repeat match goal with
  | |- context [if ?a <? ?b then _ else _] => destruct (Z.ltb_spec a b)
  end; cbv [off dim' cum]; cbn; lia.
Qed.

Lemma of_ord_spec n : 1 <= n -> ord (of_ord n) = n /\ valid (of_ord n).
Proof.
  intros Hn. unfold of_ord.
  set (n0 := n - 1).
  set (n400 := n0 / 146097).
  set (r := n0 mod 146097).
  set (n100 := Z.min (r / 36524) 3).
  set (r2 := r - n100 * 36524).
  set (n4 := r2 / 1461).
  set (r3 := r2 mod 1461).
  set (n1 := Z.min (r3 / 365) 3).
  set (doy := r3 - n1 * 365).
  set (y := 400 * n400 + 100 * n100 + 4 * n4 + n1 + 1).
  assert (H100 : 0 <= n100 <= 3) by (subst n100 r n0; lia).
  assert (Hr2 : 0 <= r2 <= 36524) by (subst r2 n100 r n0; lia).
  assert (H4 : 0 <= n4 <= 24) by (subst n4; lia).
  assert (H1 : 0 <= n1 <= 3) by (subst n1 r3; lia).
  assert (Hn400 : 0 <= n400) by (subst n400 n0; lia).
  assert (Hdec : n0 = 146097 * n400 + 36524 * n100 + 1461 * n4 + 365 * n1 + doy)
    by (subst doy n1 r3 n4 r2 n100 r n400; lia).
  assert (Hleap : leap y = (n1 =? 3) && ((negb (n4 =? 24)) || (n100 =? 3)))
    by (subst y; apply leap_decomp; assumption).
  assert (Hdoy : 0 <= doy < 365 + (if leap y then 1 else 0)).
  { assert (Hr2' : n100 < 3 -> r2 < 36524) by (subst r2 n100 r n0; lia).
    assert (Hr3 : 0 <= r3 < 1461 /\ r2 = 1461 * n4 + r3) by (subst r3 n4; lia).
    assert (Hn1 : (r3 < 1095 -> n1 = r3 / 365) /\ (1095 <= r3 -> n1 = 3)) by (subst n1; lia).
    rewrite Hleap. clearbody r3 n4 r2 n100 n1. subst doy.
    destruct (n1 =? 3) eqn:E1; destruct (n4 =? 24) eqn:E2; destruct (n100 =? 3) eqn:E3;
      cbn [andb orb negb]; lia. }
  assert (Hyb : ybase y = 146097 * n400 + 36524 * n100 + 1461 * n4 + 365 * n1)
    by (subst y; apply ybase_decomp; assumption).
  pose proof (month_of_doy_spec (leap y) doy Hdoy) as Hm. cbv zeta in Hm.
  set (m := month_of_doy (leap y) doy) in *.
  destruct Hm as [Hm1 Hm2]. unfold off in Hm2.
  split.
  - unfold ord. rewrite Hyb. lia.
  - unfold valid, validb. rewrite dim_dim'. 
    assert (1 <= y) by (subst y; lia). lia.
Qed.

Lemma ybase_mono y1 y2 : y1 <= y2 -> ybase y1 <= ybase y2.
Proof. unfold ybase. lia. Qed.

Ltac month_cases m :=
  let H := fresh "Hc" in
  assert (m = 1 \/ m = 2 \/ m = 3 \/ m = 4 \/ m = 5 \/ m = 6 \/ m = 7 \/ m = 8 \/ m = 9
          \/ m = 10 \/ m = 11 \/ m = 12) as H by lia;
  destruct H as [->|[->|[->|[->|[->|[->|[->|[->|[->|[->|[->| ->]]]]]]]]]]].

Lemma off_succ lp m : 1 <= m <= 11 -> off lp (m + 1) = off lp m + dim' lp m.
Proof. intros H. month_cases m; destruct lp; cbv; try reflexivity; lia. Qed.

Lemma dim'_pos lp m : 28 <= dim' lp m <= 31.
Proof. unfold dim'. destruct lp; repeat match goal with |- context [if ?b then _ else _] => destruct b end; lia. Qed.

Lemma off_mono lp m1 m2 : 1 <= m1 -> m1 < m2 -> m2 <= 12 -> off lp m1 + dim' lp m1 <= off lp m2.
Proof.
  intros H1 H2 H3. month_cases m1; month_cases m2; try lia; destruct lp; cbv; congruence.
Qed.

Lemma off_12 lp : off lp 12 + dim' lp 12 = 365 + (if lp then 1 else 0).
Proof. destruct lp; reflexivity. Qed.

Lemma off_1 lp : off lp 1 = 0.
Proof. destruct lp; reflexivity. Qed.

Lemma ord_off y m d : ord (y, m, d) = ybase y + off (leap y) m + d.
Proof. unfold ord, off. lia. Qed.

Lemma valid_iff y m d :
  valid (y, m, d) <-> 1 <= y /\ 1 <= m <= 12 /\ 1 <= d <= dim' (leap y) m.
Proof. unfold valid, validb. rewrite dim_dim'. lia. Qed.

(* the ordinal of a valid date lies inside its year *)
Lemma ord_in_year y m d : valid (y, m, d) ->
  ybase y + 1 <= ord (y, m, d) <= ybase y + 365 + (if leap y then 1 else 0).
Proof.
  intros H. apply valid_iff in H. destruct H as [Hy [Hm Hd]]. rewrite ord_off.
  assert (0 <= off (leap y) m).
  { destruct (Z.eq_dec m 1) as [->|]. rewrite off_1; lia.
    pose proof (off_mono (leap y) 1 m). rewrite off_1 in *. pose proof (dim'_pos (leap y) 1). lia. }
  assert (off (leap y) m + dim' (leap y) m <= 365 + (if leap y then 1 else 0)).
  { destruct (Z.eq_dec m 12) as [->|]. rewrite off_12; lia.
    pose proof (off_mono (leap y) m 12). rewrite <- off_12. pose proof (dim'_pos (leap y) 12). lia. }
  lia.
Qed.

Lemma ord_lt a b : valid a -> valid b -> date_ltb a b = true -> ord a < ord b.
Proof.
  destruct a as [[y1 m1] d1], b as [[y2 m2] d2]. intros Ha Hb Hlt.
  pose proof (ord_in_year _ _ _ Ha) as Ia. pose proof (ord_in_year _ _ _ Hb) as Ib.
  apply valid_iff in Ha, Hb. unfold date_ltb, date_leb, date_eqb in Hlt.
  destruct (Z.lt_trichotomy y1 y2) as [Hy|[Hy|Hy]]; [| |lia].
  - pose proof (ybase_mono (y1 + 1) y2 ltac:(lia)) as Hm. rewrite ybase_succ in Hm. lia.
  - subst y2. rewrite !ord_off.
    destruct (Z.lt_trichotomy m1 m2) as [Hm|[Hm|Hm]]; [| |lia].
    + pose proof (off_mono (leap y1) m1 m2). lia.
    + subst m2. lia.
Qed.

Lemma date_eqb_eq a b : date_eqb a b = true <-> a = b.
Proof.
  destruct a as [[y1 m1] d1], b as [[y2 m2] d2]. unfold date_eqb. split.
  - intros H. assert (y1 = y2 /\ m1 = m2 /\ d1 = d2) as [-> [-> ->]] by lia. reflexivity.
  - intros H. inversion H. lia.
Qed.

Lemma date_trichotomy a b : date_ltb a b = true \/ a = b \/ date_ltb b a = true.
Proof.
  destruct (date_eqb a b) eqn:E. { right; left. apply date_eqb_eq, E. }
  destruct a as [[y1 m1] d1], b as [[y2 m2] d2]. unfold date_ltb, date_leb, date_eqb in *. lia.
Qed.

Theorem ord_inj a b : valid a -> valid b -> ord a = ord b -> a = b.
Proof.
  intros Ha Hb H. destruct (date_trichotomy a b) as [Hl|[->|Hl]]; [|reflexivity|].
  - pose proof (ord_lt a b Ha Hb Hl). lia.
  - pose proof (ord_lt b a Hb Ha Hl). lia.
Qed.

Theorem ord_lt_iff a b : valid a -> valid b -> (date_ltb a b = true <-> ord a < ord b).
Proof.
  intros Ha Hb. split; [apply ord_lt; assumption|]. intros H.
  destruct (date_trichotomy a b) as [Hl|[->|Hl]]; [assumption|lia|].
  pose proof (ord_lt b a Hb Ha Hl). lia.
Qed.

Theorem ord_le_iff a b : valid a -> valid b -> (date_leb a b = true <-> ord a <= ord b).
Proof.
  intros Ha Hb. pose proof (ord_lt_iff a b Ha Hb) as [H1 H2].
  pose proof (ord_lt_iff b a Hb Ha) as [H3 H4].
  destruct (date_trichotomy a b) as [Hl|[->|Hl]].
  - specialize (H1 Hl). split; [lia|]. intros _. unfold date_ltb in Hl.
    apply andb_prop in Hl. tauto.
  - split; [lia|]. intros _. destruct b as [[y m] d]. unfold date_leb. lia.
  - specialize (H3 Hl). split; [|lia]. intros Hle.
    destruct a as [[y1 m1] d1], b as [[y2 m2] d2].
    unfold date_ltb, date_leb, date_eqb in *. lia.
Qed.

Theorem ord_pos a : valid a -> 1 <= ord a.
Proof.
  destruct a as [[y m] d]. intros H. pose proof (ord_in_year _ _ _ H).
  apply valid_iff in H. pose proof (ybase_mono 1 y). unfold ybase at 1 in H1. cbn in H1. lia.
Qed.

Theorem of_ord_ord a : valid a -> of_ord (ord a) = a.
Proof.
  intros H. pose proof (ord_pos a H). destruct (of_ord_spec (ord a) H0) as [H1 H2].
  apply ord_inj; assumption.
Qed.

Theorem add_days_ord a n : valid a -> 1 <= ord a + n ->
  valid (add_days a n) /\ ord (add_days a n) = ord a + n.
Proof. intros Ha Hn. unfold add_days. destruct (of_ord_spec _ Hn). auto. Qed.

(** * The day after, weekdays *)

Theorem ord_epoch : ord (1, 1, 1) = 1.
Proof. reflexivity. Qed.

Theorem ord_next_day c : valid c -> valid (next_day c) /\ ord (next_day c) = ord c + 1.
Proof.
  destruct c as [[y m] d]. intros H. apply valid_iff in H. destruct H as [Hy [Hm Hd]].
  unfold next_day. rewrite dim_dim'.
  destruct (Z.ltb_spec d (dim' (leap y) m)).
  - split; [apply valid_iff; lia | rewrite !ord_off; lia].
  - assert (d = dim' (leap y) m) by lia. subst d.
    destruct (Z.ltb_spec m 12).
    + split.
      * apply valid_iff. pose proof (dim'_pos (leap y) (m + 1)). lia.
      * rewrite !ord_off, off_succ by lia. lia.
    + assert (m = 12) by lia. subst m. split.
      * apply valid_iff. pose proof (dim'_pos (leap (y + 1)) 1). lia.
      * rewrite !ord_off, ybase_succ, off_1. pose proof (off_12 (leap y)). lia.
Qed.

Theorem add_days_1 c : valid c -> add_days c 1 = next_day c.
Proof.
  intros H. destruct (ord_next_day c H) as [V E]. pose proof (ord_pos c H).
  destruct (add_days_ord c 1 H ltac:(lia)) as [V' E']. apply ord_inj; [assumption|assumption|lia].
Qed.

Theorem isoweekday_range c : 1 <= isoweekday c <= 7.
Proof. unfold isoweekday. lia. Qed.

Theorem isoweekday_epoch : isoweekday (1, 1, 1) = 1.
Proof. reflexivity. Qed.

Theorem isoweekday_next c : valid c -> isoweekday (next_day c) = isoweekday c mod 7 + 1.
Proof. intros H. destruct (ord_next_day c H) as [_ E]. unfold isoweekday. rewrite E. lia. Qed.

Theorem weekday_period_7 c n : valid c -> 1 <= ord c + 7 * n ->
  isoweekday (add_days c (7 * n)) = isoweekday c.
Proof.
  intros H Hn. destruct (add_days_ord c (7 * n) H Hn) as [_ E]. unfold isoweekday. rewrite E. lia.
Qed.

Theorem start_of_week_spec c : valid c ->
  valid (start_of_week c) /\ isoweekday (start_of_week c) = 1
  /\ ord (start_of_week c) <= ord c < ord (start_of_week c) + 7.
Proof.
  intros H. pose proof (ord_pos c H) as Hp. unfold start_of_week.
  destruct (add_days_ord c (1 - isoweekday c) H) as [V E]; [unfold isoweekday; lia|].
  split; [assumption|]. unfold isoweekday at 1. rewrite E. unfold isoweekday. lia.
Qed.

Theorem end_of_week_spec c : valid c ->
  valid (end_of_week c) /\ isoweekday (end_of_week c) = 7
  /\ ord c <= ord (end_of_week c) < ord c + 7.
Proof.
  intros H. pose proof (ord_pos c H) as Hp. unfold end_of_week.
  destruct (add_days_ord c (7 - isoweekday c) H) as [V E]; [unfold isoweekday; lia|].
  split; [assumption|]. unfold isoweekday at 1. rewrite E. unfold isoweekday. lia.
Qed.
