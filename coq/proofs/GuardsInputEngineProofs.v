(** The regenerated routing of an input (coq/gen/GuardsInput.v) is the one of
    [Engine.set_input]. *)
From Coq Require Import ZArith List Bool Lia.
From Verif Require Import Base Cal Tables Period Engine GuardsTypes GuardsInput GuardsInputEngineSem.
Import ListNotations.
Open Scope Z_scope.

Lemma of_nat_eqb : forall a b : nat, (Z.of_nat a =? Z.of_nat b) = Nat.eqb a b.
Proof.
  intros a b. destruct (Nat.eqb_spec a b) as [->|H].
  - apply Z.eqb_refl.
  - apply Z.eqb_neq. lia.
Qed.

Lemma engine_set_input_is_source : forall sy pp s v p a,
  set_input sy pp s v p a = src_engine_set_input sy pp s v p a.
Proof.
  intros sy pp s v p a. unfold set_input, src_engine_set_input.
  destruct (nth_error (vars sy) v) as [x|]; [|reflexivity].
  unfold gen_sim_set_input_ignored, gen_holder_set_input, gen_holder_eternal, gen_to_array_rejects,
    gen_holder_set_guard.
  rewrite of_nat_eqb, ?Z.gtb_ltb.
  destruct (v_end x) as [e|]; cbn [andb];
    try destruct (validb (p_start p) && date_ltb e (p_start p)); try reflexivity;
    destruct (v_unit x), (p_unit p); cbn;
    destruct (v_neutral x); try reflexivity;
    destruct (Nat.eqb (length a) (count_of pp (v_ent x))); cbn; try reflexivity;
    destruct (1 <? p_size p); reflexivity.
Qed.
